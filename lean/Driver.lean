/-
  Line-protocol driver: one operation per line in (`<model> <op> <args…>`), one canonical line out.
  Executes the same definitions the theorems are about (Model/*), compiled as a `lean_exe`.
-/
import YowsupVerif.Drv.Segments
import YowsupVerif.Drv.Coder
import YowsupVerif.Drv.Stack
import YowsupVerif.Drv.Locks
import YowsupVerif.Drv.Store
import YowsupVerif.Drv.Media
import YowsupVerif.Drv.Reg
import YowsupVerif.Drv.Config
import YowsupVerif.Drv.Iq
import YowsupVerif.Drv.Routing
import YowsupVerif.Drv.Life
import YowsupVerif.Drv.PreKeys
import YowsupVerif.Drv.Trust
import YowsupVerif.Drv.E2E
import YowsupVerif.Drv.Payload
import YowsupVerif.Drv.Conc
import YowsupVerif.Drv.SendBuf
import YowsupVerif.Drv.Handshake
import YowsupVerif.Drv.SentQueue
open Yow Yow.Drv

structure DrvState where
  seg : Segments.St := { enabled := true, buf := [] }
  stack : StackSt := {}
  locks : LocksSt := {}
  store : Yow.Store.Db := Yow.Store.empty
  iq : Yow.Iq.St := Yow.Iq.init
  life : Yow.Life.St := {}
  pk : PkSt := {}
  trust : Yow.Trust.St := Yow.Trust.init
  e2e : Yow.E2E.Sys := {}
  hs : Yow.HS.St := {}
  sq : List Nat := []

def step (s : DrvState) (line : String) : DrvState × String :=
  match (line.splitOn " ").filter (· ≠ "") with
  | "sq" :: rest => let r := sqStep s.sq rest; ({ s with sq := r.1 }, r.2)
  | "seg" :: rest => let r := segStep s.seg rest; ({ s with seg := r.1 }, r.2)
  | "coder" :: rest => (s, coderStep rest)
  | "iq" :: rest => let r := iqStep s.iq rest; ({ s with iq := r.1 }, r.2)
  | "hs" :: rest => let r := hsStep Yow.Gen.hsCfg s.hs rest; ({ s with hs := r.1 }, r.2)
  | "sendbuf" :: rest => (s, sendBufStep rest)
  | "conc" :: rest => (s, concStep rest)
  | "pl" :: rest => (s, payloadStep rest)
  | "e2e" :: rest => let r := e2eStep s.e2e rest; ({ s with e2e := r.1 }, r.2)
  | "trust" :: rest => let r := trustStep s.trust rest; ({ s with trust := r.1 }, r.2)
  | "pk" :: rest => let r := pkStep s.pk rest; ({ s with pk := r.1 }, r.2)
  | "life" :: rest => let r := lifeStep s.life rest; ({ s with life := r.1 }, r.2)
  | "route" :: rest => (s, routingStep rest)
  | "cfg" :: rest => (s, configStep rest)
  | "reg" :: rest => (s, regStep rest)
  | "media" :: rest => (s, mediaStep rest)
  | "store" :: rest => let r := storeStep s.store rest; ({ s with store := r.1 }, r.2)
  | "locks" :: rest => let r := locksStep s.locks rest; ({ s with locks := r.1 }, r.2)
  | "stack" :: rest => let r := stackStep s.stack rest; ({ s with stack := r.1 }, r.2)
  | _ => (s, "bad-op")

partial def loop (hin hout : IO.FS.Stream) (s : DrvState) : IO Unit := do
  let line ← hin.getLine
  if line.isEmpty then return ()
  let l := String.ofList (line.toList.filter (fun c => c != '\n' && c != '\r'))
  let (s', out) := step s l
  hout.putStrLn out
  hout.flush
  loop hin hout s'

def main : IO Unit := do
  loop (← IO.getStdin) (← IO.getStdout) {}
