import YowsupVerif.Audit
import YowsupVerif.Props.C01
import YowsupVerif.Props.C02
import YowsupVerif.Props.C05
import YowsupVerif.Props.C18
import YowsupVerif.Drv.Segments
import YowsupVerif.Drv.Coder
import YowsupVerif.Drv.Stack
