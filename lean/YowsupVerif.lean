import YowsupVerif.Audit
import YowsupVerif.Model.Bytes
import YowsupVerif.Model.Segments
import YowsupVerif.Lemmas.Segments
import YowsupVerif.Props.C05
import YowsupVerif.Drv.Segments
