/-
  C05  Frame segmentation: any chunking of the byte stream yields the original frames.
  Property theorems only; helper lemmas live in Lemmas/Segments.lean.
-/
import YowsupVerif.Lemmas.Segments
namespace Yow.Segments

def init : St := { enabled := true, buf := [] }

/-- Whatever way the stream of whole frames is cut into chunks, exactly the frames are
    handed upward, in order, and the buffer is empty afterwards. -/
theorem C05_any_chunking (fs : List Bytes) (hfs : FramesOK fs) (cs : List Bytes)
    (hcs : cs.flatten = stream fs) :
    run init cs = ({ enabled := true, buf := [] }, fs) := by
  unfold run init
  have h := run_enabled [] (peel_short [] (by simp)) cs []
  rw [h]
  have := peel_stream fs hfs []
  simp only [List.nil_append, List.append_nil] at this ⊢
  rw [hcs, this, peel_short [] (by simp)]
  simp

/-- Stream cut in the middle of a frame `g`: the complete frames before it are delivered,
    nothing else, and the buffer holds exactly the received part of `g`. -/
theorem C05_any_chunking_cut (fs : List Bytes) (hfs : FramesOK fs) (g tail rest : Bytes)
    (hg : 0 < g.length ∧ g.length < 16777216) (hrest : rest ≠ []) (hcut : tail ++ rest = frame g)
    (cs : List Bytes) (hcs : cs.flatten = stream fs ++ tail) :
    run init cs = ({ enabled := true, buf := tail }, fs) := by
  unfold run init
  rw [run_enabled [] (peel_short [] (by simp)) cs []]
  simp only [List.nil_append]
  rw [hcs, peel_stream fs hfs tail, peel_proper_prefix g tail rest hg hrest hcut]
  simp

/-- Delivery is incremental and never ahead of the bytes: after any prefix of the chunk list,
    what was delivered is a prefix of the final delivery (nothing is retracted or reordered). -/
theorem C05_delivered_monotone (cs ds : List Bytes) :
    ∃ more, (run init (cs ++ ds)).2 = (run init cs).2 ++ more := by
  unfold run init
  rw [run_enabled [] (peel_short [] (by simp)) (cs ++ ds) [],
      run_enabled [] (peel_short [] (by simp)) cs []]
  simp only [List.nil_append, List.flatten_append]
  rw [peel_append]
  exact ⟨_, rfl⟩

/-- Outgoing layout: the 3-byte big-endian length, then the payload, as two writes in that order. -/
theorem C05_send_layout (p : Bytes) (h : p.length < 16777216) :
    send true p = .writes [be24 p.length, p] := by
  unfold send; simp; omega

/-- The header decodes to the payload length (it is the big-endian representation). -/
theorem C05_send_header_value (p : Bytes) (h : p.length < 16777216) :
    rd24 (p.length / 65536 % 256) (p.length / 256 % 256) (p.length % 256) = p.length ∧
    BytesOK (be24 p.length) := by
  refine ⟨rd24_be24 _ h, ?_⟩
  intro b hb; simp [be24] at hb; omega

/-- Payloads that do not fit 24 bits are refused: nothing is written. -/
theorem C05_send_refuses_large (e : Bool) (p : Bytes) (h : 16777216 ≤ p.length) :
    send e p = .refused := by
  unfold send; simp [h]

/-- What `send` writes is read back by `recv` as exactly the payload. -/
theorem C05_send_then_recv (p : Bytes) (h0 : 0 < p.length) (h : p.length < 16777216)
    (cs : List Bytes) (hcs : cs.flatten = be24 p.length ++ p) :
    run init cs = ({ enabled := true, buf := [] }, [p]) := by
  apply C05_any_chunking [p] (by intro f hf; simp at hf; subst hf; exact ⟨h0, h⟩) cs
  simp [stream, frame, hcs]

/-- A frame whose handling closes the connection (re-entrantly, while the layer is still inside its loop) is the last frame handed up
    from that connection, and whatever the old connection had left behind is gone: the next connection's frames — any frames, any
    chunking — are handed up exactly. -/
theorem C05_after_closing_frame (closes : Bytes → Bool) (buf chunk : Bytes) (h : (recvC closes buf chunk).2.2 = true)
    (fs : List Bytes) (hfs : FramesOK fs) (cs : List Bytes) (hcs : cs.flatten = stream fs) :
    run { enabled := true, buf := (recvC closes buf chunk).1 } cs = ({ enabled := true, buf := [] }, fs) := by
  have hb : (recvC closes buf chunk).1 = [] := by
    unfold recvC at h ⊢
    by_cases hr : (peelF closes (buf ++ chunk)).2.2 = true
    · simp [hr]
    · simp [hr] at h
  rw [hb]
  exact C05_any_chunking fs hfs cs hcs

/-- With segmentation switched off the layer is the identity in both directions. -/
theorem C05_disabled_passthrough (buf c : Bytes) :
    recv { enabled := false, buf := buf } c = ({ enabled := false, buf := buf }, [c]) := by
  simp [recv]

theorem run_disabled_aux (b : Bytes) (raw acc : List Bytes) :
    raw.foldl (fun (a : St × List Bytes) c => let r := recv a.1 c; (r.1, a.2 ++ r.2)) ({ enabled := false, buf := b }, acc)
      = ({ enabled := false, buf := b }, acc ++ raw) := by
  induction raw generalizing acc with
  | nil => simp
  | cons c cs ih =>
    rw [List.foldl_cons]
    have h : (let r := recv (({ enabled := false, buf := b } : St), acc).1 c; (r.1, (({ enabled := false, buf := b } : St), acc).2 ++ r.2))
        = (({ enabled := false, buf := b } : St), acc ++ [c]) := by simp [recv]
    rw [h, ih]
    simp

/-- The way a login uses the layer: framing is off while the raw preamble travels — whatever arrives then is handed up as it is and leaves
    no trace in the layer — and is switched on for the rest of the same connection: the frames that follow are delivered exactly, in any
    chunking, whatever was received before the switch. -/
theorem C05_frames_after_the_switch (raw : List Bytes) (fs : List Bytes) (hfs : FramesOK fs) (cs : List Bytes)
    (hcs : cs.flatten = stream fs) :
    let s0 : St := { enabled := false, buf := [] }
    run s0 raw = (s0, raw) ∧ run { (run s0 raw).1 with enabled := true } cs = ({ enabled := true, buf := [] }, fs) := by
  have h1 : run { enabled := false, buf := [] } raw = ({ enabled := false, buf := [] }, raw) := by
    unfold run
    rw [run_disabled_aux [] raw []]
    simp
  refine ⟨h1, ?_⟩
  simp only [h1]
  exact C05_any_chunking fs hfs cs hcs

/-- One stretch of a connection between two moves of the framing switch: the position of the switch, the chunks that arrive while it holds and —
    for a stretch with framing on — the frames the peer sent during it. -/
structure Phase where
  on : Bool
  chunks : List Bytes
  frames : List Bytes

/-- what the peer sent during an on-stretch is whole frames, cut into chunks anywhere -/
def Phase.OK (p : Phase) : Prop := p.on = true → FramesOK p.frames ∧ p.chunks.flatten = stream p.frames

/-- what must reach the layer above during the stretch: the frames, or (framing off) the chunks as they came -/
def Phase.expected (p : Phase) : List Bytes := if p.on then p.frames else p.chunks

/-- the layer over a whole connection: the switch is set at the start of every stretch (the property is read at every call), the buffer is the layer's own -/
def runPhases : St → List Phase → St × List (List Bytes)
  | s, [] => (s, [])
  | s, p :: ps =>
    let r := run { s with enabled := p.on } p.chunks
    let rest := runPhases r.1 ps
    (rest.1, r.2 :: rest.2)

theorem run_off (raw : List Bytes) : run { enabled := false, buf := [] } raw = ({ enabled := false, buf := [] }, raw) := by
  unfold run
  rw [run_disabled_aux [] raw []]
  simp

/-- The switch may move any number of times within one connection (the login of an account with routing information: raw header, framed
    routing information, raw prologue, frames): every stretch delivers exactly what it should — the frames of an on-stretch in any chunking,
    the chunks of an off-stretch as they came — whatever the stretches before it were. -/
theorem C05_any_sequence_of_switches (ps : List Phase) (h : ∀ p ∈ ps, p.OK) (en : Bool) :
    (runPhases { enabled := en, buf := [] } ps).2 = ps.map Phase.expected ∧ (runPhases { enabled := en, buf := [] } ps).1.buf = [] := by
  induction ps generalizing en with
  | nil => simp [runPhases]
  | cons p ps ih =>
    have hp := h p (by simp)
    have hps : ∀ q ∈ ps, q.OK := fun q hq => h q (by simp [hq])
    cases hon : p.on with
    | true =>
      obtain ⟨hf, hc⟩ := hp hon
      have hr : run { enabled := true, buf := [] } p.chunks = ({ enabled := true, buf := [] }, p.frames) := C05_any_chunking p.frames hf p.chunks hc
      simp only [runPhases, hon, hr, List.map_cons, Phase.expected]
      exact ⟨by simp [(ih hps true).1], (ih hps true).2⟩
    | false =>
      have hr := run_off p.chunks
      simp only [runPhases, hon, hr, List.map_cons, Phase.expected]
      exact ⟨by simp [(ih hps false).1], (ih hps false).2⟩

/-- Sensitivity (seed C05-15): a layer that stays framed once framing has been on cuts the raw bytes of a later off-stretch up as frames. -/
theorem C05_latched_switch_breaks_a_later_raw_stretch :
    (recv { enabled := true, buf := [] } [0, 0, 1, 87, 65]).2 ≠ [[0, 0, 1, 87, 65]] ∧
    (runPhases { enabled := true, buf := [] } [⟨false, [[0, 0, 1, 87, 65]], []⟩]).2 = [[[0, 0, 1, 87, 65]]] := by
  constructor
  · simp [recv, peel, rd24]
  · simp [runPhases, run, recv]

/- Non-vacuity: the login of an account with routing information, as four stretches. -/
example : ∀ p ∈ ([⟨false, [[69, 68, 0, 1]], []⟩, ⟨true, [[0, 0], [2, 9, 9]], [[9, 9]]⟩, ⟨false, [[87, 65, 4, 0]], []⟩, ⟨true, [[0, 0, 1, 7]], [[7]]⟩] : List Phase), p.OK := by
  intro p hp
  simp at hp
  rcases hp with h | h | h | h <;> subst h <;> simp [Phase.OK, FramesOK, stream, frame, be24]

/-- Sensitivity (seed C05-13): a layer that also keeps what it hands up raw delivers something else after the switch. -/
theorem C05_bytes_kept_while_off_break_the_framing :
    (recv { enabled := true, buf := [0] } (frame [7, 7])).2 ≠ [[7, 7]] := by
  simp [recv, frame, be24, peel, rd24]

/- Non-vacuity: concrete frames and a chunking that cuts inside a header satisfy the hypotheses. -/
example : FramesOK [[7], [1, 2, 3, 4, 5]] := by
  intro f hf; simp at hf; rcases hf with h | h <;> subst h <;> simp
example : ([[0, 0], [1, 7, 0], [0, 5, 1, 2], [3, 4, 5]] : List Bytes).flatten
    = stream [[7], [1, 2, 3, 4, 5]] := by decide
example : ([0, 0] : Bytes) ++ [5, 1, 2, 3, 4, 5] = frame [1, 2, 3, 4, 5] ∧ ([5, 1, 2, 3, 4, 5] : Bytes) ≠ [] := by
  decide

end Yow.Segments
