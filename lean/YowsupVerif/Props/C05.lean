/-
  C05  Frame segmentation: any chunking of the byte stream yields the original frames.
  Property theorems only; helper lemmas live in Lemmas/Segments.lean.
-/
import YowsupVerif.Lemmas.Segments
namespace Yow.Segments

def init : St := { enabled := true, buf := [] }

/-- Whatever way the stream of whole frames is cut into chunks, exactly the frames are
    handed upward, in order, and the buffer is empty afterwards. -/
theorem C05_any_chunking (fs : List Bytes) (hfs : FramesOK fs) (cs : List Bytes)
    (hcs : cs.flatten = stream fs) :
    run init cs = ({ enabled := true, buf := [] }, fs) := by
  unfold run init
  have h := run_enabled [] (peel_short [] (by simp)) cs []
  rw [h]
  have := peel_stream fs hfs []
  simp only [List.nil_append, List.append_nil] at this ⊢
  rw [hcs, this, peel_short [] (by simp)]
  simp

/-- Stream cut in the middle of a frame `g`: the complete frames before it are delivered,
    nothing else, and the buffer holds exactly the received part of `g`. -/
theorem C05_any_chunking_cut (fs : List Bytes) (hfs : FramesOK fs) (g tail rest : Bytes)
    (hg : 0 < g.length ∧ g.length < 16777216) (hrest : rest ≠ []) (hcut : tail ++ rest = frame g)
    (cs : List Bytes) (hcs : cs.flatten = stream fs ++ tail) :
    run init cs = ({ enabled := true, buf := tail }, fs) := by
  unfold run init
  rw [run_enabled [] (peel_short [] (by simp)) cs []]
  simp only [List.nil_append]
  rw [hcs, peel_stream fs hfs tail, peel_proper_prefix g tail rest hg hrest hcut]
  simp

/-- Delivery is incremental and never ahead of the bytes: after any prefix of the chunk list,
    what was delivered is a prefix of the final delivery (nothing is retracted or reordered). -/
theorem C05_delivered_monotone (cs ds : List Bytes) :
    ∃ more, (run init (cs ++ ds)).2 = (run init cs).2 ++ more := by
  unfold run init
  rw [run_enabled [] (peel_short [] (by simp)) (cs ++ ds) [],
      run_enabled [] (peel_short [] (by simp)) cs []]
  simp only [List.nil_append, List.flatten_append]
  rw [peel_append]
  exact ⟨_, rfl⟩

/-- Outgoing layout: the 3-byte big-endian length, then the payload, as two writes in that order. -/
theorem C05_send_layout (p : Bytes) (h : p.length < 16777216) :
    send true p = .writes [be24 p.length, p] := by
  unfold send; simp; omega

/-- The header decodes to the payload length (it is the big-endian representation). -/
theorem C05_send_header_value (p : Bytes) (h : p.length < 16777216) :
    rd24 (p.length / 65536 % 256) (p.length / 256 % 256) (p.length % 256) = p.length ∧
    BytesOK (be24 p.length) := by
  refine ⟨rd24_be24 _ h, ?_⟩
  intro b hb; simp [be24] at hb; omega

/-- Payloads that do not fit 24 bits are refused: nothing is written. -/
theorem C05_send_refuses_large (e : Bool) (p : Bytes) (h : 16777216 ≤ p.length) :
    send e p = .refused := by
  unfold send; simp [h]

/-- What `send` writes is read back by `recv` as exactly the payload. -/
theorem C05_send_then_recv (p : Bytes) (h0 : 0 < p.length) (h : p.length < 16777216)
    (cs : List Bytes) (hcs : cs.flatten = be24 p.length ++ p) :
    run init cs = ({ enabled := true, buf := [] }, [p]) := by
  apply C05_any_chunking [p] (by intro f hf; simp at hf; subst hf; exact ⟨h0, h⟩) cs
  simp [stream, frame, hcs]

/-- A frame whose handling closes the connection (re-entrantly, while the layer is still inside its loop) is the last frame handed up
    from that connection, and whatever the old connection had left behind is gone: the next connection's frames — any frames, any
    chunking — are handed up exactly. -/
theorem C05_after_closing_frame (closes : Bytes → Bool) (buf chunk : Bytes) (h : (recvC closes buf chunk).2.2 = true)
    (fs : List Bytes) (hfs : FramesOK fs) (cs : List Bytes) (hcs : cs.flatten = stream fs) :
    run { enabled := true, buf := (recvC closes buf chunk).1 } cs = ({ enabled := true, buf := [] }, fs) := by
  have hb : (recvC closes buf chunk).1 = [] := by
    unfold recvC at h ⊢
    by_cases hr : (peelF closes (buf ++ chunk)).2.2 = true
    · simp [hr]
    · simp [hr] at h
  rw [hb]
  exact C05_any_chunking fs hfs cs hcs

/-- With segmentation switched off the layer is the identity in both directions. -/
theorem C05_disabled_passthrough (buf c : Bytes) :
    recv { enabled := false, buf := buf } c = ({ enabled := false, buf := buf }, [c]) := by
  simp [recv]

theorem run_disabled_aux (b : Bytes) (raw acc : List Bytes) :
    raw.foldl (fun (a : St × List Bytes) c => let r := recv a.1 c; (r.1, a.2 ++ r.2)) ({ enabled := false, buf := b }, acc)
      = ({ enabled := false, buf := b }, acc ++ raw) := by
  induction raw generalizing acc with
  | nil => simp
  | cons c cs ih =>
    rw [List.foldl_cons]
    have h : (let r := recv (({ enabled := false, buf := b } : St), acc).1 c; (r.1, (({ enabled := false, buf := b } : St), acc).2 ++ r.2))
        = (({ enabled := false, buf := b } : St), acc ++ [c]) := by simp [recv]
    rw [h, ih]
    simp

/-- The way a login uses the layer: framing is off while the raw preamble travels — whatever arrives then is handed up as it is and leaves
    no trace in the layer — and is switched on for the rest of the same connection: the frames that follow are delivered exactly, in any
    chunking, whatever was received before the switch. -/
theorem C05_frames_after_the_switch (raw : List Bytes) (fs : List Bytes) (hfs : FramesOK fs) (cs : List Bytes)
    (hcs : cs.flatten = stream fs) :
    let s0 : St := { enabled := false, buf := [] }
    run s0 raw = (s0, raw) ∧ run { (run s0 raw).1 with enabled := true } cs = ({ enabled := true, buf := [] }, fs) := by
  have h1 : run { enabled := false, buf := [] } raw = ({ enabled := false, buf := [] }, raw) := by
    unfold run
    rw [run_disabled_aux [] raw []]
    simp
  refine ⟨h1, ?_⟩
  simp only [h1]
  exact C05_any_chunking fs hfs cs hcs

/-- Sensitivity (seed C05-13): a layer that also keeps what it hands up raw delivers something else after the switch. -/
theorem C05_bytes_kept_while_off_break_the_framing :
    (recv { enabled := true, buf := [0] } (frame [7, 7])).2 ≠ [[7, 7]] := by
  simp [recv, frame, be24, peel, rd24]

/- Non-vacuity: concrete frames and a chunking that cuts inside a header satisfy the hypotheses. -/
example : FramesOK [[7], [1, 2, 3, 4, 5]] := by
  intro f hf; simp at hf; rcases hf with h | h <;> subst h <;> simp
example : ([[0, 0], [1, 7, 0], [0, 5, 1, 2], [3, 4, 5]] : List Bytes).flatten
    = stream [[7], [1, 2, 3, 4, 5]] := by decide
example : ([0, 0] : Bytes) ++ [5, 1, 2, 3, 4, 5] = frame [1, 2, 3, 4, 5] ∧ ([5, 1, 2, 3, 4, 5] : Bytes) ≠ [] := by
  decide

end Yow.Segments
