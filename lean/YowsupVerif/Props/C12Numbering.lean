/-
  C12  (downward path, "oversized frame"): a send that is refused leaves the transport cipher in step with the peer, so later sends
  are processed normally.  Property theorems only (lemmas: Lemmas/SendNumbering.lean); the configuration — does the noise layer check
  the size before it encrypts? — is regenerated from the current source by executing it (Gen/SendNumberingCfg.lean).
-/
import YowsupVerif.Lemmas.SendNumbering
import YowsupVerif.Gen.SendNumberingCfg
namespace Yow.SendNumbering

/-- The current source refuses an oversized payload before it encrypts it (regenerated obligation). -/
theorem C12_current_source_checks_size_before_encrypting : Yow.Gen.sizeCheckFirst = true := by decide

/-- Whatever is sent, in whatever order, of whatever sizes — refused or not: frame k on the wire carries the cipher's message
    number k and the cipher's next number is the number of frames written, i.e. the peer can decrypt every frame that was
    written and every frame that will be. -/
theorem C12_refused_sends_keep_cipher_in_step (sizes : List Nat) :
    InStep (run Yow.Gen.sizeCheckFirst {} sizes) := by
  rw [C12_current_source_checks_size_before_encrypting]
  exact run_inStep sizes {} ⟨rfl, rfl⟩

/-- An oversized payload is refused and changes nothing; anything smaller is written under the next number. -/
theorem C12_oversized_refused_without_trace (s : St) (size : Nat) (h : limit ≤ size + 16) :
    send Yow.Gen.sizeCheckFirst s size = (s, true) := by
  rw [C12_current_source_checks_size_before_encrypting]
  simp [send, h]

theorem C12_sized_send_is_written (s : St) (size : Nat) (h : size + 16 < limit) :
    send Yow.Gen.sizeCheckFirst s size = ({ next := s.next + 1, wire := s.wire ++ [s.next] }, false) := by
  have : ¬ limit ≤ size + 16 := by omega
  simp [send, this]

/-- Sensitivity (the defect repaired by f9c2d56): encrypting before the size check, one refused send is enough — the next frame goes
    out under number 1 while the peer expects number 0. -/
theorem C12_encrypt_before_size_check_wedges :
    (run false {} [limit, 5]).wire = [1] ∧ ¬ InStep (run false {} [limit, 5]) := by
  decide

/- non-vacuity: a run with refused and accepted sends -/
example : run true {} [3, limit, 7, limit + 9, 2] = { next := 3, wire := [0, 1, 2] } := by decide

end Yow.SendNumbering
