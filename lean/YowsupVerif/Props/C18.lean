/-
  C18  Stack assembly and event propagation work for every composition.
  Property theorems only.  `arr` is the stack bottom-first; `construct arr false` is what
  `YowStack(arr, reversed=False)` builds (the builder and the default helpers use this form);
  `construct arr true` is the top-first convention.
-/
import YowsupVerif.Lemmas.Stack
import YowsupVerif.Gen.DefaultLayers
namespace Yow.Stack

/-- Wiring: the layers are in the given order; each instance's upper/lower neighbours are the
    adjacent slots; both order conventions give the same stack. -/
theorem C18_wiring (arr : List Slot) (i : Nat) (hi : i < arr.length) :
    (construct arr false).length = arr.length ∧
    (construct arr false)[i]? = some
      { slot := arr[i],
        upper := if i + 1 < arr.length then some (i + 1) else none,
        lower := if 0 < i then some (i - 1) else none } ∧
    construct arr.reverse true = construct arr false := by
  refine ⟨construct_length arr, construct_get arr i hi, ?_⟩
  rw [construct_reversed, List.reverse_reverse]

/-- Data sent from the top is handed down slot by slot in order (every shape, any depth/width). -/
theorem C18_send_visits_in_order (B : Nat → LayerB) (arr : List Slot) (m : Nat) (h : arr ≠ []) :
    sendAt B (construct arr false) arr.length (arr.length - 1) m = specDown B arr.reverse m := by
  have hl : 0 < arr.length := List.length_pos_iff.mpr h
  rw [sendAt_spec B arr arr.length (arr.length - 1) m (by omega) (by omega)]
  have : arr.length - 1 + 1 = arr.length := by omega
  rw [this, List.take_length]

/-- Data received at the bottom is handed up slot by slot in order. -/
theorem C18_receive_visits_in_order (B : Nat → LayerB) (arr : List Slot) (m : Nat) (h : arr ≠ []) :
    recvAt B (construct arr false) arr.length 0 m = specUp B arr m := by
  have hl : 0 < arr.length := List.length_pos_iff.mpr h
  rw [recvAt_spec B arr arr.length 0 m hl (by omega)]
  simp

/-- Parallel group: every member is offered the datum, and each member's output continues to the
    group's lower neighbour (likewise upward). -/
theorem C18_parallel_fanout (B : Nat → LayerB) (ls : List Nat) (rest : List Slot) (m : Nat) :
    specDown B (.par ls :: rest) m =
      ls.flatMap (fun l => Ev.sent l m :: ((B l).tx m).flatMap (specDown B rest)) ∧
    specUp B (.par ls :: rest) m =
      ls.flatMap (fun l => Ev.recvd l m :: ((B l).rx m).flatMap (specUp B rest)) := ⟨rfl, rfl⟩

/-- An event emitted by the layer at slot `i` is offered to the slots above it in stack order until
    one consumes it; a broadcast to the slots below, top-down. -/
theorem C18_event_in_order_until_consumed (B : Nat → LayerB) (arr : List Slot) (i ev : Nat) (hi : i < arr.length) :
    emitAt B (construct arr false) (construct arr false).length i ev false
      = ⟨specEvent B ev (arr.drop (i + 1)), none⟩ ∧
    broadcastAt B (construct arr false) (construct arr false).length i ev false
      = ⟨specEvent B ev ((arr.take i).reverse), none⟩ := by
  rw [construct_length]
  exact ⟨emitAt_spec B arr arr.length i ev hi (by omega), broadcastAt_spec B arr arr.length i ev hi hi⟩

/-- Emitting through the stack object offers the event to every slot, bottom-up (top-down for
    broadcasts), until consumed. -/
theorem C18_stack_level_events (B : Nat → LayerB) (arr : List Slot) (ev : Nat) :
    stackEmits B (construct arr false) ev false = ⟨specEvent B ev arr, none⟩ ∧
    stackBroadcasts B (construct arr false) ev false = ⟨specEvent B ev arr.reverse, none⟩ :=
  ⟨stackEmits_spec B arr ev, stackBroadcasts_spec B arr ev⟩

/-- Seen exactly once, in stack order: the layers that see an event are a prefix of the flattened
    layer list (no layer twice, none skipped, none out of order); with no consumer it is all of them;
    with a consumer it ends exactly there. -/
theorem C18_event_seen_once_in_order (B : Nat → LayerB) (ev : Nat) (slots : List Slot) :
    (∃ k, specEvent B ev slots = ((slots.flatMap members).take k).map (fun l => Ev.saw l ev)) ∧
    ((∀ l ∈ slots.flatMap members, (B l).consumes ev = false) →
      specEvent B ev slots = (slots.flatMap members).map (fun l => Ev.saw l ev)) :=
  ⟨specEvent_prefix B ev slots, specEvent_all B ev slots⟩

theorem C18_event_stops_at_consumer (B : Nat → LayerB) (ev : Nat) (slots : List Slot) (pre : List Nat) (c : Nat)
    (post : List Nat) (hsplit : slots.flatMap members = pre ++ c :: post)
    (hpre : ∀ l ∈ pre, (B l).consumes ev = false) (hc : (B c).consumes ev = true) :
    specEvent B ev slots = (pre ++ [c]).map (fun l => Ev.saw l ev) :=
  specEvent_stops_at_consumer B ev slots pre c post hsplit hpre hc

/-- Deferred (detached) events: the neighbour sees the event at once, the remaining slots when the
    stack's loop runs the queued callback — in total exactly what a normal event delivers. -/
theorem C18_detached_delivered_by_loop (B : Nat → LayerB) (arr : List Slot) (i ev : Nat) (hi : i < arr.length) :
    (emitAt B (construct arr false) (construct arr false).length i ev true).seen ++
      (match (emitAt B (construct arr false) (construct arr false).length i ev true).deferred with
       | some j => loopRunsEmit B (construct arr false) j ev
       | none => [])
      = specEvent B ev (arr.drop (i + 1)) ∧
    (broadcastAt B (construct arr false) (construct arr false).length i ev true).seen ++
      (match (broadcastAt B (construct arr false) (construct arr false).length i ev true).deferred with
       | some j => loopRunsBroadcast B (construct arr false) j ev
       | none => [])
      = specEvent B ev ((arr.take i).reverse) := by
  rw [construct_length]
  exact ⟨emitAt_detached B arr arr.length i ev hi (by omega), broadcastAt_detached B arr arr.length i ev hi (by omega)⟩

/-- Interfaces of layers — also inside parallel groups — are found by class. -/
theorem C18_interface_lookup_by_class (B : Nat → LayerB) (c : Nat) (arr : List Slot)
    (h : ∀ l ∈ arr.flatMap members, (B l).cls = c → (B l).iface ≠ none) :
    getInterface B c (construct arr false) =
      ((arr.flatMap members).find? (fun l => (B l).cls = c)).bind (fun l => (B l).iface) :=
  getInterface_spec B c arr h

/-- The builder is a stack of layers: push appends on top, pop removes the top. -/
theorem C18_builder (ops : List BuilderOp) (s : Slot) :
    builderRun (ops ++ [.push s]) = builderRun ops ++ [s] ∧
    builderRun (ops ++ [.pop]) = (builderRun ops).dropLast := by
  simp [builderRun, List.foldl_append, builderStep]

/-- `pushDefaultLayers` puts the default layers on top of whatever the builder holds: every layer pushed before stays where it was,
    below them — at any point of any sequence of builder calls. -/
theorem C18_builder_default_layers_go_on_top (ops : List BuilderOp) (ds : List Slot) :
    builderRun (ops ++ [.extend ds]) = builderRun ops ++ ds ∧ builderRun ops <+: builderRun (ops ++ [.extend ds]) := by
  simp [builderRun, List.foldl_append, builderStep]

/-! #### Default helpers (table regenerated from the current source on every run) -/

def coreSpec : List Slot := [.single 1, .single 2, .single 3, .single 4, .single 5]
def basicSpec : List Nat := [10, 11, 12, 13, 14, 15, 16, 17, 18, 19, 20]
def protocolSpec (f : Bool × Bool × Bool × Bool) : List Nat :=
  basicSpec ++ (if f.1 then [21] else []) ++ (if f.2.1 then [22] else []) ++
    (if f.2.2.1 then [23] else []) ++ (if f.2.2.2 then [24] else [])
/-- transport + encryption + exactly the selected optional protocol modules -/
def defaultSpec (f : Bool × Bool × Bool × Bool) : List Slot :=
  coreSpec ++ [.single 6, .par [7, 8], .par (protocolSpec f)]

def allFlags4 : List (Bool × Bool × Bool × Bool) :=
  [false, true].flatMap fun a => [false, true].flatMap fun b => [false, true].flatMap fun c =>
    [false, true].map fun d => (a, b, c, d)

/-- All 16 + 32 combinations of the default helpers yield the transport layers, the encryption
    layers and exactly the selected optional modules, in this order. -/
theorem C18_default_helpers :
    Gen.coreLayers = some coreSpec ∧
    (Gen.protocolLayers.map (·.1) = allFlags4 ∧ ∀ e ∈ Gen.protocolLayers, e.2 = some (protocolSpec e.1)) ∧
    (Gen.defaultLayers.map (·.1) = allFlags4 ∧ ∀ e ∈ Gen.defaultLayers, e.2 = some (defaultSpec e.1)) ∧
    (Gen.defaultStack.length = 32 ∧ (Gen.defaultStack.map (·.1)).Nodup ∧
      ∀ e ∈ Gen.defaultStack, e.2 = some (defaultSpec e.1.2)) := by
  decide +kernel

/-- `pushDefaultLayers()` of the current source, probed on builders that already hold layers (none, one, two, a parallel group, the default
    layers themselves, the default layers and one more): it is the model's `extend (defaultSpec all)` — what was there stays below. -/
theorem C18_source_pushDefaultLayers_extends :
    Gen.pushDefaultProbe.length = 7 ∧
    ∀ e ∈ Gen.pushDefaultProbe, e.2 = some (builderStep e.1 (.extend (defaultSpec (true, true, true, true)))) := by
  decide +kernel

/- Non-vacuity -/
example : ([.single 0, .par [1, 2], .single 3] : List Slot) ≠ [] := by decide
example : (3 : Nat) < ([.single 0, .par [1, 2], .single 3, .single 4] : List Slot).length := by decide

end Yow.Stack
