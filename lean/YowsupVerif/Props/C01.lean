/-
  C01  Stanza codec round-trip.  Property theorems only (helper lemmas: Lemmas/CoderEnc, Lemmas/CoderDec).
  The round trip is a corollary of the two halves of C02: what the encoder emits is a valid encoding
  (`writeNode_Enc`), and the decoder reads every valid encoding back to its tree (`nextTree_of_Enc`).
-/
import YowsupVerif.Lemmas.CoderDec
import YowsupVerif.Lemmas.CoderEnc
import YowsupVerif.Gen.TokenDict
namespace Yow.Coder

/-- Decoding what the encoder produced returns the same tree — for every dictionary of admissible
    size (the statement does not depend on the table's contents) and every well-formed tree, of any
    depth, width and content size below 2^31. -/
theorem C01_roundtrip (d : Dict) (hd : d.WF) (inflate : Bytes → Option Bytes) (n : Node) (hn : WFNode d n) :
    decodeFrame d inflate (encodeFrame d n) = .ok n :=
  decodeFrame_of_EncFrame d id (fun x => some x) (fun _ => rfl)
    (EncFrame.plain n (writeNode d n) 0 (writeNode_Enc d hd hn) (by decide)) |> fun h => by
      -- `decodeFrame` ignores `inflate` for a frame whose flag byte is 0
      simpa [decodeFrame, encodeFrame] using h

/-- The encoder does not refuse a well-formed tree. -/
theorem C01_encoder_accepts (d : Dict) (n : Node) (hn : WFNode d n) : encodable d n = true :=
  encodable_of_WFNode d hn

/-- Siblings: a well-formed list of trees written back to back is read back one by one,
    whatever follows (this is what a ≥ 1 MiB payload followed by a sibling exercises). -/
theorem C01_roundtrip_siblings (d : Dict) (hd : d.WF) (ns : List Node) (hn : WFNodes d ns) (rest : Bytes)
    (fuel : Nat) (hf : (writeNodes d ns).length + 2 ≤ fuel) :
    readNodes d fuel ns.length (writeNodes d ns ++ rest) = .ok (ns, rest) :=
  readNodes_of_EncNodes d (writeNodes_EncNodes d hd hn) fuel hf rest

set_option maxRecDepth 8192 in
/-- The current source's dictionary has an admissible size (regenerated on every run). -/
theorem C01_waDict_WF : Gen.waDict.WF := by
  unfold Dict.WF Gen.waDict
  decide +kernel

/-- Round trip for the WhatsApp dictionary of the current source. -/
theorem C01_roundtrip_wa (inflate : Bytes → Option Bytes) (n : Node) (hn : WFNode Gen.waDict n) :
    decodeFrame Gen.waDict inflate (encodeFrame Gen.waDict n) = .ok n :=
  C01_roundtrip Gen.waDict C01_waDict_WF inflate n hn

/-- Why `StrOK` excludes the reserved words as JID components (known finding, DESIGN §8):
    the two reserved tokens are unreadable as strings for every dictionary … -/
theorem C01_reserved_token_unreadable (d : Dict) (fuel : Nat) (data : Bytes) :
    readString d (fuel + 1) 1 data = .error .badToken ∧ readString d (fuel + 1) 2 data = .error .badToken := by
  constructor <;> simp [readString]

set_option maxRecDepth 8192 in
/-- … and the encoder writes exactly those tokens for the two reserved words of the current dictionary. -/
theorem C01_reserved_words_written_as_tokens :
    Gen.waDict.getIndex [120, 109, 108, 115, 116, 114, 101, 97, 109, 115, 116, 97, 114, 116] = some (1, false) ∧
    Gen.waDict.getIndex [120, 109, 108, 115, 116, 114, 101, 97, 109, 101, 110, 100] = some (2, false) := by
  decide +kernel

/- Non-vacuity: concrete trees satisfy `WFNode` — a ≥ 1 MiB payload followed by a sibling, and a
   node with 300 children (dictionary with one usable token `t` = index 3). -/
def exDict : Dict := ⟨[[], [1], [2], [116]], []⟩
def bigPayload : Bytes := List.replicate 1048576 7
theorem bigPayload_length : bigPayload.length = 1048576 := by
  unfold bigPayload; rw [List.length_replicate]
theorem exDict_t : StrOK exDict [116] :=
  StrOK.token [116] 3 false (by unfold AtomOK; decide) (by decide)
theorem exAttrs : AttrsOK exDict [] := by
  refine ⟨?_, ?_⟩
  · intro kv h; cases h
  · unfold keysNodup; exact List.nodup_nil
example : WFNode exDict (.mk [116] [] none [.mk [116] [] (some bigPayload) [], .mk [116] [] none []]) := by
  refine WFNode.mk _ _ _ _ exDict_t exAttrs (by intro b hb; cases hb) (by decide) (by decide) ?_
  refine WFNodes.cons _ _ ?_ (WFNodes.cons _ _ ?_ WFNodes.nil)
  · refine WFNode.mk _ _ _ _ exDict_t exAttrs ?_ (by decide) (by decide) WFNodes.nil
    intro b hb
    cases hb
    exact ⟨rfl, by rw [bigPayload_length]; decide⟩
  · exact WFNode.mk _ _ _ _ exDict_t exAttrs (by intro b hb; cases hb) (by decide) (by decide) WFNodes.nil

end Yow.Coder
