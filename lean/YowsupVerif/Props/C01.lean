/-
  C01  Stanza codec round-trip.  Property theorems only (helper lemmas: Lemmas/CoderEnc, Lemmas/CoderDec).
  The round trip is a corollary of the two halves of C02: what the encoder emits is a valid encoding
  (`writeNode_Enc`), and the decoder reads every valid encoding back to its tree (`nextTree_of_Enc`).
-/
import YowsupVerif.Lemmas.CoderDec
import YowsupVerif.Lemmas.CoderEnc
import YowsupVerif.Gen.TokenDict
namespace Yow.Coder

/-- Decoding what the encoder produced returns the same tree — for every dictionary of admissible
    size (the statement does not depend on the table's contents) and every well-formed tree, of any
    depth, width and content size below 2^31. -/
theorem C01_roundtrip (d : Dict) (hd : d.WF) (inflate : Bytes → Option Bytes) (n : Node) (hn : WFNode d n) :
    decodeFrame d inflate (encodeFrame d n) = .ok n :=
  decodeFrame_of_EncFrame d id (fun x => some x) (fun _ => rfl)
    (EncFrame.plain n (writeNode d n) 0 (writeNode_Enc d hd hn) (by decide)) |> fun h => by
      -- `decodeFrame` ignores `inflate` for a frame whose flag byte is 0
      simpa [decodeFrame, encodeFrame] using h

/-- The encoder does not refuse a well-formed tree. -/
theorem C01_encoder_accepts (d : Dict) (n : Node) (hn : WFNode d n) : encodable d n = true :=
  encodable_of_WFNode d hn

/-- Siblings: a well-formed list of trees written back to back is read back one by one,
    whatever follows (this is what a ≥ 1 MiB payload followed by a sibling exercises). -/
theorem C01_roundtrip_siblings (d : Dict) (hd : d.WF) (ns : List Node) (hn : WFNodes d ns) (rest : Bytes)
    (fuel : Nat) (hf : (writeNodes d ns).length + 2 ≤ fuel) :
    readNodes d fuel ns.length (writeNodes d ns ++ rest) = .ok (ns, rest) :=
  readNodes_of_EncNodes d (writeNodes_EncNodes d hd hn) fuel hf rest

set_option maxRecDepth 8192 in
/-- The current source's dictionary has an admissible size (regenerated on every run). -/
theorem C01_waDict_WF : Gen.waDict.WF := by
  unfold Dict.WF Gen.waDict
  decide +kernel

/-- Round trip for the WhatsApp dictionary of the current source. -/
theorem C01_roundtrip_wa (inflate : Bytes → Option Bytes) (n : Node) (hn : WFNode Gen.waDict n) :
    decodeFrame Gen.waDict inflate (encodeFrame Gen.waDict n) = .ok n :=
  C01_roundtrip Gen.waDict C01_waDict_WF inflate n hn

/-- The marker tokens 1 and 2 (stream start / end) are unreadable as strings for every dictionary: this is why the encoder
    must never write a string as one of them (before fix 45f23bb it did, for the two reserved words) … -/
theorem C01_reserved_token_unreadable (d : Dict) (fuel : Nat) (data : Bytes) :
    readString d (fuel + 1) 1 data = .error .badToken ∧ readString d (fuel + 1) 2 data = .error .badToken := by
  constructor <;> simp [readString]

set_option maxRecDepth 8192 in
/-- … and with the dictionary of the current source the encoder's lookup finds no token for the two reserved words nor for the
    empty string, although the dictionary lists them at the marker indexes 1, 2 and 0. -/
theorem C01_reserved_words_not_tokens :
    Gen.waDict.getIndex [120, 109, 108, 115, 116, 114, 101, 97, 109, 115, 116, 97, 114, 116] = some (1, false) ∧
    Gen.waDict.getIndex [120, 109, 108, 115, 116, 114, 101, 97, 109, 101, 110, 100] = some (2, false) ∧
    Gen.waDict.lookup [120, 109, 108, 115, 116, 114, 101, 97, 109, 115, 116, 97, 114, 116] = none ∧
    Gen.waDict.lookup [120, 109, 108, 115, 116, 114, 101, 97, 109, 101, 110, 100] = none ∧
    Gen.waDict.lookup [] = none := by
  decide +kernel

/-- The string domain is everything: with the dictionary of the current source EVERY string shorter than 2^31 — dictionary
    words, the reserved words, the empty string, digits, hex, JIDs with any number of '@' at any position — is `StrOK`. -/
theorem C01_every_string_ok (s : Str) (h : s.length < 2147483648) : StrOK Gen.waDict s :=
  strOK_of_length Gen.waDict (by intro i sec; rw [C01_reserved_words_not_tokens.2.2.2.2]; simp) s h

/-- Hence a tree is well formed as soon as its sizes fit the format: strings and binary content shorter than 2^31, distinct
    attribute keys, content or children but not both, list sizes below 2^16. -/
theorem C01_wf_of_sizes (tag : Str) (attrs : List (Str × Str)) (data : Option Bytes) (ks : List Node)
    (ht : tag.length < 2147483648) (ha : ∀ kv ∈ attrs, kv.1.length < 2147483648 ∧ kv.2.length < 2147483648)
    (hk : keysNodup attrs) (hd : ∀ b, data = some b → ks = [] ∧ b.length < 2147483648)
    (hs : 2 + attrs.length * 2 < 65536) (hl : ks.length < 65536) (hks : WFNodes Gen.waDict ks) :
    WFNode Gen.waDict (.mk tag attrs data ks) :=
  WFNode.mk _ _ _ _ (C01_every_string_ok tag ht)
    ⟨fun kv hkv => ⟨C01_every_string_ok kv.1 (ha kv hkv).1, C01_every_string_ok kv.2 (ha kv hkv).2⟩, hk⟩ hd hs hl hks

/-- The former known finding as a theorem: a stanza addressed to `xmlstreamstart@xmlstreamend`, with an empty attribute value
    and an attribute ending in '@', survives the codec. -/
theorem C01_reserved_words_roundtrip (inflate : Bytes → Option Bytes) :
    let n : Node := .mk [105, 113] [([116, 111], [120, 109, 108, 115, 116, 114, 101, 97, 109, 115, 116, 97, 114, 116, 64, 120, 109, 108, 115, 116, 114, 101, 97, 109, 101, 110, 100]),
                                    ([120], []), ([121], [97, 64])] none []
    decodeFrame Gen.waDict inflate (encodeFrame Gen.waDict n) = .ok n := by
  intro n
  refine C01_roundtrip_wa inflate n (C01_wf_of_sizes _ _ _ _ (by decide) ?_ (by unfold keysNodup; decide) (by intro b hb; cases hb) (by decide) (by decide) WFNodes.nil)
  intro kv hkv
  simp at hkv
  rcases hkv with rfl | rfl | rfl <;> decide

/- Non-vacuity: concrete trees satisfy `WFNode` — a ≥ 1 MiB payload followed by a sibling, and a
   node with 300 children (dictionary with one usable token `t` = index 3). -/
def exDict : Dict := ⟨[[], [1], [2], [116]], []⟩
def bigPayload : Bytes := List.replicate 1048576 7
theorem bigPayload_length : bigPayload.length = 1048576 := by
  unfold bigPayload; rw [List.length_replicate]
theorem exDict_t : StrOK exDict [116] :=
  StrOK.token [116] 3 false (by decide) (by decide)
theorem exAttrs : AttrsOK exDict [] := by
  refine ⟨?_, ?_⟩
  · intro kv h; cases h
  · unfold keysNodup; exact List.nodup_nil
example : WFNode exDict (.mk [116] [] none [.mk [116] [] (some bigPayload) [], .mk [116] [] none []]) := by
  refine WFNode.mk _ _ _ _ exDict_t exAttrs (by intro b hb; cases hb) (by decide) (by decide) ?_
  refine WFNodes.cons _ _ ?_ (WFNodes.cons _ _ ?_ WFNodes.nil)
  · refine WFNode.mk _ _ _ _ exDict_t exAttrs ?_ (by decide) (by decide) WFNodes.nil
    intro b hb
    cases hb
    exact ⟨rfl, by rw [bigPayload_length]; decide⟩
  · exact WFNode.mk _ _ _ _ exDict_t exAttrs (by intro b hb; cases hb) (by decide) (by decide) WFNodes.nil

end Yow.Coder
