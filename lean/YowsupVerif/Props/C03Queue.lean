/-
  C03 (clause "a damaged message is asked for again and then shown"): the memory of sent messages that retry requests are served from.
  Property theorems only (model: Model/SentQueue.lean, lemmas: Lemmas/SentQueue.lean).  The bound and the end a full memory forgets are
  regenerated from the current source on every run (Gen/SentQueueCfg.lean).
-/
import YowsupVerif.Lemmas.SentQueue
import YowsupVerif.Gen.SentQueueCfg
namespace Yow.SentQueue

/-- Regenerated obligation: a full memory of the current source forgets its oldest entry and keeps the message just sent; it holds exactly
    its bound after one send too many; the bound is positive. -/
theorem C03_current_source_forgets_the_oldest :
    Yow.Gen.sentQueueOldestFirst = true ∧ 0 < Yow.Gen.sentQueueCap ∧ Yow.Gen.sentQueueHeldAfterOverflow = Yow.Gen.sentQueueCap := by decide

/-- Regenerated obligation: the property's own bound (fewer than 100 unacknowledged messages per sender) lies within the memory's bound. -/
theorem C03_memory_covers_the_propertys_bound : 100 ≤ Yow.Gen.sentQueueCap := by decide

/-- A message that was sent can be encrypted again for a retry request as long as fewer than MAX_SENT_QUEUE messages were sent after it and
    no receipt took it out — whatever else happened before and in between (any sends and receipts, repeated ids included, a sender that has
    lived through any number of messages). -/
theorem C03_retry_request_finds_the_message (q : List Nat) (hq : q.length ≤ Yow.Gen.sentQueueCap) (pre post : List Op) (x : Nat)
    (hfew : (post.filter isEnq).length < Yow.Gen.sentQueueCap) (hkeep : ∀ o ∈ post, removes x o = false) :
    found (run Yow.Gen.sentQueueOldestFirst Yow.Gen.sentQueueCap q (pre ++ Op.enq x :: post)) x = true := by
  have h := C03_current_source_forgets_the_oldest
  rw [h.1]
  exact sent_message_stays _ h.2.1 q hq pre post x hfew hkeep

/-- the memory never exceeds its bound -/
theorem C03_memory_is_bounded (q : List Nat) (hq : q.length ≤ Yow.Gen.sentQueueCap) (ops : List Op) :
    (run Yow.Gen.sentQueueOldestFirst Yow.Gen.sentQueueCap q ops).length ≤ Yow.Gen.sentQueueCap := by
  have h := C03_current_source_forgets_the_oldest
  rw [h.1]
  exact run_length_le _ h.2.1 q hq ops

/-- with sends only (group messages: no receipt takes them out) a fresh sender's memory holds exactly the last MAX_SENT_QUEUE messages -/
theorem C03_memory_holds_the_latest_sends (xs : List Nat) :
    run Yow.Gen.sentQueueOldestFirst Yow.Gen.sentQueueCap [] (xs.map Op.enq) = xs.drop (xs.length - Yow.Gen.sentQueueCap) := by
  have h := C03_current_source_forgets_the_oldest
  rw [h.1]
  exact run_enq_only _ h.2.1 xs

/-- Sensitivity: a full memory that drops the newcomer instead (seed C03-11) loses the message just sent: a retry request for it finds
    nothing, although no message was sent after it. -/
theorem C03_dropping_the_newcomer_loses_it :
    found (run false 3 [] ([1, 2, 3, 4].map Op.enq)) 4 = false ∧ found (run true 3 [] ([1, 2, 3, 4].map Op.enq)) 4 = true := by decide

/- Non-vacuity: a sender that has lived through 5 sends with bound 3, message 4 followed by one more send and a participant receipt. -/
example : found (run true 3 [] ([Op.enq 1, .enq 2, .enq 3] ++ Op.enq 4 :: [.enq 5, .take 4 true])) 4 = true := by decide

end Yow.SentQueue
