/-
  C08  Request/response correlation: each reply reaches its request's callback once.
  Property theorems only (lemmas: Lemmas/IqRegistry.lean).  What each protocol layer registers for a
  request kind is regenerated on every run by probing the current source (Gen/IqKinds.lean).
-/
import YowsupVerif.Lemmas.IqRegistry
import YowsupVerif.Gen.IqKinds
namespace Yow.Iq

/-- Regenerated obligation: for every request kind with a reply entity (ping, last seen, picture get/set,
    privacy, status, the group operations, contact sync, media upload) the owning layer registers the
    request with both a success and an error callback. -/
theorem C08_all_kinds_complete : ∀ k ∈ Yow.Gen.iqKinds, k.complete = true := by decide

/-- Request ids are unique: every request gets an id different from all outstanding ones, and the
    counter only grows — for every history. -/
theorem C08_ids_unique (ops : List Op) (k : Kind) (a b : Bool) :
    let s := (run init ops).1
    (step s (.appReq k a b)).2 = [.sent (s.next + 1)] ∧ (step s (.libReq k)).2 = [.sent (s.next + 1)] ∧
    (∀ e ∈ s.layerReg, e.id ≠ s.next + 1) ∧ (∀ e ∈ s.appReg, e.id ≠ s.next + 1) :=
  request_id_fresh _ (inv_run init inv_init ops) k a b

/-- The registries stay consistent (no id twice, nothing beyond the counter) under every history. -/
theorem C08_registries_consistent (ops : List Op) : Inv (run init ops).1 :=
  inv_run init inv_init ops

/-- For ANY interleaving of outstanding requests, replies and requests of the server's own (`hsrv`: handled the way the current source
    handles them — `C08_source_takes_only_answers_for_answers`): when the reply to an application request
    (of any supported kind) arrives, the owning layer's callback runs once and then the application's
    callback of the matching type runs once, with that request; afterwards nobody knows the id. -/
theorem C08_reply_reaches_callback_once (pre post : List Op) (k : Kind) (hk : k ∈ Yow.Gen.iqKinds) (a b r : Bool)
    (hpost : ∀ op ∈ post, ∀ r', op ≠ .deliver ((run init pre).1.next + 1) r')
    (hre : ∀ op ∈ post, ∀ k' a' b', op ≠ .reReq ((run init pre).1.next + 1) k' a' b')
    (hsrv : ∀ op ∈ post, ∀ i, op ≠ .serverReq i true) :
    let id := (run init pre).1.next + 1
    let s := (run (step (run init pre).1 (.appReq k a b)).1 post).1
    (step s (.deliver id r)).2 =
      [.layerCb k.owner id r, if (if r then a else b) then .appCb id r else .swallowed id] ∧
    (∀ e ∈ (step s (.deliver id r)).1.layerReg, e.id ≠ id) ∧
    (∀ e ∈ (step s (.deliver id r)).1.appReg, e.id ≠ id) :=
  app_request_reply pre post k (C08_all_kinds_complete k hk) a b r hpost hre hsrv

/-- Replies with unknown ids and replayed replies invoke no callback and are handled as ordinary stanzas. -/
theorem C08_unknown_or_replayed_calls_nothing (s : St) (id : Nat) (r r' : Bool) :
    ((∀ e ∈ s.layerReg, e.id ≠ id) → step s (.deliver id r) = (s, [.ordinary id])) ∧
    ((∀ e ∈ (step s (.deliver id r)).1.layerReg, e.id ≠ id) →
      step (step s (.deliver id r)).1 (.deliver id r') = ((step s (.deliver id r)).1, [.ordinary id])) :=
  ⟨deliver_unknown s id r, replay_invokes_nothing s id r r'⟩

/-- Requests issued by the library's own layers: the layer's callback runs once and the reply entity
    reaches the application. -/
theorem C08_library_request_reply (pre post : List Op) (k : Kind) (hk : k ∈ Yow.Gen.iqKinds) (r : Bool)
    (hpost : ∀ op ∈ post, ∀ r', op ≠ .deliver ((run init pre).1.next + 1) r')
    (hre : ∀ op ∈ post, ∀ k' a' b', op ≠ .reReq ((run init pre).1.next + 1) k' a' b')
    (hsrv : ∀ op ∈ post, ∀ i, op ≠ .serverReq i true) :
    let id := (run init pre).1.next + 1
    let s := (run (step (run init pre).1 (.libReq k)).1 post).1
    (step s (.deliver id r)).2 = [.layerCb k.owner id r, .appEntity id] :=
  lib_request_reply pre post k (C08_all_kinds_complete k hk) r hpost hre hsrv

/-- A retry under the old id — re-issued after, or from inside the callback of, its reply (the registry entry
    is removed BEFORE the callback is dispatched) — is registered again and answered like the first time. -/
theorem C08_retry_from_callback (ops : List Op) (id : Nat) (hid : id ≤ (run init ops).1.next)
    (hl : ∀ e ∈ (run init ops).1.layerReg, e.id ≠ id) (ha : ∀ e ∈ (run init ops).1.appReg, e.id ≠ id)
    (k : Kind) (hk : k ∈ Yow.Gen.iqKinds) (a b r : Bool) :
    (step (run init ops).1 (.reReq id k a b)).2 = [.sent id] ∧
    (step (step (run init ops).1 (.reReq id k a b)).1 (.deliver id r)).2 =
      [.layerCb k.owner id r, if (if r then a else b) then .appCb id r else .swallowed id] :=
  retry_same_id_reply _ (inv_run init inv_init ops) id hid hl ha k (C08_all_kinds_complete k hk) a b r

/-- Regenerated obligation: the current source does not take a request of the server's own for the answer to a pending request with the
    same id (probed: a request is left pending, the server's ping arrives under its id, then the genuine result). -/
theorem C08_source_takes_only_answers_for_answers : Yow.Gen.serverRequestConsumes = false := by decide

/-- The server's own requests — however many, under whatever ids, those of outstanding requests included — change nothing: they are answered,
    and every reply still reaches its callback exactly as without them (`C08_reply_reaches_callback_once` and `C08_library_request_reply`
    allow such requests anywhere in `pre` and `post`). -/
theorem C08_server_request_is_answered_and_changes_nothing (s : St) (id : Nat) :
    step s (.serverReq id false) = (s, [.pong id]) :=
  step_serverReq_false s id

/-- Sensitivity (the code before fix 0225534): treated as an answer, the server's ping under the id of a pending request removes the request:
    no pong, and the genuine result that arrives later calls nothing. -/
theorem C08_server_request_taken_for_an_answer_loses_the_reply :
    (run init [.appReq ⟨16, true, true, true⟩ true true, .serverReq 1 true, .deliver 1 true]).2 = [.sent 1, .swallowed 1, .ordinary 1] ∧
    (run init [.appReq ⟨16, true, true, true⟩ true true, .serverReq 1 false, .deliver 1 true]).2 = [.sent 1, .pong 1, .layerCb 16 1 true, .appCb 1 true] := by
  decide

/-- Why both callbacks must be registered (the pinned tree's defect as a model witness): with a kind
    that registers no error callback, an error reply to an application request is swallowed. -/
theorem C08_missing_error_callback_swallows :
    (run init [.appReq ⟨16, true, true, false⟩ true true, .deliver 1 false]).2 = [.sent 1, .swallowed 1] := by
  decide

/- Non-vacuity -/
example : (⟨14, true, true, true⟩ : Kind).complete = true := by decide

end Yow.Iq
