/-
  C11  (senders against the replacement of the connection): no frame encrypted for a lost session is ever written to the connection
  that replaced it, whatever the schedule.  Property theorems only (lemmas: Lemmas/StaleWrite.lean); the configuration — are the
  stale-stream check and the write one step with respect to on_disconnected? — is regenerated from the current source by executing it with
  tracked locks (Gen/StaleWriteCfg.lean).
-/
import YowsupVerif.Lemmas.StaleWrite
import YowsupVerif.Gen.StaleWriteCfg
namespace Yow.Stale

/-- The current source performs the check and the write under a lock that the replacement of the stream takes as well (regenerated obligation). -/
theorem C11_current_source_checks_and_writes_in_one_step : Yow.Gen.staleWriteCfg = { atomic := true } := by decide

/-- For every number of sender threads and stanzas, every number of connection losses and new logins, and EVERY schedule: each frame that
    reaches the network was encrypted for the connection it is written to — the peer of a connection never receives a frame of an earlier
    session (which it could not decrypt, and which would put its counter out of step). -/
theorem C11_no_frame_of_a_lost_session (work : List (Option Nat)) (sched : List Nat) :
    Clean (run (init Yow.Gen.staleWriteCfg work) sched).wire := by
  rw [C11_current_source_checks_and_writes_in_one_step]
  exact no_stale_frame work sched

/-- Sensitivity (the defect repaired by be5470f): with the check and the write as two steps, a sender held up between them while the
    connection is replaced writes a frame of session 0 to connection 1. -/
theorem C11_check_then_write_is_not_one_step :
    (run (init { atomic := false } [some 1, none]) [0, 0, 1, 0]).wire = [(1, 0)] ∧
    ¬ Clean (run (init { atomic := false } [some 1, none]) [0, 0, 1, 0]).wire := by
  decide

/- non-vacuity: senders on both sides of a connection loss; a sender that entered before the loss and reaches its check after it writes nothing -/
example : (run (init { atomic := true } [some 2, none, some 1]) [0, 0, 1, 0, 0, 0, 1, 1, 1, 0, 0, 0, 0, 0, 2, 2, 2, 2, 2]).wire = [(0, 0), (1, 1), (1, 1)] := by decide
example : (run (init { atomic := true } [some 1, none]) [0, 1, 1, 1, 0, 0, 0, 0]).wire = [] := by decide

end Yow.Stale
