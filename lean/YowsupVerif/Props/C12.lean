/-
  C12  A failure while sending or receiving does not wedge the stack.
  Property theorems only (lemmas: Lemmas/Locks.lean).  `n` layers, noise layer at index `p < n`,
  failures injected at any layer, in either direction, at any position of any operation sequence.
  The configuration (are the two release sites protected by try/finally?) is regenerated from the
  current source by executing it (Gen/LockCfg.lean).
-/
import YowsupVerif.Lemmas.Locks
import YowsupVerif.Gen.LockCfg
namespace Yow.Locks

/-- The current source releases both locks on the exception path (regenerated obligation). -/
theorem C12_current_source_releases_in_finally : Yow.Gen.lockCfg = good := by decide

/-- After every operation of every sequence — normal or failing, at any layer, in either direction —
    no layer lock and no flush lock is held. -/
theorem C12_locks_free_after_any_outcome (spec : Nat → UpSpec) (n p : Nat) (hp : p < n) (ops : List Op) :
    AllFree (run Yow.Gen.lockCfg spec n p (init n) ops).1 := by
  rw [C12_current_source_releases_in_finally]
  exact (run_good spec n p hp (init n) (init_allFree n) ops).1

/-- Nothing ever blocks: no operation of any sequence ends waiting on a held lock. -/
theorem C12_nothing_blocks_forever (spec : Nat → UpSpec) (n p : Nat) (hp : p < n) (ops : List Op) :
    ∀ r ∈ (run Yow.Gen.lockCfg spec n p (init n) ops).2, r ≠ Res.blocked := by
  rw [C12_current_source_releases_in_finally]
  exact (run_good spec n p hp (init n) (init_allFree n) ops).2

/-- A failure on the way down reaches the caller (it is not swallowed), and leaves the state as it was. -/
theorem C12_error_reaches_caller (n k : Nat) (hk : k ≤ n - 1) (s : St) (h : AllFree s) :
    sendAt Yow.Gen.lockCfg (some k) (n - 1) s = (s, Res.raised) := by
  rw [C12_current_source_releases_in_finally, sendAt_good (some k) (n - 1) s (AllFree_FreeBelow h (n - 1))]
  simp [onPath, hk]

/-- Follow-up operations complete normally after any history of failures: a later send goes through … -/
theorem C12_followup_send_completes (spec : Nat → UpSpec) (n p : Nat) (hp : p < n) (ops : List Op) :
    step Yow.Gen.lockCfg spec n p (run Yow.Gen.lockCfg spec n p (init n) ops).1 (.send none)
      = ((run Yow.Gen.lockCfg spec n p (init n) ops).1, Res.ok) := by
  have hs := C12_locks_free_after_any_outcome spec n p hp ops
  rw [C12_current_source_releases_in_finally] at hs ⊢
  show sendAt good none (n - 1) _ = _
  rw [sendAt_good none (n - 1) _ (AllFree_FreeBelow hs (n - 1))]
  simp [onPath]

theorem followup_receive_good (spec : Nat → UpSpec) (n p : Nat) (hp : p < n) (s : St) (hs : AllFree s) (frame : Nat)
    (hq : ∀ f ∈ s.queue ++ [frame], (spec f).failAt = none ∧ (spec f).replyFail = none) :
    (step good spec n p s (.recv frame)).2 = Res.ok ∧ (step good spec n p s (.recv frame)).1.queue = [] ∧
    (step good spec n p s (.recv frame)).1.delivered = s.delivered ++ s.queue ++ [frame] := by
  have hfl : s.flush = false := hs.2
  have key := flushLoop_good_ok spec n p (s.queue ++ [frame]).length
    { s with queue := s.queue ++ [frame], flush := true } hp
    (FreeBelow_of_held (AllFree_FreeBelow hs n) rfl) (Nat.le_refl _) hq
  obtain ⟨k1, k2, k3⟩ := key
  have hr : step good spec n p s (.recv frame) = ({ (flushLoop good spec n p (s.queue ++ [frame]).length
      { s with queue := s.queue ++ [frame], flush := true }).1 with flush := false }, Res.ok) := by
    show noiseReceive good spec n p frame s = _
    unfold noiseReceive
    simp only [hfl, Bool.false_eq_true, ↓reduceIte, k1]
  rw [hr]
  exact ⟨rfl, k2, by simpa [List.append_assoc] using k3⟩

/-- … and a later incoming frame is delivered, together with every frame still waiting in the queue
    (frames left behind by an earlier failure are not lost), in order; afterwards all locks are free. -/
theorem C12_followup_receive_completes (spec : Nat → UpSpec) (n p : Nat) (hp : p < n) (ops : List Op) (frame : Nat)
    (hq : ∀ f ∈ (run Yow.Gen.lockCfg spec n p (init n) ops).1.queue ++ [frame],
      (spec f).failAt = none ∧ (spec f).replyFail = none) :
    (step Yow.Gen.lockCfg spec n p (run Yow.Gen.lockCfg spec n p (init n) ops).1 (.recv frame)).2 = Res.ok ∧
    (step Yow.Gen.lockCfg spec n p (run Yow.Gen.lockCfg spec n p (init n) ops).1 (.recv frame)).1.queue = [] ∧
    (step Yow.Gen.lockCfg spec n p (run Yow.Gen.lockCfg spec n p (init n) ops).1 (.recv frame)).1.delivered =
      (run Yow.Gen.lockCfg spec n p (init n) ops).1.delivered ++ (run Yow.Gen.lockCfg spec n p (init n) ops).1.queue ++ [frame] ∧
    AllFree (step Yow.Gen.lockCfg spec n p (run Yow.Gen.lockCfg spec n p (init n) ops).1 (.recv frame)).1 := by
  have hs := C12_locks_free_after_any_outcome spec n p hp ops
  rw [C12_current_source_releases_in_finally] at hs hq ⊢
  obtain ⟨a, b, c⟩ := followup_receive_good spec n p hp _ hs frame hq
  exact ⟨a, b, c, (step_good spec n p hp _ hs (.recv frame)).1⟩

/-- Why both `finally` clauses are needed (the pinned tree's defect, kept as model witnesses):
    without the one in `toLower`, one failing send leaves locks held and the next send blocks; … -/
theorem C12_leak_witness_toLower :
    (run { toLowerFinally := false, flushFinally := true } (fun _ => ⟨none, none, none⟩) 4 1 (init 4)
      [.send (some 0), .send none]).2 = [Res.raised, Res.blocked] := by decide

/-- … without the one in `_flush_incoming_buffer`, one failing receive blocks every later frame. -/
theorem C12_leak_witness_flush :
    (run { toLowerFinally := true, flushFinally := false }
      (fun f => if f = 1 then ⟨some 3, none, none⟩ else ⟨none, none, none⟩) 4 1 (init 4)
      [.recv 1, .recv 2]).2 = [Res.raised, Res.blocked] := by decide

/- Non-vacuity -/
example : (1 : Nat) < 4 := by decide
example : AllFree (init 4) := init_allFree 4

end Yow.Locks
