/-
  C01 on the TEXT of the current source: the digit packing functions of the codec (WriteEncoder.packHex / packNibble / packByte,
  ReadDecoder.unpackHex / unpackNibble / unpackByte) are regenerated on every run by a translator that works by syntax (harness/gen/nibsrc.py,
  harness/lib/py2lean.py, pure-function mode) into Gen/NibblesSrc.lean.  The theorems say that the translated functions are the model's
  (Model/Coder.lean) on every byte / digit, and that unpacking what was packed gives the character back.
-/
import YowsupVerif.Gen.NibblesSrc
import YowsupVerif.Model.Coder
import YowsupVerif.Lemmas.CoderDec
import YowsupVerif.Lemmas.CoderEnc
namespace Yow.Coder
open Yow.Gen.NibSrc

/-- the encoder's convention: -1 for "cannot be packed" -/
def encRes : Option Nat → Py.Res
  | some x => .ret (x : Int)
  | none => .ret (-1)

/-- the decoder's convention: an exception for a digit outside the alphabet -/
def decRes : Option Nat → Py.Res
  | some x => .ret (x : Int)
  | none => .raised

theorem C01_source_packHex_is_the_model (n : Nat) : enc_packHex (n : Int) = encRes (packHex n) := by
  grind [enc_packHex, packHex, encRes]

theorem C01_source_packNibble_is_the_model (n : Nat) : enc_packNibble (n : Int) = encRes (packNibble n) := by
  grind [enc_packNibble, packNibble, encRes]

theorem C01_source_packByte_is_the_model (v n : Nat) : enc_packByte (v : Int) (n : Int) = encRes (packByte v n) := by
  have h1 := C01_source_packHex_is_the_model n
  have h2 := C01_source_packNibble_is_the_model n
  grind [enc_packByte, packByte, encRes]

theorem C01_source_unpackHex_is_the_model (n : Nat) : dec_unpackHex (n : Int) = decRes (unpackHex n) := by
  grind [dec_unpackHex, unpackHex, decRes]

theorem C01_source_unpackNibble_is_the_model (n : Nat) : dec_unpackNibble (n : Int) = decRes (unpackNibble n) := by
  grind [dec_unpackNibble, unpackNibble, decRes]

theorem C01_source_unpackByte_is_the_model (t v : Nat) : dec_unpackByte (t : Int) (v : Int) = decRes (unpackByte t v) := by
  have h1 := C01_source_unpackHex_is_the_model v
  have h2 := C01_source_unpackNibble_is_the_model v
  grind [dec_unpackByte, unpackByte, decRes]

/-- Round trip of the translated functions: whatever character the current encoder packs (hex or nibble alphabet), the current decoder
    unpacks the digit to that very character; and the digit fits four bits. -/
theorem C01_source_pack_then_unpack (t c : Nat) (d : Int) (h : enc_packByte (t : Int) (c : Int) = .ret d) (hd : d ≠ -1) :
    dec_unpackByte (t : Int) d = .ret (c : Int) ∧ 0 ≤ d ∧ d < 16 := by
  grind [enc_packByte, enc_packHex, enc_packNibble, dec_unpackByte, dec_unpackHex, dec_unpackNibble]

/-- nothing outside the alphabets is packed: the translated `packByte` answers -1 exactly where the model refuses -/
theorem C01_source_unpackable_refused (t c : Nat) : enc_packByte (t : Int) (c : Int) = .ret (-1) ↔ packByte t c = none := by
  rw [C01_source_packByte_is_the_model]
  cases h : packByte t c with
  | none => simp [encRes]
  | some x => simp [encRes]

/-! ### the integer writers and the list header: Python's `&` / `>>` on the translated side, `/` and `%` in the model -/

theorem and255 (x : Nat) : x &&& 255 = x % 256 := Nat.and_two_pow_sub_one_eq_mod x 8
theorem and15 (x : Nat) : x &&& 15 = x % 16 := Nat.and_two_pow_sub_one_eq_mod x 4
theorem and127 (x : Nat) : x &&& 127 = x % 128 := Nat.and_two_pow_sub_one_eq_mod x 7

/-- `(v & (m << k)) >> k` is the field of `v` at bit `k` under the mask `m` -/
theorem bitfield (v mk k m : Nat) (h : mk >>> k = m) : (v &&& mk) >>> k = (v / 2 ^ k) &&& m := by
  rw [Nat.shiftRight_and_distrib, h, Nat.shiftRight_eq_div_pow]

theorem bitfield' (v mk k m : Nat) (h : mk >>> k = m) : (mk &&& v) >>> k = (v / 2 ^ k) &&& m := by
  rw [Nat.and_comm]; exact bitfield v mk k m h

theorem C01_source_writeInt8_is_the_model (v : Nat) : enc_writeInt8 v = .wrote (writeInt8 v) := by
  simp only [enc_writeInt8, writeInt8, and255]

theorem C01_source_writeInt16_is_the_model (v : Nat) : enc_writeInt16 v = .wrote (writeInt16 v) := by
  simp only [enc_writeInt16, Py.Out.andThen, writeInt16]
  rw [bitfield v 65280 8 255 (by decide), bitfield v 255 0 255 (by decide), and255, and255]
  simp

theorem C01_source_writeInt20_is_the_model (v : Nat) : enc_writeInt20 v = .wrote (writeInt20 v) := by
  simp only [enc_writeInt20, Py.Out.andThen, writeInt20]
  rw [bitfield' v 983040 16 15 (by decide), bitfield' v 65280 8 255 (by decide), bitfield v 255 0 255 (by decide), and255, and255, and15]
  simp

/-- (the model has no 24-bit writer of its own: the statement is the big-endian layout itself) -/
theorem C01_source_writeInt24_layout (v : Nat) : enc_writeInt24 v = .wrote [v / 65536 % 256, v / 256 % 256, v % 256] := by
  simp only [enc_writeInt24, Py.Out.andThen]
  rw [bitfield v 16711680 16 255 (by decide), bitfield v 65280 8 255 (by decide), bitfield v 255 0 255 (by decide), and255, and255, and255]
  simp

theorem C01_source_writeInt31_is_the_model (v : Nat) : enc_writeInt31 v = .wrote (writeInt31 v) := by
  simp only [enc_writeInt31, Py.Out.andThen, writeInt31]
  rw [bitfield' v 2130706432 24 127 (by decide), bitfield' v 16711680 16 255 (by decide), bitfield' v 65280 8 255 (by decide),
      bitfield v 255 0 255 (by decide), and255, and255, and255, and127]
  simp

/-- the list header: the model's bytes for every size the format has, refused (nothing written) from 65,536 on -/
theorem C01_source_writeListStart_is_the_model (i : Nat) :
    (i < 65536 → enc_writeListStart i = .wrote (writeListStart i)) ∧ (65536 ≤ i → enc_writeListStart i = .raised) := by
  constructor
  · intro h
    unfold enc_writeListStart writeListStart
    by_cases h0 : i = 0
    · simp [h0]
    · by_cases h1 : i < 256
      · simp [h0, h1, C01_source_writeInt8_is_the_model, Py.Out.andThen]
      · simp [h0, h1, h, C01_source_writeInt16_is_the_model, Py.Out.andThen]
  · intro h
    unfold enc_writeListStart
    have h0 : i ≠ 0 := by omega
    have h1 : ¬ i < 256 := by omega
    have h2 : ¬ i < 65536 := by omega
    simp [h0, h1, h2]

/-- a token is one byte, or refused -/
theorem C01_source_writeToken (t : Nat) : enc_writeToken t = if t ≤ 255 then .wrote [t] else .raised := by
  unfold enc_writeToken; by_cases h : t ≤ 255 <;> simp [h]

/-- what the translated writers emit are bytes -/
theorem C01_source_writers_emit_bytes (v : Nat) :
    BytesOK (writeInt8 v) ∧ BytesOK (writeInt16 v) ∧ BytesOK (writeInt20 v) ∧ BytesOK (writeInt31 v) := by
  refine ⟨?_, ?_, ?_, ?_⟩ <;> intro b hb <;> simp [writeInt8, writeInt16, writeInt20, writeInt31] at hb <;> omega

/-! ### the integer readers: Python's `<<` / `|` / `&` on the translated side, `*` / `+` / `%` in the model -/

/-- the decoder's readers: an exception (whatever kind) against the model's error, a value and the rest of the list against the model's pair -/
def rdRes : R Nat → Py.Rd
  | .ok (v, rest) => .ret v rest
  | .error _ => .raised

theorem C01_source_readInt8_is_the_model (data : Bytes) : dec_readInt8 data = rdRes (readInt8 data) := by
  cases data <;> rfl

theorem C01_source_readInt16_is_the_model (data : Bytes) : dec_readInt16 data = rdRes (readInt16 data) := by
  match data with
  | [] => rfl
  | [_] => rfl
  | a :: b :: r => simp [dec_readInt16, readInt16, rdRes, Nat.shiftLeft_eq]

/-- `x << k | y` is `x * 2^k + y` when `y` fits below bit `k` -/
theorem shl_or (x y k : Nat) (h : y < 2 ^ k) : x <<< k ||| y = x * 2 ^ k + y := by
  rw [← Nat.shiftLeft_add_eq_or_of_lt h, Nat.shiftLeft_eq]

/-- on bytes (every wire input is a list of bytes) the 20-bit reader is the model's -/
theorem C01_source_readInt20_is_the_model (data : Bytes) (hb : BytesOK data) : dec_readInt20 data = rdRes (readInt20 data) := by
  match data, hb with
  | [], _ => rfl
  | [_], _ => rfl
  | [_, _], _ => rfl
  | a :: b :: c :: r, hb =>
    have hb2 : b < 256 := hb b (by simp)
    have hc : c < 256 := hb c (by simp)
    simp only [dec_readInt20, readInt20, rdRes, and15]
    have e1 : (a % 16) <<< 16 ||| b <<< 8 = (a % 16) * 65536 + b * 256 := by
      have : b <<< 8 < 2 ^ 16 := by rw [Nat.shiftLeft_eq] <;> try omega
      rw [shl_or _ _ 16 this, Nat.shiftLeft_eq] <;> try omega
    have e2 : ((a % 16) * 65536 + b * 256) ||| c = (a % 16) * 65536 + b * 256 + c := by
      have h8 : (a % 16) * 65536 + b * 256 = ((a % 16) * 256 + b) <<< 8 := by rw [Nat.shiftLeft_eq] <;> try omega
      rw [h8, shl_or _ _ 8 (by omega), ← Nat.shiftLeft_eq]
    rw [e1, e2]

theorem C01_source_readInt24_layout (data : Bytes) :
    dec_readInt24 data = match data with | a :: b :: c :: r => .ret (a * 65536 + b * 256 + c) r | _ => .raised := by
  match data with
  | [] => rfl
  | [_] => rfl
  | [_, _] => rfl
  | a :: b :: c :: r => simp [dec_readInt24, Nat.shiftLeft_eq]

theorem C01_source_readInt31_is_the_model (data : Bytes) (hb : BytesOK data) : dec_readInt31 data = rdRes (readInt31 data) := by
  match data, hb with
  | [], _ => rfl
  | [_], _ => rfl
  | [_, _], _ => rfl
  | [_, _, _], _ => rfl
  | a :: b :: c :: e :: r, hb =>
    have hb2 : b < 256 := hb b (by simp)
    have hc : c < 256 := hb c (by simp)
    have he : e < 256 := hb e (by simp)
    simp only [dec_readInt31, readInt31, rdRes, and127]
    have e1 : (a % 128) <<< 24 ||| b <<< 16 = ((a % 128) * 256 + b) <<< 16 := by
      have : b <<< 16 < 2 ^ 24 := by rw [Nat.shiftLeft_eq] <;> try omega
      rw [shl_or _ _ 24 this, Nat.shiftLeft_eq, Nat.shiftLeft_eq] <;> try omega
    have e2 : ((a % 128) * 256 + b) <<< 16 ||| c <<< 8 = (((a % 128) * 256 + b) * 256 + c) <<< 8 := by
      have : c <<< 8 < 2 ^ 16 := by rw [Nat.shiftLeft_eq] <;> try omega
      rw [shl_or _ _ 16 this, Nat.shiftLeft_eq, Nat.shiftLeft_eq] <;> try omega
    have e3 : (((a % 128) * 256 + b) * 256 + c) <<< 8 ||| e = a % 128 * 16777216 + b * 65536 + c * 256 + e := by
      rw [shl_or _ _ 8 (by omega)] <;> try omega
    rw [e1, e2, e3]

/-- the list header reader: the model's on every token and every input -/
theorem C01_source_readListSize_is_the_model (token : Nat) (data : Bytes) : dec_readListSize token data = rdRes (readListSize token data) := by
  unfold dec_readListSize readListSize
  by_cases h0 : token = 0
  · simp [h0, rdRes]
  · by_cases h1 : token = 248
    · simp only [h1]; rw [C01_source_readInt8_is_the_model]; cases readInt8 data with
      | error e => simp [rdRes]
      | ok p => simp [rdRes]
    · by_cases h2 : token = 249
      · simp only [h2]; rw [C01_source_readInt16_is_the_model]; cases readInt16 data with
        | error e => simp [rdRes]
        | ok p => simp [rdRes]
      · simp [h0, h1, h2, rdRes]

/-- writers and readers of the translated source are inverse to each other on the ranges of the format -/
theorem C01_source_write_then_read (v : Nat) (rest : Bytes) :
    (v < 256 → dec_readInt8 (writeInt8 v ++ rest) = .ret v rest) ∧
    (v < 65536 → dec_readInt16 (writeInt16 v ++ rest) = .ret v rest) := by
  constructor
  · intro h; simp [dec_readInt8, writeInt8]; omega
  · intro h; simp [dec_readInt16, writeInt16, Nat.shiftLeft_eq]; omega

/-- The list header of the CURRENT source survives its own round trip: for every size the format has, what the translated `writeListStart`
    appends is a token followed by size bytes from which the translated `readListSize` returns exactly that size, leaving untouched whatever
    follows. -/
theorem C01_source_list_header_roundtrip (k : Nat) (hk : k < 65536) (more : Bytes) :
    ∃ h bh, enc_writeListStart k = .wrote (h :: bh) ∧ dec_readListSize h (bh ++ more) = .ret k more := by
  obtain ⟨h, bh, hw, he, _⟩ := writeListStart_EncList hk
  refine ⟨h, bh, ?_, ?_⟩
  · rw [(C01_source_writeListStart_is_the_model k).1 hk, hw]
  · rw [C01_source_readListSize_is_the_model, readListSize_of_EncList he more]; rfl

/-- non-vacuity: runs of the translated code -/
example : enc_packByte 251 70 = .ret 15 ∧ dec_unpackByte 251 15 = .ret 70 ∧ enc_packByte 255 46 = .ret 11 ∧ dec_unpackByte 255 11 = .ret 46 ∧
    enc_packByte 255 70 = .ret (-1) ∧ dec_unpackByte 255 12 = .raised ∧
    enc_writeInt20 0xABCDE = .wrote [0x0A, 0xBC, 0xDE] ∧ enc_writeListStart 300 = .wrote [249, 1, 44] ∧ enc_writeListStart 65536 = .raised ∧
    dec_readInt20 [0xFA, 0xBC, 0xDE, 7] = .ret 0xABCDE [7] ∧ dec_readInt31 [0xFF, 1, 2, 3] = .ret 0x7F010203 [] ∧ dec_readListSize 249 [1, 44, 9] = .ret 300 [9] ∧
    dec_readListSize 250 [1] = .raised ∧ dec_readInt16 [5] = .raised := by decide

end Yow.Coder
