/-
  C01 on the TEXT of the current source: the digit packing functions of the codec (WriteEncoder.packHex / packNibble / packByte,
  ReadDecoder.unpackHex / unpackNibble / unpackByte) are regenerated on every run by a translator that works by syntax (harness/gen/nibsrc.py,
  harness/lib/py2lean.py, pure-function mode) into Gen/NibblesSrc.lean.  The theorems say that the translated functions are the model's
  (Model/Coder.lean) on every byte / digit, and that unpacking what was packed gives the character back.
-/
import YowsupVerif.Gen.NibblesSrc
import YowsupVerif.Model.Coder
namespace Yow.Coder
open Yow.Gen.NibSrc

/-- the encoder's convention: -1 for "cannot be packed" -/
def encRes : Option Nat → Py.Res
  | some x => .ret (x : Int)
  | none => .ret (-1)

/-- the decoder's convention: an exception for a digit outside the alphabet -/
def decRes : Option Nat → Py.Res
  | some x => .ret (x : Int)
  | none => .raised

theorem C01_source_packHex_is_the_model (n : Nat) : enc_packHex (n : Int) = encRes (packHex n) := by
  grind [enc_packHex, packHex, encRes]

theorem C01_source_packNibble_is_the_model (n : Nat) : enc_packNibble (n : Int) = encRes (packNibble n) := by
  grind [enc_packNibble, packNibble, encRes]

theorem C01_source_packByte_is_the_model (v n : Nat) : enc_packByte (v : Int) (n : Int) = encRes (packByte v n) := by
  have h1 := C01_source_packHex_is_the_model n
  have h2 := C01_source_packNibble_is_the_model n
  grind [enc_packByte, packByte, encRes]

theorem C01_source_unpackHex_is_the_model (n : Nat) : dec_unpackHex (n : Int) = decRes (unpackHex n) := by
  grind [dec_unpackHex, unpackHex, decRes]

theorem C01_source_unpackNibble_is_the_model (n : Nat) : dec_unpackNibble (n : Int) = decRes (unpackNibble n) := by
  grind [dec_unpackNibble, unpackNibble, decRes]

theorem C01_source_unpackByte_is_the_model (t v : Nat) : dec_unpackByte (t : Int) (v : Int) = decRes (unpackByte t v) := by
  have h1 := C01_source_unpackHex_is_the_model v
  have h2 := C01_source_unpackNibble_is_the_model v
  grind [dec_unpackByte, unpackByte, decRes]

/-- Round trip of the translated functions: whatever character the current encoder packs (hex or nibble alphabet), the current decoder
    unpacks the digit to that very character; and the digit fits four bits. -/
theorem C01_source_pack_then_unpack (t c : Nat) (d : Int) (h : enc_packByte (t : Int) (c : Int) = .ret d) (hd : d ≠ -1) :
    dec_unpackByte (t : Int) d = .ret (c : Int) ∧ 0 ≤ d ∧ d < 16 := by
  grind [enc_packByte, enc_packHex, enc_packNibble, dec_unpackByte, dec_unpackHex, dec_unpackNibble]

/-- nothing outside the alphabets is packed: the translated `packByte` answers -1 exactly where the model refuses -/
theorem C01_source_unpackable_refused (t c : Nat) : enc_packByte (t : Int) (c : Int) = .ret (-1) ↔ packByte t c = none := by
  rw [C01_source_packByte_is_the_model]
  cases h : packByte t c with
  | none => simp [encRes]
  | some x => simp [encRes]

/-- non-vacuity: runs of the translated code -/
example : enc_packByte 251 70 = .ret 15 ∧ dec_unpackByte 251 15 = .ret 70 ∧ enc_packByte 255 46 = .ret 11 ∧ dec_unpackByte 255 11 = .ret 46 ∧
    enc_packByte 255 70 = .ret (-1) ∧ dec_unpackByte 255 12 = .raised := by decide

end Yow.Coder
