/-
  C16  Connection lifecycle: login, failure, stream error, keep-alive and reconnect.
  Property theorems only (lemmas: Lemmas/Lifecycle.lean).  All theorems hold for EVERY history over the
  property's alphabet (connect requests, dispatcher connected / closed, disconnect requests, success,
  failure, stream errors of every kind, keep-alive ticks, pongs, loop iterations, application sends),
  for both values of the reconnect option and of the passive flag; dispatcher events may refer to any
  dispatcher (events for unknown or closed ones are no-ops).
-/
import YowsupVerif.Lemmas.Lifecycle
namespace Yow.Life

/-- the structural invariant holds in every reachable state -/
theorem C16_invariant (r p c : Bool) (is : List In) : Inv (run { reconnectOpt := r, passive := p, control := c } is).1 :=
  inv_run _ (inv_init r p c) is

/-- A connect announces itself once and triggers one login attempt; each connection announced as up is
    announced as down exactly once — in every reachable state and for every next event: 'connected' is
    announced exactly when the layer goes from down to up (at most once per event, with exactly one login
    attempt); 'disconnected' is announced at most once per event, only for a connection that was up or being
    established, and always when an up connection goes down. Hence announcements of up and of the matching
    down alternate along every history. -/
theorem C16_up_down_alternate (r p c : Bool) (is : List In) (i : In) :
    let s := (run { reconnectOpt := r, passive := p, control := c } is).1
    let o := step s i
    (o.2.count .up ≤ 1) ∧ (o.2.count .downNear ≤ 1) ∧
    (o.2.count .up = 1 ↔ (s.connected = false ∧ o.1.connected = true)) ∧
    (o.2.count .up = (o.2.filter (fun x => match x with | .authAttempt _ => true | _ => false)).length) ∧
    (o.2.count .downNear = 1 → (s.nstate = .connecting ∨ s.nstate = .connected)) ∧
    (s.connected = true → o.1.connected = false → o.2.count .downNear = 1) :=
  announcements _ (C16_invariant r p c is) i

/-- Nothing is ever written to a connection that is down. -/
theorem C16_no_write_when_down (r p c : Bool) (is : List In) (i : In) (d : Nat)
    (hw : Out.written d ∈ (step (run { reconnectOpt := r, passive := p, control := c } is).1 i).2) :
    let s := (run { reconnectOpt := r, passive := p, control := c } is).1
    s.connected = true ∧ s.cur = some d ∧ ∃ dp : Disp, s.disps[d]? = some dp ∧ dp.established = true ∧ dp.open_ = true :=
  no_write_when_down _ (C16_invariant r p c is) i d hw

/-- Transport state is reset so that a later connect starts afresh: in every reachable state in which no connection
    exists or is being established (every dispatcher ever created has been closed), a connect request — from the
    application or as the CONNECT event — creates exactly one new connection attempt. -/
theorem C16_connect_after_all_closed (r p c : Bool) (is : List In)
    (hc : ∀ dp ∈ (run { reconnectOpt := r, passive := p, control := c } is).1.disps, dp.open_ = false) :
    let s := (run { reconnectOpt := r, passive := p, control := c } is).1
    (step s .connectReq).2 = [.created s.disps.length] ∧ (step s .connectEvt).2 = [.created s.disps.length] := by
  intro s
  have hinv : Inv s := C16_invariant r p c is
  have hd : s.nstate = .disconnected := by
    by_cases hn : s.nstate = .disconnected
    · exact hn
    · obtain ⟨d, dp, _, hget, hopen, _⟩ := hinv.cur_open hn
      have hmem : dp ∈ s.disps := List.mem_of_getElem? hget
      have := hc dp hmem
      simp [hopen] at this
  have hconn : s.connected = false := by
    obtain ⟨_, _, h3, _⟩ := hinv
    cases hcn : s.connected with
    | false => rfl
    | true => have := h3.mp hcn; rw [hd] at this; cases this
  constructor
  · simp [step, createConnection, hd]
  · simp [step, createConnection, hd, hconn]

/-- A success reply announces the authenticated state once. -/
theorem C16_authed_announced_once (s : St) : (step s .success).2 = [.authed] := rfl

/-- A login failure is delivered to the application and closes the connection. -/
theorem C16_failure_delivered_and_closed (r p c : Bool) (is : List In)
    (hc : (run { reconnectOpt := r, passive := p, control := c } is).1.nstate = .connected) :
    let s := (run { reconnectOpt := r, passive := p, control := c } is).1
    ∃ d, s.cur = some d ∧ (step s .failure).2 = [.entityFailure, .closed d, .downNear] ∧ (step s .failure).1.connected = false :=
  failure_closes _ (C16_invariant r p c is) hc

/-- A stream error of ANY kind (also unknown kinds) is delivered and closes the connection. -/
theorem C16_stream_error_delivered_and_closed (r p c : Bool) (is : List In) (k : ErrKind)
    (hc : (run { reconnectOpt := r, passive := p, control := c } is).1.nstate = .connected) :
    let s := (run { reconnectOpt := r, passive := p, control := c } is).1
    ∃ d, s.cur = some d ∧ (step s (.streamError k)).2 = [.entityStreamError k, .closed d, .downNear] ∧
      (step s (.streamError k)).1.connected = false :=
  let ⟨d, a, b, c, _⟩ := stream_error_closes _ (C16_invariant r p c is) hc k
    (run_unknownErrRaises { reconnectOpt := r, passive := p, control := c } is)
  ⟨d, a, b, c⟩

/-- The application is reconnected automatically after a stream error unless it was a sign-in conflict or
    the reconnect option is off: when the loop delivers the deferred 'disconnected', exactly one new
    connection is created in the first case and none otherwise; transport state is reset (fresh login) and
    the keep-alive is stopped. -/
theorem C16_stream_error_reconnect_policy (r p c : Bool) (is : List In) (k : ErrKind)
    (hc : (run { reconnectOpt := r, passive := p, control := c } is).1.nstate = .connected)
    (hp : (run { reconnectOpt := r, passive := p, control := c } is).1.pendingDown = 0)
    (hf : (run { reconnectOpt := r, passive := p, control := c } is).1.reconnectFlag = false)
    (hb : (run { reconnectOpt := r, passive := p, control := c } is).1.rebootFlag = false) :
    let s := (run { reconnectOpt := r, passive := p, control := c } is).1
    let s2 := (step (step s (.streamError k)).1 .loop)
    s2.2 = (if s.reconnectOpt && k != .conflict then [.downAll, .created s.disps.length] else [.downAll]) ∧
    s2.1.noiseFresh = true ∧ s2.1.pingThread = false :=
  reconnect_policy _ (C16_invariant r p c is) hc k
    (run_unknownErrRaises { reconnectOpt := r, passive := p, control := c } is) hp hf hb

/- The policy theorem speaks of the option's value in the state the stream error arrives in: an application that changes the option at run
   time (input `setReconnect`) gets the new behaviour from the next stream error on. -/
example : (run { reconnectOpt := true } [.connectReq, .dConnected 0, .success, .setReconnect false, .streamError .ack, .loop]).2 =
    [.created 0, .up, .authAttempt false, .authed, .entityStreamError .ack, .closed 0, .downNear, .downAll] := by decide
example : (run { reconnectOpt := false } [.connectReq, .dConnected 0, .setReconnect true, .streamError .ack, .loop]).2 =
    [.created 0, .up, .authAttempt false, .entityStreamError .ack, .closed 0, .downNear, .downAll, .created 1] := by decide

/-- With the encryption control layer in the stack: when the server confirms the key upload of a passive login, the control layer
    reboots the connection — it closes it, and when the loop delivers the deferred 'disconnected' exactly one new connection is
    started, with the passive flag switched off and the reboot flag cleared. -/
theorem C16_control_reboot (r p : Bool) (is : List In)
    (hc : (run { reconnectOpt := r, passive := p, control := true } is).1.nstate = .connected)
    (hp : (run { reconnectOpt := r, passive := p, control := true } is).1.pendingDown = 0)
    (hf : (run { reconnectOpt := r, passive := p, control := true } is).1.reconnectFlag = false)
    (hb : (run { reconnectOpt := r, passive := p, control := true } is).1.rebootFlag = false) :
    let s := (run { reconnectOpt := r, passive := p, control := true } is).1
    let o1 := step s .keysFlushed
    let o2 := step o1.1 .loop
    (∃ d, s.cur = some d ∧ o1.2 = [.closed d, .downNear]) ∧ o2.2 = [.downAll, .created s.disps.length] ∧
    o2.1.rebootFlag = false ∧ o2.1.passive = false ∧ o2.1.nstate = .connecting :=
  control_reboot _ (C16_invariant r p true is) rfl_control hc hp hf hb
where rfl_control := run_control { reconnectOpt := r, passive := p, control := true } is rfl

/-- That reboot happens once: in every history the server and the network can produce, a set reboot flag always has its deferred
    'disconnected' still queued, and the next run of the loop clears it — after which reconnects follow the stream-error policy
    (`C16_stream_error_reconnect_policy`, whose hypothesis `rebootFlag = false` this discharges). -/
theorem C16_reboot_flag_is_transient (r p c : Bool) (is : List In)
    (ha : AllowedRun { reconnectOpt := r, passive := p, control := c } is = true) :
    let s := (run { reconnectOpt := r, passive := p, control := c } is).1
    (s.rebootFlag = true → 1 ≤ s.pendingDown) ∧ (step s .loop).1.rebootFlag = false :=
  reboot_flag_transient r p c is ha

/-- Without the control layer the flag is never set. -/
theorem C16_no_control_no_reboot (r p : Bool) (is : List In) :
    (run { reconnectOpt := r, passive := p, control := false } is).1.rebootFlag = false :=
  no_control_no_reboot r p is

/-- Keep-alive: never closes while every ping is answered before the next one is due … -/
theorem C16_ping_answered_never_closes (r p c : Bool) (is : List In)
    (ht : (run { reconnectOpt := r, passive := p, control := c } is).1.pingThread = true)
    (ho : (run { reconnectOpt := r, passive := p, control := c } is).1.outstanding = 0) :
    let s := (run { reconnectOpt := r, passive := p, control := c } is).1
    (∀ d, Out.closed d ∉ (step s .pingTick).2) ∧ (step s .pingTick).1.outstanding = 1 ∧
    (step (step s .pingTick).1 (.pong true)).1.outstanding = 0 ∧ (step s .pingTick).1.pingThread = true :=
  ping_answered_never_closes _ (C16_invariant r p c is) ht ho

/-- … through any number of rounds, and whether or not the application's callback for an answer raises: the keep-alive's
    bookkeeping is done before the answer is handed upward, so a failing callback cannot turn into a later 'Ping Timeout'. -/
theorem C16_answered_rounds_never_close (r p c : Bool) (is : List In) (rs : List Bool)
    (ht : (run { reconnectOpt := r, passive := p, control := c } is).1.pingThread = true)
    (ho : (run { reconnectOpt := r, passive := p, control := c } is).1.outstanding = 0) :
    let s := (run { reconnectOpt := r, passive := p, control := c } is).1
    (∀ d, Out.closed d ∉ (run s (answeredRounds rs)).2) ∧ (run s (answeredRounds rs)).1.outstanding = 0 ∧
    (run s (answeredRounds rs)).1.pingThread = true :=
  answered_rounds_never_close rs _ (C16_invariant r p c is) ht ho

example : (run {} ([.connectReq, .dConnected 0, .success] ++ answeredRounds [true, false, true])).2 =
    [.created 0, .up, .authAttempt false, .authed, .pingSent, .written 0, .appRaised, .pingSent, .written 0, .pingSent, .written 0, .appRaised] := by
  decide

/-- … and closes the connection when a ping is still unanswered at the time the next one is due. -/
theorem C16_ping_timeout_closes (r p c : Bool) (is : List In)
    (ht : (run { reconnectOpt := r, passive := p, control := c } is).1.pingThread = true)
    (ho : 1 ≤ (run { reconnectOpt := r, passive := p, control := c } is).1.outstanding)
    (hc : (run { reconnectOpt := r, passive := p, control := c } is).1.nstate = .connected) :
    let s := (run { reconnectOpt := r, passive := p, control := c } is).1
    ∃ d, s.cur = some d ∧ (step s .pingTick).2 = [.closed d, .downNear] ∧ (step s .pingTick).1.pingThread = false :=
  ping_unanswered_closes _ (C16_invariant r p c is) ht ho hc

/-- When the loop delivers a deferred 'disconnected' announcement to the layers, the keep-alive is stopped and forgets its
    unanswered pings: from then on no ping of an earlier connection counts against a later one. -/
theorem C16_down_resets_keepalive (r p c : Bool) (is : List In)
    (h : 0 < (run { reconnectOpt := r, passive := p, control := c } is).1.pendingDown) :
    let s2 := step (run { reconnectOpt := r, passive := p, control := c } is).1 .loop
    s2.1.outstanding = 0 ∧ s2.1.pingThread = false ∧ Out.downAll ∈ s2.2 :=
  drain_keepalive _ _ (Nat.le_refl _) h

/- Until that announcement is delivered the keep-alive cannot know: a ping written to the closed connection still counts as unanswered when
   the next one is due, even if a new connection is already up (found by the thorough tier; within the property — a ping WAS unanswered). -/
example : (run {} [.connectReq, .dConnected 0, .success, .pingTick, .dClosed 0, .connectReq, .dConnected 1, .pingTick]).2 =
    [.created 0, .up, .authAttempt false, .authed, .pingSent, .written 0, .closed 0, .downNear, .created 1, .up, .authAttempt false,
     .closed 1, .downNear] := by
  decide

/-- Why the three repairs were needed (pinned-tree behaviours as model witnesses are in DESIGN §8). -/
example : (run {} [.connectReq, .dConnected 0, .success, .pingTick, .pong true, .pingTick, .pingTick, .loop]).2 =
    [.created 0, .up, .authAttempt false, .authed, .pingSent, .written 0, .pingSent, .written 0, .closed 0, .downNear, .downAll] := by
  decide

/-- non-vacuity of the reboot theorems: a passive login with the control layer, the upload confirmed, the loop, the second login,
    then a sign-in conflict: no further connection -/
example : (run { reconnectOpt := true, passive := true, control := true }
      [.connectReq, .dConnected 0, .success, .keysFlushed, .loop, .dConnected 1, .success, .streamError .conflict, .loop]).2 =
    [.created 0, .up, .authAttempt true, .authed, .closed 0, .downNear, .downAll, .created 1, .up, .authAttempt false, .authed,
     .entityStreamError .conflict, .closed 1, .downNear, .downAll] := by
  decide

end Yow.Life
