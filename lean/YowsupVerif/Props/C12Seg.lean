/-
  C12, segment layer: a failure while a frame is handed upward does not lose, repeat or reorder any other frame.
  Property theorems only (lemmas: Lemmas/SegmentsF.lean) about `peelF` / `recvF` / `runF` of Model/Segments.lean: `receive`
  cuts a frame off its buffer before handing it upward; when the layers above raise (`bad f`), the call ends with the
  exception and the rest of the buffer waits for the next call.  All statements hold for every set of failing frames, every
  list of frames and every way the network splits the byte stream into chunks.
-/
import YowsupVerif.Lemmas.SegmentsF
namespace Yow.Segments

/-- Safety: at every moment — any chunking of any prefix of the stream — what has been handed upward is a prefix of the frames
    the peer sent: nothing else, nothing twice, nothing out of order, whichever frames failed. -/
theorem C12_seg_handed_is_prefix (bad : Bytes → Bool) (fs : List Bytes) (hfs : FramesOK fs) (cs : List Bytes) (tail : Bytes)
    (hcs : cs.flatten ++ tail = stream fs) :
    ∃ rest, (runF bad {} cs).handed ++ rest = fs :=
  handed_is_prefix bad fs hfs cs tail hcs

/-- Liveness: once the whole stream has arrived, at most one further call per failing frame (even with no new data) hands up
    every frame — each exactly once, in order; each failing frame raised exactly once; the buffer is empty. -/
theorem C12_seg_all_handed_after_retries (bad : Bytes → Bool) (fs : List Bytes) (hfs : FramesOK fs) (cs : List Bytes)
    (hcs : cs.flatten = stream fs) (n : Nat) (hn : (fs.filter bad).length ≤ n) :
    runF bad {} (cs ++ List.replicate n []) = { buf := [], handed := fs, raises := (fs.filter bad).length } :=
  all_handed_after_retries bad fs hfs cs hcs n hn

/-- The same with later traffic instead of empty reads: when more fault-free frames arrive afterwards, one per network read and
    more of them than frames failed, everything — the earlier frames and the later ones — has been handed up once and in order. -/
theorem C12_seg_all_handed_after_later_frames (bad : Bytes → Bool) (fs gs : List Bytes) (hfs : FramesOK fs) (hgs : FramesOK gs)
    (hgood : ∀ g ∈ gs, bad g = false) (cs : List Bytes) (hcs : cs.flatten = stream fs) (hn : (fs.filter bad).length < gs.length) :
    runF bad {} (cs ++ gs.map frame) = { buf := [], handed := fs ++ gs, raises := (fs.filter bad).length } :=
  all_handed_after_later_frames bad fs gs hfs hgs hgood cs hcs hn

/-- Without failures this is the receive path of C05. -/
theorem C12_seg_no_failure_is_C05 (cs : List Bytes) :
    (runF (fun _ => false) {} cs).handed = (run init cs).2 ∧ (runF (fun _ => false) {} cs).buf = (run init cs).1.buf ∧
    (runF (fun _ => false) {} cs).raises = 0 :=
  no_failure_is_run cs

/- Non-vacuity: three frames, the middle one failing, cut inside the second header. -/
example :
    let fs : List Bytes := [[7], [8, 9], [5]]
    let bad : Bytes → Bool := fun f => f == [8, 9]
    FramesOK fs ∧ ([[0, 0, 1, 7, 0], [0, 2, 8, 9, 0, 0, 1, 5]] : List Bytes).flatten = stream fs ∧
    runF bad {} [[0, 0, 1, 7, 0], [0, 2, 8, 9, 0, 0, 1, 5]] = { buf := [0, 0, 1, 5], handed := [[7], [8, 9]], raises := 1 } ∧
    runF bad {} [[0, 0, 1, 7, 0], [0, 2, 8, 9, 0, 0, 1, 5], []] = { buf := [], handed := fs, raises := 1 } := by
  refine ⟨?_, by decide, by decide +kernel, by decide +kernel⟩
  intro f hf; revert f; decide

end Yow.Segments
