/-
  C16 (clause "transport state is reset so that a later connect starts a fresh login"), wire side.
  Property theorems only (lemmas: Lemmas/Login.lean).
-/
import YowsupVerif.Lemmas.Login
import YowsupVerif.Gen.LoginCfg
namespace Yow.Login

/-- the current on_auth switches segmentation off before it writes anything (observed by running it on a stack whose
    segmentation switch was left on by an earlier login; Gen/LoginCfg.lean) -/
theorem C16_login_resets_segmentation : Yow.Gen.loginCfg = { resetFirst := true } := by decide

/-- For every history of logins on one stack — whatever state the previous connections left behind — every login puts a
    fresh login on the wire: (routing header raw + routing info as a segment,) the prologue raw, then the client hello as a
    segment. -/
theorem C16_every_login_is_fresh (s : St) (es : List Bool) :
    logins Yow.Gen.loginCfg s es = es.map fresh := by
  rw [C16_login_resets_segmentation]; exact logins_fresh s es

/-- Sensitivity: without the reset the second login's prologue goes out with a length prefix. -/
theorem C16_without_reset_second_login_unreadable :
    logins { resetFirst := false } {} [false, false] = [fresh false, [{ framed := true, piece := .prologue }, { framed := true, piece := .clientHello }]] :=
  no_reset_second_login_framed

end Yow.Login
