/-
  Composition of the transport path, sender stack to receiver stack (theorem only; lemmas: Props/C01, Props/C05):

      coder.send (encodeFrame)  →  noise (seal with the next counter)  →  segments.send (3-byte header + payload)
      ~~ network: any split / coalescing of the byte stream ~~
      segments.receive (peel)   →  noise (open with the next counter)  →  coder.receive (decodeFrame)

  The cipher is a parameter: any pair `wrap`/`unwrap` that inverts per counter (C15 / the Noise library's contract).
  The statement joins C01 (codec round trip) and C05 (any chunking) into the end-to-end contract the properties C01,
  C02 and C05 speak about from their three sides: whatever list of well-formed stanzas the sender's stack writes, and
  however the network cuts the bytes, the receiver's stack hands upward exactly those stanzas, in order, and nothing else.
-/
import YowsupVerif.Props.C01
import YowsupVerif.Props.C05
namespace Yow.Pipeline
open Yow.Coder Yow.Segments

/-- what the sender's stack writes for the stanzas `ns`, frame `i` sealed with counter `i` -/
def sentFrames (d : Dict) (wrap : Nat → Bytes → Bytes) (k : Nat) : List Node → List Bytes
  | [] => []
  | n :: ns => wrap k (encodeFrame d n) :: sentFrames d wrap (k + 1) ns

/-- what the receiver's stack hands to the protocol layers for the frames the segment layer delivered -/
def received (d : Dict) (inflate : Bytes → Option Bytes) (unwrap : Nat → Bytes → Bytes) (k : Nat) : List Bytes → List (Except Err Node)
  | [] => []
  | f :: fs => decodeFrame d inflate (unwrap k f) :: received d inflate unwrap (k + 1) fs

theorem received_sentFrames (d : Dict) (hd : d.WF) (inflate : Bytes → Option Bytes) (wrap unwrap : Nat → Bytes → Bytes)
    (hinv : ∀ k x, unwrap k (wrap k x) = x) (ns : List Node) (hn : ∀ n ∈ ns, WFNode d n) (k : Nat) :
    received d inflate unwrap k (sentFrames d wrap k ns) = ns.map .ok := by
  induction ns generalizing k with
  | nil => rfl
  | cons n ns ih =>
    simp only [sentFrames, received, List.map_cons, hinv]
    rw [C01_roundtrip d hd inflate n (hn n (by simp)), ih (fun m hm => hn m (by simp [hm]))]

/-- End to end: every list of well-formed stanzas, every admissible dictionary, every invertible per-counter cipher whose
    sealed frames fit the 24-bit frame limit, every way the network chunks the byte stream: the receiver's protocol layers
    get exactly the stanzas sent, in order; the segment layer's buffer is empty afterwards. -/
theorem stanzas_survive_transport (d : Dict) (hd : d.WF) (inflate : Bytes → Option Bytes) (wrap unwrap : Nat → Bytes → Bytes)
    (hinv : ∀ k x, unwrap k (wrap k x) = x) (ns : List Node) (hn : ∀ n ∈ ns, WFNode d n)
    (hsz : FramesOK (sentFrames d wrap 0 ns)) (cs : List Bytes) (hcs : cs.flatten = stream (sentFrames d wrap 0 ns)) :
    received d inflate unwrap 0 (run init cs).2 = ns.map .ok ∧ (run init cs).1.buf = [] := by
  rw [C05_any_chunking _ hsz cs hcs]
  exact ⟨received_sentFrames d hd inflate wrap unwrap hinv ns hn 0, rfl⟩

/-- The same for the WhatsApp dictionary of the current source. -/
theorem stanzas_survive_transport_wa (inflate : Bytes → Option Bytes) (wrap unwrap : Nat → Bytes → Bytes)
    (hinv : ∀ k x, unwrap k (wrap k x) = x) (ns : List Node) (hn : ∀ n ∈ ns, WFNode Gen.waDict n)
    (hsz : FramesOK (sentFrames Gen.waDict wrap 0 ns)) (cs : List Bytes) (hcs : cs.flatten = stream (sentFrames Gen.waDict wrap 0 ns)) :
    received Gen.waDict inflate unwrap 0 (run init cs).2 = ns.map .ok ∧ (run init cs).1.buf = [] :=
  stanzas_survive_transport Gen.waDict C01_waDict_WF inflate wrap unwrap hinv ns hn hsz cs hcs

/-- A stream cut inside a later frame (connection lost mid-frame): everything complete before the cut is received, the rest is not. -/
theorem stanzas_survive_cut (d : Dict) (hd : d.WF) (inflate : Bytes → Option Bytes) (wrap unwrap : Nat → Bytes → Bytes)
    (hinv : ∀ k x, unwrap k (wrap k x) = x) (ns : List Node) (hn : ∀ n ∈ ns, WFNode d n)
    (hsz : FramesOK (sentFrames d wrap 0 ns)) (g tail rest : Bytes) (hg : 0 < g.length ∧ g.length < 16777216) (hrest : rest ≠ [])
    (hcut : tail ++ rest = frame g) (cs : List Bytes) (hcs : cs.flatten = stream (sentFrames d wrap 0 ns) ++ tail) :
    received d inflate unwrap 0 (run init cs).2 = ns.map .ok := by
  rw [C05_any_chunking_cut _ hsz g tail rest hg hrest hcut cs hcs]
  exact received_sentFrames d hd inflate wrap unwrap hinv ns hn 0

/- Non-vacuity: two concrete stanzas, the identity cipher and a chunking that cuts inside the second header meet the hypotheses. -/
def exNode : Node := .mk [116] [] none []
theorem exNode_wf : WFNode exDict exNode :=
  WFNode.mk _ _ _ _ exDict_t exAttrs (by intro b hb; cases hb) (by decide) (by decide) WFNodes.nil
example :
    (∀ n ∈ [exNode, exNode], WFNode exDict n) ∧ FramesOK (sentFrames exDict (fun _ x => x) 0 [exNode, exNode]) ∧
    ([[0, 0, 4, 0, 248, 1], [3, 0], [0, 4, 0, 248, 1, 3]] : List Bytes).flatten = stream (sentFrames exDict (fun _ x => x) 0 [exNode, exNode]) := by
  refine ⟨?_, ?_, by decide +kernel⟩
  · intro n hn; simp at hn; subst hn; exact exNode_wf
  · intro f hf; revert f; decide +kernel

end Yow.Pipeline
