/-
  C15  Media encryption: lossless round-trip, tamper detection, WhatsApp-compatible layout.
  Property theorems only (lemmas: Lemmas/MediaCipher.lean).  `c : Crypto` are the external primitives
  (HKDF, AES-256-CBC on whole blocks, HMAC-SHA256) with the hypotheses `c.OK`; the theorems about
  rejection name the extra idealisation they need.
-/
import YowsupVerif.Lemmas.MediaCipher
import YowsupVerif.Gen.MediaConsts
namespace Yow.Media

/-- Decrypting what the library encrypted returns exactly the original bytes — every content (any
    length, including 0 and whole multiples of the block), every key, every media kind. -/
theorem C15_roundtrip (c : Crypto) (hc : c.OK) (p refKey info : Bytes) :
    decrypt c (encrypt c p refKey info) refKey info = .ok p :=
  decrypt_encrypt c hc p refKey info

/-- Layout: IV = bytes 0..16, key = 16..48, MAC key = 48..80 of the derived secret; the body is the
    CBC encryption of the ALWAYS-padded plaintext, followed by the first 10 bytes of the MAC over
    IV ‖ body; so the length is (⌊n/16⌋+1)·16 + 10 for every n. -/
theorem C15_layout (c : Crypto) (hc : c.OK) (p refKey info : Bytes) :
    encrypt c p refKey info =
      c.cbcEnc (((c.hkdf refKey info).drop 16).take 32) ((c.hkdf refKey info).take 16) (pad p) ++
        (c.mac (((c.hkdf refKey info).drop 48).take 32)
          ((c.hkdf refKey info).take 16 ++
            c.cbcEnc (((c.hkdf refKey info).drop 16).take 32) ((c.hkdf refKey info).take 16) (pad p))).take 10 ∧
    (encrypt c p refKey info).length = (p.length / 16 + 1) * 16 + 10 := by
  refine ⟨rfl, ?_⟩
  simp only [encrypt, tag, List.length_append, hc.cbc_len, pad_length, List.length_take, hc.mac_len]
  omega

/-- PKCS#7 as used: padding is 1..16 bytes, never 0, and it is unambiguous (whatever the unpadder
    accepts was produced by the padder from exactly the returned plaintext). -/
theorem C15_padding_sound (p d : Bytes) :
    unpad (pad p) = some p ∧ (unpad d = some p → (∀ b ∈ d, b < 256) → pad p = d) :=
  ⟨unpad_pad p, fun h hb => pad_of_unpad d p h hb⟩

/-- The MAC is checked first: nothing is ever returned for an input whose tag does not verify. -/
theorem C15_mac_checked_first (c : Crypto) (x refKey info : Bytes) :
    (∀ q, decrypt c x refKey info = .ok q →
      x.drop (x.length - 10) = tag c (c.hkdf refKey info) (x.take (x.length - 10))) ∧
    (x.drop (x.length - 10) ≠ tag c (c.hkdf refKey info) (x.take (x.length - 10)) →
      decrypt c x refKey info = .error .invalidMac) :=
  ⟨fun q h => decrypt_ok_verified c x refKey info q h, decrypt_bad_tag c x refKey info⟩

/-- Any modification of the tag is rejected (no idealisation needed). -/
theorem C15_tag_modification_rejected (c : Crypto) (p refKey info t' : Bytes) (hl : t'.length = 10)
    (hne : t' ≠ tag c (c.hkdf refKey info) (c.cbcEnc (keyOf (c.hkdf refKey info)) (ivOf (c.hkdf refKey info)) (pad p))) :
    decrypt c (c.cbcEnc (keyOf (c.hkdf refKey info)) (ivOf (c.hkdf refKey info)) (pad p) ++ t') refKey info
      = .error .invalidMac := by
  apply decrypt_bad_tag
  have hx : (c.cbcEnc (keyOf (c.hkdf refKey info)) (ivOf (c.hkdf refKey info)) (pad p) ++ t').length - 10
      = (c.cbcEnc (keyOf (c.hkdf refKey info)) (ivOf (c.hkdf refKey info)) (pad p)).length := by
    simp [hl]
  rw [hx, List.drop_left, List.take_left]
  exact hne

/-- Any modification of the body is rejected, provided the truncated MAC does not collide on the two
    bodies (named idealisation of HMAC; exercised on real inputs by the correspondence run). -/
theorem C15_body_modification_rejected (c : Crypto) (refKey info body' t : Bytes) (hl : t.length = 10)
    (hnc : tag c (c.hkdf refKey info) body' ≠ t) :
    decrypt c (body' ++ t) refKey info = .error .invalidMac := by
  apply decrypt_bad_tag
  have hx : (body' ++ t).length - 10 = body'.length := by simp [hl]
  rw [hx, List.drop_left, List.take_left]
  exact fun h => hnc h.symm

/-- A wrong key or a wrong media kind derives a different MAC key; unless the truncated MACs collide
    (named idealisation) the ciphertext is rejected. -/
theorem C15_wrong_key_or_kind_rejected (c : Crypto) (hc : c.OK) (p refKey info refKey' info' : Bytes)
    (hnc : tag c (c.hkdf refKey' info') (c.cbcEnc (keyOf (c.hkdf refKey info)) (ivOf (c.hkdf refKey info)) (pad p))
      ≠ tag c (c.hkdf refKey info) (c.cbcEnc (keyOf (c.hkdf refKey info)) (ivOf (c.hkdf refKey info)) (pad p))) :
    decrypt c (encrypt c p refKey info) refKey' info' = .error .invalidMac := by
  apply decrypt_bad_tag
  have hs := encrypt_split c hc p refKey info
  simp only at hs
  rw [hs.1, hs.2]
  exact fun h => hnc h.symm

/-- Consequently decryption never yields a *different* plaintext for the library's own ciphertext body:
    if anything is returned for `body ++ t`, the tag verified, and then it is the original. -/
theorem C15_never_other_plaintext (c : Crypto) (hc : c.OK) (p refKey info t q : Bytes) (hl : t.length = 10)
    (h : decrypt c (c.cbcEnc (keyOf (c.hkdf refKey info)) (ivOf (c.hkdf refKey info)) (pad p) ++ t) refKey info = .ok q) :
    q = p := by
  have hv := decrypt_ok_verified c _ refKey info q h
  have hx : (c.cbcEnc (keyOf (c.hkdf refKey info)) (ivOf (c.hkdf refKey info)) (pad p) ++ t).length - 10
      = (c.cbcEnc (keyOf (c.hkdf refKey info)) (ivOf (c.hkdf refKey info)) (pad p)).length := by
    simp [hl]
  rw [hx, List.drop_left, List.take_left] at hv
  have he : c.cbcEnc (keyOf (c.hkdf refKey info)) (ivOf (c.hkdf refKey info)) (pad p) ++ t = encrypt c p refKey info := by
    rw [hv]; rfl
  rw [he, decrypt_encrypt c hc p refKey info] at h
  injection h with h
  exact h.symm

/-- The four HKDF info strings of the current source are WhatsApp's (regenerated each run). -/
theorem C15_info_strings :
    Yow.Gen.mediaInfoImage = "WhatsApp Image Keys".toList.map Char.toNat ∧
    Yow.Gen.mediaInfoAudio = "WhatsApp Audio Keys".toList.map Char.toNat ∧
    Yow.Gen.mediaInfoVideo = "WhatsApp Video Keys".toList.map Char.toNat ∧
    Yow.Gen.mediaInfoDocum = "WhatsApp Document Keys".toList.map Char.toNat := by
  decide

/- Non-vacuity: a `Crypto` satisfying `OK` exists (identity cipher, constant 32-byte MAC). -/
example : (⟨fun _ _ => [], fun _ _ m => m, fun _ _ m => m, fun _ _ => List.replicate 32 0⟩ : Crypto).OK :=
  ⟨fun _ _ _ _ => rfl, fun _ _ _ => rfl, fun _ _ => by simp⟩

end Yow.Media
