/-
  C02  Wire-format conformance.
  The format is the inductive relation `Enc` / `EncFrame` of Model/WireSpec.lean (written from the
  format description: every constructor is one permitted choice of the peer).  Property theorems only.
-/
import YowsupVerif.Lemmas.CoderDec
import YowsupVerif.Lemmas.CoderEnc
import YowsupVerif.Gen.TokenDict
import YowsupVerif.Ref.TokenDict
namespace Yow.Coder

/-- What the library emits for a well-formed tree is a valid frame for exactly that tree
    (any dictionary of admissible size). -/
theorem C02_emitted_frames_conform (d : Dict) (hd : d.WF) (deflate : Bytes → Bytes) (n : Node)
    (hn : WFNode d n) : EncFrame d deflate n (encodeFrame d n) :=
  EncFrame.plain n (writeNode d n) 0 (writeNode_Enc d hd hn) (by decide)

/-- The library's decoder reads *every* valid encoding of a tree, whichever permitted choices
    the peer made (list header width, length width, token or literal, packed or raw, JID with or
    without user part, string-valued content, deflated frame), to that tree. -/
theorem C02_accepts_all_valid_encodings (d : Dict) (deflate : Bytes → Bytes) (inflate : Bytes → Option Bytes)
    (hz : ∀ x, inflate (deflate x) = some x) (n : Node) (fr : Bytes) (h : EncFrame d deflate n fr) :
    decodeFrame d inflate fr = .ok n :=
  decodeFrame_of_EncFrame d deflate inflate hz h

/-- Stream form: the decoder consumes exactly the encoding and leaves the rest untouched. -/
theorem C02_decoder_consumes_exactly (d : Dict) (n : Node) (bs rest : Bytes) (h : Enc d n bs)
    (fuel : Nat) (hf : bs.length ≤ fuel) : nextTree d fuel (bs ++ rest) = .ok (n, rest) :=
  nextTree_of_Enc d h fuel hf rest

/-- The format is unambiguous: a byte string is a valid encoding of at most one tree
    (so "decodes to the same tree" is meaningful for any conforming decoder). -/
theorem C02_encoding_unambiguous (d : Dict) (n n' : Node) (bs : Bytes) (h : Enc d n bs) (h' : Enc d n' bs) :
    n = n' := by
  have a := nextTree_of_Enc d h bs.length (Nat.le_refl _) []
  have b := nextTree_of_Enc d h' bs.length (Nat.le_refl _) []
  rw [a] at b
  injection b with b
  injection b

set_option maxRecDepth 8192 in
/-- The token dictionary of the current source equals the reference copy, entry by entry
    (236 primary + 4×256 secondary), and the frame flags are the format's. Re-checked on every run
    against the regenerated `Gen/TokenDict.lean`. -/
theorem C02_dict_matches_reference :
    Gen.primary = Ref.primary ∧ Gen.secondary = Ref.secondary ∧
    Gen.flagSegmented = 1 ∧ Gen.flagDeflate = 2 := by
  decide +kernel

/- Non-vacuity: a concrete frame in the relation that uses non-default choices
   (16-bit list header, 20-bit length for a short string, JID without user part). -/
example : Enc ⟨[[], [1], [2], [116]], []⟩ (.mk [116] [] (some [55]) [])
    (249 :: ([0, 2] ++ 3 :: ([] ++ ([] ++ 250 :: [0, 253, 0, 0, 1, 55])))) :=
  Enc.content [116] [] [55] 249 [0, 2] 3 [] [] 250 [0, 253, 0, 0, 1, 55]
    (EncList.long 2 (by decide)) (by decide)
    (EncStr.tok 3 [116] (by decide) (by decide) rfl (by decide))
    EncAttrs.nil (by simp [keysNodup])
    (EncStr.jid0 [55] 253 [0, 0, 1, 55] (EncStr.raw20 [55] (by decide)))

end Yow.Coder
