/-
  C09  Protocol entities and stanzas convert into each other without loss.
  Property theorems only.  Clause 1 (stanza -> entity -> stanza reproduces the stanza) instantiates the generic converter
  theorems (Lemmas/Payload.lean) on the per-class field tables regenerated from the current source (Gen/EntityTable.lean:
  every variable field of each class's documented-shape stanza probed through fromProtocolTreeNode / toProtocolTreeNode).
  Clause 2 (produced stanzas survive the binary codec) is C01's round-trip theorem; that the stanzas entities produce
  lie in its domain is established by the correspondence run (real encoder and Lean codec model on every produced stanza).
-/
import YowsupVerif.Lemmas.Payload
import YowsupVerif.Gen.EntityTable
import YowsupVerif.Props.C01
namespace Yow.Payload

/-- classes with a recorded finding (DESIGN §8): none at present (the ib entities' `from` was repaired by fix 5552326) -/
def knownBadEntities : List String := []

def badIndices (names bad : List String) : List Nat :=
  (List.range names.length).filter (fun i => bad.contains (names.getD i ""))

/-- every variable field of every other incoming entity class of the current source is carried through
    stanza -> entity -> stanza unchanged: required fields both ways, optional fields absent iff absent (kernel-decided on
    the regenerated table) -/
theorem C09_source_tables_good :
    tableGood Yow.Gen.entityTable (badIndices Yow.Gen.entityNames knownBadEntities) = true := by decide

/-- For every such class and EVERY stanza of its documented shape (any values of the variable fields, any subset of the
    optional attributes): converting to the entity and serialising again yields a stanza with exactly the same fields
    present, and reading it again gives the same entity — no field is lost or altered. -/
theorem C09_stanza_entity_stanza (cid : Nat) (p : PFields)
    (hp : pwtObj Yow.Gen.entityTable (badIndices Yow.Gen.entityNames knownBadEntities) cid p = true) :
    ∃ p', encodeObj Yow.Gen.entityTable cid (decodeObj Yow.Gen.entityTable cid p) = some p' ∧
      decodeObj Yow.Gen.entityTable cid p' = decodeObj Yow.Gen.entityTable cid p ∧
      ∀ k, (plookup p' k).isSome = (plookup p k).isSome := by
  obtain ⟨p', h1, h2⟩ := reserialise _ _ C09_source_tables_good cid p hp
  exact ⟨p', h1, h2, reserialise_presence _ _ C09_source_tables_good cid p hp p' h1⟩

end Yow.Payload

namespace Yow
open Yow.Coder in
/-- Every stanza within the codec's domain — which the correspondence run shows the stanzas produced by entities to be —
    is accepted by the encoder and decodes to itself (C01's theorem, restated for this property's second clause). -/
theorem C09_produced_stanza_survives_codec (inflate : Bytes → Option Bytes) (n : Node) (hn : WFNode Gen.waDict n) :
    encodable Gen.waDict n = true ∧ decodeFrame Gen.waDict inflate (encodeFrame Gen.waDict n) = .ok n :=
  ⟨C01_encoder_accepts Gen.waDict n hn, C01_roundtrip_wa inflate n hn⟩
end Yow
