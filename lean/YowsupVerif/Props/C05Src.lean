/-
  C05 on the TEXT of the current source.  Gen/SegmentsSrc.lean is regenerated on every run by a translator that works by syntax
  (harness/gen/segsrc.py, harness/lib/py2lean.py): `receive`, `send` and `on_disconnected` of YowNoiseSegmentsLayer, statement by statement.
  The theorems here say that the translated methods compute the hand-written model, and carry C05's main theorems over to them.
  Property theorems only; the lemmas are in Lemmas/SegmentsSrc.lean.
-/
import YowsupVerif.Lemmas.SegmentsSrc
import YowsupVerif.Props.C05
namespace Yow.Segments
open Yow.Gen.SegSrc

/-- the run in which the layers above accept every frame (`toUpper` returns normally) -/
abbrev ok : Bytes → Bool := fun _ => false

/-- the layer's state as the translated methods see it: the read buffer, the framing switch as the stack property, the argument -/
def envOf (s : St) (arg : Bytes) : Env :=
  { self__read_buffer := s.buf, prop_PROP_ENABLED := some s.enabled, data := arg }

/-- `receive` of the current source computes the model's `recv`: same buffer afterwards, same frames handed upward in the same order,
    nothing written downward, no exception; and the fuel of the translation never cuts the loop off. -/
theorem C05_source_receive_is_the_model (s : St) (chunk : Bytes) (fuel : Nat) (hf : (s.buf ++ chunk).length < fuel) :
    (receive ok fuel (envOf s chunk)).self__read_buffer = (recv s chunk).1.buf ∧
    (receive ok fuel (envOf s chunk)).up = (recv s chunk).2 ∧
    (receive ok fuel (envOf s chunk)).low = [] ∧
    (receive ok fuel (envOf s chunk)).raised = false ∧
    (receive ok fuel (envOf s chunk)).fuelOut = false ∧
    (receive ok fuel (envOf s chunk)).prop_PROP_ENABLED = some s.enabled := by
  cases he : s.enabled
  · simp [receive, envOf, recv, he]
  · have h := loop_is_peelF ok fuel { self__read_buffer := s.buf ++ chunk, prop_PROP_ENABLED := some true, data := chunk }
      (by simpa using hf) rfl rfl
    unfold LoopPost at h
    rw [show peelF ok (s.buf ++ chunk) = _ from peelF_never (s.buf ++ chunk)] at h
    obtain ⟨h1, h2, h4, h3, _, h6, h7⟩ := h
    simp only [receive, envOf, recv, he]
    simp at h1 h2 h3 h4 h6 h7 ⊢
    exact ⟨h1, h2, h3, h4, h6, h7⟩

/-- `send` of the current source computes the model's `send`: refused exactly from 2^24 bytes on, otherwise the writes of the model
    in the same order; the read buffer is not touched and nothing is handed upward. -/
theorem C05_source_send_is_the_model (s : St) (p : Bytes) (fuel : Nat) :
    (if (Gen.SegSrc.send ok fuel (envOf s p)).raised then SendOut.refused else .writes (Gen.SegSrc.send ok fuel (envOf s p)).low)
      = Segments.send s.enabled p ∧
    (Gen.SegSrc.send ok fuel (envOf s p)).self__read_buffer = s.buf ∧ (Gen.SegSrc.send ok fuel (envOf s p)).up = [] := by
  by_cases h : 16777216 ≤ p.length
  · simp [Gen.SegSrc.send, Segments.send, envOf, h]
  · have h2 : ¬ 4294967296 ≤ p.length := by omega
    cases he : s.enabled <;> simp [Gen.SegSrc.send, Segments.send, envOf, h, h2, he, Py.packBE32, be24]

/-- a refused payload leaves no partial write behind (no header without its payload) -/
theorem C05_source_refused_send_writes_nothing (s : St) (p : Bytes) (fuel : Nat) (h : 16777216 ≤ p.length) :
    (Gen.SegSrc.send ok fuel (envOf s p)).raised = true ∧ (Gen.SegSrc.send ok fuel (envOf s p)).low = [] := by
  simp [Gen.SegSrc.send, envOf, h]

/-- a stack on which the switch was never set behaves like one with the switch off -/
theorem C05_source_unset_switch_is_off (buf arg : Bytes) (fuel : Nat) :
    receive ok fuel { self__read_buffer := buf, prop_PROP_ENABLED := none, data := arg } =
      { (receive ok fuel { self__read_buffer := buf, prop_PROP_ENABLED := some false, data := arg }) with prop_PROP_ENABLED := none } ∧
    Gen.SegSrc.send ok fuel { self__read_buffer := buf, prop_PROP_ENABLED := none, data := arg } =
      { (Gen.SegSrc.send ok fuel { self__read_buffer := buf, prop_PROP_ENABLED := some false, data := arg }) with prop_PROP_ENABLED := none } := by
  constructor
  · simp [receive]
  · by_cases h : 16777216 ≤ arg.length <;> simp [Gen.SegSrc.send, h]

/-- the handler of the lost connection empties the read buffer, and it is registered for the very event the network layer announces a
    lost connection with (both regenerated) -/
theorem C05_source_disconnect_drops_the_buffer (e : Env) (fuel : Nat) :
    (on_disconnected ok fuel e).self__read_buffer = [] ∧ networkDisconnectedEvent ∈ onDisconnectedEvents := by
  constructor
  · simp [on_disconnected]
  · decide

/-- run the translated `receive` over a list of chunks, the way the network layer calls it: the buffer is carried from call to call,
    everything handed upward is collected -/
def runSrc (s : St) (cs : List Bytes) : St × List Bytes :=
  cs.foldl (fun (acc : St × List Bytes) c =>
    let r := receive ok ((acc.1.buf ++ c).length + 1) (envOf acc.1 c)
    ({ acc.1 with buf := r.self__read_buffer }, acc.2 ++ r.up)) (s, [])

theorem runSrc_is_run (s : St) (cs : List Bytes) : runSrc s cs = run s cs := by
  unfold runSrc run
  suffices h : ∀ (acc : St × List Bytes),
      cs.foldl (fun (acc : St × List Bytes) c =>
        let r := receive ok ((acc.1.buf ++ c).length + 1) (envOf acc.1 c)
        ({ acc.1 with buf := r.self__read_buffer }, acc.2 ++ r.up)) acc
      = cs.foldl (fun (acc : St × List Bytes) c => let r := recv acc.1 c; (r.1, acc.2 ++ r.2)) acc from h _
  induction cs with
  | nil => intro acc; rfl
  | cons c cs ih =>
    intro acc
    simp only [List.foldl_cons]
    have h := C05_source_receive_is_the_model acc.1 c ((acc.1.buf ++ c).length + 1) (by omega)
    have hst : ({ acc.1 with buf := (receive ok ((acc.1.buf ++ c).length + 1) (envOf acc.1 c)).self__read_buffer } : St) = (recv acc.1 c).1 := by
      rw [h.1]; obtain ⟨⟨en, buf⟩, out⟩ := acc; cases en <;> simp [recv]
    rw [hst, h.2.1]
    exact ih _

/-- C05's main statement for the translated source: whatever way the stream of whole frames is cut into chunks, the current source's
    `receive`, called once per chunk, hands upward exactly the frames, in order, and ends with an empty buffer. -/
theorem C05_source_any_chunking (fs : List Bytes) (hfs : FramesOK fs) (cs : List Bytes) (hcs : cs.flatten = stream fs) :
    runSrc init cs = ({ enabled := true, buf := [] }, fs) := by
  rw [runSrc_is_run]; exact C05_any_chunking fs hfs cs hcs

/-- … and after a connection was lost in the middle of a frame: the handler empties the buffer, and the next connection's frames — any
    frames, any chunking — are handed up exactly. -/
theorem C05_source_after_a_lost_connection (e : Env) (fuel : Nat) (fs : List Bytes) (hfs : FramesOK fs) (cs : List Bytes)
    (hcs : cs.flatten = stream fs) :
    runSrc { enabled := true, buf := (on_disconnected ok fuel e).self__read_buffer } cs = ({ enabled := true, buf := [] }, fs) := by
  rw [(C05_source_disconnect_drops_the_buffer e fuel).1]
  exact C05_source_any_chunking fs hfs cs hcs

/-- The two directions of the current source fit together: what the translated `send` writes for a payload (framing on), cut into chunks in any
    way, is handed upward by the translated `receive` as exactly that payload. -/
theorem C05_source_send_then_receive (p : Bytes) (h0 : 0 < p.length) (h : p.length < 16777216) (cs : List Bytes)
    (hcs : cs.flatten = (Gen.SegSrc.send ok 0 (envOf init p)).low.flatten) :
    runSrc init cs = ({ enabled := true, buf := [] }, [p]) := by
  have hs := (C05_source_send_is_the_model init p 0).1
  have hl := C05_send_layout p h
  have hnr : (Gen.SegSrc.send ok 0 (envOf init p)).raised = false := by
    cases hr : (Gen.SegSrc.send ok 0 (envOf init p)).raised
    · rfl
    · rw [hr] at hs; simp [init, hl] at hs
  rw [hnr] at hs
  simp only [init, hl, Bool.false_eq_true, ↓reduceIte, SendOut.writes.injEq] at hs
  rw [runSrc_is_run]
  apply C05_send_then_recv p h0 h cs
  rw [hcs]; show (Gen.SegSrc.send ok 0 (envOf { enabled := true, buf := [] } p)).low.flatten = _; rw [hs]; simp

/-- non-vacuity: a concrete run of the translated code — two frames, cut inside the second header -/
example : (runSrc init [[0, 0, 2, 7, 8, 0], [0, 1], [9]]).2 = [[7, 8], [9]] ∧ (runSrc init [[0, 0, 2, 7, 8, 0], [0, 1], [9]]).1.buf = [] := by decide

/-- a frame that is not complete yet stays in the buffer and nothing is handed up (run of the translated code) -/
example : (receive ok 10 (envOf init [0, 0, 2, 7])).up = [] ∧ (receive ok 10 (envOf init [0, 0, 2, 7])).self__read_buffer = [0, 0, 2, 7] := by decide

end Yow.Segments
