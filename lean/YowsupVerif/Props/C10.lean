/-
  C10  Message payloads: attribute objects and protobuf bytes round-trip.
  Property theorems only (lemmas: Lemmas/Payload.lean).  The schema table is regenerated from the current source on
  every run by probing the converter one field at a time (Gen/PayloadSchema.lean); `C10_source_table_good` is the
  obligation that ties the general theorems to it.
-/
import YowsupVerif.Lemmas.Payload
import YowsupVerif.Gen.PayloadSchema
namespace Yow.Payload

/-- schemas with a recorded finding (DESIGN §8): 5 = document (its own `file_length` and the downloadable attributes'
    `file_length` are written to the same proto field) -/
def knownBadSchemas : List Nat := [5]

/-- every field of every other schema of the current source is converted by a matching pair of rules — required both
    ways, or "set iff not None" / "read iff present" — to and from the same proto field, no two fields share a proto
    field, nothing raises, nested kinds are valid (kernel-decided on the regenerated table) -/
theorem C10_source_table_good : tableGood Yow.Gen.payloadTable knownBadSchemas = true := by decide

/-- Whatever content the application composes — any of the message kinds, all optional-field subsets, arbitrary values
    incl. empty strings, zeros and empty blobs (scalar 0), any nesting depth of quoted messages — serialising it and
    parsing it back yields the same content. -/
theorem C10_compose_roundtrip (sid : Nat) (v : Val) (hw : wtObj Yow.Gen.payloadTable knownBadSchemas sid v = true) :
    ∃ p, encodeObj Yow.Gen.payloadTable sid v = some p ∧ decodeObj Yow.Gen.payloadTable sid p = v :=
  roundtrip _ _ C10_source_table_good sid v hw

/-- A payload received from a peer is re-serialised without changing any field the library models: the same fields are
    present and they parse to the same values. -/
theorem C10_reserialise_unchanged (sid : Nat) (p : PFields) (hp : pwtObj Yow.Gen.payloadTable knownBadSchemas sid p = true) :
    ∃ p', encodeObj Yow.Gen.payloadTable sid (decodeObj Yow.Gen.payloadTable sid p) = some p' ∧
      decodeObj Yow.Gen.payloadTable sid p' = decodeObj Yow.Gen.payloadTable sid p ∧
      ∀ k, (plookup p' k).isSome = (plookup p k).isSome := by
  obtain ⟨p', h1, h2⟩ := reserialise _ _ C10_source_table_good sid p hp
  exact ⟨p', h1, h2, reserialise_presence _ _ C10_source_table_good sid p hp p' h1⟩

/-- Sensitivity: with a truth test instead of a None test an empty string is lost; with an unconditional read an unset
    field comes back as the default. -/
theorem C10_bad_rules_lose_values :
    (let f : Field := { kind := .scalar, fwd := .truthy, bwd := .truthy, target := 1, source := 1, raises := false }
     (encodeObj [[f]] 0 (.obj (.cons (.scalar 0) .nil))).map (decodeObj [[f]] 0) = some (.obj (.cons .none .nil))) ∧
    (let f : Field := { kind := .scalar, fwd := .notNone, bwd := .always, target := 1, source := 1, raises := false }
     (encodeObj [[f]] 0 (.obj (.cons .none .nil))).map (decodeObj [[f]] 0) = some (.obj (.cons (.scalar 0) .nil))) :=
  bad_rules_lose_values

end Yow.Payload
