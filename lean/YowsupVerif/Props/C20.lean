/-
  C20  Registration requests: token, parameter encoding and encryption are correct.
  Property theorems only (lemmas: Lemmas/Registration.lean).
-/
import YowsupVerif.Lemmas.Registration
import YowsupVerif.Gen.RegConsts
namespace Yow.Reg

/-- For every phone string the hand-rolled construction equals RFC 2104 HMAC — for ANY hash function
    with 64-byte blocks (SHA-1 in the code) — keyed with the first 64 bytes of the key, over
    signature ‖ classes-digest ‖ phone. -/
theorem C20_token_is_hmac (H : Bytes → Bytes) (key sig cls phone : Bytes) (hk : 64 ≤ key.length) :
    tokenRaw H key sig cls phone = hmac H (key.take 64) (sig ++ cls ++ phone) :=
  tokenRaw_is_hmac H key sig cls phone hk

/-- … and the key constant of the current source is long enough (regenerated each run). -/
theorem C20_current_key_length : 64 ≤ Yow.Gen.regKey.length ∧ ∀ b ∈ Yow.Gen.regKey, b < 256 := by
  decide

theorem C20_token_current (H : Bytes → Bytes) (sig cls phone : Bytes) :
    tokenRaw H Yow.Gen.regKey sig cls phone = hmac H (Yow.Gen.regKey.take 64) (sig ++ cls ++ phone) :=
  tokenRaw_is_hmac H Yow.Gen.regKey sig cls phone C20_current_key_length.1

/-- The requests are made for the number without its country code — exactly that prefix is removed, whatever digits
    follow (the country code's digits may occur again inside the national number) — and their token is the keyed
    hash of that national number. -/
theorem C20_request_number (cc nat : Bytes) : nationalOf cc (cc ++ nat) = nat := by
  simp [nationalOf]

theorem C20_request_token (H : Bytes → Bytes) (sig cls cc nat : Bytes) :
    requestToken H Yow.Gen.regKey sig cls cc (cc ++ nat) = hmac H (Yow.Gen.regKey.take 64) (sig ++ cls ++ nat) := by
  simp [requestToken, nationalOf, C20_token_current]

/-- Every byte-string value is percent-encoded so that standard decoding returns it unchanged … -/
theorem C20_pct_roundtrip_bytes (bs : Bytes) (hb : ∀ b ∈ bs, b < 256) :
    pctDecode (urlencodeBytes bs) = bs := by
  have := pctDecode_urlencodeBytes bs hb []
  simpa [pctDecode] using this

/-- … every text value decodes to its UTF-8 encoding (all Unicode scalar values) … -/
theorem C20_pct_roundtrip_text (cps : List Nat) (hc : ∀ c ∈ cps, c < 0x110000) :
    pctDecode (urlencodeStr cps) = cps.flatMap utf8 :=
  pctDecode_urlencodeStr cps hc

/-- … and only `[A-Za-z0-9.]` is left literal (everything else is `%` + lower-case hex). -/
theorem C20_only_alnum_dot_literal (bs : Bytes) (hb : ∀ b ∈ bs, b < 256) :
    ∀ c ∈ urlencodeBytes bs, isLiteral c = true ∨ c = 37 :=
  urlencodeBytes_chars bs hb

/-- The parameter string keeps the parameters in their original order and parses back to them. -/
theorem C20_params_order_kept (ps : List (List Nat × Bytes)) (hne : ps ≠ [])
    (hk : ∀ kv ∈ ps, (∀ c ∈ kv.1, c ≠ 38 ∧ c ≠ 61) ∧ (∀ b ∈ kv.2, b < 256)) :
    parseParams ps.length (urlencodeParams ps) = ps :=
  parseParams_urlencodeParams ps hne hk ps.length (Nat.le_refl _)

/-- With the private key matching the server key used, the blob decrypts to exactly the encoded
    parameter string (X25519 symmetry and AEAD correctness are the hypotheses `c.OK`). -/
theorem C20_blob_decrypts (c : Crypto) (hc : c.OK) (eph srv : Bytes) (params : List (List Nat × Bytes)) :
    openBlob c srv (encryptParams c eph params (c.pubOf srv)) = some (urlencodeParams params) :=
  openBlob_encryptParams c hc eph srv params

/-- The server key the requests are encrypted to is WhatsApp's (reference value; regenerated each run). -/
theorem C20_server_key :
    Yow.Gen.encPubKey = [5, 142, 140, 15, 116, 195, 235, 197, 215, 166, 134, 92, 108, 60, 132, 56, 86, 176,
      97, 33, 204, 232, 234, 119, 77, 34, 251, 111, 18, 37, 18, 48, 45] ∧ Yow.Gen.regSigLen = 822 ∧
    Yow.Gen.regCls = [90, 225, 71, 215, 204, 151, 41, 21, 94, 207, 44, 16, 155, 228, 182, 224] := by
  decide

/- Non-vacuity -/
example : ([([99, 99], [52, 57])] : List (List Nat × Bytes)) ≠ [] ∧
    ∀ kv ∈ ([([99, 99], [52, 57])] : List (List Nat × Bytes)), (∀ c ∈ kv.1, c ≠ 38 ∧ c ≠ 61) ∧ (∀ b ∈ kv.2, b < 256) := by
  decide
example : (⟨fun a => List.replicate 32 (a.length), fun a b => [a.length + b.headD 0], fun _ m => m, fun _ m => some m⟩ : Crypto).OK :=
  ⟨fun a b => by simp [Nat.add_comm], fun _ _ => rfl, fun _ => by simp⟩

end Yow.Reg
