/-
  C11  Concurrent senders never corrupt the encrypted stream.
  Property theorems only (lemmas: Lemmas/Conc.lean).  Any number of sender threads, any stanza sequences, EVERY schedule.
  `C11_source_locking` ties the theorems to the current source: the lock configuration observed by running the current
  layers (which locks are held at the encryption and at the two network writes; Gen/ConcCfg.lean) has the outer lock.
-/
import YowsupVerif.Lemmas.Conc
import YowsupVerif.Gen.ConcCfg
import YowsupVerif.Lemmas.SendBuf
import YowsupVerif.Gen.SendBufCfg
namespace Yow.Conc

/-- in the current source a sender holds one lock from before the encryption until after the payload write, and the
    noise layer's lock across both writes of a segment -/
theorem C11_source_locking : Yow.Gen.concCfg = { outer := true, inner := true } := by decide

/-- The bytes reaching the socket are always a sequence of whole frames — each length header immediately followed by its
    own payload — in the order of their cipher counters (plus at most the header of the frame in progress). -/
theorem C11_stream_always_well_framed (work : List (List Nat)) (sched : List Nat) :
    let s := run (init Yow.Gen.concCfg work) sched
    (wellFramed s.wire 0 = true) ∨
    (∃ w f, s.wire = w ++ [.hdr f] ∧ wellFramed w 0 = true ∧ f.ctr * 2 = w.length) := by
  rw [C11_source_locking]; exact wire_prefix_wellFramed true work sched

/-- Each stanza sent is transmitted exactly once, the peer can decrypt every frame (counters 0,1,2,… in wire order), and
    each thread's stanzas keep their order. -/
theorem C11_every_stanza_exactly_once (work : List (List Nat)) (sched : List Nat)
    (hf : finished (run (init Yow.Gen.concCfg work) sched) = true) :
    let s := run (init Yow.Gen.concCfg work) sched
    wellFramed s.wire 0 = true ∧ (stanzasOnWire s.wire).Perm (allStanzas work) ∧
    ∀ i, i < work.length → (work.getD i []).Sublist (stanzasOnWire s.wire) := by
  rw [C11_source_locking] at hf ⊢; exact finished_exactly_once true work sched hf

/-- No schedule deadlocks. -/
theorem C11_no_deadlock (work : List (List Nat)) (sched : List Nat)
    (hf : finished (run (init Yow.Gen.concCfg work) sched) = false) :
    ∃ i, step (run (init Yow.Gen.concCfg work) sched) i ≠ run (init Yow.Gen.concCfg work) sched := by
  rw [C11_source_locking] at hf ⊢; exact progress true work sched hf

/-- Sensitivity: what the locks are for. -/
theorem C11_locks_are_needed :
    (∃ sched, let s := run (init { outer := false, inner := true } [[7], [8]]) sched
      finished s = true ∧ wellFramed s.wire 0 = false) ∧
    (∃ sched, let s := run (init { outer := false, inner := false } [[7], [8]]) sched
      finished s = true ∧ ∃ f g, f ≠ g ∧ ∃ a b, s.wire = a ++ [.hdr f, .hdr g] ++ b) :=
  ⟨without_outer_lock_misordered, without_locks_torn⟩

end Yow.Conc

namespace Yow.SendBuf

/-- in the current source every access to the dispatcher's send buffer — the append of sendData (a load and a store) as well as
    reading, sending and cutting in a flush — happens under one lock, for the sending threads and the asyncore loop thread alike
    (observed on a real dispatcher over a socket pair; Gen/SendBufCfg.lean) -/
theorem C11_socket_buffer_locked : Yow.Gen.sendBufCfg = { locked := true, appendLocked := true } := by decide

/-- Below the network layer: for every schedule of the sending threads and the asyncore loop thread and every sequence of partial
    socket writes, the bytes handed to the dispatcher are on the socket or still buffered, each exactly once, in order (while a
    flush is between its send and its cut the sent prefix is still in the buffer: `k`); whenever no flush is in progress, and in
    particular when both threads have finished, socket ++ buffer is exactly what was handed over; nothing deadlocks. -/
theorem C11_socket_bytes_exactly_once (frames : List (List Nat)) (flushes : Nat) (sched : List (Nat × Nat)) :
    let s := run (init Yow.Gen.sendBufCfg frames flushes) sched
    (∃ k, k ≤ s.buf.length ∧ s.socket ++ s.buf.drop k = s.appended) ∧
    (s.lock = none → s.socket ++ s.buf = s.appended) ∧
    (finished s = true → s.socket ++ s.buf = frames.flatten) ∧
    (finished s = false → ∃ i, ∀ cap, step s i cap ≠ s) := by
  rw [C11_socket_buffer_locked]
  exact ⟨socket_plus_buffer frames flushes sched, quiescent_exact frames flushes sched, finished_exact frames flushes sched,
         progress frames flushes sched⟩

/-- Sensitivity: without the lock the loop thread and a sender put the same bytes on the socket twice. -/
theorem C11_unlocked_buffer_duplicates :
    ∃ sched, let s := run (init { locked := false, appendLocked := false } [[1, 2, 3], [4, 5]] 1) sched
      finished s = true ∧ s.socket ++ s.buf ≠ [1, 2, 3, 4, 5] :=
  unlocked_duplicates

/-- Sensitivity: with the flush locked but the append outside the lock, a partial socket write followed by a flush of the loop
    thread between the append's load and store repeats bytes on the socket. -/
theorem C11_append_outside_lock_repeats :
    ∃ sched, let s := run (init { locked := true, appendLocked := false } [[1, 2], [3]] 1) sched
      finished s = true ∧ s.socket ++ s.buf ≠ [1, 2, 3] :=
  append_outside_lock_repeats

end Yow.SendBuf
