/-
  C12 (clause "no lock stays held after a failure"), for EVERY lock region of the library, not only the two on the data paths that
  Model/Locks.lean models in depth.  Property theorems only; the table of regions is regenerated from the syntax of the current source on every
  run (Gen/LockRegions.lean).
-/
import YowsupVerif.Model.LockRegions
import YowsupVerif.Gen.LockRegions
namespace Yow.LockRegions

theorem good_released (r : Region) (h : r.good = true) (raises : Nat → Bool) (hp : Possible r raises) : released r raises = true := by
  unfold Region.good at h
  unfold released
  cases hpr : r.guarded with
  | true => simp
  | false =>
    rw [hpr] at h
    simp only [Bool.false_or, List.all_eq_true] at h
    simp only [Bool.false_or, Bool.and_eq_true, List.all_eq_true, List.mem_range, Bool.not_eq_true']
    constructor
    · intro i hi
      cases hr : raises i with
      | false => rfl
      | true =>
        obtain ⟨s, hs, hc⟩ := hp i hr
        have hm : s ∈ r.stmts := List.mem_of_getElem? hs
        rw [h s hm] at hc
        cases hc
    · cases hc : r.stmts.contains Stmt.noRelease with
      | false => rfl
      | true =>
        have hm : Stmt.noRelease ∈ r.stmts := by simpa using hc
        have := h _ hm
        simp [Stmt.cannotRaise] at this

/-- Regenerated obligation: every lock region of the library's own code (demos excluded) releases its lock on the exception path by construction,
    or holds only statements that cannot raise. -/
theorem C12_every_lock_region_of_the_library_is_safe :
    ∀ r ∈ Yow.Gen.lockRegions, r.library = true → r.good = true := by decide

/-- Whatever happens inside any lock region of the library — in every execution in which only statements that can raise do raise — the lock is
    released when control leaves the region: no failure leaves a lock of the library held. -/
theorem C12_no_lock_region_leaves_its_lock_held (r : Region) (hr : r ∈ Yow.Gen.lockRegions) (hl : r.library = true)
    (raises : Nat → Bool) (hp : Possible r raises) : released r raises = true :=
  good_released r (C12_every_lock_region_of_the_library_is_safe r hr hl) raises hp

/-- Sensitivity (seed C12-13): `del self._pingQueue[pingId]` between a bare acquire / release pair — the execution in which the key is missing
    is possible, and it leaves the lock held. -/
theorem C12_bare_region_with_a_raising_statement_leaks :
    let r : Region := { file := "", fn := "gotPong", lock := "self._pingQueueLock", library := true, guarded := false, stmts := [.delItem] }
    r.good = false ∧ released r (fun i => i == 0) = false ∧ Possible r (fun i => i == 0) := by
  refine ⟨by decide, by decide, ?_⟩
  intro i hi
  have : i = 0 := by simpa using hi
  subst this
  exact ⟨.delItem, rfl, rfl⟩

/- Non-vacuity: the table has unprotected regions that the obligation has to argue about. -/
example : ∃ r ∈ Yow.Gen.lockRegions, r.library = true ∧ r.guarded = false := by decide

end Yow.LockRegions
