/-
  C07  Mandatory acknowledgements are sent exactly once and match the stanza.
  Property theorems only (lemmas: Lemmas/Routing.lean).  `Down.notificationAck true` is the ack
  carrying the notification's id, type, sender AND participant; the theorems hold for every module
  selection, with and without the encryption layers, and for EVERY notification type string
  (`NType.other` = any type the library does not know).
-/
import YowsupVerif.Lemmas.Routing
import YowsupVerif.Gen.HandleMaps
namespace Yow.Routing

theorem C07_handle_maps_match : Yow.Gen.handleMaps = handleMapSpec := by decide

/-- Every incoming notification, recognised or not — including encrypt notifications consumed by the
    encryption layer — is answered with exactly one acknowledgement echoing id/type/from/participant.
    (A picture notification that is neither set nor delete is excluded, see below.) -/
theorem C07_notification_ack (f : Flags) (enc : Bool) (s : Stanza) (h : s.tag = .notification)
    (hpic : s.ntype = .picture → (s.cSet = true ∨ s.cDelete = true)) :
    (recvStack f enc s).1.downs = [.notificationAck true] ∧ (recvStack f enc s).2 = false :=
  recv_notification_ack f enc s h hpic

/-- … which is rejected with an error by design: nothing is acknowledged. -/
theorem C07_picture_without_set_or_delete_rejected (f : Flags) (enc : Bool) (s : Stanza) (h : s.tag = .notification)
    (hp : s.ntype = .picture) (h1 : s.cSet = false) (h2 : s.cDelete = false) :
    (recvStack f enc s).2 = true ∧ (recvStack f enc s).1.downs = [] :=
  recv_picture_rejected f enc s h hp h1 h2

/-- Every call offer is answered with one receipt naming the call id, every other call stanza with one ack. -/
theorem C07_call_answered (f : Flags) (enc : Bool) (s : Stanza) (h : s.tag = .call) :
    recvStack f enc s = ({ ups := [.call], downs := [if s.callOffer then .callReceipt else .callAck] }, false) :=
  recv_call f enc s h

/-- Every server ping gets exactly one pong with the same id. -/
theorem C07_ping_pong (f : Flags) (enc : Bool) (s : Stanza) (h : s.tag = .iq) (hx : s.xmlns = .ping) :
    (recvStack f enc s).1.downs = [.pong] ∧ (recvStack f enc s).2 = false :=
  recv_ping f enc s h hx

/-- A message whose content the library cannot present (payload other than text / extended text /
    supported media / pure key distribution) is answered with exactly one receipt instead of being
    dropped; an unsupported media type likewise when the media module is present and the payload is not
    a sender key distribution on its own.  A key-distribution-only payload in a message of type media
    is not content at all: it never surfaces and is not answered with a receipt (nothing raises),
    whatever the media kind attribute says. -/
theorem C07_unsupported_payload_receipt (f : Flags) (enc : Bool) (s : Stanza) (h : MessageWF s) :
    (s.media = .absent → s.payload = .other → recvStack f enc s = ({ downs := [.messageReceipt] }, false)) ∧
    (s.media = .other → s.payload ≠ .keyDistributionOnly →
      recvStack f enc s = ({ downs := if f.media then [.messageReadReceipt] else [] }, false)) ∧
    (s.mtype = .media → s.hasProto = true → s.payload = .keyDistributionOnly → recvStack f enc s = ({}, false)) :=
  ⟨(recv_message f enc s h).2.2.2.1, (recv_message f enc s h).2.2.2.2.2.1, (recv_message f enc s h).2.2.2.2.2.2⟩

/- Non-vacuity -/
example : ({ tag := .notification, ntype := .other } : Stanza).tag = .notification := rfl

end Yow.Routing
