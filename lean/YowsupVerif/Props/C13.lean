/-
  C13  Encryption key store: durable, and updates are all-or-nothing across crashes.
  Property theorems only (lemmas: Lemmas/Store.lean).  The statement skeleton of every store API
  operation is regenerated on every run by tracing the real code (Gen/StoreOps.lean).
-/
import YowsupVerif.Lemmas.Store
import YowsupVerif.Lemmas.StoreFault
import YowsupVerif.Gen.StoreOps
namespace Yow.Store

/-- What each store API operation is specified to do (operation ids as in harness/lib/axo.py):
    0 storeSession, 1 deleteSession, 2 deleteAllSessions, 3 saveIdentity, 4 storePreKey, 5 removePreKey,
    6 setAsSent, 7 storeSignedPreKey, 8 removeSignedPreKey, 9 storeSenderKey, 10 own identity at creation.
    removePreKey does not delete the row: it retires it (the record becomes the tombstone, the id stays). -/
def kindOf : Nat → Option Kind
  | 0 => some (.replace 0) | 1 => some (.remove 0) | 2 => some (.remove 0)
  | 3 => some (.replace 1) | 4 => some (.insertNew 2) | 5 => some (.retire 2)
  | 6 => some (.markSent 2) | 7 => some (.insertNew 3) | 8 => some (.remove 3)
  | 9 => some (.replace 4) | 10 => some (.insertNew 1)
  | _ => none

/-- Regenerated obligation: every traced operation of the current source has one of the shapes
    allowed for its kind (in particular: one transaction; a replace deletes and inserts inside it). -/
theorem C13_ops_have_allowed_shape :
    ∀ e ∈ Yow.Gen.storeOps, ∃ kd, kindOf e.1 = some kd ∧ e.2.2 ∈ allowed kd := by
  decide

/-- … and every operation was traced. -/
theorem C13_all_ops_traced : ∀ op, op < 11 → ∃ e ∈ Yow.Gen.storeOps, e.1 = op := by
  decide

/-- … and the store of the current source has no public writing method besides the traced ones. -/
theorem C13_no_untraced_writer : Yow.Gen.untracedWriters = [] := by decide

/-- "If the process dies at ANY instant": inside a COMMIT the all-or-nothing behaviour is SQLite's (trusted base), and SQLite gives it only
    while its rollback journal or write-ahead log lives on disk.  The store of the current source leaves that in place (regenerated: the
    journal mode read from the opened store's own connection). -/
theorem C13_sqlite_atomic_commit_in_force : Yow.Gen.journalMode ∈ ["delete", "truncate", "persist", "wal"] := by decide

theorem storeOp_singleTx (e : Nat × Nat × List Sk) (he : e ∈ Yow.Gen.storeOps) : SingleTx e.2.2 = true := by
  obtain ⟨kd, _, h⟩ := C13_ops_have_allowed_shape e he
  exact allowed_singleTx kd e.2.2 h

/-- If the process dies at ANY statement boundary of ANY store operation, the reopened store holds
    either exactly the previous content or exactly the new content (all tables, all records). -/
theorem C13_crash_atomic (e : Nat × Nat × List Sk) (he : e ∈ Yow.Gen.storeOps) (args : List (Nat × Nat)) (db : Db)
    (hdb : db.inTx = false) (p : List Sk) (hp : p <+: e.2.2) :
    (crash (run args db p)).committed = db.committed ∨
    (crash (run args db p)).committed = (run args db e.2.2).committed :=
  crash_singleTx e.2.2 (storeOp_singleTx e he) args db hdb p hp

/-- An existing session / pinned identity / sender key is never lost by a crash while it is being
    replaced: at every crash point the record is the old one or the new one. -/
theorem C13_replace_never_loses (e : Nat × Nat × List Sk) (he : e ∈ Yow.Gen.storeOps) (t : Nat)
    (hk : kindOf e.1 = some (.replace t)) (k v : Nat) (db : Db) (hdb : db.inTx = false)
    (ht : t < db.committed.length) (hu : UniqueKeys db.committed) (p : List Sk) (hp : p <+: e.2.2) :
    lookup (crash (run [(k, v)] db p)).committed t k = lookup db.committed t k ∨
    lookup (crash (run [(k, v)] db p)).committed t k = some (v, false) := by
  obtain ⟨kd, hkd, hal⟩ := C13_ops_have_allowed_shape e he
  rw [hk] at hkd
  cases hkd
  rcases C13_crash_atomic e he [(k, v)] db hdb p hp with h | h
  · left; rw [h]
  · right; rw [h]; exact (replace_effect t k v e.2.2 hal db hdb ht hu).2.2.2.1

/-- Refinement to the abstract map, per kind of operation (any table content, any key, any value):
    replace … -/
theorem C13_refines_map_replace (e : Nat × Nat × List Sk) (he : e ∈ Yow.Gen.storeOps) (t : Nat)
    (hk : kindOf e.1 = some (.replace t)) (k v : Nat) (db : Db) (hdb : db.inTx = false)
    (ht : t < db.committed.length) (hu : UniqueKeys db.committed) :
    (run [(k, v)] db e.2.2).inTx = false ∧ UniqueKeys (run [(k, v)] db e.2.2).committed ∧
    lookup (run [(k, v)] db e.2.2).committed t k = some (v, false) ∧
    (∀ t' k', (t', k') ≠ (t, k) → lookup (run [(k, v)] db e.2.2).committed t' k' = lookup db.committed t' k') := by
  obtain ⟨kd, hkd, hal⟩ := C13_ops_have_allowed_shape e he
  rw [hk] at hkd; cases hkd
  have h := replace_effect t k v e.2.2 hal db hdb ht hu
  exact ⟨h.1, h.2.2.1, h.2.2.2.1, h.2.2.2.2⟩

/-- … insert of a new key … -/
theorem C13_refines_map_insert (e : Nat × Nat × List Sk) (he : e ∈ Yow.Gen.storeOps) (t : Nat)
    (hk : kindOf e.1 = some (.insertNew t)) (k v : Nat) (db : Db) (hdb : db.inTx = false)
    (ht : t < db.committed.length) (hu : UniqueKeys db.committed) (hfresh : lookup db.committed t k = none) :
    (run [(k, v)] db e.2.2).inTx = false ∧ UniqueKeys (run [(k, v)] db e.2.2).committed ∧
    lookup (run [(k, v)] db e.2.2).committed t k = some (v, false) ∧
    (∀ t' k', (t', k') ≠ (t, k) → lookup (run [(k, v)] db e.2.2).committed t' k' = lookup db.committed t' k') := by
  obtain ⟨kd, hkd, hal⟩ := C13_ops_have_allowed_shape e he
  rw [hk] at hkd; cases hkd
  have h := (insertNew_effect t k v e.2.2 hal db hdb ht hu).1 hfresh
  exact ⟨h.1, h.2.2.1, h.2.2.2.1, h.2.2.2.2⟩

/-- … removal … -/
theorem C13_refines_map_remove (e : Nat × Nat × List Sk) (he : e ∈ Yow.Gen.storeOps) (t : Nat)
    (hk : kindOf e.1 = some (.remove t)) (k v : Nat) (db : Db) (hdb : db.inTx = false)
    (ht : t < db.committed.length) (hu : UniqueKeys db.committed) :
    (run [(k, v)] db e.2.2).inTx = false ∧ UniqueKeys (run [(k, v)] db e.2.2).committed ∧
    lookup (run [(k, v)] db e.2.2).committed t k = none ∧
    (∀ t' k', (t', k') ≠ (t, k) → lookup (run [(k, v)] db e.2.2).committed t' k' = lookup db.committed t' k') := by
  obtain ⟨kd, hkd, hal⟩ := C13_ops_have_allowed_shape e he
  rw [hk] at hkd; cases hkd
  have h := remove_effect t k v e.2.2 hal db hdb ht hu
  exact ⟨h.1, h.2.2.1, h.2.2.2.1, h.2.2.2.2⟩

/-- … retiring a one-time prekey: the row stays (so that its id is never handed out again), its key
    material is replaced by the tombstone `v`, flag and all other records untouched (a missing key stays
    missing) … -/
theorem C13_refines_map_retire (e : Nat × Nat × List Sk) (he : e ∈ Yow.Gen.storeOps) (t : Nat)
    (hk : kindOf e.1 = some (.retire t)) (k v : Nat) (db : Db) (hdb : db.inTx = false)
    (ht : t < db.committed.length) (hu : UniqueKeys db.committed) :
    (run [(k, v)] db e.2.2).inTx = false ∧ UniqueKeys (run [(k, v)] db e.2.2).committed ∧
    lookup (run [(k, v)] db e.2.2).committed t k = (lookup db.committed t k).map (fun old => (v, old.2)) ∧
    (∀ t' k', (t', k') ≠ (t, k) → lookup (run [(k, v)] db e.2.2).committed t' k' = lookup db.committed t' k') := by
  obtain ⟨kd, hkd, hal⟩ := C13_ops_have_allowed_shape e he
  rw [hk] at hkd; cases hkd
  have h := retire_effect t k v e.2.2 hal db hdb ht hu
  exact ⟨h.1, h.2.2.1, h.2.2.2.1, h.2.2.2.2⟩

/-- … and the uploaded flag of one-time prekeys: values untouched, flag set, nothing else changes. -/
theorem C13_refines_map_markSent (e : Nat × Nat × List Sk) (he : e ∈ Yow.Gen.storeOps) (t : Nat)
    (hk : kindOf e.1 = some (.markSent t)) (k0 k1 : Nat) (db : Db) (hdb : db.inTx = false)
    (ht : t < db.committed.length) (hu : UniqueKeys db.committed) :
    (run [(k0, 0), (k1, 0)] db e.2.2).inTx = false ∧ UniqueKeys (run [(k0, 0), (k1, 0)] db e.2.2).committed ∧
    (∀ k, k = k0 ∨ k = k1 → lookup (run [(k0, 0), (k1, 0)] db e.2.2).committed t k
        = (lookup db.committed t k).map (fun x => (x.1, true))) ∧
    (∀ t' k', (t' ≠ t ∨ (k' ≠ k0 ∧ k' ≠ k1)) →
      lookup (run [(k0, 0), (k1, 0)] db e.2.2).committed t' k' = lookup db.committed t' k') := by
  obtain ⟨kd, hkd, hal⟩ := C13_ops_have_allowed_shape e he
  rw [hk] at hkd; cases hkd
  have h := markSent_effect t k0 k1 e.2.2 hal db hdb ht hu
  exact ⟨h.1, h.2.2.1, h.2.2.2.1, h.2.2.2.2⟩

/-- Durability: closing and reopening a store with no operation in progress changes nothing. -/
theorem C13_reopen_is_identity (db : Db) (hdb : db.inTx = false) :
    view (crash db) = view db ∧ (crash db).committed = db.committed := by
  simp [view, crash, hdb]

/-! ### statement failures (storage faults): a refused operation costs no record -/

def deletesNothing : Sk → Bool
  | .del _ _ => false
  | _ => true

theorem spares_of_deletesNothing (args : List (Nat × Nat)) (t k : Nat) (s : Sk) (h : deletesNothing s = true) :
    spares args t k s = true := by
  cases s <;> simp_all [deletesNothing, spares]

/-- the statements an operation of the current source leaves pending, in a transaction that stays open, when the write statement at
    position `f.2.1` fails (nothing if it rolls back) -/
def pendingAfter (f : Nat × Nat × Bool) : List (List Sk) :=
  if f.2.2 then [] else (Yow.Gen.storeOps.filter (fun e => e.1 == f.1)).map (fun e => e.2.2.take f.2.1)

/-- Regenerated obligation: the probe of the current source covers every write statement of every operation of the store API. -/
theorem C13_fault_probe_covers_every_statement :
    Yow.Gen.storeOps.all (fun e => e.1 == 10 || (List.range e.2.2.length).all (fun j =>
      j == 0 || j + 1 == e.2.2.length || Yow.Gen.faultOutcome.any (fun f => f.1 == e.1 && f.2.1 == j))) = true := by decide

/-- Regenerated obligation: whatever an operation of the current source leaves pending when one of its statements fails contains no DELETE
    (a replacement that fails between its DELETE and its INSERT is rolled back — fix 79f08a3; only setAsSent leaves the first of its two
    flag updates pending). -/
theorem C13_refused_operation_leaves_no_delete_pending :
    ∀ f ∈ Yow.Gen.faultOutcome, ∀ p ∈ pendingAfter f, p.all deletesNothing = true := by decide

/-- A store operation that is refused because one of its statements failed never costs a record: take ANY operation of the current source,
    ANY of its statements failing, ANY database content, ANY record present before, and ANY operations that run on the connection
    afterwards (which commit whatever was left pending) and that do not delete that record themselves — the record is in the database
    file. -/
theorem C13_refused_operation_costs_no_record (e : Nat × Nat × List Sk) (he : e ∈ Yow.Gen.storeOps)
    (f : Nat × Nat × Bool) (hf : f ∈ Yow.Gen.faultOutcome) (hfe : f.1 = e.1) (hj : f.2.1 < e.2.2.length)
    (args : List (Nat × Nat)) (db : Db) (hdb : db.inTx = false) (t k : Nat) (hp : (lookup db.committed t k).isSome = true)
    (later : List (List (Nat × Nat) × List Sk)) (hl : ∀ o ∈ later, ∀ s ∈ o.2, spares o.1 t k s = true)
    (hout : (runOps (runFault f.2.2 args db e.2.2 f.2.1) later).inTx = false) :
    (lookup (runOps (runFault f.2.2 args db e.2.2 f.2.1) later).committed t k).isSome = true := by
  apply runOps_spares_committed t k later hl _ _ hout
  cases hrb : f.2.2 with
  | true =>
    rw [runFault_rolled_back e.2.2 (storeOp_singleTx e he) args db hdb f.2.1 hj]
    simpa [view, crash] using hp
  | false =>
    have hmem : e.2.2.take f.2.1 ∈ pendingAfter f := by
      simp only [pendingAfter, hrb, Bool.false_eq_true, if_false, List.mem_map, List.mem_filter]
      exact ⟨e, ⟨he, by simp [hfe]⟩, rfl⟩
    have hall := C13_refused_operation_leaves_no_delete_pending f hf _ hmem
    simp only [runFault, Bool.false_eq_true, if_false]
    apply run_spares args t k _ _ db
    · simpa [view, hdb] using hp
    · intro s hs
      exact spares_of_deletesNothing args t k s (List.all_eq_true.mp hall s hs)

/-- Sensitivity (the code before fix 79f08a3): a replacement whose INSERT fails and that is NOT rolled back leaves its DELETE pending; the next
    successful operation on any key commits it and the existing record is gone.  Rolled back, the record stays. -/
theorem C13_pending_delete_is_committed_by_the_next_operation :
    let db0 := run [(11, 0)] empty [.begin, .ins 0 0, .commit]
    lookup db0.committed 0 11 = some (0, false) ∧
    lookup (runOps (runFault false [(11, 1)] db0 [.begin, .del 0 0, .ins 0 0, .commit] 2) [([(5, 5)], [.begin, .ins 2 0, .commit])]).committed 0 11 = none ∧
    lookup (runOps (runFault true [(11, 1)] db0 [.begin, .del 0 0, .ins 0 0, .commit] 2) [([(5, 5)], [.begin, .ins 2 0, .commit])]).committed 0 11 = some (0, false) := by
  decide

/- Non-vacuity: the empty store meets the hypotheses, and a replace on an existing key is an instance. -/
example : empty.inTx = false ∧ (0 : Nat) < empty.committed.length ∧ UniqueKeys empty.committed :=
  ⟨rfl, by decide, empty_unique⟩
example : lookup (run [(7, 70)] empty [.begin, .ins 0 0, .commit]).committed 0 7 ≠ none := by decide

end Yow.Store
