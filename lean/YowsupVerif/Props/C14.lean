/-
  C14  One-time prekeys: none lost or re-offered between generation, upload and use.
  Property theorems only (lemmas: Lemmas/PreKeys.lean).  Histories are arbitrary sequences of connect /
  authenticated / server asks for keys / upload result / upload error / connection loss / restart / first
  message consuming a key, restricted only by what the server and peers can do (`AllowedRun`: one login
  per connection with the passive flag the stack holds; key requests, replies and messages only on an
  authenticated connection), for any batch size and threshold.
-/
import YowsupVerif.Lemmas.PreKeys
namespace Yow.PreKeys

/-- Every key ever offered to the server is either still stored — with the same key material — or was consumed by a first
    message (so it "stays available locally until a first message consumes it"). -/
theorem C14_offered_key_available_until_consumed (p : Params) (es : List Ev) (ha : AllowedRun p {} es = true) :
    let s := (run p {} es).1
    ∀ kv ∈ s.offered, kv ∈ s.consumed ∨ ∃ r ∈ s.db, r.id = kv.1 ∧ r.key = kv.2 :=
  offered_available p es ha

/-- Every key id ever offered to the server names exactly one key — also after keys were consumed and the store was
    refilled (the consumed keys' rows stay as tombstones, so their ids are never handed out again). -/
theorem C14_offered_id_names_one_key (p : Params) (es : List Ev) (ha : AllowedRun p {} es = true) :
    let s := (run p {} es).1
    ∀ a ∈ s.offered, ∀ b ∈ s.offered, a.1 = b.1 → a = b :=
  offered_ids_unique p es ha

/-- Keys whose upload was not confirmed are offered again at the next login, and only those: after ANY history, a
    connect followed by the authenticated event uploads exactly the stored keys that are not marked as sent. -/
theorem C14_unconfirmed_reoffered_next_login (p : Params) (es : List Ev) (ha : AllowedRun p {} es = true) :
    let s1 := (step p (run p {} es).1 .connect).1
    let r := step p s1 (.authed s1.passiveProp)
    (∀ row ∈ s1.db, row.sent = false → ∃ rid keys, Out.upload rid keys ∈ r.2 ∧ (row.id, row.key) ∈ keys) ∧
    (∀ rid keys, Out.upload rid keys ∈ r.2 → ∀ kv ∈ keys, ∃ row ∈ s1.db, row.id = kv.1 ∧ row.key = kv.2 ∧ row.sent = false) :=
  login_offers_pending p _ (inv_run p {} inv_init es ha)

/-- A key counts as pending until the server has confirmed an upload containing it and never afterwards (hence confirmed
    keys are not re-offered, by the previous theorem) — for EVERY allowed history, consumption included. -/
theorem C14_sent_iff_confirmed (p : Params) (es : List Ev) (ha : AllowedRun p {} es = true) :
    let s := (run p {} es).1
    (∀ r ∈ s.db, r.sent = true ↔ (r.id, r.key) ∈ s.confirmed) ∧ (∀ kv ∈ s.confirmed, kv ∈ s.offered) :=
  sent_exact_run p es ha

/-- A consumed key cannot be used again: the second first-message naming it is refused; so is any id that names no
    stored key. -/
theorem C14_consumed_unusable (p : Params) (es : List Ev) (ha : AllowedRun p {} es = true) (id : Nat) :
    let s := (run p {} es).1
    (∀ key, Out.decryptOk id key ∈ (step p s (.consume id)).2 →
      (step p (step p s (.consume id)).1 (.consume id)).2 = [.invalidKeyId id]) ∧
    ((∀ r ∈ s.db, r.id ≠ id) → (step p s (.consume id)).2 = [.invalidKeyId id]) :=
  consume_once p _ (inv_run p {} inv_init es ha) id

/-- Key ids travel as three big-endian bytes; distinct ids have distinct encodings. -/
theorem C14_id_encoding (a b : Nat) (ha : a < 16777216) (hb : b < 16777216) :
    adjustId a = [a / 65536 % 256, a / 256 % 256, a % 256] ∧ (adjustId a = adjustId b → a = b) :=
  ⟨(adjustId_spec a ha).1, adjustId_injective a b ha hb⟩

/-- The account's registration id (any value below 2^32; generated below 2^31) travels in the same encoding, four bytes wide from
    2^24 on: the bytes are the big-endian digits of the id, so the server reads back exactly the id, and distinct ids differ. -/
theorem C14_id_encoding_wide (a b : Nat) (ha : a < 4294967296) (hb : b < 4294967296) :
    (adjustId a).foldl (fun acc x => acc * 256 + x) 0 = a ∧ (∀ x ∈ adjustId a, x < 256) ∧
    (adjustId a).length = (if a < 16777216 then 3 else 4) ∧ (adjustId a = adjustId b → a = b) := by
  have key : ∀ n, n < 4294967296 → (adjustId n).foldl (fun acc x => acc * 256 + x) 0 = n := by
    intro n hn
    unfold adjustId
    split <;> simp [List.foldl] <;> omega
  refine ⟨key a ha, ?_, ?_, ?_⟩
  · intro x hx
    unfold adjustId at hx
    split at hx <;> simp at hx <;> omega
  · unfold adjustId; split <;> simp
  · intro h
    have := key a ha
    rw [h, key b hb] at this
    exact this.symm

/-- non-vacuity: a history with consumption and a refill; the refill starts above the consumed ids -/
example :
    let es : List Ev := [.connect, .authed true, .consume 4, .consume 3, .consume 2, .connect, .authed true]
    AllowedRun { batch := 4, threshold := 2 } {} es = true ∧
    (run { batch := 4, threshold := 2 } {} es).1.offered.map Prod.fst = [1, 2, 3, 4, 1, 5, 6, 7, 8] := by
  decide

end Yow.PreKeys
