/-
  C14  One-time prekeys: none lost or re-offered between generation, upload and use.
  Property theorems only (lemmas: Lemmas/PreKeys.lean).  Histories are arbitrary sequences of connect /
  authenticated / server asks for keys / upload result / upload error / connection loss / restart / first
  message consuming a key, restricted only by what the server and peers can do (`AllowedRun`: one login
  per connection with the passive flag the stack holds; key requests, replies and messages only on an
  authenticated connection), for any batch size and threshold.
-/
import YowsupVerif.Lemmas.PreKeys
namespace Yow.PreKeys

/-- bookkeeping invariant of every reachable state: key ids are unique in the store; everything on the pending list
    is a stored, not-yet-confirmed key; every key ever offered to the server is either still stored — with the
    same key material — or was consumed by a first message (so it "stays available locally until a first message
    consumes it"). -/
theorem C14_offered_key_available_until_consumed (p : Params) (es : List Ev) (ha : AllowedRun p {} es = true) :
    Inv (run p {} es).1 :=
  inv_run p {} inv_init es ha

/-- Keys whose upload was not confirmed are offered again at the next login, and only those: after ANY history, a
    connect followed by the authenticated event uploads exactly the stored keys that are not marked as sent. -/
theorem C14_unconfirmed_reoffered_next_login (p : Params) (es : List Ev) (ha : AllowedRun p {} es = true) :
    let s1 := (step p (run p {} es).1 .connect).1
    let r := step p s1 (.authed s1.passiveProp)
    (∀ row ∈ s1.db, row.sent = false → ∃ rid keys, Out.upload rid keys ∈ r.2 ∧ (row.id, row.key) ∈ keys) ∧
    (∀ rid keys, Out.upload rid keys ∈ r.2 → ∀ kv ∈ keys, ∃ row ∈ s1.db, row.id = kv.1 ∧ row.key = kv.2 ∧ row.sent = false) :=
  login_offers_pending p _ (inv_run p {} inv_init es ha)

/-- A key counts as pending until the server has confirmed an upload containing it and never afterwards
    (hence confirmed keys are not re-offered, by the previous theorem) — proved for histories in which no key is
    consumed; with consumption the id of a consumed key can be re-used (known finding, witness below) and the
    flag is then attributed by id only.  Full statement (all histories) kept visible: `SentExact` for every
    `AllowedRun` history. -/
theorem C14_sent_iff_confirmed_partial (p : Params) (es : List Ev) (ha : AllowedRun p {} es = true) (hn : NoConsume es) :
    SentExact (run p {} es).1 :=
  sent_exact_run p {} inv_init ⟨by simp, by simp, by simp⟩ es ha hn

/-- A consumed key cannot be used again: the second first-message naming it is refused; so is any id that names no
    stored key. -/
theorem C14_consumed_unusable (p : Params) (es : List Ev) (ha : AllowedRun p {} es = true) (id : Nat) :
    let s := (run p {} es).1
    (∀ key, Out.decryptOk id key ∈ (step p s (.consume id)).2 →
      (step p (step p s (.consume id)).1 (.consume id)).2 = [.invalidKeyId id]) ∧
    ((∀ r ∈ s.db, r.id ≠ id) → (step p s (.consume id)).2 = [.invalidKeyId id]) :=
  consume_once p _ (inv_run p {} inv_init es ha) id

/-- Key ids travel as three big-endian bytes; distinct ids have distinct encodings. -/
theorem C14_id_encoding (a b : Nat) (ha : a < 16777216) (hb : b < 16777216) :
    adjustId a = [a / 65536 % 256, a / 256 % 256, a % 256] ∧ (adjustId a = adjustId b → a = b) :=
  ⟨(adjustId_spec a ha).1, adjustId_injective a b ha hb⟩

/-- Known finding (DESIGN §8), as a model witness: after the keys with the highest ids were consumed, the next
    refill starts below them and re-uses an id for a different key ("every key id offered maps to exactly one key"
    fails): here id 2 is offered twice with different key material. -/
theorem C14_id_reuse_witness :
    let s := (run { batch := 4, threshold := 2 } {} [.connect, .authed true, .consume 4, .consume 3, .consume 2, .connect, .authed true]).1
    (2, 2) ∈ s.offered ∧ (2, 5) ∈ s.offered ∧
    AllowedRun { batch := 4, threshold := 2 } {} [.connect, .authed true, .consume 4, .consume 3, .consume 2, .connect, .authed true] = true := by
  decide

/- Non-vacuity: a history with an unconfirmed upload, a restart and a second login is allowed. -/
example : AllowedRun { batch := 4, threshold := 2 } {} [.connect, .authed true, .restart, .connect, .authed true, .uploadResult 2, .disconnected] = true := by
  decide

end Yow.PreKeys
