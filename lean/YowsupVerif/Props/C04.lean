/-
  C04  Encrypted transport: handshake succeeds, frames flow intact and in order.
  Property theorems only (lemmas: Lemmas/Handshake.lean; fragmentation: Props/C05.lean).  The theorems quantify over every
  schedule of the network thread and the handshake worker threads (at queue / lock / state-machine operations) and every
  connect / disconnect history; cryptography is abstracted to "a segment authenticates under the keys of the handshake of
  its own connection" (all three login variants consume one server reply; which pattern produced the keys does not matter
  to the orchestration — the variants themselves are exercised against a Noise responder in the correspondence run).
  `C04_source_orchestration` ties the theorems to the current source.
-/
import YowsupVerif.Lemmas.Handshake
import YowsupVerif.Gen.HsCfg
import YowsupVerif.Props.C05
namespace Yow.HS

/-- in the current source a disconnect retires the segment queue, the stream and the protocol object, and the segment layer
    drops a half-received segment (observed by running the layers; Gen/HsCfg.lean) -/
theorem C04_source_orchestration : Yow.Gen.hsCfg = goodCfg := by decide

/-- Every fragmentation of the server's byte stream yields exactly the server's segments, in order (C05's theorem) … -/
theorem C04_any_fragmentation (fs : List Yow.Bytes) (hfs : Yow.Segments.FramesOK fs) (cs : List Yow.Bytes)
    (hcs : cs.flatten = Yow.Segments.stream fs) :
    Yow.Segments.run Yow.Segments.init cs = ({ enabled := true, buf := [] }, fs) :=
  Yow.Segments.C05_any_chunking fs hfs cs hcs

/-- … also after a connection that was lost in the middle of a segment: whatever was half-received is dropped, so the next
    connection's stream is read from a clean buffer. -/
theorem C04_fragmentation_after_reconnect (leftover : Yow.Bytes) (fs : List Yow.Bytes) (hfs : Yow.Segments.FramesOK fs)
    (cs : List Yow.Bytes) (hcs : cs.flatten = Yow.Segments.stream fs) :
    Yow.Segments.run (if Yow.Gen.hsCfg.segReset then { enabled := true, buf := [] } else { enabled := true, buf := leftover }) cs
      = ({ enabled := true, buf := [] }, fs) := by
  rw [C04_source_orchestration]
  exact Yow.Segments.C05_any_chunking fs hfs cs hcs

/-- For every schedule and history: the client establishes the session on the live connection once the server's reply has
    arrived — also when earlier attempts were cut off before, during or after the handshake. -/
theorem C04_handshake_succeeds (acts : List Act) (ha : AllowedRun Yow.Gen.hsCfg {} acts = true)
    (hg : allGood (run Yow.Gen.hsCfg {} acts) = true) (hr : atRest (run Yow.Gen.hsCfg {} acts) = true)
    (hl : (run Yow.Gen.hsCfg {} acts).live = true) (hh : (run Yow.Gen.hsCfg {} acts).helloSeen = true) :
    pstate (run Yow.Gen.hsCfg {} acts) = .transport ∧ keyOf (run Yow.Gen.hsCfg {} acts) = some (run Yow.Gen.hsCfg {} acts).conn := by
  rw [C04_source_orchestration] at ha hg hr hl hh ⊢
  exact handshake_succeeds acts ha hg hr hl hh

/-- From then on every server frame arrives upward intact, in sending order, exactly once — including frames that arrive
    at the very moment the handshake completes (they wait in the queue and are flushed by whichever thread comes first). -/
theorem C04_frames_in_order_exactly_once (acts : List Act) (ha : AllowedRun Yow.Gen.hsCfg {} acts = true)
    (hg : allGood (run Yow.Gen.hsCfg {} acts) = true) :
    let s := run Yow.Gen.hsCfg {} acts
    noRaise s = true ∧ framesUpOfConn s <+: framesOfConn s ∧
    (atRest s = true → pstate s = .transport → framesUpOfConn s = framesOfConn s) := by
  rw [C04_source_orchestration] at ha hg ⊢
  exact ⟨(frames_in_order acts ha hg).1, (frames_in_order acts ha hg).2, fun hr ht => frames_complete acts ha hg hr ht⟩

/-- A handshake whose server reply fails authentication is reported upward as a login failure instead of hanging. -/
theorem C04_failed_authentication_reported (acts : List Act) (ha : AllowedRun Yow.Gen.hsCfg {} acts = true)
    (hb : ∃ sg ∈ (run Yow.Gen.hsCfg {} acts).arrived, sg.kind = .hello ∧ sg.conn = (run Yow.Gen.hsCfg {} acts).conn ∧ sg.good = false)
    (hr : atRest (run Yow.Gen.hsCfg {} acts) = true) (hl : (run Yow.Gen.hsCfg {} acts).live = true) :
    pstate (run Yow.Gen.hsCfg {} acts) = .error ∧ Up.failure (run Yow.Gen.hsCfg {} acts).conn ∈ (run Yow.Gen.hsCfg {} acts).up := by
  rw [C04_source_orchestration] at ha hb hr hl ⊢
  exact failure_reported acts ha hb hr hl

/-- Sensitivity: what retiring the queue and the protocol object on disconnect is for (kernel-checked histories). -/
theorem C04_shared_state_breaks_reconnect :
    (let acts : List Act := [.connect, .disconnect, .connect, .arrive { conn := 2, kind := .hello, good := true, serial := 1 }, .net, .worker 0, .worker 0]
     let s := run { freshQueue := false, freshProtocol := false, segReset := true } {} acts
     AllowedRun { freshQueue := false, freshProtocol := false, segReset := true } {} acts = true ∧ allGood s = true ∧
     pstate s = .error ∧ Up.failure 1 ∈ s.up) ∧
    (let acts : List Act := [.connect, .arrive { conn := 1, kind := .hello, good := true, serial := 1 }, .net, .worker 0, .disconnect, .connect, .worker 0]
     let s := run { freshQueue := true, freshProtocol := false, segReset := true } {} acts
     AllowedRun { freshQueue := true, freshProtocol := false, segReset := true } {} acts = true ∧
     pstate s = .transport ∧ keyOf s = some 1 ∧ s.conn = 2) :=
  ⟨shared_queue_breaks_reconnect, shared_protocol_breaks_reconnect⟩

end Yow.HS
