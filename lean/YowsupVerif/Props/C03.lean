/-
  C03  End-to-end messaging: exactly-once authentic delivery, only ciphertext on the wire.
  Property theorems only (lemmas: Lemmas/E2E.lean, Lemmas/E2ESteps.lean, Lemmas/E2ETokens.lean, Lemmas/E2ETokFaults.lean) about the system model
  Model/E2E.lean: any number of accounts and groups, arbitrary conversation scripts (`appSend`), every schedule of the
  server's per-account FIFO queues (`process`, `deliver`), the two server faults (`deliver … dup / corrupt`, at most one
  per message and recipient) and restarts at quiescence — all as one action list restricted only by `AllowedRun`.
-/
import YowsupVerif.Lemmas.E2ETokens
import YowsupVerif.Lemmas.E2ETokFaults
import YowsupVerif.Lemmas.E2ETokUnbounded
import YowsupVerif.Lemmas.E2ESteps
namespace Yow.E2E

/-- No stanza leaving a client ever contains the plaintext payload: every message stanza on the wire carries encrypted
    envelopes only — for every script, schedule and fault sequence. -/
theorem C03_only_ciphertext_on_wire (accts : List Acct) (groups : List (Nat × List Acct)) (hw : WFConfig accts groups)
    (acts : List Act) (ha : AllowedRun (initSys accts groups) acts = true) :
    ∀ a id peer part im encs pl, (a, Stanza.msg id peer part im encs pl) ∈ (run (initSys accts groups) acts).wire → pl = none :=
  wire_only_ciphertext accts groups hw acts ha

/-- Whatever reaches an application is authentic and was meant for it — original content, sender and group identity,
    and "reaches nobody else": every message shown to `r` was submitted by the account it claims to come from, to `r` or
    to a group `r` belongs to, with exactly that content.  For every script, schedule and fault sequence. -/
theorem C03_shown_is_authentic_and_intended (accts : List Acct) (groups : List (Nat × List Acct)) (hw : WFConfig accts groups)
    (acts : List Act) (ha : AllowedRun (initSys accts groups) acts = true) :
    let s := run (initSys accts groups) acts
    ∀ r x, x ∈ (getClient s r).shown →
      ∃ a n, (a, n) ∈ s.submitted ∧ n.id = x.id ∧ n.payload = x.payload ∧ r ∈ intended s a n ∧ OriginOf a n x.peer x.participant :=
  shown_is_genuine accts groups hw acts ha

/-- Exactly once, with receipts — the property at full strength: for every configuration whose groups list each member
    once, every script of at most 100 messages (the property's own bound: fewer than 100 unacknowledged messages), every
    schedule, every restart at quiescence AND every use of the two server faults the alphabet allows (a message delivered
    twice; one damaged ciphertext per message), whenever the server's queues are empty every submitted message has been
    shown exactly once to each intended recipient and the sender's application holds a delivery receipt from each of them
    (a duplicated delivery is acknowledged again, so there may be more than one); and as long as the queues are not empty
    the server can act. -/
theorem C03_exactly_once_with_receipts (accts : List Acct) (groups : List (Nat × List Acct)) (hw : WFConfig accts groups)
    (hnd : ∀ g ∈ groups, g.2.Nodup) (acts : List Act) (ha : AllowedRun (initSys accts groups) acts = true) (hn : sendCount acts ≤ 100) :
    let s := run (initSys accts groups) acts
    (quiescent s = true →
      ∀ a n, (a, n) ∈ s.submitted → ∀ r, r ∈ intended s a n →
        shownCount s r n.id = 1 ∧
        1 ≤ ((getClient s a).receipts.filter (fun e =>
          e.1 == n.id && e.2.2.2 == RType.delivery && (e.2.2.1 == some r || (e.2.2.1.isNone && e.2.1 == Dest.user r)))).length) ∧
    (quiescent s = false → ∃ a, Allowed s (.process a) = true ∨ Allowed s (.deliver a .none) = true) := by
  intro s
  exact ⟨exactly_once_with_faults accts groups hw hnd acts ha hn,
         fun h => not_quiescent_enabled s (queueKeys_run accts groups acts) h⟩

/-- Without faults the count of receipts is exact, and NO bound on the number of messages is needed (the bound of the previous
    theorem exists only because the send layer keeps the last 100 sent messages for serving retry requests, and a fault-free run
    never produces one): every submitted message has been shown exactly once to each intended recipient and the sender's
    application holds exactly one delivery receipt from each of them. -/
theorem C03_exactly_once_one_receipt_fault_free (accts : List Acct) (groups : List (Nat × List Acct)) (hw : WFConfig accts groups)
    (hnd : ∀ g ∈ groups, g.2.Nodup) (acts : List Act) (ha : AllowedRun (initSys accts groups) acts = true) (hf : NoFault acts = true) :
    let s := run (initSys accts groups) acts
    (quiescent s = true →
      ∀ a n, (a, n) ∈ s.submitted → ∀ r, r ∈ intended s a n →
        shownCount s r n.id = 1 ∧
        ((getClient s a).receipts.filter (fun e =>
          e.1 == n.id && e.2.2.2 == RType.delivery && (e.2.2.1 == some r || (e.2.2.1.isNone && e.2.1 == Dest.user r)))).length = 1) ∧
    (quiescent s = false → ∃ a, Allowed s (.process a) = true ∨ Allowed s (.deliver a .none) = true) := by
  intro s
  exact ⟨exactly_once_fault_free_unbounded accts groups hw hnd acts ha hf,
         fun h => not_quiescent_enabled s (queueKeys_run accts groups acts) h⟩

/-- every (message, recipient) pair has exactly one token at every moment of a fault-free run of any length: nothing is lost or
    multiplied on the way (the invariant behind the previous theorem) -/
theorem C03_token_conservation (accts : List Acct) (groups : List (Nat × List Acct)) (hw : WFConfig accts groups)
    (hnd : ∀ g ∈ groups, g.2.Nodup) (acts : List Act) (ha : AllowedRun (initSys accts groups) acts = true) (hf : NoFault acts = true) :
    conserved (run (initSys accts groups) acts) = true :=
  conserved_fault_free_unbounded accts groups hw hnd acts ha hf

/-- A message the server delivers twice is shown once and acknowledged again: in ANY state, a 1:1 ciphertext that was
    opened before produces exactly one delivery receipt and nothing at the application; likewise a group ciphertext. -/
theorem C03_duplicate_shown_once (s : Sys) (r a : Acct) (id : Nat) (im : Bool) (ct : Ct)
    (hk : ct.kind = .pkmsg ∨ ct.kind = .msg) (hc : ct.corrupt = false)
    (hs : (getClient s r).seen.contains (ct.sess, ct.ctr) = true)
    (hsess : ct.kind = .msg → ∃ se, lookup (getClient s r).sessions a = some se ∧ (se.cur = ct.sess ∨ ct.sess ∈ se.archived)) :
    let s' := clientReceive s r (.msg id (.user a) none im [(none, ct)] none)
    (getClient s' r).shown = (getClient s r).shown ∧ s'.wire = s.wire ++ [(r, .receipt id (.user a) none .delivery)] :=
  duplicate_reacknowledged s r a id im ct hk hc hs hsess

theorem C03_duplicate_group_shown_once (s : Sys) (r a : Acct) (g id : Nat) (im : Bool) (ct : Ct)
    (hk : ct.kind = .skmsg) (hc : ct.corrupt = false) (hkey : lookup (getClient s r).peerSK (g, a) = some ct.sess)
    (hs : (getClient s r).seenSK.contains (ct.sess, ct.ctr) = true) :
    let s' := clientReceive s r (.msg id (.group g) (some a) im [(none, ct)] none)
    (getClient s' r).shown = (getClient s r).shown ∧ s'.wire = s.wire ++ [(r, .receipt id (.group g) (some a) .delivery)] :=
  duplicate_group_reacknowledged s r a g id im ct hk hc hkey hs

/-- A message that cannot be decrypted triggers a retry request (with the incremented counter) and is not shown. -/
theorem C03_corrupt_triggers_retry (s : Sys) (r a : Acct) (id : Nat) (im : Bool) (ct : Ct)
    (hk : ct.kind = .pkmsg ∨ ct.kind = .msg) (hc : ct.corrupt = true)
    (hsess : ct.kind = .msg → (lookup (getClient s r).sessions a).isSome = true) :
    let s' := clientReceive s r (.msg id (.user a) none im [(none, ct)] none)
    (getClient s' r).shown = (getClient s r).shown ∧
    s'.wire = s.wire ++ [(r, .receipt id (.user a) none (.retry ((lookup (getClient s r).retries id).getD 0 + 1)))] :=
  corrupt_triggers_retry s r a id im ct hk hc hsess

/-- non-vacuity: a concrete script with a group, run to quiescence, satisfies the hypotheses and shows every message once -/
example :
    let acts : List Act := [.appSend 1 { id := 100, dest := .user 2, payload := { isMedia := false, content := 5 } },
      .process 1, .deliver 1 .none, .process 1, .deliver 1 .none, .deliver 2 .none, .process 2, .deliver 1 .none, .deliver 2 .none, .process 1]
    AllowedRun (initSys [1, 2] []) acts = true ∧ NoFault acts = true ∧ quiescent (run (initSys [1, 2] []) acts) = true ∧
    shownCount (run (initSys [1, 2] []) acts) 2 100 = 1 := by decide

/-- non-vacuity with faults: a first message whose ciphertext is damaged on delivery (retry, served, shown once), and one that is
    delivered twice (shown once), both run to quiescence: the hypotheses of `C03_exactly_once_with_receipts` hold with
    `NoFault acts = false` -/
example :
    let acts : List Act := [.appSend 1 { id := 100, dest := .user 2, payload := { isMedia := false, content := 5 } }, .process 1, .deliver 1 .none, .process 1, .deliver 2 .corrupt, .deliver 1 .none, .process 2, .deliver 1 .none, .process 1, .process 1, .deliver 1 .none, .process 1, .deliver 1 .none, .deliver 2 .none, .deliver 2 .none, .process 2, .deliver 1 .none, .process 1, .deliver 2 .none]
    AllowedRun (initSys [1, 2] []) acts = true ∧ NoFault acts = false ∧ quiescent (run (initSys [1, 2] []) acts) = true ∧
    shownCount (run (initSys [1, 2] []) acts) 2 100 = 1 := by decide
example :
    let acts : List Act := [.appSend 1 { id := 100, dest := .user 2, payload := { isMedia := false, content := 5 } }, .process 1, .deliver 1 .none, .process 1, .deliver 2 .dup, .deliver 1 .none, .process 2, .deliver 1 .none, .process 1, .deliver 2 .none, .process 2, .deliver 1 .none, .process 1, .deliver 2 .none, .deliver 2 .none]
    AllowedRun (initSys [1, 2] []) acts = true ∧ NoFault acts = false ∧ quiescent (run (initSys [1, 2] []) acts) = true ∧
    shownCount (run (initSys [1, 2] []) acts) 2 100 = 1 := by decide

end Yow.E2E
