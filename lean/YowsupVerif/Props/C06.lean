/-
  C06  Exactly-once routing of stanzas and entities through the assembled stack.
  Property theorems only (lemmas: Lemmas/Routing.lean).  `f : Flags` ranges over the 16 selections of
  the optional modules, `enc` over with/without the encryption layers; descriptors range over ALL
  combinations of the discriminating fields (`other` = any other string).
-/
import YowsupVerif.Lemmas.Routing
import YowsupVerif.Gen.HandleMaps
namespace Yow.Routing

/-- Regenerated obligation: every protocol layer of the current source registers exactly the
    receive / send handlers per tag that the model's handler functions assume. -/
theorem C06_handle_maps_match : Yow.Gen.handleMaps = handleMapSpec := by decide

/-- Nothing is duplicated by the parallel group: no stanza whatsoever yields more than one entity … -/
theorem C06_incoming_at_most_one (f : Flags) (enc : Bool) (s : Stanza) : (recvStack f enc s).1.ups.length ≤ 1 :=
  ups_at_most_one f enc s

/-- … and no entity leaves the protocol layers more than once. -/
theorem C06_outgoing_at_most_one (f : Flags) (e : Entity) (h : Consistent e) : sendAll (sendHandlers f) e ≤ 1 :=
  send_at_most_one f e h

/-- Each incoming stanza of a supported kind produces exactly one entity of its kind (single-owner tags).
    EVERY stream error stanza — of a known kind (conflict / ack / xml-not-well-formed) or of any other
    kind — is delivered as exactly one `.streamError` entity, and nothing raises. -/
theorem C06_incoming_exactly_one_simple (f : Flags) (enc : Bool) (s : Stanza) :
    (s.tag = .receipt → recvStack f enc s = ({ ups := [.receipt] }, false)) ∧
    (s.tag = .ack → recvStack f enc s = ({ ups := [.ack] }, false)) ∧
    (s.tag = .presence → recvStack f enc s = ({ ups := [.presence] }, false)) ∧
    (s.tag = .chatstate → recvStack f enc s = ({ ups := [.chatstate] }, false)) ∧
    (s.tag = .streamFeatures → recvStack f enc s = ({ ups := [.streamFeatures] }, false)) ∧
    (s.tag = .success → recvStack f enc s = ({ ups := [.success], evts := [.authed] }, false)) ∧
    (s.tag = .failure → recvStack f enc s = ({ ups := [.failure], evts := [.disconnectRequest] }, false)) ∧
    (s.tag = .streamError → recvStack f enc s = ({ ups := [.streamError] }, false)) ∧
    (s.tag = .other → recvStack f enc s = ({}, false)) :=
  recv_simple f enc s

/-- Messages: text / extended text by payload, media by media type (needs the media module; left out ⇒
    nothing, and no error) provided the payload is not a sender key distribution on its own; pure
    key-distribution payloads produce nothing — on the text path and, last clause, in a message of type
    media as well: it never surfaces (no entity, no receipt, no error), whatever the media kind attribute
    says and whether or not the media module is present. -/
theorem C06_incoming_messages (f : Flags) (enc : Bool) (s : Stanza) (h : MessageWF s) :
    (s.media = .absent → s.payload = .conversation → recvStack f enc s = ({ ups := [.text] }, false)) ∧
    (s.media = .absent → s.payload = .extendedText → recvStack f enc s = ({ ups := [.extendedText] }, false)) ∧
    (s.media = .absent → s.payload = .keyDistributionOnly → recvStack f enc s = ({}, false)) ∧
    (s.media = .absent → s.payload = .other → recvStack f enc s = ({ downs := [.messageReceipt] }, false)) ∧
    (∀ e, mediaEnt s.media = some e → s.payload ≠ .keyDistributionOnly →
      recvStack f enc s = ({ ups := if f.media then [e] else [] }, false)) ∧
    (s.media = .other → s.payload ≠ .keyDistributionOnly →
      recvStack f enc s = ({ downs := if f.media then [.messageReadReceipt] else [] }, false)) ∧
    (s.mtype = .media → s.hasProto = true → s.payload = .keyDistributionOnly → recvStack f enc s = ({}, false)) :=
  recv_message f enc s h

/-- Notifications by owner; group notifications need the groups module (left out ⇒ only the ack). -/
theorem C06_incoming_notifications (f : Flags) (enc : Bool) (s : Stanza) (h : s.tag = .notification) :
    (s.ntype = .picture → s.cSet = true → (recvStack f enc s).1.ups = [.pictureSet]) ∧
    (s.ntype = .picture → s.cSet = false → s.cDelete = true → (recvStack f enc s).1.ups = [.pictureDelete]) ∧
    (s.ntype = .status → (recvStack f enc s).1.ups = [.statusNotification]) ∧
    (s.ntype = .contacts → s.cRemove = true → (recvStack f enc s).1.ups = [.contactRemove]) ∧
    (s.ntype = .contacts → s.cRemove = false → s.cAdd = true → (recvStack f enc s).1.ups = [.contactAdd]) ∧
    (s.ntype = .wgp2 → s.cSubject = true → (recvStack f enc s).1.ups = if f.groups then [.groupSubject] else []) ∧
    (s.ntype = .wgp2 → s.cSubject = false → s.cCreate = true → (recvStack f enc s).1.ups = if f.groups then [.groupCreate] else []) ∧
    (s.ntype = .encrypt → enc = true → (s.cCount = true ∨ s.cIdentity = true) → (recvStack f enc s).1.ups = []) ∧
    (s.ntype = .other → (recvStack f enc s).1.ups = []) :=
  recv_notification_entities f enc s h

theorem C06_incoming_ib (f : Flags) (enc : Bool) (s : Stanza) (h : s.tag = .ib) :
    recvStack f enc s = ({ ups := if s.cDirty then [.ibDirty] else if s.cOffline then [.ibOffline]
                                   else if s.cAccount then [.ibAccount] else [] }, false) :=
  recv_ib f enc s h

/-- Each outgoing entity of a supported kind leaves the protocol layers exactly once; kinds of a module
    that was left out produce nothing (and no error). -/
theorem C06_outgoing_exactly_one (f : Flags) (e : Entity) (h : Consistent e) :
    (e.tag = .message → e.mtype = .text → sendAll (sendHandlers f) e = 1) ∧
    (e.tag = .message → e.mtype = .media → sendAll (sendHandlers f) e = if f.media then 1 else 0) ∧
    (e.tag = .receipt → sendAll (sendHandlers f) e = 1) ∧ (e.tag = .ack → sendAll (sendHandlers f) e = 1) ∧
    (e.tag = .presence → sendAll (sendHandlers f) e = 1) ∧ (e.tag = .chatstate → sendAll (sendHandlers f) e = 1) ∧
    (e.tag = .notification → sendAll (sendHandlers f) e = 1) ∧ (e.tag = .call → sendAll (sendHandlers f) e = 1) ∧
    (e.tag = .iq → e.cls = .plain →
      (e.xmlns = .wp ∨ e.xmlns = .push ∨ e.xmlns = .w ∨ e.xmlns = .account ∨ e.xmlns = .encrypt ∨ e.xmlns = .last ∨ e.xmlns = .sync) →
      sendAll (sendHandlers f) e = 1) ∧
    (e.tag = .iq → e.cls = .cleanIq → sendAll (sendHandlers f) e = 1) ∧
    (e.tag = .iq → e.cls = .groupsRequest → sendAll (sendHandlers f) e = if f.groups then 1 else 0) ∧
    (e.tag = .iq → e.cls = .plain → e.xmlns = .wm → e.iqType = .set → sendAll (sendHandlers f) e = if f.media then 1 else 0) ∧
    (e.tag = .iq → e.cls = .plain → e.xmlns = .jabberPrivacy → sendAll (sendHandlers f) e = if f.privacy then 1 else 0) ∧
    (e.tag = .iq → e.cls = .plain → e.xmlns = .privacy → sendAll (sendHandlers f) e = if f.profiles then 1 else 0) ∧
    (e.tag = .iq → (e.cls = .getStatuses ∨ e.cls = .setStatus) → sendAll (sendHandlers f) e = if f.profiles then 1 else 0) ∧
    (e.tag = .iq → e.cls = .plain → e.xmlns = .profilePicture → (e.iqType = .get ∨ e.iqType = .set ∨ e.iqType = .delete) →
      sendAll (sendHandlers f) e = if f.profiles then 1 else 0) :=
  send_supported f e h

/- Non-vacuity -/
example : MessageWF { tag := .message, hasProto := true, mtype := .media, media := .image } := by
  refine ⟨rfl, rfl, ?_⟩; decide
example : MessageWF { tag := .message, hasProto := true, mtype := .media, media := .image,
                      payload := .keyDistributionOnly } := by
  refine ⟨rfl, rfl, ?_⟩; decide
example : Consistent { tag := .iq, cls := .groupsRequest, xmlns := .wg2 } := by
  unfold Consistent; decide

end Yow.Routing
