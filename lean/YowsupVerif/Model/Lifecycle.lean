/-
  Model of the connection lifecycle (product of the small state machines involved):
    yowsup/layers/network/layer.py             YowNetworkLayer (state, connected flag, dispatcher, callbacks)
    yowsup/layers/network/dispatcher/*.py      dispatcher contract: connect → later handle_connect | handle_error;
                                               disconnect → synchronous handle_close; sendData dropped unless connected
    yowsup/layers/auth/layer_authentication.py on connected → broadcast AUTH; success / failure / stream:error
    yowsup/layers/interface/interface.py       reconnect flag, onStreamError, onConnected, onDisconnected, connect/disconnect
    yowsup/layers/protocol_iq/layer.py         keep-alive thread, waitPong / gotPong, stop on disconnect(ed)
    yowsup/layers/noise/layer.py               protocol reset on disconnected
    yowsup/layers/axolotl/layer_control.py     the control layer's own reboot of the connection after a confirmed passive key upload
                                               (on_keys_flushed: flag + DISCONNECT broadcast downward; on_disconnected: flag cleared,
                                               passive switched off, connect) — present when `control` is set
    yowsup/stacks/yowstack.py + layers/__init__.py  the DISCONNECTED event is emitted *detached*: the layer directly above
                                               the network layer sees it at once, all others when the stack's loop runs
  Inputs are the property's alphabet; outputs are the observable announcements and dispatcher calls.
-/
namespace Yow.Life

inductive NState | disconnected | connecting | connected | disconnecting
deriving Repr, DecidableEq

/-- one dispatcher object (a connection attempt) -/
structure Disp where
  open_ : Bool          -- socket exists and has not been closed
  established : Bool    -- dispatcher._connected
deriving Repr, DecidableEq

inductive ErrKind | conflict | ack | xmlNotWellFormed | unknown
deriving Repr, DecidableEq

inductive In
  | connectReq                  -- application: interface.connect()  (network layer interface → createConnection)
  | connectEvt                  -- EVENT_STATE_CONNECT broadcast (guarded by `not connected`)
  | dConnected (d : Nat)        -- dispatcher d: handle_connect
  | dClosed (d : Nat)           -- dispatcher d: socket error or peer close (handle_error / handle_close)
  | disconnectReq               -- application: interface.disconnect()  (EVENT_STATE_DISCONNECT broadcast)
  | success | failure
  | streamError (k : ErrKind)
  | pingTick                    -- the keep-alive thread's interval elapsed
  | pong (fresh : Bool)         -- a pong arrives; `fresh` = its id is one of the outstanding pings
  | pongRaises                  -- a pong for an outstanding ping arrives and the application's callback for it raises
  | setReconnect (b : Bool)     -- the application changes PROP_RECONNECT_ON_STREAM_ERR at run time (stack.setProp)
  | keysFlushed                 -- the server confirms the key upload of a passive login (control layer present: it reboots the connection)
  | loop                        -- the stack's loop runs the queued (detached) callbacks
  | appSend                     -- application sends a stanza
deriving Repr, DecidableEq

inductive Out
  | created (d : Nat)           -- a dispatcher was created and asked to connect
  | closed (d : Nat)            -- dispatcher d closed its socket
  | up                          -- EVENT_STATE_CONNECTED announced
  | downNear                    -- EVENT_STATE_DISCONNECTED seen by the layer directly above the network layer
  | downAll                     -- … and by the rest of the stack (when the loop runs)
  | authAttempt (passive : Bool)
  | authed
  | entityFailure | entityStreamError (k : ErrKind)
  | written (d : Nat) | dropped -- a send reached dispatcher d / was dropped
  | pingSent
  | raisedNotImplemented
  | appRaised                   -- an application callback raised (reported to the caller of receive)
deriving Repr, DecidableEq

structure St where
  nstate : NState := .disconnected
  connected : Bool := false
  cur : Option Nat := none             -- index of the network layer's current dispatcher
  disps : List Disp := []
  reconnectOpt : Bool := true          -- PROP_RECONNECT_ON_STREAM_ERR
  passive : Bool := false
  pingEnabled : Bool := true           -- ping interval > 0
  reconnectFlag : Bool := false        -- interface.reconnect
  pingThread : Bool := false
  outstanding : Nat := 0               -- len(_pingQueue)
  pendingDown : Nat := 0               -- queued continuations of detached DISCONNECTED events
  noiseFresh : Bool := true            -- noise protocol in its initial state (no session)
  unknownErrRaises : Bool := false     -- the auth layer raises for stream errors of an unknown kind (pinned behaviour)
  control : Bool := false              -- the stack contains the encryption control layer
  rebootFlag : Bool := false           -- control layer: _reboot_connection
deriving Repr, DecidableEq

def setDisp (ds : List Disp) (i : Nat) (d : Disp) : List Disp := ds.set i d

/-- `createConnection` -/
def createConnection (s : St) : St × List Out :=
  if s.nstate = .connecting ∨ s.nstate = .connected then (s, []) else     -- already up or on its way: ignored
  let i := s.disps.length
  ({ s with cur := some i, disps := s.disps ++ [{ open_ := true, established := false }], nstate := .connecting }, [.created i])

/-- `onDisconnected` callback (from any dispatcher) -/
def onDisconnected (s : St) : St × List Out :=
  if s.nstate ≠ .disconnected then
    ({ s with nstate := .disconnected, connected := false, pendingDown := s.pendingDown + 1 }, [.downNear])
  else (s, [])

/-- dispatcher d: `handle_close` (close socket, `_connected = False`, callback) -/
def handleClose (s : St) (d : Nat) : St × List Out :=
  match s.disps[d]? with
  | none => (s, [])
  | some dp =>
    if !dp.open_ then (s, [])
    else
      let s1 := { s with disps := setDisp s.disps d { open_ := false, established := false } }
      let r := onDisconnected s1
      (r.1, .closed d :: r.2)

/-- `destroyConnection`: state = DISCONNECTING; current dispatcher.disconnect() (= handle_close, also when the
    socket is already closed: asyncore's close() is idempotent but the callback still fires) -/
def destroyConnection (s : St) : St × List Out :=
  if s.nstate = .disconnected then (s, []) else      -- already disconnected: ignored
  match s.cur with
  | none => (s, [.raisedNotImplemented])        -- AttributeError on None: never reached under the alphabet's restriction
  | some d =>
    let s0 := { s with nstate := .disconnecting }
    match s0.disps[d]? with
    | none => (s0, [])
    | some dp =>
      let s1 := { s0 with disps := setDisp s0.disps d { open_ := false, established := false } }
      let r := onDisconnected s1
      (r.1, (if dp.open_ then [.closed d] else []) ++ r.2)

/-- EVENT_STATE_DISCONNECT broadcast from the top: the iq layer stops its thread, the network layer destroys the connection -/
def disconnectEvent (s : St) : St × List Out :=
  destroyConnection { s with pingThread := false, outstanding := 0 }

/-- one queued continuation of a detached DISCONNECTED event: the rest of the stack sees it — noise reset,
    keep-alive stopped, the interface layer reconnects if it was asked to -/
def loopOne (s : St) : St × List Out :=
  if s.pendingDown = 0 then (s, [])
  else
    let s1 := { s with pendingDown := s.pendingDown - 1, noiseFresh := true, pingThread := false, outstanding := 0 }
    -- the control layer sits below the interface layer and sees the event first: its own reboot (flag cleared, passive off, connect)
    let rb := if s1.rebootFlag then createConnection { s1 with rebootFlag := false, passive := false } else (s1, [])
    let s2 := rb.1
    if s2.reconnectFlag then
      let r := createConnection { s2 with reconnectFlag := false }
      (r.1, .downAll :: (rb.2 ++ r.2))
    else (s2, .downAll :: rb.2)

/-- the stack's loop runs every queued callback -/
def drain (s : St) : Nat → St × List Out
  | 0 => (s, [])
  | n + 1 =>
    let r := loopOne s
    let rest := drain r.1 n
    (rest.1, r.2 ++ rest.2)

def step (s : St) : In → St × List Out
  | .connectReq => createConnection { s with }      -- interface.connect(): no guard
  | .connectEvt => if !s.connected then createConnection s else (s, [])
  | .dConnected d =>
    match s.disps[d]? with
    | none => (s, [])
    | some dp =>
      if !dp.open_ || dp.established then (s, [])
      else
        -- handle_connect → layer.onConnected: state, flag, announce; the interface clears its reconnect flag;
        -- the auth layer broadcasts the login attempt
        ({ s with disps := setDisp s.disps d { dp with established := true }, nstate := .connected, connected := true,
                  reconnectFlag := false, noiseFresh := false },
         [.up, .authAttempt s.passive])
  | .dClosed d => handleClose s d
  | .disconnectReq => disconnectEvent s
  | .success =>
    -- broadcast AUTHED (the iq layer starts the keep-alive thread) then the entity goes up
    ({ s with pingThread := if !s.pingThread && s.pingEnabled then true else s.pingThread,
              outstanding := if !s.pingThread && s.pingEnabled then 0 else s.outstanding }, [.authed])
  | .failure =>
    let r := disconnectEvent s
    (r.1, .entityFailure :: r.2)
  | .streamError k =>
    if k = .unknown && s.unknownErrRaises then (s, [.raisedNotImplemented])
    else
      -- interface.onStreamError: decide about reconnecting, hand the entity to the application, disconnect
      let s1 := { s with reconnectFlag := if s.reconnectOpt && k ≠ .conflict then true else s.reconnectFlag }
      let r := disconnectEvent s1
      (r.1, .entityStreamError k :: r.2)
  | .pingTick =>
    if !s.pingThread then (s, [])
    else
      let n := s.outstanding + 1
      if 2 ≤ n then
        -- waitPong: Ping Timeout → DISCONNECT broadcast (which stops the thread: the ping is not sent)
        let r := disconnectEvent { s with outstanding := n }
        (r.1, r.2)
      else
        -- the ping goes down to the network layer
        match s.cur, s.connected with
        | some d, true =>
          (match s.disps[d]? with
           | some dp => ({ s with outstanding := n }, if dp.established then [.pingSent, .written d] else [.pingSent, .dropped])
           | none => ({ s with outstanding := n }, [.pingSent, .dropped]))
        | _, _ => ({ s with outstanding := n }, [.pingSent, .dropped])
  | .pong fresh => if fresh then ({ s with outstanding := 0 }, []) else (s, [])
  -- `onPong`: `gotPong` (the keep-alive's bookkeeping) runs BEFORE the result is handed upward, so a raising callback cannot leave the ping recorded as unanswered
  | .pongRaises => ({ s with outstanding := 0 }, [.appRaised])
  | .setReconnect b => ({ s with reconnectOpt := b }, [])
  | .keysFlushed =>
    -- on_keys_flushed(reboot_connection=True): flag, then DISCONNECT broadcast DOWNWARD from the control layer (the network layer
    -- destroys the connection; the layers above hear of it only through the deferred 'disconnected')
    if s.control then destroyConnection { s with rebootFlag := true } else (s, [])
  | .loop => drain s s.pendingDown
  | .appSend =>
    match s.cur, s.connected with
    | some d, true =>
      (match s.disps[d]? with
       | some dp => (s, if dp.established then [.written d] else [.dropped])
       | none => (s, [.dropped]))
    | _, _ => (s, [.dropped])

def run : St → List In → St × List Out
  | s, [] => (s, [])
  | s, i :: is =>
    let r := step s i
    let rest := run r.1 is
    (rest.1, r.2 ++ rest.2)

/-- keep-alive rounds in which every ping is answered before the next one is due; `true` = the application's callback for that answer raises -/
def answeredRounds : List Bool → List In
  | [] => []
  | raises :: rs => .pingTick :: (if raises then .pongRaises else .pong true) :: answeredRounds rs

/-- The alphabet's restrictions: a disconnect request only while a connection is up or being established; a new
    connection is requested only while none is up or being established (what `connectEvt` guards and what the
    library's own reconnect does); dispatcher events refer to existing dispatchers. -/
def Allowed (s : St) : In → Bool
  | .disconnectReq => true
  | .connectReq => true
  | .connectEvt => true
  | .dConnected d => decide (d < s.disps.length)
  | .dClosed d => decide (d < s.disps.length)
  | .success => s.nstate == .connected
  | .failure => s.nstate == .connected
  | .streamError _ => s.nstate == .connected
  | .keysFlushed => s.nstate == .connected && s.control && !s.rebootFlag
  | _ => true

def AllowedRun : St → List In → Bool
  | _, [] => true
  | s, i :: is => Allowed s i && AllowedRun (step s i).1 is

end Yow.Life
