/-
  Model of the locking discipline on the data paths:
    yowsup/layers/__init__.py   YowLayer.toLower: lock.acquire(); lower.send(data); lock.release()
                                (threading.Lock: not re-entrant, no owner — acquiring a held lock blocks)
    yowsup/layers/noise/layer.py  YowNoiseLayer.receive / _flush_incoming_buffer:
                                queue.put(data); _flush_lock.acquire(); while queue.qsize(): toUpper(protocol.receive()); release()
  with failures (exceptions) injected at any layer in either direction.  `Cfg` says whether the two
  release sites are protected by try/finally; it is regenerated from the current source (Gen/LockCfg.lean).
  Layers are indexed bottom = 0 … top = n-1; the noise layer sits at index `p`.
-/
namespace Yow.Locks

structure Cfg where
  toLowerFinally : Bool   -- YowLayer.toLower releases its lock on the exception path too
  flushFinally : Bool     -- YowNoiseLayer._flush_incoming_buffer releases _flush_lock on the exception path too
deriving Repr, DecidableEq

structure St where
  held : List Bool        -- layer locks, index = layer
  flush : Bool            -- the noise layer's _flush_lock
  queue : List Nat        -- frames waiting in the noise layer's incoming queue
  delivered : List Nat    -- frames that reached the top of the stack
deriving Repr, DecidableEq

inductive Res
  | ok
  | raised     -- an exception reached the caller
  | blocked    -- the calling thread waits forever on a held lock
deriving Repr, DecidableEq

def isHeld (s : St) (i : Nat) : Bool := s.held.getD i false
def setHeld (s : St) (i : Nat) (b : Bool) : St := { s with held := s.held.set i b }

/-- `layer[i].send(data)` for a datum going down; `fail = some k` makes layer `k`'s `send` raise.
    Layer 0 is the bottom (its `send` has no lower layer to call). -/
def sendAt (cfg : Cfg) (fail : Option Nat) : Nat → St → St × Res
  | 0, s => if fail = some 0 then (s, .raised) else (s, .ok)
  | i + 1, s =>
    if fail = some (i + 1) then (s, .raised)
    else if isHeld s (i + 1) then (s, .blocked)
    else
      let r := sendAt cfg fail i (setHeld s (i + 1) true)
      match r.2 with
      | .ok => (setHeld r.1 (i + 1) false, .ok)
      | .raised => (if cfg.toLowerFinally then setHeld r.1 (i + 1) false else r.1, .raised)
      | .blocked => (r.1, .blocked)

/-- `layer[j].toLower(data)` called from inside layer `j` (e.g. an ack sent while receiving), j ≥ 1. -/
def toLowerAt (cfg : Cfg) (fail : Option Nat) (j : Nat) (s : St) : St × Res :=
  if isHeld s j then (s, .blocked)
  else
    let r := sendAt cfg fail (j - 1) (setHeld s j true)
    match r.2 with
    | .ok => (setHeld r.1 j false, .ok)
    | .raised => (if cfg.toLowerFinally then setHeld r.1 j false else r.1, .raised)
    | .blocked => (r.1, .blocked)

/-- What happens to one frame on its way up. -/
structure UpSpec where
  failAt : Option Nat      -- layer whose `receive` raises (undecodable frame, handler rejecting, callback raising)
  replyAt : Option Nat     -- layer that answers by sending a stanza downward (ack / receipt / pong)
  replyFail : Option Nat   -- failure site of that downward send, if any
deriving Repr, DecidableEq

/-- `layer[j].receive(frame)` and onward to the top (`n` layers); `k` = layers still above. -/
def recvAt (cfg : Cfg) (u : UpSpec) (frame : Nat) : Nat → Nat → St → St × Res
  | 0, _, s => ({ s with delivered := s.delivered ++ [frame] }, .ok)
  | k + 1, j, s =>
    if u.failAt = some j then (s, .raised)
    else
      let r := if u.replyAt = some j then toLowerAt cfg u.replyFail j s else (s, Res.ok)
      match r.2 with
      | .ok => recvAt cfg u frame k (j + 1) r.1
      | e => (r.1, e)

/-- the `while queue.qsize()` loop with `_flush_lock` held -/
def flushLoop (cfg : Cfg) (spec : Nat → UpSpec) (n p : Nat) : Nat → St → St × Res
  | 0, s => (s, .ok)
  | fuel + 1, s =>
    match s.queue with
    | [] => (s, .ok)
    | f :: rest =>
      let r := recvAt cfg (spec f) f (n - (p + 1)) (p + 1) { s with queue := rest }
      match r.2 with
      | .ok => flushLoop cfg spec n p fuel r.1
      | e => (r.1, e)

/-- `YowNoiseLayer.receive(frame)` in transport state. -/
def noiseReceive (cfg : Cfg) (spec : Nat → UpSpec) (n p frame : Nat) (s : St) : St × Res :=
  let s1 := { s with queue := s.queue ++ [frame] }
  if s1.flush then (s1, .blocked)
  else
    let r := flushLoop cfg spec n p s1.queue.length { s1 with flush := true }
    match r.2 with
    | .ok => ({ r.1 with flush := false }, .ok)
    | .raised => (if cfg.flushFinally then { r.1 with flush := false } else r.1, .raised)
    | .blocked => (r.1, .blocked)

inductive Op
  | send (fail : Option Nat)          -- application sends from the top
  | recv (frame : Nat)                -- a frame arrives at the noise layer
  | enq (frame : Nat)                 -- a frame arrives while the handshake is still running: it is only queued
                                      -- (delivered by the flush at the next receive / at the switch to transport)
deriving Repr, DecidableEq

def step (cfg : Cfg) (spec : Nat → UpSpec) (n p : Nat) (s : St) : Op → St × Res
  | .send fail => sendAt cfg fail (n - 1) s
  | .recv frame => noiseReceive cfg spec n p frame s
  | .enq frame => ({ s with queue := s.queue ++ [frame] }, .ok)

/-- run a sequence of operations (each issued after the previous one returned or raised — by any
    thread: the locks have no owner); collects the results -/
def run (cfg : Cfg) (spec : Nat → UpSpec) (n p : Nat) : St → List Op → St × List Res
  | s, [] => (s, [])
  | s, op :: ops =>
    let r := step cfg spec n p s op
    let rest := run cfg spec n p r.1 ops
    (rest.1, r.2 :: rest.2)

def init (n : Nat) : St := { held := List.replicate n false, flush := false, queue := [], delivered := [] }

def AllFree (s : St) : Prop := (∀ b ∈ s.held, b = false) ∧ s.flush = false

instance (s : St) : Decidable (AllFree s) := by unfold AllFree; infer_instance

end Yow.Locks
