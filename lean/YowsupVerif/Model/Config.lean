/-
  Model of the account-configuration (de)serialisation and saving:
    yowsup/config/transforms/dict_keyval.py   DictKeyValTransform.transform / reverse
    yowsup/config/v1/serialize.py + transforms  the transform pipeline (filter None, strip '_',
                                               base64 for the five binary fields, __version__)
    yowsup/config/manager.py                    guess_type (extension, else trial parse), save
    yowsup/common/tools.py                      StorageTools.writeProfileData
  Strings are lists of code points.  base64 and JSON are parameters (modelled, not verified).
-/
namespace Yow.Config

abbrev Str := List Nat

/-! ### key=value format -/

/-- Python's `str.isspace()` on one code point (what `strip()` removes) -/
def isSpace (c : Nat) : Bool :=
  (9 ≤ c && c ≤ 13) || (28 ≤ c && c ≤ 32) || c == 133 || c == 160 || c == 5760 ||
  (8192 ≤ c && c ≤ 8202) || c == 8232 || c == 8233 || c == 8239 || c == 8287 || c == 12288

def stripLeft : Str → Str
  | [] => []
  | c :: cs => if isSpace c then stripLeft cs else c :: cs

/-- `s.strip()` -/
def strip (s : Str) : Str := (stripLeft (stripLeft s).reverse).reverse

/-- `s.split(sep, 1)[0]`: everything before the first `sep` (the whole string if absent) -/
def before (sep : Nat) : Str → Str
  | [] => []
  | c :: cs => if c = sep then [] else c :: before sep cs

/-- `s.split(sep, 1)[1]` if the separator occurs -/
def after (sep : Nat) : Str → Option Str
  | [] => none
  | c :: cs => if c = sep then some cs else after sep cs

/-- `data.split('\n')` -/
def splitLines : Str → List Str
  | [] => [[]]
  | c :: cs =>
    match splitLines cs with
    | [] => [[]]              -- unreachable
    | l :: ls => if c = 10 then [] :: l :: ls else (c :: l) :: ls

/-- `"\n".join(lines)` -/
def joinLines : List Str → Str
  | [] => []
  | [l] => l
  | l :: ls => l ++ 10 :: joinLines ls

/-- `DictKeyValTransform.transform` on a dict whose items are given sorted by key -/
def render (kvs : List (Str × Str)) : Str := joinLines (kvs.map fun kv => kv.1 ++ 61 :: kv.2)

/-- `out[k] = v` on an insertion-ordered dict -/
def dictSet (d : List (Str × Str)) (k v : Str) : List (Str × Str) :=
  if d.any (fun p => p.1 = k) then d.map (fun p => if p.1 = k then (k, v) else p) else d ++ [(k, v)]

/-- one line of `reverse`: `none` = skipped; `some none` = raises IndexError (no '=') -/
def parseLine (l : Str) : Option (Option (Str × Str)) :=
  let line := strip l
  match line with
  | [] => none
  | c :: _ =>
    if c = 35 ∨ c = 59 then none
    else
      let cut := before 59 (before 35 line)
      match after 61 cut with
      | none => some none
      | some v => some (some ((strip (before 61 cut)).map (fun ch => if ch = 45 then 95 else ch), strip v))

/-- `DictKeyValTransform.reverse`; `none` = raises -/
def parseLines : List Str → List (Str × Str) → Option (List (Str × Str))
  | [], acc => some acc
  | l :: ls, acc =>
    match parseLine l with
    | none => parseLines ls acc
    | some none => none
    | some (some (k, v)) => parseLines ls (dictSet acc k v)

def parse (data : Str) : Option (List (Str × Str)) := parseLines (splitLines data) []

/-- the format restriction on keys: non-empty, no '=', '#', ';', '-', line break, no blanks at all -/
def KeyOK (k : Str) : Prop := k ≠ [] ∧ ∀ c ∈ k, c ≠ 61 ∧ c ≠ 35 ∧ c ≠ 59 ∧ c ≠ 45 ∧ c ≠ 10 ∧ isSpace c = false

/-- … and on values: no comment characters, no line break, no leading or trailing blank -/
def ValOK (v : Str) : Prop :=
  (∀ c ∈ v, c ≠ 35 ∧ c ≠ 59 ∧ c ≠ 10) ∧ (∀ c, v.head? = some c → isSpace c = false) ∧
  (∀ c, v.getLast? = some c → isSpace c = false)

def DictOK (kvs : List (Str × Str)) : Prop :=
  (∀ kv ∈ kvs, KeyOK kv.1 ∧ ValOK kv.2) ∧ (kvs.map Prod.fst).Nodup

/-! ### the file in between: Python's text mode

The configuration is written with `open(path, "w")` and read back with `open(path).read()`: on reading, text mode translates every
`\r\n` and every lone `\r` to `\n` (universal newlines).  A carriage return is therefore a line break of this file format exactly like
`\n`, and — like `\n` — cannot be part of a key or a value. -/

/-- `open(path).read()` after `open(path, "w").write(data)` on a platform whose line separator is `\n` -/
def readText : Str → Str
  | [] => []
  | 13 :: 10 :: cs => 10 :: readText cs
  | 13 :: cs => 10 :: readText cs
  | c :: cs => c :: readText cs

/-- no carriage return anywhere in the dictionary -/
def NoCR (kvs : List (Str × Str)) : Prop := ∀ kv ∈ kvs, (∀ c ∈ kv.1, c ≠ 13) ∧ (∀ c ∈ kv.2, c ≠ 13)

/-! ### transform pipeline -/

inductive Val
  | str (s : Str)
  | int (n : Nat)
  | bin (b : List Nat)        -- bytes / key material
deriving Repr, DecidableEq

/-- field names are fixed identifiers; `binary` = the five base64-transformed ones -/
structure Field where
  name : Str                  -- attribute name without the leading underscore
  binary : Bool
deriving Repr, DecidableEq

/-- serialised value: what goes into the dict handed to the JSON / key=value writer -/
inductive SVal
  | str (s : Str)
  | int (n : Nat)
deriving Repr, DecidableEq

structure B64 where
  enc : List Nat → Str
  dec : Str → List Nat

/-- `ConfigSerialize.serialize`: drop unset fields, base64 the binary ones, add `__version__` last
    (vars(config) order: `_version` first; its transformed key is re-inserted where it was — the
    dict order is irrelevant for both writers, which sort keys). -/
def serialize (b : B64) (version : Nat) (fields : List (Field × Option Val)) : List (Str × SVal) :=
  ([95, 95, 118, 101, 114, 115, 105, 111, 110, 95, 95], SVal.int version) ::
  fields.filterMap fun fv =>
    match fv.2 with
    | none => none
    | some (.str s) => some (fv.1.name, SVal.str s)
    | some (.int n) => some (fv.1.name, SVal.int n)
    | some (.bin x) => some (fv.1.name, SVal.str (b.enc x))

/-- `ConfigSerialize.deserialize` for the known fields: look each field up by name -/
def deserialize (b : B64) (fields : List Field) (d : List (Str × SVal)) : List (Field × Option Val) :=
  fields.map fun f =>
    match (d.find? (fun kv => kv.1 = f.name)).map Prod.snd with
    | none => (f, none)
    | some (.str s) => (f, some (if f.binary then .bin (b.dec s) else .str s))
    | some (.int n) => (f, some (.int n))

/-! ### saving: file operations (regenerated trace) -/

inductive FileOp
  | mkdirs                    -- os.makedirs of the profile directory
  | openTrunc (p : Nat)       -- open(p, 'w' / 'wb'): the file exists and is empty from now on
  | write (p : Nat)           -- the whole new content is written to p (may be torn by a crash)
  | sync (p : Nat)            -- flush / fsync
  | close (p : Nat)
  | replace (src dst : Nat)   -- os.replace / os.rename: atomic
deriving Repr, DecidableEq

/-- file system with buffered writers: path id ↦ content (`none` = absent; path 0 is the profile's config
    file), the data a handle has buffered but not yet flushed, and the path the handle's file currently
    has (an open handle follows its file when the file is renamed).  A crash loses the buffers. -/
structure FS where
  files : Nat → Option Str
  buf : Nat → Str
  target : Nat → Nat

def fsSet (f : Nat → Option Str) (p : Nat) (v : Option Str) : Nat → Option Str := fun q => if q = p then v else f q

/-- flush handle `p`: its buffered data (or, for a torn flush, only `part` of it) reaches its file -/
def flush (fs : FS) (p : Nat) (data : Str) : FS :=
  { fs with files := fsSet fs.files (fs.target p) (some (((fs.files (fs.target p)).getD []) ++ data)),
            buf := fun q => if q = p then [] else fs.buf q }

def applyOp (new : Str) (fs : FS) : FileOp → FS
  | .mkdirs => fs
  | .openTrunc p => { files := fsSet fs.files p (some []), buf := fun q => if q = p then [] else fs.buf q,
                      target := fun q => if q = p then p else fs.target q }
  | .write p => { fs with buf := fun q => if q = p then fs.buf p ++ new else fs.buf q }
  | .sync p => flush fs p (fs.buf p)
  | .close p => flush fs p (fs.buf p)
  | .replace s d => { fs with files := fsSet (fsSet fs.files d (fs.files s)) s none,
                              target := fun q => if fs.target q = s then d else fs.target q }

def applyOps (new : Str) : FS → List FileOp → FS
  | fs, [] => fs
  | fs, op :: ops => applyOps new (applyOp new fs op) ops

/-- a crash in the middle of an operation: a flush (sync / close) may have written only a prefix `part`
    of the buffered data; every other operation either happened or did not -/
def applyTorn (new part : Str) (fs : FS) : FileOp → FS
  | .sync p => flush fs p part
  | .close p => flush fs p part
  | op => applyOp new fs op

/-- the save writes a temporary file completely and then atomically moves it over the config file -/
def AtomicSave : List FileOp → Bool
  | .mkdirs :: rest => AtomicSave rest
  | [.openTrunc t, .write t', .close t'', .replace s d] => t != 0 && t == t' && t == t'' && s == t && d == 0
  | [.openTrunc t, .write t', .sync t3, .close t'', .replace s d] =>
      t != 0 && t == t' && t == t'' && t == t3 && s == t && d == 0
  | _ => false

end Yow.Config
