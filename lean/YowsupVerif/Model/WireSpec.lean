/-
  The WhatsApp binary-XML frame format as an inductive *relation* between trees and byte strings,
  written from the format description (not from yowsup's encoder): every constructor is one
  permitted choice of the peer (8/16-bit list header, 8/20/31-bit length, token vs literal,
  packed vs raw digits, JID with or without user part, string-valued node content).
  Also the well-formedness predicates under which the library's encoder output is in the relation.
-/
import YowsupVerif.Model.Coder
namespace Yow.Coder

/-- list header announcing `k` items: first byte, following bytes -/
inductive EncList : Nat → Nat → Bytes → Prop
  | zero : EncList 0 0 []
  | short (k : Nat) : k < 256 → EncList k 248 [k]
  | long (k : Nat) : k < 65536 → EncList k 249 [k / 256, k % 256]

/-- A string `s` written as control/token byte `t` followed by `bt`. -/
inductive EncStr (d : Dict) : Str → Nat → Bytes → Prop
  | tok (i : Nat) (s : Str) : 2 < i → i < 236 → d.primary[i]? = some s → s ≠ [] → EncStr d s i []
  | tok2 (j : Nat) (s : Str) : j < 1024 → d.secondary[j]? = some s → s ≠ [] →
      EncStr d s (236 + j / 256) [j % 256]
  | raw8 (s : Str) : s.length < 256 → EncStr d s 252 (s.length :: s)
  | raw20 (s : Str) : s.length < 1048576 →
      EncStr d s 253 (s.length / 65536 :: s.length / 256 % 256 :: s.length % 256 :: s)
  | raw31 (s : Str) : s.length < 2147483648 →
      EncStr d s 254 (s.length / 16777216 :: s.length / 65536 % 256 :: s.length / 256 % 256 :: s.length % 256 :: s)
  | nib (s : Str) (ns : List Nat) : s ≠ [] → packAll 255 s = some ns → (s.length + 1) / 2 < 128 →
      EncStr d s 255 ((s.length % 2 * 128 + (s.length + 1) / 2) :: packPairs ns)
  | hex (s : Str) (ns : List Nat) : s ≠ [] → packAll 251 s = some ns → (s.length + 1) / 2 < 128 →
      EncStr d s 251 ((s.length % 2 * 128 + (s.length + 1) / 2) :: packPairs ns)
  | jid (u sv : Str) (t1 : Nat) (b1 : Bytes) (t2 : Nat) (b2 : Bytes) :
      EncStr d u t1 b1 → EncStr d sv t2 b2 → EncStr d (u ++ 64 :: sv) 250 (t1 :: (b1 ++ t2 :: b2))
  | jid0 (sv : Str) (t2 : Nat) (b2 : Bytes) : EncStr d sv t2 b2 → EncStr d sv 250 (0 :: t2 :: b2)

inductive EncAttrs (d : Dict) : List (Str × Str) → Bytes → Prop
  | nil : EncAttrs d [] []
  | cons (k v : Str) (r : List (Str × Str)) (t1 : Nat) (b1 : Bytes) (t2 : Nat) (b2 br : Bytes) :
      EncStr d k t1 b1 → EncStr d v t2 b2 → EncAttrs d r br →
      EncAttrs d ((k, v) :: r) (t1 :: (b1 ++ t2 :: (b2 ++ br)))

def keysNodup (attrs : List (Str × Str)) : Prop := (attrs.map Prod.fst).Nodup

mutual
/-- `Enc d n bs`: `bs` is a valid encoding of the tree `n` (without the frame's flag byte). -/
inductive Enc (d : Dict) : Node → Bytes → Prop
  | leaf (tag : Str) (attrs : List (Str × Str)) (h : Nat) (bh : Bytes) (t : Nat) (bt ba : Bytes) :
      EncList (1 + attrs.length * 2) h bh → h ≠ 0 → EncStr d tag t bt → EncAttrs d attrs ba → keysNodup attrs →
      Enc d (.mk tag attrs none []) (h :: (bh ++ t :: (bt ++ ba)))
  | content (tag : Str) (attrs : List (Str × Str)) (data : Bytes) (h : Nat) (bh : Bytes) (t : Nat) (bt ba : Bytes)
      (c : Nat) (bc : Bytes) :
      EncList (2 + attrs.length * 2) h bh → h ≠ 0 → EncStr d tag t bt → EncAttrs d attrs ba → keysNodup attrs →
      EncStr d data c bc →
      Enc d (.mk tag attrs (some data) []) (h :: (bh ++ t :: (bt ++ (ba ++ c :: bc))))
  | kids (tag : Str) (attrs : List (Str × Str)) (ks : List Node) (h : Nat) (bh : Bytes) (t : Nat) (bt ba : Bytes)
      (hk : Nat) (bhk bk : Bytes) :
      EncList (2 + attrs.length * 2) h bh → h ≠ 0 → EncStr d tag t bt → EncAttrs d attrs ba → keysNodup attrs →
      ks ≠ [] → EncList ks.length hk bhk → EncNodes d ks bk →
      Enc d (.mk tag attrs none ks) (h :: (bh ++ t :: (bt ++ (ba ++ hk :: (bhk ++ bk)))))
inductive EncNodes (d : Dict) : List Node → Bytes → Prop
  | nil : EncNodes d [] []
  | cons (n : Node) (ns : List Node) (b bs : Bytes) : Enc d n b → EncNodes d ns bs → EncNodes d (n :: ns) (b ++ bs)
end

/-- A frame: flag byte 0 then the tree, or flag byte with bit 1 set then the deflated tree. -/
inductive EncFrame (d : Dict) (deflate : Bytes → Bytes) : Node → Bytes → Prop
  | plain (n : Node) (bs : Bytes) (flags : Nat) : Enc d n bs → flags % 4 = 0 → EncFrame d deflate n (flags :: bs)
  | deflated (n : Node) (bs : Bytes) (flags : Nat) : Enc d n bs → flags / 2 % 2 = 1 →
      EncFrame d deflate n (flags :: deflate bs)

/-! ### Well-formedness: the trees the property quantifies over -/

/-- Sizes of the dictionary the format can address. -/
def Dict.WF (d : Dict) : Prop := d.primary.length ≤ 236 ∧ d.secondary.length ≤ 1024

/-- `StrOK d s`: the encoder's way of writing `s` — as a dictionary token, as a raw / packed string, or in JID form with its
    user and server parts written recursively — stays within the format: every raw part is shorter than 2^31 and a
    dictionary token is only used for a non-empty string (the WhatsApp dictionary has the empty string at the marker
    index 0 only).  Since the encoder no longer uses the marker entries 0..2 as string tokens, the reserved words and the
    empty string are ordinary strings here. -/
inductive StrOK (d : Dict) : Str → Prop
  | token (s : Str) (i : Nat) (sec : Bool) : s ≠ [] → d.lookup s = some (i, sec) → StrOK d s
  | plain (s : Str) : d.lookup s = none → atIndex s = none → s.length < 2147483648 → StrOK d s
  | atFirst (s : Str) : d.lookup s = none → atIndex s = some 0 → s.length < 2147483648 → StrOK d s
  | jid (s : Str) (a : Nat) : d.lookup s = none → atIndex s = some a → 1 ≤ a →
      StrOK d (s.take a) → StrOK d (s.drop (a + 1)) → StrOK d s

def AttrsOK (d : Dict) (attrs : List (Str × Str)) : Prop :=
  (∀ kv ∈ attrs, StrOK d kv.1 ∧ StrOK d kv.2) ∧ keysNodup attrs

mutual
/-- Well-formed tree: usable strings, distinct attribute keys, binary content or children or neither,
    sizes that fit the format's list headers and 31-bit lengths. -/
inductive WFNode (d : Dict) : Node → Prop
  | mk (tag : Str) (attrs : List (Str × Str)) (data : Option Bytes) (ks : List Node) :
      StrOK d tag → AttrsOK d attrs →
      (∀ b, data = some b → ks = [] ∧ b.length < 2147483648) →
      2 + attrs.length * 2 < 65536 → ks.length < 65536 →
      WFNodes d ks → WFNode d (.mk tag attrs data ks)
inductive WFNodes (d : Dict) : List Node → Prop
  | nil : WFNodes d []
  | cons (n : Node) (ns : List Node) : WFNode d n → WFNodes d ns → WFNodes d (n :: ns)
end

end Yow.Coder
