/-
  Model of the payload converter:
    yowsup/layers/protocol_messages/protocolentities/attributes/converter.py   *_to_proto / proto_to_*
    yowsup/layers/protocol_messages/protocolentities/attributes/*.py           attribute classes (constructor parameters = fields)
    yowsup/layers/protocol_messages/proto/e2e_pb2.py                           proto2 messages: optional fields with presence
  An attribute object is a tree of field values; a schema says, per field (in constructor order, the embedded
  downloadable-media attributes flattened), what kind it is, which proto field it is written to and read from, and
  under which presence rule.  The schemas are regenerated from the current source by running the converter
  (Gen/PayloadSchema.lean).  Scalar values are abstract naturals, 0 standing for the type's falsy value ("" / 0 / b"" /
  False) — the only distinction the converter's presence tests can make.
-/
namespace Yow.Payload

/-- when the forward converter writes a field -/
inductive FRule
  | always     -- assigned unconditionally: None raises
  | notNone    -- `if x is not None`
  | truthy     -- `if x`
  | never      -- not converted at all (or overwritten by another field)
deriving Repr, DecidableEq

/-- when the backward converter reads a field -/
inductive BRule
  | hasField   -- `proto.x if proto.HasField("x") else None`
  | always     -- `proto.x` (the default when absent)
  | truthy     -- `proto.x if proto.x else None`
  | never      -- never read: the attribute comes back unset
deriving Repr, DecidableEq

inductive FKind
  | scalar
  | list                 -- repeated scalar; the attribute class normalises None to []
  | sub (sid : Nat)      -- nested attribute object of schema `sid`
deriving Repr, DecidableEq

structure Field where
  kind : FKind
  fwd : FRule
  bwd : BRule
  target : Nat           -- proto field number written
  source : Nat           -- proto field number read
  raises : Bool          -- setting this field makes the conversion raise
deriving Repr, DecidableEq

abbrev Schema := List Field
abbrev Table := List Schema

mutual
  /-- attribute side -/
  inductive Val
    | none
    | scalar (n : Nat)
    | list (xs : List Nat)
    | obj (fields : Vals)
  inductive Vals
    | nil
    | cons (v : Val) (vs : Vals)
end

mutual
  /-- proto side: the fields present, by number -/
  inductive PVal
    | scalar (n : Nat)
    | list (xs : List Nat)
    | msg (fields : PFields)
  inductive PFields
    | nil
    | cons (k : Nat) (v : PVal) (rest : PFields)
end

def plookup : PFields → Nat → Option PVal
  | .nil, _ => none
  | .cons k v rest, j => if k = j then some v else plookup rest j

def premove : PFields → Nat → PFields
  | .nil, _ => .nil
  | .cons k v rest, j => if k = j then premove rest j else .cons k v (premove rest j)

def pappend : PFields → Nat → PVal → PFields
  | .nil, j, w => .cons j w .nil
  | .cons k v rest, j, w => .cons k v (pappend rest j w)

/-- writing a field: a later write to the same number replaces the earlier one -/
def pset (p : PFields) (k : Nat) (v : PVal) : PFields := pappend (premove p k) k v

mutual
  /-- `x_to_proto(obj)`; `none` = the conversion raised -/
  def encodeObj (tbl : Table) (sid : Nat) : Val → Option PFields
    | .obj fields => encodeFields tbl (tbl.getD sid []) fields .nil
    | _ => Option.none
  def encodeFields (tbl : Table) : Schema → Vals → PFields → Option PFields
    | [], .nil, acc => some acc
    | f :: fs, .cons v vs, acc =>
      match v with
      | .none => if f.fwd = .always then Option.none else encodeFields tbl fs vs acc
      | .scalar n =>
        if f.raises then Option.none
        else if f.fwd = .never || (f.fwd = .truthy && n = 0) then encodeFields tbl fs vs acc
        else encodeFields tbl fs vs (pset acc f.target (.scalar n))
      | .list xs =>
        if f.raises then Option.none
        else if f.fwd = .never || xs.isEmpty then encodeFields tbl fs vs acc
        else encodeFields tbl fs vs (pset acc f.target (.list xs))
      | .obj sub =>
        if f.raises then Option.none
        else if f.fwd = .never then encodeFields tbl fs vs acc
        else
          match f.kind with
          | .sub sid =>
            (match encodeObj tbl sid (.obj sub) with
             | Option.none => Option.none
             | some p => encodeFields tbl fs vs (pset acc f.target (.msg p)))
          | _ => Option.none
    | _, _, _ => Option.none
end

/-- the value an absent field reads as under `BRule.always` -/
def defaultOf (k : FKind) : Val :=
  match k with
  | .scalar => .scalar 0
  | .list => .list []
  | .sub _ => .obj .nil       -- an all-default sub-object (its fields are not modelled further)

mutual
  /-- what field `f` reads out of the proto value stored under its source number -/
  def decodeVal (tbl : Table) (f : Field) : PVal → Val
    | .scalar n => if f.bwd = .truthy && n = 0 then .none else .scalar n
    | .list xs => .list xs
    | .msg q =>
      match f.kind with
      | .sub sid => .obj (decodeSchema tbl (tbl.getD sid []) q)
      | _ => .none
  /-- `proto_to_x(proto)`: one attribute per schema field -/
  def decodeSchema (tbl : Table) : Schema → PFields → Vals
    | [], _ => .nil
    | f :: fs, q => .cons (decodeField tbl f q) (decodeSchema tbl fs q)
  /-- look the source number up in (the rest of) the proto's fields -/
  def decodeField (tbl : Table) (f : Field) : PFields → Val
    | .nil =>
      if f.bwd = .never then .none
      else if f.kind = .list then .list []          -- `proto.x if len(proto.x) else []`
      else if f.bwd = .always then defaultOf f.kind else .none
    | .cons k v rest =>
      if f.bwd = .never then .none
      else if k = f.source then decodeVal tbl f v
      else decodeField tbl f rest
end

def decodeObj (tbl : Table) (sid : Nat) (p : PFields) : Val := .obj (decodeSchema tbl (tbl.getD sid []) p)


-- ------------------------------------------------------------------------------------------------ well-formedness
def fieldGood (f : Field) : Bool :=
  !f.raises && f.target == f.source && f.target != 0 &&
  ((f.fwd == .always && f.bwd == .always) || (f.fwd == .notNone && f.bwd == .hasField))

def kindOK (n : Nat) (f : Field) : Bool :=
  match f.kind with
  | .sub sid => decide (sid < n)
  | _ => true

def schemaGood (n : Nat) (sch : Schema) : Bool :=
  sch.all (fun f => fieldGood f && kindOK n f) && decide ((sch.map (·.target)).Nodup)

/-- every schema outside `bad` is good -/
def tableGood (tbl : Table) (bad : List Nat) : Bool :=
  (List.range tbl.length).all (fun sid => bad.contains sid || schemaGood tbl.length (tbl.getD sid []))

mutual
  /-- a value the application can compose for schema `sid`: the right number of fields, each of its kind, required
      fields set, nested objects of good schemas only -/
  def wtObj (tbl : Table) (bad : List Nat) (sid : Nat) : Val → Bool
    | .obj fields => !bad.contains sid && decide (sid < tbl.length) && wtFields tbl bad (tbl.getD sid []) fields
    | _ => false
  def wtFields (tbl : Table) (bad : List Nat) : Schema → Vals → Bool
    | [], .nil => true
    | f :: fs, .cons v vs =>
      (match v, f.kind with
       | .none, .scalar => f.fwd != .always
       | .none, .sub _ => f.fwd != .always
       | .scalar _, .scalar => true
       | .list _, .list => true
       | .obj sub, .sub sid => wtObj tbl bad sid (.obj sub)
       | _, _ => false) && wtFields tbl bad fs vs
    | _, _ => false
end

def requiredPresent (sch : Schema) (q : PFields) : Bool :=
  sch.all (fun f => f.fwd != .always || (plookup q f.source).isSome)

mutual
  /-- a payload a peer can send for schema `sid`, as far as the library models it: only modelled fields, each of its kind,
      no number twice, required fields present, repeated fields non-empty when present -/
  def pwtVal (tbl : Table) (bad : List Nat) (f : Field) : PVal → Bool
    | .scalar _ => f.kind == .scalar
    | .list xs => f.kind == .list && !xs.isEmpty
    | .msg q =>
      match f.kind with
      | .sub sid => !bad.contains sid && decide (sid < tbl.length) && pwtFields tbl bad (tbl.getD sid []) q && requiredPresent (tbl.getD sid []) q
      | _ => false
  def pwtFields (tbl : Table) (bad : List Nat) (sch : Schema) : PFields → Bool
    | .nil => true
    | .cons k v rest =>
      (match sch.find? (fun f => f.source == k) with
       | some f => pwtVal tbl bad f v
       | none => false) && (plookup rest k).isNone && pwtFields tbl bad sch rest
end

def pwtObj (tbl : Table) (bad : List Nat) (sid : Nat) (p : PFields) : Bool :=
  !bad.contains sid && decide (sid < tbl.length) && pwtFields tbl bad (tbl.getD sid []) p && requiredPresent (tbl.getD sid []) p

end Yow.Payload
