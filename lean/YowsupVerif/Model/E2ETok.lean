/-
  Executable invariants behind token conservation in the E2E system model (fault-free runs).  They are evaluated by
  the driver after every step of the correspondence runs (so a false candidate shows up before anyone tries to prove
  it) and are proved inductive in Lemmas/E2ETokens.lean.
-/
import YowsupVerif.Model.E2EInv
namespace Yow.E2E

def ctsOf : Stanza → List (Option Acct × Ct)
  | .msg _ _ _ _ encs _ => encs
  | _ => []

def isMsg : Stanza → Bool
  | .msg .. => true
  | _ => false

/-- the ciphertexts of a stanza in `inbound a` that recipient `r` will get -/
def ctsFor (r : Acct) : Stanza → List Ct
  | .msg _ (.user b) _ _ encs _ => if b = r then (encs.filter (fun e => e.1.isNone)).map Prod.snd else []
  | .msg _ (.group _) (some p) _ encs _ => if p = r then (encs.filter (fun e => e.1.isNone)).map Prod.snd else []
  | .msg _ (.group _) none _ encs _ => (encs.filter (fun e => e.1 == some r || e.1.isNone)).map Prod.snd
  | _ => []

def parkedAt (s : Sys) (r : Acct) : List Stanza := (getClient s r).pendingIn.flatMap (fun e => e.2)

def accounts (s : Sys) : List Acct := s.clients.map Prod.fst

/-- every ciphertext that is on its way to `r` (server queue for `r`, parked at `r`, or still in a sender's connection) -/
def ctsTo (s : Sys) (r : Acct) : List Ct :=
  (queueOf s.outbound r ++ parkedAt s r).flatMap (fun st => (ctsOf st).map Prod.snd)
  ++ (accounts s).flatMap (fun a => if a = r then [] else (queueOf s.inbound a).flatMap (fun st =>
        if isMsg st && (match st with
          | .msg _ (.group g) none _ _ _ => (members s g).contains r
          | _ => true) then ctsFor r st else []))

def allStanzas (s : Sys) : List Stanza :=
  (accounts s).flatMap (fun a => queueOf s.inbound a ++ queueOf s.outbound a ++ parkedAt s a)

def allCts (s : Sys) : List Ct := (allStanzas s).flatMap (fun st => (ctsOf st).map Prod.snd)

/-- P1: nothing is damaged (fault-free runs) -/
def noCorrupt (s : Sys) : Bool := (allCts s).all (fun ct => !ct.corrupt)

/-- P3: every nonce in the system was handed out already -/
def noncesBelow (s : Sys) : Bool :=
  (allCts s).all (fun ct => ct.ctr < s.nextCtr) &&
  s.clients.all (fun p => p.2.seen.all (fun e => e.2 < s.nextCtr) && p.2.seenSK.all (fun e => e.2 < s.nextCtr))

/-- P4: what is on its way to `r` has not been opened by `r`, and no two of them are the same ciphertext -/
def unopened (s : Sys) : Bool :=
  (accounts s).all (fun r =>
    let ns := (ctsTo s r).map (·.ctr)
    let c := getClient s r
    decide ns.Nodup && ns.all (fun n => !(c.seen.map Prod.snd).contains n && !(c.seenSK.map Prod.snd).contains n))

def firstPk (cts : List Ct) : Option Ct :=
  match cts.find? (fun c => c.kind == .pkmsg) with
  | some c => some c
  | none => cts.find? (fun c => c.kind == .msg)

def firstSk (cts : List Ct) : Option Ct := cts.find? (fun c => c.kind == .skmsg)

/-- P2 (recipient's view): exactly one of the two ciphertexts a recipient opens carries the content -/
def shapeDown (isGroup : Bool) (cts : List Ct) : Bool :=
  match firstSk cts, firstPk cts with
  | none, some c => c.plain.content.isSome
  | some k, none => isGroup && k.plain.content.isSome
  | some k, some c => isGroup && k.plain.content.isSome && c.plain.content.isNone
  | none, none => false

def isGroupDest : Dest → Bool
  | .group _ => true
  | .user _ => false

def shapes (s : Sys) : Bool :=
  (accounts s).all (fun r =>
    (queueOf s.outbound r ++ parkedAt s r).all (fun st =>
      match st with
      | .msg _ peer _ _ encs _ => shapeDown (isGroupDest peer) (encs.map Prod.snd) && encs.all (fun e => e.1.isNone)
      | _ => true) &&
    (queueOf s.inbound r).all (fun st =>
      match st with
      | .msg _ (.user _) part _ encs _ => part.isNone && shapeDown false (encs.map Prod.snd) && encs.all (fun e => e.1.isNone)
      | .msg _ (.group _) (some _) _ encs _ => shapeDown true (encs.map Prod.snd) && encs.all (fun e => e.1.isNone)
      | .msg _ (.group g) none _ encs _ =>
        ((members s g).filter (· != r)).all (fun m => shapeDown true ((encs.filter (fun e => e.1 == some m || e.1.isNone)).map Prod.snd))
      | _ => true))

/-- the tokens of (id, r) that are not a continuation at the sender -/
def inTransit (s : Sys) (a : Acct) (id : Nat) (r : Acct) : Nat :=
  let cr := getClient s r
  sumMap (upTok id r) (queueOf s.inbound a)
  + sumMap (downTok id) (queueOf s.outbound r)
  + sumMap (fun e => sumMap (downTok id) e.2) cr.pendingIn
  + sumMap (retryUpTok id) (queueOf s.inbound r)
  + sumMap (retryDownTok id r) (queueOf s.outbound a)

/-- P6: as long as a message can still be asked for again, its sender keeps it -/
def keptForRetry (s : Sys) : Bool :=
  s.submitted.all (fun p => (intended s p.1 p.2).all (fun r =>
    inTransit s p.1 p.2.id r == 0 || (getClient s p.1).sentQueue.contains p.2))

def deliveryReceiptFrom (id : Nat) : Stanza → Bool
  | .receipt id' _ _ .delivery => id' == id
  | _ => false

/-- P7: a delivery receipt on its way means the message was shown -/
def receiptsHonest (s : Sys) : Bool :=
  (accounts s).all (fun r =>
    (queueOf s.inbound r).all (fun st =>
      match st with
      | .receipt id _ _ .delivery => decide (shownCount s r id ≥ 1)
      | _ => true)) &&
  (accounts s).all (fun a =>
    (queueOf s.outbound a).all (fun st =>
      match st with
      | .receipt id (.user r) none .delivery => decide (shownCount s r id ≥ 1)
      | .receipt id (.group _) (some r) .delivery => decide (shownCount s r id ≥ 1)
      | _ => true))

/-- P10/P12: retries carry a positive counter; a group message that is past its first send has a sender key behind it -/
def retriesSane (s : Sys) : Bool :=
  (allStanzas s).all (fun st =>
    match st with
    | .receipt _ _ _ (.retry c) => decide (c ≥ 1)
    | _ => true) &&
  s.clients.all (fun p => p.2.iqReg.all (fun e =>
    match e.2 with
    | .keysForRetry _ _ c => decide (c ≥ 1)
    | _ => true)) &&
  s.submitted.all (fun p =>
    match p.2.dest with
    | .user _ => true
    | .group g =>
      (lookup (getClient s p.1).ownSK g).isSome ||
      (getClient s p.1).iqReg.any (fun e =>
        match e.2 with
        | .groupInfo n => n.id == p.2.id
        | .keysForGroup n _ _ => n.id == p.2.id
        | _ => false))

/-- sentQueue holds each node at most once and fewer than 100 -/
def queueSane (s : Sys) : Bool :=
  s.clients.all (fun p => decide ((p.2.sentQueue.map (·.id)).Nodup) && decide (p.2.sentQueue.length ≤ s.submitted.length))

/-- delivery receipts of recipient `r` for message `id` of sender `a`: on their way, or already handed to `a`'s application -/
def receiptTokens (s : Sys) (a : Acct) (id : Nat) (r : Acct) : Nat :=
  sumMap (fun st => if deliveryReceiptFrom id st then 1 else 0) (queueOf s.inbound r)
  + sumMap (fun st => match st with
      | .receipt id' (.user r') none .delivery => if id' = id ∧ r' = r then 1 else 0
      | .receipt id' (.group _) (some r') .delivery => if id' = id ∧ r' = r then 1 else 0
      | _ => 0) (queueOf s.outbound a)
  + ((getClient s a).receipts.filter (fun e =>
      e.1 == id && e.2.2.2 == RType.delivery && (e.2.2.1 == some r || (e.2.2.1.isNone && e.2.1 == Dest.user r)))).length

/-- every showing is acknowledged to the sender's application: as many delivery receipts as showings -/
def receiptsConserved (s : Sys) : Bool :=
  s.submitted.all (fun p => (intended s p.1 p.2).all (fun r => receiptTokens s p.1 p.2.id r == shownCount s r p.2.id))

def stanzaIq : Stanza → Option Nat
  | .getKeys iq _ => some iq
  | .keys iq _ => some iq
  | .getGroup iq _ => some iq
  | .groupInfo iq _ _ => some iq
  | _ => none

/-- every registered continuation has its request or the answer on the way; everything parked waits for such a continuation -/
def answerable (s : Sys) : Bool :=
  s.clients.all (fun p =>
    p.2.iqReg.all (fun e => (queueOf s.inbound p.1 ++ queueOf s.outbound p.1).any (fun st => stanzaIq st == some e.1)) &&
    p.2.pendingIn.all (fun e => p.2.iqReg.any (fun k => k.2 == Cont.keysForPending e.1.1 e.1.2)))

def tokInv (s : Sys) : Bool :=
  conserved s && receiptsConserved s && answerable s && noCorrupt s && noncesBelow s && unopened s && shapes s && keptForRetry s && receiptsHonest s && retriesSane s && queueSane s

def tokInvReport (s : Sys) : String :=
  s!"conserved={conserved s} answerable={answerable s} receiptsConserved={receiptsConserved s} noCorrupt={noCorrupt s} noncesBelow={noncesBelow s} unopened={unopened s} shapes={shapes s} keptForRetry={keptForRetry s} receiptsHonest={receiptsHonest s} retriesSane={retriesSane s} queueSane={queueSane s}"

end Yow.E2E
