/-
  Model of how a login starts on the wire:
    yowsup/layers/noise/layer.py  on_auth: segmentation off; [edge header raw, segmentation on, routing info, segmentation off];
                                  prologue raw; segmentation on; then the handshake worker writes its segments
    yowsup/layers/noise/layer_noise_segments.py  send: 3-byte length first iff the stack property says so
  The segmentation switch is a property of the STACK: it survives connections.  `Cfg.resetFirst` says whether on_auth switches
  it off before writing anything (regenerated from the source: Gen/LoginCfg.lean).
-/
namespace Yow.Login

structure Cfg where
  resetFirst : Bool
deriving Repr, DecidableEq

inductive Piece | edgeHeader | routingInfo | prologue | clientHello
deriving Repr, DecidableEq

/-- one write reaching the network layer: with or without a length prefix -/
structure W where
  framed : Bool
  piece : Piece
deriving Repr, DecidableEq

structure St where
  segEnabled : Bool := false
deriving Repr, DecidableEq

def write (s : St) (p : Piece) : W := { framed := s.segEnabled, piece := p }

/-- `on_auth` followed by the worker's first segment -/
def login (cfg : Cfg) (edge : Bool) (s : St) : St × List W :=
  let s0 : St := if cfg.resetFirst then { segEnabled := false } else s
  let (s1, w1) :=
    if edge then
      let a := write s0 .edgeHeader
      let s' : St := { segEnabled := true }
      let b := write s' .routingInfo
      (({ segEnabled := false } : St), [a, b])
    else (s0, [])
  let c := write s1 .prologue
  let s2 : St := { segEnabled := true }
  (s2, w1 ++ [c, write s2 .clientHello])

/-- any number of logins on the same stack (whatever took the connections down in between) -/
def logins (cfg : Cfg) : St → List Bool → List (List W)
  | _, [] => []
  | s, e :: es => let r := login cfg e s; r.2 :: logins cfg r.1 es

/-- what a fresh login looks like -/
def fresh (edge : Bool) : List W :=
  (if edge then [{ framed := false, piece := .edgeHeader }, { framed := true, piece := .routingInfo }] else []) ++
  [{ framed := false, piece := .prologue }, { framed := true, piece := .clientHello }]

end Yow.Login
