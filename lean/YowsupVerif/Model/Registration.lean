/-
  Model of the registration-request helpers:
    yowsup/env/env_android.py        AndroidYowsupEnv.getToken (hand-rolled keyed hash)
    yowsup/common/http/warequest.py  WARequest.urlencode / urlencodeParams / encryptParams
  Hash function, Diffie-Hellman and the AEAD are parameters.
-/
import YowsupVerif.Model.Bytes
namespace Yow.Reg

/-! ### getToken -/

/-- the loop `for i in range(0, 64): pad.append(c ^ keyDecoded[i])` -/
def xorPad (c : Nat) (key : Bytes) : Bytes := (key.take 64).map (fun k => Nat.xor c k)

/-- `hash.update(opad + subHash(ipad + data).digest())` for a hash function `H` -/
def tokenRaw (H : Bytes → Bytes) (key sig cls phone : Bytes) : Bytes :=
  H (xorPad 0x5C key ++ H (xorPad 0x36 key ++ (sig ++ cls ++ phone)))

/-- RFC 2104 HMAC for a hash with 64-byte blocks -/
def hmac (H : Bytes → Bytes) (key msg : Bytes) : Bytes :=
  let k0 := if 64 < key.length then H key else key
  let k := k0 ++ List.replicate (64 - k0.length) 0
  H (k.map (fun b => Nat.xor 0x5C b) ++ H (k.map (fun b => Nat.xor 0x36 b) ++ msg))

/-- `WARequest.__init__`: `self._p_in = str(config.phone)[len(str(config.cc)):]` — the number without its country code -/
def nationalOf (cc phone : Bytes) : Bytes := phone.drop cc.length

/-- the `token` parameter of the code / exists requests: `getToken(self._p_in)` -/
def requestToken (H : Bytes → Bytes) (key sig cls cc phone : Bytes) : Bytes :=
  tokenRaw H key sig cls (nationalOf cc phone)

/-! ### urlencode -/

def isLiteral (b : Nat) : Bool :=
  (48 ≤ b && b ≤ 57) || (65 ≤ b && b ≤ 90) || (97 ≤ b && b ≤ 122) || b == 46

def hexLower (n : Nat) : Nat := if n < 10 then 48 + n else 87 + n

/-- one byte: literal for `[A-Za-z0-9.]`, else `%xx` with lower-case hex -/
def encByte (b : Nat) : List Nat :=
  if isLiteral b then [b] else [37, hexLower (b / 16 % 16), hexLower (b % 16)]

/-- `urlencode(value)` for a bytes value (characters of the result as code points) -/
def urlencodeBytes (bs : Bytes) : List Nat := bs.flatMap encByte

/-- UTF-8 encoding of one Unicode scalar value -/
def utf8 (c : Nat) : Bytes :=
  if c < 0x80 then [c]
  else if c < 0x800 then [0xC0 + c / 64, 0x80 + c % 64]
  else if c < 0x10000 then [0xE0 + c / 4096, 0x80 + c / 64 % 64, 0x80 + c % 64]
  else [0xF0 + c / 262144, 0x80 + c / 4096 % 64, 0x80 + c / 64 % 64, 0x80 + c % 64]

/-- `urlencode(value)` for a str value given as code points -/
def urlencodeStr (cps : List Nat) : List Nat := cps.flatMap (fun c => urlencodeBytes (utf8 c))

def hexVal (c : Nat) : Option Nat :=
  if 48 ≤ c ∧ c ≤ 57 then some (c - 48)
  else if 97 ≤ c ∧ c ≤ 102 then some (c - 87)
  else if 65 ≤ c ∧ c ≤ 70 then some (c - 55)
  else none

/-- standard percent-decoding (urllib.parse.unquote_to_bytes) -/
def pctDecode : List Nat → Bytes
  | 37 :: a :: b :: rest =>
    match hexVal a, hexVal b with
    | some x, some y => (x * 16 + y) :: pctDecode rest
    | _, _ => 37 :: pctDecode (a :: b :: rest)
  | c :: rest => c :: pctDecode rest
  | [] => []

/-- `urlencodeParams`: `k=enc(v)` joined by `&`, in the given order; keys are inserted as they are -/
def urlencodeParams : List (List Nat × Bytes) → List Nat
  | [] => []
  | [(k, v)] => k ++ 61 :: urlencodeBytes v
  | (k, v) :: rest => k ++ 61 :: urlencodeBytes v ++ 38 :: urlencodeParams rest

/-- split at the first occurrence of `c` -/
def splitFirst (c : Nat) : List Nat → List Nat × Option (List Nat)
  | [] => ([], none)
  | x :: xs =>
    if x = c then ([], some xs)
    else
      let r := splitFirst c xs
      (x :: r.1, r.2)

/-- standard query-string parsing: split on `&`, then on the first `=`, decode the value -/
def parseParams : Nat → List Nat → List (List Nat × Bytes)
  | 0, _ => []
  | fuel + 1, s =>
    match splitFirst 38 s with
    | (item, rest) =>
      let kv := splitFirst 61 item
      let entry := (kv.1, pctDecode (kv.2.getD []))
      match rest with
      | none => [entry]
      | some r => entry :: parseParams fuel r

/-! ### encryptParams -/

structure Crypto where
  pubOf : Bytes → Bytes                       -- public key of a private key
  agree : Bytes → Bytes → Bytes                -- Curve.calculateAgreement(public, private) as dh priv pub
  aeadSeal : Bytes → Bytes → Bytes              -- AESGCM(key).encrypt(nonce0, plaintext, b'')
  aeadOpen : Bytes → Bytes → Option Bytes      -- AESGCM(key).decrypt(nonce0, ciphertext, b'')

structure Crypto.OK (c : Crypto) : Prop where
  dh_sym : ∀ a b, c.agree a (c.pubOf b) = c.agree b (c.pubOf a)
  open_seal : ∀ k m, c.aeadOpen k (c.aeadSeal k m) = some m
  pub_len : ∀ a, (c.pubOf a).length = 32

/-- the blob before base64: ephemeral public key (32 bytes) ‖ AEAD ciphertext of the encoded params -/
def encryptParams (c : Crypto) (eph : Bytes) (params : List (List Nat × Bytes)) (serverPub : Bytes) : Bytes :=
  c.pubOf eph ++ c.aeadSeal (c.agree eph serverPub) (urlencodeParams params)

/-- what the server does with its private key -/
def openBlob (c : Crypto) (serverPriv : Bytes) (blob : Bytes) : Option Bytes :=
  c.aeadOpen (c.agree serverPriv (blob.take 32)) (blob.drop 32)

end Yow.Reg
