/-
  Model of concurrent senders on the downward data path (coder → noise → segments → network):
    yowsup/layers/__init__.py              YowLayer.toLower: the layer's lock is held while the layer below handles the datum,
                                           so a sender holds the locks of all layers it has passed (nested)
    yowsup/layers/noise/layer.py           send: WANoiseProtocol.send = encrypt with the next cipher counter, then
                                           stream.write_segment = put into the write queue + EVENT_WRITE callback =
                                           toLower(get_write_segment())  — the callback takes the HEAD of the queue
    yowsup/layers/noise/layer_noise_segments.py  send: toLower(3-byte length), toLower(payload): two writes
  Threads are sequences of atomic operations; a schedule picks which thread moves next; acquiring a held lock does not
  move.  `Cfg` says which of the two relevant locks are in place; it is regenerated from the current source by observing
  which locks are held at the encryption and at the two network writes (Gen/ConcCfg.lean).
-/
namespace Yow.Conc

structure Cfg where
  outer : Bool    -- one lock is held by a sender from before the encryption until after the payload write (the coder layer's)
  inner : Bool    -- the noise layer's lock is held across the dequeue and both writes of a segment
deriving Repr, DecidableEq

structure Frame where
  ctr : Nat       -- cipher counter the frame was encrypted with
  stanza : Nat    -- what it carries
deriving Repr, DecidableEq

inductive W
  | hdr (f : Frame)
  | pay (f : Frame)
deriving Repr, DecidableEq

inductive Op
  | acqO | relO | acqN | relN
  | enc (stanza : Nat)     -- encrypt: take the next counter
  | put                    -- stream.write_segment: enqueue the frame just encrypted
  | get                    -- get_write_segment: dequeue the head
  | wrH | wrP              -- the two network writes of the dequeued frame
deriving Repr, DecidableEq

def program (cfg : Cfg) (stanza : Nat) : List Op :=
  (if cfg.outer then [.acqO] else []) ++ [.enc stanza, .put] ++ (if cfg.inner then [.acqN] else []) ++
  [.get, .wrH, .wrP] ++ (if cfg.inner then [.relN] else []) ++ (if cfg.outer then [.relO] else [])

structure Thread where
  ops : List Op                 -- remaining operations
  made : Option Frame := none   -- encrypted, not yet enqueued
  got : Option Frame := none    -- dequeued, being written
deriving Repr, DecidableEq

structure St where
  threads : List Thread
  lockO : Option Nat := none    -- holder
  lockN : Option Nat := none
  ctr : Nat := 0
  queue : List Frame := []
  wire : List W := []
deriving Repr, DecidableEq

def threadOf (cfg : Cfg) (stanzas : List Nat) : Thread := { ops := stanzas.flatMap (program cfg) }

def init (cfg : Cfg) (work : List (List Nat)) : St := { threads := work.map (threadOf cfg) }

def setThread (s : St) (i : Nat) (t : Thread) : St := { s with threads := s.threads.set i t }

/-- thread `i` performs its next operation if it can -/
def step (s : St) (i : Nat) : St :=
  match s.threads[i]? with
  | none => s
  | some t =>
    match t.ops with
    | [] => s
    | op :: rest =>
      let t' := { t with ops := rest }
      match op with
      | .acqO => if s.lockO.isNone then { setThread s i t' with lockO := some i } else s
      | .relO => { setThread s i t' with lockO := none }
      | .acqN => if s.lockN.isNone then { setThread s i t' with lockN := some i } else s
      | .relN => { setThread s i t' with lockN := none }
      | .enc st => { setThread s i { t' with made := some { ctr := s.ctr, stanza := st } } with ctr := s.ctr + 1 }
      | .put =>
        match t.made with
        | some f => { setThread s i { t' with made := none } with queue := s.queue ++ [f] }
        | none => setThread s i t'
      | .get =>
        match s.queue with
        | f :: q => { setThread s i { t' with got := some f } with queue := q }
        | [] => s                                  -- blocks on the empty queue
      | .wrH =>
        match t.got with
        | some f => { setThread s i t' with wire := s.wire ++ [.hdr f] }
        | none => setThread s i t'
      | .wrP =>
        match t.got with
        | some f => { setThread s i { t' with got := none } with wire := s.wire ++ [.pay f] }
        | none => setThread s i t'

def run : St → List Nat → St
  | s, [] => s
  | s, i :: is => run (step s i) is

def finished (s : St) : Bool := s.threads.all (fun t => t.ops.isEmpty)

/-- the byte stream a strict in-order peer accepts: whole frames (header immediately followed by its own payload), in the
    order of their cipher counters 0, 1, 2, … -/
def wellFramed : List W → Nat → Bool
  | [], _ => true
  | .hdr f :: .pay g :: rest, n => f == g && f.ctr == n && wellFramed rest (n + 1)
  | _, _ => false

def stanzasOnWire : List W → List Nat
  | [] => []
  | .pay f :: rest => f.stanza :: stanzasOnWire rest
  | _ :: rest => stanzasOnWire rest

end Yow.Conc
