/-
  The lock regions of the library, by syntax: every stretch of code between `<lock>.acquire()` and `<lock>.release()` and every `with <lock>:`
  block of yowsup/**/*.py (regenerated: Gen/LockRegions.lean, harness/gen/lockregions.py).  A region is `guarded` when the release is reached on
  the exception path by construction (`with`, or a try/finally around the whole region); otherwise it lists the kinds of the statements between
  acquire and release.  A lock stays held for ever — and every later caller blocks — exactly when a statement of an unprotected region raises.
-/
namespace Yow.LockRegions

inductive Stmt
  | skip
  | assign       -- name / attribute := a name, attribute, constant or literal container of such
  | setItem      -- d[k] := v with simple d, k, v (a dict store: cannot raise for hashable keys)
  | lenAssign    -- x := len(simple)
  | ifSafe       -- if <membership / identity / equality test on simple operands>: statements of the kinds above
  | ifOther      -- any other conditional
  | delItem      -- del d[k]: raises KeyError when k is missing
  | call         -- a statement containing a call (other than len): may raise
  | other
  | noRelease    -- no matching release in the same block
deriving Repr, DecidableEq

structure Region where
  file : String
  fn : String
  lock : String
  library : Bool        -- false: demo applications shipped with the library (yowsup/demos/)
  guarded : Bool
  stmts : List Stmt
deriving Repr, DecidableEq

def Stmt.cannotRaise : Stmt → Bool
  | .skip | .assign | .setItem | .lenAssign | .ifSafe => true
  | _ => false

/-- the region needs no further argument: guarded by construction, or made only of statements that cannot raise -/
def Region.good (r : Region) : Bool := r.guarded || r.stmts.all Stmt.cannotRaise

/-- one execution of the region: `raises i` = statement number i raises in it.  Is the lock released when control leaves the region? -/
def released (r : Region) (raises : Nat → Bool) : Bool :=
  r.guarded || ((List.range r.stmts.length).all (fun i => !raises i) && !r.stmts.contains .noRelease)

/-- executions in which only statements that CAN raise do raise -/
def Possible (r : Region) (raises : Nat → Bool) : Prop :=
  ∀ i, raises i = true → ∃ s, r.stmts[i]? = some s ∧ s.cannotRaise = false

end Yow.LockRegions
