/-
  Model of the SQLite-backed key store (yowsup/axolotl/store/sqlite/*.py) at the level the property
  needs: five tables with a UNIQUE key column, statements executed inside transactions, COMMIT, and
  a crash that discards the open transaction (SQLite's atomic-commit guarantee: trusted).
  Each store API operation is a *skeleton* — the statement sequence the real code issues, regenerated
  on every run with sqlite3's trace callback (Gen/StoreOps.lean) — instantiated with the call's
  arguments.
-/
namespace Yow.Store

structure Row where
  key : Nat
  val : Nat
  flag : Bool      -- prekeys.sent_to_server; unused by the other tables
deriving Repr, DecidableEq

abbrev Table := List Row

/-- table ids: 0 sessions, 1 identities, 2 prekeys, 3 signed_prekeys, 4 sender_keys -/
structure Db where
  committed : List Table
  work : List Table        -- the connection's view inside an open transaction
  inTx : Bool
deriving Repr, DecidableEq

def empty : Db := { committed := [[], [], [], [], []], work := [[], [], [], [], []], inTx := false }

/-- one traced statement of a skeleton; `a` indexes the call's argument list -/
inductive Sk
  | begin
  | commit
  | del (t a : Nat)        -- DELETE … WHERE key = args[a].key
  | ins (t a : Nat)        -- INSERT (fails on an existing key: UNIQUE constraint)
  | insRepl (t a : Nat)    -- INSERT OR REPLACE
  | updFlag (t a : Nat)    -- UPDATE … SET flag = 1 WHERE key = args[a].key
  | updVal (t a : Nat)     -- UPDATE … SET val = args[a].val WHERE key = args[a].key
deriving Repr, DecidableEq

def tbl (ts : List Table) (t : Nat) : Table := ts.getD t []

def hasKey (tb : Table) (k : Nat) : Bool := tb.any (fun r => r.key == k)

/-- what a DML statement does to one table -/
def applyDml (s : Sk) (args : List (Nat × Nat)) (ts : List Table) : Option (List Table) :=
  match s with
  | .del t a =>
    let k := (args.getD a (0, 0)).1
    some (ts.set t ((tbl ts t).filter (fun r => r.key != k)))
  | .ins t a =>
    let kv := args.getD a (0, 0)
    if hasKey (tbl ts t) kv.1 then none
    else some (ts.set t (tbl ts t ++ [{ key := kv.1, val := kv.2, flag := false }]))
  | .insRepl t a =>
    let kv := args.getD a (0, 0)
    some (ts.set t ((tbl ts t).filter (fun r => r.key != kv.1) ++ [{ key := kv.1, val := kv.2, flag := false }]))
  | .updFlag t a =>
    let k := (args.getD a (0, 0)).1
    some (ts.set t ((tbl ts t).map (fun r => if r.key == k then { r with flag := true } else r)))
  | .updVal t a =>
    let kv := args.getD a (0, 0)
    some (ts.set t ((tbl ts t).map (fun r => if r.key == kv.1 then { r with val := kv.2 } else r)))
  | _ => some ts

/-- Execute one statement. `none` = the statement raised (IntegrityError); the state is unchanged and
    the Python code does not continue the operation. -/
def exec (args : List (Nat × Nat)) (db : Db) : Sk → Option Db
  | .begin => some (if db.inTx then db else { db with work := db.committed, inTx := true })
  | .commit => some (if db.inTx then { committed := db.work, work := db.work, inTx := false } else db)
  | s =>
    if db.inTx then (applyDml s args db.work).map (fun w => { db with work := w })
    else (applyDml s args db.committed).map (fun c => { db with committed := c, work := c })   -- autocommit

/-- run a statement list; stops at the first statement that raises -/
def run (args : List (Nat × Nat)) : Db → List Sk → Db
  | db, [] => db
  | db, s :: rest =>
    match exec args db s with
    | some db' => run args db' rest
    | none => db

/-- process death: the open transaction is rolled back when the file is reopened -/
def crash (db : Db) : Db := { committed := db.committed, work := db.committed, inTx := false }

/-- Statement number `j` of the operation (position in its skeleton, BEGIN = 0) FAILS — a storage fault: disk full, I/O error, a file that
    stays locked: the statements before it have run, the failing one has no effect, the Python code does not continue the operation.
    `rollsBack` is what the store method does then: roll the open transaction back before passing the error on (the connection is as after
    a reopen), or leave the transaction open with what has run so far still pending. -/
def runFault (rollsBack : Bool) (args : List (Nat × Nat)) (db : Db) (sk : List Sk) (j : Nat) : Db :=
  let db' := run args db (sk.take j)
  if rollsBack then crash db' else db'

/-- does statement `s`, executed with the call arguments `args`, leave the record under key `k` of table `t` in place?
    (everything but a DELETE of that very key does: an INSERT adds, an UPDATE changes the value or the flag of a row that stays) -/
def spares (args : List (Nat × Nat)) (t k : Nat) : Sk → Bool
  | .del t' a => !(t' == t && (args.getD a (0, 0)).1 == k)
  | _ => true

/-- a sequence of operations (each: its call arguments and the statements that run), one after the other on the same connection -/
def runOps : Db → List (List (Nat × Nat) × List Sk) → Db
  | db, [] => db
  | db, o :: rest => runOps (run o.1 db o.2) rest

/-- the connection's current view -/
def view (db : Db) : List Table := if db.inTx then db.work else db.committed

/-- abstract content: table × key ↦ (value, flag) -/
def lookup (ts : List Table) (t k : Nat) : Option (Nat × Bool) :=
  ((tbl ts t).find? (fun r => r.key == k)).map (fun r => (r.val, r.flag))

def UniqueKeys (ts : List Table) : Prop := ∀ t, ((tbl ts t).map Row.key).Nodup

/-- A skeleton that is one transaction: BEGIN, DML only, COMMIT. -/
def SingleTx (sk : List Sk) : Bool :=
  match sk with
  | .begin :: rest =>
    match rest.reverse with
    | .commit :: body => body.all (fun s => s != .begin && s != .commit)
    | _ => false
  | _ => false

/-! ### the shapes a store operation may have (per kind) -/

inductive Kind
  | replace (t : Nat)      -- key ↦ value, overwriting (storeSession, saveIdentity, storeSenderKey)
  | insertNew (t : Nat)    -- key ↦ value, key must be new (storePreKey, storeSignedPreKey, own identity)
  | remove (t : Nat)       -- delete key (deleteSession, deleteAllSessions, removeSignedPreKey)
  | retire (t : Nat)       -- the row stays, its value becomes the tombstone given as value argument (removePreKey)
  | markSent (t : Nat)     -- set the flag of the given keys (setAsSent with two ids)
deriving Repr, DecidableEq

def allowed : Kind → List (List Sk)
  | .replace t => [[.begin, .del t 0, .ins t 0, .commit], [.begin, .insRepl t 0, .commit]]
  | .insertNew t => [[.begin, .ins t 0, .commit]]
  | .remove t => [[.begin, .del t 0, .commit]]
  | .retire t => [[.begin, .updVal t 0, .commit]]
  | .markSent t => [[.begin, .updFlag t 0, .updFlag t 1, .commit]]

end Yow.Store
