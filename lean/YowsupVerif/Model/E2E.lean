/-
  System model of end-to-end messaging: N clients running the axolotl send / receive layers and an application
  that acknowledges what it is shown, one honest server with per-account FIFO queues, symbolic cryptography.
    yowsup/layers/axolotl/layer_send.py      send / processPlaintextNodeAndSend / sendToContact / sendToGroup /
                                             ensureSessionsAndSendToGroup / sendToGroupWithSessions / sendEncEntities /
                                             receive (receipts, retry) / sentQueue
    yowsup/layers/axolotl/layer_receive.py   handleEncMessage and its exception branches, send_retry, pendingIncomingMessages
    yowsup/layers/axolotl/layer_base.py      getKeysFor (create_session per jid, skipEncJids)
    yowsup/axolotl/manager.py                encrypt / decrypt_* / group_* (python-axolotl behind them, symbolic here)
    yowsup/layers/protocol_messages/layer.py, protocol_media/layer.py   what surfaces as a message
  Symbolic cryptography: a ciphertext names the session (or sender-key generation) and the counter it was made
  with; it can be opened by the peer that holds that session, once.  `corrupt` marks a ciphertext damaged in transit.
  The server (routing, fan-out, receipts, key and group queries) is the one of harness/lib/sim.py.
-/
namespace Yow.E2E

abbrev Acct := Nat

inductive Dest
  | user (a : Acct)
  | group (g : Nat)
deriving Repr, DecidableEq

structure Payload where
  isMedia : Bool      -- message type "media" (image / location / contact / url …) rather than "text"
  content : Nat       -- the application's content (all fields), abstract
deriving Repr, DecidableEq

/-- what a ciphertext contains (a serialised Message) -/
structure Plain where
  skdm : Option (Nat × Nat)      -- sender-key distribution: (group, key generation)
  content : Option Payload
deriving Repr, DecidableEq

inductive EncKind | pkmsg | msg | skmsg
deriving Repr, DecidableEq

structure Ct where
  kind : EncKind
  sess : Nat          -- pkmsg / msg: session id;  skmsg: sender-key generation
  ctr : Nat           -- the ciphertext's place in its chain, symbolically: a nonce unique to this encryption
  plain : Plain
  corrupt : Bool
deriving Repr, DecidableEq

inductive RType
  | delivery
  | retry (count : Nat)
deriving Repr, DecidableEq

/-- stanzas; `peer` is the `to` attribute on the way to the server and the `from` attribute on the way to a client -/
inductive Stanza
  | msg (id : Nat) (peer : Dest) (participant : Option Acct) (isMedia : Bool) (encs : List (Option Acct × Ct)) (plain : Option Payload)
  | receipt (id : Nat) (peer : Dest) (participant : Option Acct) (t : RType)
  | ack (id : Nat) (cls : Nat)                       -- cls 0 = message, 1 = receipt
  | getKeys (iq : Nat) (jids : List Acct)
  | keys (iq : Nat) (jids : List Acct)               -- bundles for the listed accounts (unregistered ones are left out)
  | getGroup (iq : Nat) (g : Nat)
  | groupInfo (iq : Nat) (g : Nat) (members : List Acct)
deriving Repr, DecidableEq

/-- a plaintext message stanza as the protocol layers hand it to the send layer -/
structure Node where
  id : Nat
  dest : Dest
  payload : Payload
deriving Repr, DecidableEq

structure Sess where
  cur : Nat
  pendingPre : Bool         -- unacknowledged prekey message: keep sending pkmsg
  archived : List Nat
deriving Repr, DecidableEq

/-- continuation registered with an iq request -/
inductive Cont
  | keysForSend (n : Node)                            -- processPlaintextNodeAndSend → getKeysFor([to])
  | keysForRetry (n : Node) (who : Acct) (count : Nat) -- retry receipt → getKeysFor([who])
  | keysForPending (peer : Dest) (participant : Option Acct)  -- NoSession → park → getKeysFor([sender])
  | groupInfo (n : Node)                              -- sendToGroup: no sender key yet → group info
  | keysForGroup (n : Node) (all asked : List Acct)   -- ensureSessionsAndSendToGroup → getKeysFor(jidsNoSession)
deriving Repr, DecidableEq

structure Shown where      -- what the application was shown
  id : Nat
  peer : Dest
  participant : Option Acct
  payload : Payload
deriving Repr, DecidableEq

structure Client where
  -- persistent (axolotl store)
  sessions : List (Acct × Sess) := []
  seen : List (Nat × Nat) := []                 -- (session, nonce) of every pkmsg / msg ciphertext opened
  ownSK : List (Nat × Nat) := []                -- group → key generation of our sender key
  peerSK : List ((Nat × Acct) × Nat) := []      -- (group, sender) → key generation
  seenSK : List (Nat × Nat) := []               -- (key generation, nonce) opened
  -- volatile (layers)
  sentQueue : List Node := []
  pendingIn : List ((Dest × Option Acct) × List Stanza) := []
  iqReg : List (Nat × Cont) := []
  retries : List (Nat × Nat) := []
  skipEnc : List Dest := []
  nextIq : Nat := 1
  -- history (ghost)
  shown : List Shown := []
  receipts : List (Nat × Dest × Option Acct × RType) := []
deriving Repr, DecidableEq

structure Sys where
  clients : List (Acct × Client) := []
  inbound : List (Acct × List Stanza) := []       -- sent by the client, not yet processed by the server
  outbound : List (Acct × List Stanza) := []      -- queued at the server for the client
  groups : List (Nat × List Acct) := []
  nextSess : Nat := 1
  nextGen : Nat := 1
  nextCtr : Nat := 0                              -- symbolic nonce: every encryption produces a ciphertext with a new one
  faulted : List (Nat × Acct) := []               -- (message id, recipient) that already suffered a fault
  submitted : List (Acct × Node) := []            -- ghost: what applications asked to send
  wire : List (Acct × Stanza) := []               -- ghost: every stanza that left a client
deriving Repr, DecidableEq

-- ------------------------------------------------------------------------------------------------ association lists
def lookup {α β} [DecidableEq α] (l : List (α × β)) (k : α) : Option β := (l.find? (fun p => p.1 == k)).map Prod.snd
def insert {α β} [DecidableEq α] (l : List (α × β)) (k : α) (v : β) : List (α × β) :=
  if l.any (fun p => p.1 == k) then l.map (fun p => if p.1 == k then (k, v) else p) else l ++ [(k, v)]
def erase {α β} [DecidableEq α] (l : List (α × β)) (k : α) : List (α × β) := l.filter (fun p => p.1 != k)

def getClient (s : Sys) (a : Acct) : Client := (lookup s.clients a).getD {}
def setClient (s : Sys) (a : Acct) (c : Client) : Sys := { s with clients := insert s.clients a c }
def queueOf (q : List (Acct × List Stanza)) (a : Acct) : List Stanza := (lookup q a).getD []
def members (s : Sys) (g : Nat) : List Acct := (lookup s.groups g).getD []
def registered (s : Sys) (a : Acct) : Bool := s.clients.any (fun p => p.1 == a)

/-- a client hands a stanza to its connection -/
def emit (s : Sys) (a : Acct) (st : Stanza) : Sys :=
  { s with inbound := insert s.inbound a (queueOf s.inbound a ++ [st]), wire := s.wire ++ [(a, st)] }

def push (s : Sys) (a : Acct) (st : Stanza) : Sys :=
  { s with outbound := insert s.outbound a (queueOf s.outbound a ++ [st]) }

-- ------------------------------------------------------------------------------------------------ symbolic ciphers
/-- `manager.encrypt(peer, plain)`: requires a session; `nonce` identifies the new ciphertext -/
def encryptFor (c : Client) (peer : Acct) (plain : Plain) (nonce : Nat) : Option Ct :=
  match lookup c.sessions peer with
  | none => none
  | some se =>
    some { kind := if se.pendingPre then .pkmsg else .msg, sess := se.cur, ctr := nonce, plain := plain, corrupt := false }

/-- `manager.create_session(peer, bundle)`: a new session from a fetched bundle (fresh id) -/
def createSession (c : Client) (peer : Acct) (sid : Nat) : Client :=
  let arch := match lookup c.sessions peer with
    | none => []
    | some se => se.cur :: se.archived
  { c with sessions := insert c.sessions peer { cur := sid, pendingPre := true, archived := arch } }

inductive Dec
  | ok (p : Plain)
  | duplicate
  | invalid
  | noSession
deriving Repr, DecidableEq

/-- `decrypt_pkmsg` / `decrypt_msg` -/
def decrypt (c : Client) (peer : Acct) (ct : Ct) : Client × Dec :=
  match ct.kind with
  | .skmsg => (c, .invalid)
  | .pkmsg =>
    if ct.corrupt then (c, .invalid)
    else if c.seen.contains (ct.sess, ct.ctr) then (c, .duplicate)
    else
      let se : Sess := match lookup c.sessions peer with
        | none => { cur := ct.sess, pendingPre := false, archived := [] }
        | some se =>
          if se.cur = ct.sess then { se with pendingPre := false }
          else { cur := ct.sess, pendingPre := false, archived := se.cur :: se.archived.filter (· != ct.sess) }
      ({ c with sessions := insert c.sessions peer se, seen := c.seen ++ [(ct.sess, ct.ctr)] }, .ok ct.plain)
  | .msg =>
    match lookup c.sessions peer with
    | none => (c, .noSession)
    | some se =>
      if ct.corrupt then (c, .invalid)
      else if !(se.cur == ct.sess || se.archived.contains ct.sess) then (c, .invalid)
      else if c.seen.contains (ct.sess, ct.ctr) then (c, .duplicate)
      else
        let se' : Sess := if se.cur = ct.sess then { se with pendingPre := false }
          else { cur := ct.sess, pendingPre := false, archived := se.cur :: se.archived.filter (· != ct.sess) }   -- promoteState
        ({ c with sessions := insert c.sessions peer se', seen := c.seen ++ [(ct.sess, ct.ctr)] }, .ok ct.plain)

/-- `manager.group_decrypt` -/
def groupDecrypt (c : Client) (g : Nat) (sender : Acct) (ct : Ct) : Client × Dec :=
  match lookup c.peerSK (g, sender) with
  | none => (c, .noSession)
  | some gen =>
    if ct.corrupt || gen != ct.sess then (c, .invalid)
    else if c.seenSK.contains (ct.sess, ct.ctr) then (c, .duplicate)
    else ({ c with seenSK := c.seenSK ++ [(ct.sess, ct.ctr)] }, .ok ct.plain)

-- ------------------------------------------------------------------------------------------------ send layer
def enqueueSent (c : Client) (n : Node) : Client :=
  let q := if c.sentQueue.length ≥ 100 then c.sentQueue.drop 1 else c.sentQueue
  { c with sentQueue := q ++ [n] }

/-- `sendEncEntities` -/
def sendEnc (s : Sys) (a : Acct) (c : Client) (n : Node) (encs : List (Option Acct × Ct)) (participant : Option Acct) : Sys :=
  let c := if participant.isNone then enqueueSent c n else c
  emit (setClient s a c) a (.msg n.id n.dest participant n.payload.isMedia encs none)

/-- `_sendIq` from the axolotl layers -/
def sendIq (s : Sys) (a : Acct) (c : Client) (mk : Nat → Stanza) (k : Cont) : Sys :=
  let iq := c.nextIq
  emit (setClient s a { c with nextIq := iq + 1, iqReg := c.iqReg ++ [(iq, k)] }) a (mk iq)

/-- `sendToContact` (a session exists) -/
def sendToContact (s : Sys) (a : Acct) (c : Client) (n : Node) (peer : Acct) : Sys :=
  match encryptFor c peer { skdm := none, content := some n.payload } s.nextCtr with
  | none => s                                   -- encrypt raises: nothing is sent
  | some ct => sendEnc { s with nextCtr := s.nextCtr + 1 } a c n [(none, ct)] none

/-- the own sender key for a group (`group_create_skmsg`: created on first use) -/
def ownSenderKey (s : Sys) (c : Client) (g : Nat) : Sys × Client × Nat :=
  match lookup c.ownSK g with
  | some gen => (s, c, gen)
  | none => ({ s with nextGen := s.nextGen + 1 }, { c with ownSK := insert c.ownSK g s.nextGen }, s.nextGen)

/-- encrypt `plain` for each of `jids`, with nonces `nonce`, `nonce+1`, … (those without a session are skipped: encrypt raises in
    the real code, cannot happen for jids whose session was just ensured) -/
def encryptEach (c : Client) (plain : Plain) (nonce : Nat) : List Acct → List (Acct × Ct)
  | [] => []
  | j :: js =>
    match encryptFor c j plain nonce with
    | none => encryptEach c plain (nonce + 1) js
    | some ct => (j, ct) :: encryptEach c plain (nonce + 1) js

/-- `sendToGroupWithSessions(node, jidsNeedSenderKey, retryCount)` -/
def sendToGroupWithSessions (s : Sys) (a : Acct) (c : Client) (n : Node) (g : Nat) (need : List Acct) (retryCount : Nat) : Sys :=
  let participant : Option Acct := match need with
    | [j] => if retryCount > 0 then some j else none
    | _ => none
  let (s1, c1, encs1) :=
    if need.isEmpty then (s, c, ([] : List (Option Acct × Ct)))
    else
      let (s', c', gen) := ownSenderKey s c g
      let plain : Plain := { skdm := some (g, gen), content := if retryCount > 0 then some n.payload else none }
      let r := encryptEach c' plain s'.nextCtr need
      ({ s' with nextCtr := s'.nextCtr + need.length }, c', r.map (fun jc => (if participant.isSome then none else some jc.1, jc.2)))
  if retryCount = 0 then
    -- group_encrypt with the own sender key (exists: either just created or the record was not empty)
    let (s2, c2, gen) := ownSenderKey s1 c1 g
    let ct : Ct := { kind := .skmsg, sess := gen, ctr := s2.nextCtr, plain := { skdm := none, content := some n.payload }, corrupt := false }
    sendEnc { s2 with nextCtr := s2.nextCtr + 1 } a c2 n (encs1 ++ [(none, ct)]) participant
  else sendEnc s1 a c1 n encs1 participant

/-- `ensureSessionsAndSendToGroup(node, jids)` -/
def ensureSessionsAndSend (s : Sys) (a : Acct) (c : Client) (n : Node) (g : Nat) (jids : List Acct) : Sys :=
  let noSession := jids.filter (fun j => (lookup c.sessions j).isNone)
  if noSession.isEmpty then sendToGroupWithSessions s a c n g jids 0
  else sendIq s a c (fun iq => .getKeys iq noSession) (.keysForGroup n jids noSession)

/-- `sendToGroup(node, retry)` -/
def sendToGroup (s : Sys) (a : Acct) (c : Client) (n : Node) (g : Nat) (retry : Option (Acct × Nat)) : Sys :=
  match lookup c.ownSK g with
  | none => sendIq s a c (fun iq => .getGroup iq g) (.groupInfo n)
  | some _ =>
    match retry with
    | none => sendToGroupWithSessions s a c n g [] 0
    | some (who, count) => sendToGroupWithSessions s a c n g [who] count

/-- `processPlaintextNodeAndSend(node, retry)` -/
def processPlaintext (s : Sys) (a : Acct) (c : Client) (n : Node) (retry : Option (Acct × Nat)) : Sys :=
  match n.dest with
  | .group g => sendToGroup s a c n g retry
  | .user b =>
    if (lookup c.sessions b).isSome then sendToContact s a c n b
    else sendIq s a c (fun iq => .getKeys iq [b]) (.keysForSend n)

/-- `AxolotlSendLayer.send(node)` for a message stanza -/
def sendLayerSend (s : Sys) (a : Acct) (n : Node) : Sys :=
  let c := getClient s a
  if c.skipEnc.contains n.dest then emit s a (.msg n.id n.dest none n.payload.isMedia [] (some n.payload))   -- plaintext!
  else processPlaintext s a c n none

-- ------------------------------------------------------------------------------------------------ receive layer / upper layers
/-- the application is shown a message and acknowledges it with a receipt -/
def showAndReceipt (s : Sys) (r : Acct) (id : Nat) (peer : Dest) (participant : Option Acct) (p : Payload) : Sys :=
  let c := getClient s r
  emit (setClient s r { c with shown := c.shown ++ [{ id := id, peer := peer, participant := participant, payload := p }] }) r
    (.receipt id peer participant .delivery)

/-- `toUpper(node + proto)`: what the messages / media layers make of a decrypted payload -/
def surface (s : Sys) (r : Acct) (id : Nat) (peer : Dest) (participant : Option Acct) (pl : Plain) : Sys :=
  match pl.content with
  | some p => showAndReceipt s r id peer participant p
  | none => s          -- key distribution only: not a message

def sendRetry (s : Sys) (r : Acct) (id : Nat) (peer : Dest) (participant : Option Acct) : Sys :=
  let c := getClient s r
  let count := (lookup c.retries id).getD 0 + 1
  emit (setClient s r { c with retries := insert c.retries id count }) r (.receipt id peer participant (.retry count))

def resetRetries (s : Sys) (r : Acct) (id : Nat) : Sys :=
  let c := getClient s r
  setClient s r { c with retries := erase c.retries id }

def storeSkdm (s : Sys) (r : Acct) (sender : Acct) (pl : Plain) : Sys :=
  match pl.skdm with
  | none => s
  | some (g, gen) =>
    let c := getClient s r
    setClient s r { c with peerSK := insert c.peerSK (g, sender) gen }

def firstKind (encs : List (Option Acct × Ct)) (k : EncKind) : Option Ct := (encs.find? (fun e => e.2.kind == k)).map Prod.snd

/-- the exception branches of `handleEncMessage` -/
def onDecryptFailure (s : Sys) (r : Acct) (st : Stanza) (id : Nat) (peer : Dest) (participant : Option Acct) (sender : Acct) : Dec → Sys
  | .invalid => sendRetry s r id peer participant
  | .duplicate => emit s r (.receipt id peer participant .delivery)
  | .noSession =>
    let c := getClient s r
    let key := (peer, participant)
    let parked := (lookup c.pendingIn key).getD []
    sendIq s r { c with pendingIn := insert c.pendingIn key (parked ++ [st]) } (fun iq => .getKeys iq [sender]) (.keysForPending peer participant)
  | .ok _ => s

/-- `handleEncMessage(node)` -/
def handleEnc (s : Sys) (r : Acct) (st : Stanza) : Sys :=
  match st with
  | .msg id peer participant _ encs _ =>
    let sender : Acct := match participant with
      | some p => p
      | none => match peer with | .user a => a | .group _ => 0
    let first := match firstKind encs .pkmsg with
      | some ct => some ct
      | none => firstKind encs .msg
    -- stage 1: pkmsg, else msg
    let stage1 : Sys × Option Dec := match first with
      | none => (s, none)
      | some ct =>
        let d := decrypt (getClient s r) sender ct
        (setClient s r d.1, some d.2)
    match stage1.2 with
    | some (.ok pl) =>
      let s1 := surface (storeSkdm stage1.1 r sender pl) r id peer participant pl
      stage2 s1 r st id peer participant sender encs
    | some d => onDecryptFailure stage1.1 r st id peer participant sender d
    | none => stage2 stage1.1 r st id peer participant sender encs
  | _ => s
where
  /-- stage 2: the sender-key ciphertext, then `reset_retries` -/
  stage2 (s : Sys) (r : Acct) (st : Stanza) (id : Nat) (peer : Dest) (participant : Option Acct) (sender : Acct)
      (encs : List (Option Acct × Ct)) : Sys :=
    match firstKind encs .skmsg, peer with
    | some ct, .group g =>
      let d := groupDecrypt (getClient s r) g sender ct
      let s1 := setClient s r d.1
      match d.2 with
      | .ok pl => resetRetries (surface s1 r id peer participant pl) r id
      | .noSession => resetRetries (sendRetry s1 r id peer participant) r id     -- handled inside handleSenderKeyMessage
      | e => onDecryptFailure s1 r st id peer participant sender e
    | _, _ => resetRetries s r id

/-- `processPendingIncomingMessages(jid, participant)` -/
def processPending (s : Sys) (r : Acct) (peer : Dest) (participant : Option Acct) : Sys :=
  let c := getClient s r
  let parked := (lookup c.pendingIn (peer, participant)).getD []
  let s1 := parked.foldl (fun acc st => handleEnc acc r st) s
  let c1 := getClient s1 r
  setClient s1 r { c1 with pendingIn := erase c1.pendingIn (peer, participant) }

/-- `getKeysFor.onSuccess`: create a session per returned jid, remember the others in skipEncJids -/
def processKeys (s : Sys) (r : Acct) (asked got : List Acct) : Sys × List Acct :=
  asked.foldl (fun (acc : Sys × List Acct) j =>
    let c := getClient acc.1 r
    if got.contains j then
      (setClient { acc.1 with nextSess := acc.1.nextSess + 1 } r (createSession c j acc.1.nextSess), acc.2 ++ [j])
    else (setClient acc.1 r { c with skipEnc := c.skipEnc ++ [.user j] }, acc.2)) (s, [])

/-- an iq result arrives: run the continuation -/
def onIqResult (s : Sys) (r : Acct) (iq : Nat) (got : List Acct) (groupMembers : List Acct) : Sys :=
  let c := getClient s r
  match lookup c.iqReg iq with
  | none => s
  | some k =>
    let s0 := setClient s r { c with iqReg := erase c.iqReg iq }
    match k with
    | .keysForSend n =>
      (match n.dest with
       | .user b =>
         let (s1, ok) := processKeys s0 r [b] got
         if ok.length = 1 then sendToContact s1 r (getClient s1 r) n b else s1
       | .group _ => s0)
    | .keysForRetry n who count =>
      let (s1, ok) := processKeys s0 r [who] got
      if ok.length = 1 then processPlaintext s1 r (getClient s1 r) n (some (who, count)) else s1
    | .keysForPending peer participant =>
      let sender : Acct := match participant with
        | some p => p
        | none => match peer with | .user a => a | .group _ => 0
      let (s1, ok) := processKeys s0 r [sender] got
      if ok.isEmpty then s1 else processPending s1 r peer participant
    | .groupInfo n =>
      (match n.dest with
       | .group g => ensureSessionsAndSend s0 r (getClient s0 r) n g (groupMembers.filter (· != r))
       | .user _ => s0)
    | .keysForGroup n all asked =>
      (match n.dest with
       | .group g =>
         let (s1, ok) := processKeys s0 r asked got
         -- every participant with a session (old or just created) gets the sender key
         sendToGroupWithSessions s1 r (getClient s1 r) n g (all.filter (fun j => ok.contains j || !asked.contains j)) 0
       | .user _ => s0)

/-- `AxolotlSendLayer.receive` for a receipt -/
def onReceipt (s : Sys) (r : Acct) (id : Nat) (peer : Dest) (participant : Option Acct) (t : RType) : Sys :=
  let c := getClient s r
  let bubble (s : Sys) : Sys :=
    let c := getClient s r
    emit (setClient s r { c with receipts := c.receipts ++ [(id, peer, participant, t)] }) r (.ack id 1)
  match c.sentQueue.find? (fun n => n.id == id) with
  | none => bubble s
  | some n =>
    let c1 := if participant.isSome then c else { c with sentQueue := c.sentQueue.filter (fun m => m.id != id) }
    let s1 := setClient s r c1
    match t with
    | .retry count =>
      let who : Acct := match participant with
        | some p => p
        | none => match peer with | .user a => a | .group _ => 0
      sendIq (emit s1 r (.ack id 1)) r (getClient (emit s1 r (.ack id 1)) r) (fun iq => .getKeys iq [who]) (.keysForRetry n who count)
    | .delivery => bubble s1

/-- a stanza arrives at client `r` -/
def clientReceive (s : Sys) (r : Acct) : Stanza → Sys
  | .msg id peer participant im encs pl =>
    if encs.isEmpty then s        -- plaintext message (not produced by these servers)
    else handleEnc s r (.msg id peer participant im encs pl)
  | .receipt id peer participant t => onReceipt s r id peer participant t
  | .ack _ _ => s
  | .keys iq got => onIqResult s r iq got []
  | .groupInfo iq _ ms => onIqResult s r iq [] ms
  | .getKeys _ _ => s
  | .getGroup _ _ => s

-- ------------------------------------------------------------------------------------------------ server
def serverProcess (s : Sys) (a : Acct) : Stanza → Sys
  | .msg id (.user b) _ im encs pl =>
    let s1 := push s a (.ack id 0)
    if registered s1 b then push s1 b (.msg id (.user a) none im (encs.filter (fun e => e.1.isNone)) pl) else s1
  | .msg id (.group g) participant im encs pl =>
    let s1 := push s a (.ack id 0)
    let direct := encs.filter (fun e => e.1.isNone)
    match participant with
    | some p => if registered s1 p then push s1 p (.msg id (.group g) (some a) im direct pl) else s1
    | none =>
      ((members s1 g).filter (· != a)).foldl (fun acc m =>
        push acc m (.msg id (.group g) (some a) im ((encs.filter (fun e => e.1 == some m)).map (fun e => (none, e.2)) ++ direct) pl)) s1
  | .receipt id (.user b) _ t =>
    let s1 := push s a (.ack id 1)
    if registered s1 b then push s1 b (.receipt id (.user a) none t) else s1
  | .receipt id (.group g) participant t =>
    let s1 := push s a (.ack id 1)
    match participant with
    | some author => if registered s1 author then push s1 author (.receipt id (.group g) (some a) t) else s1
    | none => s1
  | .ack _ _ => s
  | .getKeys iq jids => push s a (.keys iq (jids.filter (registered s)))
  | .getGroup iq g => push s a (.groupInfo iq g (members s g))
  | .keys _ _ => s
  | .groupInfo _ _ _ => s

def corruptLast : List (Option Acct × Ct) → List (Option Acct × Ct)
  | [] => []
  | [e] => [(e.1, { e.2 with corrupt := true })]
  | e :: es => e :: corruptLast es

inductive Fault | none | dup | corrupt
deriving Repr, DecidableEq

inductive Act
  | appSend (a : Acct) (n : Node)          -- the application of `a` sends a message
  | process (a : Acct)                     -- the server reads the next stanza from `a`'s connection
  | deliver (a : Acct) (f : Fault)         -- the server delivers the next queued stanza to `a` (possibly with a fault)
  | restart (a : Acct)                     -- the process of `a` restarts (volatile state lost), reconnects
deriving Repr, DecidableEq

def step (s : Sys) : Act → Sys
  | .appSend a n => sendLayerSend { s with submitted := s.submitted ++ [(a, n)] } a n
  | .process a =>
    match queueOf s.inbound a with
    | [] => s
    | st :: rest => serverProcess { s with inbound := insert s.inbound a rest } a st
  | .deliver a f =>
    match queueOf s.outbound a with
    | [] => s
    | st :: rest =>
      match st, f with
      | .msg id peer participant im encs pl, .dup =>
        -- delivered now, and once more later
        clientReceive { s with faulted := s.faulted ++ [(id, a)] } a (.msg id peer participant im encs pl)
      | .msg id peer participant im encs pl, .corrupt =>
        clientReceive { s with outbound := insert s.outbound a rest, faulted := s.faulted ++ [(id, a)] } a
          (.msg id peer participant im (corruptLast encs) pl)
      | st, _ => clientReceive { s with outbound := insert s.outbound a rest } a st
  | .restart a =>
    let c := getClient s a
    setClient s a { c with sentQueue := [], pendingIn := [], iqReg := [], retries := [], skipEnc := [] }

def run : Sys → List Act → Sys
  | s, [] => s
  | s, a :: as => run (step s a) as

def quiescent (s : Sys) : Bool :=
  s.inbound.all (fun q => q.2.isEmpty) && s.outbound.all (fun q => q.2.isEmpty)

/-- the accounts all run the library and have published keys; groups consist of accounts -/
def initSys (accts : List Acct) (groups : List (Nat × List Acct)) : Sys :=
  { clients := accts.map (fun a => (a, {})), groups := groups }

def usedIds (s : Sys) : List Nat := s.submitted.map (fun p => p.2.id)

/-- the property's quantifier: what applications, the server's scheduler and the fault injector may do -/
def Allowed (s : Sys) : Act → Bool
  | .appSend a n =>
    registered s a && !(usedIds s).contains n.id &&
    (match n.dest with
     | .user b => registered s b && b != a
     | .group g => (members s g).contains a && (members s g).all (registered s))
  | .process a => !(queueOf s.inbound a).isEmpty
  | .deliver a f =>
    (match queueOf s.outbound a, f with
     | [], _ => false
     | _ :: _, .none => true
     | .msg id _ _ _ _ _ :: _, _ => !s.faulted.contains (id, a)
     | _ :: _, _ => false)
  | .restart a => registered s a && quiescent s && s.clients.all (fun p => p.2.iqReg.isEmpty && p.2.pendingIn.isEmpty)

def AllowedRun : Sys → List Act → Bool
  | _, [] => true
  | s, a :: as => Allowed s a && AllowedRun (step s a) as

end Yow.E2E
