/-
  Model of the noise layer's orchestration of handshake and transport (crypto abstracted):
    yowsup/layers/noise/layer.py            on_auth (one worker per attempt), receive (queue.put; flush unless in handshake),
                                            _flush_incoming_buffer (flush lock; while queue non-empty: receive one frame, hand it up),
                                            _handle_stream_event (EVENT_READ: blocking queue.get), _on_protocol_state_changed
                                            (store a new server key, flush), on_handshake_finished (failure → <failure> upward),
                                            on_disconnected (protocol reset; fresh queue and stream)
    yowsup/layers/noise/workers/handshake.py  worker thread: reset, start (handshake), finish callback
    consonance WANoiseProtocol              state machine init / handshake / transport / error
  Two kinds of threads: the network thread (segments arriving, auth / disconnect events) and handshake workers.  A schedule
  is a list of actions; each performs one atomic operation of one thread (or nothing, if that thread cannot move).
  A segment carries the connection it arrived on, whether it is the server's handshake reply or a transport frame, whether it
  authenticates, and a serial number.  `Cfg` (regenerated from the source, Gen/HsCfg.lean) says whether a disconnect retires
  the segment queue and whether the segment layer drops a half-received segment.
-/
namespace Yow.HS

structure Cfg where
  freshQueue : Bool      -- on_disconnected replaces the segment queue (and stream)
  freshProtocol : Bool   -- on_disconnected replaces the protocol object; callbacks of an abandoned one are ignored
  segReset : Bool        -- the segment layer clears its read buffer on disconnect
deriving Repr, DecidableEq

inductive PState | init | handshake | transport | error
deriving Repr, DecidableEq

inductive SKind | hello | frame
deriving Repr, DecidableEq

structure Seg where
  conn : Nat          -- connection it arrived on
  kind : SKind
  good : Bool         -- authenticates / decrypts under the keys of its connection's handshake
  serial : Nat
deriving Repr, DecidableEq

/-- what the worker does next -/
inductive WPc
  | reading                 -- blocked in queue.get for the server's reply
  | finishing (ok : Bool)   -- reply read: about to finish (ok) or fail the handshake
  | wantFlush | inFlush     -- after the switch to transport: _flush_incoming_buffer
  | done
deriving Repr, DecidableEq

structure Worker where
  conn : Nat          -- the attempt (connection) it belongs to
  q : Nat             -- the queue object it reads from
  p : Nat             -- the protocol object it drives
  pc : WPc
deriving Repr, DecidableEq

/-- what the network thread does next -/
inductive NPc
  | idle
  | check                   -- after queue.put: `if not self._in_handshake()`
  | wantFlush | inFlush
deriving Repr, DecidableEq

inductive Up
  | frame (s : Seg)         -- a decrypted frame handed upward
  | failure (conn : Nat)    -- <failure> stanza + EVENT_HANDSHAKE_FAILED
  | raised                  -- an exception escaped (receive in a state that does not allow it, undecryptable frame)
deriving Repr, DecidableEq

structure Proto where
  state : PState := .init
  keyOf : Option Nat := none            -- connection whose handshake produced its transport keys
deriving Repr, DecidableEq

structure St where
  protos : List Proto := [{}]           -- protocol objects ever created
  curP : Nat := 0                       -- the one the layer currently uses
  conn : Nat := 0                       -- current connection (0 = none yet)
  curQ : Nat := 0                       -- the queue object the layer currently uses
  queues : List (Nat × List Seg) := [(0, [])]
  workers : List Worker := []
  npc : NPc := .idle
  flushHeld : Bool := false
  up : List Up := []
  -- ghost: the environment's bookkeeping
  live : Bool := false                  -- a connection is up
  helloSeen : Bool := false             -- the server's reply on the current connection has arrived
  lastSerial : Nat := 0
  arrived : List Seg := []              -- every segment that arrived, in order
deriving Repr, DecidableEq

def pGet (s : St) (p : Nat) : Proto := s.protos.getD p {}
def pSet (s : St) (p : Nat) (x : Proto) : St := { s with protos := s.protos.set p x }
/-- the layer's view: `self._wa_noiseprotocol.state` -/
def pstate (s : St) : PState := (pGet s s.curP).state
def keyOf (s : St) : Option Nat := (pGet s s.curP).keyOf

def qGet (s : St) (q : Nat) : List Seg := ((s.queues.find? (fun e => e.1 == q)).map Prod.snd).getD []
def qSet (s : St) (q : Nat) (l : List Seg) : St :=
  { s with queues := if s.queues.any (fun e => e.1 == q) then s.queues.map (fun e => if e.1 == q then (q, l) else e) else s.queues ++ [(q, l)] }

inductive Act
  | connect                      -- network: connection established, EVENT_AUTH reaches the layer (on_auth)
  | arrive (sg : Seg)            -- network: a whole segment arrives from the segment layer (queue.put)
  | net                          -- network thread: next micro-step (check / acquire flush lock / one flush iteration / release)
  | disconnect                   -- network: EVENT_STATE_DISCONNECTED
  | worker (i : Nat)             -- worker i: next micro-step
deriving Repr, DecidableEq

inductive FlushOut | empty | delivered | refused | undecryptable
deriving Repr, DecidableEq

/-- one iteration of the flush loop: `toUpper(protocol.receive())` with the layer's CURRENT queue and protocol object.
    `refused`: the protocol's state machine does not allow `receive` (nothing is consumed, the exception ends the loop);
    `undecryptable`: the frame was consumed but does not decrypt. -/
def flushOne (s : St) : St × FlushOut :=
  match qGet s s.curQ with
  | [] => (s, .empty)
  | sg :: rest =>
    if pstate s != .transport then (s, .refused)
    else
      let s1 := qSet s s.curQ rest
      if sg.kind == .frame && sg.good && keyOf s == some sg.conn then ({ s1 with up := s1.up ++ [.frame sg] }, .delivered)
      else (pSet s1 s1.curP { pGet s1 s1.curP with state := .error }, .undecryptable)

def step (cfg : Cfg) (s : St) : Act → St
  | .connect =>
    if s.npc != .idle then s
    else
      let c := s.conn + 1
      let s1 := { s with conn := c, live := true, helloSeen := false }
      -- on_auth: a worker is started unless a handshake is (believed to be) running
      if pstate s1 == .handshake then s1
      else
        -- the worker's run(): protocol.reset(); protocol.start(...) → state handshake
        { pSet s1 s1.curP { state := .handshake, keyOf := none } with workers := s1.workers ++ [{ conn := c, q := s1.curQ, p := s1.curP, pc := .reading }] }
  | .arrive sg =>
    if s.npc != .idle then s
    else { qSet s s.curQ (qGet s s.curQ ++ [sg]) with npc := .check, arrived := s.arrived ++ [sg], lastSerial := sg.serial,
                                                       helloSeen := s.helloSeen || sg.kind == .hello }
  | .net =>
    match s.npc with
    | .idle => s
    | .check => if pstate s == .handshake then { s with npc := .idle } else { s with npc := .wantFlush }
    | .wantFlush => if s.flushHeld then s else { s with flushHeld := true, npc := .inFlush }
    | .inFlush =>
      let r := flushOne s
      match r.2 with
      | .delivered => r.1
      | .empty => { s with flushHeld := false, npc := .idle }
      | _ => { r.1 with flushHeld := false, npc := .idle, up := r.1.up ++ [.raised] }      -- the exception reaches the network thread
  | .disconnect =>
    -- between network reads (npc idle), or re-entrantly from inside the handling of a frame the network thread is flushing
    -- (the auth layer closes the connection for a <failure/> or a stream error): the flush loop then goes on with the
    -- layer's NEW queue and protocol object
    if s.npc != .idle && s.npc != .inFlush then s
    else
      let s0 := { s with live := false }
      let s1 := if cfg.freshProtocol then { s0 with curP := s0.protos.length, protos := s0.protos ++ [{}] }
                else pSet s0 s0.curP { state := .init, keyOf := none }
      if cfg.freshQueue then
        let q := s1.queues.length
        { s1 with curQ := q, queues := s1.queues ++ [(q, [])] }
      else s1
  | .worker i =>
    match s.workers[i]? with
    | none => s
    | some w =>
      let setW (s : St) (w' : Worker) : St := { s with workers := s.workers.set i w' }
      match w.pc with
      | .reading =>
        (match qGet s w.q with
         | [] => s                                        -- blocked
         | sg :: rest =>
           let ok := sg.kind == .hello && sg.good && sg.conn == w.conn
           setW (qSet s w.q rest) { w with pc := .finishing ok })
      | .finishing ok =>
        let pr := pGet s w.p
        let current := w.p == s.curP          -- callbacks of an abandoned protocol object are ignored
        if ok then
          -- machine.finish(): state transport with the keys of this attempt; then the layer's callback: flush
          if pr.state == .handshake then setW (pSet s w.p { state := .transport, keyOf := some w.conn }) { w with pc := if current then .wantFlush else .done }
          else setW s { w with pc := .done }           -- the state machine refuses `finish`: the worker thread dies
        else
          -- machine.fail() and on_handshake_finished(error)
          if pr.state == .handshake then
            let s1 := pSet s w.p { pr with state := .error }
            setW (if current then { s1 with up := s1.up ++ [.failure w.conn] } else s1) { w with pc := .done }
          else setW s { w with pc := .done }
      | .wantFlush => if s.flushHeld then s else setW { s with flushHeld := true } { w with pc := .inFlush }
      | .inFlush =>
        let r := flushOne s
        match r.2 with
        | .delivered => r.1
        | .empty => setW { s with flushHeld := false } { w with pc := .done }
        | .refused => setW { r.1 with flushHeld := false } { w with pc := .done }               -- the worker thread dies, nothing consumed
        | .undecryptable => setW { r.1 with flushHeld := false, up := r.1.up ++ [.raised] } { w with pc := .done }
      | .done => s

def run (cfg : Cfg) : St → List Act → St
  | s, [] => s
  | s, a :: as => run cfg (step cfg s a) as

def framesUp (s : St) : List Seg := s.up.filterMap (fun u => match u with | .frame sg => some sg | _ => none)

/-- all threads at rest: the network thread idle, every worker blocked reading or done, the flush lock free -/
def atRest (s : St) : Bool :=
  s.npc == .idle && !s.flushHeld && s.workers.all (fun w => w.pc == .done || (w.pc == .reading && (qGet s w.q).isEmpty))

/-- what the network and an honest server can do: one connection at a time; segments arrive on the live connection, the
    handshake reply first and once, then frames, in the order of their serial numbers -/
def Allowed (s : St) : Act → Bool
  | .connect => s.npc == .idle && !s.live
  | .disconnect => (s.npc == .idle || s.npc == .inFlush) && s.live
  | .arrive sg =>
    s.npc == .idle && s.live && sg.conn == s.conn && decide (s.lastSerial < sg.serial) &&
    (match sg.kind with
     | .hello => !s.helloSeen
     | .frame => s.helloSeen)
  | .net => true
  | .worker _ => true

def AllowedRun (cfg : Cfg) : St → List Act → Bool
  | _, [] => true
  | s, a :: as => Allowed s a && AllowedRun cfg (step cfg s a) as

/-- every segment that arrived authenticates -/
def allGood (s : St) : Bool := s.arrived.all (·.good)

/-- the frames that arrived on the current connection -/
def framesOfConn (s : St) : List Seg := s.arrived.filter (fun sg => sg.kind == .frame && sg.conn == s.conn)

def noRaise (s : St) : Bool := s.up.all (fun u => u != .raised)

end Yow.HS
