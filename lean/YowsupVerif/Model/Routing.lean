/-
  Model of how incoming stanzas and outgoing entities are routed through the protocol-layer group
  (one function per `layer.py`, guards written after the Python):
    yowsup/layers/__init__.py (YowProtocolLayer.receive/send via handleMap, YowParallelLayer fan-out),
    auth/layer_authentication.py, protocol_{messages,media,receipts,acks,presence,ib,iq,notifications,
    contacts,chatstate,calls,groups,privacy,profiles}/layer.py, axolotl/layer_control.py (encrypt notifications).
  A stanza / entity *descriptor* carries exactly the discriminating fields; strings the guards compare
  against are enumerated, every other string is `other` (the guards only test equality with literals,
  so `other` stands for ANY other string).  Replies to registered requests are C08's subject.
-/
namespace Yow.Routing

inductive Tag
  | message | receipt | ack | presence | chatstate | call | ib | iq | notification
  | success | failure | streamFeatures | streamError | other
deriving Repr, DecidableEq

/-- `type` attribute of a notification -/
inductive NType
  | picture | status | contacts | subject | wgp2 | encrypt | other
deriving Repr, DecidableEq

/-- `type` attribute of a message -/
inductive MType
  | text | media | other
deriving Repr, DecidableEq

/-- `mediatype` attribute of the `proto` child -/
inductive Media
  | absent | image | sticker | audio | ptt | video | gif | location | contact | document | url | other
deriving Repr, DecidableEq

/-- what the decoded payload of a message without mediatype contains -/
inductive Payload
  | conversation | extendedText | keyDistributionOnly | other
deriving Repr, DecidableEq

inductive Xmlns
  | ping | wp | push | w | account | encrypt | last | sync | wm | wg2 | profilePicture | privacy | status
  | jabberPrivacy | other | absent
deriving Repr, DecidableEq

inductive IqType
  | get | set | result | error | delete
deriving Repr, DecidableEq

/-- descriptor of an incoming stanza -/
structure Stanza where
  tag : Tag
  ntype : NType := .other          -- notification: type
  mtype : MType := .other          -- message: type
  hasProto : Bool := false         -- message: <proto> child present
  media : Media := .absent         -- message: proto mediatype
  payload : Payload := .other      -- message: decoded content (text path)
  iqType : IqType := .get
  xmlns : Xmlns := .absent
  callOffer : Bool := false        -- call: the entity's type is "offer"
  errKnown : Bool := false         -- stream:error: has a conflict / ack / xml-not-well-formed child
  -- children, by the names the guards ask for
  cSet : Bool := false
  cDelete : Bool := false
  cRemove : Bool := false
  cAdd : Bool := false
  cUpdate : Bool := false
  cSync : Bool := false
  cSubject : Bool := false
  cCreate : Bool := false
  cCount : Bool := false
  cIdentity : Bool := false
  cDirty : Bool := false
  cOffline : Bool := false
  cAccount : Bool := false
deriving Repr, DecidableEq

/-- entities that reach the application -/
inductive Ent
  | success | failure | streamFeatures | streamError
  | text | extendedText
  | image | sticker | audio | video | location | contact | document | extendedTextMedia
  | receipt | ack | presence | chatstate | call
  | ibDirty | ibOffline | ibAccount
  | syncResult
  | pictureSet | pictureDelete | statusNotification
  | contactRemove | contactAdd | contactUpdate | contactsSync
  | groupSubject | groupCreate | groupRemove | groupAdd
deriving Repr, DecidableEq

/-- stanzas sent back down in response -/
inductive Down
  | notificationAck (withParticipant : Bool)    -- <ack class=notification id type to [participant]>
  | callReceipt                                  -- <receipt id to><offer call-id/></receipt>
  | callAck                                      -- <ack class=call id to>
  | pong                                         -- <iq type=result id to>
  | messageReceipt                               -- <receipt id to [participant]>
  | messageReadReceipt                           -- media layer: ack(True) → receipt type=read
deriving Repr, DecidableEq

/-- also: events broadcast by the auth layer -/
inductive Evt
  | authed | disconnectRequest
deriving Repr, DecidableEq

structure Out where
  ups : List Ent := []
  downs : List Down := []
  evts : List Evt := []
deriving Repr, DecidableEq

def Out.append (a b : Out) : Out := { ups := a.ups ++ b.ups, downs := a.downs ++ b.downs, evts := a.evts ++ b.evts }

/-- a layer's handler result: `none` = it raised -/
abbrev R := Option Out

def nothing : R := some {}
def up (e : Ent) : R := some { ups := [e] }
def down (d : Down) : R := some { downs := [d] }

/-! ### receive handlers, one per layer -/

def recvAuth (s : Stanza) : R :=
  match s.tag with
  | .streamFeatures => up .streamFeatures
  | .failure => some { ups := [.failure], evts := [.disconnectRequest] }
  | .success => some { ups := [.success], evts := [.authed] }
  | .streamError => up .streamError       -- of a known kind or not: handed to the application (which disconnects)
  | _ => nothing

def recvMessages (s : Stanza) : R :=
  match s.tag with
  | .message =>
    if s.hasProto && s.media == .absent then
      match s.payload with
      | .conversation => up .text
      | .extendedText => up .extendedText
      | .keyDistributionOnly => nothing
      | .other => down .messageReceipt
    else nothing
  | _ => nothing

def recvMedia (s : Stanza) : R :=
  match s.tag with
  | .message =>
    if s.mtype == .media then
      if !s.hasProto then none          -- mediaNode is None → AttributeError
      else if s.payload == .keyDistributionOnly then nothing      -- a sender key distribution on its own is not a media message
      else
        match s.media with
        | .image => up .image
        | .sticker => up .sticker
        | .audio => up .audio
        | .ptt => up .audio
        | .video => up .video
        | .gif => up .video
        | .location => up .location
        | .contact => up .contact
        | .document => up .document
        | .url => up .extendedTextMedia
        | .absent => down .messageReadReceipt
        | .other => down .messageReadReceipt
    else nothing
  | _ => nothing

def recvReceipts (s : Stanza) : R := match s.tag with | .receipt => up .receipt | _ => nothing
def recvAcks (s : Stanza) : R := match s.tag with | .ack => up .ack | _ => nothing
def recvPresence (s : Stanza) : R := match s.tag with | .presence => up .presence | _ => nothing
def recvChatstate (s : Stanza) : R := match s.tag with | .chatstate => up .chatstate | _ => nothing

def recvIb (s : Stanza) : R :=
  match s.tag with
  | .ib =>
    if s.cDirty then up .ibDirty
    else if s.cOffline then up .ibOffline
    else if s.cAccount then up .ibAccount
    else nothing                       -- edge_routing / attestation / fbip / unsupported: logged only
  | _ => nothing

def recvIq (s : Stanza) : R :=
  match s.tag with
  | .iq => if s.xmlns == .ping then down .pong else nothing
  | _ => nothing

def recvNotifications (s : Stanza) : R :=
  match s.tag with
  | .notification =>
    match s.ntype with
    | .picture =>
      if s.cSet then some { ups := [.pictureSet], downs := [.notificationAck true] }
      else if s.cDelete then some { ups := [.pictureDelete], downs := [.notificationAck true] }
      else none                          -- raiseErrorForNode
    | .status => some { ups := [.statusNotification], downs := [.notificationAck true] }
    | _ => down (.notificationAck true)
  | _ => nothing

def recvContacts (s : Stanza) : R :=
  match s.tag with
  | .notification =>
    if s.ntype == .contacts then
      if s.cRemove then up .contactRemove
      else if s.cAdd then up .contactAdd
      else if s.cUpdate then up .contactUpdate
      else if s.cSync then up .contactsSync
      else nothing
    else nothing
  | .iq => if s.iqType == .result && s.cSync then up .syncResult else nothing
  | _ => nothing

def recvCalls (s : Stanza) : R :=
  match s.tag with
  | .call =>
    if s.callOffer then some { ups := [.call], downs := [.callReceipt] }
    else some { ups := [.call], downs := [.callAck] }
  | _ => nothing

def recvGroups (s : Stanza) : R :=
  match s.tag with
  | .notification =>
    if s.ntype == .wgp2 then
      if s.cSubject then up .groupSubject
      else if s.cCreate then up .groupCreate
      else if s.cRemove then up .groupRemove
      else if s.cAdd then up .groupAdd
      else nothing
    else nothing
  | _ => nothing

def recvPrivacy (_ : Stanza) : R := nothing
def recvProfiles (_ : Stanza) : R := nothing

/-- the optional modules -/
structure Flags where
  groups : Bool
  media : Bool
  privacy : Bool
  profiles : Bool
deriving Repr, DecidableEq

/-- the protocol group in `getProtocolLayers` order -/
def recvHandlers (f : Flags) : List (Stanza → R) :=
  [recvAuth, recvMessages, recvReceipts, recvAcks, recvPresence, recvIb, recvIq, recvNotifications,
   recvContacts, recvChatstate, recvCalls]
  ++ (if f.groups then [recvGroups] else []) ++ (if f.media then [recvMedia] else [])
  ++ (if f.privacy then [recvPrivacy] else []) ++ (if f.profiles then [recvProfiles] else [])

/-- `YowParallelLayer.receive`: every member in order; an exception aborts the loop (what was already
    emitted stays emitted) -/
def runAll (hs : List (Stanza → R)) (s : Stanza) (acc : Out) : Out × Bool :=
  match hs with
  | [] => (acc, false)
  | h :: rest =>
    match h s with
    | none => (acc, true)
    | some o => runAll rest s (acc.append o)

/-- `AxolotlControlLayer.receive` in front of the group: `encrypt` notifications with a count / identity
    child are acknowledged and consumed there -/
def recvStack (f : Flags) (withEncryption : Bool) (s : Stanza) : Out × Bool :=
  if withEncryption && s.tag == .notification && s.ntype == .encrypt && (s.cCount || s.cIdentity) then
    ({ downs := [.notificationAck true] }, false)
  else runAll (recvHandlers f) s {}

/-! ### send handlers -/

/-- descriptor of an outgoing entity -/
inductive EClass   -- the classes some send guards test with `__class__ ==` / isinstance
  | plain | cleanIq | groupsRequest | getStatuses | setStatus
deriving Repr, DecidableEq

structure Entity where
  tag : Tag
  mtype : MType := .other
  xmlns : Xmlns := .absent
  iqType : IqType := .get
  cls : EClass := .plain
deriving Repr, DecidableEq

/-- a send handler answers: how many stanzas it hands down (0 or 1), or raises -/
abbrev S := Option Nat

def sendAuth (_ : Entity) : S := some 0
def sendMessages (e : Entity) : S := match e.tag with | .message => some (if e.mtype == .text then 1 else 0) | _ => some 0
def sendMedia (e : Entity) : S :=
  match e.tag with
  | .message => some (if e.mtype == .media then 1 else 0)
  | .iq => some (if e.iqType == .set && e.xmlns == .wm then 1 else 0)
  | _ => some 0
def sendReceipts (e : Entity) : S := match e.tag with | .receipt => some 1 | _ => some 0
def sendAcks (e : Entity) : S := match e.tag with | .ack => some 1 | _ => some 0
def sendPresence (e : Entity) : S :=
  match e.tag with
  | .presence => some 1
  | .iq => some (if e.xmlns == .last then 1 else 0)
  | _ => some 0
def sendChatstate (e : Entity) : S := match e.tag with | .chatstate => some 1 | _ => some 0
def sendIb (e : Entity) : S :=
  match e.tag with
  | .ib => some (if e.cls == .cleanIq then 1 else 0)
  | .iq => some (if e.cls == .cleanIq then 1 else 0)
  | _ => some 0
def sendIq (e : Entity) : S :=
  match e.tag with
  | .iq => some (if e.xmlns == .wp || e.xmlns == .push || e.xmlns == .w || e.xmlns == .account || e.xmlns == .encrypt then 1 else 0)
  | _ => some 0
def sendNotifications (e : Entity) : S := match e.tag with | .notification => some 1 | _ => some 0
def sendContacts (e : Entity) : S := match e.tag with | .iq => some (if e.xmlns == .sync then 1 else 0) | _ => some 0
def sendCalls (e : Entity) : S := match e.tag with | .call => some 1 | _ => some 0
def sendGroups (e : Entity) : S := match e.tag with | .iq => some (if e.cls == .groupsRequest then 1 else 0) | _ => some 0
def sendPrivacy (e : Entity) : S := match e.tag with | .iq => some (if e.xmlns == .jabberPrivacy then 1 else 0) | _ => some 0
def sendProfiles (e : Entity) : S :=
  match e.tag with
  | .iq =>
    if e.xmlns == .profilePicture then some (if e.iqType == .get || e.iqType == .set || e.iqType == .delete then 1 else 0)
    else if e.xmlns == .privacy then some 1
    else if e.cls == .getStatuses || e.cls == .setStatus then some 1
    else some 0
  | _ => some 0

def sendHandlers (f : Flags) : List (Entity → S) :=
  [sendAuth, sendMessages, sendReceipts, sendAcks, sendPresence, sendIb, sendIq, sendNotifications,
   sendContacts, sendChatstate, sendCalls]
  ++ (if f.groups then [sendGroups] else []) ++ (if f.media then [sendMedia] else [])
  ++ (if f.privacy then [sendPrivacy] else []) ++ (if f.profiles then [sendProfiles] else [])

/-- total number of stanzas leaving the group for one entity -/
def sendAll (hs : List (Entity → S)) (e : Entity) : Nat :=
  match hs with
  | [] => 0
  | h :: rest => (h e).getD 0 + sendAll rest e

/-- which (recv?, send?) handlers each layer registers per tag — compared with the regenerated handle maps -/
def handleMapSpec : List (Nat × List (Tag × Bool × Bool)) :=
  [ (10, [(.success, true, false), (.failure, true, false), (.streamFeatures, true, false), (.streamError, true, false)]),
    (11, [(.message, true, true)]),
    (12, [(.receipt, true, true)]),
    (13, [(.ack, true, true)]),
    (14, [(.presence, true, true), (.iq, false, true)]),
    (15, [(.ib, true, true), (.iq, false, true)]),
    (16, [(.iq, true, true)]),
    (17, [(.notification, true, true)]),
    (18, [(.iq, true, true), (.notification, true, false)]),
    (19, [(.chatstate, true, true)]),
    (20, [(.call, true, true)]),
    (21, [(.iq, false, true), (.notification, true, false)]),
    (22, [(.message, true, true), (.iq, true, true)]),
    (23, [(.iq, true, true)]),
    (24, [(.iq, true, true)]) ]

end Yow.Routing
