/-
  Executable bookkeeping over the E2E system model: where the "token" of a (message, recipient) pair currently is.
  Every submitted message owes one showing to each intended recipient; the token is the thing in the system that
  will eventually produce it: a continuation waiting for keys / group info at the sender, a message stanza in a
  queue or parked at the recipient, a retry request on its way back, or the showing itself.  These functions are
  evaluated by the driver after every step of the correspondence runs and are the subject of Lemmas/E2E.lean.
-/
import YowsupVerif.Model.E2E
namespace Yow.E2E

def intended (s : Sys) (a : Acct) (n : Node) : List Acct :=
  match n.dest with
  | .user b => [b]
  | .group g => (members s g).filter (· != a)

/-- token held by a continuation at the sender -/
def contTok (id : Nat) (r : Acct) : Cont → Nat
  | .keysForSend n => if n.id = id then 1 else 0
  | .groupInfo n => if n.id = id then 1 else 0
  | .keysForGroup n _ _ => if n.id = id then 1 else 0
  | .keysForRetry n who _ => if n.id = id ∧ who = r then 1 else 0
  | .keysForPending _ _ => 0

/-- a stanza on its way from the sender `a` to the server -/
def upTok (id : Nat) (r : Acct) : Stanza → Nat
  | .msg id' _ participant _ _ _ => if id' = id ∧ (participant = none ∨ participant = some r) then 1 else 0
  | _ => 0

/-- a stanza queued for / parked at the recipient `r` -/
def downTok (id : Nat) : Stanza → Nat
  | .msg id' _ _ _ _ _ => if id' = id then 1 else 0
  | _ => 0

/-- a retry request on its way from the recipient to the server -/
def retryUpTok (id : Nat) : Stanza → Nat
  | .receipt id' _ _ (.retry _) => if id' = id then 1 else 0
  | _ => 0

/-- a retry request of recipient `r` queued for the sender -/
def retryDownTok (id : Nat) (r : Acct) : Stanza → Nat
  | .receipt id' peer participant (.retry _) =>
    if id' = id ∧ (participant = some r ∨ (participant = none ∧ peer = .user r)) then 1 else 0
  | _ => 0

def sumMap {α} (f : α → Nat) (l : List α) : Nat := (l.map f).sum

/-- all tokens of (message `id` sent by `a`, recipient `r`) -/
def tokens (s : Sys) (a : Acct) (id : Nat) (r : Acct) : Nat :=
  let ca := getClient s a
  let cr := getClient s r
  sumMap (fun e => contTok id r e.2) ca.iqReg
  + sumMap (upTok id r) (queueOf s.inbound a)
  + sumMap (downTok id) (queueOf s.outbound r)
  + sumMap (fun e => sumMap (downTok id) e.2) cr.pendingIn
  + sumMap (retryUpTok id) (queueOf s.inbound r)
  + sumMap (retryDownTok id r) (queueOf s.outbound a)
  + (cr.shown.filter (fun x => x.id == id)).length

/-- every (message, intended recipient) has exactly one token -/
def conserved (s : Sys) : Bool :=
  s.submitted.all (fun p => (intended s p.1 p.2).all (fun r => tokens s p.1 p.2.id r == 1))

/-- at quiescence with nothing pending anywhere, conservation means: shown exactly once -/
def settled (s : Sys) : Bool :=
  quiescent s && s.clients.all (fun p => p.2.iqReg.isEmpty && p.2.pendingIn.isEmpty)

def shownCount (s : Sys) (r : Acct) (id : Nat) : Nat := ((getClient s r).shown.filter (fun x => x.id == id)).length

def NoFault : List Act → Bool
  | [] => true
  | .deliver _ .none :: as => NoFault as
  | .deliver _ _ :: _ => false
  | _ :: as => NoFault as

end Yow.E2E
