/-
  Model of yowsup/layers/noise/layer_noise_segments.py (YowNoiseSegmentsLayer).

  receive(data):  buffer.extend(data); while len(buffer) > 3: n = be24(buffer[:3]);
                  if len(buffer) >= 3+n: deliver buffer[3:3+n]; buffer = buffer[3+n:] else break
  send(data):     if len(data) >= 2^24: raise; write(be24(len)); write(data)
-/
import YowsupVerif.Model.Bytes
namespace Yow.Segments

/-- `struct.pack('>I', n)[1:]` -/
def be24 (n : Nat) : Bytes := [n / 65536 % 256, n / 256 % 256, n % 256]

/-- `struct.unpack('>I', b"\x00" + buf[:3])[0]` -/
def rd24 (a b c : Nat) : Nat := a * 65536 + b * 256 + c

/-- The `while len(buffer) > 3` loop: frames handed upward (in order) and the buffer left. -/
def peel (buf : Bytes) : List Bytes × Bytes :=
  match buf with
  | a :: b :: c :: d :: rest =>
    let n := rd24 a b c
    if _h : n ≤ (d :: rest).length then
      let r := peel ((d :: rest).drop n)
      ((d :: rest).take n :: r.1, r.2)
    else ([], buf)
  | _ => ([], buf)
termination_by buf.length
decreasing_by simp [List.length_drop]; omega

structure St where
  enabled : Bool
  buf : Bytes
deriving Repr

/-- `receive(data)`: returns the new state and what is handed to the upper layer. -/
def recv (s : St) (chunk : Bytes) : St × List Bytes :=
  if s.enabled then
    let r := peel (s.buf ++ chunk)
    ({ s with buf := r.2 }, r.1)
  else (s, [chunk])

inductive SendOut
  | refused
  | writes (ws : List Bytes)
deriving Repr, DecidableEq

/-- `send(data)`: the list of writes to the lower layer, or the refusal. -/
def send (enabled : Bool) (p : Bytes) : SendOut :=
  if 16777216 ≤ p.length then .refused
  else if enabled then .writes [be24 p.length, p] else .writes [p]

/-- A frame as the peer puts it on the wire. -/
def frame (p : Bytes) : Bytes := be24 p.length ++ p

def stream (fs : List Bytes) : Bytes := (fs.map frame).flatten

/-- Run `recv` over a list of chunks, collecting everything delivered. -/
def run (s : St) (cs : List Bytes) : St × List Bytes :=
  cs.foldl (fun (acc : St × List Bytes) c =>
    let r := recv acc.1 c
    (r.1, acc.2 ++ r.2)) (s, [])

/-! ### upward failures (C12): handing a frame upward may raise

`receive` cuts a frame off the buffer BEFORE it hands it upward; an exception raised by the layers above ends the call and
leaves the rest of the buffer for the next call. `bad f` says that handling frame `f` raises. -/

/-- the loop with failures: frames handed upward (a failing one is the last), the buffer left, whether the call raised -/
def peelF (bad : Bytes → Bool) (buf : Bytes) : List Bytes × Bytes × Bool :=
  match buf with
  | a :: b :: c :: d :: rest =>
    let n := rd24 a b c
    if _h : n ≤ (d :: rest).length then
      if bad ((d :: rest).take n) then ([(d :: rest).take n], (d :: rest).drop n, true)
      else
        let r := peelF bad ((d :: rest).drop n)
        ((d :: rest).take n :: r.1, r.2.1, r.2.2)
    else ([], buf, false)
  | _ => ([], buf, false)
termination_by buf.length
decreasing_by simp [List.length_drop]; omega

/-- `receive(data)` of an enabled layer: new buffer, frames handed upward, raised? -/
def recvF (bad : Bytes → Bool) (buf chunk : Bytes) : Bytes × List Bytes × Bool :=
  let r := peelF bad (buf ++ chunk)
  (r.2.1, r.1, r.2.2)

structure RunF where
  buf : Bytes := []
  handed : List Bytes := []       -- every frame handed upward so far, in order (failing ones included)
  raises : Nat := 0               -- calls that ended with an exception
deriving Repr, DecidableEq

/-- one `receive` call per chunk; the caller catches the exception and calls again with the next chunk -/
def runF (bad : Bytes → Bool) (s : RunF) : List Bytes → RunF
  | [] => s
  | c :: cs =>
    let r := recvF bad s.buf c
    runF bad { buf := r.1, handed := s.handed ++ r.2.1, raises := s.raises + (if r.2.2 then 1 else 0) } cs

/-! ### a frame whose handling closes the connection (C05 / C16): the layers above may ask for a disconnect while a frame is being
handed upward (a stream error, a login failure); the network layer closes synchronously and `on_disconnected` drops the read buffer while
`receive` is still inside its loop.  The loop re-reads `self._read_buffer` at every turn, so it ends there: what was behind the closing
frame belonged to the dead connection and is gone, and the next connection starts from an empty buffer. `closes f` = handling `f` closes. -/

/-- `receive(data)` of an enabled layer: new buffer, frames handed upward (the closing one is the last), closed? -/
def recvC (closes : Bytes → Bool) (buf chunk : Bytes) : Bytes × List Bytes × Bool :=
  let r := peelF closes (buf ++ chunk)
  if r.2.2 then ([], r.1, true) else (r.2.1, r.1, false)

end Yow.Segments
