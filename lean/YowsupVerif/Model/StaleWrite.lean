/-
  Model of the noise layer's write path against the replacement of the connection (yowsup/layers/noise/layer.py):

    send:   WANoiseProtocol.send on the protocol object the sender found when it entered (its transport encrypts for THAT session and
            writes into THAT session's stream); the stream's callback then runs
              _handle_stream_event(EVENT_WRITE, stream):  segment = stream.get_write_segment()
                                                          with self._stream_lock:        (cfg.atomic)
                                                              if stream is self._stream: self.toLower(segment)
    on_disconnected (the loop / network thread):          with self._stream_lock:        (cfg.atomic)
                                                              new protocol object, new queue, new stream

  Senders are sequences of atomic steps; a schedule picks which thread moves next; taking a held lock does not move.  The wire records,
  for every frame written, the connection that was current at the write and the session the frame was encrypted for.
  `Cfg.atomic` — are the check and the write one step with respect to the replacement? — is regenerated from the current source
  (Gen/StaleWriteCfg.lean).
-/
namespace Yow.Stale

structure Cfg where
  atomic : Bool
deriving Repr, DecidableEq

inductive Op
  | enter        -- the sender enters send(): it works with the current session's protocol object and stream from here on
  | lock | unlock
  | check        -- `stream is self._stream`
  | write        -- toLower(segment) if the check said so
  | swap         -- on_disconnected: the next connection's objects become current
deriving Repr, DecidableEq

def sendProgram (cfg : Cfg) : List Op :=
  [.enter] ++ (if cfg.atomic then [.lock] else []) ++ [.check, .write] ++ (if cfg.atomic then [.unlock] else [])

def swapProgram (cfg : Cfg) : List Op :=
  (if cfg.atomic then [.lock] else []) ++ [.swap] ++ (if cfg.atomic then [.unlock] else [])

structure Thread where
  ops : List Op
  sess : Nat := 0          -- session of the protocol object / stream the sender works with
  ok : Bool := false       -- result of the check
deriving Repr, DecidableEq

structure St where
  threads : List Thread
  cur : Nat := 0                    -- the current connection (= its session, stream, queue)
  lock : Option Nat := none         -- holder of the stream lock
  wire : List (Nat × Nat) := []     -- (connection current at the write, session the frame was encrypted for)
deriving Repr, DecidableEq

/-- `work[i] = some n`: thread i sends n stanzas; `none`: thread i is a connection loss followed by a new login -/
def programOf (cfg : Cfg) : Option Nat → List Op
  | some n => (List.replicate n (sendProgram cfg)).flatten
  | none => swapProgram cfg

def init (cfg : Cfg) (work : List (Option Nat)) : St := { threads := work.map fun w => { ops := programOf cfg w } }

def setThread (s : St) (i : Nat) (t : Thread) : St := { s with threads := s.threads.set i t }

def step (s : St) (i : Nat) : St :=
  match s.threads[i]? with
  | none => s
  | some t =>
    match t.ops with
    | [] => s
    | op :: rest =>
      let t' := { t with ops := rest }
      match op with
      | .enter => setThread s i { t' with sess := s.cur, ok := false }
      | .lock => if s.lock.isNone then { setThread s i t' with lock := some i } else s
      | .unlock => { setThread s i t' with lock := none }
      | .check => setThread s i { t' with ok := decide (t.sess = s.cur) }
      | .write => if t.ok then { setThread s i { t' with ok := false } with wire := s.wire ++ [(s.cur, t.sess)] } else setThread s i t'
      | .swap => { setThread s i t' with cur := s.cur + 1 }

def run : St → List Nat → St
  | s, [] => s
  | s, i :: is => run (step s i) is

/-- every frame on the wire was encrypted for the connection it was written to -/
def Clean (w : List (Nat × Nat)) : Prop := ∀ p ∈ w, p.1 = p.2

instance (w : List (Nat × Nat)) : Decidable (Clean w) := by unfold Clean; infer_instance

end Yow.Stale
