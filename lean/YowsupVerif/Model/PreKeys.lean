/-
  Model of one-time prekey bookkeeping:
    yowsup/axolotl/manager.py             level_prekeys / load_unsent_prekeys / set_prekeys_as_sent
    yowsup/layers/axolotl/layer_control.py on_connected / onAuthed / onRequestKeysEncryptNotification /
                                           flush_keys / on_keys_flushed / onSentKeysError / on_disconnected, adjustId
    yowsup/axolotl/store/sqlite/liteprekeystore.py  prekeys table (id UNIQUE, record, sent_to_server), loadMaxPreKeyId
    python-axolotl                         a first message (pkmsg) loads the prekey it names and then removes it
  Keys are abstract values (`Nat`); every generated key is fresh (counter `nextKey`).
-/
namespace Yow.PreKeys

structure Row where
  id : Nat
  key : Nat
  sent : Bool
deriving Repr, DecidableEq

/-- an upload in flight (registry entry of the SetKeysIq): the prekeys it carries, and whether its confirmation
    triggers the "reboot connection" disconnect -/
structure Upload where
  rid : Nat
  keys : List (Nat × Nat)      -- (id, key)
  reboot : Bool
deriving Repr, DecidableEq

structure St where
  db : List Row := []                 -- persistent: the live rows of the prekeys table
  tomb : List Nat := []               -- persistent: ids of rows whose key was consumed (the row stays, without key material)
  unsent : List (Nat × Nat) := []     -- layer's _unsent_prekeys (volatile)
  inflight : List Upload := []        -- volatile (iq registry)
  rebootFlag : Bool := false          -- volatile
  passiveProp : Bool := false         -- stack property PROP_PASSIVE (volatile)
  nextKey : Nat := 1                  -- fresh key material
  nextRid : Nat := 1
  connectedNow : Bool := false        -- a connection is up (the layer holds the key store)
  authedNow : Bool := false           -- … and the login on it succeeded
  -- ghost history (what an observer at the server saw)
  offered : List (Nat × Nat) := []    -- every (id, key) that appeared in an upload
  confirmed : List (Nat × Nat) := []  -- every (id, key) of an upload the server confirmed
  consumed : List (Nat × Nat) := []   -- every (id, key) used by a first message
deriving Repr, DecidableEq

structure Params where
  batch : Nat          -- COUNT_GEN_PREKEYS
  threshold : Nat      -- THRESHOLD_REGEN

def maxId (db : List Row) : Nat := db.foldl (fun m r => max m r.id) 0

/-- `loadMaxPreKeyId`: over every row of the table, consumed ones included -/
def maxIdAll (s : List Row) (tomb : List Nat) : Nat := max (maxId s) (tomb.foldl max 0)

/-- `KeyHelper.generatePreKeys(maxId + 1, count)` with fresh key material (ids far below the 24-bit wrap) -/
def genKeys (start key count : Nat) : List (Nat × Nat) :=
  (List.range count).map (fun i => (start + i, key + i))

/-- `level_prekeys(force)`: returns the new state and the prekeys generated -/
def levelPrekeys (p : Params) (s : St) (force : Bool) : St × List (Nat × Nat) :=
  if force || decide (s.db.length < p.threshold) then
    let ks := genKeys (maxIdAll s.db s.tomb + 1) s.nextKey p.batch
    ({ s with db := s.db ++ ks.map (fun kv => { id := kv.1, key := kv.2, sent := false }), nextKey := s.nextKey + p.batch }, ks)
  else (s, [])

def unsentOf (db : List Row) : List (Nat × Nat) := (db.filter (fun r => !r.sent)).map (fun r => (r.id, r.key))

/-- `flush_keys` puts the prekeys into a dict keyed by id: a key listed twice is uploaded once -/
def dedupIds : List (Nat × Nat) → List (Nat × Nat)
  | [] => []
  | kv :: rest => kv :: (dedupIds rest).filter (fun x => x.1 != kv.1)

/-- `flush_keys`: registers the upload -/
def flushKeys (s : St) (keys : List (Nat × Nat)) (reboot : Bool) : St :=
  { s with inflight := s.inflight ++ [{ rid := s.nextRid, keys := keys, reboot := reboot }], nextRid := s.nextRid + 1,
           offered := s.offered ++ keys }

inductive Ev
  | connect                    -- connection established: on_connected
  | authed (passive : Bool)    -- login succeeded (the passive flag the login was made with)
  | serverAsksKeys             -- encrypt notification with <count>
  | uploadResult (rid : Nat)   -- result reply for upload `rid`
  | uploadError (rid : Nat)    -- error reply
  | disconnected               -- connection lost / closed (in-flight uploads stay unanswered)
  | restart                    -- process restart: volatile state gone, store kept
  | consume (id : Nat)         -- a peer's first message names prekey `id`
deriving Repr, DecidableEq

inductive Out
  | upload (rid : Nat) (keys : List (Nat × Nat))
  | disconnectRequest
  | reconnect
  | decryptOk (id key : Nat)
  | invalidKeyId (id : Nat)
  | raised
deriving Repr, DecidableEq

def step (p : Params) (s : St) : Ev → St × List Out
  | .connect =>
    let r := levelPrekeys p s false
    let s1 := r.1
    -- requests of an earlier connection are never answered by the server: modelled as forgotten
    let s2 := { s1 with unsent := s1.unsent ++ unsentOf s1.db, inflight := [], connectedNow := true, authedNow := false }
    ({ s2 with passiveProp := if s2.unsent.isEmpty then s2.passiveProp else true }, [])
  | .authed passive =>
    if passive && !s.unsent.isEmpty then
      let rid := s.nextRid
      let s1 := flushKeys s (dedupIds s.unsent) true
      ({ s1 with unsent := [], authedNow := true }, [.upload rid (dedupIds s.unsent)])
    else ({ s with authedNow := true }, [])
  | .serverAsksKeys =>
    let r := levelPrekeys p s true
    let rid := r.1.nextRid
    (flushKeys r.1 r.2 false, [.upload rid r.2])
  | .uploadResult rid =>
    match s.inflight.find? (fun u => u.rid == rid) with
    | none => (s, [])
    | some u =>
      let ids := u.keys.map Prod.fst
      let s1 := { s with inflight := s.inflight.filter (fun x => x.rid != rid),
                         db := s.db.map (fun r => if ids.contains r.id then { r with sent := true } else r),
                         confirmed := s.confirmed ++ u.keys }
      if u.reboot then ({ s1 with rebootFlag := true }, [.disconnectRequest]) else (s1, [])
  | .uploadError rid =>
    match s.inflight.find? (fun u => u.rid == rid) with
    | none => (s, [])
    | some _ => ({ s with inflight := s.inflight.filter (fun x => x.rid != rid) }, [.raised])
  | .disconnected =>
    let s0 := { s with inflight := [], connectedNow := false, authedNow := false }
    if s.rebootFlag then ({ s0 with rebootFlag := false, passiveProp := false }, [.reconnect]) else (s0, [])
  | .restart =>
    ({ s with unsent := [], inflight := [], rebootFlag := false, passiveProp := false, connectedNow := false, authedNow := false }, [])
  | .consume id =>
    match s.db.find? (fun r => r.id == id) with
    | none => (s, [.invalidKeyId id])
    | some r => ({ s with db := s.db.filter (fun x => x.id != id), tomb := s.tomb ++ [id], consumed := s.consumed ++ [(r.id, r.key)] }, [.decryptOk r.id r.key])

def run (p : Params) : St → List Ev → St × List Out
  | s, [] => (s, [])
  | s, e :: es =>
    let r := step p s e
    let rest := run p r.1 es
    (rest.1, r.2 ++ rest.2)

/-- What the server and the peers can do: one login per connection, with the passive flag the stack holds;
    key requests, replies to uploads of this connection and first messages only on an authenticated connection. -/
def Allowed (s : St) : Ev → Bool
  | .connect => true
  | .authed passive => s.connectedNow && !s.authedNow && (passive == s.passiveProp)
  | .serverAsksKeys => s.authedNow
  | .uploadResult rid => s.authedNow && s.inflight.any (fun u => u.rid == rid)
  | .uploadError rid => s.authedNow && s.inflight.any (fun u => u.rid == rid)
  | .disconnected => true
  | .restart => true
  | .consume _ => s.authedNow

def AllowedRun (p : Params) : St → List Ev → Bool
  | _, [] => true
  | s, e :: es => Allowed s e && AllowedRun p (step p s e).1 es

/-- `adjustId`: the id as big-endian bytes, at least 3 of them (hex, zero-filled to an even length ≥ 6) -/
def adjustId (n : Nat) : List Nat :=
  if n < 16777216 then [n / 65536 % 256, n / 256 % 256, n % 256]
  else [n / 16777216 % 256, n / 65536 % 256, n / 256 % 256, n % 256]      -- ids ≥ 2^24 do not occur (24-bit wrap)

end Yow.PreKeys
