/-
  Model of the sent-message memory of the encryption send layer (yowsup/layers/axolotl/layer_send.py: `sentQueue`, `enqueueSent`,
  `getEnqueuedMessageNode`): every message handed to the wire is remembered so that a retry request for it can be served by encrypting it
  again; the memory is bounded (`MAX_SENT_QUEUE`, regenerated) and a full memory makes room by forgetting its OLDEST entry; a receipt takes the
  message out (a receipt from a group participant leaves it in, other participants may still ask).
  Messages are identified by their stanza id (a number here).
-/
namespace Yow.SentQueue

inductive Op
  | enq (id : Nat)                    -- enqueueSent
  | take (id : Nat) (keep : Bool)     -- getEnqueuedMessageNode(id, keepEnqueued)
deriving Repr, DecidableEq

/-- `oldestFirst` = which end a full memory forgets: `true` is the code's `pop(0)`; `false` stands for a trim that drops the newcomer -/
def enqueue (oldestFirst : Bool) (cap : Nat) (q : List Nat) (x : Nat) : List Nat :=
  if q.length ≥ cap then (if oldestFirst then q.tail ++ [x] else (q ++ [x]).take cap) else q ++ [x]

def step (oldestFirst : Bool) (cap : Nat) (q : List Nat) : Op → List Nat
  | .enq x => enqueue oldestFirst cap q x
  | .take x keep => if keep then q else q.erase x

def run (oldestFirst : Bool) (cap : Nat) (q : List Nat) (ops : List Op) : List Nat := ops.foldl (step oldestFirst cap) q

/-- what a retry request for `x` finds -/
def found (q : List Nat) (x : Nat) : Bool := q.contains x

def isEnq : Op → Bool
  | .enq _ => true
  | _ => false

def removes (x : Nat) : Op → Bool
  | .take y keep => y == x && !keep
  | _ => false

end Yow.SentQueue
