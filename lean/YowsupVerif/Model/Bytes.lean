/-
  Bytes: a byte is a `Nat` (well-formed when `< 256`); byte strings are lists.
  Hex helpers for the line protocol of the driver (not used by theorems).
-/
namespace Yow

abbrev Bytes := List Nat

def BytesOK (bs : Bytes) : Prop := ∀ b ∈ bs, b < 256

instance (bs : Bytes) : Decidable (BytesOK bs) := by unfold BytesOK; infer_instance

namespace Hex

def digit (n : Nat) : Char :=
  if n < 10 then Char.ofNat (48 + n) else Char.ofNat (87 + n)

def ofBytes (bs : Bytes) : String :=
  String.ofList (bs.flatMap fun b => [digit (b / 16 % 16), digit (b % 16)])

def val? (c : Char) : Option Nat :=
  let n := c.toNat
  if 48 ≤ n ∧ n ≤ 57 then some (n - 48)
  else if 97 ≤ n ∧ n ≤ 102 then some (n - 87)
  else if 65 ≤ n ∧ n ≤ 70 then some (n - 55)
  else none

def toBytesAux : List Char → Bytes → Option Bytes
  | [], acc => some acc.reverse
  | [_], _ => none
  | a :: b :: rest, acc =>
    match val? a, val? b with
    | some x, some y => toBytesAux rest ((x * 16 + y) :: acc)
    | _, _ => none

/-- "-" encodes the empty byte string (so that every field is a non-empty word). -/
def toBytes? (s : String) : Option Bytes :=
  if s == "-" then some [] else toBytesAux s.toList []

def render (bs : Bytes) : String := if bs.isEmpty then "-" else ofBytes bs

end Hex
end Yow
