/-
  Model of stack assembly and propagation:
    yowsup/stacks/yowstack.py   YowStack._construct / send / receive / emitEvent / broadcastEvent /
                                execDetached / loop / getLayerInterface, YowStackBuilder push/pop
    yowsup/layers/__init__.py   YowLayer.toLower/toUpper/emitEvent/broadcastEvent/onEvent,
                                YowParallelLayer (method substitution, subEmitEvent/subBroadcastEvent,
                                short-circuit onEvent, getLayerInterface)
  Two levels:
    * the MECHANISM as the Python code has it: an array of instances wired by index
      (`upper = insts[i+1]`, `lower = insts[i-1]`), calls that follow those references, a FIFO of
      deferred callbacks;
    * the SPEC: plain recursion over the ordered list of slots.
  Props/C18.lean proves that the mechanism refines the spec for every shape.
-/
namespace Yow.Stack

/-- How the framework sees one layer (stateless view): class id, what `send(m)` passes to `toLower`
    (in order), what `receive(m)` passes to `toUpper`, whether `onEvent(ev)` returns True, and its
    interface object (`none` = `None`). -/
structure LayerB where
  cls : Nat
  tx : Nat → List Nat
  rx : Nat → List Nat
  consumes : Nat → Bool
  iface : Option Nat

/-- A stack element: one layer, or a parallel group (explicit `YowParallelLayer` or implicit tuple).
    Layers are named by ids into an environment `B : Nat → LayerB`. -/
inductive Slot
  | single (l : Nat)
  | par (ls : List Nat)
deriving Repr, DecidableEq

/-- Observable calls. -/
inductive Ev
  | sent (layer msg : Nat)     -- layer.send(msg) was called
  | recvd (layer msg : Nat)    -- layer.receive(msg) was called
  | saw (layer ev : Nat)       -- layer.onEvent(ev) was called
deriving Repr, DecidableEq

/-! ### Mechanism -/

structure Inst where
  slot : Slot
  upper : Option Nat
  lower : Option Nat
deriving Repr, DecidableEq

def wire (s : List Slot) : Nat → List Slot → List Inst
  | _, [] => []
  | i, sl :: rest =>
    { slot := sl,
      upper := if i + 1 < s.length then some (i + 1) else none,
      lower := if 0 < i then some (i - 1) else none } :: wire s (i + 1) rest

/-- `YowStack.__init__` + `_construct`: `reversed` flips the given order; instance `i` gets
    `insts[i+1]` as upper and `insts[i-1]` as lower. Index 0 is the bottom. -/
def construct (arr : List Slot) (reversed : Bool) : List Inst :=
  let s := if reversed then arr.reverse else arr
  wire s 0 s

def members : Slot → List Nat
  | .single l => [l]
  | .par ls => ls

/-- `inst.send(m)`: each member's `send`, whose `toLower` outputs go to `lower.send` (depth first). -/
def sendAt (B : Nat → LayerB) (insts : List Inst) : Nat → Nat → Nat → List Ev
  | 0, _, _ => []
  | f + 1, i, m =>
    match insts[i]? with
    | none => []
    | some inst =>
      (members inst.slot).flatMap fun l =>
        Ev.sent l m :: ((B l).tx m).flatMap fun m' =>
          match inst.lower with
          | some j => sendAt B insts f j m'
          | none => []

/-- `inst.receive(m)` -/
def recvAt (B : Nat → LayerB) (insts : List Inst) : Nat → Nat → Nat → List Ev
  | 0, _, _ => []
  | f + 1, i, m =>
    match insts[i]? with
    | none => []
    | some inst =>
      (members inst.slot).flatMap fun l =>
        Ev.recvd l m :: ((B l).rx m).flatMap fun m' =>
          match inst.upper with
          | some j => recvAt B insts f j m'
          | none => []

/-- `YowParallelLayer.onEvent`: `stop = stop or s.onEvent(ev)` — members after the first consumer
    are not asked (Python's `or` short-circuits). -/
def parOnEvent (B : Nat → LayerB) (ev : Nat) : List Nat → List Ev × Bool
  | [] => ([], false)
  | l :: ls =>
    if (B l).consumes ev then ([Ev.saw l ev], true)
    else
      let r := parOnEvent B ev ls
      (Ev.saw l ev :: r.1, r.2)

/-- `inst.onEvent(ev)` -/
def onEventInst (B : Nat → LayerB) (ev : Nat) : Slot → List Ev × Bool
  | .single l => ([Ev.saw l ev], (B l).consumes ev)
  | .par ls => parOnEvent B ev ls

/-- Result of an event call: what was seen synchronously, and the deferred continuation
    (`execDetached(lambda: insts[j].emitEvent(ev))`), if any. -/
structure EvOut where
  seen : List Ev
  deferred : Option Nat     -- instance index whose emitEvent / broadcastEvent is queued
deriving Repr, DecidableEq

/-- `insts[i].emitEvent(ev)` -/
def emitAt (B : Nat → LayerB) (insts : List Inst) : Nat → Nat → Nat → Bool → EvOut
  | 0, _, _, _ => ⟨[], none⟩
  | f + 1, i, ev, detached =>
    match insts[i]? with
    | none => ⟨[], none⟩
    | some inst =>
      match inst.upper with
      | none => ⟨[], none⟩
      | some j =>
        match insts[j]? with
        | none => ⟨[], none⟩
        | some up =>
          let r := onEventInst B ev up.slot
          if r.2 then ⟨r.1, none⟩
          else if detached then ⟨r.1, some j⟩
          else
            let k := emitAt B insts f j ev false
            ⟨r.1 ++ k.seen, k.deferred⟩

/-- `insts[i].broadcastEvent(ev)` -/
def broadcastAt (B : Nat → LayerB) (insts : List Inst) : Nat → Nat → Nat → Bool → EvOut
  | 0, _, _, _ => ⟨[], none⟩
  | f + 1, i, ev, detached =>
    match insts[i]? with
    | none => ⟨[], none⟩
    | some inst =>
      match inst.lower with
      | none => ⟨[], none⟩
      | some j =>
        match insts[j]? with
        | none => ⟨[], none⟩
        | some lo =>
          let r := onEventInst B ev lo.slot
          if r.2 then ⟨r.1, none⟩
          else if detached then ⟨r.1, some j⟩
          else
            let k := broadcastAt B insts f j ev false
            ⟨r.1 ++ k.seen, k.deferred⟩

/-- A layer of instance `i` calls `self.emitEvent(ev)`. For a member of a parallel group this is
    `subEmitEvent`: first the group's own `onEvent` (every member up to the first consumer sees it,
    the result is ignored), then the group's `emitEvent`. -/
def layerEmits (B : Nat → LayerB) (insts : List Inst) (i ev : Nat) (detached : Bool) : EvOut :=
  match insts[i]? with
  | none => ⟨[], none⟩
  | some inst =>
    match inst.slot with
    | .single _ => emitAt B insts insts.length i ev detached
    | .par ls =>
      let k := emitAt B insts insts.length i ev detached
      ⟨(parOnEvent B ev ls).1 ++ k.seen, k.deferred⟩

def layerBroadcasts (B : Nat → LayerB) (insts : List Inst) (i ev : Nat) (detached : Bool) : EvOut :=
  match insts[i]? with
  | none => ⟨[], none⟩
  | some inst =>
    match inst.slot with
    | .single _ => broadcastAt B insts insts.length i ev detached
    | .par ls =>
      let k := broadcastAt B insts insts.length i ev detached
      ⟨(parOnEvent B ev ls).1 ++ k.seen, k.deferred⟩

/-- `YowStack.emitEvent(ev)`: the bottom instance is asked first, then it emits. -/
def stackEmits (B : Nat → LayerB) (insts : List Inst) (ev : Nat) (detached : Bool) : EvOut :=
  match insts[0]? with
  | none => ⟨[], none⟩
  | some b =>
    let r := onEventInst B ev b.slot
    if r.2 then ⟨r.1, none⟩
    else
      let k := emitAt B insts insts.length 0 ev detached
      ⟨r.1 ++ k.seen, k.deferred⟩

/-- `YowStack.broadcastEvent(ev)`: the top instance is asked first. -/
def stackBroadcasts (B : Nat → LayerB) (insts : List Inst) (ev : Nat) (detached : Bool) : EvOut :=
  match insts[insts.length - 1]? with
  | none => ⟨[], none⟩
  | some t =>
    let r := onEventInst B ev t.slot
    if r.2 then ⟨r.1, none⟩
    else
      let k := broadcastAt B insts insts.length (insts.length - 1) ev detached
      ⟨r.1 ++ k.seen, k.deferred⟩

/-- One iteration of `YowStack.loop` for a queued emit continuation: `insts[j].emitEvent(ev)`
    with the event's detached flag already cleared. -/
def loopRunsEmit (B : Nat → LayerB) (insts : List Inst) (j ev : Nat) : List Ev :=
  (emitAt B insts insts.length j ev false).seen

def loopRunsBroadcast (B : Nat → LayerB) (insts : List Inst) (j ev : Nat) : List Ev :=
  (broadcastAt B insts insts.length j ev false).seen

/-- `YowStack.getLayerInterface(cls)`: first instance of that class, looking into parallel groups;
    a group whose lookup yields `None` is skipped. -/
def parInterface (B : Nat → LayerB) (c : Nat) : List Nat → Option Nat
  | [] => none
  | l :: ls => if (B l).cls = c then (B l).iface else parInterface B c ls

def getInterface (B : Nat → LayerB) (c : Nat) : List Inst → Option Nat
  | [] => none
  | inst :: rest =>
    match inst.slot with
    | .single l => if (B l).cls = c then (B l).iface else getInterface B c rest
    | .par ls =>
      match parInterface B c ls with
      | some r => some r
      | none => getInterface B c rest

/-- `YowStackBuilder`: `push` appends, `pop` drops the last (no error on empty), `pushDefaultLayers` puts the default
    layers `ds` on top of what the builder holds (`extend ds`), `build` is `YowStack(layers, reversed=False)`. -/
inductive BuilderOp
  | push (s : Slot)
  | pop
  | extend (ds : List Slot)
deriving Repr, DecidableEq

def builderStep (layers : List Slot) : BuilderOp → List Slot
  | .push s => layers ++ [s]
  | .pop => layers.dropLast
  | .extend ds => layers ++ ds

def builderRun (ops : List BuilderOp) : List Slot := ops.foldl builderStep []

/-! ### Spec: recursion over the ordered slot list -/

/-- Data going down through `slots` (ordered from the sender's slot downward). -/
def specDown (B : Nat → LayerB) : List Slot → Nat → List Ev
  | [], _ => []
  | s :: rest, m =>
    (members s).flatMap fun l => Ev.sent l m :: ((B l).tx m).flatMap (specDown B rest)

/-- Data going up through `slots` (ordered from the receiving slot upward). -/
def specUp (B : Nat → LayerB) : List Slot → Nat → List Ev
  | [], _ => []
  | s :: rest, m =>
    (members s).flatMap fun l => Ev.recvd l m :: ((B l).rx m).flatMap (specUp B rest)

/-- An event offered to `slots` in order until one consumes it. -/
def specEvent (B : Nat → LayerB) (ev : Nat) : List Slot → List Ev
  | [] => []
  | s :: rest =>
    let r := onEventInst B ev s
    if r.2 then r.1 else r.1 ++ specEvent B ev rest

/-- Stack-order builder semantics. -/
def specBuilder : List Slot → List BuilderOp → List Slot
  | acc, [] => acc
  | acc, .push s :: ops => specBuilder (acc ++ [s]) ops
  | acc, .pop :: ops => specBuilder acc.dropLast ops
  | acc, .extend ds :: ops => specBuilder (acc ++ ds) ops

end Yow.Stack
