/-
  The few Python library functions the syntactic translator (harness/lib/py2lean.py) maps to Lean:
  struct.unpack('>I', b)[0] and struct.pack('>I', n) on byte lists.  Their domains (4 bytes; n < 2^32) are emitted by the
  translator as raise conditions at the call sites.
-/
import YowsupVerif.Model.Bytes
namespace Yow.Py

/-- big-endian value of a byte string: `struct.unpack('>I', b)[0]` for `b` of 4 bytes -/
def beNat (bs : Bytes) : Nat := bs.foldl (fun acc b => acc * 256 + b) 0

/-- `struct.pack('>I', n)` for `n < 2^32` -/
def packBE32 (n : Nat) : Bytes := [n / 16777216 % 256, n / 65536 % 256, n / 256 % 256, n % 256]

end Yow.Py

namespace Yow.Py

/-- what a translated pure function returns: it raised, it fell off its end (Python's `None`), or it returned an integer -/
inductive Res
  | raised
  | none
  | ret (v : Int)
deriving Repr, DecidableEq

end Yow.Py

namespace Yow.Py

/-- what a translated function that appends to a list handed to it did: it raised, or it appended these numbers in this order -/
inductive Out
  | raised
  | wrote (bs : List Nat)
deriving Repr, DecidableEq

/-- one statement after another -/
def Out.andThen : Out → Out → Out
  | .wrote a, .wrote b => .wrote (a ++ b)
  | _, _ => .raised

end Yow.Py

namespace Yow.Py

/-- what a translated function that reads off the front of a list did: it raised, or it returned `v` and left `rest` -/
inductive Rd
  | raised
  | ret (v : Nat) (rest : List Nat)
deriving Repr, DecidableEq

end Yow.Py
