/-
  Model of contact identity pinning:
    yowsup/axolotl/store/sqlite/liteidentitykeystore.py  isTrustedIdentity / saveIdentity (identities table)
    python-axolotl SessionBuilder                         processPreKeyBundle / process(pkmsg): refuse an untrusted
                                                          identity, otherwise build the session and save the identity
    yowsup/axolotl/manager.py                             create_session(autotrust) / trust_identity
    yowsup/layers/axolotl/layer_base.py                   getKeysFor.onSuccess: per-jid error, no session
    yowsup/layers/axolotl/layer_receive.py                handleEncMessage: UntrustedIdentityException → ignore, or trust and
                                                          handle the message again
    yowsup/layers/axolotl/layer_send.py                   sendToContact: encrypts with the stored session
  Identity keys and contacts are abstract naturals.  `Cfg` is the decision table of the store and the two
  "after trusting" behaviours; it is regenerated from the current source by running it (Gen/TrustCfg.lean).
-/
namespace Yow.Trust

structure Cfg where
  trustUnknown : Bool       -- isTrustedIdentity: nothing stored for the contact
  trustSame : Bool          -- … the stored key equals the presented one
  trustOther : Bool         -- … a different key is stored
  saveReplaces : Bool       -- saveIdentity replaces the stored key (and keeps it across processes)
  rebuildAfterTrust : Bool  -- create_session(autotrust=True) builds the session once the identity is trusted
  checksOldSessions : Bool  -- decrypt_msg: the identity of an EARLIER session state that decrypts an ordinary message is checked before that
                            -- state becomes the current one again (python-axolotl's SessionCipher.decryptMsg alone does not ask)
deriving Repr, DecidableEq

/-- the behaviour the property needs -/
def Cfg.good : Cfg :=
  { trustUnknown := true, trustSame := true, trustOther := false, saveReplaces := true, rebuildAfterTrust := true, checksOldSessions := true }

structure St where
  pinned : Nat → Option Nat      -- identities table: contact → identity key                      (persistent)
  session : Nat → Option Nat     -- sessions table: contact → identity the session was built for  (persistent)
  archived : Nat → List Nat      -- … and the identities of the earlier session states the same record still holds  (persistent)
  autotrust : Bool               -- PROP_IDENTITY_AUTOTRUST (set by the application)

def upd (f : Nat → Option Nat) (c : Nat) (v : Option Nat) : Nat → Option Nat := fun x => if x = c then v else f x

def init : St := { pinned := fun _ => none, session := fun _ => none, archived := fun _ => [], autotrust := false }

def updL (f : Nat → List Nat) (c : Nat) (v : List Nat) : Nat → List Nat := fun x => if x = c then v else f x

/-- a session state for identity k becomes the current one of contact c's record; the state it replaces (if it is for another identity) is
    kept among the earlier ones, and k is no longer among them -/
def setSession (s : St) (c k : Nat) : St :=
  match s.session c with
  | some j => if j = k then s
              else { s with session := upd s.session c (some k), archived := updL s.archived c (j :: (s.archived c).filter (· ≠ k)) }
  | none => { s with session := upd s.session c (some k), archived := updL s.archived c ((s.archived c).filter (· ≠ k)) }

inductive Ev
  | bundle (c k : Nat)       -- a key bundle for contact c presenting identity k is processed (create_session)
  | firstMsg (c k : Nat)     -- a first message (pkmsg) from contact c presenting identity k arrives
  | msgIn (c k : Nat)        -- an ordinary message from contact c, encrypted on a session of its identity k
  | encrypt (c : Nat)        -- the application sends to contact c and a session is stored: sendToContact
  | restart                  -- process restart: the store is kept
  | setAuto (b : Bool)       -- the application switches automatic trust on / off
deriving Repr, DecidableEq

inductive Out
  | built (c k : Nat)          -- session for identity k built
  | refused (c k : Nat)        -- per-jid error: untrusted identity, nothing sent
  | trusted (c k : Nat)        -- trust_identity(c, k)
  | delivered (c k : Nat)      -- message decrypted and handed upward
  | ignored (c k : Nat)        -- message from an untrusted identity dropped
  | undecryptable (c k : Nat)  -- no matching session: retry requested
  | encryptedFor (c k : Nat)   -- a ciphertext only the holder of identity k's session can read went out
  | noSession (c : Nat)
  | raised                     -- an exception escaped
deriving Repr, DecidableEq

def isTrusted (cfg : Cfg) (s : St) (c k : Nat) : Bool :=
  match s.pinned c with
  | none => cfg.trustUnknown
  | some p => if p = k then cfg.trustSame else cfg.trustOther

/-- `saveIdentity` -/
def save (cfg : Cfg) (s : St) (c k : Nat) : St :=
  match s.pinned c with
  | none => { s with pinned := upd s.pinned c (some k) }
  | some _ => if cfg.saveReplaces then { s with pinned := upd s.pinned c (some k) } else s

/-- SessionBuilder on a trusted identity: build the session, save the identity -/
def build (cfg : Cfg) (s : St) (c k : Nat) : St :=
  save cfg (setSession s c k) c k

def step (cfg : Cfg) (s : St) : Ev → St × List Out
  | .bundle c k =>
    if isTrusted cfg s c k then (build cfg s c k, [.built c k])
    else if s.autotrust then
      let s1 := save cfg s c k
      if cfg.rebuildAfterTrust then
        if isTrusted cfg s1 c k then (build cfg s1 c k, [.trusted c k, .built c k])
        else (s1, [.trusted c k, .raised])
      else (s1, [.trusted c k])
    else (s, [.refused c k])
  | .firstMsg c k =>
    if isTrusted cfg s c k then (build cfg s c k, [.delivered c k])
    else if s.autotrust then
      let s1 := save cfg s c k
      if isTrusted cfg s1 c k then (build cfg s1 c k, [.trusted c k, .delivered c k])
      else (s1, [.trusted c k, .raised])       -- the re-handling would recurse for ever
    else (s, [.ignored c k])
  | .msgIn c k =>
    if s.session c = some k then (s, [.delivered c k])
    else if k ∈ s.archived c then
      -- only an earlier session state (of identity k) decrypts it
      if !cfg.checksOldSessions || isTrusted cfg s c k then (setSession s c k, [.delivered c k])
      else if s.autotrust then
        let s1 := save cfg s c k
        if isTrusted cfg s1 c k then (setSession s1 c k, [.trusted c k, .delivered c k])
        else (s1, [.trusted c k, .raised])
      else (s, [.ignored c k])
    else (s, [.undecryptable c k])
  | .encrypt c =>
    match s.session c with
    | some k => (s, [.encryptedFor c k])
    | none => (s, [.noSession c])
  | .restart => (s, [])
  | .setAuto b => ({ s with autotrust := b }, [])

def run (cfg : Cfg) : St → List Ev → St × List Out
  | s, [] => (s, [])
  | s, e :: es =>
    let r := step cfg s e
    let rest := run cfg r.1 es
    (rest.1, r.2 ++ rest.2)

/-- the history never switches automatic trust on -/
def NoAutoOn : List Ev → Prop
  | [] => True
  | .setAuto true :: _ => False
  | _ :: es => NoAutoOn es

/-- the events that concern contact `c` -/
def Ev.about (c : Nat) : Ev → Bool
  | .bundle c' _ => c' == c
  | .firstMsg c' _ => c' == c
  | .msgIn c' _ => c' == c
  | .encrypt c' => c' == c
  | _ => false

/-! ### whose pin an incoming encrypted stanza is checked against

`AxolotlReceivelayer` looks the sender up under `getAuthor(False)`: the `participant` attribute when the stanza has one — a group
message, a status update, a broadcast-list message: the chat (`from`) is then not a contact at all — and `from` otherwise. -/

/-- `MessageProtocolEntity.getAuthor` for an incoming stanza (chat jid, optional participant) -/
def author {J : Type} (chat : J) (participant : Option J) : J :=
  match participant with
  | some p => p
  | none => chat

end Yow.Trust
