/-
  Model of the binary stanza codec:
    yowsup/layers/coder/tokendictionary.py  (TokenDictionary.getIndex / getToken)
    yowsup/layers/coder/encoder.py          (WriteEncoder)
    yowsup/layers/coder/decoder.py          (ReadDecoder)
  written function by function after the Python.  Strings are lists of Latin-1 code points
  (the decoder builds `str` with `chr(b)`), bytes are `Nat`s (< 256 when well-formed).
-/
import YowsupVerif.Model.Bytes
set_option linter.unusedVariables false
namespace Yow.Coder

abbrev Str := List Nat

structure Dict where
  primary : List Str
  secondary : List Str

/-- `ProtocolTreeNode`: tag, attributes (dict, insertion-ordered), data (`None` or bytes), children. -/
inductive Node where
  | mk (tag : Str) (attrs : List (Str × Str)) (data : Option Bytes) (kids : List Node)
deriving Repr

/-! ### tokendictionary.py -/

/-- `list.index(x)` when `x in list`. -/
def indexOf? (s : Str) : List Str → Option Nat
  | [] => none
  | t :: ts => if t = s then some 0 else (indexOf? s ts).map (· + 1)

/-- `TokenDictionary.getIndex` -/
def Dict.getIndex (d : Dict) (s : Str) : Option (Nat × Bool) :=
  match indexOf? s d.primary with
  | some i => some (i, false)
  | none =>
    match indexOf? s d.secondary with
    | some j => some (j, true)
    | none => none

/-! ### encoder.py -/

def writeInt8 (v : Nat) : Bytes := [v % 256]
def writeInt16 (v : Nat) : Bytes := [v / 256 % 256, v % 256]
def writeInt20 (v : Nat) : Bytes := [v / 65536 % 16, v / 256 % 256, v % 256]
def writeInt31 (v : Nat) : Bytes := [v / 16777216 % 128, v / 65536 % 256, v / 256 % 256, v % 256]

def writeListStart (i : Nat) : Bytes :=
  if i = 0 then [0]
  else if i < 256 then 248 :: writeInt8 i
  else 249 :: writeInt16 i

def packHex (n : Nat) : Option Nat :=
  if 48 ≤ n ∧ n < 58 then some (n - 48)
  else if 65 ≤ n ∧ n < 71 then some (10 + (n - 65))
  else none

def packNibble (n : Nat) : Option Nat :=
  if n = 45 ∨ n = 46 then some (10 + (n - 45))
  else if 48 ≤ n ∧ n < 58 then some (n - 48)
  else none

def packByte (v n : Nat) : Option Nat :=
  if v = 251 then packHex n else if v = 255 then packNibble n else none

/-- all bytes packed, or `none` as soon as one is not packable (`arr = []; break`) -/
def packAll (v : Nat) : Bytes → Option (List Nat)
  | [] => some []
  | b :: bs =>
    match packByte v b, packAll v bs with
    | some x, some xs => some (x :: xs)
    | _, _ => none

/-- two nibbles per byte, high nibble first; an odd tail is padded with 0xF -/
def packPairs : List Nat → Bytes
  | [] => []
  | [a] => [a * 16 + 15]
  | a :: b :: r => (a * 16 + b) :: packPairs r

/-- `tryPackAndWriteHeader`: header (tag, flag|count) followed by the packed bytes, or `none` -/
def tryPack (v : Nat) (bs : Bytes) : Option Bytes :=
  if 128 ≤ bs.length then none
  else
    match packAll v bs with
    | none => none
    | some ns =>
      if ns.isEmpty then none
      else some (v :: (bs.length % 2 * 128 + (bs.length + 1) / 2) :: packPairs ns)

def writeBytes (bs : Bytes) (packed : Bool) : Bytes :=
  if 0x100000 ≤ bs.length then 254 :: (writeInt31 bs.length ++ bs)
  else if 0x100 ≤ bs.length then 253 :: (writeInt20 bs.length ++ bs)
  else
    match (if packed then (match tryPack 255 bs with | some r => some r | none => tryPack 251 bs) else none) with
    | some r => r
    | none => 252 :: (writeInt8 bs.length ++ bs)

/-- position of the first `'@'` (64): `tag.index('@')` -/
def atIndex : Str → Option Nat
  | [] => none
  | c :: cs => if c = 64 then some 0 else (atIndex cs).map (· + 1)

theorem atIndex_lt (s : Str) (i : Nat) (h : atIndex s = some i) : i < s.length := by
  induction s generalizing i with
  | nil => simp [atIndex] at h
  | cons c cs ih =>
    simp only [atIndex] at h
    split at h
    · cases h; simp
    · cases hc : atIndex cs with
      | none => simp [hc] at h
      | some j =>
        simp [hc] at h; subst h
        have := ih j hc; simp; omega

/-- the dictionary lookup as `writeString` uses it: the first three primary entries are markers (empty list, stream start,
    stream end), not string tokens — a string equal to one of them is written like any other non-dictionary string -/
def Dict.lookup (d : Dict) (s : Str) : Option (Nat × Bool) :=
  match d.getIndex s with
  | some (i, false) => if i < 3 then none else some (i, false)
  | r => r

/-- `writeString` (with `writeJid` inlined). -/
def writeString (d : Dict) (s : Str) (packed : Bool) : Bytes :=
  match d.lookup s with
  | some (i, false) => [i]
  | some (i, true) => [236 + i / 256, i % 256]
  | none =>
    match h : atIndex s with
    | none => writeBytes s packed
    | some a =>
      if a < 1 then writeBytes s packed
      else 250 :: (writeString d (s.take a) true ++ writeString d (s.drop (a + 1)) false)
termination_by s.length
decreasing_by
  · have := atIndex_lt s a h; simp [List.length_take]; omega
  · have := atIndex_lt s a h; simp [List.length_drop]; omega

def writeAttrs (d : Dict) : List (Str × Str) → Bytes
  | [] => []
  | (k, v) :: r => writeString d k false ++ (writeString d v true ++ writeAttrs d r)

mutual
/-- `writeInternal` -/
def writeNode (d : Dict) : Node → Bytes
  | .mk tag attrs data kids =>
    writeListStart (1 + attrs.length * 2 + (if kids.isEmpty then 0 else 1) + (if data.isSome then 1 else 0))
      ++ (writeString d tag false
      ++ (writeAttrs d attrs
      ++ ((match data with | some b => writeBytes b false | none => [])
      ++ (if kids.isEmpty then [] else writeListStart kids.length ++ writeNodes d kids))))
def writeNodes (d : Dict) : List Node → Bytes
  | [] => []
  | n :: ns => writeNode d n ++ writeNodes d ns
end

/-- `protocolTreeNodeToBytes`: flag byte 0, then the tree. -/
def encodeFrame (d : Dict) (n : Node) : Bytes := 0 :: writeNode d n

mutual
/-- The situations in which the real encoder raises instead of emitting bytes
    (list sizes that do not fit 16 bits; token indexes out of range). -/
def encodable (d : Dict) : Node → Bool
  | .mk tag attrs data kids =>
    decide (1 + attrs.length * 2 + (if kids.isEmpty then 0 else 1) + (if data.isSome then 1 else 0) < 65536)
      && decide (kids.length < 65536) && encodableList d kids
def encodableList (d : Dict) : List Node → Bool
  | [] => true
  | n :: ns => encodable d n && encodableList d ns
end

/-! ### decoder.py -/

inductive Err
  | eof          -- pop from empty data (IndexError)
  | badToken     -- token not in dictionary / unmatched control byte
  | badList      -- invalid list size token
  | nullTag      -- "nextTree sees 0 list or null tag"
  | badNibble
  | badJid
  | nullAttr     -- attribute key or value decoded to None (outside the model: canonicalised)
  | streamEnd    -- token 2 at tag position: `None` instead of a node
  | segmented
  | inflate
  | fuel
deriving Repr, DecidableEq

abbrev R (α : Type) := Except Err (α × Bytes)

def readInt8 : Bytes → R Nat
  | [] => .error .eof
  | b :: r => .ok (b, r)

def readInt16 : Bytes → R Nat
  | a :: b :: r => .ok (a * 256 + b, r)
  | _ => .error .eof

def readInt20 : Bytes → R Nat
  | a :: b :: c :: r => .ok (a % 16 * 65536 + b * 256 + c, r)
  | _ => .error .eof

def readInt31 : Bytes → R Nat
  | a :: b :: c :: e :: r => .ok (a % 128 * 16777216 + b * 65536 + c * 256 + e, r)
  | _ => .error .eof

def readListSize (token : Nat) (data : Bytes) : R Nat :=
  if token = 0 then .ok (0, data)
  else if token = 248 then readInt8 data
  else if token = 249 then readInt16 data
  else .error .badList

def unpackHex (n : Nat) : Option Nat :=
  if n < 10 then some (n + 48) else if n < 16 then some (65 + (n - 10)) else none

def unpackNibble (n : Nat) : Option Nat :=
  if n < 10 then some (n + 48) else if n = 10 ∨ n = 11 then some (45 + (n - 10)) else none

def unpackByte (n v : Nat) : Option Nat :=
  if n = 251 then unpackHex v else if n = 255 then unpackNibble v else none

def nibbles : Bytes → List Nat
  | [] => []
  | b :: r => (b / 16 % 16) :: (b % 16) :: nibbles r

/-- the `remove == 0` loop of `readPacked8` over the hex digits -/
def unpackLoop (n : Nat) : List Nat → Option Bytes
  | [] => some []
  | [v] => if 11 < v ∧ n ≠ 251 then some [] else (unpackByte n v).map (fun x => [x])
  | v :: w :: r =>
    match unpackByte n v, unpackLoop n (w :: r) with
    | some x, some xs => some (x :: xs)
    | _, _ => none

/-- `readPacked8` -/
def readPacked8 (n : Nat) (data : Bytes) : R Bytes :=
  match readInt8 data with
  | .error e => .error e
  | .ok (size, data) =>
    let remove := 128 ≤ size % 256 ∧ n = 251
    let size := size % 128
    let text := data.take size
    let rest := data.drop size
    let hexData := nibbles text
    if remove then
      .ok ((hexData.dropLast).map (fun v => if v < 10 then v + 48 else v + 55), rest)
    else
      match unpackLoop n hexData with
      | some out => .ok (out, rest)
      | none => .error .badNibble

/-- `ReadDecoder.getToken`: primary token, with the legacy fall-back to a following index byte. -/
def getToken (d : Dict) (index : Nat) (data : Bytes) : R Str :=
  match d.primary[index]? with
  | some (c :: t) => .ok (c :: t, data)
  | _ =>
    match readInt8 data with
    | .error e => .error e
    | .ok (idx, data) =>
      match d.secondary[idx]? with
      | some (c :: t) => .ok (c :: t, data)
      | _ => .error .badToken

def getTokenDouble (d : Dict) (n n2 : Nat) : Except Err Str :=
  match d.secondary[n2 + n * 256]? with
  | some (c :: t) => .ok (c :: t)
  | _ => .error .badToken

/-- `readString`; `none` is Python's `None` (token 0). -/
def readString (d : Dict) : Nat → Nat → Bytes → R (Option Str)
  | 0, _, _ => .error .fuel
  | fuel + 1, token, data =>
    if 2 < token ∧ token < 236 then
      match getToken d token data with
      | .ok (s, r) => .ok (some s, r)
      | .error e => .error e
    else if token = 0 then .ok (none, data)
    else if 236 ≤ token ∧ token ≤ 239 then
      match readInt8 data with
      | .error e => .error e
      | .ok (n2, r) =>
        match getTokenDouble d (token - 236) n2 with
        | .ok s => .ok (some s, r)
        | .error e => .error e
    else if token = 250 then
      match readInt8 data with
      | .error e => .error e
      | .ok (t1, r1) =>
        match readString d fuel t1 r1 with
        | .error e => .error e
        | .ok (user, r2) =>
          match readInt8 r2 with
          | .error e => .error e
          | .ok (t2, r3) =>
            match readString d fuel t2 r3 with
            | .error e => .error e
            | .ok (server, r4) =>
              match user, server with
              | some u, some s => .ok (some (u ++ 64 :: s), r4)
              | none, some s => .ok (some s, r4)
              | _, none => .error .badJid
    else if token = 251 ∨ token = 255 then
      match readPacked8 token data with
      | .ok (s, r) => .ok (some s, r)
      | .error e => .error e
    else if token = 252 then
      match readInt8 data with
      | .error e => .error e
      | .ok (n, r) => .ok (some (r.take n), r.drop n)
    else if token = 253 then
      match readInt20 data with
      | .error e => .error e
      | .ok (n, r) => .ok (some (r.take n), r.drop n)
    else if token = 254 then
      match readInt31 data with
      | .error e => .error e
      | .ok (n, r) => .ok (some (r.take n), r.drop n)
    else .error .badToken

/-- `attribs[key] = value` on an insertion-ordered dict -/
def dictSet (kv : List (Str × Str)) (k v : Str) : List (Str × Str) :=
  if kv.any (fun p => p.1 = k) then kv.map (fun p => if p.1 = k then (k, v) else p)
  else kv ++ [(k, v)]

/-- `readAttributes` -/
def readAttrs (d : Dict) (fuel : Nat) : Nat → List (Str × Str) → Bytes → R (List (Str × Str))
  | 0, acc, data => .ok (acc, data)
  | c + 1, acc, data =>
    match readInt8 data with
    | .error e => .error e
    | .ok (t1, r1) =>
      match readString d fuel t1 r1 with
      | .error e => .error e
      | .ok (k, r2) =>
        match readInt8 r2 with
        | .error e => .error e
        | .ok (t2, r3) =>
          match readString d fuel t2 r3 with
          | .error e => .error e
          | .ok (v, r4) =>
            match k, v with
            | some k, some v => readAttrs d fuel c (dictSet acc k v) r4
            | _, _ => .error .nullAttr

mutual
/-- `nextTreeInternal` (with the node content converted to bytes in every form). -/
def nextTree (d : Dict) : Nat → Bytes → R Node
  | 0, _ => .error .fuel
  | fuel + 1, data =>
    match readInt8 data with
    | .error e => .error e
    | .ok (lt, r0) =>
      match readListSize lt r0 with
      | .error e => .error e
      | .ok (size, r1) =>
        match readInt8 r1 with
        | .error e => .error e
        | .ok (token0, r2) =>
          match (if token0 = 1 then readInt8 r2 else .ok (token0, r2)) with
          | .error e => .error e
          | .ok (token, r3) =>
            if token = 2 then .error .streamEnd
            else
              match readString d (data.length + 1) token r3 with
              | .error e => .error e
              | .ok (tag?, r4) =>
                match tag? with
                | none => .error .nullTag
                | some tag =>
                  if size = 0 then .error .nullTag
                  else
                    match readAttrs d (data.length + 1) ((size - 2 + size % 2) / 2) [] r4 with
                    | .error e => .error e
                    | .ok (attrs, r5) =>
                      if size % 2 = 1 then .ok (.mk tag attrs none [], r5)
                      else
                        match readInt8 r5 with
                        | .error e => .error e
                        | .ok (read2, r6) =>
                          if read2 = 248 ∨ read2 = 0 ∨ read2 = 249 then
                            match readListSize read2 r6 with
                            | .error e => .error e
                            | .ok (cnt, r7) =>
                              match readNodes d fuel cnt r7 with
                              | .error e => .error e
                              | .ok (kids, r8) => .ok (.mk tag attrs none kids, r8)
                          else if read2 = 252 then
                            match readInt8 r6 with
                            | .error e => .error e
                            | .ok (n, r) => .ok (.mk tag attrs (some (r.take n)) [], r.drop n)
                          else if read2 = 253 then
                            match readInt20 r6 with
                            | .error e => .error e
                            | .ok (n, r) => .ok (.mk tag attrs (some (r.take n)) [], r.drop n)
                          else if read2 = 254 then
                            match readInt31 r6 with
                            | .error e => .error e
                            | .ok (n, r) => .ok (.mk tag attrs (some (r.take n)) [], r.drop n)
                          else
                            match readString d (data.length + 1) read2 r6 with
                            | .error e => .error e
                            | .ok (none, _) => .error .nullTag
                            | .ok (some s, r) => .ok (.mk tag attrs (some s) [], r)
/-- `readList` body: `cnt` consecutive trees -/
def readNodes (d : Dict) : Nat → Nat → Bytes → R (List Node)
  | _, 0, data => .ok ([], data)
  | 0, _ + 1, _ => .error .fuel
  | fuel + 1, cnt + 1, data =>
    match nextTree d fuel data with
    | .error e => .error e
    | .ok (n, r) =>
      match readNodes d fuel cnt r with
      | .error e => .error e
      | .ok (ns, r') => .ok (n :: ns, r')
end

/-- `getProtocolTreeNode`: flag byte (1 = segmented: refused; 2 = deflate), then the tree.
    `inflate` stands for `zlib.decompress` (a parameter: modelled, not verified). -/
def decodeFrame (d : Dict) (inflate : Bytes → Option Bytes) (data : Bytes) : Except Err Node :=
  match data with
  | [] => .error .eof
  | flags :: body =>
    let body? : Option Bytes := if flags / 2 % 2 = 1 then inflate body else some body
    -- after inflating the code prepends a zero flag byte, so the segmented bit is then clear
    if flags / 2 % 2 = 0 ∧ flags % 2 = 1 then .error .segmented
    else
      match body? with
      | none => .error .inflate
      | some b =>
        match nextTree d (b.length + 1) b with
        | .ok (n, _) => .ok n
        | .error e => .error e

end Yow.Coder
