/-
  Model of request/response correlation:
    yowsup/layers/__init__.py          YowProtocolLayer._sendIq / processIqRegistry (per-layer registry,
                                       entry removed before the callback is dispatched)
    yowsup/layers/interface/interface.py  YowInterfaceLayer._sendIq / processIqRegistry (application registry)
    yowsup/structs/protocolentity.py   ProtocolEntity._generateId (process-wide counter)
  A reply travels upward through the parallel protocol group: every layer looks into its own registry;
  the layer that registered the id consumes the reply and its callback forwards a reply entity upward,
  where the interface layer looks into the application registry.
  `Kind` says what the owning protocol layer registers for a request kind; the table of kinds is
  regenerated from the current source (Gen/IqKinds.lean).
-/
namespace Yow.Iq

structure Kind where
  owner : Nat          -- protocol layer that sends this kind of request
  registers : Bool     -- does the layer put the request into its registry (`_sendIq`) or just pass it down
  succ : Bool          -- a success callback is registered (it forwards a result entity upward)
  err : Bool           -- an error callback is registered (it forwards an error entity upward)
deriving Repr, DecidableEq

structure LayerEntry where
  layer : Nat
  id : Nat
  succ : Bool
  err : Bool
deriving Repr, DecidableEq

structure AppEntry where
  id : Nat
  succ : Bool          -- the application passed onSuccess
  err : Bool           -- the application passed onError
deriving Repr, DecidableEq

structure St where
  next : Nat                         -- ProtocolEntity.__ID_GEN
  layerReg : List LayerEntry
  appReg : List AppEntry
deriving Repr, DecidableEq

def init : St := { next := 0, layerReg := [], appReg := [] }

inductive Op
  | appReq (k : Kind) (succ err : Bool)    -- application: interface._sendIq(entity, onSuccess?, onError?)
  | libReq (k : Kind)                      -- a library layer issues the request itself (keep-alive ping, key fetch …)
  | deliver (id : Nat) (isResult : Bool)   -- an `iq` of type result / error with this id arrives
  | serverReq (id : Nat) (consumes : Bool)
      -- a REQUEST of the server's own (an `iq` of type get / set: its ping) that carries this id.  It is not an answer, whatever requests are
      -- outstanding under the same id (both sides number their stanzas).  `consumes` = how the client treats it: false: like any request — it
      -- is answered (pong), the registries are left alone; true (the code before fix 0225534): an entry with that id is removed as if answered,
      -- nothing is called and no pong is sent.  Which of the two the current source does is regenerated (Gen.serverRequestConsumes).
  | reReq (id : Nat) (k : Kind) (succ err : Bool)
      -- the application re-issues an earlier request under its OLD id (typically from inside the reply
      -- callback: a retry); allowed only for an id that was handed out before and is not outstanding
deriving Repr, DecidableEq

inductive Out
  | sent (id : Nat)                         -- the request stanza left the protocol layers (with this id)
  | layerCb (layer id : Nat) (succ : Bool)  -- a protocol layer's success / error callback ran (original request attached)
  | appCb (id : Nat) (succ : Bool)          -- the application's success / error callback ran (original request attached)
  | appEntity (id : Nat)                    -- a reply entity reached the application without a registered callback
  | ordinary (id : Nat)                     -- not a registered reply: handled like any other stanza
  | swallowed (id : Nat)                    -- consumed by a registry entry that has no callback for this reply type
  | pong (id : Nat)                         -- the server's request was answered
deriving Repr, DecidableEq

/-- the interface layer receives a reply entity forwarded by a protocol layer -/
def appReceive (s : St) (id : Nat) (isResult : Bool) : St × List Out :=
  match s.appReg.find? (fun e => e.id == id) with
  | none => (s, [.appEntity id])
  | some e =>
    let s' := { s with appReg := s.appReg.filter (fun x => x.id != id) }
    if isResult && e.succ then (s', [.appCb id true])
    else if !isResult && e.err then (s', [.appCb id false])
    else (s', [.swallowed id])

def step (s : St) : Op → St × List Out
  | .appReq k succ err =>
    let id := s.next + 1
    let s1 := { s with next := id, appReg := s.appReg ++ [{ id := id, succ := succ, err := err }] }
    let s2 := if k.registers then { s1 with layerReg := s1.layerReg ++ [{ layer := k.owner, id := id, succ := k.succ, err := k.err }] } else s1
    (s2, [.sent id])
  | .libReq k =>
    let id := s.next + 1
    let s1 := { s with next := id }
    let s2 := if k.registers then { s1 with layerReg := s1.layerReg ++ [{ layer := k.owner, id := id, succ := k.succ, err := k.err }] } else s1
    (s2, [.sent id])
  | .reReq id k succ err =>
    if id ≤ s.next && !(s.layerReg.any (fun e => e.id == id)) && !(s.appReg.any (fun e => e.id == id)) then
      let s1 := { s with appReg := s.appReg ++ [{ id := id, succ := succ, err := err }] }
      let s2 := if k.registers then { s1 with layerReg := s1.layerReg ++ [{ layer := k.owner, id := id, succ := k.succ, err := k.err }] } else s1
      (s2, [.sent id])
    else (s, [])
  | .serverReq id consumes =>
    if consumes && s.layerReg.any (fun e => e.id == id) then
      ({ s with layerReg := s.layerReg.filter (fun x => x.id != id) }, [.swallowed id])
    else (s, [.pong id])
  | .deliver id isResult =>
    match s.layerReg.find? (fun e => e.id == id) with
    | none => (s, [.ordinary id])
    | some e =>
      let s1 := { s with layerReg := s.layerReg.filter (fun x => x.id != id) }
      if (isResult && e.succ) || (!isResult && e.err) then
        let r := appReceive s1 id isResult
        (r.1, .layerCb e.layer id isResult :: r.2)
      else (s1, [.swallowed id])

def run : St → List Op → St × List Out
  | s, [] => (s, [])
  | s, op :: ops =>
    let r := step s op
    let rest := run r.1 ops
    (rest.1, r.2 ++ rest.2)

/-- all registered ids are below or equal to the counter and pairwise distinct -/
def Inv (s : St) : Prop :=
  (∀ e ∈ s.layerReg, e.id ≤ s.next) ∧ (∀ e ∈ s.appReg, e.id ≤ s.next) ∧
  (s.layerReg.map LayerEntry.id).Nodup ∧ (s.appReg.map AppEntry.id).Nodup

/-- the request kinds are complete: the owning layer registers both a success and an error callback -/
def Kind.complete (k : Kind) : Bool := k.registers && k.succ && k.err

end Yow.Iq
