/-
  Model of yowsup/layers/protocol_media/mediacipher.py (MediaCipher.encrypt / decrypt).
  The primitives of the external libraries are parameters (`Crypto`): HKDF (python-axolotl HKDFv3),
  AES-256-CBC on whole blocks (cryptography), HMAC-SHA256 (hashlib/hmac).  PKCS#7 padding, the
  key/IV/MAC-key split, the truncated MAC over IV ‖ ciphertext and the verify-then-decrypt order are
  modelled exactly.
-/
import YowsupVerif.Model.Bytes
namespace Yow.Media

structure Crypto where
  hkdf : Bytes → Bytes → Bytes                 -- deriveSecrets(ref_key, info, 112)
  cbcEnc : Bytes → Bytes → Bytes → Bytes       -- key iv plaintext(multiple of 16) ↦ ciphertext
  cbcDec : Bytes → Bytes → Bytes → Bytes       -- key iv ciphertext ↦ plaintext
  mac : Bytes → Bytes → Bytes                  -- HMAC-SHA256 key msg (32 bytes)

/-- PKCS#7, block size 16: always 1..16 bytes of padding. -/
def pad (p : Bytes) : Bytes := p ++ List.replicate (16 - p.length % 16) (16 - p.length % 16)

/-- PKCS#7 unpadder (`padding.PKCS7(128).unpadder()` update+finalize). -/
def unpad (d : Bytes) : Option Bytes :=
  if d.length = 0 ∨ d.length % 16 ≠ 0 then none
  else
    let n := d.getLastD 0
    if n = 0 ∨ 16 < n then none
    else if (d.drop (d.length - n)).all (fun b => b == n) then some (d.take (d.length - n))
    else none

def ivOf (d : Bytes) : Bytes := d.take 16
def keyOf (d : Bytes) : Bytes := (d.drop 16).take 32
def macKeyOf (d : Bytes) : Bytes := (d.drop 48).take 32

def tag (c : Crypto) (d ct : Bytes) : Bytes := (c.mac (macKeyOf d) (ivOf d ++ ct)).take 10

/-- `MediaCipher.encrypt` -/
def encrypt (c : Crypto) (p refKey info : Bytes) : Bytes :=
  let d := c.hkdf refKey info
  let ct := c.cbcEnc (keyOf d) (ivOf d) (pad p)
  ct ++ tag c d ct

inductive Err
  | invalidMac
  | badLength      -- ciphertext body not a whole number of blocks (cryptography raises at finalize)
  | badPadding
deriving Repr, DecidableEq

/-- `MediaCipher.decrypt` -/
def decrypt (c : Crypto) (x refKey info : Bytes) : Except Err Bytes :=
  let d := c.hkdf refKey info
  let body := x.take (x.length - 10)
  let macv := x.drop (x.length - 10)
  if macv ≠ tag c d body then .error .invalidMac
  else if body.length % 16 ≠ 0 then .error .badLength
  else
    match unpad (c.cbcDec (keyOf d) (ivOf d) body) with
    | some p => .ok p
    | none => .error .badPadding

/-- what the theorems assume of the primitives -/
structure Crypto.OK (c : Crypto) : Prop where
  cbc_inv : ∀ key iv m, m.length % 16 = 0 → c.cbcDec key iv (c.cbcEnc key iv m) = m
  cbc_len : ∀ key iv m, (c.cbcEnc key iv m).length = m.length
  mac_len : ∀ k m, (c.mac k m).length = 32

end Yow.Media
