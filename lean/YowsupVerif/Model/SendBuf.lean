/-
  Model of the socket-side send buffer:
    yowsup/layers/network/dispatcher/dispatcher_asyncore.py   sendData: out_buffer += data; initiate_send()   (sender threads)
    asyncore.dispatcher_with_send                              initiate_send: n = socket.send(out_buffer[:65536]); out_buffer = out_buffer[n:]
                                                               handle_write → initiate_send                    (the asyncore loop thread)
  Two kinds of threads touch `out_buffer`: whoever calls sendData (serialised among themselves by the layer locks, C11) and
  the asyncore loop thread.  A flush is three operations — read the buffer, hand it to the socket, cut what was sent —
  and so is an append-and-flush; the append itself, `self.out_buffer = self.out_buffer + data`, is a load and a store
  between which another thread may run.  `Cfg.locked` says whether a flush runs under the lock, `Cfg.appendLocked`
  whether the append of sendData is inside the same critical section as its flush (both regenerated from the source by
  observing, on a real dispatcher, whether the lock is held at every access to `out_buffer`; Gen/SendBufCfg.lean).  Bytes are abstract naturals; how many bytes the socket accepts at a send is chosen by the
  schedule (a partial send leaves the rest in the buffer — the situation in which an append outside the lock loses or
  repeats bytes).
-/
namespace Yow.SendBuf

structure Cfg where
  locked : Bool
  appendLocked : Bool
deriving Repr, DecidableEq

inductive Op
  | acq | rel
  | load                    -- tmp := out_buffer                 (first half of `out_buffer = out_buffer + data`)
  | store (data : List Nat) -- out_buffer := tmp + data          (second half)
  | read                    -- snapshot := out_buffer[:65536]
  | send                    -- socket.send(snapshot)
  | cut                     -- out_buffer := out_buffer[num_sent:]
deriving Repr, DecidableEq

def guarded (cfg : Cfg) (ops : List Op) : List Op := if cfg.locked then [.acq] ++ ops ++ [.rel] else ops

/-- sendData(data) -/
def sendData (cfg : Cfg) (data : List Nat) : List Op :=
  if cfg.appendLocked then guarded cfg [.load, .store data, .read, .send, .cut]
  else [.load, .store data] ++ guarded cfg [.read, .send, .cut]
/-- handle_write() -/
def handleWrite (cfg : Cfg) : List Op := guarded cfg [.read, .send, .cut]

structure Thread where
  ops : List Op
  snapshot : List Nat := []
  sent : Nat := 0
  tmp : List Nat := []
deriving Repr, DecidableEq

structure St where
  threads : List Thread
  lock : Option Nat := none
  buf : List Nat := []
  socket : List Nat := []
  appended : List Nat := []     -- ghost: everything handed to sendData so far, in order
deriving Repr, DecidableEq

/-- thread 0 = the senders (a sequence of sendData calls), thread 1 = the loop thread (a number of handle_write calls) -/
def init (cfg : Cfg) (frames : List (List Nat)) (flushes : Nat) : St :=
  { threads := [{ ops := frames.flatMap (sendData cfg) }, { ops := (List.replicate flushes (handleWrite cfg)).flatten }] }

def setThread (s : St) (i : Nat) (t : Thread) : St := { s with threads := s.threads.set i t }

/-- thread `i` performs its next operation; `cap` = the number of bytes the socket accepts if that operation is a send -/
def step (s : St) (i : Nat) (cap : Nat := 65536) : St :=
  match s.threads[i]? with
  | none => s
  | some t =>
    match t.ops with
    | [] => s
    | op :: rest =>
      let t' := { t with ops := rest }
      match op with
      | .acq => if s.lock.isNone then { setThread s i t' with lock := some i } else s
      | .rel => { setThread s i t' with lock := none }
      | .load => setThread s i { t' with tmp := s.buf }
      | .store d => { setThread s i t' with buf := t.tmp ++ d, appended := s.appended ++ d }
      | .read => setThread s i { t' with snapshot := s.buf }
      | .send => { setThread s i { t' with sent := min cap t.snapshot.length } with socket := s.socket ++ t.snapshot.take cap }
      | .cut => { setThread s i t' with buf := s.buf.drop t.sent }

/-- a schedule: which thread moves, and how much the socket would accept -/
def run : St → List (Nat × Nat) → St
  | s, [] => s
  | s, (i, cap) :: is => run (step s i cap) is

def finished (s : St) : Bool := s.threads.all (fun t => t.ops.isEmpty)

end Yow.SendBuf
