/-
  Model of the socket-side send buffer:
    yowsup/layers/network/dispatcher/dispatcher_asyncore.py   sendData: out_buffer += data; initiate_send()   (sender threads)
    asyncore.dispatcher_with_send                              initiate_send: n = socket.send(out_buffer[:65536]); out_buffer = out_buffer[n:]
                                                               handle_write → initiate_send                    (the asyncore loop thread)
  Two kinds of threads touch `out_buffer`: whoever calls sendData (serialised among themselves by the layer locks, C11) and
  the asyncore loop thread.  A flush is three operations — read the buffer, hand it to the socket, cut what was sent —
  and so is an append-and-flush; `Cfg.locked` says whether they run under one lock (regenerated from the source,
  Gen/SendBufCfg.lean).  Bytes are abstract naturals; the socket accepts everything it is given (partial sends only
  shorten the cut and are covered by the same argument).
-/
namespace Yow.SendBuf

structure Cfg where
  locked : Bool
deriving Repr, DecidableEq

inductive Op
  | acq | rel
  | append (data : List Nat)
  | read                    -- snapshot := out_buffer[:65536]
  | send                    -- socket.send(snapshot)
  | cut                     -- out_buffer := out_buffer[num_sent:]
deriving Repr, DecidableEq

def guarded (cfg : Cfg) (ops : List Op) : List Op := if cfg.locked then [.acq] ++ ops ++ [.rel] else ops

/-- sendData(data) -/
def sendData (cfg : Cfg) (data : List Nat) : List Op := guarded cfg [.append data, .read, .send, .cut]
/-- handle_write() -/
def handleWrite (cfg : Cfg) : List Op := guarded cfg [.read, .send, .cut]

structure Thread where
  ops : List Op
  snapshot : List Nat := []
  sent : Nat := 0
deriving Repr, DecidableEq

structure St where
  threads : List Thread
  lock : Option Nat := none
  buf : List Nat := []
  socket : List Nat := []
  appended : List Nat := []     -- ghost: everything handed to sendData so far, in order
deriving Repr, DecidableEq

/-- thread 0 = the senders (a sequence of sendData calls), thread 1 = the loop thread (a number of handle_write calls) -/
def init (cfg : Cfg) (frames : List (List Nat)) (flushes : Nat) : St :=
  { threads := [{ ops := frames.flatMap (sendData cfg) }, { ops := (List.replicate flushes (handleWrite cfg)).flatten }] }

def setThread (s : St) (i : Nat) (t : Thread) : St := { s with threads := s.threads.set i t }

def step (s : St) (i : Nat) : St :=
  match s.threads[i]? with
  | none => s
  | some t =>
    match t.ops with
    | [] => s
    | op :: rest =>
      let t' := { t with ops := rest }
      match op with
      | .acq => if s.lock.isNone then { setThread s i t' with lock := some i } else s
      | .rel => { setThread s i t' with lock := none }
      | .append d => { setThread s i t' with buf := s.buf ++ d, appended := s.appended ++ d }
      | .read => setThread s i { t' with snapshot := s.buf }
      | .send => { setThread s i { t' with sent := t.snapshot.length } with socket := s.socket ++ t.snapshot }
      | .cut => { setThread s i t' with buf := s.buf.drop t.sent }

def run : St → List Nat → St
  | s, [] => s
  | s, i :: is => run (step s i) is

def finished (s : St) : Bool := s.threads.all (fun t => t.ops.isEmpty)

end Yow.SendBuf
