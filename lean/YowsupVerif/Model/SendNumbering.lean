/-
  Model of the downward path's message numbering (yowsup/layers/noise/layer.py: YowNoiseLayer.send, consonance's
  transport.send, yowsup/layers/noise/layer_noise_segments.py: YowNoiseSegmentsLayer.send).

  The transport cipher numbers its messages: `encrypt_with_ad` takes the next number, THEN the ciphertext (payload + 16 byte tag) is
  handed to the segment layer, which refuses frames of 2^24 bytes and more.  The peer counts what it receives: frame k on the wire
  must carry number k, or nothing from there on can be decrypted.  `sizeCheckFirst` says whether the noise layer refuses an
  oversized payload BEFORE encrypting it (regenerated from the current source: Gen/SendNumberingCfg.lean).
-/
namespace Yow.SendNumbering

structure St where
  next : Nat := 0            -- the cipher's next message number
  wire : List Nat := []      -- numbers of the frames written to the network, in order
deriving Repr, DecidableEq

/-- frame limit of the segment layer -/
def limit : Nat := 16777216

/-- one `send(payload)` of `size` bytes: the new state and whether it was refused -/
def send (sizeCheckFirst : Bool) (s : St) (size : Nat) : St × Bool :=
  if limit ≤ size + 16 then
    -- cannot be framed: refused by the noise layer at once, or by the segment layer after the encryption
    (if sizeCheckFirst then s else { s with next := s.next + 1 }, true)
  else ({ next := s.next + 1, wire := s.wire ++ [s.next] }, false)

def run (sizeCheckFirst : Bool) : St → List Nat → St
  | s, [] => s
  | s, n :: ns => run sizeCheckFirst (send sizeCheckFirst s n).1 ns

/-- what the peer can decrypt: frame k carries number k -/
def InStep (s : St) : Prop := s.wire = List.range s.wire.length ∧ s.next = s.wire.length

instance (s : St) : Decidable (InStep s) := by unfold InStep; infer_instance

end Yow.SendNumbering
