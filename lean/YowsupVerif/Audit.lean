/-
  `#audit_module M` prints, for every theorem declared in module `M`, the axioms it depends on:
      AUDIT <theorem> [ax1, ax2, ...]
  The check script parses these lines and requires ⊆ {propext, Classical.choice, Quot.sound}.
-/
import Lean
open Lean Elab Command

elab "#audit_module " m:ident : command => do
  let env ← getEnv
  let some idx := env.getModuleIdx? m.getId | throwError "unknown module {m.getId}"
  let names := env.header.moduleData[idx.toNat]!.constNames
  for n in names do
    match env.find? n with
    | some (.thmInfo _) =>
      if !n.isInternal then
        let axs ← liftCoreM <| collectAxioms n
        let axs := axs.toList.map toString |>.mergeSort
        logInfo m!"AUDIT {n} {axs}"
    | _ => pure ()
