/-
  Safety of the E2E system model (Model/E2E.lean): only ciphertext leaves a client, and an application is shown
  only what was submitted for it.  Both by induction over arbitrary allowed action sequences.
-/
import YowsupVerif.Lemmas.E2EBase
namespace Yow.E2E

/-- well-formed configuration: distinct accounts, distinct group ids, groups consist of accounts -/
def WFConfig (accts : List Acct) (groups : List (Nat × List Acct)) : Prop :=
  accts.Nodup ∧ (groups.map Prod.fst).Nodup ∧ ∀ g ∈ groups, ∀ m ∈ g.2, m ∈ accts

/-- where a shown message claims to come from, for a submission `(a, n)` shown to `r` -/
def OriginOf (a : Acct) (n : Node) (peer : Dest) (participant : Option Acct) : Prop :=
  match n.dest with
  | .user _ => peer = .user a ∧ participant = none
  | .group g => peer = .group g ∧ participant = some a

theorem OriginOf_eq (a : Acct) (n : Node) (peer : Dest) (part : Option Acct) :
    OriginOf a n peer part = Origin a n peer part := rfl

section Fun
variable {accts : List Acct} {groups : List (Nat × List Acct)}

-- ------------------------------------------------------------------------------------------------ send layer
theorem sendEnc_good {s : Sys} {a : Acct} {c : Client} {n : Node} {encs : List (Option Acct × Ct)} {part : Option Acct}
    (h : AInv accts groups (abs s)) (ha : a ∈ accts) (hc : core c = (abs s).cl a) (hn : (a, n) ∈ s.submitted)
    (he : GoodEncs n encs) (hp : ∀ r, part = some r → r ∈ intendedG groups a n) :
    Good accts groups (abs s) (abs (sendEnc s a c n encs part)) := by
  simp only [sendEnc]
  rw [abs_emit, abs_setClient]
  have h0 : ClientOK accts groups (abs s).submitted a (core c) := hc ▸ h.client a
  have hk : ClientOK accts groups (abs s).submitted a (core (if part.isNone then enqueueSent c n else c)) := by
    split
    · refine { h0 with sentQ := ?_ }
      intro m hm
      have hm : m ∈ (if c.sentQueue.length ≥ 100 then c.sentQueue.drop 1 else c.sentQueue) ++ [n] := hm
      rcases List.mem_append.mp hm with h1 | h1
      · apply h0.sentQ
        split at h1
        · exact List.mem_of_mem_drop h1
        · exact h1
      · rw [List.mem_singleton] at h1; subst h1; exact hn
    · exact h0
  have hq : IqCompat ((abs s).cl a) (core (if part.isNone then enqueueSent c n else c)) := by
    rw [← hc]; split <;> exact IqCompat.rfl' rfl rfl
  exact ⟨(h.setCl ha hk hq).emit ha ⟨rfl, n, hn, rfl, rfl, he, hp⟩ (LinkOK.of_none rfl), rfl⟩

theorem sendIq_good {s : Sys} {a : Acct} {c : Client} {mk : Nat → Stanza} {k : Cont}
    (h : AInv accts groups (abs s)) (ha : a ∈ accts)
    (hk : ClientOK accts groups s.submitted a (core c)) (hq : IqCompat ((abs s).cl a) (core c))
    (hc : ContOK accts groups s.submitted a k) (hup : UpOK groups s.submitted a (mk c.nextIq))
    (hiq : iqOf (mk c.nextIq) = some c.nextIq) (hj : ∀ j, j ∈ asked k → j ∈ jidsOf (mk c.nextIq)) :
    Good accts groups (abs s) (abs (sendIq s a c mk k)) := by
  simp only [sendIq]
  rw [abs_emit, abs_setClient]
  have hnone : lookup c.iqReg c.nextIq = none :=
    lookup_eq_none (fun p hp e => Nat.lt_irrefl _ (e ▸ hk.iq_lt p.1 p.2 hp))
  have hk' : ClientOK accts groups (abs s).submitted a
      (core { c with nextIq := c.nextIq + 1, iqReg := c.iqReg ++ [(c.nextIq, k)] }) := by
    refine { hk with iq_lt := ?_, conts := ?_ }
    · intro iq c' hm
      have hm : (iq, c') ∈ c.iqReg ++ [(c.nextIq, k)] := hm
      show iq < c.nextIq + 1
      rcases List.mem_append.mp hm with h1 | h1
      · exact Nat.lt_succ_of_lt (hk.iq_lt iq c' h1)
      · rw [List.mem_singleton] at h1; cases h1; exact Nat.lt_succ_self _
    · intro iq c' hm
      have hm : (iq, c') ∈ c.iqReg ++ [(c.nextIq, k)] := hm
      rcases List.mem_append.mp hm with h1 | h1
      · exact hk.conts iq c' h1
      · rw [List.mem_singleton] at h1; cases h1; exact hc
  have hlk : ∀ iq c', lookup (c.iqReg ++ [(c.nextIq, k)]) iq = some c' →
      lookup c.iqReg iq = some c' ∨ (iq = c.nextIq ∧ c' = k) := by
    intro iq c' hl
    rw [lookup_append] at hl
    cases ho : lookup c.iqReg iq with
    | some v => rw [ho] at hl; left; simpa using hl
    | none =>
      rw [ho] at hl
      simp only [Option.none_or, lookup_cons, lookup_nil] at hl
      split at hl
      · next e => right; cases hl; exact ⟨e.symm, rfl⟩
      · cases hl
  have hq' : IqCompat ((abs s).cl a) (core { c with nextIq := c.nextIq + 1, iqReg := c.iqReg ++ [(c.nextIq, k)] }) := by
    refine ⟨Nat.le_succ_of_le hq.1, ?_⟩
    intro iq c' hl
    rcases hlk iq c' hl with h1 | ⟨h1, _⟩
    · exact hq.2 iq c' h1
    · right; rw [h1]; exact hq.1
  refine ⟨(h.setCl ha hk' hq').emit ha hup ?_, rfl⟩
  have e : ((abs s).setCl a (core { c with nextIq := c.nextIq + 1, iqReg := c.iqReg ++ [(c.nextIq, k)] })).cl a
      = core { c with nextIq := c.nextIq + 1, iqReg := c.iqReg ++ [(c.nextIq, k)] } := by simp [ASys.setCl]
  rw [e]
  intro iq hi
  rw [hiq] at hi
  cases hi
  refine ⟨Nat.lt_succ_self _, ?_⟩
  intro c' hl
  rcases hlk _ c' hl with h1 | ⟨_, h1⟩
  · rw [hnone] at h1; cases h1
  · rw [h1]; exact hj

theorem encryptFor_plain {c : Client} {peer : Acct} {plain : Plain} {nonce : Nat} {ct : Ct}
    (h : encryptFor c peer plain nonce = some ct) : ct.plain = plain := by
  unfold encryptFor at h
  split at h
  · cases h
  · cases h; rfl

theorem encryptEach_plain (c : Client) (plain : Plain) (l : List Acct) :
    ∀ nonce jc, jc ∈ encryptEach c plain nonce l → jc.2.plain = plain := by
  induction l with
  | nil => intro nonce jc h; simp [encryptEach] at h
  | cons j js ih =>
    intro nonce jc h
    unfold encryptEach at h
    split at h
    · exact ih _ _ h
    · next ct hct =>
      rcases List.mem_cons.mp h with h1 | h1
      · subst h1; exact encryptFor_plain hct
      · exact ih _ _ h1

theorem sendToContact_good {s : Sys} {a : Acct} {c : Client} {n : Node} {peer : Acct}
    (h : AInv accts groups (abs s)) (ha : a ∈ accts) (hc : core c = (abs s).cl a) (hn : (a, n) ∈ s.submitted) :
    Good accts groups (abs s) (abs (sendToContact s a c n peer)) := by
  unfold sendToContact
  split
  · exact Good.refl h
  · next ct hct =>
    have := encryptFor_plain hct
    refine sendEnc_good (s := { s with nextCtr := s.nextCtr + 1 }) h ha hc hn ?_ (fun r hr => by cases hr)
    intro e he p hp
    rw [List.mem_singleton] at he
    subst he
    rw [this] at hp
    cases hp; rfl

theorem ownSenderKey_abs (s : Sys) (c : Client) (g : Nat) : abs (ownSenderKey s c g).1 = abs s := by
  unfold ownSenderKey; split <;> rfl

theorem ownSenderKey_core (s : Sys) (c : Client) (g : Nat) : core (ownSenderKey s c g).2.1 = core c := by
  unfold ownSenderKey; split <;> rfl

theorem ownSenderKey_sub (s : Sys) (c : Client) (g : Nat) : (ownSenderKey s c g).1.submitted = s.submitted := by
  unfold ownSenderKey; split <;> rfl

/-- the first half of `sendToGroupWithSessions`: the sender-key distribution ciphertexts -/
def sgFirst (s : Sys) (c : Client) (n : Node) (g : Nat) (need : List Acct) (retryCount : Nat) (participant : Option Acct) :
    Sys × Client × List (Option Acct × Ct) :=
  if need.isEmpty then (s, c, ([] : List (Option Acct × Ct)))
  else
    let (s', c', gen) := ownSenderKey s c g
    let plain : Plain := { skdm := some (g, gen), content := if retryCount > 0 then some n.payload else none }
    let r := encryptEach c' plain s'.nextCtr need
    ({ s' with nextCtr := s'.nextCtr + need.length }, c', r.map (fun jc => (if participant.isSome then none else some jc.1, jc.2)))

/-- the second half of `sendToGroupWithSessions` -/
def sgTail (a : Acct) (n : Node) (g : Nat) (retryCount : Nat) (participant : Option Acct)
    (t : Sys × Client × List (Option Acct × Ct)) : Sys :=
  let (s1, c1, encs1) := t
  if retryCount = 0 then
    let (s2, c2, gen) := ownSenderKey s1 c1 g
    let ct : Ct := { kind := .skmsg, sess := gen, ctr := s2.nextCtr, plain := { skdm := none, content := some n.payload }, corrupt := false }
    sendEnc { s2 with nextCtr := s2.nextCtr + 1 } a c2 n (encs1 ++ [(none, ct)]) participant
  else sendEnc s1 a c1 n encs1 participant

theorem sendToGroupWithSessions_eq (s : Sys) (a : Acct) (c : Client) (n : Node) (g : Nat) (need : List Acct) (rc : Nat) :
    sendToGroupWithSessions s a c n g need rc =
      sgTail a n g rc (match need with | [j] => if rc > 0 then some j else none | _ => none)
        (sgFirst s c n g need rc (match need with | [j] => if rc > 0 then some j else none | _ => none)) := rfl

theorem sgFirst_props (s : Sys) (c : Client) (n : Node) (g : Nat) (need : List Acct) (rc : Nat) (part : Option Acct) :
    abs (sgFirst s c n g need rc part).1 = abs s ∧ core (sgFirst s c n g need rc part).2.1 = core c ∧
      GoodEncs n (sgFirst s c n g need rc part).2.2 := by
  unfold sgFirst
  split
  · exact ⟨rfl, rfl, fun e he => by cases he⟩
  · refine ⟨ownSenderKey_abs s c g, ownSenderKey_core s c g, ?_⟩
    intro e he p hp
    simp only [List.mem_map] at he
    obtain ⟨jc, hjc, rfl⟩ := he
    have := encryptEach_plain _ _ _ _ _ hjc
    simp only at hp
    rw [this] at hp
    simp only at hp
    split at hp
    · cases hp; rfl
    · cases hp

theorem sgTail_good {a : Acct} {n : Node} {g rc : Nat} {part : Option Acct} {t : Sys × Client × List (Option Acct × Ct)}
    (h : AInv accts groups (abs t.1)) (ha : a ∈ accts) (hc : core t.2.1 = (abs t.1).cl a) (hn : (a, n) ∈ t.1.submitted)
    (he : GoodEncs n t.2.2) (hp : ∀ r, part = some r → r ∈ intendedG groups a n) :
    Good accts groups (abs t.1) (abs (sgTail a n g rc part t)) := by
  obtain ⟨s1, c1, encs1⟩ := t
  simp only [sgTail]
  split
  · have h1 := ownSenderKey_abs s1 c1 g
    have h2 := ownSenderKey_core s1 c1 g
    have h3 := ownSenderKey_sub s1 c1 g
    generalize ownSenderKey s1 c1 g = o at h1 h2 h3
    obtain ⟨s2, c2, gen⟩ := o
    simp only at h1 h2 h3 ⊢
    rw [← h1]
    have h' : AInv accts groups (abs s2) := h1 ▸ h
    refine sendEnc_good (s := { s2 with nextCtr := s2.nextCtr + 1 }) h' ha ?_ (h3 ▸ hn) ?_ hp
    · show core c2 = (abs s2).cl a
      rw [h2, h1]; exact hc
    · intro e hm p hq
      rcases List.mem_append.mp hm with hm | hm
      · exact he e hm p hq
      · rw [List.mem_singleton] at hm; subst hm; cases hq; rfl
  · exact sendEnc_good h ha hc hn he hp

theorem sendToGroupWithSessions_good {s : Sys} {a : Acct} {c : Client} {n : Node} {g : Nat} {need : List Acct} {rc : Nat}
    (h : AInv accts groups (abs s)) (ha : a ∈ accts) (hc : core c = (abs s).cl a) (hn : (a, n) ∈ s.submitted)
    (hp : ∀ j, need = [j] → rc > 0 → j ∈ intendedG groups a n) :
    Good accts groups (abs s) (abs (sendToGroupWithSessions s a c n g need rc)) := by
  rw [sendToGroupWithSessions_eq]
  generalize hpart : (match need with | [j] => if rc > 0 then some j else none | _ => none) = part
  obtain ⟨h1, h2, h3⟩ := sgFirst_props s c n g need rc part
  have hs : (sgFirst s c n g need rc part).1.submitted = s.submitted := congrArg ASys.submitted h1
  have := sgTail_good (accts := accts) (groups := groups) (a := a) (n := n) (g := g) (rc := rc) (part := part)
    (t := sgFirst s c n g need rc part) (h1 ▸ h) ha (by rw [h2, h1]; exact hc) (hs ▸ hn) h3 ?_
  · rw [h1] at this; exact this
  · intro r hr
    subst hpart
    split at hr
    · next j =>
      split at hr
      · next hpos => cases hr; exact hp _ rfl hpos
      · cases hr
    · cases hr

theorem IqCompat.of_eq {c : Client} {k : Core} (hc : core c = k) : IqCompat k (core c) := by
  subst hc; exact IqCompat.rfl' rfl rfl

theorem ensureSessionsAndSend_good {s : Sys} {a : Acct} {c : Client} {n : Node} {g : Nat} {jids : List Acct}
    (h : AInv accts groups (abs s)) (ha : a ∈ accts) (hc : core c = (abs s).cl a) (hn : (a, n) ∈ s.submitted)
    (hj' : ∀ j, j ∈ jids → j ∈ accts) :
    Good accts groups (abs s) (abs (ensureSessionsAndSend s a c n g jids)) := by
  unfold ensureSessionsAndSend
  dsimp only
  split
  · exact sendToGroupWithSessions_good h ha hc hn (fun j _ hpos => absurd hpos (Nat.lt_irrefl 0))
  · refine sendIq_good h ha (hc ▸ h.client a) (IqCompat.of_eq hc) ⟨hn, ?_⟩ trivial rfl (fun j hj => hj)
    intro j hj
    exact hj' j (List.mem_filter.mp hj).1

theorem sendToGroup_good {s : Sys} {a : Acct} {c : Client} {n : Node} {g : Nat} {retry : Option (Acct × Nat)}
    (h : AInv accts groups (abs s)) (ha : a ∈ accts) (hc : core c = (abs s).cl a) (hn : (a, n) ∈ s.submitted)
    (hr : ∀ who count, retry = some (who, count) → who ∈ intendedG groups a n) :
    Good accts groups (abs s) (abs (sendToGroup s a c n g retry)) := by
  unfold sendToGroup
  split
  · exact sendIq_good h ha (hc ▸ h.client a) (IqCompat.of_eq hc) hn trivial rfl (fun j hj => by cases hj)
  · split
    · exact sendToGroupWithSessions_good h ha hc hn (fun j _ hpos => absurd hpos (Nat.lt_irrefl 0))
    · next who count =>
      refine sendToGroupWithSessions_good h ha hc hn ?_
      intro j e _
      cases e
      exact hr _ _ rfl

theorem processPlaintext_good {s : Sys} {a : Acct} {c : Client} {n : Node} {retry : Option (Acct × Nat)}
    (h : AInv accts groups (abs s)) (ha : a ∈ accts) (hc : core c = (abs s).cl a) (hn : (a, n) ∈ s.submitted)
    (hr : ∀ who count, retry = some (who, count) → who ∈ intendedG groups a n) :
    Good accts groups (abs s) (abs (processPlaintext s a c n retry)) := by
  unfold processPlaintext
  split
  · exact sendToGroup_good h ha hc hn hr
  · next b hb =>
    split
    · exact sendToContact_good h ha hc hn
    · refine sendIq_good h ha (hc ▸ h.client a) (IqCompat.of_eq hc) hn trivial rfl ?_
      intro j hj
      simpa [asked, hb, jidsOf] using hj

theorem sendLayerSend_good {s : Sys} {a : Acct} {n : Node}
    (h : AInv accts groups (abs s)) (ha : a ∈ accts) (hn : (a, n) ∈ s.submitted) :
    Good accts groups (abs s) (abs (sendLayerSend s a n)) := by
  unfold sendLayerSend
  have hs : (getClient s a).skipEnc = [] := (h.client a).skip
  simp only [hs, List.contains_nil, Bool.false_eq_true, if_false]
  exact processPlaintext_good h ha rfl hn (fun _ _ e => by cases e)

-- ------------------------------------------------------------------------------------------------ receive layer
/-- what is known about a message stanza `(id, peer, part)` on its way to / parked at `r` -/
def MsgInfo (groups : List (Nat × List Acct)) (sub : List (Acct × Node)) (r : Acct) (id : Nat) (peer : Dest)
    (part : Option Acct) (a : Acct) (n : Node) : Prop :=
  (a, n) ∈ sub ∧ n.id = id ∧ r ∈ intendedG groups a n ∧ Origin a n peer part

theorem good_of_abs_eq {s s1 s' : Sys} (e : abs s1 = abs s) (g : Good accts groups (abs s1) (abs s')) :
    Good accts groups (abs s) (abs s') := e ▸ g

theorem reg_of {s : Sys} {r : Acct} (h : AInv accts groups (abs s)) (hr : r ∈ accts) : (abs s).reg r = true :=
  (h.reg r).mpr hr

theorem resetRetries_abs {s : Sys} {r : Acct} (id : Nat) (hreg : (abs s).reg r = true) :
    abs (resetRetries s r id) = abs s := abs_setClient_same _ _ _ hreg rfl

theorem good_resetRetries {A : ASys} {s' : Sys} {r : Acct} (id : Nat) (g : Good accts groups A (abs s')) (hr : r ∈ accts) :
    Good accts groups A (abs (resetRetries s' r id)) := by
  rw [resetRetries_abs id (reg_of g.1 hr)]; exact g

theorem storeSkdm_abs {s : Sys} {r : Acct} (sender : Acct) (pl : Plain) (hreg : (abs s).reg r = true) :
    abs (storeSkdm s r sender pl) = abs s := by
  unfold storeSkdm
  split
  · rfl
  · exact abs_setClient_same _ _ _ hreg rfl

theorem emitReceipt_good {s : Sys} {r : Acct} {id : Nat} {peer : Dest} {part : Option Acct} {a : Acct} {n : Node} (t : RType)
    (h : AInv accts groups (abs s)) (hr : r ∈ accts) (hm : MsgInfo groups s.submitted r id peer part a n) :
    Good accts groups (abs s) (abs (emit s r (.receipt id peer part t))) := by
  rw [abs_emit]
  exact ⟨h.emit hr ⟨a, n, hm.1, hm.2.1, hm.2.2.1, hm.2.2.2⟩ (LinkOK.of_none rfl), rfl⟩

theorem showAndReceipt_good {s : Sys} {r : Acct} {id : Nat} {peer : Dest} {part : Option Acct} {a : Acct} {n : Node}
    (h : AInv accts groups (abs s)) (hr : r ∈ accts) (hm : MsgInfo groups s.submitted r id peer part a n) :
    Good accts groups (abs s) (abs (showAndReceipt s r id peer part n.payload)) := by
  simp only [showAndReceipt]
  rw [abs_emit, abs_setClient]
  have h0 := h.client r
  have hk : ClientOK accts groups (abs s).submitted r (core { getClient s r with
      shown := (getClient s r).shown ++ [{ id := id, peer := peer, participant := part, payload := n.payload }] }) := by
    refine { h0 with shown := ?_ }
    intro x hx
    have hx : x ∈ (getClient s r).shown ++ [{ id := id, peer := peer, participant := part, payload := n.payload }] := hx
    rcases List.mem_append.mp hx with h1 | h1
    · exact h0.shown x h1
    · rw [List.mem_singleton] at h1; subst h1
      exact ⟨a, n, hm.1, hm.2.1, rfl, hm.2.2.1, hm.2.2.2⟩
  exact ⟨(h.setCl hr hk (IqCompat.rfl' rfl rfl)).emit hr ⟨a, n, hm.1, hm.2.1, hm.2.2.1, hm.2.2.2⟩ (LinkOK.of_none rfl), rfl⟩

theorem surface_good {s : Sys} {r : Acct} {id : Nat} {peer : Dest} {part : Option Acct} {a : Acct} {n : Node} {pl : Plain}
    (h : AInv accts groups (abs s)) (hr : r ∈ accts) (hm : MsgInfo groups s.submitted r id peer part a n)
    (hp : ∀ p, pl.content = some p → p = n.payload) :
    Good accts groups (abs s) (abs (surface s r id peer part pl)) := by
  unfold surface
  split
  · next p hpc => rw [hp p hpc]; exact showAndReceipt_good h hr hm
  · exact Good.refl h

theorem sendRetry_good {s : Sys} {r : Acct} {id : Nat} {peer : Dest} {part : Option Acct} {a : Acct} {n : Node}
    (h : AInv accts groups (abs s)) (hr : r ∈ accts) (hm : MsgInfo groups s.submitted r id peer part a n) :
    Good accts groups (abs s) (abs (sendRetry s r id peer part)) := by
  simp only [sendRetry]
  rw [abs_emit, abs_setClient_same s r _ (reg_of h hr) (by rfl)]
  exact ⟨h.emit hr ⟨a, n, hm.1, hm.2.1, hm.2.2.1, hm.2.2.2⟩ (LinkOK.of_none rfl), rfl⟩

theorem onDecryptFailure_good {s : Sys} {r : Acct} {st : Stanza} {id : Nat} {peer : Dest} {part : Option Acct}
    {a : Acct} {n : Node} (d : Dec)
    (h : AInv accts groups (abs s)) (hr : r ∈ accts) (hm : MsgInfo groups s.submitted r id peer part a n)
    (hst : DownOK accts groups s.submitted r st) :
    Good accts groups (abs s) (abs (onDecryptFailure s r st id peer part (whoOf peer part) d)) := by
  cases d with
  | ok p => exact Good.refl h
  | duplicate => exact emitReceipt_good _ h hr hm
  | invalid => exact sendRetry_good h hr hm
  | noSession =>
    simp only [onDecryptFailure]
    have h0 := h.client r
    refine sendIq_good h hr ?_ (IqCompat.rfl' rfl rfl) ?_ trivial rfl (fun j hj => hj)
    · refine { h0 with pend := ?_ }
      intro key l hl x hx
      rcases mem_insert hl with h1 | h1
      · exact h0.pend key l h1 x hx
      · cases h1
        rcases List.mem_append.mp hx with h2 | h2
        · obtain ⟨v, hv, hxv⟩ := lookup_getD_mem h2
          exact h0.pend _ v hv x hxv
        · rw [List.mem_singleton] at h2; subst h2; exact hst
    · show whoOf peer part ∈ accts
      rw [hm.2.2.2.who]
      exact (h.sub_reg a n hm.1).1


theorem decrypt_core (c : Client) (peer : Acct) (ct : Ct) : core (decrypt c peer ct).1 = core c := by
  unfold decrypt
  repeat (first | rfl | split)

theorem decrypt_ok {c : Client} {peer : Acct} {ct : Ct} {pl : Plain} (h : (decrypt c peer ct).2 = .ok pl) : pl = ct.plain := by
  unfold decrypt at h
  grind

theorem groupDecrypt_core (c : Client) (g : Nat) (sender : Acct) (ct : Ct) : core (groupDecrypt c g sender ct).1 = core c := by
  unfold groupDecrypt
  repeat (first | rfl | split)

theorem groupDecrypt_ok {c : Client} {g : Nat} {sender : Acct} {ct : Ct} {pl : Plain} (h : (groupDecrypt c g sender ct).2 = .ok pl) : pl = ct.plain := by
  unfold groupDecrypt at h
  grind

theorem firstKind_mem {encs : List (Option Acct × Ct)} {k : EncKind} {ct : Ct} (h : firstKind encs k = some ct) :
    ∃ e, e ∈ encs ∧ e.2 = ct := by
  unfold firstKind at h
  cases hf : encs.find? (fun e => e.2.kind == k) with
  | none => rw [hf] at h; cases h
  | some e =>
    rw [hf] at h
    cases h
    exact ⟨e, List.mem_of_find?_eq_some hf, rfl⟩

theorem stage2_good {s : Sys} {r : Acct} {st : Stanza} {id : Nat} {peer : Dest} {part : Option Acct}
    {a : Acct} {n : Node} {encs : List (Option Acct × Ct)}
    (h : AInv accts groups (abs s)) (hr : r ∈ accts) (hm : MsgInfo groups s.submitted r id peer part a n)
    (hst : DownOK accts groups s.submitted r st) (he : GoodEncs n encs) :
    Good accts groups (abs s) (abs (handleEnc.stage2 s r st id peer part (whoOf peer part) encs)) := by
  unfold handleEnc.stage2
  split
  · next ct g hct =>
    dsimp only
    have e1 : abs (setClient s r (groupDecrypt (getClient s r) g (whoOf (Dest.group g) part) ct).1) = abs s :=
      abs_setClient_same _ _ _ (reg_of h hr) (groupDecrypt_core _ _ _ _)
    split
    · next pl hpl =>
      refine good_resetRetries _ (good_of_abs_eq e1 (surface_good (e1 ▸ h) hr hm ?_)) hr
      intro p hp
      obtain ⟨e, hemem, hect⟩ := firstKind_mem hct
      have := groupDecrypt_ok hpl
      subst this
      exact he e hemem p (hect ▸ hp)
    · exact good_resetRetries _ (good_of_abs_eq e1 (sendRetry_good (e1 ▸ h) hr hm)) hr
    · exact good_of_abs_eq e1 (onDecryptFailure_good _ (e1 ▸ h) hr hm hst)
  · exact good_resetRetries _ (Good.refl h) hr


def heFirst (encs : List (Option Acct × Ct)) : Option Ct :=
  match firstKind encs .pkmsg with
  | some ct => some ct
  | none => firstKind encs .msg

def heMain (s : Sys) (r : Acct) (st : Stanza) (id : Nat) (peer : Dest) (part : Option Acct)
    (encs : List (Option Acct × Ct)) : Option Ct → Sys
  | none => handleEnc.stage2 s r st id peer part (whoOf peer part) encs
  | some ct =>
    match (decrypt (getClient s r) (whoOf peer part) ct).2 with
    | .ok pl =>
      handleEnc.stage2 (surface (storeSkdm (setClient s r (decrypt (getClient s r) (whoOf peer part) ct).1) r (whoOf peer part) pl)
        r id peer part pl) r st id peer part (whoOf peer part) encs
    | d => onDecryptFailure (setClient s r (decrypt (getClient s r) (whoOf peer part) ct).1) r st id peer part (whoOf peer part) d

theorem handleEnc_eq (s : Sys) (r : Acct) (id : Nat) (peer : Dest) (part : Option Acct) (im : Bool)
    (encs : List (Option Acct × Ct)) (pl : Option Payload) :
    handleEnc s r (.msg id peer part im encs pl) =
      heMain s r (.msg id peer part im encs pl) id peer part encs (heFirst encs) := by
  unfold handleEnc heFirst
  dsimp only
  cases part <;> cases peer <;> cases firstKind encs .pkmsg <;> cases firstKind encs .msg <;>
    first
    | rfl
    | (dsimp only [heMain, whoOf]
       generalize decrypt _ _ _ = d
       obtain ⟨c', d'⟩ := d
       cases d' <;> rfl)

theorem heFirst_mem {encs : List (Option Acct × Ct)} {ct : Ct} (h : heFirst encs = some ct) : ∃ e, e ∈ encs ∧ e.2 = ct := by
  unfold heFirst at h
  split at h
  · next ct' h' => cases h; exact firstKind_mem h'
  · exact firstKind_mem h

theorem handleEnc_good {s : Sys} {r : Acct} {st : Stanza}
    (h : AInv accts groups (abs s)) (hr : r ∈ accts) (hst : DownOK accts groups s.submitted r st) :
    Good accts groups (abs s) (abs (handleEnc s r st)) := by
  cases st with
  | msg id peer part im encs pl =>
    obtain ⟨a, n, h1, h2, h3, h4, he⟩ := hst
    have hm : MsgInfo groups s.submitted r id peer part a n := ⟨h1, h2, h3, h4⟩
    have hst : DownOK accts groups s.submitted r (.msg id peer part im encs pl) := ⟨a, n, h1, h2, h3, h4, he⟩
    rw [handleEnc_eq]
    have hf := @heFirst_mem encs
    generalize heFirst encs = first at hf
    cases first with
    | none => exact stage2_good h hr hm hst he
    | some ct =>
      simp only [heMain]
      have e1 : abs (setClient s r (decrypt (getClient s r) (whoOf peer part) ct).1) = abs s :=
        abs_setClient_same _ _ _ (reg_of h hr) (decrypt_core _ _ _)
      split
      · next pl' hpl =>
        have e2 : abs (storeSkdm (setClient s r (decrypt (getClient s r) (whoOf peer part) ct).1) r (whoOf peer part) pl')
            = abs s := by
          rw [storeSkdm_abs _ _ (by rw [e1]; exact reg_of h hr), e1]
        have g1 : Good accts groups (abs s) (abs (surface (storeSkdm (setClient s r
            (decrypt (getClient s r) (whoOf peer part) ct).1) r (whoOf peer part) pl') r id peer part pl')) := by
          refine good_of_abs_eq e2 (surface_good (a := a) (n := n) (e2 ▸ h) hr ?_ ?_)
          · rw [show (storeSkdm (setClient s r (decrypt (getClient s r) (whoOf peer part) ct).1) r (whoOf peer part)
              pl').submitted = s.submitted from congrArg ASys.submitted e2]
            exact hm
          · intro p hp
            obtain ⟨e, hemem, hect⟩ := hf rfl
            have := decrypt_ok hpl
            subst this
            exact he e hemem p (hect ▸ hp)
        have hs := g1.2
        refine g1.trans (stage2_good (a := a) (n := n) g1.1 hr ?_ ?_ he)
        · rw [show (surface _ r id peer part pl').submitted = s.submitted from hs]; exact hm
        · rw [show (surface _ r id peer part pl').submitted = s.submitted from hs]; exact hst
      · exact good_of_abs_eq e1 (onDecryptFailure_good _ (e1 ▸ h) hr hm hst)
  | _ => exact Good.refl h

theorem foldl_handleEnc_good {r : Acct} (hr : r ∈ accts) (l : List Stanza) :
    ∀ s : Sys, AInv accts groups (abs s) → (∀ st, st ∈ l → DownOK accts groups s.submitted r st) →
      Good accts groups (abs s) (abs (l.foldl (fun acc st => handleEnc acc r st) s)) := by
  induction l with
  | nil => intro s h _; exact Good.refl h
  | cons st l ih =>
    intro s h hl
    have g1 := handleEnc_good h hr (hl st (by simp))
    have hs : (handleEnc s r st).submitted = s.submitted := g1.2
    refine g1.trans (ih _ g1.1 ?_)
    intro st' hst'
    rw [hs]
    exact hl st' (List.mem_cons_of_mem _ hst')

theorem processPending_good {s : Sys} {r : Acct} {peer : Dest} {part : Option Acct}
    (h : AInv accts groups (abs s)) (hr : r ∈ accts) :
    Good accts groups (abs s) (abs (processPending s r peer part)) := by
  unfold processPending
  dsimp only
  have g1 := foldl_handleEnc_good (accts := accts) (groups := groups) hr
    ((lookup (getClient s r).pendingIn (peer, part)).getD []) s h (by
      intro st hst
      obtain ⟨v, hv, hx⟩ := lookup_getD_mem hst
      exact (h.client r).pend _ v hv st hx)
  refine g1.trans ?_
  generalize List.foldl (fun acc st => handleEnc acc r st) s ((lookup (getClient s r).pendingIn (peer, part)).getD []) = s1 at g1
  have h1 := g1.1
  rw [abs_setClient]
  have h0 := h1.client r
  refine ⟨h1.setCl hr ?_ (IqCompat.rfl' rfl rfl), rfl⟩
  refine { h0 with pend := ?_ }
  intro key l hl
  exact h0.pend key l (mem_erase hl)

theorem processKeys_abs {s : Sys} {r : Acct} {asked got : List Acct} (hreg : (abs s).reg r = true)
    (hg : ∀ j, j ∈ asked → j ∈ got) : abs (processKeys s r asked got).1 = abs s := by
  unfold processKeys
  suffices H : ∀ (l : List Acct) (acc : Sys × List Acct), (abs acc.1).reg r = true → (∀ j, j ∈ l → j ∈ got) →
      abs (l.foldl (fun (acc : Sys × List Acct) j =>
        if got.contains j then
          (setClient { acc.1 with nextSess := acc.1.nextSess + 1 } r (createSession (getClient acc.1 r) j acc.1.nextSess), acc.2 ++ [j])
        else (setClient acc.1 r { getClient acc.1 r with skipEnc := (getClient acc.1 r).skipEnc ++ [.user j] }, acc.2)) acc).1
        = abs acc.1 from H asked (s, []) hreg hg
  intro l
  induction l with
  | nil => intro acc _ _; rfl
  | cons j l ih =>
    intro acc hacc hl
    rw [List.foldl_cons]
    have hj : got.contains j = true := by simpa using hl j (by simp)
    simp only [hj, if_true]
    have e : abs (setClient { acc.1 with nextSess := acc.1.nextSess + 1 } r (createSession (getClient acc.1 r) j acc.1.nextSess))
        = abs acc.1 := abs_setClient_same { acc.1 with nextSess := acc.1.nextSess + 1 } r _ hacc (by rfl)
    rw [ih _ (by rw [e]; exact hacc) (fun j' hj' => hl j' (List.mem_cons_of_mem _ hj')), e]

theorem eraseIq_good {s : Sys} {r : Acct} (iq : Nat) (h : AInv accts groups (abs s)) (hr : r ∈ accts) :
    Good accts groups (abs s)
      (abs (setClient s r { getClient s r with iqReg := erase (getClient s r).iqReg iq })) := by
  rw [abs_setClient]
  have h0 := h.client r
  refine ⟨h.setCl hr ?_ ⟨Nat.le_refl _, ?_⟩, rfl⟩
  · refine { h0 with iq_lt := ?_, conts := ?_ }
    · intro iq' c hc; exact h0.iq_lt iq' c (mem_erase hc)
    · intro iq' c hc; exact h0.conts iq' c (mem_erase hc)
  · intro iq' c hl
    left
    have hl : lookup (erase (getClient s r).iqReg iq) iq' = some c := hl
    rw [lookup_erase] at hl
    split at hl
    · cases hl
    · exact hl

theorem onIqResult_good {s : Sys} {r : Acct} {iq : Nat} {got ms : List Acct}
    (h : AInv accts groups (abs s)) (hr : r ∈ accts)
    (hlink : ∀ k, lookup (getClient s r).iqReg iq = some k → ∀ j, j ∈ asked k → j ∈ got)
    (hms : ∀ m, m ∈ ms → m ∈ accts) :
    Good accts groups (abs s) (abs (onIqResult s r iq got ms)) := by
  unfold onIqResult
  dsimp only
  split
  · exact Good.refl h
  · next k hk =>
    have hgot := hlink k hk
    have hcont : ContOK accts groups s.submitted r k := (h.client r).conts iq k (lookup_mem hk)
    have g0 := eraseIq_good iq h hr
    refine g0.trans ?_
    have h0 := g0.1
    have hs0 : (setClient s r { getClient s r with iqReg := erase (getClient s r).iqReg iq }).submitted = s.submitted := rfl
    generalize setClient s r { getClient s r with iqReg := erase (getClient s r).iqReg iq } = s0 at h0 hs0 ⊢
    clear g0
    cases k with
    | keysForSend n =>
      dsimp only
      have hn : (r, n) ∈ s0.submitted := hs0 ▸ hcont
      split
      · next b hb =>
        have e := processKeys_abs (s := s0) (r := r) (asked := [b]) (got := got) (reg_of h0 hr) (by
          intro j hj; apply hgot; simpa [asked, hb] using hj)
        generalize processKeys s0 r [b] got = pk at e ⊢
        obtain ⟨s1, ok⟩ := pk
        dsimp only at e ⊢
        have h1 : AInv accts groups (abs s1) := e ▸ h0
        have hs1 : s1.submitted = s0.submitted := congrArg ASys.submitted e
        rw [← e]
        split
        · exact sendToContact_good h1 hr rfl (hs1 ▸ hn)
        · exact Good.refl h1
      · exact Good.refl h0
    | keysForRetry n who count =>
      dsimp only
      have hn : (r, n) ∈ s0.submitted := hs0 ▸ hcont.1
      have e := processKeys_abs (s := s0) (r := r) (asked := [who]) (got := got) (reg_of h0 hr) (by
        intro j hj; apply hgot; simpa [asked] using hj)
      generalize processKeys s0 r [who] got = pk at e ⊢
      obtain ⟨s1, ok⟩ := pk
      dsimp only at e ⊢
      have h1 : AInv accts groups (abs s1) := e ▸ h0
      have hs1 : s1.submitted = s0.submitted := congrArg ASys.submitted e
      rw [← e]
      split
      · refine processPlaintext_good h1 hr rfl (hs1 ▸ hn) ?_
        intro w c' e'
        cases e'
        exact hcont.2
      · exact Good.refl h1
    | keysForPending peer part =>
      show Good accts groups (abs s0) (abs (if (processKeys s0 r [whoOf peer part] got).2.isEmpty = true
        then (processKeys s0 r [whoOf peer part] got).1
        else processPending (processKeys s0 r [whoOf peer part] got).1 r peer part))
      have e := processKeys_abs (s := s0) (r := r) (asked := [whoOf peer part]) (got := got) (reg_of h0 hr) (by
        intro j hj; apply hgot; simpa [asked] using hj)
      generalize processKeys s0 r [whoOf peer part] got = pk at e ⊢
      obtain ⟨s1, ok⟩ := pk
      dsimp only at e ⊢
      have h1 : AInv accts groups (abs s1) := e ▸ h0
      rw [← e]
      split
      · exact Good.refl h1
      · exact processPending_good h1 hr
    | groupInfo n =>
      dsimp only
      have hn : (r, n) ∈ s0.submitted := hs0 ▸ hcont
      split
      · refine ensureSessionsAndSend_good h0 hr rfl hn ?_
        intro j hj
        exact hms j (List.mem_filter.mp hj).1
      · exact Good.refl h0
    | keysForGroup n all l =>
      dsimp only
      have hn : (r, n) ∈ s0.submitted := hs0 ▸ hcont.1
      split
      · have e := processKeys_abs (s := s0) (r := r) (asked := l) (got := got) (reg_of h0 hr) (by
          intro j hj; apply hgot; simpa [asked] using hj)
        generalize processKeys s0 r l got = pk at e ⊢
        obtain ⟨s1, ok⟩ := pk
        dsimp only at e ⊢
        have h1 : AInv accts groups (abs s1) := e ▸ h0
        have hs1 : s1.submitted = s0.submitted := congrArg ASys.submitted e
        rw [← e]
        exact sendToGroupWithSessions_good h1 hr rfl (hs1 ▸ hn) (fun j _ hpos => absurd hpos (Nat.lt_irrefl 0))
      · exact Good.refl h0

theorem bubble_good {s : Sys} {r : Acct} (id : Nat) (x : Nat × Dest × Option Acct × RType)
    (h : AInv accts groups (abs s)) (hr : r ∈ accts) :
    Good accts groups (abs s)
      (abs (emit (setClient s r { getClient s r with receipts := (getClient s r).receipts ++ [x] }) r (.ack id 1))) := by
  rw [abs_emit, abs_setClient_same s r _ (reg_of h hr) (by rfl)]
  exact ⟨h.emit hr trivial (LinkOK.of_none rfl), rfl⟩

theorem filterSent_good {s : Sys} {r : Acct} (id : Nat) (b : Bool) (h : AInv accts groups (abs s)) (hr : r ∈ accts) :
    Good accts groups (abs s) (abs (setClient s r (if b = true then getClient s r else
      { getClient s r with sentQueue := (getClient s r).sentQueue.filter (fun m => m.id != id) }))) := by
  rw [abs_setClient]
  have h0 := h.client r
  refine ⟨h.setCl hr ?_ ?_, rfl⟩
  · split
    · exact h0
    · refine { h0 with sentQ := ?_ }
      intro n hn
      exact h0.sentQ n (List.mem_filter.mp hn).1
  · split <;> exact IqCompat.rfl' rfl rfl

theorem onReceipt_good {s : Sys} {r : Acct} {id : Nat} {peer : Dest} {part : Option Acct} {t : RType}
    (h : AInv accts groups (abs s)) (hr : r ∈ accts)
    (hd : DownOK accts groups s.submitted r (.receipt id peer part t)) :
    Good accts groups (abs s) (abs (onReceipt s r id peer part t)) := by
  unfold onReceipt
  dsimp only
  split
  · exact bubble_good id _ h hr
  · next n hn =>
    obtain ⟨n', hn', hid', hwho⟩ := hd
    have hmem : n ∈ (getClient s r).sentQueue := List.mem_of_find?_eq_some hn
    have hsub : (r, n) ∈ s.submitted := (h.client r).sentQ n hmem
    have hid : n.id = id := by simpa using List.find?_some hn
    have hnn : n = n' := (h.sub_ids r n r n' hsub hn' (hid.trans hid'.symm)).2
    subst hnn
    have g1 := filterSent_good id part.isSome h hr
    generalize setClient s r _ = s1 at g1 ⊢
    have h1 := g1.1
    have hs1 : s1.submitted = s.submitted := g1.2
    refine g1.trans ?_
    cases t with
    | delivery => exact bubble_good id _ h1 hr
    | retry count =>
      dsimp only
      have g2 : Good accts groups (abs s1) (abs (emit s1 r (.ack id 1))) := by
        rw [abs_emit]; exact ⟨h1.emit hr trivial (LinkOK.of_none rfl), rfl⟩
      generalize emit s1 r (.ack id 1) = s2 at g2 ⊢
      have h2 := g2.1
      have hs2 : s2.submitted = s1.submitted := g2.2
      refine g2.trans ?_
      refine sendIq_good (s := s2) (c := getClient s2 r) (mk := fun iq => .getKeys iq [whoOf peer part])
        (k := .keysForRetry n (whoOf peer part) count) h2 hr (h2.client r) (IqCompat.rfl' rfl rfl) ⟨?_, hwho⟩ trivial rfl
        (fun j hj => hj)
      rw [hs2, hs1]; exact hsub

theorem clientReceive_good {s : Sys} {r : Acct} {st : Stanza}
    (h : AInv accts groups (abs s)) (hr : r ∈ accts)
    (hd : DownOK accts groups s.submitted r st) (hl : LinkOK ((abs s).cl r) st) :
    Good accts groups (abs s) (abs (clientReceive s r st)) := by
  cases st with
  | msg id peer part im encs pl =>
    simp only [clientReceive]
    split
    · exact Good.refl h
    · exact handleEnc_good h hr hd
  | receipt id peer part t => exact onReceipt_good h hr hd
  | ack id cls => exact Good.refl h
  | getKeys iq jids => exact Good.refl h
  | getGroup iq g => exact Good.refl h
  | keys iq got =>
    exact onIqResult_good h hr (fun k hk j hj => (hl iq rfl).2 k hk j hj) (fun m hm => by cases hm)
  | groupInfo iq g ms =>
    exact onIqResult_good h hr (fun k hk j hj => (hl iq rfl).2 k hk j hj) hd

-- ------------------------------------------------------------------------------------------------ server
theorem push_good {s : Sys} {a : Acct} {st : Stanza} (h : AInv accts groups (abs s)) (ha : a ∈ accts)
    (hd : DownOK accts groups s.submitted a st) (hl : LinkOK ((abs s).cl a) st) :
    Good accts groups (abs s) (abs (push s a st)) := by
  rw [abs_push]; exact ⟨h.push ha hd hl, rfl⟩

theorem foldl_push_good (f : Acct → Stanza) (l : List Acct) :
    ∀ s : Sys, AInv accts groups (abs s) →
      (∀ m, m ∈ l → m ∈ accts ∧ DownOK accts groups s.submitted m (f m) ∧ iqOf (f m) = none) →
      Good accts groups (abs s) (abs (l.foldl (fun acc m => push acc m (f m)) s)) := by
  induction l with
  | nil => intro s h _; exact Good.refl h
  | cons m l ih =>
    intro s h hl
    obtain ⟨h1, h2, h3⟩ := hl m (by simp)
    have g1 := push_good h h1 h2 (LinkOK.of_none h3)
    refine g1.trans (ih _ g1.1 ?_)
    intro m' hm'
    exact hl m' (List.mem_cons_of_mem _ hm')

theorem GoodEncs.filter {n : Node} {encs : List (Option Acct × Ct)} (he : GoodEncs n encs) (p : Option Acct × Ct → Bool) :
    GoodEncs n (encs.filter p) := fun e hm => he e (List.mem_filter.mp hm).1

theorem serverProcess_msg_good {s : Sys} {a : Acct} {id : Nat} {dest : Dest} {part : Option Acct} {im : Bool}
    {encs : List (Option Acct × Ct)} {pl : Option Payload}
    (h : AInv accts groups (abs s)) (ha : a ∈ accts) (hu : UpOK groups s.submitted a (.msg id dest part im encs pl)) :
    Good accts groups (abs s) (abs (serverProcess s a (.msg id dest part im encs pl))) := by
  obtain ⟨_, n, hn, hid, hdest, he, hp⟩ := hu
  have hreg := h.sub_reg a n hn
  cases dest with
  | user b =>
    simp only [serverProcess]
    have g1 := push_good (st := .ack id 0) h ha trivial (LinkOK.of_none rfl)
    generalize push s a (.ack id 0) = s1 at g1 ⊢
    split
    · next hb =>
      have hb' : b ∈ accts := (g1.1.reg b).mp hb
      refine g1.trans (push_good g1.1 hb' ?_ (LinkOK.of_none rfl))
      rw [show s1.submitted = s.submitted from g1.2]
      exact ⟨a, n, hn, hid, by simp [intendedG, hdest], by simp [Origin, hdest], he.filter _⟩
    · exact g1
  | group g =>
    simp only [serverProcess]
    have g1 := push_good (st := .ack id 0) h ha trivial (LinkOK.of_none rfl)
    have hg1 : (push s a (.ack id 0)).groups = groups := h.grp
    generalize push s a (.ack id 0) = s1 at g1 hg1 ⊢
    have hs1 : s1.submitted = s.submitted := g1.2
    split
    · next p =>
      split
      · next hb =>
        have hb' : p ∈ accts := (g1.1.reg p).mp hb
        refine g1.trans (push_good g1.1 hb' ?_ (LinkOK.of_none rfl))
        rw [hs1]
        exact ⟨a, n, hn, hid, hp p rfl, by simp [Origin, hdest], he.filter _⟩
      · exact g1
    · refine g1.trans (foldl_push_good _ _ s1 g1.1 ?_)
      intro m hm
      have hm' : m ∈ intendedG groups a n := by
        simp only [intendedG, hdest]
        simpa [members, hg1] using hm
      refine ⟨hreg.2 m hm', ?_, rfl⟩
      rw [hs1]
      refine ⟨a, n, hn, hid, hm', by simp [Origin, hdest], ?_⟩
      intro e hmem q hq
      rcases List.mem_append.mp hmem with h1 | h1
      · obtain ⟨e', he', rfl⟩ := List.mem_map.mp h1
        exact he e' (List.mem_filter.mp he').1 q hq
      · exact he e (List.mem_filter.mp h1).1 q hq

theorem serverProcess_receipt_good {s : Sys} {a : Acct} {id : Nat} {peer : Dest} {part : Option Acct} {t : RType}
    (h : AInv accts groups (abs s)) (ha : a ∈ accts) (hu : UpOK groups s.submitted a (.receipt id peer part t)) :
    Good accts groups (abs s) (abs (serverProcess s a (.receipt id peer part t))) := by
  obtain ⟨a', n, hn, hid, hint, horig⟩ := hu
  cases peer with
  | user b =>
    simp only [serverProcess]
    have g1 := push_good (st := .ack id 1) h ha trivial (LinkOK.of_none rfl)
    generalize push s a (.ack id 1) = s1 at g1 ⊢
    split
    · next hb =>
      have hb' : b ∈ accts := (g1.1.reg b).mp hb
      refine g1.trans (push_good g1.1 hb' ?_ (LinkOK.of_none rfl))
      rw [show s1.submitted = s.submitted from g1.2]
      unfold Origin at horig
      split at horig
      · obtain ⟨h1, _⟩ := horig
        cases h1
        exact ⟨n, hn, hid, hint⟩
      · obtain ⟨h1, _⟩ := horig
        cases h1
    · exact g1
  | group g =>
    simp only [serverProcess]
    have g1 := push_good (st := .ack id 1) h ha trivial (LinkOK.of_none rfl)
    generalize push s a (.ack id 1) = s1 at g1 ⊢
    split
    · next author =>
      split
      · next hb =>
        have hb' : author ∈ accts := (g1.1.reg author).mp hb
        refine g1.trans (push_good g1.1 hb' ?_ (LinkOK.of_none rfl))
        rw [show s1.submitted = s.submitted from g1.2]
        unfold Origin at horig
        split at horig
        · obtain ⟨h1, _⟩ := horig
          cases h1
        · obtain ⟨_, h2⟩ := horig
          cases h2
          exact ⟨n, hn, hid, hint⟩
      · exact g1
    · exact g1

theorem serverProcess_good {s : Sys} {a : Acct} {st : Stanza}
    (h : AInv accts groups (abs s)) (ha : a ∈ accts) (hu : UpOK groups s.submitted a st)
    (hl : LinkOK ((abs s).cl a) st) :
    Good accts groups (abs s) (abs (serverProcess s a st)) := by
  cases st with
  | msg id dest part im encs pl => exact serverProcess_msg_good h ha hu
  | receipt id peer part t => exact serverProcess_receipt_good h ha hu
  | ack id cls => exact Good.refl h
  | keys iq got => exact Good.refl h
  | groupInfo iq g ms => exact Good.refl h
  | getKeys iq jids =>
    simp only [serverProcess]
    refine push_good h ha trivial ?_
    intro iq' hiq
    cases hiq
    obtain ⟨h1, h2⟩ := hl iq rfl
    refine ⟨h1, ?_⟩
    intro c hc j hj
    show j ∈ jids.filter (registered s)
    rw [List.mem_filter]
    exact ⟨h2 c hc j hj, (h.reg j).mpr (h.asked_reg (lookup_mem hc) j hj)⟩
  | getGroup iq g =>
    simp only [serverProcess]
    refine push_good h ha ?_ ?_
    · intro m hm
      obtain ⟨v, hv, hx⟩ := lookup_getD_mem hm
      have hg : s.groups = groups := h.grp
      rw [hg] at hv
      exact h.wf g v hv m hx
    · intro iq' hiq
      cases hiq
      obtain ⟨h1, h2⟩ := hl iq rfl
      exact ⟨h1, fun c hc j hj => h2 c hc j hj⟩

-- ------------------------------------------------------------------------------------------------ steps
theorem corruptLast_plain (encs : List (Option Acct × Ct)) :
    ∀ e, e ∈ corruptLast encs → ∃ e', e' ∈ encs ∧ e.2.plain = e'.2.plain := by
  induction encs with
  | nil => intro e he; simp [corruptLast] at he
  | cons e0 es ih =>
    cases es with
    | nil =>
      intro e he
      simp only [corruptLast, List.mem_singleton] at he
      subst he
      exact ⟨e0, by simp, rfl⟩
    | cons e1 es1 =>
      intro e he
      have : corruptLast (e0 :: e1 :: es1) = e0 :: corruptLast (e1 :: es1) := by simp [corruptLast]
      rw [this] at he
      rcases List.mem_cons.mp he with h1 | h1
      · subst h1; exact ⟨e, by simp, rfl⟩
      · obtain ⟨e', he', hp⟩ := ih e h1
        exact ⟨e', List.mem_cons_of_mem _ he', hp⟩

theorem GoodEncs.corruptLast {n : Node} {encs : List (Option Acct × Ct)} (he : GoodEncs n encs) :
    GoodEncs n (corruptLast encs) := by
  intro e hm p hp
  obtain ⟨e', he', hpl⟩ := corruptLast_plain encs e hm
  exact he e' he' p (hpl ▸ hp)

theorem restart_good {s : Sys} {a : Acct} (h : AInv accts groups (abs s)) (ha : a ∈ accts) :
    AInv accts groups (abs (setClient s a { getClient s a with
      sentQueue := [], pendingIn := [], iqReg := [], retries := [], skipEnc := [] })) := by
  rw [abs_setClient]
  have h0 := h.client a
  refine h.setCl ha ?_ ⟨Nat.le_refl _, ?_⟩
  · exact {
      skip := rfl
      iq_lt := fun iq c hc => by cases hc
      conts := fun iq c hc => by cases hc
      sentQ := fun n hn => by cases hn
      pend := fun key l hl => by cases hl
      shown := h0.shown }
  · intro iq c hc
    cases hc

theorem step_inv {s : Sys} {act : Act} (h : AInv accts groups (abs s)) (hall : Allowed s act = true) :
    AInv accts groups (abs (step s act)) := by
  cases act with
  | appSend a n =>
    simp only [Allowed, Bool.and_eq_true, Bool.not_eq_true', ] at hall
    obtain ⟨⟨hra, hid⟩, hdest⟩ := hall
    have ha : a ∈ accts := (h.reg a).mp hra
    have hg : s.groups = groups := h.grp
    have hadd : AInv accts groups (abs { s with submitted := s.submitted ++ [(a, n)] }) := by
      rw [abs_addSub]
      refine h.addSub ha ?_ ?_
      · intro r hr
        unfold intendedG at hr
        split at hdest
        · next b hb =>
          rw [hb] at hr
          simp only [List.mem_singleton] at hr
          subst hr
          simp only [Bool.and_eq_true] at hdest
          exact (h.reg r).mp hdest.1
        · next g hgd =>
          rw [hgd] at hr
          simp only [Bool.and_eq_true, List.all_eq_true] at hdest
          have hr' := (List.mem_filter.mp hr).1
          rw [← hg] at hr'
          exact (h.reg r).mp (hdest.2 r hr')
      · intro p hp e
        have : n.id ∈ usedIds s := by
          unfold usedIds
          exact List.mem_map.mpr ⟨p, hp, e⟩
        have hc : (usedIds s).contains n.id = true := by simpa using this
        rw [hc] at hid
        cases hid
    exact (sendLayerSend_good (s := { s with submitted := s.submitted ++ [(a, n)] }) hadd ha (by simp)).1
  | process a =>
    simp only [step]
    split
    · exact h
    · next st rest heq =>
      have hmem : st ∈ (abs s).inb a := by
        show st ∈ queueOf s.inbound a
        rw [heq]; simp
      obtain ⟨ha, hu, hl⟩ := h.inb_ok a st hmem
      have h' : AInv accts groups (abs { s with inbound := insert s.inbound a rest }) := by
        rw [abs_setInbound]
        refine h.setInb ?_
        intro st' hst'
        show st' ∈ queueOf s.inbound a
        rw [heq]; exact List.mem_cons_of_mem _ hst'
      exact (serverProcess_good (s := { s with inbound := insert s.inbound a rest }) h' ha hu (by
        rw [abs_setInbound]; exact hl)).1
  | deliver a f =>
    simp only [step]
    split
    · exact h
    · next st rest heq =>
      have hmem : st ∈ (abs s).outb a := by
        show st ∈ queueOf s.outbound a
        rw [heq]; simp
      obtain ⟨ha, hd, hl⟩ := h.outb_ok a st hmem
      have h' : AInv accts groups (abs { s with outbound := insert s.outbound a rest }) := by
        rw [abs_setOutbound]
        refine h.setOutb ?_
        intro st' hst'
        show st' ∈ queueOf s.outbound a
        rw [heq]; exact List.mem_cons_of_mem _ hst'
      split
      · next id peer part im encs pl =>
        exact (clientReceive_good (s := { s with faulted := s.faulted ++ [(id, a)] }) h ha hd hl).1
      · next id peer part im encs pl =>
        refine (clientReceive_good (s := { s with outbound := insert s.outbound a rest, faulted := s.faulted ++ [(id, a)] })
          (st := .msg id peer part im (corruptLast encs) pl) h' ha ?_ (LinkOK.of_none rfl)).1
        obtain ⟨a', n, h1, h2, h3, h4, he⟩ := hd
        exact ⟨a', n, h1, h2, h3, h4, he.corruptLast⟩
      · exact (clientReceive_good (s := { s with outbound := insert s.outbound a rest }) h' ha hd (by
          rw [abs_setOutbound]; exact hl)).1
  | restart a =>
    simp only [Allowed, Bool.and_eq_true] at hall
    exact restart_good h ((h.reg a).mp hall.1.1)

theorem run_inv (acts : List Act) : ∀ s : Sys, AInv accts groups (abs s) → AllowedRun s acts = true →
    AInv accts groups (abs (run s acts)) := by
  induction acts with
  | nil => intro s h _; exact h
  | cons act acts ih =>
    intro s h ha
    simp only [AllowedRun, Bool.and_eq_true] at ha
    exact ih _ (step_inv h ha.1) ha.2

theorem getClient_init (accts : List Acct) (groups : List (Nat × List Acct)) (r : Acct) :
    getClient (initSys accts groups) r = {} := by
  unfold getClient initSys lookup
  dsimp only
  cases hf : (accts.map (fun a => (a, ({} : Client)))).find? (fun p => p.1 == r) with
  | none => rfl
  | some p =>
    have hp := List.mem_of_find?_eq_some hf
    obtain ⟨a, _, rfl⟩ := List.mem_map.mp hp
    rfl

end Fun

theorem init_inv (accts : List Acct) (groups : List (Nat × List Acct)) (hw : WFConfig accts groups) :
    AInv accts groups (abs (initSys accts groups)) where
  reg a := by simp [abs, registered, initSys]
  grp := rfl
  wf g l hg := hw.2.2 (g, l) hg
  sub_reg a n hm := by cases hm
  sub_ids a n a' n' hm := by cases hm
  client r := by
    show ClientOK accts groups [] r (core (getClient (initSys accts groups) r))
    rw [getClient_init]
    exact {
      skip := rfl
      iq_lt := fun iq c hc => by cases hc
      conts := fun iq c hc => by cases hc
      sentQ := fun n hn => by cases hn
      pend := fun key l hl => by cases hl
      shown := fun x hx => by cases hx }
  inb_ok r st hm := by cases hm
  outb_ok r st hm := by cases hm
  wire a id peer part im encs pl hm := by cases hm


/-- T1: no stanza that leaves a client carries a plaintext payload -/
theorem wire_only_ciphertext (accts : List Acct) (groups : List (Nat × List Acct)) (hw : WFConfig accts groups)
    (acts : List Act) (ha : AllowedRun (initSys accts groups) acts = true) :
    ∀ a id peer part im encs pl, (a, Stanza.msg id peer part im encs pl) ∈ (run (initSys accts groups) acts).wire → pl = none := by
  exact (run_inv acts _ (init_inv accts groups hw) ha).wire

/-- T2: whatever an application is shown was submitted, by the claimed sender, to a destination that includes this
    account, with exactly that content -/
theorem shown_is_genuine (accts : List Acct) (groups : List (Nat × List Acct)) (hw : WFConfig accts groups)
    (acts : List Act) (ha : AllowedRun (initSys accts groups) acts = true) :
    let s := run (initSys accts groups) acts
    ∀ r x, x ∈ (getClient s r).shown →
      ∃ a n, (a, n) ∈ s.submitted ∧ n.id = x.id ∧ n.payload = x.payload ∧ r ∈ intended s a n ∧ OriginOf a n x.peer x.participant := by
  intro s r x hx
  have h := run_inv acts _ (init_inv accts groups hw) ha
  obtain ⟨a, n, h1, h2, h3, h4, h5⟩ := (h.client r).shown x hx
  have hg : s.groups = groups := h.grp
  exact ⟨a, n, h1, h2, h3, by rw [intended_eq, hg]; exact h4, h5⟩

end Yow.E2E
