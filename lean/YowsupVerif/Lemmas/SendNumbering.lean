/-  Lemmas for Model/SendNumbering.lean (used by Props/C12Numbering.lean)  -/
import YowsupVerif.Model.SendNumbering
namespace Yow.SendNumbering

theorem send_inStep (s : St) (h : InStep s) (size : Nat) : InStep (send true s size).1 := by
  unfold send
  split
  · simpa using h
  · obtain ⟨hw, hn⟩ := h
    constructor
    · simp only [List.length_append, List.length_singleton]
      rw [List.range_succ, hn]
      congr 1
    · simp [hn]

theorem run_inStep (sizes : List Nat) : ∀ (s : St), InStep s → InStep (run true s sizes) := by
  induction sizes with
  | nil => intro s h; simpa [run] using h
  | cons n ns ih => intro s h; exact ih _ (send_inStep s h n)

end Yow.SendNumbering
