/-
  Exactly-once with server faults, part 18: which parts of the recipient's record `handleEnc` changes, and what it does
  with a stanza whose ciphertexts all open.
-/
import YowsupVerif.Lemmas.E2ETokFOpen
import YowsupVerif.Lemmas.E2ETokRecv
namespace Yow.E2E

section Proj
variable (c : Client) (id : Nat) (peer : Dest) (part : Option Acct)

theorem surfaceC_fields (pl : Plain) : (surfaceC c id peer part pl).1.sessions = c.sessions ∧
    (surfaceC c id peer part pl).1.peerSK = c.peerSK ∧ (surfaceC c id peer part pl).1.seen = c.seen ∧
    (surfaceC c id peer part pl).1.seenSK = c.seenSK := by
  unfold surfaceC; split <;> exact ⟨rfl, rfl, rfl, rfl⟩

theorem failC_fields (st : Stanza) (sender : Acct) (d : Dec) : (failC c st id peer part sender d).1.sessions = c.sessions ∧
    (failC c st id peer part sender d).1.peerSK = c.peerSK ∧ (failC c st id peer part sender d).1.seen = c.seen ∧
    (failC c st id peer part sender d).1.seenSK = c.seenSK := by
  cases d <;> exact ⟨rfl, rfl, rfl, rfl⟩

theorem groupDecrypt_fields (g : Nat) (sender : Acct) (k : Ct) : (groupDecrypt c g sender k).1.sessions = c.sessions ∧
    (groupDecrypt c g sender k).1.peerSK = c.peerSK ∧ (groupDecrypt c g sender k).1.seen = c.seen := by
  rcases groupDecrypt_cases c g sender k with ⟨_, h⟩ | ⟨h, _⟩
  · rw [h]; exact ⟨rfl, rfl, rfl⟩
  · rw [h]; exact ⟨rfl, rfl, rfl⟩

theorem stage2C_fields (st : Stanza) (sender : Acct) (encs : List (Option Acct × Ct)) :
    (stage2C c st id peer part sender encs).1.sessions = c.sessions ∧ (stage2C c st id peer part sender encs).1.peerSK = c.peerSK ∧
    (stage2C c st id peer part sender encs).1.seen = c.seen := by
  unfold stage2C
  split
  · next ct g hct =>
    obtain ⟨g1, g2, g3⟩ := groupDecrypt_fields c g sender ct
    dsimp only
    split
    · obtain ⟨s1, s2, s3, _⟩ := surfaceC_fields (groupDecrypt c g sender ct).1 id (.group g) part ‹Plain›
      exact ⟨s1.trans g1, s2.trans g2, s3.trans g3⟩
    · exact ⟨g1, g2, g3⟩
    · obtain ⟨f1, f2, f3, _⟩ := failC_fields (groupDecrypt c g sender ct).1 id (.group g) part st sender (groupDecrypt c g sender ct).2
      exact ⟨f1.trans g1, f2.trans g2, f3.trans g3⟩
  · exact ⟨rfl, rfl, rfl⟩

end Proj

/-- the sessions, the peers' sender keys and the opened pairwise ciphertexts after `handleEnc`: what stage 1 made of them -/
theorem heC_fields (c : Client) (id : Nat) (peer : Dest) (part : Option Acct) (im : Bool) (encs : List (Option Acct × Ct))
    (pl : Option Payload) :
    (heC c id peer part im encs pl).1.sessions =
      (match heFirst encs with | some ct => (decrypt c (whoOf peer part) ct).1.sessions | none => c.sessions) ∧
    (heC c id peer part im encs pl).1.seen =
      (match heFirst encs with | some ct => (decrypt c (whoOf peer part) ct).1.seen | none => c.seen) ∧
    (heC c id peer part im encs pl).1.peerSK =
      (match heFirst encs with
       | some ct => (match (decrypt c (whoOf peer part) ct).2 with
          | .ok p => (storeC (decrypt c (whoOf peer part) ct).1 (whoOf peer part) p).peerSK
          | _ => c.peerSK)
       | none => c.peerSK) := by
  unfold heC
  cases hf : heFirst encs with
  | none =>
    obtain ⟨s1, s2, s3⟩ := stage2C_fields c id peer part (.msg id peer part im encs pl) (whoOf peer part) encs
    exact ⟨s1, s3, s2⟩
  | some ct =>
    dsimp only
    rcases decrypt_cases c (whoOf peer part) ct with ⟨sess, hd2, hd1, _⟩ | ⟨hd1, hd2⟩
    · rw [hd2]
      dsimp only
      obtain ⟨a1, a2, a3⟩ := stage2C_fields (surfaceC (storeC (decrypt c (whoOf peer part) ct).1 (whoOf peer part) ct.plain) id peer part ct.plain).1
        id peer part (.msg id peer part im encs pl) (whoOf peer part) encs
      obtain ⟨b1, b2, b3, _⟩ := surfaceC_fields (storeC (decrypt c (whoOf peer part) ct).1 (whoOf peer part) ct.plain) id peer part ct.plain
      refine ⟨a1.trans (b1.trans ?_), a3.trans (b3.trans ?_), a2.trans b2⟩
      · unfold storeC; split <;> rfl
      · unfold storeC; split <;> rfl
    · generalize hdd : decrypt c (whoOf peer part) ct = d at hd1 hd2
      obtain ⟨c1, dd⟩ := d
      simp only at hd1 hd2
      subst hd1
      obtain ⟨f1, f2, f3, _⟩ := failC_fields c1 id peer part (.msg id peer part im encs pl) (whoOf peer part) dd
      rcases hd2 with h | ⟨h, _⟩ | ⟨h, _⟩ <;> subst h <;> exact ⟨f1, f3, f2⟩

end Yow.E2E

namespace Yow.E2E

theorem heC_A_ok {c c1 : Client} {id : Nat} {peer : Dest} {part : Option Acct} {im : Bool} {pl : Option Payload} {ct : Ct} {p : Payload}
    (hk : ct.kind ≠ .skmsg) (hd : decrypt c (whoOf peer part) ct = (c1, .ok ct.plain)) (hp : ct.plain.content = some p) :
    heC c id peer part im [(none, ct)] pl =
      (resetC { storeC c1 (whoOf peer part) ct.plain with
        shown := (storeC c1 (whoOf peer part) ct.plain).shown ++ [{ id := id, peer := peer, participant := part, payload := p }] } id,
       [.receipt id peer part .delivery]) := by
  have hsk : firstKind [((none : Option Acct), ct)] .skmsg = none := by rw [firstKind_single]; simp [hk]
  unfold heC
  rw [heFirst_single hk]
  simp only [hd, surfaceC, hp, stage2C, hsk, List.append_nil]

theorem heC_B0_ok {c c2 : Client} {id g : Nat} {part : Option Acct} {im : Bool} {pl : Option Payload} {k : Ct} {p : Payload}
    (hk : k.kind = .skmsg) (hd : groupDecrypt c g (whoOf (.group g) part) k = (c2, .ok k.plain)) (hp : k.plain.content = some p) :
    heC c id (.group g) part im [(none, k)] pl =
      (resetC { c2 with shown := c2.shown ++ [{ id := id, peer := .group g, participant := part, payload := p }] } id,
       [.receipt id (.group g) part .delivery]) := by
  have hf : heFirst [((none : Option Acct), k)] = none := by
    unfold heFirst; rw [firstKind_single, firstKind_single]; simp [hk]
  have hsk : firstKind [((none : Option Acct), k)] .skmsg = some k := by rw [firstKind_single]; simp [hk]
  unfold heC
  rw [hf]
  simp only [stage2C, hsk, hd, surfaceC, hp]

theorem heC_B1_ok {c c1 c2 : Client} {id g : Nat} {part : Option Acct} {im : Bool} {pl : Option Payload} {l : List (Option Acct × Ct)}
    {ct k : Ct} {p : Payload} (hl : ∀ e ∈ l, e.2.kind ≠ .skmsg) (hk : k.kind = .skmsg) (hf : heFirst l = some ct)
    (hd : decrypt c (whoOf (.group g) part) ct = (c1, .ok ct.plain)) (hcn : ct.plain.content = none)
    (hd2 : groupDecrypt (storeC c1 (whoOf (.group g) part) ct.plain) g (whoOf (.group g) part) k = (c2, .ok k.plain))
    (hp : k.plain.content = some p) :
    heC c id (.group g) part im (l ++ [(none, k)]) pl =
      (resetC { c2 with shown := c2.shown ++ [{ id := id, peer := .group g, participant := part, payload := p }] } id,
       [.receipt id (.group g) part .delivery]) := by
  have hsk := firstKind_append_sk hl hk
  unfold heC
  rw [heFirst_append_sk hk, hf]
  simp only [hd, surfaceC, hcn, stage2C, hsk, hd2, hp, List.nil_append]

/-- a group stanza without pairwise ciphertext consists of the sender-key ciphertext alone -/
theorem shapeB_nofirst {l : List (Option Acct × Ct)} (hl : ∀ e ∈ l, e.2.kind ≠ .skmsg) (hf : heFirst l = none) : l = [] := by
  cases l with
  | nil => rfl
  | cons e l' =>
    exfalso
    have hk := hl e (by simp)
    unfold heFirst firstKind at hf
    cases hkind : e.2.kind with
    | skmsg => exact hk hkind
    | pkmsg => simp [List.find?_cons, hkind] at hf
    | msg =>
      simp only [List.find?_cons, hkind] at hf
      split at hf
      · cases hf
      · simp at hf

end Yow.E2E

namespace Yow.E2E

/-- a change of the recipient's record that registers nothing and parks nothing, with only receipts going out -/
structure Quiet (c c' : Client) (out : List Stanza) : Prop where
  iqReg : c'.iqReg = c.iqReg
  pend : c'.pendingIn = c.pendingIn
  nextIq : c'.nextIq = c.nextIq
  ownSK : c'.ownSK = c.ownSK
  shown : ∀ id, shownC c id ≤ shownC c' id
  out : ∀ st ∈ out, (∀ id peer part im encs pl, st ≠ .msg id peer part im encs pl) ∧ stanzaIq st = none

theorem Quiet.rfl' (c : Client) : Quiet c c [] :=
  ⟨rfl, rfl, rfl, rfl, fun _ => Nat.le_refl _, fun st hst => by cases hst⟩

theorem Quiet.trans {c c1 c2 : Client} {o1 o2 : List Stanza} (h1 : Quiet c c1 o1) (h2 : Quiet c1 c2 o2) : Quiet c c2 (o1 ++ o2) where
  iqReg := h2.iqReg.trans h1.iqReg
  pend := h2.pend.trans h1.pend
  nextIq := h2.nextIq.trans h1.nextIq
  ownSK := h2.ownSK.trans h1.ownSK
  shown := fun id => Nat.le_trans (h1.shown id) (h2.shown id)
  out := by
    intro st hst
    rcases List.mem_append.mp hst with h | h
    · exact h1.out st h
    · exact h2.out st h

theorem Quiet.of_eq {c c' : Client} (h1 : c'.iqReg = c.iqReg) (h2 : c'.pendingIn = c.pendingIn) (h3 : c'.nextIq = c.nextIq)
    (h4 : c'.ownSK = c.ownSK) (h5 : c'.shown = c.shown) : Quiet c c' [] :=
  ⟨h1, h2, h3, h4, fun id => Nat.le_of_eq (shownC_congr h5 id).symm, fun st hst => by cases hst⟩

theorem quiet_surface (c : Client) (id : Nat) (peer : Dest) (part : Option Acct) (pl : Plain) :
    Quiet c (surfaceC c id peer part pl).1 (surfaceC c id peer part pl).2 := by
  unfold surfaceC
  split
  · refine ⟨rfl, rfl, rfl, rfl, ?_, ?_⟩
    · intro id'
      unfold shownC
      simp only [List.filter_append, List.length_append]
      omega
    · intro st hst
      rw [List.mem_singleton] at hst; subst hst
      exact ⟨(fun _ _ _ _ _ _ e => by cases e), rfl⟩
  · exact Quiet.rfl' c

theorem quiet_retry (c : Client) (id : Nat) (peer : Dest) (part : Option Acct) :
    Quiet c (retryC c id peer part).1 (retryC c id peer part).2 := by
  refine ⟨rfl, rfl, rfl, rfl, fun _ => Nat.le_refl _, ?_⟩
  intro st hst
  have : st = .receipt id peer part (.retry ((lookup c.retries id).getD 0 + 1)) := by simpa [retryC] using hst
  subst this
  exact ⟨(fun _ _ _ _ _ _ e => by cases e), rfl⟩

theorem quiet_reset (c : Client) (id : Nat) : Quiet c (resetC c id) [] := Quiet.of_eq rfl rfl rfl rfl rfl

theorem quiet_fail (c : Client) (st : Stanza) (id : Nat) (peer : Dest) (part : Option Acct) (sender : Acct) (d : Dec)
    (hd : d ≠ .noSession) : Quiet c (failC c st id peer part sender d).1 (failC c st id peer part sender d).2 := by
  cases d with
  | ok p => exact Quiet.rfl' c
  | invalid => exact quiet_retry c id peer part
  | duplicate =>
    refine ⟨rfl, rfl, rfl, rfl, fun _ => Nat.le_refl _, ?_⟩
    intro st' hst'
    have : st' = .receipt id peer part .delivery := by simpa [failC] using hst'
    subst this
    exact ⟨(fun _ _ _ _ _ _ e => by cases e), rfl⟩
  | noSession => exact absurd rfl hd

theorem quiet_groupDecrypt (c : Client) (g : Nat) (sender : Acct) (k : Ct) :
    Quiet c (groupDecrypt c g sender k).1 [] ∧
    ∀ e ∈ (groupDecrypt c g sender k).1.seenSK, e ∈ c.seenSK ∨ e = (k.sess, k.ctr) := by
  rcases groupDecrypt_cases c g sender k with ⟨_, h⟩ | ⟨h, _⟩
  · rw [h]
    refine ⟨Quiet.of_eq rfl rfl rfl rfl rfl, ?_⟩
    intro e he
    have he : e ∈ c.seenSK ++ [(k.sess, k.ctr)] := he
    rcases List.mem_append.mp he with h1 | h1
    · exact Or.inl h1
    · exact Or.inr (by simpa using h1)
  · rw [h]; exact ⟨Quiet.rfl' c, fun e he => Or.inl he⟩

theorem quiet_stage2 (c : Client) (st : Stanza) (id : Nat) (peer : Dest) (part : Option Acct) (sender : Acct)
    (encs : List (Option Acct × Ct)) :
    Quiet c (stage2C c st id peer part sender encs).1 (stage2C c st id peer part sender encs).2 ∧
    ∀ e ∈ (stage2C c st id peer part sender encs).1.seenSK, e ∈ c.seenSK ∨ ∃ k, firstKind encs .skmsg = some k ∧ e = (k.sess, k.ctr) := by
  unfold stage2C
  split
  · next ct g hct =>
    obtain ⟨q1, q2⟩ := quiet_groupDecrypt c g sender ct
    have hsk : ∀ e ∈ (groupDecrypt c g sender ct).1.seenSK, e ∈ c.seenSK ∨ ∃ k, firstKind encs .skmsg = some k ∧ e = (k.sess, k.ctr) :=
      fun e he => (q2 e he).imp (fun h => h) (fun h => ⟨ct, hct, h⟩)
    dsimp only
    split
    · next pl _ =>
      have q3 := quiet_surface (groupDecrypt c g sender ct).1 id (.group g) part pl
      have q4 := quiet_reset (surfaceC (groupDecrypt c g sender ct).1 id (.group g) part pl).1 id
      refine ⟨by simpa using (q1.trans q3).trans q4, ?_⟩
      intro e he
      have : (resetC (surfaceC (groupDecrypt c g sender ct).1 id (.group g) part pl).1 id).seenSK
          = (groupDecrypt c g sender ct).1.seenSK := (surfaceC_fields _ id (.group g) part pl).2.2.2
      rw [this] at he
      exact hsk e he
    · have q3 := quiet_retry (groupDecrypt c g sender ct).1 id (.group g) part
      have q4 := quiet_reset (retryC (groupDecrypt c g sender ct).1 id (.group g) part).1 id
      refine ⟨by simpa using (q1.trans q3).trans q4, ?_⟩
      intro e he
      exact hsk e he
    · next hne1 hne2 =>
      have q3 := quiet_fail (groupDecrypt c g sender ct).1 st id (.group g) part sender (groupDecrypt c g sender ct).2
        (fun e => hne2 e)
      refine ⟨by simpa using q1.trans q3, ?_⟩
      intro e he
      have : (failC (groupDecrypt c g sender ct).1 st id (.group g) part sender (groupDecrypt c g sender ct).2).1.seenSK
          = (groupDecrypt c g sender ct).1.seenSK := (failC_fields _ id (.group g) part st sender _).2.2.2
      rw [this] at he
      exact hsk e he
  · exact ⟨quiet_reset c id, fun e he => Or.inl he⟩

/-- `handleEnc` when stage 1 does not find the session missing -/
theorem quiet_heC (c : Client) (id : Nat) (peer : Dest) (part : Option Acct) (im : Bool) (encs : List (Option Acct × Ct))
    (pl : Option Payload) (hns : ∀ ct, heFirst encs = some ct → (decrypt c (whoOf peer part) ct).2 ≠ .noSession) :
    Quiet c (heC c id peer part im encs pl).1 (heC c id peer part im encs pl).2 ∧
    ∀ e ∈ (heC c id peer part im encs pl).1.seenSK, e ∈ c.seenSK ∨ ∃ k, firstKind encs .skmsg = some k ∧ e = (k.sess, k.ctr) := by
  unfold heC
  cases hf : heFirst encs with
  | none => exact quiet_stage2 c _ id peer part _ encs
  | some ct =>
    dsimp only
    have hns' := hns ct hf
    rcases decrypt_cases c (whoOf peer part) ct with ⟨sess, hd2, hd1, _⟩ | ⟨hd1, hd2⟩
    · rw [hd2]
      dsimp only
      have q1 : Quiet c (storeC (decrypt c (whoOf peer part) ct).1 (whoOf peer part) ct.plain) [] := by
        rw [hd1]; unfold storeC; split <;> exact Quiet.of_eq rfl rfl rfl rfl rfl
      have hsk1 : (storeC (decrypt c (whoOf peer part) ct).1 (whoOf peer part) ct.plain).seenSK = c.seenSK := by
        rw [hd1]; unfold storeC; split <;> rfl
      have q2 := quiet_surface (storeC (decrypt c (whoOf peer part) ct).1 (whoOf peer part) ct.plain) id peer part ct.plain
      obtain ⟨q3, q4⟩ := quiet_stage2 (surfaceC (storeC (decrypt c (whoOf peer part) ct).1 (whoOf peer part) ct.plain) id peer part ct.plain).1
        (.msg id peer part im encs pl) id peer part (whoOf peer part) encs
      refine ⟨by simpa using (q1.trans q2).trans q3, ?_⟩
      intro e he
      rcases q4 e he with h | h
      · left
        rw [(surfaceC_fields _ id peer part ct.plain).2.2.2, hsk1] at h
        exact h
      · exact Or.inr h
    · generalize hdd : decrypt c (whoOf peer part) ct = d at hd1 hd2 hns'
      obtain ⟨c1, dd⟩ := d
      simp only at hd1 hd2 hns'
      subst hd1
      rcases hd2 with h | ⟨h, _⟩ | ⟨h, _⟩
      · subst h
        dsimp only
        refine ⟨quiet_fail c1 _ id peer part _ .invalid (by simp), ?_⟩
        intro e he
        rw [(failC_fields c1 id peer part _ _ .invalid).2.2.2] at he
        exact Or.inl he
      · subst h
        dsimp only
        refine ⟨quiet_fail c1 _ id peer part _ .duplicate (by simp), ?_⟩
        intro e he
        rw [(failC_fields c1 id peer part _ _ .duplicate).2.2.2] at he
        exact Or.inl he
      · exact absurd h hns'

end Yow.E2E
