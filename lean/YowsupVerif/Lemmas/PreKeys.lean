import YowsupVerif.Model.PreKeys
namespace Yow.PreKeys
set_option linter.unusedSimpArgs false

theorem foldl_max_ge (db : List Row) (m : Nat) : m ≤ db.foldl (fun m r => max m r.id) m := by
  induction db generalizing m with
  | nil => simp
  | cons a t ih => simp only [List.foldl_cons]; exact Nat.le_trans (Nat.le_max_left _ _) (ih _)

theorem foldl_max_mem (db : List Row) (m : Nat) : ∀ r ∈ db, r.id ≤ db.foldl (fun m r => max m r.id) m := by
  induction db generalizing m with
  | nil => simp
  | cons a t ih =>
    intro r hr
    simp only [List.foldl_cons]
    rcases List.mem_cons.1 hr with rfl | hr
    · exact Nat.le_trans (Nat.le_max_right _ _) (foldl_max_ge _ _)
    · exact ih _ r hr

theorem le_maxId {db : List Row} {r : Row} (h : r ∈ db) : r.id ≤ maxId db := foldl_max_mem db 0 r h

theorem foldl_natmax_ge (l : List Nat) (m : Nat) : m ≤ l.foldl max m := by
  induction l generalizing m with
  | nil => simp
  | cons a t ih => simp only [List.foldl_cons]; exact Nat.le_trans (Nat.le_max_left _ _) (ih _)

theorem foldl_natmax_mem (l : List Nat) (m : Nat) : ∀ n ∈ l, n ≤ l.foldl max m := by
  induction l generalizing m with
  | nil => simp
  | cons a t ih =>
    intro n hn
    simp only [List.foldl_cons]
    rcases List.mem_cons.1 hn with rfl | hn
    · exact Nat.le_trans (Nat.le_max_right _ _) (foldl_natmax_ge _ _)
    · exact ih _ n hn

theorem maxId_le_all (db : List Row) (tomb : List Nat) : maxId db ≤ maxIdAll db tomb := Nat.le_max_left _ _

theorem tomb_le_all (db : List Row) {tomb : List Nat} {n : Nat} (h : n ∈ tomb) : n ≤ maxIdAll db tomb :=
  Nat.le_trans (foldl_natmax_mem tomb 0 n h) (Nat.le_max_right _ _)

def mkRow (kv : Nat × Nat) : Row := { id := kv.1, key := kv.2, sent := false }

theorem mem_genKeys {start key count : Nat} {kv : Nat × Nat} :
    kv ∈ genKeys start key count ↔ ∃ i, i < count ∧ (start + i, key + i) = kv := by
  simp [genKeys]

theorem genKeys_nodup (start key count : Nat) : ((genKeys start key count).map Prod.fst).Nodup := by
  simp only [genKeys, List.map_map]
  refine List.pairwise_map.2 ?_
  exact List.Pairwise.imp (by intro a b hab; simp; omega) (List.nodup_range (n := count))

theorem level_db (p : Params) (s : St) (f : Bool) :
    (levelPrekeys p s f).1.db = s.db ++ (levelPrekeys p s f).2.map mkRow := by
  unfold levelPrekeys; split <;> simp [mkRow]

theorem level_fresh (p : Params) (s : St) (f : Bool) :
    ∀ kv ∈ (levelPrekeys p s f).2, maxIdAll s.db s.tomb < kv.1 := by
  unfold levelPrekeys; split
  · intro kv hkv
    obtain ⟨i, _, rfl⟩ := mem_genKeys.1 hkv
    simp; omega
  · simp

theorem level_nodup (p : Params) (s : St) (f : Bool) : ((levelPrekeys p s f).2.map Prod.fst).Nodup := by
  unfold levelPrekeys; split
  · exact genKeys_nodup _ _ _
  · simp

@[simp] theorem level_unsent (p : Params) (s : St) (f : Bool) : (levelPrekeys p s f).1.unsent = s.unsent := by
  unfold levelPrekeys; split <;> rfl
@[simp] theorem level_tomb (p : Params) (s : St) (f : Bool) : (levelPrekeys p s f).1.tomb = s.tomb := by
  unfold levelPrekeys; split <;> rfl
@[simp] theorem level_inflight (p : Params) (s : St) (f : Bool) : (levelPrekeys p s f).1.inflight = s.inflight := by
  unfold levelPrekeys; split <;> rfl
@[simp] theorem level_passiveProp (p : Params) (s : St) (f : Bool) : (levelPrekeys p s f).1.passiveProp = s.passiveProp := by
  unfold levelPrekeys; split <;> rfl
@[simp] theorem level_connectedNow (p : Params) (s : St) (f : Bool) : (levelPrekeys p s f).1.connectedNow = s.connectedNow := by
  unfold levelPrekeys; split <;> rfl
@[simp] theorem level_authedNow (p : Params) (s : St) (f : Bool) : (levelPrekeys p s f).1.authedNow = s.authedNow := by
  unfold levelPrekeys; split <;> rfl
@[simp] theorem level_offered (p : Params) (s : St) (f : Bool) : (levelPrekeys p s f).1.offered = s.offered := by
  unfold levelPrekeys; split <;> rfl
@[simp] theorem level_confirmed (p : Params) (s : St) (f : Bool) : (levelPrekeys p s f).1.confirmed = s.confirmed := by
  unfold levelPrekeys; split <;> rfl
@[simp] theorem level_consumed (p : Params) (s : St) (f : Bool) : (levelPrekeys p s f).1.consumed = s.consumed := by
  unfold levelPrekeys; split <;> rfl

theorem row_unique {db : List Row} (h : (db.map Row.id).Nodup) {r r' : Row} (hr : r ∈ db) (hr' : r' ∈ db)
    (e : r.id = r'.id) : r = r' := by
  induction db with
  | nil => simp at hr
  | cons a t ih =>
    simp only [List.map_cons, List.nodup_cons, List.mem_map, not_exists, not_and] at h
    obtain ⟨hna, hnt⟩ := h
    rcases List.mem_cons.1 hr with rfl | hq <;> rcases List.mem_cons.1 hr' with rfl | hq'
    · rfl
    · exact absurd e.symm (hna _ hq')
    · exact absurd e (hna _ hq)
    · exact ih hnt hq hq'

theorem nodup_ext {db : List Row} (h : (db.map Row.id).Nodup) {ks : List (Nat × Nat)}
    {tomb : List Nat} (hf : ∀ kv ∈ ks, maxIdAll db tomb < kv.1) (hk : (ks.map Prod.fst).Nodup) :
    ((db ++ ks.map mkRow).map Row.id).Nodup := by
  rw [List.map_append, List.map_map]
  have : (Row.id ∘ mkRow) = Prod.fst := by funext kv; rfl
  rw [this]
  refine List.nodup_append.2 ⟨h, hk, ?_⟩
  intro a ha b hb
  obtain ⟨r, hr, rfl⟩ := List.mem_map.1 ha
  obtain ⟨kv, hkv, rfl⟩ := List.mem_map.1 hb
  have := le_maxId hr
  have := hf kv hkv
  have := maxId_le_all db tomb
  omega

theorem notTomb_ext {db : List Row} {tomb : List Nat} (h8 : ∀ r ∈ db, r.id ∉ tomb) {ks : List (Nat × Nat)}
    (hf : ∀ kv ∈ ks, maxIdAll db tomb < kv.1) : ∀ r ∈ db ++ ks.map mkRow, r.id ∉ tomb := by
  intro r hr hm
  rcases List.mem_append.1 hr with hr | hr
  · exact h8 r hr hm
  · obtain ⟨kv, hkv, rfl⟩ := List.mem_map.1 hr
    have := hf kv hkv
    have := tomb_le_all db hm
    simp only [mkRow] at this
    omega

theorem mem_unsentOf {db : List Row} {kv : Nat × Nat} :
    kv ∈ unsentOf db ↔ ∃ r ∈ db, r.sent = false ∧ (r.id, r.key) = kv := by
  simp [unsentOf, and_assoc]

theorem dedup_sub : ∀ (l : List (Nat × Nat)) (kv : Nat × Nat), kv ∈ dedupIds l → kv ∈ l := by
  intro l
  induction l with
  | nil => simp [dedupIds]
  | cons a t ih =>
    intro kv hkv
    simp only [dedupIds, List.mem_cons, List.mem_filter] at hkv
    rcases hkv with rfl | ⟨h, _⟩
    · simp
    · exact List.mem_cons_of_mem _ (ih _ h)

theorem dedup_mem (l : List (Nat × Nat)) (hl : ∀ a ∈ l, ∀ b ∈ l, a.1 = b.1 → a = b) :
    ∀ kv ∈ l, kv ∈ dedupIds l := by
  induction l with
  | nil => simp
  | cons a t ih =>
    intro kv hkv
    simp only [dedupIds, List.mem_cons, List.mem_filter]
    by_cases e : kv.1 = a.1
    · left; exact hl kv hkv a (by simp) e
    · rcases List.mem_cons.1 hkv with rfl | hkt
      · exact absurd rfl e
      · right
        refine ⟨ih (fun x hx y hy => hl x (List.mem_cons_of_mem _ hx) y (List.mem_cons_of_mem _ hy)) kv hkt, ?_⟩
        simpa using e

/-- invariant of every history the server and the peers can produce -/
def Inv (s : St) : Prop :=
  (s.db.map Row.id).Nodup ∧
  (∀ kv ∈ s.unsent, ∃ r ∈ s.db, r.id = kv.1 ∧ r.key = kv.2 ∧ r.sent = false) ∧
  (s.authedNow = true → s.unsent = []) ∧
  (∀ kv ∈ s.offered, kv ∈ s.consumed ∨ ∃ r ∈ s.db, r.id = kv.1 ∧ r.key = kv.2) ∧
  (∀ u ∈ s.inflight, ∀ kv ∈ u.keys, kv ∈ s.offered) ∧
  (s.connectedNow = true → s.unsent ≠ [] → s.passiveProp = true) ∧
  (s.authedNow = true → s.connectedNow = true) ∧
  (∀ r ∈ s.db, r.id ∉ s.tomb) ∧
  (∀ kv ∈ s.consumed, kv.1 ∈ s.tomb) ∧
  (∀ a ∈ s.consumed, ∀ b ∈ s.consumed, a.1 = b.1 → a = b)

theorem inv_init : Inv {} := by
  simp [Inv]

theorem inv_connect (p : Params) (s : St) (h : Inv s) : Inv (step p s .connect).1 := by
  obtain ⟨h1, h2, h3, h4, h5, h6, h7, h8, h9, h10⟩ := h
  have hdb := level_db p s false
  have hfresh := level_fresh p s false
  have hnd := level_nodup p s false
  simp only [step, Inv, level_unsent, level_inflight, level_passiveProp, level_connectedNow, level_authedNow,
    level_offered, level_confirmed, level_consumed, level_tomb]
  rw [hdb]
  generalize (levelPrekeys p s false).2 = ks at hfresh hnd
  refine ⟨nodup_ext h1 hfresh hnd, ?_, by simp, ?_, by simp, ?_, by simp, notTomb_ext h8 hfresh, h9, h10⟩
  · intro kv hkv
    rcases List.mem_append.1 hkv with hk | hk
    · obtain ⟨r, hr, x⟩ := h2 kv hk
      exact ⟨r, List.mem_append_left _ hr, x⟩
    · obtain ⟨r, hr, hs, rfl⟩ := mem_unsentOf.1 hk
      exact ⟨r, hr, rfl, rfl, hs⟩
  · intro kv hkv
    rcases h4 kv hkv with hc | ⟨r, hr, x⟩
    · exact Or.inl hc
    · exact Or.inr ⟨r, List.mem_append_left _ hr, x⟩
  · intro _ hne
    split
    · rename_i he
      exact absurd (List.isEmpty_iff.1 he) hne
    · rfl

theorem inv_authed (p : Params) (s : St) (h : Inv s) (passive : Bool)
    (ha : Allowed s (.authed passive) = true) : Inv (step p s (.authed passive)).1 := by
  obtain ⟨h1, h2, h3, h4, h5, h6, h7, h8, h9, h10⟩ := h
  simp only [Allowed, Bool.and_eq_true, Bool.not_eq_true', beq_iff_eq] at ha
  obtain ⟨⟨hc, hna⟩, hp⟩ := ha
  simp only [step]
  split
  · simp only [Inv, flushKeys]
    refine ⟨h1, by simp, by simp, ?_, ?_, by simp, fun _ => hc, h8, h9, h10⟩
    · intro kv hkv
      rcases List.mem_append.1 hkv with hk | hk
      · exact h4 kv hk
      · right
        obtain ⟨r, hr, a, b, _⟩ := h2 kv (dedup_sub _ _ hk)
        exact ⟨r, hr, a, b⟩
    · intro u hu kv hkv
      rcases List.mem_append.1 hu with hu | hu
      · exact List.mem_append_left _ (h5 u hu kv hkv)
      · simp only [List.mem_singleton] at hu
        subst hu
        exact List.mem_append_right _ hkv
  · rename_i hb
    have hu : s.unsent = [] := by
      by_cases hne : s.unsent = []
      · exact hne
      · have := h6 hc hne
        rw [← hp] at this
        have hne' : s.unsent.isEmpty = false := by
          cases hx : s.unsent with
          | nil => exact absurd hx hne
          | cons _ _ => rfl
        simp [this, hne'] at hb
    exact ⟨h1, h2, fun _ => hu, h4, h5, h6, fun _ => hc, h8, h9, h10⟩

theorem inv_serverAsksKeys (p : Params) (s : St) (h : Inv s)
    (ha : Allowed s .serverAsksKeys = true) : Inv (step p s .serverAsksKeys).1 := by
  obtain ⟨h1, h2, h3, h4, h5, h6, h7, h8, h9, h10⟩ := h
  have hau : s.authedNow = true := ha
  have hu := h3 hau
  have hdb := level_db p s true
  have hfresh := level_fresh p s true
  have hnd := level_nodup p s true
  simp only [step, Inv, flushKeys, level_unsent, level_inflight, level_passiveProp, level_connectedNow,
    level_authedNow, level_offered, level_confirmed, level_consumed, level_tomb]
  rw [hdb]
  generalize (levelPrekeys p s true).1.nextRid = rid
  generalize (levelPrekeys p s true).2 = ks at hfresh hnd
  refine ⟨nodup_ext h1 hfresh hnd, by simp [hu], fun _ => hu, ?_, ?_, fun _ hne => absurd hu hne, h7,
    notTomb_ext h8 hfresh, h9, h10⟩
  · intro kv hkv
    rcases List.mem_append.1 hkv with hk | hk
    · rcases h4 kv hk with hc | ⟨r, hr, x⟩
      · exact Or.inl hc
      · exact Or.inr ⟨r, List.mem_append_left _ hr, x⟩
    · exact Or.inr ⟨mkRow kv, List.mem_append_right _ (List.mem_map_of_mem hk), rfl, rfl⟩
  · intro u hu kv hkv
    rcases List.mem_append.1 hu with hu | hu
    · exact List.mem_append_left _ (h5 u hu kv hkv)
    · simp only [List.mem_singleton] at hu
      subst hu
      exact List.mem_append_right _ hkv

theorem map_mark_ids (ids : List Nat) (db : List Row) :
    (db.map (fun r => if ids.contains r.id then { r with sent := true } else r)).map Row.id = db.map Row.id := by
  rw [List.map_map]
  apply List.map_congr_left
  intro r _
  simp only [Function.comp]
  split <;> rfl

theorem mem_map_mark (ids : List Nat) {db : List Row} {r : Row} (hr : r ∈ db) :
    ∃ r' ∈ db.map (fun r => if ids.contains r.id then { r with sent := true } else r),
      r'.id = r.id ∧ r'.key = r.key := by
  refine ⟨_, List.mem_map_of_mem hr, ?_⟩
  split <;> exact ⟨rfl, rfl⟩

theorem inv_uploaded (s : St) (h : Inv s) (hu : s.unsent = []) (rid : Nat) (ids : List Nat)
    (keys : List (Nat × Nat)) (rb : Bool) :
    Inv { s with inflight := s.inflight.filter (fun x => x.rid != rid),
                 db := s.db.map (fun r => if ids.contains r.id then { r with sent := true } else r),
                 confirmed := s.confirmed ++ keys, rebootFlag := rb } := by
  obtain ⟨h1, h2, h3, h4, h5, h6, h7, h8, h9, h10⟩ := h
  simp only [Inv]
  refine ⟨by rw [map_mark_ids]; exact h1, by simp [hu], h3, ?_, ?_, h6, h7, ?_, h9, h10⟩
  · intro kv hkv
    rcases h4 kv hkv with hc | ⟨r, hr, a, b⟩
    · exact Or.inl hc
    · obtain ⟨r', hr', a', b'⟩ := mem_map_mark ids hr
      exact Or.inr ⟨r', hr', a'.trans a, b'.trans b⟩
  · intro u hu kv hkv
    exact h5 u (List.mem_filter.1 hu).1 kv hkv
  · intro r' hr'
    obtain ⟨r, hr, rfl⟩ := List.mem_map.1 hr'
    have := h8 r hr
    split <;> exact this

theorem inv_uploadResult (p : Params) (s : St) (h : Inv s) (rid : Nat)
    (ha : Allowed s (.uploadResult rid) = true) : Inv (step p s (.uploadResult rid)).1 := by
  simp only [Allowed, Bool.and_eq_true] at ha
  have hu := h.2.2.1 ha.1
  simp only [step]
  split
  · exact h
  · rename_i u hfind
    split
    · exact inv_uploaded s h hu rid _ u.keys true
    · exact inv_uploaded s h hu rid _ u.keys s.rebootFlag

theorem inv_uploadError (p : Params) (s : St) (h : Inv s) (rid : Nat) :
    Inv (step p s (.uploadError rid)).1 := by
  simp only [step]
  split
  · exact h
  · obtain ⟨h1, h2, h3, h4, h5, h6, h7, h8, h9, h10⟩ := h
    exact ⟨h1, h2, h3, h4, fun u hu kv hkv => h5 u (List.mem_filter.1 hu).1 kv hkv, h6, h7, h8, h9, h10⟩

theorem inv_disconnected (p : Params) (s : St) (h : Inv s) : Inv (step p s .disconnected).1 := by
  obtain ⟨h1, h2, h3, h4, h5, h6, h7, h8, h9, h10⟩ := h
  simp only [step]
  split <;> exact ⟨h1, h2, by simp, h4, by simp, by simp, by simp, h8, h9, h10⟩

theorem inv_restart (p : Params) (s : St) (h : Inv s) : Inv (step p s .restart).1 := by
  obtain ⟨h1, h2, h3, h4, h5, h6, h7, h8, h9, h10⟩ := h
  simp only [step]
  exact ⟨h1, by simp, by simp, h4, by simp, by simp, by simp, h8, h9, h10⟩

theorem inv_consume (p : Params) (s : St) (h : Inv s) (id : Nat)
    (ha : Allowed s (.consume id) = true) : Inv (step p s (.consume id)).1 := by
  have hau : s.authedNow = true := ha
  have hu := h.2.2.1 hau
  simp only [step]
  split
  · exact h
  · rename_i r hfind
    obtain ⟨h1, h2, h3, h4, h5, h6, h7, h8, h9, h10⟩ := h
    have hr : r ∈ s.db := List.mem_of_find?_eq_some hfind
    have hid : r.id = id := by simpa using List.find?_some hfind
    simp only [Inv]
    refine ⟨(List.filter_sublist.map _).nodup h1, by simp [hu], h3, ?_, h5, h6, h7, ?_, ?_, ?_⟩
    · intro kv hkv
      rcases h4 kv hkv with hc | ⟨r', hr', a, b⟩
      · exact Or.inl (List.mem_append_left _ hc)
      · by_cases e : r'.id = id
        · have : r' = r := row_unique h1 hr' hr (e.trans hid.symm)
          subst this
          left
          apply List.mem_append_right
          exact List.mem_singleton.2 (Prod.ext a.symm b.symm)
        · right
          exact ⟨r', List.mem_filter.2 ⟨hr', by simpa using e⟩, a, b⟩
    · intro r' hr' hm
      obtain ⟨hm1, hm2⟩ := List.mem_filter.1 hr'
      rcases List.mem_append.1 hm with hx | hx
      · exact h8 r' hm1 hx
      · have : r'.id = id := List.mem_singleton.1 hx
        simp [this] at hm2
    · intro kv hkv
      rcases List.mem_append.1 hkv with hx | hx
      · exact List.mem_append_left _ (h9 kv hx)
      · have hx' := List.mem_singleton.1 hx
        subst hx'
        exact List.mem_append_right _ (List.mem_singleton.2 hid)
    · intro a ha' b hb e
      rcases List.mem_append.1 ha' with hx | hx <;> rcases List.mem_append.1 hb with hy | hy
      · exact h10 a hx b hy e
      · have hy' := List.mem_singleton.1 hy
        subst hy'
        have := h9 a hx
        rw [e] at this
        exact absurd this (h8 r hr)
      · have hx' := List.mem_singleton.1 hx
        subst hx'
        have := h9 b hy
        rw [← e] at this
        exact absurd this (h8 r hr)
      · rw [List.mem_singleton.1 hx, List.mem_singleton.1 hy]

theorem inv_step (p : Params) (s : St) (h : Inv s) (e : Ev) (ha : Allowed s e = true) : Inv (step p s e).1 := by
  cases e with
  | connect => exact inv_connect p s h
  | authed passive => exact inv_authed p s h passive ha
  | serverAsksKeys => exact inv_serverAsksKeys p s h ha
  | uploadResult rid => exact inv_uploadResult p s h rid ha
  | uploadError rid => exact inv_uploadError p s h rid
  | disconnected => exact inv_disconnected p s h
  | restart => exact inv_restart p s h
  | consume id => exact inv_consume p s h id ha

theorem inv_run (p : Params) (s : St) (h : Inv s) (es : List Ev) (ha : AllowedRun p s es = true) :
    Inv (run p s es).1 := by
  induction es generalizing s with
  | nil => exact h
  | cons e es ih =>
    simp only [AllowedRun, Bool.and_eq_true] at ha
    simp only [run]
    exact ih _ (inv_step p s h e ha.1) ha.2

/-- A login (connect, then authenticated with the passive flag the stack then holds) offers exactly the keys
    whose upload was never confirmed: every pending row of the store is in the upload, and every uploaded key is
    a pending row. -/
theorem login_offers_pending (p : Params) (s : St) (h : Inv s) :
    let s1 := (step p s .connect).1
    let r := step p s1 (.authed s1.passiveProp)
    (∀ row ∈ s1.db, row.sent = false → ∃ rid keys, Out.upload rid keys ∈ r.2 ∧ (row.id, row.key) ∈ keys) ∧
    (∀ rid keys, Out.upload rid keys ∈ r.2 → ∀ kv ∈ keys, ∃ row ∈ s1.db, row.id = kv.1 ∧ row.key = kv.2 ∧ row.sent = false) := by
  intro s1 r
  have hI : Inv s1 := inv_step p s h .connect rfl
  have hun : ∀ row ∈ s1.db, row.sent = false → (row.id, row.key) ∈ s1.unsent := by
    intro row hrow hs
    show (row.id, row.key) ∈ (levelPrekeys p s false).1.unsent ++ unsentOf (levelPrekeys p s false).1.db
    exact List.mem_append_right _ (mem_unsentOf.2 ⟨row, hrow, hs, rfl⟩)
  have hpp : s1.unsent ≠ [] → s1.passiveProp = true := hI.2.2.2.2.2.1 rfl
  have hr : r = step p s1 (.authed s1.passiveProp) := rfl
  clear_value r s1
  simp only [step] at hr
  by_cases hne : s1.unsent = []
  · have h2 : r.2 = [] := by rw [hr]; simp [hne]
    constructor
    · intro row hrow hs
      have := hun row hrow hs
      rw [hne] at this
      cases this
    · intro rid keys hmem
      rw [h2] at hmem
      cases hmem
  · have hp := hpp hne
    have hne' : s1.unsent.isEmpty = false := by
      cases hx : s1.unsent with
      | nil => exact absurd hx hne
      | cons _ _ => rfl
    have h2 : r.2 = [.upload s1.nextRid (dedupIds s1.unsent)] := by rw [hr]; simp [hp, hne']
    constructor
    · intro row hrow hs
      refine ⟨_, _, by rw [h2]; exact List.mem_singleton.2 rfl, ?_⟩
      refine dedup_mem _ ?_ _ (hun row hrow hs)
      intro a ha b hb e
      obtain ⟨ra, hra, a1, a2, _⟩ := hI.2.1 a ha
      obtain ⟨rb, hrb, b1, b2, _⟩ := hI.2.1 b hb
      have := row_unique hI.1 hra hrb (a1.trans (e.trans b1.symm))
      subst this
      exact Prod.ext e (a2.symm.trans b2)
    · intro rid keys hmem kv hkv
      rw [h2] at hmem
      simp only [List.mem_singleton, Out.upload.injEq] at hmem
      obtain ⟨rfl, rfl⟩ := hmem
      exact hI.2.1 kv (dedup_sub _ _ hkv)

/-- A first message consumes its key: afterwards the id names no key (a second use is refused). -/
theorem consume_once (p : Params) (s : St) (h : Inv s) (id : Nat) :
    (∀ key, Out.decryptOk id key ∈ (step p s (.consume id)).2 →
      (step p (step p s (.consume id)).1 (.consume id)).2 = [.invalidKeyId id]) ∧
    ((∀ r ∈ s.db, r.id ≠ id) → (step p s (.consume id)).2 = [.invalidKeyId id]) := by
  have _ := h
  constructor
  · intro key hk
    cases hf : s.db.find? (fun r => r.id == id) with
    | none => simp [step, hf] at hk
    | some r =>
      have : (s.db.filter (fun x => x.id != id)).find? (fun r => r.id == id) = none := by
        simp [List.find?_eq_none]
      simp [step, hf, this]
  · intro hno
    have : s.db.find? (fun r => r.id == id) = none := by
      simpa [List.find?_eq_none] using hno
    simp [step, this]

theorem offered_le (s : St) (h : Inv s) : ∀ kv ∈ s.offered, kv.1 ≤ maxIdAll s.db s.tomb := by
  obtain ⟨h1, h2, h3, h4, h5, h6, h7, h8, h9, h10⟩ := h
  intro kv hkv
  rcases h4 kv hkv with hc | ⟨r, hr, a, _⟩
  · exact tomb_le_all _ (h9 kv hc)
  · rw [← a]; exact Nat.le_trans (le_maxId hr) (maxId_le_all _ _)

/-- an id that was ever offered names one key: the live row with that id, or the consumed key with that id -/
theorem offered_unique_inv (s : St) (h : Inv s) : ∀ a ∈ s.offered, ∀ b ∈ s.offered, a.1 = b.1 → a = b := by
  obtain ⟨h1, h2, h3, h4, h5, h6, h7, h8, h9, h10⟩ := h
  intro a ha b hb e
  rcases h4 a ha with hca | ⟨ra, hra, a1, a2⟩ <;> rcases h4 b hb with hcb | ⟨rb, hrb, b1, b2⟩
  · exact h10 a hca b hcb e
  · have := h9 a hca
    rw [e, ← b1] at this
    exact absurd this (h8 rb hrb)
  · have := h9 b hcb
    rw [← e, ← a1] at this
    exact absurd this (h8 ra hra)
  · have := row_unique h1 hra hrb (a1.trans (e.trans b1.symm))
    subst this
    exact Prod.ext e (a2.symm.trans b2)

theorem offered_available (p : Params) (es : List Ev) (ha : AllowedRun p {} es = true) :
    let s := (run p {} es).1
    ∀ kv ∈ s.offered, kv ∈ s.consumed ∨ ∃ r ∈ s.db, r.id = kv.1 ∧ r.key = kv.2 :=
  (inv_run p {} inv_init es ha).2.2.2.1

theorem offered_ids_unique (p : Params) (es : List Ev) (ha : AllowedRun p {} es = true) :
    let s := (run p {} es).1
    ∀ a ∈ s.offered, ∀ b ∈ s.offered, a.1 = b.1 → a = b :=
  offered_unique_inv _ (inv_run p {} inv_init es ha)

/-- The uploaded flag is exact: a row is marked sent iff the server confirmed an upload containing exactly that
    key; and only offered keys are ever confirmed. -/
def SentExact (s : St) : Prop :=
  (∀ r ∈ s.db, r.sent = true ↔ (r.id, r.key) ∈ s.confirmed) ∧
  (∀ kv ∈ s.confirmed, kv ∈ s.offered)

theorem sx_init : SentExact {} := by simp [SentExact]

theorem sx_ext {db : List Row} {tomb : List Nat} {confirmed offered : List (Nat × Nat)}
    (hA : ∀ r ∈ db, r.sent = true ↔ (r.id, r.key) ∈ confirmed)
    (hB : ∀ kv ∈ offered, kv.1 ≤ maxIdAll db tomb)
    (hC : ∀ kv ∈ confirmed, kv ∈ offered) {ks : List (Nat × Nat)} (hf : ∀ kv ∈ ks, maxIdAll db tomb < kv.1) :
    ∀ r ∈ db ++ ks.map mkRow, r.sent = true ↔ (r.id, r.key) ∈ confirmed := by
  intro r hr
  rcases List.mem_append.1 hr with hr | hr
  · exact hA r hr
  · obtain ⟨kv, hkv, rfl⟩ := List.mem_map.1 hr
    constructor
    · intro hx; cases hx
    · intro hc
      have h1 := hB _ (hC _ hc)
      have h2 := hf kv hkv
      simp only [mkRow] at h1
      omega

theorem sx_connect (p : Params) (s : St) (h : Inv s) (hs : SentExact s) : SentExact (step p s .connect).1 := by
  obtain ⟨hA, hC⟩ := hs
  have hB := offered_le s h
  have hdb := level_db p s false
  have hfresh := level_fresh p s false
  simp only [step, SentExact, level_offered, level_confirmed]
  rw [hdb]
  generalize (levelPrekeys p s false).2 = ks at hfresh
  exact ⟨sx_ext hA hB hC hfresh, hC⟩

theorem sx_serverAsksKeys (p : Params) (s : St) (h : Inv s) (hs : SentExact s) :
    SentExact (step p s .serverAsksKeys).1 := by
  obtain ⟨hA, hC⟩ := hs
  have hB := offered_le s h
  have hdb := level_db p s true
  have hfresh := level_fresh p s true
  simp only [step, SentExact, flushKeys, level_offered, level_confirmed]
  rw [hdb]
  generalize (levelPrekeys p s true).2 = ks at hfresh
  exact ⟨sx_ext hA hB hC hfresh, fun kv hkv => List.mem_append_left _ (hC kv hkv)⟩

theorem sx_authed (p : Params) (s : St) (hs : SentExact s) (passive : Bool) :
    SentExact (step p s (.authed passive)).1 := by
  obtain ⟨hA, hC⟩ := hs
  simp only [step]
  split
  · simp only [SentExact, flushKeys]
    exact ⟨hA, fun kv hkv => List.mem_append_left _ (hC kv hkv)⟩
  · exact ⟨hA, hC⟩

theorem sx_uploaded (s : St) (h : Inv s) (hs : SentExact s) (rid : Nat) (u : Upload) (hu : u ∈ s.inflight)
    (rb : Bool) :
    SentExact { s with
                 inflight := s.inflight.filter (fun x => x.rid != rid),
                 db := s.db.map (fun r => if (u.keys.map Prod.fst).contains r.id then { r with sent := true } else r),
                 confirmed := s.confirmed ++ u.keys, rebootFlag := rb } := by
  obtain ⟨hA, hC⟩ := hs
  have h5 := h.2.2.2.2.1 u hu
  have h4 := h.2.2.2.1
  have h8 := h.2.2.2.2.2.2.2.1
  have h9 := h.2.2.2.2.2.2.2.2.1
  simp only [SentExact]
  refine ⟨?_, ?_⟩
  · intro r' hr'
    obtain ⟨r, hr, rfl⟩ := List.mem_map.1 hr'
    by_cases hc : (u.keys.map Prod.fst).contains r.id = true
    · simp only [hc, if_true, true_iff]
      obtain ⟨kv, hkv, e⟩ := List.mem_map.1 (List.contains_iff_mem.1 hc)
      rcases h4 kv (h5 kv hkv) with hcons | ⟨r2, hr2, a, b⟩
      · have := h9 kv hcons
        rw [e] at this
        exact absurd this (h8 r hr)
      · have := row_unique h.1 hr2 hr (a.trans e)
        subst this
        apply List.mem_append_right
        have : kv = (r2.id, r2.key) := Prod.ext a.symm b.symm
        rw [← this]; exact hkv
    · simp only [hc]
      refine (hA r hr).trans ?_
      constructor
      · exact fun x => List.mem_append_left _ x
      · intro x
        rcases List.mem_append.1 x with x | x
        · exact x
        · exact absurd (List.contains_iff_mem.2 (List.mem_map_of_mem (f := Prod.fst) x)) hc
  · intro kv hkv
    rcases List.mem_append.1 hkv with hk | hk
    · exact hC kv hk
    · exact h5 kv hk

theorem sent_exact_step (p : Params) (s : St) (h : Inv s) (hs : SentExact s) (e : Ev) :
    SentExact (step p s e).1 := by
  cases e with
  | connect => exact sx_connect p s h hs
  | authed passive => exact sx_authed p s hs passive
  | serverAsksKeys => exact sx_serverAsksKeys p s h hs
  | uploadResult rid =>
    simp only [step]
    split
    · exact hs
    · rename_i u hfind
      have hu : u ∈ s.inflight := List.mem_of_find?_eq_some hfind
      split
      · exact sx_uploaded s h hs rid u hu true
      · exact sx_uploaded s h hs rid u hu s.rebootFlag
  | uploadError rid =>
    simp only [step]
    split <;> exact hs
  | disconnected =>
    simp only [step]
    split <;> exact hs
  | restart => exact hs
  | consume id =>
    simp only [step]
    split
    · exact hs
    · exact ⟨fun r hr => hs.1 r (List.mem_filter.1 hr).1, hs.2⟩

theorem sent_exact_run_from (p : Params) (s : St) (h : Inv s) (hs : SentExact s) (es : List Ev)
    (ha : AllowedRun p s es = true) : SentExact (run p s es).1 := by
  induction es generalizing s with
  | nil => exact hs
  | cons e es ih =>
    simp only [AllowedRun, Bool.and_eq_true] at ha
    simp only [run]
    exact ih _ (inv_step p s h e ha.1) (sent_exact_step p s h hs e) ha.2

/-- for EVERY allowed history (consumption included): sent ↔ confirmed, and only offered keys are confirmed -/
theorem sent_exact_run (p : Params) (es : List Ev) (ha : AllowedRun p {} es = true) :
    let s := (run p {} es).1
    (∀ r ∈ s.db, r.sent = true ↔ (r.id, r.key) ∈ s.confirmed) ∧ (∀ kv ∈ s.confirmed, kv ∈ s.offered) :=
  sent_exact_run_from p {} inv_init sx_init es ha

/-- `adjustId`: three bytes, big-endian, for every id below 2^24; injective there -/
theorem adjustId_spec (n : Nat) (h : n < 16777216) :
    adjustId n = [n / 65536 % 256, n / 256 % 256, n % 256] ∧
    (n / 65536 % 256) * 65536 + (n / 256 % 256) * 256 + n % 256 = n := by
  constructor
  · simp [adjustId, h]
  · omega

theorem adjustId_injective (a b : Nat) (ha : a < 16777216) (hb : b < 16777216) (h : adjustId a = adjustId b) : a = b := by
  rw [(adjustId_spec a ha).1, (adjustId_spec b hb).1] at h
  simp only [List.cons.injEq, and_true] at h
  obtain ⟨h1, h2, h3⟩ := h
  omega

end Yow.PreKeys
