/-
  Exactly-once with server faults, part 13: common ground for the sending client's steps.
-/
import YowsupVerif.Lemmas.E2ETokFNeutral
namespace Yow.E2E

section
variable {accts : List Acct} {groups : List (Nat × List Acct)}

/-- a client step that opens nothing creates no dead stanza -/
theorem deadOK_of_cl {s s' : Sys} {x : Acct} {cons rest : List Stanza} {c' : Client}
    (hd : DeadOK s) (hq : queueOf s.outbound x = cons ++ rest)
    (hcl : ∀ z, getClient s' z = if z = x then c' else getClient s z)
    (hout : ∀ z, queueOf s'.outbound z = if z = x then rest else queueOf s.outbound z)
    (hseen : c'.seen = (getClient s x).seen) (hseenSK : c'.seenSK = (getClient s x).seenSK)
    (hsh : ∀ id, shownC (getClient s x) id ≤ shownC c' id) (hfl : ∀ p, p ∈ s.faulted → p ∈ s'.faulted)
    (hpk : c'.peerSK = (getClient s x).peerSK) : DeadOK s' := by
  refine hd.mono ?_ hfl ?_ ?_
  · intro z
    rw [hcl z]
    split
    · next e => subst e; exact ⟨fun e he => hseen ▸ he, fun e he => hseenSK ▸ he, hsh⟩
    · exact CGrow.rfl' _
  · intro y key hk
    rw [hcl y]
    split
    · next e => subst e; rw [hpk]; exact hk
    · exact hk
  · intro y st hst hdd
    rw [hout y] at hst
    rw [hcl y] at hdd
    by_cases hy : y = x
    · subst hy
      simp only [if_true] at hst hdd
      rw [dead_congr hseen hseenSK] at hdd
      exact ⟨by rw [hq]; exact List.mem_append_right _ hst, hdd⟩
    · simp only [hy, if_false] at hst hdd
      exact ⟨hst, hdd⟩

theorem deadOK_of_view {s s' : Sys} {x : Acct} {cons rest : List Stanza} {c' : Client} {out : List Stanza} {k : Nat}
    (hd : DeadOK s) (hq : queueOf s.outbound x = cons ++ rest)
    (hv : view s' = ((view s).popOut x rest).cstep x c' out k)
    (hseen : c'.seen = (getClient s x).seen) (hseenSK : c'.seenSK = (getClient s x).seenSK)
    (hsh : ∀ id, shownC (getClient s x) id ≤ shownC c' id) (hfl : ∀ p, p ∈ s.faulted → p ∈ s'.faulted)
    (hpk : c'.peerSK = (getClient s x).peerSK) : DeadOK s' := by
  refine deadOK_of_cl hd hq ?_ ?_ hseen hseenSK hsh hfl hpk
  · intro z
    have : (view s').cl z = upd (getClient s) x c' z := by rw [hv]; rfl
    exact this
  · intro z
    have : (view s').outb z = upd (fun a => queueOf s.outbound a) x rest z := by rw [hv]; rfl
    exact this

/-- a resend to a group participant is only ever waited for once the own sender key exists -/
theorem retry_has_ownSK {ex : Bool} {L : List (Acct × Node)} {V : View} (hT : TV ex accts groups L V) {a : Acct} {iq : Nat} {m : Node} {w : Acct}
    {cnt g : Nat} (hmem : (iq, Cont.keysForRetry m w cnt) ∈ (V.cl a).iqReg) (hsub : (a, m) ∈ L) (hw : w ∈ intendedG groups a m)
    (hmd : m.dest = .group g) : (lookup (V.cl a).ownSK g).isSome = true := by
  rcases hT.ret3 a m hsub g hmd with h1 | ⟨e, he, hf⟩
  · exact h1
  · exfalso
    have hne : e ≠ (iq, Cont.keysForRetry m w cnt) := by
      intro e'; rw [e'] at hf; exact hf
    have h2 := sumMap_two_le (f := fun e => contTok m.id w e.2) he hmem hne
    have h3 : contTok m.id w e.2 = 1 := by
      cases hk : e.2 <;> rw [hk] at hf <;> simp only [firstGroupCont] at hf <;> simp [contTok, hf]
    have h4 : contTok m.id w (Cont.keysForRetry m w cnt) = 1 := by simp [contTok]
    have h5 := hT.cons a m hsub w hw
    rw [tokens_split] at h5
    simp only at h2
    rw [h3, h4] at h2
    simp only [contS] at h5
    omega

theorem enqueueSent_fields (c : Client) (n : Node) :
    (enqueueSent c n).sessions = c.sessions ∧ (enqueueSent c n).peerSK = c.peerSK ∧ (enqueueSent c n).ownSK = c.ownSK ∧
    (enqueueSent c n).pendingIn = c.pendingIn ∧ (enqueueSent c n).iqReg = c.iqReg ∧ (enqueueSent c n).seen = c.seen ∧
    (enqueueSent c n).seenSK = c.seenSK ∧ (enqueueSent c n).shown = c.shown ∧ (enqueueSent c n).nextIq = c.nextIq :=
  ⟨rfl, rfl, rfl, rfl, rfl, rfl, rfl, rfl, rfl⟩

theorem known_of_sessions {c c' : Client} (h : c'.sessions = c.sessions) {j : Acct} {σ : Nat} (hk : known c j σ) : known c' j σ := by
  unfold known at *; rw [h]; exact hk

theorem known_cur {c : Client} {j : Acct} {se : Sess} (h : lookup c.sessions j = some se) : known c j se.cur :=
  ⟨se, h, Or.inl rfl⟩

end

end Yow.E2E
