/-
  Base lemmas for Lemmas/Handshake.lean: the equations of `step` per action and per program counter.
-/
import YowsupVerif.Lemmas.HandshakeBase1
namespace Yow.HS

theorem flushOne_empty (s : St) (hQ : qGetL s.queues s.curQ = []) : flushOne s = (s, .empty) := by
  simp [flushOne, qGet_eq, hQ]

theorem flushOne_refused (s : St) (sg : Seg) (rest : List Seg) (hQ : qGetL s.queues s.curQ = sg :: rest)
    (hp : pstate s ≠ .transport) : flushOne s = (s, .refused) := by
  simp [flushOne, qGet_eq, hQ, hp]

theorem flushOne_delivered (s : St) (sg : Seg) (rest : List Seg) (hQ : qGetL s.queues s.curQ = sg :: rest)
    (hp : pstate s = .transport) (hc : (sg.kind == .frame && sg.good && keyOf s == some sg.conn) = true) :
    flushOne s = ({ s with queues := qSetL s.queues s.curQ rest, up := s.up ++ [.frame sg] }, .delivered) := by
  simp only [flushOne, qGet_eq, hQ, hp, hc]
  simp [qSet_eq]

theorem flushOne_undec (s : St) (sg : Seg) (rest : List Seg) (hQ : qGetL s.queues s.curQ = sg :: rest)
    (hp : pstate s = .transport) (hc : (sg.kind == .frame && sg.good && keyOf s == some sg.conn) = false) :
    flushOne s = ({ s with queues := qSetL s.queues s.curQ rest,
                           protos := s.protos.set s.curP { pGet s s.curP with state := .error } }, .undecryptable) := by
  simp only [flushOne, qGet_eq, hQ, hp, hc]
  simp [qSet_eq, pSet_eq]
  rfl

theorem step_connect (cfg : Cfg) (s : St) (h : s.npc = .idle) (hp : pstate s ≠ .handshake) :
    step cfg s .connect =
      { s with conn := s.conn + 1, live := true, helloSeen := false,
               protos := s.protos.set s.curP { state := .handshake, keyOf := none },
               workers := s.workers ++ [{ conn := s.conn + 1, q := s.curQ, p := s.curP, pc := .reading }] } := by
  simp [step, h, pSet_eq]
  exact hp

theorem step_arrive (cfg : Cfg) (s : St) (sg : Seg) (h : s.npc = .idle) :
    step cfg s (.arrive sg) =
      { s with queues := qSetL s.queues s.curQ (qGetL s.queues s.curQ ++ [sg]), npc := .check, arrived := s.arrived ++ [sg],
               lastSerial := sg.serial, helloSeen := s.helloSeen || sg.kind == .hello } := by
  simp [step, h, qSet_eq, qGet_eq]

theorem step_net_idle (cfg : Cfg) (s : St) (h : s.npc = .idle) : step cfg s .net = s := by
  simp [step, h]

theorem step_net_check_hs (cfg : Cfg) (s : St) (h : s.npc = .check) (hp : pstate s = .handshake) :
    step cfg s .net = { s with npc := .idle } := by
  simp [step, h, hp]

theorem step_net_check_other (cfg : Cfg) (s : St) (h : s.npc = .check) (hp : pstate s ≠ .handshake) :
    step cfg s .net = { s with npc := .wantFlush } := by
  simp [step, h, hp]

theorem step_net_want_held (cfg : Cfg) (s : St) (h : s.npc = .wantFlush) (hf : s.flushHeld = true) :
    step cfg s .net = s := by
  simp [step, h, hf]

theorem step_net_want_free (cfg : Cfg) (s : St) (h : s.npc = .wantFlush) (hf : s.flushHeld = false) :
    step cfg s .net = { s with flushHeld := true, npc := .inFlush } := by
  simp [step, h, hf]

theorem step_net_flush_delivered (cfg : Cfg) (s s1 : St) (h : s.npc = .inFlush) (hf : flushOne s = (s1, .delivered)) :
    step cfg s .net = s1 := by
  simp [step, h, hf]

theorem step_net_flush_empty (cfg : Cfg) (s s1 : St) (h : s.npc = .inFlush) (hf : flushOne s = (s1, .empty)) :
    step cfg s .net = { s with flushHeld := false, npc := .idle } := by
  simp [step, h, hf]

theorem step_net_flush_refused (cfg : Cfg) (s s1 : St) (h : s.npc = .inFlush) (hf : flushOne s = (s1, .refused)) :
    step cfg s .net = { s1 with flushHeld := false, npc := .idle, up := s1.up ++ [.raised] } := by
  simp [step, h, hf]

theorem step_net_flush_undec (cfg : Cfg) (s s1 : St) (h : s.npc = .inFlush) (hf : flushOne s = (s1, .undecryptable)) :
    step cfg s .net = { s1 with flushHeld := false, npc := .idle, up := s1.up ++ [.raised] } := by
  simp [step, h, hf]

theorem step_disconnect (s : St) (h : s.npc = .idle ∨ s.npc = .inFlush) :
    step { freshQueue := true, freshProtocol := true, segReset := true } s .disconnect =
      { s with live := false, curP := s.protos.length, protos := s.protos ++ [{}], curQ := s.queues.length,
               queues := s.queues ++ [(s.queues.length, [])] } := by
  rcases h with h | h <;> simp [step, h]

theorem step_worker_none (cfg : Cfg) (s : St) (i : Nat) (h : s.workers[i]? = none) : step cfg s (.worker i) = s := by
  simp [step, h]

theorem step_worker_done (cfg : Cfg) (s : St) (i : Nat) (w : Worker) (h : s.workers[i]? = some w) (hpc : w.pc = .done) :
    step cfg s (.worker i) = s := by
  simp [step, h, hpc]

theorem step_worker_read_block (cfg : Cfg) (s : St) (i : Nat) (w : Worker) (h : s.workers[i]? = some w) (hpc : w.pc = .reading)
    (hq : qGetL s.queues w.q = []) : step cfg s (.worker i) = s := by
  simp [step, h, hpc, qGet_eq, hq]

theorem step_worker_read (cfg : Cfg) (s : St) (i : Nat) (w : Worker) (sg : Seg) (rest : List Seg)
    (h : s.workers[i]? = some w) (hpc : w.pc = .reading) (hq : qGetL s.queues w.q = sg :: rest) :
    step cfg s (.worker i) =
      { s with queues := qSetL s.queues w.q rest,
               workers := s.workers.set i { w with pc := .finishing (sg.kind == .hello && sg.good && sg.conn == w.conn) } } := by
  simp [step, h, hpc, qGet_eq, hq, qSet_eq]

theorem step_worker_fin_refuse (cfg : Cfg) (s : St) (i : Nat) (w : Worker) (ok : Bool)
    (h : s.workers[i]? = some w) (hpc : w.pc = .finishing ok) (hps : (pGet s w.p).state ≠ .handshake) :
    step cfg s (.worker i) = { s with workers := s.workers.set i { w with pc := .done } } := by
  cases ok <;> simp [step, h, hpc, hps]

theorem step_worker_fin_ok (cfg : Cfg) (s : St) (i : Nat) (w : Worker)
    (h : s.workers[i]? = some w) (hpc : w.pc = .finishing true) (hps : (pGet s w.p).state = .handshake) :
    step cfg s (.worker i) =
      { s with protos := s.protos.set w.p { state := .transport, keyOf := some w.conn },
               workers := s.workers.set i { w with pc := if w.p = s.curP then .wantFlush else .done } } := by
  simp [step, h, hpc, hps, pSet_eq]

theorem step_worker_fin_fail_cur (cfg : Cfg) (s : St) (i : Nat) (w : Worker)
    (h : s.workers[i]? = some w) (hpc : w.pc = .finishing false) (hps : (pGet s w.p).state = .handshake)
    (hc : w.p = s.curP) :
    step cfg s (.worker i) =
      { s with protos := s.protos.set w.p { pGet s w.p with state := .error },
               up := s.up ++ [.failure w.conn],
               workers := s.workers.set i { w with pc := .done } } := by
  rw [hc] at hps
  simp [step, h, hpc, hps, pSet_eq, hc]

theorem step_worker_fin_fail_stale (cfg : Cfg) (s : St) (i : Nat) (w : Worker)
    (h : s.workers[i]? = some w) (hpc : w.pc = .finishing false) (hps : (pGet s w.p).state = .handshake)
    (hc : w.p ≠ s.curP) :
    step cfg s (.worker i) =
      { s with protos := s.protos.set w.p { pGet s w.p with state := .error },
               workers := s.workers.set i { w with pc := .done } } := by
  simp [step, h, hpc, hps, pSet_eq, hc]

theorem step_worker_want_held (cfg : Cfg) (s : St) (i : Nat) (w : Worker) (h : s.workers[i]? = some w) (hpc : w.pc = .wantFlush)
    (hf : s.flushHeld = true) : step cfg s (.worker i) = s := by
  simp [step, h, hpc, hf]

theorem step_worker_want_free (cfg : Cfg) (s : St) (i : Nat) (w : Worker) (h : s.workers[i]? = some w) (hpc : w.pc = .wantFlush)
    (hf : s.flushHeld = false) :
    step cfg s (.worker i) = { s with flushHeld := true, workers := s.workers.set i { w with pc := .inFlush } } := by
  simp [step, h, hpc, hf]

theorem step_worker_flush_delivered (cfg : Cfg) (s s1 : St) (i : Nat) (w : Worker) (h : s.workers[i]? = some w)
    (hpc : w.pc = .inFlush) (hf : flushOne s = (s1, .delivered)) : step cfg s (.worker i) = s1 := by
  simp [step, h, hpc, hf]

theorem step_worker_flush_empty (cfg : Cfg) (s s1 : St) (i : Nat) (w : Worker) (h : s.workers[i]? = some w)
    (hpc : w.pc = .inFlush) (hf : flushOne s = (s1, .empty)) :
    step cfg s (.worker i) = { s with flushHeld := false, workers := s.workers.set i { w with pc := .done } } := by
  simp [step, h, hpc, hf]

theorem step_worker_flush_refused (cfg : Cfg) (s s1 : St) (i : Nat) (w : Worker) (h : s.workers[i]? = some w)
    (hpc : w.pc = .inFlush) (hf : flushOne s = (s1, .refused)) :
    step cfg s (.worker i) = { s1 with flushHeld := false, workers := s1.workers.set i { w with pc := .done } } := by
  simp [step, h, hpc, hf]

theorem step_worker_flush_undec (cfg : Cfg) (s s1 : St) (i : Nat) (w : Worker) (h : s.workers[i]? = some w)
    (hpc : w.pc = .inFlush) (hf : flushOne s = (s1, .undecryptable)) :
    step cfg s (.worker i) =
      { s1 with flushHeld := false, up := s1.up ++ [.raised], workers := s1.workers.set i { w with pc := .done } } := by
  simp [step, h, hpc, hf]

end Yow.HS
