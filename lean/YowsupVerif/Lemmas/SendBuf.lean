/-
  The socket-side send buffer (Model/SendBuf.lean): with the lock, for every schedule of the senders and the loop thread,
  what reached the socket plus what is still buffered is exactly what was handed to sendData, in order.
-/
import YowsupVerif.Model.SendBuf
namespace Yow.SendBuf

/-- every byte handed to sendData is on the socket or still in the buffer, once, in order — at every moment; `k` is the part
    of the buffer that the thread inside a flush has already sent and not yet cut (0 otherwise) -/
theorem socket_plus_buffer (frames : List (List Nat)) (flushes : Nat) (sched : List Nat) :
    let s := run (init { locked := true } frames flushes) sched
    ∃ k, k ≤ s.buf.length ∧ s.socket ++ s.buf.drop k = s.appended := by
  sorry

/-- when both threads have finished (every sendData flushes itself): the socket carries exactly the frames, in order, once -/
theorem finished_socket_exact (frames : List (List Nat)) (flushes : Nat) (sched : List Nat)
    (hf : finished (run (init { locked := true } frames flushes) sched) = true) :
    (run (init { locked := true } frames flushes) sched).socket = frames.flatten ∧
    (run (init { locked := true } frames flushes) sched).buf = [] := by
  sorry

/-- no deadlock -/
theorem progress (frames : List (List Nat)) (flushes : Nat) (sched : List Nat)
    (hf : finished (run (init { locked := true } frames flushes) sched) = false) :
    ∃ i, step (run (init { locked := true } frames flushes) sched) i ≠ run (init { locked := true } frames flushes) sched := by
  sorry

/-- without the lock the loop thread and a sender can both send the same bytes (and the second cut then drops bytes that
    were never sent) -/
theorem unlocked_duplicates :
    ∃ sched, let s := run (init { locked := false } [[1, 2, 3], [4, 5]] 1) sched
      finished s = true ∧ s.socket ≠ [1, 2, 3, 4, 5] := by
  sorry

end Yow.SendBuf
