/-
  The socket-side send buffer (Model/SendBuf.lean): with the lock, for every schedule of the senders and the loop thread,
  what reached the socket plus what is still buffered is exactly what was handed to sendData, in order.
-/
import YowsupVerif.Model.SendBuf
namespace Yow.SendBuf

/-! ### the invariant -/

abbrev lockedCfg : Cfg := { locked := true, appendLocked := true }

/-- the remaining operations of a thread that is outside a critical section: whole `sendData` / `handleWrite` programs -/
inductive Prog : List Op → Prop
  | nil : Prog []
  | sd (d : List Nat) (rest : List Op) : Prog rest →
      Prog (.acq :: .load :: .store d :: .read :: .send :: .cut :: .rel :: rest)
  | hw (rest : List Op) : Prog rest → Prog (.acq :: .read :: .send :: .cut :: .rel :: rest)

/-- the data a thread will still hand to `sendData` -/
def pending : List Op → List Nat
  | [] => []
  | .store d :: r => d ++ pending r
  | .load :: r => pending r
  | .acq :: r => pending r
  | .rel :: r => pending r
  | .read :: r => pending r
  | .send :: r => pending r
  | .cut :: r => pending r

/-- the thread that holds the lock: where it is in its section, and what that says about the shared state -/
inductive InSec (buf socket appended : List Nat) (t : Thread) : Prop
  | load (d : List Nat) (rest : List Op) : t.ops = .load :: .store d :: .read :: .send :: .cut :: .rel :: rest → Prog rest →
      socket ++ buf = appended → InSec buf socket appended t
  | store (d : List Nat) (rest : List Op) : t.ops = .store d :: .read :: .send :: .cut :: .rel :: rest → Prog rest →
      socket ++ buf = appended → t.tmp = buf → InSec buf socket appended t
  | read (rest : List Op) : t.ops = .read :: .send :: .cut :: .rel :: rest → Prog rest →
      socket ++ buf = appended → InSec buf socket appended t
  | send (rest : List Op) : t.ops = .send :: .cut :: .rel :: rest → Prog rest →
      socket ++ buf = appended → t.snapshot = buf → InSec buf socket appended t
  | cut (rest : List Op) : t.ops = .cut :: .rel :: rest → Prog rest →
      t.sent ≤ buf.length → socket ++ buf.drop t.sent = appended → InSec buf socket appended t
  | rel (rest : List Op) : t.ops = .rel :: rest → Prog rest →
      socket ++ buf = appended → InSec buf socket appended t

def Inv (total : List Nat) (s : St) : Prop :=
  ∃ t0 t1, s.threads = [t0, t1] ∧ (s.appended ++ pending t0.ops = total ∧ pending t1.ops = []) ∧
    ((s.lock = none ∧ Prog t0.ops ∧ Prog t1.ops ∧ s.socket ++ s.buf = s.appended) ∨
     (s.lock = some 0 ∧ InSec s.buf s.socket s.appended t0 ∧ Prog t1.ops) ∨
     (s.lock = some 1 ∧ Prog t0.ops ∧ InSec s.buf s.socket s.appended t1))

theorem take_drop_min (l : List Nat) (c : Nat) : l.take c ++ l.drop (min c l.length) = l := by
  by_cases h : c ≤ l.length
  · rw [Nat.min_eq_left h]; exact List.take_append_drop c l
  · have h' : l.length ≤ c := Nat.le_of_lt (Nat.lt_of_not_le h)
    rw [Nat.min_eq_right h', List.take_of_length_le h', List.drop_length, List.append_nil]

local macro "sb_step" : tactic => `(tactic| (
  simp [Inv, step, setThread]
  refine ⟨_, _, ⟨rfl, rfl⟩, ?_⟩
  simp_all [pending]))

theorem prog_sendData (frames : List (List Nat)) : Prog (frames.flatMap (sendData lockedCfg)) := by
  induction frames with
  | nil => exact .nil
  | cons d fs ih => simpa [sendData, guarded] using Prog.sd d _ ih

theorem pending_sendData (frames : List (List Nat)) :
    pending (frames.flatMap (sendData lockedCfg)) = frames.flatten := by
  induction frames with
  | nil => rfl
  | cons d fs ih => simp [sendData, guarded, pending, ih]

theorem prog_handleWrite (n : Nat) : Prog (List.replicate n (handleWrite lockedCfg)).flatten := by
  induction n with
  | zero => exact .nil
  | succ n ih => simpa [List.replicate_succ, handleWrite, guarded] using Prog.hw _ ih

theorem pending_handleWrite (n : Nat) : pending (List.replicate n (handleWrite lockedCfg)).flatten = [] := by
  induction n with
  | zero => rfl
  | succ n ih =>
    simp only [handleWrite, guarded] at ih ⊢
    simp at ih
    simp [List.replicate_succ, pending, ih]

theorem inv_init (frames : List (List Nat)) (flushes : Nat) :
    Inv frames.flatten (init lockedCfg frames flushes) := by
  refine ⟨_, _, rfl, ?_, .inl ⟨rfl, prog_sendData _, prog_handleWrite _, rfl⟩⟩
  simp [init, pending_sendData, pending_handleWrite]

set_option linter.unusedSimpArgs false in
set_option linter.unusedVariables false in
theorem inv_step (total : List Nat) (s : St) (i cap : Nat) (h : Inv total s) : Inv total (step s i cap) := by
  obtain ⟨threads, lock, buf, socket, appended⟩ := s
  obtain ⟨t0, t1, hth, hp, h⟩ := h
  simp only at hth hp h
  subst hth
  obtain ⟨o0, sn0, se0, tm0⟩ := t0
  obtain ⟨o1, sn1, se1, tm1⟩ := t1
  simp only at hp h
  match i with
  | 0 =>
    rcases h with ⟨hl, p0, p1, hs⟩ | ⟨hl, i0, p1⟩ | ⟨hl, p0, i1⟩
    · subst hl hs
      cases p0 with
      | nil => exact ⟨_, _, rfl, hp, .inl ⟨rfl, .nil, p1, rfl⟩⟩
      | sd d rest pr => sb_step; exact .load _ _ rfl pr rfl
      | hw rest pr => sb_step; exact .read _ rfl pr rfl
    · subst hl
      cases i0 with
      | load d rest ho pr hs =>
        simp only at ho; subst ho hs; sb_step; exact .store _ _ rfl pr rfl rfl
      | store d rest ho pr hs ht =>
        simp only at ho ht; subst ho hs ht; sb_step; exact .read _ rfl pr (by simp)
      | read rest ho pr hs =>
        simp only at ho; subst ho hs; sb_step; exact .send _ rfl pr rfl rfl
      | send rest ho pr hs hn =>
        simp only at ho hn; subst ho hs hn; sb_step
        exact .cut _ rfl pr (Nat.min_le_right _ _) (by simp [take_drop_min])
      | cut rest ho pr hk hs =>
        simp only at ho hk hs; subst ho hs; sb_step; exact .rel _ rfl pr rfl
      | rel rest ho pr hs =>
        simp only at ho; subst ho hs; sb_step
    · subst hl
      cases p0 with
      | nil => exact ⟨_, _, rfl, hp, .inr (.inr ⟨rfl, .nil, i1⟩)⟩
      | sd d rest pr => sb_step; exact .sd _ _ pr
      | hw rest pr => sb_step; exact .hw _ pr
  | 1 =>
    rcases h with ⟨hl, p0, p1, hs⟩ | ⟨hl, i0, p1⟩ | ⟨hl, p0, i1⟩
    · subst hl hs
      cases p1 with
      | nil => exact ⟨_, _, rfl, hp, .inl ⟨rfl, p0, .nil, rfl⟩⟩
      | sd d rest pr => sb_step; exact .load _ _ rfl pr rfl
      | hw rest pr => sb_step; exact .read _ rfl pr rfl
    · subst hl
      cases p1 with
      | nil => exact ⟨_, _, rfl, hp, .inr (.inl ⟨rfl, i0, .nil⟩)⟩
      | sd d rest pr => sb_step; exact .sd _ _ pr
      | hw rest pr => sb_step; exact .hw _ pr
    · subst hl
      cases i1 with
      | load d rest ho pr hs =>
        simp only at ho; subst ho hs; sb_step; exact .store _ _ rfl pr rfl rfl
      | store d rest ho pr hs ht =>
        simp only at ho ht; subst ho hs ht; sb_step; exact .read _ rfl pr (by simp)
      | read rest ho pr hs =>
        simp only at ho; subst ho hs; sb_step; exact .send _ rfl pr rfl rfl
      | send rest ho pr hs hn =>
        simp only at ho hn; subst ho hs hn; sb_step
        exact .cut _ rfl pr (Nat.min_le_right _ _) (by simp [take_drop_min])
      | cut rest ho pr hk hs =>
        simp only at ho hk hs; subst ho hs; sb_step; exact .rel _ rfl pr rfl
      | rel rest ho pr hs =>
        simp only at ho; subst ho hs; sb_step
  | i + 2 => exact ⟨_, _, rfl, hp, h⟩

theorem inv_run (total : List Nat) (sched : List (Nat × Nat)) : ∀ s, Inv total s → Inv total (run s sched) := by
  induction sched with
  | nil => intro s h; exact h
  | cons ic is ih => intro s h; exact ih _ (inv_step total s ic.1 ic.2 h)

theorem inv_reach (frames : List (List Nat)) (flushes : Nat) (sched : List (Nat × Nat)) :
    Inv frames.flatten (run (init lockedCfg frames flushes) sched) :=
  inv_run _ sched _ (inv_init frames flushes)

theorem InSec.split {buf socket appended : List Nat} {t : Thread} (h : InSec buf socket appended t) :
    ∃ k, k ≤ buf.length ∧ socket ++ buf.drop k = appended := by
  cases h with
  | load d rest ho pr hs => exact ⟨0, by simp, by simpa using hs⟩
  | store d rest ho pr hs ht => exact ⟨0, by simp, by simpa using hs⟩
  | read rest ho pr hs => exact ⟨0, by simp, by simpa using hs⟩
  | send rest ho pr hs hn => exact ⟨0, by simp, by simpa using hs⟩
  | cut rest ho pr hk hs => exact ⟨t.sent, hk, hs⟩
  | rel rest ho pr hs => exact ⟨0, by simp, by simpa using hs⟩

theorem InSec.ops_ne_nil {buf socket appended : List Nat} {t : Thread} (h : InSec buf socket appended t) :
    t.ops ≠ [] := by
  cases h <;> simp [*]

theorem InSec.head {buf socket appended : List Nat} {t : Thread} (h : InSec buf socket appended t) :
    ∃ op rest, t.ops = op :: rest ∧ op ≠ .acq := by
  cases h with
  | load d rest ho => exact ⟨_, _, ho, by simp⟩
  | store d rest ho => exact ⟨_, _, ho, by simp⟩
  | read rest ho => exact ⟨_, _, ho, by simp⟩
  | send rest ho => exact ⟨_, _, ho, by simp⟩
  | cut rest ho => exact ⟨_, _, ho, by simp⟩
  | rel rest ho => exact ⟨_, _, ho, by simp⟩

theorem Prog.head {ops : List Op} (h : Prog ops) (hne : ops ≠ []) : ∃ rest, ops = .acq :: rest := by
  cases h with
  | nil => exact absurd rfl hne
  | sd d rest => exact ⟨_, rfl⟩
  | hw rest => exact ⟨_, rfl⟩

/-! ### the theorems -/

/-- every byte handed to sendData is on the socket or still in the buffer, once, in order — at every moment; `k` is the part
    of the buffer that the thread inside a flush has already sent and not yet cut (0 otherwise) -/
theorem socket_plus_buffer (frames : List (List Nat)) (flushes : Nat) (sched : List (Nat × Nat)) :
    let s := run (init { locked := true, appendLocked := true } frames flushes) sched
    ∃ k, k ≤ s.buf.length ∧ s.socket ++ s.buf.drop k = s.appended := by
  intro s
  obtain ⟨t0, t1, _, _, h⟩ := inv_reach frames flushes sched
  rcases h with ⟨_, _, _, hs⟩ | ⟨_, i0, _⟩ | ⟨_, _, i1⟩
  · exact ⟨0, by simp, by simpa using hs⟩
  · exact i0.split
  · exact i1.split

/-- whenever no critical section is in progress, socket ++ buffer is exactly what was handed to sendData -/
theorem quiescent_exact (frames : List (List Nat)) (flushes : Nat) (sched : List (Nat × Nat)) :
    let s := run (init { locked := true, appendLocked := true } frames flushes) sched
    s.lock = none → s.socket ++ s.buf = s.appended := by
  intro s hl
  obtain ⟨t0, t1, _, _, h⟩ := inv_reach frames flushes sched
  rcases h with ⟨_, _, _, hs⟩ | ⟨hl', _, _⟩ | ⟨hl', _, _⟩
  · exact hs
  · rw [hl'] at hl; cases hl
  · rw [hl'] at hl; cases hl

/-- when both threads have finished: socket ++ buffer is exactly the frames, in order, once (a last partial send may have left
    a tail in the buffer for the next handle_write) -/
theorem finished_exact (frames : List (List Nat)) (flushes : Nat) (sched : List (Nat × Nat)) :
    let s := run (init { locked := true, appendLocked := true } frames flushes) sched
    finished s = true → s.socket ++ s.buf = frames.flatten := by
  intro s hf
  obtain ⟨t0, t1, hth, hp, h⟩ := inv_reach frames flushes sched
  simp [s, finished, hth] at hf
  obtain ⟨h0, h1⟩ := hf
  rcases h with ⟨_, _, _, hs⟩ | ⟨_, i0, _⟩ | ⟨_, _, i1⟩
  · simp [h0, h1, pending] at hp
    exact hs.trans hp
  · exact absurd h0 i0.ops_ne_nil
  · exact absurd h1 i1.ops_ne_nil

theorem step_ne (s : St) (t0 t1 : Thread) (hth : s.threads = [t0, t1]) (i cap : Nat) (t : Thread) (op : Op) (rest : List Op)
    (ht : s.threads[i]? = some t) (ho : t.ops = op :: rest) (hl : op = .acq → s.lock = none) : step s i cap ≠ s := by
  intro h
  have h2 : (step s i cap).threads[i]? = some t := by rw [h, ht]
  obtain ⟨threads, lock, buf, socket, appended⟩ := s
  obtain ⟨o, sn, se, tm⟩ := t
  simp only at hth ho; subst hth ho
  match i with
  | 0 =>
    simp at ht; subst ht
    cases op <;> simp_all [step, setThread]
  | 1 =>
    simp at ht; subst ht
    cases op <;> simp_all [step, setThread]
  | i + 2 => simp at ht

/-- no deadlock -/
theorem progress (frames : List (List Nat)) (flushes : Nat) (sched : List (Nat × Nat)) :
    let s := run (init { locked := true, appendLocked := true } frames flushes) sched
    finished s = false → ∃ i, ∀ cap, step s i cap ≠ s := by
  intro s hf
  obtain ⟨t0, t1, hth, hp, h⟩ := inv_reach frames flushes sched
  rcases h with ⟨hl, p0, p1, _⟩ | ⟨_, i0, _⟩ | ⟨_, _, i1⟩
  · by_cases h0 : t0.ops = []
    · have h1 : t1.ops ≠ [] := by
        intro h1; simp [s, finished, hth, h0, h1] at hf
      obtain ⟨rest, ho⟩ := p1.head h1
      exact ⟨1, fun cap => step_ne _ t0 t1 hth 1 cap t1 _ rest (by simp [hth]) ho (fun _ => hl)⟩
    · obtain ⟨rest, ho⟩ := p0.head h0
      exact ⟨0, fun cap => step_ne _ t0 t1 hth 0 cap t0 _ rest (by simp [hth]) ho (fun _ => hl)⟩
  · obtain ⟨op, rest, ho, hn⟩ := i0.head
    exact ⟨0, fun cap => step_ne _ t0 t1 hth 0 cap t0 op rest (by simp [hth]) ho (fun h => absurd h hn)⟩
  · obtain ⟨op, rest, ho, hn⟩ := i1.head
    exact ⟨1, fun cap => step_ne _ t0 t1 hth 1 cap t1 op rest (by simp [hth]) ho (fun h => absurd h hn)⟩

/-- without the lock the loop thread and a sender can both send the same bytes (and the second cut then drops bytes that
    were never sent) -/
theorem unlocked_duplicates :
    ∃ sched, let s := run (init { locked := false, appendLocked := false } [[1, 2, 3], [4, 5]] 1) sched
      finished s = true ∧ s.socket ++ s.buf ≠ [1, 2, 3, 4, 5] :=
  ⟨[(0, 65536), (0, 65536), (0, 65536), (1, 65536), (0, 65536), (1, 65536), (1, 65536), (0, 65536), (0, 65536), (0, 65536),
    (0, 65536), (0, 65536), (0, 65536)], by decide⟩

/-- with the flush locked but the append outside the lock: a partial send leaves a byte in the buffer, the sender loads the
    buffer for its next append, the loop thread flushes that byte, and the sender's store puts it back — it is sent twice -/
theorem append_outside_lock_repeats :
    ∃ sched, let s := run (init { locked := true, appendLocked := false } [[1, 2], [3]] 1) sched
      finished s = true ∧ s.socket ++ s.buf ≠ [1, 2, 3] :=
  ⟨[(0, 65536), (0, 65536), (0, 65536), (0, 65536), (0, 1), (0, 65536), (0, 65536), (0, 65536), (1, 65536), (1, 65536),
    (1, 65536), (1, 65536), (1, 65536), (0, 65536), (0, 65536), (0, 65536), (0, 65536), (0, 65536), (0, 65536)], by decide⟩

end Yow.SendBuf
