/-
  Token conservation in the E2E system model, part 17: a recipient handles a list of message stanzas (each shown or asked
  for again): the balance between what was handled and what came out.
-/
import YowsupVerif.Lemmas.E2ETokRecv
namespace Yow.E2E

structure Handled (c : Client) (ms : List Stanza) (c' : Client) (out : List Stanza) : Prop where
  same : RecvSame c c'
  bal : ∀ id, sumMap (downTok id) ms + shownC c id = shownC c' id + sumMap (retryUpTok id) out
  rc : ∀ id, sumMap (rcptIn id) out + shownC c id = shownC c' id
  outGood : ∀ st ∈ out, upDir st ∧ ctsOf st = [] ∧ UpShape st ∧
    (∀ id peer part, st = .receipt id peer part .delivery → 1 ≤ shownC c' id) ∧
    (∀ id peer part cnt, st = .receipt id peer part (.retry cnt) → 1 ≤ cnt)
  outPlain : ∀ st ∈ out, ∀ id r groups, upTok id r st = 0 ∧ upN groups r id st = 0
  seen : ∀ n, (n ∈ c'.seen.map Prod.snd ∨ n ∈ c'.seenSK.map Prod.snd) →
    (n ∈ c.seen.map Prod.snd ∨ n ∈ c.seenSK.map Prod.snd) ∨ 1 ≤ sumMap (nOf n) ms

theorem Handled.nil (c : Client) : Handled c [] c [] where
  same := RecvSame.rfl' c
  bal := fun _ => by simp
  rc := fun _ => by simp
  outGood := fun st hst => by cases hst
  outPlain := fun st hst => by cases hst
  seen := fun n hn => Or.inl hn

theorem shownC_append (c : Client) (x : Shown) (id : Nat) :
    shownC { c with shown := c.shown ++ [x] } id = shownC c id + (if x.id = id then 1 else 0) := by
  unfold shownC
  simp only [List.filter_append, List.length_append, List.filter_cons, List.filter_nil]
  by_cases h : x.id = id <;> simp [h]

theorem shownC_of_shown {c c' : Client} {x : Shown} (h : c'.shown = c.shown ++ [x]) (id : Nat) :
    shownC c' id = shownC c id + (if x.id = id then 1 else 0) := by
  have := shownC_append c x id
  unfold shownC at this ⊢
  rw [h]
  exact this

theorem Handled.trans {c c1 c2 : Client} {m1 m2 o1 o2 : List Stanza} (h1 : Handled c m1 c1 o1) (h2 : Handled c1 m2 c2 o2) :
    Handled c (m1 ++ m2) c2 (o1 ++ o2) where
  same := h1.same.trans h2.same
  bal := by
    intro id
    have := h1.bal id; have := h2.bal id
    simp only [sumMap_append]; omega
  rc := by
    intro id
    have := h1.rc id; have := h2.rc id
    simp only [sumMap_append]; omega
  outGood := by
    intro st hst
    rcases List.mem_append.mp hst with h | h
    · obtain ⟨a1, a2, a3, a4, a5⟩ := h1.outGood st h
      refine ⟨a1, a2, a3, ?_, a5⟩
      intro id peer part e
      have := a4 id peer part e
      have := h2.rc id
      omega
    · exact h2.outGood st h
  outPlain := by
    intro st hst
    rcases List.mem_append.mp hst with h | h
    · exact h1.outPlain st h
    · exact h2.outPlain st h
  seen := by
    intro n hn
    rcases h2.seen n hn with h | h
    · rcases h1.seen n h with h' | h'
      · exact Or.inl h'
      · right; simp only [sumMap_append]; omega
    · right; simp only [sumMap_append]; omega

/-- one stanza shown or asked for again -/
theorem Handled.single {c c' : Client} {out : List Stanza} {id : Nat} {peer : Dest} {part : Option Acct} {im : Bool}
    {encs : List (Option Acct × Ct)} {pl : Option Payload}
    (hsame : RecvSame c c') (hab : OutAB c id peer part c' out)
    (hs1 : ∀ e ∈ c'.seen, e ∈ c.seen ∨ ∃ ct, heFirst encs = some ct ∧ e.2 = ct.ctr)
    (hs2 : ∀ e ∈ c'.seenSK, e ∈ c.seenSK ∨ ∃ k, firstKind encs .skmsg = some k ∧ e.2 = k.ctr) :
    Handled c [.msg id peer part im encs pl] c' out := by
  have hn : ∀ ct, (∃ e, e ∈ encs ∧ e.2 = ct) → 1 ≤ sumMap (nOf ct.ctr) [Stanza.msg id peer part im encs pl] := by
    intro ct ⟨e, he, hect⟩
    simp only [sumMap_cons, sumMap_nil', Nat.add_zero, nOf, ctrsOf, ctsOf]
    apply List.count_pos_iff.mpr
    exact List.mem_map.mpr ⟨e, he, by rw [hect]⟩
  have hseen : ∀ n, (n ∈ c'.seen.map Prod.snd ∨ n ∈ c'.seenSK.map Prod.snd) →
      (n ∈ c.seen.map Prod.snd ∨ n ∈ c.seenSK.map Prod.snd) ∨ 1 ≤ sumMap (nOf n) [Stanza.msg id peer part im encs pl] := by
    intro n hn'
    rcases hn' with h | h
    · obtain ⟨e, he, rfl⟩ := List.mem_map.mp h
      rcases hs1 e he with h1 | ⟨ct, hct, hctr⟩
      · exact Or.inl (Or.inl (List.mem_map.mpr ⟨e, h1, rfl⟩))
      · right; rw [hctr]; exact hn ct (heFirst_mem hct)
    · obtain ⟨e, he, rfl⟩ := List.mem_map.mp h
      rcases hs2 e he with h1 | ⟨k, hk, hctr⟩
      · exact Or.inl (Or.inr (List.mem_map.mpr ⟨e, h1, rfl⟩))
      · right; rw [hctr]; exact hn k (firstKind_mem hk)
  rcases hab with ⟨p, hsh, rfl⟩ | ⟨cnt, hcnt, hsh, rfl⟩
  · have hsc := shownC_of_shown hsh
    exact {
      same := hsame
      bal := by
        intro id'
        rw [hsc id']
        simp only [sumMap_cons, sumMap_nil', downTok, retryUpTok]
        omega
      rc := by
        intro id'
        rw [hsc id']
        simp only [sumMap_cons, sumMap_nil', rcptIn, deliveryReceiptFrom, beq_iff_eq]
        omega
      outGood := by
        intro st hst
        rw [List.mem_singleton] at hst; subst hst
        refine ⟨trivial, rfl, trivial, ?_, (fun _ _ _ _ e => by cases e)⟩
        intro id' peer' part' e
        cases e
        rw [hsc id]
        simp
      outPlain := by
        intro st hst id' r groups
        rw [List.mem_singleton] at hst; subst hst
        exact ⟨rfl, rfl⟩
      seen := hseen }
  · have hsc : ∀ id', shownC c' id' = shownC c id' := fun id' => shownC_congr hsh id'
    exact {
      same := hsame
      bal := by
        intro id'
        rw [hsc id']
        simp only [sumMap_cons, sumMap_nil', downTok, retryUpTok]
        omega
      rc := by
        intro id'
        rw [hsc id']
        simp [rcptIn, deliveryReceiptFrom]
      outGood := by
        intro st hst
        rw [List.mem_singleton] at hst; subst hst
        refine ⟨trivial, rfl, trivial, (fun _ _ _ e => by cases e), ?_⟩
        intro id' peer' part' cnt' e
        cases e
        exact hcnt
      outPlain := by
        intro st hst id' r groups
        rw [List.mem_singleton] at hst; subst hst
        exact ⟨rfl, rfl⟩
      seen := hseen }

end Yow.E2E
