/-
  Round-trip theorems for the payload converter model (Model/Payload.lean), for ANY schema table that passes the
  decidable well-formedness test `tableGood` (the table regenerated from the source is checked in Props/C10.lean).
-/
import YowsupVerif.Lemmas.PayloadBase
namespace Yow.Payload

-- ------------------------------------------------------------------------------------------------ round trip
/-- one step of the encoder: whatever accumulator `acc'` the head field leaves (differing from `acc` at most at the
    head's own number), the remaining fields decode to what they were given and the head's number is untouched -/
theorem rt_step {tbl : Table} {f : Field} {fs : Schema} {vs : Vals} {acc : PFields} (hs : SchOK (f :: fs))
    (ih : ∀ acc', (∀ g ∈ fs, plookup acc' g.target = none) →
      ∃ p, encodeFields tbl fs vs acc' = some p ∧ decodeSchema tbl fs p = vs ∧
        ∀ k, (∀ g ∈ fs, g.target ≠ k) → plookup p k = plookup acc' k)
    (acc' : PFields) (h1 : ∀ g ∈ fs, plookup acc' g.target = none)
    (h2 : ∀ k, k ≠ f.target → plookup acc' k = plookup acc k) :
    ∃ p, encodeFields tbl fs vs acc' = some p ∧ decodeSchema tbl fs p = vs ∧
      plookup p f.source = plookup acc' f.target ∧
      ∀ k, (∀ g ∈ f :: fs, g.target ≠ k) → plookup p k = plookup acc k := by
  obtain ⟨p, e1, e2, e3⟩ := ih acc' h1
  refine ⟨p, e1, e2, ?_, ?_⟩
  · rw [← (hs.fields f (List.mem_cons_self ..)).ts]
    exact e3 _ (fun g hg => hs.head_notin g hg)
  · intro k hk
    rw [e3 k (fun g hg => hk g (List.mem_cons_of_mem _ hg))]
    exact h2 k (fun e => hk f (List.mem_cons_self ..) e.symm)

theorem rt_acc_set {f : Field} {fs : Schema} {acc : PFields} (hs : SchOK (f :: fs))
    (hacc : ∀ g ∈ f :: fs, plookup acc g.target = none) (w : PVal) :
    (∀ g ∈ fs, plookup (pset acc f.target w) g.target = none) ∧
    (∀ k, k ≠ f.target → plookup (pset acc f.target w) k = plookup acc k) := by
  refine ⟨fun g hg => ?_, fun k hk => plookup_pset_ne _ _ _ _ hk⟩
  rw [plookup_pset_ne _ _ _ _ (hs.head_notin g hg)]
  exact hacc g (List.mem_cons_of_mem _ hg)

/-- the one-field test inside `wtFields` -/
def wtField (tbl : Table) (bad : List Nat) (f : Field) (v : Val) : Bool :=
  match v, f.kind with
  | .none, .scalar => f.fwd != .always
  | .none, .sub _ => f.fwd != .always
  | .scalar _, .scalar => true
  | .list _, .list => true
  | .obj sub, .sub sid => wtObj tbl bad sid (.obj sub)
  | _, _ => false

theorem wtFields_cons (tbl : Table) (bad : List Nat) (f : Field) (fs : Schema) (v : Val) (vs : Vals) :
    wtFields tbl bad (f :: fs) (.cons v vs) = (wtField tbl bad f v && wtFields tbl bad fs vs) := by
  obtain ⟨kind, _, _, _, _, _⟩ := f
  cases v <;> cases kind <;> simp [wtFields, wtField]

theorem wtField_none {tbl : Table} {bad : List Nat} {f : Field} (h : wtField tbl bad f .none = true) :
    f.fwd ≠ .always ∧ f.kind ≠ .list := by
  cases hk : f.kind <;> simp [wtField, hk] at h <;> simp [h]

theorem wtField_list {tbl : Table} {bad : List Nat} {f : Field} {xs : List Nat}
    (h : wtField tbl bad f (.list xs) = true) : f.kind = .list := by
  cases hk : f.kind <;> simp [wtField, hk] at h <;> rfl

theorem wtField_obj {tbl : Table} {bad : List Nat} {f : Field} {sub : Vals}
    (h : wtField tbl bad f (.obj sub) = true) : ∃ sid', f.kind = .sub sid' ∧ wtObj tbl bad sid' (.obj sub) = true := by
  cases hk : f.kind <;> simp [wtField, hk] at h
  exact ⟨_, rfl, h⟩

def RtVal (tbl : Table) (bad : List Nat) (v : Val) : Prop :=
  ∀ sid, wtObj tbl bad sid v = true → ∃ p, encodeObj tbl sid v = some p ∧ decodeObj tbl sid p = v

def RtVals (tbl : Table) (bad : List Nat) (vs : Vals) : Prop :=
  ∀ (fs : Schema) (acc : PFields), SchOK fs → wtFields tbl bad fs vs = true →
    (∀ f ∈ fs, plookup acc f.target = none) →
    ∃ p, encodeFields tbl fs vs acc = some p ∧ decodeSchema tbl fs p = vs ∧
      ∀ k, (∀ f ∈ fs, f.target ≠ k) → plookup p k = plookup acc k

theorem rt_obj {tbl : Table} {bad : List Nat} (hg : tableGood tbl bad = true) {fields : Vals}
    (ih : RtVals tbl bad fields) : RtVal tbl bad (.obj fields) := by
  intro sid hw
  simp only [wtObj, Bool.and_eq_true, Bool.not_eq_true', decide_eq_true_eq] at hw
  obtain ⟨⟨hb, hlt⟩, hf⟩ := hw
  have hs := tableGood_sch hg hb hlt
  obtain ⟨p, h1, h2, _⟩ := ih (tbl.getD sid []) .nil hs hf (fun _ _ => rfl)
  refine ⟨p, ?_, ?_⟩
  · rw [encodeObj]; exact h1
  · rw [decodeObj, h2]

theorem rt_nil (tbl : Table) (bad : List Nat) : RtVals tbl bad .nil := by
  intro fs acc _ hw _
  cases fs with
  | nil => exact ⟨acc, by simp [encodeFields], by simp [decodeSchema], fun _ _ => rfl⟩
  | cons f fs => simp [wtFields] at hw

theorem rt_cons {tbl : Table} {bad : List Nat} {v : Val} {vs : Vals}
    (ihv : RtVal tbl bad v) (ihs : RtVals tbl bad vs) : RtVals tbl bad (.cons v vs) := by
  intro fs acc hs hw hacc
  cases fs with
  | nil => simp [wtFields] at hw
  | cons f fs =>
  rw [wtFields_cons, Bool.and_eq_true] at hw
  obtain ⟨hwf, hws⟩ := hw
  have hf := hs.fields f (List.mem_cons_self ..)
  have ih := fun acc' h => ihs fs acc' hs.tail hws h
  cases v with
  | none =>
    obtain ⟨p, e1, e2, e3, e4⟩ := rt_step hs ih acc
      (fun g hg => hacc g (List.mem_cons_of_mem _ hg)) (fun _ _ => rfl)
    have hfa := wtField_none hwf
    have hba : f.bwd ≠ .always := fun e => hfa.1 (hf.bwd_always.mp e)
    refine ⟨p, ?_, ?_, e4⟩
    · simp [encodeFields, hfa.1, e1]
    · rw [hacc f (List.mem_cons_self ..)] at e3
      simp [decodeSchema, e2, decodeField_eq, hf.bwd_ne_never, e3, hfa.2, hba]
  | scalar n =>
    obtain ⟨a1, a2⟩ := rt_acc_set hs hacc (.scalar n)
    obtain ⟨p, e1, e2, e3, e4⟩ := rt_step hs ih _ a1 a2
    refine ⟨p, ?_, ?_, e4⟩
    · simp [encodeFields, hf.raises, hf.fwd_ne_never, hf.fwd_ne_truthy, e1]
    · rw [plookup_pset_self] at e3
      simp [decodeSchema, e2, decodeField_eq, hf.bwd_ne_never, e3, decodeVal, hf.bwd_ne_truthy]
  | list xs =>
    have hk := wtField_list hwf
    by_cases hx : xs = []
    · subst hx
      obtain ⟨p, e1, e2, e3, e4⟩ := rt_step hs ih acc
        (fun g hg => hacc g (List.mem_cons_of_mem _ hg)) (fun _ _ => rfl)
      refine ⟨p, ?_, ?_, e4⟩
      · simp [encodeFields, hf.raises, e1]
      · rw [hacc f (List.mem_cons_self ..)] at e3
        simp [decodeSchema, e2, decodeField_eq, hf.bwd_ne_never, e3, hk]
    · obtain ⟨a1, a2⟩ := rt_acc_set hs hacc (.list xs)
      obtain ⟨p, e1, e2, e3, e4⟩ := rt_step hs ih _ a1 a2
      refine ⟨p, ?_, ?_, e4⟩
      · simp [encodeFields, hf.raises, hf.fwd_ne_never, hx, e1]
      · rw [plookup_pset_self] at e3
        simp [decodeSchema, e2, decodeField_eq, hf.bwd_ne_never, e3, decodeVal]
  | obj sub =>
    obtain ⟨sid', hk, hsub⟩ := wtField_obj hwf
    obtain ⟨q, q1, q2⟩ := ihv sid' hsub
    obtain ⟨a1, a2⟩ := rt_acc_set hs hacc (.msg q)
    obtain ⟨p, e1, e2, e3, e4⟩ := rt_step hs ih _ a1 a2
    refine ⟨p, ?_, ?_, e4⟩
    · simp [encodeFields, hf.raises, hf.fwd_ne_never, hk, q1, e1]
    · rw [plookup_pset_self] at e3
      rw [decodeObj] at q2
      rw [decodeSchema, e2, decodeField_eq, if_neg hf.bwd_ne_never, e3]
      simp only [decodeVal, hk]
      rw [q2]

theorem rt_val (tbl : Table) (bad : List Nat) (hg : tableGood tbl bad = true) (v : Val) : RtVal tbl bad v :=
  Val.rec (motive_1 := RtVal tbl bad) (motive_2 := RtVals tbl bad)
    (fun sid hw => by simp [wtObj] at hw) (fun _ sid hw => by simp [wtObj] at hw)
    (fun _ sid hw => by simp [wtObj] at hw) (fun _ ih => rt_obj hg ih)
    (rt_nil tbl bad) (fun _ _ ihv ihs => rt_cons ihv ihs) v

-- ------------------------------------------------------------------------------------------------ decoding is well-typed
theorem required_mem {sch : Schema} {q : PFields} (h : requiredPresent sch q = true) :
    ∀ f ∈ sch, f.fwd = .always → (plookup q f.source).isSome = true := by
  intro f hf ha
  simp only [requiredPresent, List.all_eq_true] at h
  have := h f hf
  simpa [ha] using this

theorem ds_wt {tbl : Table} {bad : List Nat} {p : PFields} : (fs : Schema) →
    (∀ f ∈ fs, wtField tbl bad f (decodeField tbl f p) = true) →
    wtFields tbl bad fs (decodeSchema tbl fs p) = true
  | [], _ => by simp [decodeSchema, wtFields]
  | f :: fs, h => by
    rw [decodeSchema, wtFields_cons, Bool.and_eq_true]
    exact ⟨h f (List.mem_cons_self ..), ds_wt fs (fun g hg => h g (List.mem_cons_of_mem _ hg))⟩

def DwVal (tbl : Table) (bad : List Nat) (v : PVal) : Prop :=
  ∀ f, FieldOK f → pwtVal tbl bad f v = true → wtField tbl bad f (decodeVal tbl f v) = true

def DwFields (tbl : Table) (bad : List Nat) (p : PFields) : Prop :=
  ∀ sch, SchOK sch → pwtFields tbl bad sch p = true → ∀ f ∈ sch,
    (f.fwd = .always → (plookup p f.source).isSome = true) → wtField tbl bad f (decodeField tbl f p) = true

theorem dw_scalar (tbl : Table) (bad : List Nat) (n : Nat) : DwVal tbl bad (.scalar n) := by
  intro f hf hp
  simp only [pwtVal, beq_iff_eq] at hp
  simp [decodeVal, hf.bwd_ne_truthy, wtField, hp]

theorem dw_list (tbl : Table) (bad : List Nat) (xs : List Nat) : DwVal tbl bad (.list xs) := by
  intro f hf hp
  simp only [pwtVal, Bool.and_eq_true, beq_iff_eq] at hp
  simp [decodeVal, wtField, hp.1]

theorem dw_msg {tbl : Table} {bad : List Nat} (hg : tableGood tbl bad = true) {q : PFields}
    (ih : DwFields tbl bad q) : DwVal tbl bad (.msg q) := by
  intro f hf hp
  cases hk : f.kind with
  | scalar => simp [pwtVal, hk] at hp
  | list => simp [pwtVal, hk] at hp
  | sub sid =>
    simp only [pwtVal, hk, Bool.and_eq_true, Bool.not_eq_true', decide_eq_true_eq] at hp
    obtain ⟨⟨⟨hb, hlt⟩, hq⟩, hr⟩ := hp
    have hs := tableGood_sch hg hb hlt
    have h := ds_wt (tbl := tbl) (bad := bad) (p := q) (tbl.getD sid [])
      (fun g hgm => ih _ hs hq g hgm (required_mem hr g hgm))
    simp only [decodeVal, hk, wtField, wtObj, Bool.and_eq_true, Bool.not_eq_true', decide_eq_true_eq]
    exact ⟨⟨hb, hlt⟩, h⟩

theorem dw_nil (tbl : Table) (bad : List Nat) : DwFields tbl bad .nil := by
  intro sch hs _ f hfm hreq
  have hf := hs.fields f hfm
  rcases hf.rules with ⟨h1, h2⟩ | ⟨h1, h2⟩
  · simp [plookup] at hreq
    exact absurd h1 hreq
  · cases hk : f.kind <;> simp [decodeField, h1, h2, hk, wtField]

theorem dw_cons {tbl : Table} {bad : List Nat} {k : Nat} {v : PVal} {rest : PFields}
    (ihv : DwVal tbl bad v) (ihr : DwFields tbl bad rest) : DwFields tbl bad (.cons k v rest) := by
  intro sch hs hp f hfm hreq
  have hf := hs.fields f hfm
  simp only [pwtFields, Bool.and_eq_true] at hp
  obtain ⟨⟨hv, _⟩, hrest⟩ := hp
  by_cases h : k = f.source
  · subst h
    rw [hs.find_source hfm] at hv
    simp only [decodeField, if_neg hf.bwd_ne_never, if_true]
    exact ihv f hf hv
  · simp only [decodeField, if_neg hf.bwd_ne_never, if_neg h]
    refine ihr sch hs hrest f hfm (fun ha => ?_)
    have := hreq ha
    simpa [plookup, h] using this

theorem dw_fields (tbl : Table) (bad : List Nat) (hg : tableGood tbl bad = true) (p : PFields) : DwFields tbl bad p :=
  PFields.rec (motive_1 := DwVal tbl bad) (motive_2 := DwFields tbl bad)
    (dw_scalar tbl bad) (dw_list tbl bad) (fun _ ih => dw_msg hg ih)
    (dw_nil tbl bad) (fun _ _ _ ihv ihr => dw_cons ihv ihr) p

-- ------------------------------------------------------------------------------------------------ presence
theorem pwt_lookup {tbl : Table} {bad : List Nat} {sch : Schema} (hs : SchOK sch) {f : Field} (hfm : f ∈ sch)
    {w : PVal} : (p : PFields) → pwtFields tbl bad sch p = true → plookup p f.source = some w →
    pwtVal tbl bad f w = true
  | .nil, _, hl => by simp [plookup] at hl
  | .cons k v rest, hp, hl => by
    simp only [pwtFields, Bool.and_eq_true] at hp
    obtain ⟨⟨hv, _⟩, hrest⟩ := hp
    by_cases h : k = f.source
    · subst h
      rw [hs.find_source hfm] at hv
      simp only [plookup, if_true, Option.some.injEq] at hl
      subst hl
      exact hv
    · simp only [plookup, if_neg h] at hl
      exact pwt_lookup hs hfm rest hrest hl

theorem pwt_lookup_mem {tbl : Table} {bad : List Nat} {sch : Schema} {j : Nat} :
    (p : PFields) → pwtFields tbl bad sch p = true → (plookup p j).isSome = true → ∃ f ∈ sch, f.source = j
  | .nil, _, hl => by simp [plookup] at hl
  | .cons k v rest, hp, hl => by
    simp only [pwtFields, Bool.and_eq_true] at hp
    obtain ⟨⟨hv, _⟩, hrest⟩ := hp
    by_cases h : k = j
    · subst h
      cases hfind : sch.find? (fun f => f.source == k) with
      | none => simp [hfind] at hv
      | some f =>
        have h1 := List.mem_of_find?_eq_some hfind
        have h2 := List.find?_some hfind
        exact ⟨f, h1, by simpa using h2⟩
    · simp only [plookup, if_neg h] at hl
      exact pwt_lookup_mem rest hrest hl

theorem bool_skip : ∀ (A S P T : Bool), (T && P) = false → (A || (S && P)) = (A || ((T || S) && P)) := by decide

theorem bool_write : ∀ (A S P T : Bool), (T && P) = T →
    ((T || A) || (S && P)) = (A || ((T || S) && P)) := by decide

/-- re-encoding the decoded fields `fs` writes exactly the numbers of `fs` that the original payload has -/
theorem enc_presence {tbl : Table} {bad : List Nat} {sch : Schema} (hs : SchOK sch) {p : PFields}
    (hp : pwtFields tbl bad sch p = true) (hr : requiredPresent sch p = true) (p' : PFields) (k : Nat)
    (fs : Schema) : (∀ f ∈ fs, f ∈ sch) → ∀ (acc : PFields),
    encodeFields tbl fs (decodeSchema tbl fs p) acc = some p' →
    (plookup p' k).isSome =
      ((plookup acc k).isSome || (fs.any (fun f => f.target == k) && (plookup p k).isSome)) := by
  induction fs with
  | nil =>
    intro _ acc he
    simp only [decodeSchema, encodeFields, Option.some.injEq] at he
    subst he
    simp
  | cons f fs ih0 =>
    intro hsub acc he
    have hfm := hsub f (List.mem_cons_self ..)
    have hf := hs.fields f hfm
    have ih := ih0 (fun g hg => hsub g (List.mem_cons_of_mem _ hg))
    rw [decodeSchema, decodeField_eq, if_neg hf.bwd_ne_never] at he
    cases hl : plookup p f.source with
    | none =>
      have hna : f.fwd ≠ .always := fun ha => by
        have := required_mem hr f hfm ha
        simp [hl] at this
      have hnb : f.bwd ≠ .always := fun e => hna (hf.bwd_always.mp e)
      have hk : (f.target == k && (plookup p k).isSome) = false := by
        by_cases e : f.target = k
        · rw [← e, hf.ts, hl]; simp
        · simp [e]
      have he' : encodeFields tbl fs (decodeSchema tbl fs p) acc = some p' := by
        rw [hl] at he
        dsimp only at he
        by_cases hkl : f.kind = .list
        · rw [if_pos hkl] at he
          simpa [encodeFields, hf.raises] using he
        · rw [if_neg hkl, if_neg hnb] at he
          simpa [encodeFields, hna] using he
      rw [ih acc he', List.any_cons]
      exact bool_skip _ _ _ _ hk
    | some w =>
      have hw := pwt_lookup hs hfm p hp hl
      have hk : (f.target == k && (plookup p k).isSome) = (f.target == k) := by
        by_cases e : f.target = k
        · rw [← e, hf.ts, hl]; simp
        · simp [e]
      have fin : ∀ pv, encodeFields tbl fs (decodeSchema tbl fs p) (pset acc f.target pv) = some p' →
          (plookup p' k).isSome =
            ((plookup acc k).isSome || ((f :: fs).any (fun f => f.target == k) && (plookup p k).isSome)) := by
        intro pv he'
        rw [ih _ he', plookup_pset_isSome, List.any_cons]
        exact bool_write _ _ _ _ hk
      rw [hl] at he
      dsimp only at he
      cases w with
      | scalar n =>
        have hd : decodeVal tbl f (.scalar n) = .scalar n := by simp [decodeVal, hf.bwd_ne_truthy]
        rw [hd] at he
        apply fin (.scalar n)
        simpa [encodeFields, hf.raises, hf.fwd_ne_never, hf.fwd_ne_truthy] using he
      | list xs =>
        simp only [pwtVal, Bool.and_eq_true, beq_iff_eq, Bool.not_eq_true', List.isEmpty_eq_false_iff] at hw
        have hd : decodeVal tbl f (.list xs) = .list xs := by simp [decodeVal]
        rw [hd] at he
        apply fin (.list xs)
        simpa [encodeFields, hf.raises, hf.fwd_ne_never, hw.2] using he
      | msg q =>
        cases hkind : f.kind with
        | scalar => simp [pwtVal, hkind] at hw
        | list => simp [pwtVal, hkind] at hw
        | sub sid' =>
          have hd : decodeVal tbl f (.msg q) = .obj (decodeSchema tbl (tbl.getD sid' []) q) := by
            simp only [decodeVal, hkind]
          rw [hd] at he
          simp [encodeFields, hf.raises, hf.fwd_ne_never, hkind] at he
          split at he
          · cases he
          · exact fin _ he

/-- serialising what the application composed and parsing it back yields the same content: every field with the
    value it was given, unset fields unset — for all values, all optional-field subsets, any nesting depth -/
theorem roundtrip (tbl : Table) (bad : List Nat) (hg : tableGood tbl bad = true) (sid : Nat) (v : Val)
    (hw : wtObj tbl bad sid v = true) :
    ∃ p, encodeObj tbl sid v = some p ∧ decodeObj tbl sid p = v :=
  rt_val tbl bad hg v sid hw

/-- what is parsed from a peer's payload is something the application could have composed … -/
theorem decode_wt (tbl : Table) (bad : List Nat) (hg : tableGood tbl bad = true) (sid : Nat) (p : PFields)
    (hp : pwtObj tbl bad sid p = true) :
    wtObj tbl bad sid (decodeObj tbl sid p) = true := by
  simp only [pwtObj, Bool.and_eq_true, Bool.not_eq_true', decide_eq_true_eq] at hp
  obtain ⟨⟨⟨hb, hlt⟩, hq⟩, hr⟩ := hp
  have hs := tableGood_sch hg hb hlt
  have h := ds_wt (tbl := tbl) (bad := bad) (p := p) (tbl.getD sid [])
    (fun g hgm => dw_fields tbl bad hg p _ hs hq g hgm (required_mem hr g hgm))
  simp only [decodeObj, wtObj, Bool.and_eq_true, Bool.not_eq_true', decide_eq_true_eq]
  exact ⟨⟨hb, hlt⟩, h⟩

/-- … so re-serialising a received payload changes no field the library models: parsing the re-serialised payload
    gives exactly what parsing the original gave -/
theorem reserialise (tbl : Table) (bad : List Nat) (hg : tableGood tbl bad = true) (sid : Nat) (p : PFields)
    (hp : pwtObj tbl bad sid p = true) :
    ∃ p', encodeObj tbl sid (decodeObj tbl sid p) = some p' ∧ decodeObj tbl sid p' = decodeObj tbl sid p := by
  obtain ⟨p', h1, h2⟩ := roundtrip tbl bad hg sid _ (decode_wt tbl bad hg sid p hp)
  exact ⟨p', h1, h2⟩

/-- and the re-serialised payload has a field exactly where the original had one -/
theorem reserialise_presence (tbl : Table) (bad : List Nat) (hg : tableGood tbl bad = true) (sid : Nat) (p : PFields)
    (hp : pwtObj tbl bad sid p = true) :
    ∀ p', encodeObj tbl sid (decodeObj tbl sid p) = some p' → ∀ k, (plookup p' k).isSome = (plookup p k).isSome := by
  intro p' he k
  simp only [pwtObj, Bool.and_eq_true, Bool.not_eq_true', decide_eq_true_eq] at hp
  obtain ⟨⟨⟨hb, hlt⟩, hq⟩, hr⟩ := hp
  have hs := tableGood_sch hg hb hlt
  rw [decodeObj, encodeObj] at he
  rw [enc_presence hs hq hr p' k (tbl.getD sid []) (fun _ h => h) .nil he]
  cases hl : (plookup p k).isSome with
  | false => simp [plookup]
  | true =>
    obtain ⟨f, hfm, hfs⟩ := pwt_lookup_mem p hq hl
    have : (tbl.getD sid []).any (fun f => f.target == k) = true :=
      List.any_eq_true.mpr ⟨f, hfm, by simp [(hs.fields f hfm).ts, hfs]⟩
    rw [this]; simp [plookup]

/-- sensitivity witnesses (concrete evaluations) -/
theorem bad_rules_lose_values :
    (let f : Field := { kind := .scalar, fwd := .truthy, bwd := .truthy, target := 1, source := 1, raises := false }
     (encodeObj [[f]] 0 (.obj (.cons (.scalar 0) .nil))).map (decodeObj [[f]] 0) = some (.obj (.cons .none .nil))) ∧
    (let f : Field := { kind := .scalar, fwd := .notNone, bwd := .always, target := 1, source := 1, raises := false }
     (encodeObj [[f]] 0 (.obj (.cons .none .nil))).map (decodeObj [[f]] 0) = some (.obj (.cons (.scalar 0) .nil))) := by
  constructor <;>
    simp [encodeObj, encodeFields, decodeObj, decodeSchema, decodeField, defaultOf]

end Yow.Payload
