/-
  Round-trip theorems for the payload converter model (Model/Payload.lean), for ANY schema table that passes the
  decidable well-formedness test `tableGood` (the table regenerated from the source is checked in Props/C10.lean).
-/
import YowsupVerif.Lemmas.PayloadBase
namespace Yow.Payload

-- ------------------------------------------------------------------------------------------------ round trip
/-- one step of the encoder: whatever accumulator `acc'` the head field leaves (differing from `acc` at most at the
    head's own number), the remaining fields decode to what they were given and the head's number is untouched -/
theorem rt_step {tbl : Table} {f : Field} {fs : Schema} {vs : Vals} {acc : PFields} (hs : SchOK (f :: fs))
    (ih : ∀ acc', (∀ g ∈ fs, plookup acc' g.target = none) →
      ∃ p, encodeFields tbl fs vs acc' = some p ∧ decodeSchema tbl fs p = vs ∧
        ∀ k, (∀ g ∈ fs, g.target ≠ k) → plookup p k = plookup acc' k)
    (acc' : PFields) (h1 : ∀ g ∈ fs, plookup acc' g.target = none)
    (h2 : ∀ k, k ≠ f.target → plookup acc' k = plookup acc k) :
    ∃ p, encodeFields tbl fs vs acc' = some p ∧ decodeSchema tbl fs p = vs ∧
      plookup p f.source = plookup acc' f.target ∧
      ∀ k, (∀ g ∈ f :: fs, g.target ≠ k) → plookup p k = plookup acc k := by
  obtain ⟨p, e1, e2, e3⟩ := ih acc' h1
  refine ⟨p, e1, e2, ?_, ?_⟩
  · rw [← (hs.fields f (List.mem_cons_self ..)).ts]
    exact e3 _ (fun g hg => hs.head_notin g hg)
  · intro k hk
    rw [e3 k (fun g hg => hk g (List.mem_cons_of_mem _ hg))]
    exact h2 k (fun e => hk f (List.mem_cons_self ..) e.symm)

theorem rt_acc_set {f : Field} {fs : Schema} {acc : PFields} (hs : SchOK (f :: fs))
    (hacc : ∀ g ∈ f :: fs, plookup acc g.target = none) (w : PVal) :
    (∀ g ∈ fs, plookup (pset acc f.target w) g.target = none) ∧
    (∀ k, k ≠ f.target → plookup (pset acc f.target w) k = plookup acc k) := by
  refine ⟨fun g hg => ?_, fun k hk => plookup_pset_ne _ _ _ _ hk⟩
  rw [plookup_pset_ne _ _ _ _ (hs.head_notin g hg)]
  exact hacc g (List.mem_cons_of_mem _ hg)

/-- the one-field test inside `wtFields` -/
def wtField (tbl : Table) (bad : List Nat) (f : Field) (v : Val) : Bool :=
  match v, f.kind with
  | .none, .scalar => f.fwd != .always
  | .none, .sub _ => f.fwd != .always
  | .scalar _, .scalar => true
  | .list _, .list => true
  | .obj sub, .sub sid => wtObj tbl bad sid (.obj sub)
  | _, _ => false

theorem wtFields_cons (tbl : Table) (bad : List Nat) (f : Field) (fs : Schema) (v : Val) (vs : Vals) :
    wtFields tbl bad (f :: fs) (.cons v vs) = (wtField tbl bad f v && wtFields tbl bad fs vs) := by
  obtain ⟨kind, _, _, _, _, _⟩ := f
  cases v <;> cases kind <;> simp [wtFields, wtField]

theorem wtField_none {tbl : Table} {bad : List Nat} {f : Field} (h : wtField tbl bad f .none = true) :
    f.fwd ≠ .always ∧ f.kind ≠ .list := by
  cases hk : f.kind <;> simp [wtField, hk] at h <;> simp [h]

theorem wtField_list {tbl : Table} {bad : List Nat} {f : Field} {xs : List Nat}
    (h : wtField tbl bad f (.list xs) = true) : f.kind = .list := by
  cases hk : f.kind <;> simp [wtField, hk] at h <;> rfl

theorem wtField_obj {tbl : Table} {bad : List Nat} {f : Field} {sub : Vals}
    (h : wtField tbl bad f (.obj sub) = true) : ∃ sid', f.kind = .sub sid' ∧ wtObj tbl bad sid' (.obj sub) = true := by
  cases hk : f.kind <;> simp [wtField, hk] at h
  exact ⟨_, rfl, h⟩

def RtVal (tbl : Table) (bad : List Nat) (v : Val) : Prop :=
  ∀ sid, wtObj tbl bad sid v = true → ∃ p, encodeObj tbl sid v = some p ∧ decodeObj tbl sid p = v

def RtVals (tbl : Table) (bad : List Nat) (vs : Vals) : Prop :=
  ∀ (fs : Schema) (acc : PFields), SchOK fs → wtFields tbl bad fs vs = true →
    (∀ f ∈ fs, plookup acc f.target = none) →
    ∃ p, encodeFields tbl fs vs acc = some p ∧ decodeSchema tbl fs p = vs ∧
      ∀ k, (∀ f ∈ fs, f.target ≠ k) → plookup p k = plookup acc k

theorem rt_obj {tbl : Table} {bad : List Nat} (hg : tableGood tbl bad = true) {fields : Vals}
    (ih : RtVals tbl bad fields) : RtVal tbl bad (.obj fields) := by
  intro sid hw
  simp only [wtObj, Bool.and_eq_true, Bool.not_eq_true', decide_eq_true_eq] at hw
  obtain ⟨⟨hb, hlt⟩, hf⟩ := hw
  have hs := tableGood_sch hg hb hlt
  obtain ⟨p, h1, h2, _⟩ := ih (tbl.getD sid []) .nil hs hf (fun _ _ => rfl)
  refine ⟨p, ?_, ?_⟩
  · rw [encodeObj]; exact h1
  · rw [decodeObj, h2]

theorem rt_nil (tbl : Table) (bad : List Nat) : RtVals tbl bad .nil := by
  intro fs acc _ hw _
  cases fs with
  | nil => exact ⟨acc, by simp [encodeFields], by simp [decodeSchema], fun _ _ => rfl⟩
  | cons f fs => simp [wtFields] at hw

theorem rt_cons {tbl : Table} {bad : List Nat} {v : Val} {vs : Vals}
    (ihv : RtVal tbl bad v) (ihs : RtVals tbl bad vs) : RtVals tbl bad (.cons v vs) := by
  intro fs acc hs hw hacc
  cases fs with
  | nil => simp [wtFields] at hw
  | cons f fs =>
  rw [wtFields_cons, Bool.and_eq_true] at hw
  obtain ⟨hwf, hws⟩ := hw
  have hf := hs.fields f (List.mem_cons_self ..)
  have ih := fun acc' h => ihs fs acc' hs.tail hws h
  cases v with
  | none =>
    obtain ⟨p, e1, e2, e3, e4⟩ := rt_step hs ih acc
      (fun g hg => hacc g (List.mem_cons_of_mem _ hg)) (fun _ _ => rfl)
    have hfa := wtField_none hwf
    have hba : f.bwd ≠ .always := fun e => hfa.1 (hf.bwd_always.mp e)
    refine ⟨p, ?_, ?_, e4⟩
    · simp [encodeFields, hfa.1, e1]
    · rw [hacc f (List.mem_cons_self ..)] at e3
      simp [decodeSchema, e2, decodeField_eq, hf.bwd_ne_never, e3, hfa.2, hba]
  | scalar n =>
    obtain ⟨a1, a2⟩ := rt_acc_set hs hacc (.scalar n)
    obtain ⟨p, e1, e2, e3, e4⟩ := rt_step hs ih _ a1 a2
    refine ⟨p, ?_, ?_, e4⟩
    · simp [encodeFields, hf.raises, hf.fwd_ne_never, hf.fwd_ne_truthy, e1]
    · rw [plookup_pset_self] at e3
      simp [decodeSchema, e2, decodeField_eq, hf.bwd_ne_never, e3, decodeVal, hf.bwd_ne_truthy]
  | list xs =>
    have hk := wtField_list hwf
    by_cases hx : xs = []
    · subst hx
      obtain ⟨p, e1, e2, e3, e4⟩ := rt_step hs ih acc
        (fun g hg => hacc g (List.mem_cons_of_mem _ hg)) (fun _ _ => rfl)
      refine ⟨p, ?_, ?_, e4⟩
      · simp [encodeFields, hf.raises, e1]
      · rw [hacc f (List.mem_cons_self ..)] at e3
        simp [decodeSchema, e2, decodeField_eq, hf.bwd_ne_never, e3, hk]
    · obtain ⟨a1, a2⟩ := rt_acc_set hs hacc (.list xs)
      obtain ⟨p, e1, e2, e3, e4⟩ := rt_step hs ih _ a1 a2
      refine ⟨p, ?_, ?_, e4⟩
      · simp [encodeFields, hf.raises, hf.fwd_ne_never, hx, e1]
      · rw [plookup_pset_self] at e3
        simp [decodeSchema, e2, decodeField_eq, hf.bwd_ne_never, e3, decodeVal]
  | obj sub =>
    obtain ⟨sid', hk, hsub⟩ := wtField_obj hwf
    obtain ⟨q, q1, q2⟩ := ihv sid' hsub
    obtain ⟨a1, a2⟩ := rt_acc_set hs hacc (.msg q)
    obtain ⟨p, e1, e2, e3, e4⟩ := rt_step hs ih _ a1 a2
    refine ⟨p, ?_, ?_, e4⟩
    · simp [encodeFields, hf.raises, hf.fwd_ne_never, hk, q1, e1]
    · rw [plookup_pset_self] at e3
      rw [decodeObj] at q2
      rw [decodeSchema, e2, decodeField_eq, if_neg hf.bwd_ne_never, e3]
      simp only [decodeVal, hk]
      rw [q2]

theorem rt_val (tbl : Table) (bad : List Nat) (hg : tableGood tbl bad = true) (v : Val) : RtVal tbl bad v :=
  Val.rec (motive_1 := RtVal tbl bad) (motive_2 := RtVals tbl bad)
    (fun sid hw => by simp [wtObj] at hw) (fun _ sid hw => by simp [wtObj] at hw)
    (fun _ sid hw => by simp [wtObj] at hw) (fun _ ih => rt_obj hg ih)
    (rt_nil tbl bad) (fun _ _ ihv ihs => rt_cons ihv ihs) v

/-- serialising what the application composed and parsing it back yields the same content: every field with the
    value it was given, unset fields unset — for all values, all optional-field subsets, any nesting depth -/
theorem roundtrip (tbl : Table) (bad : List Nat) (hg : tableGood tbl bad = true) (sid : Nat) (v : Val)
    (hw : wtObj tbl bad sid v = true) :
    ∃ p, encodeObj tbl sid v = some p ∧ decodeObj tbl sid p = v :=
  rt_val tbl bad hg v sid hw

/-- what is parsed from a peer's payload is something the application could have composed … -/
theorem decode_wt (tbl : Table) (bad : List Nat) (hg : tableGood tbl bad = true) (sid : Nat) (p : PFields)
    (hp : pwtObj tbl bad sid p = true) :
    wtObj tbl bad sid (decodeObj tbl sid p) = true := by
  sorry

/-- … so re-serialising a received payload changes no field the library models: parsing the re-serialised payload
    gives exactly what parsing the original gave -/
theorem reserialise (tbl : Table) (bad : List Nat) (hg : tableGood tbl bad = true) (sid : Nat) (p : PFields)
    (hp : pwtObj tbl bad sid p = true) :
    ∃ p', encodeObj tbl sid (decodeObj tbl sid p) = some p' ∧ decodeObj tbl sid p' = decodeObj tbl sid p := by
  obtain ⟨p', h1, h2⟩ := roundtrip tbl bad hg sid _ (decode_wt tbl bad hg sid p hp)
  exact ⟨p', h1, h2⟩

/-- and the re-serialised payload has a field exactly where the original had one -/
theorem reserialise_presence (tbl : Table) (bad : List Nat) (hg : tableGood tbl bad = true) (sid : Nat) (p : PFields)
    (hp : pwtObj tbl bad sid p = true) :
    ∀ p', encodeObj tbl sid (decodeObj tbl sid p) = some p' → ∀ k, (plookup p' k).isSome = (plookup p k).isSome := by
  sorry

/-- sensitivity witnesses (concrete evaluations) -/
theorem bad_rules_lose_values :
    (let f : Field := { kind := .scalar, fwd := .truthy, bwd := .truthy, target := 1, source := 1, raises := false }
     (encodeObj [[f]] 0 (.obj (.cons (.scalar 0) .nil))).map (decodeObj [[f]] 0) = some (.obj (.cons .none .nil))) ∧
    (let f : Field := { kind := .scalar, fwd := .notNone, bwd := .always, target := 1, source := 1, raises := false }
     (encodeObj [[f]] 0 (.obj (.cons .none .nil))).map (decodeObj [[f]] 0) = some (.obj (.cons (.scalar 0) .nil))) := by
  sorry

end Yow.Payload
