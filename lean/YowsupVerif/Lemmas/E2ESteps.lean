/-
  Local behaviour of the receive path of the E2E system model under the two server faults, for ANY state:
  a ciphertext that was already opened is acknowledged again and not shown; a damaged one is answered with a retry
  request carrying the incremented counter and not shown.
-/
import YowsupVerif.Model.E2EInv
namespace Yow.E2E

-- ------------------------------------------------------------------------------------------------ helpers
/-- `insert` overwrites when the key is present and appends otherwise; either way the key then maps to the value -/
private theorem lookup_insert_self {α β} [DecidableEq α] (l : List (α × β)) (k : α) (v : β) :
    lookup (insert l k v) k = some v := by
  unfold lookup insert
  split
  · rename_i h
    induction l with
    | nil => simp at h
    | cons p l ih =>
      by_cases hp : p.1 = k
      · simp [hp]
      · simp [hp] at h ⊢
        simpa using ih (by simpa using h)
  · rename_i h
    simp at h
    simp [List.find?_append]
    have : l.find? (fun p => p.1 == k) = none := by
      simp only [List.find?_eq_none, Prod.forall, beq_iff_eq]
      intro a b hab hak; subst hak; exact h b hab
    simp [this]

@[simp] private theorem getClient_setClient (s : Sys) (r : Acct) (c : Client) : getClient (setClient s r c) r = c := by
  simp [getClient, setClient, lookup_insert_self]

@[simp] private theorem getClient_emit (s : Sys) (a r : Acct) (st : Stanza) : getClient (emit s a st) r = getClient s r := rfl
@[simp] private theorem emit_wire (s : Sys) (a : Acct) (st : Stanza) : (emit s a st).wire = s.wire ++ [(a, st)] := rfl
@[simp] private theorem setClient_wire (s : Sys) (a : Acct) (c : Client) : (setClient s a c).wire = s.wire := rfl

/-- a 1:1 message whose (only) ciphertext was opened before: exactly one delivery receipt goes out, nothing is shown,
    nothing else changes at the application -/
theorem duplicate_reacknowledged (s : Sys) (r a : Acct) (id : Nat) (im : Bool) (ct : Ct)
    (hk : ct.kind = .pkmsg ∨ ct.kind = .msg) (hc : ct.corrupt = false)
    (hs : (getClient s r).seen.contains (ct.sess, ct.ctr) = true)
    (hsess : ct.kind = .msg → ∃ se, lookup (getClient s r).sessions a = some se ∧ (se.cur = ct.sess ∨ ct.sess ∈ se.archived)) :
    let s' := clientReceive s r (.msg id (.user a) none im [(none, ct)] none)
    (getClient s' r).shown = (getClient s r).shown ∧
    s'.wire = s.wire ++ [(r, .receipt id (.user a) none .delivery)] := by
  simp only [List.contains_eq_mem, decide_eq_true_eq] at hs
  rcases hk with hk | hk
  · simp [clientReceive, handleEnc, firstKind, decrypt, hk, hc, hs, onDecryptFailure]
  · obtain ⟨se, h1, h2⟩ := hsess hk
    have h3 : ¬(¬se.cur = ct.sess ∧ ¬ct.sess ∈ se.archived) := by
      rcases h2 with h2 | h2 <;> simp [h2]
    simp [clientReceive, handleEnc, firstKind, decrypt, hk, hc, hs, onDecryptFailure, h1, h3]

/-- a group message whose sender-key ciphertext was opened before (and that carries no other ciphertext) -/
theorem duplicate_group_reacknowledged (s : Sys) (r a : Acct) (g id : Nat) (im : Bool) (ct : Ct)
    (hk : ct.kind = .skmsg) (hc : ct.corrupt = false)
    (hkey : lookup (getClient s r).peerSK (g, a) = some ct.sess)
    (hs : (getClient s r).seenSK.contains (ct.sess, ct.ctr) = true) :
    let s' := clientReceive s r (.msg id (.group g) (some a) im [(none, ct)] none)
    (getClient s' r).shown = (getClient s r).shown ∧
    s'.wire = s.wire ++ [(r, .receipt id (.group g) (some a) .delivery)] := by
  simp only [List.contains_eq_mem, decide_eq_true_eq] at hs
  simp [clientReceive, handleEnc, handleEnc.stage2, firstKind, groupDecrypt, hk, hc, hs, onDecryptFailure, hkey]

/-- a damaged 1:1 ciphertext (with a session on record for `msg` kind): nothing is shown, exactly one retry request
    goes out and its counter is one more than the retries recorded for this message -/
theorem corrupt_triggers_retry (s : Sys) (r a : Acct) (id : Nat) (im : Bool) (ct : Ct)
    (hk : ct.kind = .pkmsg ∨ ct.kind = .msg) (hc : ct.corrupt = true)
    (hsess : ct.kind = .msg → (lookup (getClient s r).sessions a).isSome = true) :
    let s' := clientReceive s r (.msg id (.user a) none im [(none, ct)] none)
    (getClient s' r).shown = (getClient s r).shown ∧
    s'.wire = s.wire ++ [(r, .receipt id (.user a) none (.retry ((lookup (getClient s r).retries id).getD 0 + 1)))] := by
  rcases hk with hk | hk
  · simp [clientReceive, handleEnc, firstKind, decrypt, hk, hc, onDecryptFailure, sendRetry]
  · obtain ⟨se, h1⟩ := Option.isSome_iff_exists.mp (hsess hk)
    simp [clientReceive, handleEnc, firstKind, decrypt, hk, hc, onDecryptFailure, sendRetry, h1]

/-- an intact first message / message on the current session that was not opened before is shown exactly once and
    acknowledged with a delivery receipt -/
theorem fresh_message_shown_once (s : Sys) (r a : Acct) (id : Nat) (p : Payload) (ct : Ct)
    (hk : ct.kind = .pkmsg) (hc : ct.corrupt = false) (hp : ct.plain = { skdm := none, content := some p })
    (hs : (getClient s r).seen.contains (ct.sess, ct.ctr) = false) :
    let s' := clientReceive s r (.msg id (.user a) none p.isMedia [(none, ct)] none)
    (getClient s' r).shown = (getClient s r).shown ++ [{ id := id, peer := .user a, participant := none, payload := p }] ∧
    s'.wire = s.wire ++ [(r, .receipt id (.user a) none .delivery)] := by
  simp only [List.contains_eq_mem, decide_eq_false_iff_not] at hs
  simp [clientReceive, handleEnc, handleEnc.stage2, firstKind, decrypt, hk, hc, hs, hp, storeSkdm, surface,
    showAndReceipt, resetRetries]

end Yow.E2E
