/-
  Exactly-once with server faults, part 2: what a client has opened and what it was shown only grows.
-/
import YowsupVerif.Lemmas.E2ETokInv
namespace Yow.E2E

/-- opened ciphertexts and showings of a client record only grow -/
def CGrow (c c' : Client) : Prop :=
  (∀ e, e ∈ c.seen → e ∈ c'.seen) ∧ (∀ e, e ∈ c.seenSK → e ∈ c'.seenSK) ∧ ∀ id, shownC c id ≤ shownC c' id

theorem CGrow.rfl' (c : Client) : CGrow c c := ⟨fun _ h => h, fun _ h => h, fun _ => Nat.le_refl _⟩
theorem CGrow.trans {c c1 c2 : Client} (h1 : CGrow c c1) (h2 : CGrow c1 c2) : CGrow c c2 :=
  ⟨fun e h => h2.1 e (h1.1 e h), fun e h => h2.2.1 e (h1.2.1 e h), fun id => Nat.le_trans (h1.2.2 id) (h2.2.2 id)⟩
theorem CGrow.of_eq {c c' : Client} (h1 : c'.seen = c.seen) (h2 : c'.seenSK = c.seenSK) (h3 : c'.shown = c.shown) : CGrow c c' :=
  ⟨fun e h => h1 ▸ h, fun e h => h2 ▸ h, fun id => by unfold shownC; rw [h3]; exact Nat.le_refl _⟩

def Grow (s s' : Sys) : Prop := ∀ z, CGrow (getClient s z) (getClient s' z)

theorem Grow.rfl' (s : Sys) : Grow s s := fun z => CGrow.rfl' _
theorem Grow.trans {s s1 s2 : Sys} (h1 : Grow s s1) (h2 : Grow s1 s2) : Grow s s2 := fun z => (h1 z).trans (h2 z)
theorem Grow.of_clients {s s' : Sys} (h : s'.clients = s.clients) : Grow s s' := by
  intro z; unfold getClient; rw [h]; exact CGrow.rfl' _

theorem Grow.setClient {s : Sys} {a : Acct} {c : Client} (h : CGrow (getClient s a) c) : Grow s (setClient s a c) := by
  intro z
  rw [getClient_setClient]
  split
  · next e => subst e; exact h
  · exact CGrow.rfl' _

theorem Grow.emit (s : Sys) (a : Acct) (st : Stanza) : Grow s (emit s a st) := Grow.of_clients rfl
theorem Grow.push (s : Sys) (a : Acct) (st : Stanza) : Grow s (push s a st) := Grow.of_clients rfl

theorem getClient_emit' (s : Sys) (a : Acct) (st : Stanza) (z : Acct) : getClient (emit s a st) z = getClient s z := rfl

/-- a client step that writes back a grown record and emits -/
theorem Grow.set_emit {s : Sys} {a : Acct} {c : Client} (h : CGrow (getClient s a) c) (st : Stanza) :
    Grow s (Yow.E2E.emit (Yow.E2E.setClient s a c) a st) := (Grow.setClient h).trans (Grow.emit _ _ _)

theorem CGrow.enqueue {c0 c : Client} (h : CGrow c0 c) (n : Node) : CGrow c0 (enqueueSent c n) :=
  h.trans (CGrow.of_eq rfl rfl rfl)

theorem Grow.sendEnc {s : Sys} {a : Acct} {c : Client} (h : CGrow (getClient s a) c) (n : Node) (encs : List (Option Acct × Ct))
    (p : Option Acct) : Grow s (sendEnc s a c n encs p) := by
  unfold Yow.E2E.sendEnc
  apply Grow.set_emit
  split
  · exact h.enqueue n
  · exact h

theorem Grow.sendIq {s : Sys} {a : Acct} {c : Client} (h : CGrow (getClient s a) c) (mk : Nat → Stanza) (k : Cont) :
    Grow s (sendIq s a c mk k) := by
  unfold Yow.E2E.sendIq
  dsimp only
  refine Grow.set_emit ?_ _
  exact h.trans (CGrow.of_eq rfl rfl rfl)

theorem Grow.sendToContact {s : Sys} {a : Acct} {c : Client} (h : CGrow (getClient s a) c) (n : Node) (peer : Acct) :
    Grow s (sendToContact s a c n peer) := by
  unfold Yow.E2E.sendToContact
  split
  · exact Grow.rfl' s
  · exact Grow.sendEnc (s := { s with nextCtr := s.nextCtr + 1 }) h _ _ _

theorem ownSenderKey_grow (s : Sys) (c : Client) (g : Nat) :
    (ownSenderKey s c g).1.clients = s.clients ∧ CGrow c (ownSenderKey s c g).2.1 := by
  unfold ownSenderKey
  split
  · exact ⟨rfl, CGrow.rfl' _⟩
  · exact ⟨rfl, CGrow.of_eq rfl rfl rfl⟩

theorem sgFirst_grow (s : Sys) (c : Client) (n : Node) (g : Nat) (need : List Acct) (rc : Nat) (p : Option Acct) :
    (sgFirst s c n g need rc p).1.clients = s.clients ∧ CGrow c (sgFirst s c n g need rc p).2.1 := by
  unfold sgFirst
  split
  · exact ⟨rfl, CGrow.rfl' _⟩
  · exact ⟨(ownSenderKey_grow s c g).1, (ownSenderKey_grow s c g).2⟩

theorem Grow.sgTail {s0 : Sys} {a : Acct} {t : Sys × Client × List (Option Acct × Ct)} (hcl : t.1.clients = s0.clients)
    (h : CGrow (getClient s0 a) t.2.1) (n : Node) (g rc : Nat) (p : Option Acct) : Grow s0 (sgTail a n g rc p t) := by
  obtain ⟨s1, c1, encs1⟩ := t
  have hg : ∀ z, getClient s1 z = getClient s0 z := by intro z; unfold getClient; rw [hcl]
  simp only [Yow.E2E.sgTail]
  split
  · obtain ⟨h1, h2⟩ := ownSenderKey_grow s1 c1 g
    generalize Yow.E2E.ownSenderKey s1 c1 g = os at h1 h2
    obtain ⟨s2, c2, gen⟩ := os
    dsimp only at h1 h2 ⊢
    have hg2 : ∀ z, getClient { s2 with nextCtr := s2.nextCtr + 1 } z = getClient s0 z := by
      intro z; show getClient s2 z = _; unfold getClient; rw [h1, hcl]
    have := Grow.sendEnc (s := { s2 with nextCtr := s2.nextCtr + 1 }) (a := a) (c := c2) (by rw [hg2]; exact h.trans h2) n
      (encs1 ++ [(none, { kind := .skmsg, sess := gen, ctr := s2.nextCtr, plain := { skdm := none, content := some n.payload }, corrupt := false })]) p
    intro z
    have := this z
    rw [hg2] at this
    exact this
  · have := Grow.sendEnc (s := s1) (a := a) (c := c1) (by rw [hg]; exact h) n encs1 p
    intro z
    have := this z
    rw [hg] at this
    exact this

theorem Grow.sgws {s : Sys} {a : Acct} {c : Client} (h : CGrow (getClient s a) c) (n : Node) (g : Nat) (need : List Acct) (rc : Nat) :
    Grow s (sendToGroupWithSessions s a c n g need rc) := by
  rw [sendToGroupWithSessions_eq]
  exact Grow.sgTail (sgFirst_grow s c n g need rc _).1 (h.trans (sgFirst_grow s c n g need rc _).2) _ _ _ _

theorem Grow.ensure {s : Sys} {a : Acct} {c : Client} (h : CGrow (getClient s a) c) (n : Node) (g : Nat) (jids : List Acct) :
    Grow s (ensureSessionsAndSend s a c n g jids) := by
  unfold ensureSessionsAndSend
  dsimp only
  split
  · exact Grow.sgws h _ _ _ _
  · exact Grow.sendIq h _ _

theorem Grow.sendToGroup {s : Sys} {a : Acct} {c : Client} (h : CGrow (getClient s a) c) (n : Node) (g : Nat)
    (retry : Option (Acct × Nat)) : Grow s (sendToGroup s a c n g retry) := by
  unfold Yow.E2E.sendToGroup
  split
  · exact Grow.sendIq h _ _
  · split
    · exact Grow.sgws h _ _ _ _
    · exact Grow.sgws h _ _ _ _

theorem Grow.processPlaintext {s : Sys} {a : Acct} {c : Client} (h : CGrow (getClient s a) c) (n : Node)
    (retry : Option (Acct × Nat)) : Grow s (processPlaintext s a c n retry) := by
  unfold Yow.E2E.processPlaintext
  split
  · exact Grow.sendToGroup h _ _ _
  · split
    · exact Grow.sendToContact h _ _
    · exact Grow.sendIq h _ _

theorem Grow.sendLayerSend (s : Sys) (a : Acct) (n : Node) : Grow s (sendLayerSend s a n) := by
  unfold Yow.E2E.sendLayerSend
  dsimp only
  split
  · exact Grow.emit _ _ _
  · exact Grow.processPlaintext (CGrow.rfl' _) _ _

theorem shownC_le_append (c : Client) (x : Shown) (id : Nat) : shownC c id ≤ shownC { c with shown := c.shown ++ [x] } id := by
  unfold shownC
  simp only [List.filter_append, List.length_append]
  omega

theorem Grow.showAndReceipt (s : Sys) (r : Acct) (id : Nat) (peer : Dest) (part : Option Acct) (p : Payload) :
    Grow s (showAndReceipt s r id peer part p) := by
  unfold Yow.E2E.showAndReceipt
  dsimp only
  refine Grow.set_emit ?_ _
  exact ⟨fun _ h => h, fun _ h => h, fun id' => shownC_le_append _ _ id'⟩

theorem Grow.surface (s : Sys) (r : Acct) (id : Nat) (peer : Dest) (part : Option Acct) (pl : Plain) :
    Grow s (surface s r id peer part pl) := by
  unfold Yow.E2E.surface
  split
  · exact Grow.showAndReceipt _ _ _ _ _ _
  · exact Grow.rfl' s

theorem Grow.sendRetry (s : Sys) (r : Acct) (id : Nat) (peer : Dest) (part : Option Acct) : Grow s (sendRetry s r id peer part) := by
  unfold Yow.E2E.sendRetry
  dsimp only
  refine Grow.set_emit ?_ _
  exact CGrow.of_eq rfl rfl rfl

theorem Grow.resetRetries (s : Sys) (r : Acct) (id : Nat) : Grow s (resetRetries s r id) := by
  unfold Yow.E2E.resetRetries
  exact Grow.setClient (CGrow.of_eq rfl rfl rfl)

theorem Grow.storeSkdm (s : Sys) (r : Acct) (sender : Acct) (pl : Plain) : Grow s (storeSkdm s r sender pl) := by
  unfold Yow.E2E.storeSkdm
  split
  · exact Grow.rfl' s
  · exact Grow.setClient (CGrow.of_eq rfl rfl rfl)

theorem Grow.onDecryptFailure (s : Sys) (r : Acct) (st : Stanza) (id : Nat) (peer : Dest) (part : Option Acct)
    (sender : Acct) (d : Dec) : Grow s (onDecryptFailure s r st id peer part sender d) := by
  cases d with
  | ok p => exact Grow.rfl' s
  | duplicate => exact Grow.emit _ _ _
  | invalid => exact Grow.sendRetry _ _ _ _ _
  | noSession =>
    simp only [Yow.E2E.onDecryptFailure]
    refine Grow.sendIq ?_ _ _
    exact CGrow.of_eq rfl rfl rfl

theorem decrypt_grow (c : Client) (peer : Acct) (ct : Ct) : CGrow c (decrypt c peer ct).1 := by
  unfold decrypt
  split
  · exact CGrow.rfl' _
  · split
    · exact CGrow.rfl' _
    · split
      · exact CGrow.rfl' _
      · exact ⟨fun e h => List.mem_append_left _ h, fun _ h => h, fun _ => Nat.le_refl _⟩
  · split
    · exact CGrow.rfl' _
    · split
      · exact CGrow.rfl' _
      · split
        · exact CGrow.rfl' _
        · split
          · exact CGrow.rfl' _
          · exact ⟨fun e h => List.mem_append_left _ h, fun _ h => h, fun _ => Nat.le_refl _⟩

theorem groupDecrypt_grow (c : Client) (g : Nat) (sender : Acct) (ct : Ct) : CGrow c (groupDecrypt c g sender ct).1 := by
  unfold groupDecrypt
  split
  · exact CGrow.rfl' _
  · split
    · exact CGrow.rfl' _
    · split
      · exact CGrow.rfl' _
      · exact ⟨fun _ h => h, fun e h => List.mem_append_left _ h, fun _ => Nat.le_refl _⟩

theorem Grow.stage2 (s : Sys) (r : Acct) (st : Stanza) (id : Nat) (peer : Dest) (part : Option Acct)
    (sender : Acct) (encs : List (Option Acct × Ct)) : Grow s (handleEnc.stage2 s r st id peer part sender encs) := by
  unfold handleEnc.stage2
  split
  · next ct g hct =>
    dsimp only
    have h1 := Grow.setClient (s := s) (a := r) (groupDecrypt_grow (getClient s r) g sender ct)
    split
    · exact (h1.trans (Grow.surface _ _ _ _ _ _)).trans (Grow.resetRetries _ _ _)
    · exact (h1.trans (Grow.sendRetry _ _ _ _ _)).trans (Grow.resetRetries _ _ _)
    · exact h1.trans (Grow.onDecryptFailure _ _ _ _ _ _ _ _)
  · exact Grow.resetRetries _ _ _

theorem Grow.handleEnc (s : Sys) (r : Acct) (st : Stanza) : Grow s (handleEnc s r st) := by
  cases st with
  | msg id peer part im encs pl =>
    rw [handleEnc_eq]
    generalize heFirst encs = first
    cases first with
    | none => exact Grow.stage2 _ _ _ _ _ _ _ _
    | some ct =>
      simp only [heMain]
      have h1 := Grow.setClient (s := s) (a := r) (decrypt_grow (getClient s r) (whoOf peer part) ct)
      split
      · exact ((h1.trans (Grow.storeSkdm _ _ _ _)).trans (Grow.surface _ _ _ _ _ _)).trans (Grow.stage2 _ _ _ _ _ _ _ _)
      · exact h1.trans (Grow.onDecryptFailure _ _ _ _ _ _ _ _)
  | _ => exact Grow.rfl' s

theorem Grow.foldl_handleEnc (r : Acct) (l : List Stanza) : ∀ s : Sys, Grow s (l.foldl (fun acc st => Yow.E2E.handleEnc acc r st) s) := by
  induction l with
  | nil => intro s; exact Grow.rfl' s
  | cons st l ih => intro s; exact (Grow.handleEnc s r st).trans (ih _)

theorem Grow.processPending (s : Sys) (r : Acct) (peer : Dest) (part : Option Acct) : Grow s (processPending s r peer part) := by
  unfold Yow.E2E.processPending
  dsimp only
  exact (Grow.foldl_handleEnc r _ s).trans (Grow.setClient (CGrow.of_eq rfl rfl rfl))

theorem Grow.processKeys (s : Sys) (r : Acct) (asked got : List Acct) : Grow s (processKeys s r asked got).1 := by
  unfold Yow.E2E.processKeys
  suffices H : ∀ (l : List Acct) (acc : Sys × List Acct),
      Grow acc.1 (l.foldl (fun (acc : Sys × List Acct) j =>
        if got.contains j then
          (Yow.E2E.setClient { acc.1 with nextSess := acc.1.nextSess + 1 } r (createSession (getClient acc.1 r) j acc.1.nextSess), acc.2 ++ [j])
        else (Yow.E2E.setClient acc.1 r { getClient acc.1 r with skipEnc := (getClient acc.1 r).skipEnc ++ [.user j] }, acc.2)) acc).1 from
    H asked (s, [])
  intro l
  induction l with
  | nil => intro acc; exact Grow.rfl' _
  | cons j l ih =>
    intro acc
    rw [List.foldl_cons]
    refine Grow.trans ?_ (ih _)
    split
    · exact Grow.setClient (s := { acc.1 with nextSess := acc.1.nextSess + 1 }) (CGrow.of_eq rfl rfl rfl)
    · exact Grow.setClient (CGrow.of_eq rfl rfl rfl)

theorem Grow.onIqResult (s : Sys) (r : Acct) (iq : Nat) (got ms : List Acct) : Grow s (onIqResult s r iq got ms) := by
  unfold Yow.E2E.onIqResult
  dsimp only
  split
  · exact Grow.rfl' s
  · next k hk =>
    have h0 : Grow s (Yow.E2E.setClient s r { getClient s r with iqReg := erase (getClient s r).iqReg iq }) :=
      Grow.setClient (CGrow.of_eq rfl rfl rfl)
    refine h0.trans ?_
    generalize Yow.E2E.setClient s r { getClient s r with iqReg := erase (getClient s r).iqReg iq } = s0
    cases k with
    | keysForSend n =>
      dsimp only
      split
      · next b hb =>
        have := Grow.processKeys s0 r [b] got
        split
        · exact this.trans (Grow.sendToContact (CGrow.rfl' _) _ _)
        · exact this
      · exact Grow.rfl' _
    | keysForRetry n who count =>
      dsimp only
      have := Grow.processKeys s0 r [who] got
      split
      · exact this.trans (Grow.processPlaintext (CGrow.rfl' _) _ _)
      · exact this
    | keysForPending peer part =>
      show Grow s0 (if (Yow.E2E.processKeys s0 r [whoOf peer part] got).2.isEmpty = true
        then (Yow.E2E.processKeys s0 r [whoOf peer part] got).1
        else Yow.E2E.processPending (Yow.E2E.processKeys s0 r [whoOf peer part] got).1 r peer part)
      split
      · exact Grow.processKeys s0 r _ got
      · exact (Grow.processKeys s0 r _ got).trans (Grow.processPending _ _ _ _)
    | groupInfo n =>
      dsimp only
      split
      · exact Grow.ensure (CGrow.rfl' _) _ _ _
      · exact Grow.rfl' _
    | keysForGroup n all l =>
      dsimp only
      split
      · exact (Grow.processKeys s0 r l got).trans (Grow.sgws (CGrow.rfl' _) _ _ _ _)
      · exact Grow.rfl' _

theorem Grow.onReceipt (s : Sys) (r : Acct) (id : Nat) (peer : Dest) (part : Option Acct) (t : RType) :
    Grow s (onReceipt s r id peer part t) := by
  unfold Yow.E2E.onReceipt
  dsimp only
  split
  · refine Grow.set_emit ?_ _
    exact CGrow.of_eq rfl rfl rfl
  · have h1 : Grow s (Yow.E2E.setClient s r (if part.isSome = true then getClient s r
        else { getClient s r with sentQueue := (getClient s r).sentQueue.filter (fun m => m.id != id) })) := by
      apply Grow.setClient
      split
      · exact CGrow.rfl' _
      · exact CGrow.of_eq rfl rfl rfl
    refine h1.trans ?_
    cases t with
    | delivery =>
      dsimp only
      refine Grow.set_emit ?_ _
      exact CGrow.of_eq rfl rfl rfl
    | retry count =>
      dsimp only
      exact (Grow.emit _ _ _).trans (Grow.sendIq (CGrow.rfl' _) _ _)

theorem Grow.clientReceive (s : Sys) (r : Acct) (st : Stanza) : Grow s (clientReceive s r st) := by
  cases st with
  | msg id peer part im encs pl =>
    simp only [Yow.E2E.clientReceive]
    split
    · exact Grow.rfl' s
    · exact Grow.handleEnc _ _ _
  | receipt id peer part t => exact Grow.onReceipt _ _ _ _ _ _
  | ack id cls => exact Grow.rfl' s
  | getKeys iq jids => exact Grow.rfl' s
  | getGroup iq g => exact Grow.rfl' s
  | keys iq got => exact Grow.onIqResult _ _ _ _ _
  | groupInfo iq g ms => exact Grow.onIqResult _ _ _ _ _

end Yow.E2E
