/-
  Token conservation in the E2E system model, part 14: a receipt arrives at the sender of the message (`onReceipt`).
-/
import YowsupVerif.Lemmas.E2ETokIq
namespace Yow.E2E

theorem sentS_filter (i id : Nat) (l : List Node) :
    sentS i (l.filter (fun m => m.id != id)) = if i = id then 0 else sentS i l := by
  unfold sentS
  induction l with
  | nil => simp
  | cons m l ih =>
    rw [List.filter_cons]
    by_cases hm : m.id = id
    · simp only [hm, bne_self_eq_false, Bool.false_eq_true, if_false, ih, sumMap_cons]
      by_cases hi : i = id
      · simp [hi]
      · have : ¬ id = i := fun e => hi e.symm
        simp [hi, this]
    · have : (m.id != id) = true := by simp [hm]
      simp only [this, if_true, sumMap_cons, ih]
      by_cases hi : i = id
      · subst hi; simp [hm]
      · simp [hi]

theorem recShape_ident {n : Node} {peer : Dest} {part : Option Acct} (h : RecShape n peer part) (r : Acct) :
    (part = some r ∨ (part = none ∧ peer = .user r)) ↔ whoOf peer part = r := by
  unfold RecShape at h
  split at h
  · obtain ⟨rfl, rfl⟩ := h
    simp [whoOf]
  · obtain ⟨rfl, hp⟩ := h
    cases part with
    | none => simp at hp
    | some p => simp [whoOf]

theorem recShape_part {n : Node} {peer : Dest} {part : Option Acct} (h : RecShape n peer part) :
    part.isSome = isGroupDest n.dest := by
  unfold RecShape at h
  split at h
  · next b hb => obtain ⟨rfl, rfl⟩ := h; rw [hb]; rfl
  · next g hg => obtain ⟨rfl, hp⟩ := h; rw [hg, hp]; rfl

theorem rcptOut_of_shape {n : Node} {peer : Dest} {part : Option Acct} (h : RecShape n peer part) (id id' : Nat) (r : Acct) :
    rcptOut id' r (.receipt id peer part .delivery) = if id = id' ∧ whoOf peer part = r then 1 else 0 := by
  unfold RecShape at h
  split at h
  · obtain ⟨rfl, rfl⟩ := h
    rfl
  · obtain ⟨rfl, hp⟩ := h
    cases part with
    | none => simp at hp
    | some p => rfl

theorem retryDownTok_of_shape {n : Node} {peer : Dest} {part : Option Acct} (h : RecShape n peer part) (id id' cnt : Nat) (r : Acct) :
    retryDownTok id' r (.receipt id peer part (.retry cnt)) = if id = id' ∧ whoOf peer part = r then 1 else 0 := by
  have := recShape_ident h r
  simp only [retryDownTok]
  by_cases h1 : id = id' <;> by_cases h2 : whoOf peer part = r
  · rw [if_pos ⟨h1, this.mpr h2⟩, if_pos ⟨h1, h2⟩]
  · rw [if_neg (fun hh => h2 (this.mp hh.2)), if_neg (fun hh => h2 hh.2)]
  · rw [if_neg (fun hh => h1 hh.1), if_neg (fun hh => h1 hh.1)]
  · rw [if_neg (fun hh => h1 hh.1), if_neg (fun hh => h1 hh.1)]

theorem handTok_some (n : Node) (w : Acct) (id : Nat) (r : Acct) :
    handTok n (some w) id r = if n.id = id ∧ w = r then 1 else 0 := by
  simp [handTok]

theorem newEntry_test {n : Node} {peer : Dest} {part : Option Acct} (h : RecShape n peer part) (id id' : Nat) (r : Acct) :
    ((id == id' && RType.delivery == RType.delivery && (part == some r || (part.isNone && peer == Dest.user r))) = true) ↔
      (id = id' ∧ whoOf peer part = r) := by
  rw [← recShape_ident h r]
  simp

theorem rcptGot_append (c : Client) (x : Nat × Dest × Option Acct × RType) (id : Nat) (r : Acct) :
    rcptGot { c with receipts := c.receipts ++ [x] } id r = rcptGot c id r +
      (if (x.1 == id && x.2.2.2 == RType.delivery && (x.2.2.1 == some r || (x.2.2.1.isNone && x.2.1 == Dest.user r))) = true then 1 else 0) := by
  unfold rcptGot
  simp only [List.filter_append, List.length_append, List.filter_cons, List.filter_nil]
  split <;> simp

section
variable {ex : Bool} {accts : List Acct} {groups : List (Nat × List Acct)}

/-- what is known about a receipt at the head of the sender's queue -/
theorem receipt_facts {s : Sys} {a : Acct} {rest : List Stanza} {id : Nat} {peer : Dest} {part : Option Acct} {t : RType}
    (hA : AInv accts groups (abs s)) (hT : TV ex accts groups s.submitted (view s))
    (hq : queueOf s.outbound a = .receipt id peer part t :: rest) :
    a ∈ accts ∧ ∃ n, (a, n) ∈ s.submitted ∧ n.id = id ∧ RecShape n peer part ∧ whoOf peer part ∈ intendedG groups a n ∧
      (t = .delivery → 1 ≤ shownC (getClient s (whoOf peer part)) id) ∧ (∀ cnt, t = .retry cnt → 1 ≤ cnt) := by
  have hmem : Stanza.receipt id peer part t ∈ (abs s).outb a := by
    show _ ∈ queueOf s.outbound a; rw [hq]; simp
  obtain ⟨ha, ⟨n', hn1, hn2, hn3⟩, _⟩ := hA.outb_ok a _ hmem
  obtain ⟨⟨n, h1, h2, h3⟩, h4, h5⟩ := (hT.downs a _ hmem).rcpt id peer part t rfl
  have : n' = n := (sub_unique hA hn1 h1 (hn2.trans h2.symm)).2
  subst this
  exact ⟨ha, n', h1, h2, h3, hn3, h4, h5⟩

/-- a retry request arrives: the node is found in the sent queue and a continuation for the resend is registered -/
theorem onReceipt_retry_TV (hw : WFConfig accts groups) {s : Sys} {a : Acct} {rest : List Stanza} {id : Nat} {peer : Dest}
    {part : Option Acct} {cnt : Nat}
    (hA : AInv accts groups (abs s)) (hT : TV ex accts groups s.submitted (view s))
    (hlen : s.submitted.length ≤ 100)
    (hq : queueOf s.outbound a = .receipt id peer part (.retry cnt) :: rest) :
    TV ex accts groups s.submitted (view (onReceipt { s with outbound := insert s.outbound a rest } a id peer part (.retry cnt))) := by
  have nolost : ¬ 100 < (view s).submitted.length := by
    show ¬ 100 < s.submitted.length
    omega
  have hkeptm : ∀ n', (a, n') ∈ s.submitted → ∀ r, r ∈ intendedG groups a n' →
      inTransitV (view s) a n'.id r = 0 ∨ n' ∈ (getClient s a).sentQueue := by
    intro n' hn' r hr
    rcases hT.kept a n' hn' r hr with h1 | h1 | h1
    · exact Or.inl h1
    · exact Or.inr h1
    · exact absurd h1 nolost
  have hretqm : ∀ e ∈ (getClient s a).iqReg, ∀ n' w c, e.2 = Cont.keysForRetry n' w c → isGroupDest n'.dest = true →
      n' ∈ (getClient s a).sentQueue := by
    intro e he n' w c hc hg
    rcases hT.retq a e he n' w c hc hg with h1 | h1
    · exact h1
    · exact absurd h1 nolost
  obtain ⟨ha, n, hn1, hn2, hrs, hwint, _, hcnt⟩ := receipt_facts hA hT hq
  have hcnt1 : 1 ≤ cnt := hcnt cnt rfl
  have hacc : a ∈ (view { s with outbound := insert s.outbound a rest }).accounts := by
    show a ∈ (view s).accounts; rw [hT.acc]; exact ha
  have hhead : Stanza.receipt id peer part (.retry cnt) ∈ (view s).outb a := by
    show _ ∈ queueOf s.outbound a; rw [hq]; simp
  have hne := hT.neq a n hn1 _ hwint
  -- the token is the retry request
  have hrd : retryDownTok n.id (whoOf peer part) (.receipt id peer part (.retry cnt)) = 1 := by
    simp only [retryDownTok, hn2, true_and]
    rw [if_pos ((recShape_ident hrs _).mpr rfl)]
  have hit : inTransitV (view s) a n.id (whoOf peer part) = 1 := by
    have h1 := hT.cons a n hn1 _ hwint
    rw [tokens_split] at h1
    have h2 : retryDownTok n.id (whoOf peer part) (.receipt id peer part (.retry cnt)) ≤
        sumMap (retryDownTok n.id (whoOf peer part)) ((view s).outb a) := sumMap_le_of_mem hhead
    unfold inTransitV at h1 ⊢
    omega
  have hinq : n ∈ (getClient s a).sentQueue := by
    rcases hkeptm n hn1 _ hwint with h1 | h1
    · omega
    · exact h1
  have hgc : getClient { s with outbound := insert s.outbound a rest } a = getClient s a := rfl
  unfold onReceipt
  simp only [hgc]
  cases hfind : (getClient s a).sentQueue.find? (fun m => m.id == id) with
  | none =>
    exfalso
    have := List.find?_eq_none.mp hfind n hinq
    simp [hn2] at this
  | some m =>
    have hm1 : m ∈ (getClient s a).sentQueue := List.mem_of_find?_eq_some hfind
    have hm2 : m.id = id := by simpa using List.find?_some hfind
    have hmn : m = n := (sub_unique hA ((hA.client a).sentQ m hm1) hn1 (hm2.trans hn2.symm)).2
    subst hmn
    simp only
    generalize hc1 : (if part.isSome = true then getClient s a
      else { getClient s a with sentQueue := (getClient s a).sentQueue.filter (fun m => m.id != id) }) = c1
    have hsq : c1.sentQueue = if part.isSome = true then (getClient s a).sentQueue
        else (getClient s a).sentQueue.filter (fun m => m.id != id) := by
      rw [← hc1]; split <;> rfl
    have hsame : c1.pendingIn = (getClient s a).pendingIn ∧ c1.shown = (getClient s a).shown ∧ c1.seen = (getClient s a).seen ∧
        c1.seenSK = (getClient s a).seenSK ∧ c1.receipts = (getClient s a).receipts ∧ c1.ownSK = (getClient s a).ownSK ∧
        c1.iqReg = (getClient s a).iqReg ∧ c1.nextIq = (getClient s a).nextIq := by
      rw [← hc1]; split <;> exact ⟨rfl, rfl, rfl, rfl, rfl, rfl, rfl, rfl⟩
    obtain ⟨e1, e2, e3, e4, e5, e6, e7, e8⟩ := hsame
    have hcg : ClientGood (view s).nextCtr (getClient s a) := hT.clients a
    have hgrp : part.isSome = isGroupDest m.dest := recShape_part hrs
    have hsrc : Src accts groups s.submitted (view s) a [.receipt id peer part (.retry cnt)] rest c1 m (some (whoOf peer part)) := {
      hx := ha
      hq := hq
      uniq := fun n' hn' e => (sub_unique hA hn' hn1 e).2
      pend := e1
      shown := e2
      seen := e3
      seenSK := e4
      receipts := e5
      ownSK := e6
      cons_plain := by
        intro st hst id' r
        rw [List.mem_singleton] at hst; subst hst
        exact ⟨rfl, rfl, by cases peer <;> cases part <;> rfl⟩
      conts := by rw [e7]; exact hcg.conts
      iqKeys := by rw [e7]; exact hcg.iqKeys
      iq_lt := by rw [e7, e8]; exact fun e he => (hA.client a).iq_lt e.1 e.2 he
      tok := by
        intro n' hn' r hr
        rw [e7]
        simp only [sumMap_cons, sumMap_nil', Nat.add_zero, handTok_some, retryDownTok_of_shape hrs, hm2]
        rfl
      slot := by
        intro i
        have h1 := hT.slots a i
        unfold sendSlots at h1 ⊢
        rw [e7, hsq]
        unfold handSlot
        have hcl : (view s).cl a = getClient s a := rfl
        rw [hcl] at h1
        cases hp : part.isSome with
        | true =>
          have : isGroupDest m.dest = true := by rw [← hgrp, hp]
          simp [this]
          exact h1
        | false =>
          have hug : isGroupDest m.dest = false := by rw [← hgrp, hp]
          simp only [Bool.false_eq_true, if_false, sentS_filter, hug, or_true, and_true]
          by_cases hi : i = id
          · subst hi
            have h2 : 1 ≤ sentS i (getClient s a).sentQueue := by
              have := sumMap_le_of_mem (f := fun (x : Node) => if x.id = i then 1 else 0) hinq
              simp only [hm2, if_true] at this
              exact this
            simp only [if_true, hm2]
            omega
          · have : ¬ m.id = i := fun e => hi (e.symm.trans hm2)
            simp only [hi, if_false, this]
            omega
      iq_sub := by
        intro e he
        rw [e7] at he
        refine ⟨he, ?_⟩
        intro st hst
        rw [List.mem_singleton] at hst; subst hst
        simp [stanzaIq]
      pend_ok := by rw [e7]; exact (hT.ans a).2
      kept := by
        intro n' hn' r hr
        simp only [sumMap_cons, sumMap_nil', Nat.add_zero]
        by_cases hh : n'.id = id ∧ whoOf peer part = r
        · obtain ⟨h1, h2⟩ := hh
          have : n' = m := (sub_unique hA hn' hn1 (h1.trans hn2.symm)).2
          subst this; subst h2
          left; rw [hit, hrd]
        · have hz : retryDownTok n'.id r (.receipt id peer part (.retry cnt)) = 0 := by
            simp only [retryDownTok]
            rw [if_neg]
            intro h
            exact hh ⟨h.1.symm, (recShape_ident hrs r).mp h.2⟩
          rw [hz]
          rcases hkeptm n' hn' r hr with h1 | h1
          · exact Or.inl h1
          · right; left
            rw [hsq]
            split
            · exact h1
            · next hp =>
              refine List.mem_filter.mpr ⟨h1, ?_⟩
              simp only [bne_iff_ne, ne_eq]
              intro hid
              have : n' = m := (sub_unique hA hn' hn1 (hid.trans hn2.symm)).2
              subst this
              -- a 1:1 message has a single recipient
              have hug : isGroupDest n'.dest = false := by rw [← hgrp]; simpa using hp
              have hr' : r = whoOf peer part := by
                unfold intendedG at hr hwint
                cases hd : n'.dest with
                | group g => rw [hd] at hug; cases hug
                | user b =>
                  rw [hd] at hr hwint
                  simp only [List.mem_singleton] at hr hwint
                  rw [hr, hwint]
              exact hh ⟨hid, hr'.symm⟩
      kept_hand := by
        intro _ r hr hh
        simp only [sumMap_cons, sumMap_nil', Nat.add_zero]
        have : whoOf peer part = r := by
          unfold handTok at hh
          split at hh
          · next h => rcases h.2 with h' | h'
                      · cases h'
                      · exact Option.some.inj h'
          · cases hh
        subst this
        rw [hit, hrd]
      ret3 := by
        intro n' hn' g hg
        rw [e6, e7]
        rcases hT.ret3 a n' hn' g hg with h1 | h1
        · exact Or.inl h1
        · exact Or.inr (Or.inl h1)
      retq := by
        intro e he n' w c hc hg
        rw [e7] at he
        have h1 := hretqm e he n' w c hc hg
        left
        rw [hsq]
        split
        · exact h1
        · next hp =>
          refine List.mem_filter.mpr ⟨h1, ?_⟩
          simp only [bne_iff_ne, ne_eq]
          intro hid
          have hn'sub : (a, n') ∈ s.submitted := by
            have := (hA.client a).conts e.1 e.2 he
            rw [hc] at this
            exact this.1
          have : n' = m := (sub_unique hA hn'sub hn1 (hid.trans hn2.symm)).2
          subst this
          have hug : isGroupDest n'.dest = false := by rw [← hgrp]; simpa using hp
          rw [hug] at hg
          cases hg }
    have hss := hsrc.toCont hT (.keysForRetry m (whoOf peer part) cnt) [.ack id 1] (.getKeys c1.nextIq [whoOf peer part])
      (fun p hp => by rw [List.mem_singleton] at hp; subst hp; exact ⟨PlainUp.ack _ _, rfl⟩) (PlainUp.getKeys _ _) rfl
      (fun id' r => by simp [contTok, handTok]) (fun i => by simp [slotTok, handSlot]) hcnt1 (fun h => by cases h)
      (by
        intro n' w c e hg
        cases e
        rw [hsq, if_pos (by rw [hgrp]; exact hg)]
        exact Or.inl hinq)
    refine finish_sender hw.1 hT hss ?_
    have hv1 : view (setClient { s with outbound := insert s.outbound a rest } a c1) = ((view s).popOut a rest).cstep a c1 [] (view s).nextCtr := by
      rw [view_setClient _ _ _ hacc, view_setOutbound]; rfl
    have hacc2 : a ∈ (view (emit (setClient { s with outbound := insert s.outbound a rest } a c1) a (.ack id 1))).accounts := by
      rw [view_emit, hv1]; exact hacc
    rw [view_sendIq _ _ _ _ _ hacc2, view_emit, hv1]
    have : getClient (emit (setClient { s with outbound := insert s.outbound a rest } a c1) a (.ack id 1)) a = c1 := by
      show getClient (setClient { s with outbound := insert s.outbound a rest } a c1) a = c1
      rw [getClient_setClient]; simp
    rw [this]
    simp only [View.cstep_cstep, View.cstep_cl_same, View.cstep_nextCtr, List.nil_append, List.cons_append]
    rfl


/-- a delivery receipt arrives: it is handed to the application (and a 1:1 node leaves the sent queue) -/
theorem bubble_step {s : Sys} {a : Acct} {rest : List Stanza} {id : Nat} {peer : Dest} {part : Option Acct} {c1 : Client}
    (hA : AInv accts groups (abs s)) (hT : TV ex accts groups s.submitted (view s))
    (hq : queueOf s.outbound a = .receipt id peer part .delivery :: rest)
    (hsame : c1.pendingIn = (getClient s a).pendingIn ∧ c1.shown = (getClient s a).shown ∧ c1.seen = (getClient s a).seen ∧
        c1.seenSK = (getClient s a).seenSK ∧ c1.receipts = (getClient s a).receipts ∧ c1.ownSK = (getClient s a).ownSK ∧
        c1.iqReg = (getClient s a).iqReg)
    (hsq : c1.sentQueue = (getClient s a).sentQueue ∨
      (part = none ∧ c1.sentQueue = (getClient s a).sentQueue.filter (fun m => m.id != id))) :
    SenderStep accts groups s.submitted (view s) a [.receipt id peer part .delivery] rest
      { c1 with receipts := c1.receipts ++ [(id, peer, part, .delivery)] } [.ack id 1] (view s).nextCtr := by
  obtain ⟨ha, n, hn1, hn2, hrs, hwint, hshown, _⟩ := receipt_facts hA hT hq
  obtain ⟨e1, e2, e3, e4, e5, e6, e7⟩ := hsame
  have hcg : ClientGood (view s).nextCtr (getClient s a) := hT.clients a
  have hgrp : part.isSome = isGroupDest n.dest := recShape_part hrs
  have hkeep : ∀ n', (a, n') ∈ s.submitted → n' ∈ (getClient s a).sentQueue → n' ∈ c1.sentQueue ∨ (n' = n ∧ isGroupDest n.dest = false) := by
    intro n' hn' hin
    rcases hsq with h1 | ⟨h1, h2⟩
    · left; rw [h1]; exact hin
    · by_cases hid : n'.id = id
      · right
        have : n' = n := (sub_unique hA hn' hn1 (hid.trans hn2.symm)).2
        refine ⟨this, ?_⟩
        rw [← hgrp, h1]; rfl
      · left
        rw [h2]
        exact List.mem_filter.mpr ⟨hin, by simpa using hid⟩
  exact {
    hx := ha
    hq := hq
    hk := Nat.le_refl _
    pend := e1
    shown := e2
    seen := e3
    seenSK := e4
    cons_plain := by
      intro st hst id'
      rw [List.mem_singleton] at hst; subst hst
      exact ⟨rfl, rfl⟩
    out_plain := by
      intro st hst id'
      rw [List.mem_singleton] at hst; subst hst
      exact ⟨rfl, rfl⟩
    conts := by show ∀ e ∈ c1.iqReg, _; rw [e7]; exact hcg.conts
    iqKeys := by show keysNodup c1.iqReg; rw [e7]; exact hcg.iqKeys
    good_out := by
      intro st hst
      rw [List.mem_singleton] at hst; subst hst
      exact (PlainUp.ack _ _).1 _ _
    cons_S := by
      intro n' _ r _
      show contS n'.id r c1.iqReg + _ = _
      rw [e7]
      simp
      rfl
    rcons_S := by
      intro n' _ r _
      rw [rcptGot_append]
      simp only [sumMap_cons, sumMap_nil', Nat.add_zero, rcptOut_of_shape hrs]
      have hc : rcptGot c1 n'.id r = rcptGot ((view s).cl a) n'.id r := by
        unfold rcptGot; rw [e5]; rfl
      rw [hc]
      congr 1
      have := newEntry_test hrs id n'.id r
      by_cases hc' : id = n'.id ∧ whoOf peer part = r
      · rw [if_pos hc', if_pos (this.mpr hc')]
      · rw [if_neg hc', if_neg (fun hh => hc' (this.mp hh))]
    ans_iq := by
      intro e he
      have he : e ∈ c1.iqReg := he
      rw [e7] at he
      refine Or.inl ⟨he, ?_⟩
      intro st hst
      rw [List.mem_singleton] at hst; subst hst
      simp [stanzaIq]
    ans_pend := by
      show ∀ e ∈ _, ∃ k ∈ c1.iqReg, _
      rw [e7]; exact (hT.ans a).2
    kept_S := by
      intro n' hn' r hr
      simp only [sumMap_cons, sumMap_nil', Nat.add_zero, upTok_ack, retryDownTok]
      rcases hT.kept a n' hn' r hr with h1 | h1
      · exact Or.inl h1
      · rcases h1 with h1 | h1
        case inr => exact Or.inr (Or.inr h1)
        rcases hkeep n' hn' h1 with h2 | ⟨h2, h3⟩
        · exact Or.inr (Or.inl h2)
        · -- a 1:1 message whose receipt arrived was shown: nothing is on its way any more
          subst h2
          left
          have hr' : r = whoOf peer part := by
            unfold intendedG at hr hwint
            cases hd : n'.dest with
            | group g => rw [hd] at h3; cases h3
            | user b =>
              rw [hd] at hr hwint
              simp only [List.mem_singleton] at hr hwint
              rw [hr, hwint]
          subst hr'
          have h4 := hT.cons a n' hn' _ hr
          rw [tokens_split] at h4
          have h5 := hshown rfl
          rw [← hn2] at h5
          have : shownC ((view s).cl (whoOf peer part)) n'.id = shownC (getClient s (whoOf peer part)) n'.id := rfl
          omega
    ret3 := by
      intro n' hn' g hg
      show (lookup c1.ownSK g).isSome = true ∨ ∃ e ∈ c1.iqReg, _
      rw [e6, e7]
      exact hT.ret3 a n' hn' g hg
    slots := by
      intro i
      have h1 := hT.slots a i
      unfold sendSlots at h1 ⊢
      show slotS i c1.iqReg + sentS i c1.sentQueue ≤ 1
      rw [e7]
      have : sentS i c1.sentQueue ≤ sentS i (getClient s a).sentQueue := by
        rcases hsq with h2 | ⟨_, h2⟩
        · rw [h2]; exact Nat.le_refl _
        · rw [h2, sentS_filter]; split <;> omega
      have hcl : (view s).cl a = getClient s a := rfl
      rw [hcl] at h1
      omega
    rids := by
      intro e he
      have he : e ∈ c1.receipts ++ [(id, peer, part, RType.delivery)] := he
      rcases List.mem_append.mp he with h1 | h1
      · rw [e5] at h1; exact hT.rids a e h1
      · rw [List.mem_singleton] at h1; subst h1
        exact ⟨(a, n), hn1, hn2⟩
    retq := by
      intro e he n' w c hc hg
      have he : e ∈ c1.iqReg := he
      rw [e7] at he
      rcases hT.retq a e he n' w c hc hg with h1 | h1
      case inr => exact Or.inr h1
      have hn'sub : (a, n') ∈ s.submitted := by
        have := (hA.client a).conts e.1 e.2 he
        rw [hc] at this
        exact this.1
      rcases hkeep n' hn'sub h1 with h2 | ⟨h2, h3⟩
      · exact Or.inl h2
      · subst h2; rw [h3] at hg; cases hg
    unop_out := by
      intro r _ m
      simp }

theorem onReceipt_delivery_TV (hw : WFConfig accts groups) {s : Sys} {a : Acct} {rest : List Stanza} {id : Nat} {peer : Dest}
    {part : Option Acct}
    (hA : AInv accts groups (abs s)) (hT : TV ex accts groups s.submitted (view s))
    (hq : queueOf s.outbound a = .receipt id peer part .delivery :: rest) :
    TV ex accts groups s.submitted (view (onReceipt { s with outbound := insert s.outbound a rest } a id peer part .delivery)) := by
  obtain ⟨ha, _⟩ := receipt_facts hA hT hq
  have hacc : a ∈ (view { s with outbound := insert s.outbound a rest }).accounts := by
    show a ∈ (view s).accounts; rw [hT.acc]; exact ha
  have hgc : getClient { s with outbound := insert s.outbound a rest } a = getClient s a := rfl
  unfold onReceipt
  simp only [hgc]
  cases hfind : (getClient s a).sentQueue.find? (fun m => m.id == id) with
  | none =>
    simp only
    have hss := bubble_step (c1 := getClient s a) hA hT hq ⟨rfl, rfl, rfl, rfl, rfl, rfl, rfl⟩ (Or.inl rfl)
    refine finish_sender hw.1 hT hss ?_
    rw [view_emit, view_setClient _ _ _ hacc, view_setOutbound]
    simp
    rfl
  | some m =>
    simp only
    generalize hc1 : (if part.isSome = true then getClient s a
      else { getClient s a with sentQueue := (getClient s a).sentQueue.filter (fun m => m.id != id) }) = c1
    have hsq : c1.sentQueue = (getClient s a).sentQueue ∨
        (part = none ∧ c1.sentQueue = (getClient s a).sentQueue.filter (fun m => m.id != id)) := by
      rw [← hc1]
      split
      · exact Or.inl rfl
      · next hp => exact Or.inr ⟨by simpa using hp, rfl⟩
    have hsame : c1.pendingIn = (getClient s a).pendingIn ∧ c1.shown = (getClient s a).shown ∧ c1.seen = (getClient s a).seen ∧
        c1.seenSK = (getClient s a).seenSK ∧ c1.receipts = (getClient s a).receipts ∧ c1.ownSK = (getClient s a).ownSK ∧
        c1.iqReg = (getClient s a).iqReg := by
      rw [← hc1]; split <;> exact ⟨rfl, rfl, rfl, rfl, rfl, rfl, rfl⟩
    have hss := bubble_step (c1 := c1) hA hT hq hsame hsq
    refine finish_sender hw.1 hT hss ?_
    have hv1 : view (setClient { s with outbound := insert s.outbound a rest } a c1) = ((view s).popOut a rest).cstep a c1 [] (view s).nextCtr := by
      rw [view_setClient _ _ _ hacc, view_setOutbound]; rfl
    have hacc1 : a ∈ (view (setClient { s with outbound := insert s.outbound a rest } a c1)).accounts := by rw [hv1]; exact hacc
    have hg1 : getClient (setClient { s with outbound := insert s.outbound a rest } a c1) a = c1 := by
      rw [getClient_setClient]; simp
    rw [view_emit, view_setClient _ _ _ hacc1, hg1, hv1]
    simp

end

end Yow.E2E
