/-
  Exactly-once with server faults, part 1: what a client does never depends on the server's queues for the clients nor on
  the fault budget, and leaves both alone.
-/
import YowsupVerif.Lemmas.E2E
namespace Yow.E2E

/-- the same state with other server-to-client queues and another fault budget -/
def Sys.wo (s : Sys) (o : List (Acct × List Stanza)) (fl : List (Nat × Acct)) : Sys := { s with outbound := o, faulted := fl }

section
variable (s : Sys) (o : List (Acct × List Stanza)) (fl : List (Nat × Acct))

@[simp] theorem getClient_wo (a : Acct) : getClient (s.wo o fl) a = getClient s a := rfl
@[simp] theorem wo_nextCtr : (s.wo o fl).nextCtr = s.nextCtr := rfl
@[simp] theorem wo_nextSess : (s.wo o fl).nextSess = s.nextSess := rfl
@[simp] theorem wo_nextGen : (s.wo o fl).nextGen = s.nextGen := rfl
@[simp] theorem wo_outbound : (s.wo o fl).outbound = o := rfl
@[simp] theorem wo_faulted : (s.wo o fl).faulted = fl := rfl
theorem wo_self : s.wo s.outbound s.faulted = s := rfl
@[simp] theorem wo_wo (o' : List (Acct × List Stanza)) (fl' : List (Nat × Acct)) : (s.wo o fl).wo o' fl' = s.wo o' fl' := rfl

theorem emit_wo (a : Acct) (st : Stanza) : emit (s.wo o fl) a st = (emit s a st).wo o fl := rfl
theorem setClient_wo (a : Acct) (c : Client) : setClient (s.wo o fl) a c = (setClient s a c).wo o fl := rfl
theorem setCtr_wo (k : Nat) : { s.wo o fl with nextCtr := k } = ({ s with nextCtr := k } : Sys).wo o fl := rfl
theorem setSess_wo (k : Nat) : { s.wo o fl with nextSess := k } = ({ s with nextSess := k } : Sys).wo o fl := rfl
theorem setGen_wo (k : Nat) : { s.wo o fl with nextGen := k } = ({ s with nextGen := k } : Sys).wo o fl := rfl

theorem sendEnc_wo (a : Acct) (c : Client) (n : Node) (encs : List (Option Acct × Ct)) (p : Option Acct) :
    sendEnc (s.wo o fl) a c n encs p = (sendEnc s a c n encs p).wo o fl := rfl

theorem sendIq_wo (a : Acct) (c : Client) (mk : Nat → Stanza) (k : Cont) :
    sendIq (s.wo o fl) a c mk k = (sendIq s a c mk k).wo o fl := rfl

theorem sendToContact_wo (a : Acct) (c : Client) (n : Node) (peer : Acct) :
    sendToContact (s.wo o fl) a c n peer = (sendToContact s a c n peer).wo o fl := by
  unfold sendToContact
  simp only [wo_nextCtr]
  split <;> rfl

theorem ownSenderKey_wo (c : Client) (g : Nat) :
    ownSenderKey (s.wo o fl) c g = ((ownSenderKey s c g).1.wo o fl, (ownSenderKey s c g).2) := by
  unfold ownSenderKey
  split <;> rfl

theorem sgFirst_wo (c : Client) (n : Node) (g : Nat) (need : List Acct) (rc : Nat) (p : Option Acct) :
    sgFirst (s.wo o fl) c n g need rc p = ((sgFirst s c n g need rc p).1.wo o fl, (sgFirst s c n g need rc p).2) := by
  unfold sgFirst
  split
  · rfl
  · rw [ownSenderKey_wo]
    rfl

theorem sgTail_wo (a : Acct) (n : Node) (g rc : Nat) (p : Option Acct) (t : Sys × Client × List (Option Acct × Ct)) :
    sgTail a n g rc p (t.1.wo o fl, t.2) = (sgTail a n g rc p t).wo o fl := by
  obtain ⟨s1, c1, encs1⟩ := t
  simp only [sgTail]
  split
  · rw [ownSenderKey_wo]
    rfl
  · rfl

theorem sgws_wo (a : Acct) (c : Client) (n : Node) (g : Nat) (need : List Acct) (rc : Nat) :
    sendToGroupWithSessions (s.wo o fl) a c n g need rc = (sendToGroupWithSessions s a c n g need rc).wo o fl := by
  rw [sendToGroupWithSessions_eq, sendToGroupWithSessions_eq, sgFirst_wo, sgTail_wo]

theorem ensure_wo (a : Acct) (c : Client) (n : Node) (g : Nat) (jids : List Acct) :
    ensureSessionsAndSend (s.wo o fl) a c n g jids = (ensureSessionsAndSend s a c n g jids).wo o fl := by
  unfold ensureSessionsAndSend
  dsimp only
  split
  · exact sgws_wo s o fl a c n g jids 0
  · rfl

theorem sendToGroup_wo (a : Acct) (c : Client) (n : Node) (g : Nat) (retry : Option (Acct × Nat)) :
    sendToGroup (s.wo o fl) a c n g retry = (sendToGroup s a c n g retry).wo o fl := by
  unfold sendToGroup
  split
  · rfl
  · split
    · exact sgws_wo s o fl a c n g [] 0
    · exact sgws_wo s o fl a c n g _ _

theorem processPlaintext_wo (a : Acct) (c : Client) (n : Node) (retry : Option (Acct × Nat)) :
    processPlaintext (s.wo o fl) a c n retry = (processPlaintext s a c n retry).wo o fl := by
  unfold processPlaintext
  split
  · exact sendToGroup_wo s o fl a c n _ retry
  · split
    · exact sendToContact_wo s o fl a c n _
    · rfl

theorem sendLayerSend_wo (a : Acct) (n : Node) : sendLayerSend (s.wo o fl) a n = (sendLayerSend s a n).wo o fl := by
  unfold sendLayerSend
  simp only [getClient_wo]
  by_cases h : (getClient s a).skipEnc.contains n.dest = true
  · simp only [h, if_true]; rfl
  · simp only [h]
    exact processPlaintext_wo s o fl a _ n none

theorem showAndReceipt_wo (r : Acct) (id : Nat) (peer : Dest) (part : Option Acct) (p : Payload) :
    showAndReceipt (s.wo o fl) r id peer part p = (showAndReceipt s r id peer part p).wo o fl := rfl

theorem surface_wo (r : Acct) (id : Nat) (peer : Dest) (part : Option Acct) (pl : Plain) :
    surface (s.wo o fl) r id peer part pl = (surface s r id peer part pl).wo o fl := by
  unfold surface
  split <;> rfl

theorem sendRetry_wo (r : Acct) (id : Nat) (peer : Dest) (part : Option Acct) :
    sendRetry (s.wo o fl) r id peer part = (sendRetry s r id peer part).wo o fl := rfl

theorem resetRetries_wo (r : Acct) (id : Nat) : resetRetries (s.wo o fl) r id = (resetRetries s r id).wo o fl := rfl

theorem storeSkdm_wo (r : Acct) (sender : Acct) (pl : Plain) :
    storeSkdm (s.wo o fl) r sender pl = (storeSkdm s r sender pl).wo o fl := by
  unfold storeSkdm
  split <;> rfl

theorem onDecryptFailure_wo (r : Acct) (st : Stanza) (id : Nat) (peer : Dest) (part : Option Acct) (sender : Acct) (d : Dec) :
    onDecryptFailure (s.wo o fl) r st id peer part sender d = (onDecryptFailure s r st id peer part sender d).wo o fl := by
  cases d <;> rfl

end

theorem stage2_wo (s : Sys) (o : List (Acct × List Stanza)) (fl : List (Nat × Acct)) (r : Acct) (st : Stanza) (id : Nat)
    (peer : Dest) (part : Option Acct) (sender : Acct) (encs : List (Option Acct × Ct)) :
    handleEnc.stage2 (s.wo o fl) r st id peer part sender encs = (handleEnc.stage2 s r st id peer part sender encs).wo o fl := by
  unfold handleEnc.stage2
  split
  · simp only [getClient_wo]
    split
    · rw [setClient_wo, surface_wo, resetRetries_wo]
    · rw [setClient_wo, sendRetry_wo, resetRetries_wo]
    · rw [setClient_wo, onDecryptFailure_wo]
  · rw [resetRetries_wo]

theorem handleEnc_wo (s : Sys) (o : List (Acct × List Stanza)) (fl : List (Nat × Acct)) (r : Acct) (st : Stanza) :
    handleEnc (s.wo o fl) r st = (handleEnc s r st).wo o fl := by
  cases st with
  | msg id peer part im encs pl =>
    rw [handleEnc_eq, handleEnc_eq]
    generalize heFirst encs = first
    cases first with
    | none => exact stage2_wo s o fl r _ id peer part _ encs
    | some ct =>
      simp only [heMain, getClient_wo]
      split
      · rw [setClient_wo, storeSkdm_wo, surface_wo, stage2_wo]
      · rw [setClient_wo, onDecryptFailure_wo]
  | _ => rfl

theorem foldl_handleEnc_wo (r : Acct) (l : List Stanza) : ∀ (s : Sys) (o : List (Acct × List Stanza)) (fl : List (Nat × Acct)),
    l.foldl (fun acc st => handleEnc acc r st) (s.wo o fl) = (l.foldl (fun acc st => handleEnc acc r st) s).wo o fl := by
  induction l with
  | nil => intro s o fl; rfl
  | cons st l ih => intro s o fl; rw [List.foldl_cons, List.foldl_cons, handleEnc_wo, ih]

theorem processPending_wo (s : Sys) (o : List (Acct × List Stanza)) (fl : List (Nat × Acct)) (r : Acct) (peer : Dest) (part : Option Acct) :
    processPending (s.wo o fl) r peer part = (processPending s r peer part).wo o fl := by
  unfold processPending
  simp only [getClient_wo, foldl_handleEnc_wo, setClient_wo]

theorem processKeys_wo (s : Sys) (o : List (Acct × List Stanza)) (fl : List (Nat × Acct)) (r : Acct) (asked got : List Acct) :
    processKeys (s.wo o fl) r asked got = ((processKeys s r asked got).1.wo o fl, (processKeys s r asked got).2) := by
  unfold processKeys
  suffices H : ∀ (l : List Acct) (acc : Sys × List Acct),
      l.foldl (fun (acc : Sys × List Acct) j =>
        if got.contains j then
          (setClient { acc.1 with nextSess := acc.1.nextSess + 1 } r (createSession (getClient acc.1 r) j acc.1.nextSess), acc.2 ++ [j])
        else (setClient acc.1 r { getClient acc.1 r with skipEnc := (getClient acc.1 r).skipEnc ++ [.user j] }, acc.2)) (acc.1.wo o fl, acc.2)
      = ((l.foldl (fun (acc : Sys × List Acct) j =>
        if got.contains j then
          (setClient { acc.1 with nextSess := acc.1.nextSess + 1 } r (createSession (getClient acc.1 r) j acc.1.nextSess), acc.2 ++ [j])
        else (setClient acc.1 r { getClient acc.1 r with skipEnc := (getClient acc.1 r).skipEnc ++ [.user j] }, acc.2)) acc).1.wo o fl,
         (l.foldl (fun (acc : Sys × List Acct) j =>
        if got.contains j then
          (setClient { acc.1 with nextSess := acc.1.nextSess + 1 } r (createSession (getClient acc.1 r) j acc.1.nextSess), acc.2 ++ [j])
        else (setClient acc.1 r { getClient acc.1 r with skipEnc := (getClient acc.1 r).skipEnc ++ [.user j] }, acc.2)) acc).2) from
    H asked (s, [])
  intro l
  induction l with
  | nil => intro acc; rfl
  | cons j l ih =>
    intro acc
    rw [List.foldl_cons, List.foldl_cons]
    by_cases hj : got.contains j = true
    · simp only [hj, if_true]
      exact ih (setClient { acc.1 with nextSess := acc.1.nextSess + 1 } r (createSession (getClient acc.1 r) j acc.1.nextSess), acc.2 ++ [j])
    · simp only [hj, if_false]
      exact ih (setClient acc.1 r { getClient acc.1 r with skipEnc := (getClient acc.1 r).skipEnc ++ [.user j] }, acc.2)

theorem onIqResult_wo (s : Sys) (o : List (Acct × List Stanza)) (fl : List (Nat × Acct)) (r : Acct) (iq : Nat) (got ms : List Acct) :
    onIqResult (s.wo o fl) r iq got ms = (onIqResult s r iq got ms).wo o fl := by
  unfold onIqResult
  simp only [getClient_wo]
  split
  · rfl
  · next k hk =>
    simp only [setClient_wo, processKeys_wo, getClient_wo, sendToContact_wo, processPlaintext_wo, processPending_wo, ensure_wo,
      sgws_wo]
    cases k with
    | keysForSend n =>
      dsimp only
      split
      · split <;> rfl
      · rfl
    | keysForRetry n who count =>
      dsimp only
      split <;> rfl
    | keysForPending peer part =>
      dsimp only
      repeat (first | rfl | split)
    | groupInfo n =>
      dsimp only
      split <;> rfl
    | keysForGroup n all l =>
      dsimp only
      split <;> rfl

theorem onReceipt_wo (s : Sys) (o : List (Acct × List Stanza)) (fl : List (Nat × Acct)) (r : Acct) (id : Nat) (peer : Dest)
    (part : Option Acct) (t : RType) : onReceipt (s.wo o fl) r id peer part t = (onReceipt s r id peer part t).wo o fl := by
  unfold onReceipt
  simp only [getClient_wo]
  split
  · rfl
  · cases t with
    | delivery => rfl
    | retry count => rfl

theorem clientReceive_wo (s : Sys) (o : List (Acct × List Stanza)) (fl : List (Nat × Acct)) (r : Acct) (st : Stanza) :
    clientReceive (s.wo o fl) r st = (clientReceive s r st).wo o fl := by
  cases st with
  | msg id peer part im encs pl =>
    simp only [clientReceive]
    split
    · rfl
    · exact handleEnc_wo s o fl r _
  | receipt id peer part t => exact onReceipt_wo s o fl r id peer part t
  | ack id cls => rfl
  | getKeys iq jids => rfl
  | getGroup iq g => rfl
  | keys iq got => exact onIqResult_wo s o fl r iq got []
  | groupInfo iq g ms => exact onIqResult_wo s o fl r iq [] ms

end Yow.E2E
