/-
  Lemmas about Model/Store.lean: a single-transaction skeleton is crash-atomic; each allowed shape of
  a store operation refines the abstract map (table × key ↦ value, flag).
-/
import YowsupVerif.Model.Store
namespace Yow.Store

/-! ### crash atomicity -/

def Dml (s : Sk) : Prop := s ≠ .begin ∧ s ≠ .commit

theorem exec_inTx_dml (args : List (Nat × Nat)) (db db' : Db) (s : Sk) (hs : Dml s)
    (hin : db.inTx = true) (he : exec args db s = some db') :
    db'.committed = db.committed ∧ db'.inTx = true := by
  obtain ⟨h1, h2⟩ := hs
  cases s with
  | «begin» => exact absurd rfl h1
  | commit => exact absurd rfl h2
  | del t a | ins t a | insRepl t a | updFlag t a | updVal t a =>
    simp only [exec, hin, if_true, Option.map_eq_some_iff] at he
    obtain ⟨w, _, rfl⟩ := he
    exact ⟨rfl, rfl⟩

theorem run_inTx_dml (args : List (Nat × Nat)) (l : List Sk) (hl : ∀ s ∈ l, Dml s) (db : Db)
    (hin : db.inTx = true) :
    (run args db l).committed = db.committed := by
  induction l generalizing db with
  | nil => rfl
  | cons s rest ih =>
    simp only [run]
    cases he : exec args db s with
    | none => rfl
    | some db' =>
      obtain ⟨hc, hi⟩ := exec_inTx_dml args db db' s (hl s (by simp)) hin he
      simp only []
      rw [ih (fun s hs => hl s (by simp [hs])) db' hi, hc]

theorem singleTx_shape (sk : List Sk) (h : SingleTx sk = true) :
    ∃ body, sk = .begin :: (body ++ [.commit]) ∧ ∀ s ∈ body, Dml s := by
  cases sk with
  | nil => simp [SingleTx] at h
  | cons s rest =>
    cases s <;> try (simp [SingleTx] at h; done)
    simp only [SingleTx] at h
    cases hr : rest.reverse with
    | nil => rw [hr] at h; simp at h
    | cons c bodyRev =>
      rw [hr] at h
      cases c <;> try (simp at h; done)
      simp only [List.all_eq_true, Bool.and_eq_true, bne_iff_ne] at h
      refine ⟨bodyRev.reverse, ?_, ?_⟩
      · have : rest = (Sk.commit :: bodyRev).reverse := by rw [← hr, List.reverse_reverse]
        rw [this]; simp
      · intro s hs
        exact h s (by simpa using hs)

theorem crash_singleTx_proper (sk : List Sk) (h : SingleTx sk = true) (args : List (Nat × Nat)) (db : Db)
    (hdb : db.inTx = false) (p : List Sk) (hp : p <+: sk) (hne : p ≠ sk) :
    (crash (run args db p)).committed = db.committed := by
  obtain ⟨body, rfl, hbody⟩ := singleTx_shape sk h
  show (run args db p).committed = db.committed
  cases p with
  | nil => rfl
  | cons s q =>
    rw [List.cons_prefix_cons] at hp
    obtain ⟨rfl, hq⟩ := hp
    have hq' : q <+: body := by
      rw [List.prefix_concat_iff] at hq
      rcases hq with hq | hq
      · exact absurd (by rw [hq]) hne
      · exact hq
    simp only [run, exec, hdb]
    rw [run_inTx_dml args q (fun s hs => hbody s (hq'.subset hs)) _ rfl]
    rfl

theorem crash_singleTx (sk : List Sk) (h : SingleTx sk = true) (args : List (Nat × Nat)) (db : Db)
    (hdb : db.inTx = false) (p : List Sk) (hp : p <+: sk) :
    (crash (run args db p)).committed = db.committed ∨
    (crash (run args db p)).committed = (run args db sk).committed := by
  by_cases hne : p = sk
  · subst hne; exact Or.inr rfl
  · exact Or.inl (crash_singleTx_proper sk h args db hdb p hp hne)

theorem allowed_singleTx (kd : Kind) (sk : List Sk) (h : sk ∈ allowed kd) : SingleTx sk = true := by
  cases kd <;> simp only [allowed, List.mem_cons, List.not_mem_nil, or_false] at h
  all_goals (repeat' (rcases h with h | h)) <;> simp [SingleTx]


/-! ### table-level facts -/

def lk (tb : Table) (k : Nat) : Option (Nat × Bool) :=
  (tb.find? (fun r => r.key == k)).map (fun r => (r.val, r.flag))

theorem lookup_eq (ts : List Table) (t k : Nat) : lookup ts t k = lk (tbl ts t) k := rfl

theorem tbl_set_self (ts : List Table) (t : Nat) (x : Table) (h : t < ts.length) :
    tbl (ts.set t x) t = x := by
  simp [tbl, h]

theorem tbl_set_ne (ts : List Table) (t t' : Nat) (x : Table) (h : t' ≠ t) :
    tbl (ts.set t x) t' = tbl ts t' := by
  simp [tbl, List.getD, List.getElem?_set_ne (Ne.symm h)]

theorem lk_filter_self (tb : Table) (k : Nat) : lk (tb.filter (fun r => r.key != k)) k = none := by
  simp [lk, List.find?_filter, List.find?_eq_none]

theorem lk_filter_ne (tb : Table) (k k' : Nat) (h : k' ≠ k) :
    lk (tb.filter (fun r => r.key != k)) k' = lk tb k' := by
  simp only [lk, List.find?_filter]
  congr 2
  funext r
  by_cases h' : r.key = k' <;> simp [h', h]

theorem lk_append_self (tb : Table) (k v : Nat) (f : Bool) (h : lk tb k = none) :
    lk (tb ++ [⟨k, v, f⟩]) k = some (v, f) := by
  simp only [lk, Option.map_eq_none_iff] at h
  simp [lk, List.find?_append, h]

theorem lk_append_ne (tb : Table) (k k' v : Nat) (f : Bool) (h : k' ≠ k) :
    lk (tb ++ [⟨k, v, f⟩]) k' = lk tb k' := by
  simp [lk, List.find?_append, Ne.symm h]

theorem hasKey_false_iff (tb : Table) (k : Nat) : hasKey tb k = false ↔ lk tb k = none := by
  simp [hasKey, lk, List.find?_eq_none]

theorem nodup_filter (tb : Table) (p : Row → Bool) (h : (tb.map Row.key).Nodup) :
    ((tb.filter p).map Row.key).Nodup :=
  List.Nodup.sublist (List.Sublist.map _ List.filter_sublist) h

theorem nodup_append_single (tb : Table) (k v : Nat) (f : Bool) (h : (tb.map Row.key).Nodup)
    (hk : lk tb k = none) : ((tb ++ [Row.mk k v f]).map Row.key).Nodup := by
  simp only [lk, Option.map_eq_none_iff, List.find?_eq_none] at hk
  simp only [List.map_append, List.map_cons, List.map_nil]
  rw [List.nodup_append]
  refine ⟨h, by simp, ?_⟩
  intro a ha b hb
  simp at hb ha
  obtain ⟨r, hr, rfl⟩ := ha
  subst hb
  have := hk r hr
  simpa using this

def setFlag (k : Nat) (r : Row) : Row := if r.key == k then { r with flag := true } else r

theorem setFlag_key (k : Nat) (r : Row) : (setFlag k r).key = r.key := by
  unfold setFlag; split <;> rfl

theorem map_setFlag_keys (tb : Table) (k : Nat) : (tb.map (setFlag k)).map Row.key = tb.map Row.key := by
  simp [List.map_map, Function.comp_def, setFlag_key]

theorem lk_map_setFlag (tb : Table) (k k' : Nat) :
    lk (tb.map (setFlag k)) k' = if k' = k then (lk tb k').map (fun x => (x.1, true)) else lk tb k' := by
  induction tb with
  | nil => simp [lk]
  | cons r rest ih =>
    simp only [lk, List.map_cons, List.find?_cons, setFlag_key] at ih ⊢
    by_cases h : r.key = k'
    · simp only [h, beq_self_eq_true]
      by_cases h2 : k' = k
      · simp [setFlag, h, h2]
      · simp [setFlag, h, h2]
    · have : (r.key == k') = false := by simpa using h
      simp only [this]
      exact ih

def setVal (k v : Nat) (r : Row) : Row := if r.key == k then { r with val := v } else r

theorem setVal_key (k v : Nat) (r : Row) : (setVal k v r).key = r.key := by
  unfold setVal; split <;> rfl

theorem map_setVal_keys (tb : Table) (k v : Nat) : (tb.map (setVal k v)).map Row.key = tb.map Row.key := by
  simp [List.map_map, Function.comp_def, setVal_key]

theorem lk_map_setVal (tb : Table) (k v k' : Nat) :
    lk (tb.map (setVal k v)) k' = if k' = k then (lk tb k').map (fun x => (v, x.2)) else lk tb k' := by
  induction tb with
  | nil => simp [lk]
  | cons r rest ih =>
    simp only [lk, List.map_cons, List.find?_cons, setVal_key] at ih ⊢
    by_cases h : r.key = k'
    · simp only [h, beq_self_eq_true]
      by_cases h2 : k' = k
      · simp [setVal, h, h2]
      · simp [setVal, h, h2]
    · have : (r.key == k') = false := by simpa using h
      simp only [this]
      exact ih

theorem lookup_set (ts : List Table) (t : Nat) (x : Table) (ht : t < ts.length) (t' k : Nat) :
    lookup (ts.set t x) t' k = if t' = t then lk x k else lookup ts t' k := by
  by_cases h : t' = t
  · subst h; simp [lookup_eq, tbl_set_self _ _ _ ht]
  · simp [lookup_eq, tbl_set_ne _ _ _ _ h, h]

theorem unique_set (ts : List Table) (t : Nat) (x : Table) (ht : t < ts.length)
    (hu : UniqueKeys ts) (hx : (x.map Row.key).Nodup) : UniqueKeys (ts.set t x) := by
  intro t'
  by_cases h : t' = t
  · subst h; rw [tbl_set_self _ _ _ ht]; exact hx
  · rw [tbl_set_ne _ _ _ _ h]; exact hu t'


theorem upsert_props (ts : List Table) (t k v : Nat) (ht : t < ts.length) (hu : UniqueKeys ts) :
    UniqueKeys (ts.set t ((tbl ts t).filter (fun r => r.key != k) ++ [Row.mk k v false])) ∧
    lookup (ts.set t ((tbl ts t).filter (fun r => r.key != k) ++ [Row.mk k v false])) t k
      = some (v, false) ∧
    (∀ t' k', (t', k') ≠ (t, k) →
      lookup (ts.set t ((tbl ts t).filter (fun r => r.key != k) ++ [Row.mk k v false])) t' k'
        = lookup ts t' k') := by
  refine ⟨?_, ?_, ?_⟩
  · exact unique_set ts t _ ht hu
      (nodup_append_single _ k v false (nodup_filter _ _ (hu t)) (lk_filter_self _ k))
  · rw [lookup_set _ _ _ ht, if_pos rfl]
    exact lk_append_self _ k v false (lk_filter_self _ k)
  · intro t' k' hne
    rw [lookup_set _ _ _ ht]
    split
    · rename_i h; subst h
      have hk : k' ≠ k := fun hk => hne (by rw [hk])
      rw [lk_append_ne _ _ _ _ _ hk, lk_filter_ne _ _ _ hk]; rfl
    · rfl

theorem run_insRepl (t k v : Nat) (db : Db) (hdb : db.inTx = false) :
    run [(k, v)] db [.begin, .insRepl t 0, .commit] =
      Db.mk (db.committed.set t ((tbl db.committed t).filter (fun r => r.key != k) ++ [Row.mk k v false]))
        (db.committed.set t ((tbl db.committed t).filter (fun r => r.key != k) ++ [Row.mk k v false])) false := by
  simp [run, exec, hdb, applyDml]

theorem run_delIns (t k v : Nat) (db : Db) (hdb : db.inTx = false) (ht : t < db.committed.length) :
    run [(k, v)] db [.begin, .del t 0, .ins t 0, .commit] =
      Db.mk (db.committed.set t ((tbl db.committed t).filter (fun r => r.key != k) ++ [Row.mk k v false]))
        (db.committed.set t ((tbl db.committed t).filter (fun r => r.key != k) ++ [Row.mk k v false])) false := by
  have hk : hasKey ((tbl db.committed t).filter (fun r => r.key != k)) k = false :=
    (hasKey_false_iff _ _).2 (lk_filter_self _ _)
  simp [run, exec, hdb, applyDml, tbl_set_self _ _ _ ht, hk, List.set_set]

theorem replace_effect (t k v : Nat) (sk : List Sk) (h : sk ∈ allowed (.replace t)) (db : Db)
    (hdb : db.inTx = false) (ht : t < db.committed.length) (hu : UniqueKeys db.committed) :
    let db' := run [(k, v)] db sk
    db'.inTx = false ∧ db'.committed.length = db.committed.length ∧ UniqueKeys db'.committed ∧
    lookup db'.committed t k = some (v, false) ∧
    (∀ t' k', (t', k') ≠ (t, k) → lookup db'.committed t' k' = lookup db.committed t' k') := by
  simp only [allowed, List.mem_cons, List.not_mem_nil, or_false] at h
  intro db'
  have hdb' : db' = Db.mk (db.committed.set t ((tbl db.committed t).filter (fun r => r.key != k) ++ [Row.mk k v false]))
        (db.committed.set t ((tbl db.committed t).filter (fun r => r.key != k) ++ [Row.mk k v false])) false := by
    rcases h with rfl | rfl
    · exact run_delIns t k v db hdb ht
    · exact run_insRepl t k v db hdb
  rw [hdb']
  exact ⟨rfl, by simp, upsert_props db.committed t k v ht hu⟩

theorem insertNew_effect (t k v : Nat) (sk : List Sk) (h : sk ∈ allowed (.insertNew t)) (db : Db)
    (hdb : db.inTx = false) (ht : t < db.committed.length) (hu : UniqueKeys db.committed) :
    let db' := run [(k, v)] db sk
    (lookup db.committed t k = none →
      db'.inTx = false ∧ db'.committed.length = db.committed.length ∧ UniqueKeys db'.committed ∧
      lookup db'.committed t k = some (v, false) ∧
      (∀ t' k', (t', k') ≠ (t, k) → lookup db'.committed t' k' = lookup db.committed t' k')) ∧
    (lookup db.committed t k ≠ none → db'.committed = db.committed) := by
  simp only [allowed, List.mem_cons, List.not_mem_nil, or_false] at h
  subst h
  intro db'
  refine ⟨?_, ?_⟩
  · intro hnone
    rw [lookup_eq] at hnone
    have hk : hasKey (tbl db.committed t) k = false := (hasKey_false_iff _ _).2 hnone
    have hdb' : db' = Db.mk (db.committed.set t (tbl db.committed t ++ [Row.mk k v false]))
        (db.committed.set t (tbl db.committed t ++ [Row.mk k v false])) false := by
      simp [db', run, exec, hdb, applyDml, hk]
    rw [hdb']
    refine ⟨rfl, by simp, ?_, ?_, ?_⟩
    · exact unique_set _ t _ ht hu (nodup_append_single _ k v false (hu t) hnone)
    · rw [lookup_set _ _ _ ht, if_pos rfl]
      exact lk_append_self _ k v false hnone
    · intro t' k' hne
      rw [lookup_set _ _ _ ht]
      split
      · rename_i h; subst h
        have hk : k' ≠ k := fun hk => hne (by rw [hk])
        rw [lk_append_ne _ _ _ _ _ hk]; rfl
      · rfl
  · intro hsome
    rw [lookup_eq] at hsome
    have hk : hasKey (tbl db.committed t) k = true := by
      cases hh : hasKey (tbl db.committed t) k with
      | true => rfl
      | false => exact absurd ((hasKey_false_iff _ _).1 hh) hsome
    simp [db', run, exec, hdb, applyDml, hk]

theorem remove_effect (t k v : Nat) (sk : List Sk) (h : sk ∈ allowed (.remove t)) (db : Db)
    (hdb : db.inTx = false) (ht : t < db.committed.length) (hu : UniqueKeys db.committed) :
    let db' := run [(k, v)] db sk
    db'.inTx = false ∧ db'.committed.length = db.committed.length ∧ UniqueKeys db'.committed ∧
    lookup db'.committed t k = none ∧
    (∀ t' k', (t', k') ≠ (t, k) → lookup db'.committed t' k' = lookup db.committed t' k') := by
  simp only [allowed, List.mem_cons, List.not_mem_nil, or_false] at h
  subst h
  intro db'
  have hdb' : db' = Db.mk (db.committed.set t ((tbl db.committed t).filter (fun r => r.key != k)))
        (db.committed.set t ((tbl db.committed t).filter (fun r => r.key != k))) false := by
    simp [db', run, exec, hdb, applyDml]
  rw [hdb']
  refine ⟨rfl, by simp, ?_, ?_, ?_⟩
  · exact unique_set _ t _ ht hu (nodup_filter _ _ (hu t))
  · rw [lookup_set _ _ _ ht, if_pos rfl]
    exact lk_filter_self _ k
  · intro t' k' hne
    rw [lookup_set _ _ _ ht]
    split
    · rename_i h; subst h
      have hk : k' ≠ k := fun hk => hne (by rw [hk])
      rw [lk_filter_ne _ _ _ hk]; rfl
    · rfl

/-- retire: the row with key `k` keeps its flag and gets value `v` (a missing key stays missing), every
    other record of every table is untouched, the key set is unchanged. -/
theorem retire_effect (t k v : Nat) (sk : List Sk) (h : sk ∈ allowed (.retire t)) (db : Db)
    (hdb : db.inTx = false) (ht : t < db.committed.length) (hu : UniqueKeys db.committed) :
    let db' := run [(k, v)] db sk
    db'.inTx = false ∧ db'.committed.length = db.committed.length ∧ UniqueKeys db'.committed ∧
    lookup db'.committed t k = (lookup db.committed t k).map (fun old => (v, old.2)) ∧
    (∀ t' k', (t', k') ≠ (t, k) → lookup db'.committed t' k' = lookup db.committed t' k') := by
  simp only [allowed, List.mem_cons, List.not_mem_nil, or_false] at h
  subst h
  intro db'
  have hdb' : db' = Db.mk (db.committed.set t ((tbl db.committed t).map (setVal k v)))
        (db.committed.set t ((tbl db.committed t).map (setVal k v))) false := by
    have hf : setVal k v = fun r => if r.key = k then { key := r.key, val := v, flag := r.flag } else r := by
      funext r; simp [setVal]
    simp [db', run, exec, hdb, applyDml, hf]
  rw [hdb']
  refine ⟨rfl, by simp, ?_, ?_, ?_⟩
  · exact unique_set _ t _ ht hu (by rw [map_setVal_keys]; exact hu t)
  · rw [lookup_set _ _ _ ht, if_pos rfl, lk_map_setVal, if_pos rfl, lookup_eq]
  · intro t' k' hne
    rw [lookup_set _ _ _ ht]
    split
    · rename_i h; subst h
      have hk : k' ≠ k := fun hk => hne (by rw [hk])
      rw [lk_map_setVal, if_neg hk]; rfl
    · rfl

theorem markSent_effect (t k0 k1 : Nat) (sk : List Sk) (h : sk ∈ allowed (.markSent t)) (db : Db)
    (hdb : db.inTx = false) (ht : t < db.committed.length) (hu : UniqueKeys db.committed) :
    let db' := run [(k0, 0), (k1, 0)] db sk
    db'.inTx = false ∧ db'.committed.length = db.committed.length ∧ UniqueKeys db'.committed ∧
    (∀ k, k = k0 ∨ k = k1 → lookup db'.committed t k = (lookup db.committed t k).map (fun x => (x.1, true))) ∧
    (∀ t' k', (t' ≠ t ∨ (k' ≠ k0 ∧ k' ≠ k1)) → lookup db'.committed t' k' = lookup db.committed t' k') := by
  simp only [allowed, List.mem_cons, List.not_mem_nil, or_false] at h
  subst h
  intro db'
  have hdb' : db' = Db.mk (db.committed.set t (((tbl db.committed t).map (setFlag k0)).map (setFlag k1)))
        (db.committed.set t (((tbl db.committed t).map (setFlag k0)).map (setFlag k1))) false := by
    simp [db', run, exec, hdb, applyDml, tbl_set_self _ _ _ ht, List.set_set, setFlag, Function.comp_def]
  rw [hdb']
  refine ⟨rfl, by simp, ?_, ?_, ?_⟩
  · exact unique_set _ t _ ht hu (by rw [map_setFlag_keys, map_setFlag_keys]; exact hu t)
  · intro k hk
    rw [lookup_set _ _ _ ht, if_pos rfl, lk_map_setFlag, lk_map_setFlag, lookup_eq]
    generalize lk (tbl db.committed t) k = o
    by_cases h1 : k = k1 <;> by_cases h0 : k = k0
    · rw [if_pos h1, if_pos h0]; cases o <;> rfl
    · rw [if_pos h1, if_neg h0]
    · rw [if_neg h1, if_pos h0]
    · rcases hk with hk | hk <;> contradiction
  · intro t' k' hne
    rw [lookup_set _ _ _ ht]
    split
    · rename_i h; subst h
      rcases hne with hne | ⟨h0, h1⟩
      · exact absurd rfl hne
      · rw [lk_map_setFlag, lk_map_setFlag, if_neg h1, if_neg h0]; rfl
    · rfl

theorem empty_unique : UniqueKeys empty.committed := by
  intro t
  rcases t with _|_|_|_|_|t <;> simp [tbl, empty]

end Yow.Store
