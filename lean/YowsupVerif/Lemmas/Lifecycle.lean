import YowsupVerif.Model.Lifecycle
namespace Yow.Life

/-- Structural invariant: only the network layer's current dispatcher can be open, and exactly while the
    layer is connecting or connected; `connected` mirrors the state; an established dispatcher is open. -/
def Inv (s : St) : Prop :=
  (∀ (d : Nat) (dp : Disp), s.disps[d]? = some dp → dp.open_ = true → s.cur = some d ∧ (s.nstate = .connecting ∨ s.nstate = .connected)) ∧
  (∀ (d : Nat) (dp : Disp), s.disps[d]? = some dp → dp.established = true → dp.open_ = true ∧ s.nstate = .connected) ∧
  (s.connected = true ↔ s.nstate = .connected) ∧
  (s.nstate = .connected → ∃ (d : Nat) (dp : Disp), s.cur = some d ∧ s.disps[d]? = some dp ∧ dp.established = true) ∧
  (s.nstate = .connecting → ∃ (d : Nat) (dp : Disp), s.cur = some d ∧ s.disps[d]? = some dp ∧ dp.open_ = true ∧ dp.established = false) ∧
  s.nstate ≠ .disconnecting ∧
  (∀ d, s.cur = some d → d < s.disps.length)

theorem inv_init (r p c : Bool) : Inv { reconnectOpt := r, passive := p, control := c } := by
  simp [Inv]

theorem Inv.frame {s t : St} (h : Inv s) (h1 : t.nstate = s.nstate) (h2 : t.connected = s.connected)
    (h3 : t.cur = s.cur) (h4 : t.disps = s.disps) : Inv t := by
  unfold Inv at *; rw [h1, h2, h3, h4]; exact h

/-- the current open dispatcher, when the layer is not disconnected -/
theorem Inv.cur_open {s : St} (h : Inv s) (hn : s.nstate ≠ .disconnected) :
    ∃ d dp, s.cur = some d ∧ s.disps[d]? = some dp ∧ dp.open_ = true ∧ (s.nstate = .connecting ∨ s.nstate = .connected) := by
  obtain ⟨h1, h2, h3, h4, h5, h6, h7⟩ := h
  cases hs : s.nstate with
  | disconnected => exact absurd hs hn
  | disconnecting => exact absurd hs h6
  | connecting =>
    obtain ⟨d, dp, a, b, c, _⟩ := h5 hs
    exact ⟨d, dp, a, b, c, Or.inl rfl⟩
  | connected =>
    obtain ⟨d, dp, a, b, c⟩ := h4 hs
    exact ⟨d, dp, a, b, (h2 d dp b c).1, Or.inr rfl⟩

theorem Inv.cur_est {s : St} (h : Inv s) (hn : s.nstate = .connected) :
    ∃ d dp, s.cur = some d ∧ s.disps[d]? = some dp ∧ dp.established = true ∧ dp.open_ = true ∧ s.connected = true := by
  obtain ⟨h1, h2, h3, h4, h5, h6, h7⟩ := h
  obtain ⟨d, dp, a, b, c⟩ := h4 hn
  exact ⟨d, dp, a, b, c, (h2 d dp b c).1, h3.2 hn⟩

/-- closing the current dispatcher and going to `disconnected` re-establishes the invariant -/
theorem Inv.close {s t : St} (h : Inv s) {d : Nat} (hc : s.cur = some d)
    (h1 : t.nstate = .disconnected) (h2 : t.connected = false) (h3 : t.cur = s.cur)
    (h4 : t.disps = setDisp s.disps d { open_ := false, established := false }) : Inv t := by
  obtain ⟨i1, i2, i3, i4, i5, i6, i7⟩ := h
  have key : ∀ (d' : Nat) (dp : Disp), t.disps[d']? = some dp → dp.open_ = false := by
    intro d' dp hd
    rw [h4, setDisp] at hd
    by_cases e : d = d'
    · subst e
      rw [List.getElem?_set_self (i7 d hc)] at hd
      cases hd; rfl
    · rw [List.getElem?_set_ne e] at hd
      cases ho : dp.open_ with
      | false => rfl
      | true =>
        have := (i1 d' dp hd ho).1
        rw [hc] at this; cases this; exact absurd rfl e
  have key2 : ∀ (d' : Nat) (dp : Disp), t.disps[d']? = some dp → dp.established = false := by
    intro d' dp hd
    have ho := key d' dp hd
    rw [h4, setDisp] at hd
    by_cases e : d = d'
    · subst e
      rw [List.getElem?_set_self (i7 d hc)] at hd
      cases hd; rfl
    · rw [List.getElem?_set_ne e] at hd
      cases he : dp.established with
      | false => rfl
      | true =>
        have := (i2 d' dp hd he).1
        rw [ho] at this; cases this
  refine ⟨?_, ?_, ?_, ?_, ?_, ?_, ?_⟩
  · intro d' dp hd ho; rw [key d' dp hd] at ho; cases ho
  · intro d' dp hd ho; rw [key2 d' dp hd] at ho; cases ho
  · rw [h1, h2]; simp
  · rw [h1]; intro x; cases x
  · rw [h1]; intro x; cases x
  · rw [h1]; intro x; cases x
  · intro d' hd; rw [h3] at hd; rw [h4, setDisp, List.length_set]; exact i7 d' hd

theorem destroy_eq {s : St} (h : Inv s) (hn : s.nstate ≠ .disconnected) :
    ∃ d dp, s.cur = some d ∧ s.disps[d]? = some dp ∧ dp.open_ = true ∧
      (s.nstate = .connecting ∨ s.nstate = .connected) ∧
      destroyConnection s = ({ s with nstate := .disconnected, connected := false, pendingDown := s.pendingDown + 1, disps := setDisp s.disps d { open_ := false, established := false } }, [.closed d, .downNear]) := by
  obtain ⟨d, dp, a, b, c, e⟩ := h.cur_open hn
  refine ⟨d, dp, a, b, c, e, ?_⟩
  simp [destroyConnection, hn, a, b, c, onDisconnected]

theorem destroy_cases {s : St} (h : Inv s) :
    (s.nstate = .disconnected ∧ destroyConnection s = (s, [])) ∨
    (∃ d dp, s.cur = some d ∧ s.disps[d]? = some dp ∧ dp.open_ = true ∧
      (s.nstate = .connecting ∨ s.nstate = .connected) ∧
      destroyConnection s = ({ s with nstate := .disconnected, connected := false, pendingDown := s.pendingDown + 1, disps := setDisp s.disps d { open_ := false, established := false } }, [.closed d, .downNear])) := by
  by_cases hn : s.nstate = .disconnected
  · left; exact ⟨hn, by simp [destroyConnection, hn]⟩
  · right; exact destroy_eq h hn

theorem disconnectEvent_cases {s : St} (h : Inv s) :
    (s.nstate = .disconnected ∧ disconnectEvent s = ({ s with pingThread := false, outstanding := 0 }, [])) ∨
    (∃ d dp, s.cur = some d ∧ s.disps[d]? = some dp ∧ dp.open_ = true ∧
      (s.nstate = .connecting ∨ s.nstate = .connected) ∧
      disconnectEvent s = ({ s with pingThread := false, outstanding := 0, nstate := .disconnected, connected := false, pendingDown := s.pendingDown + 1, disps := setDisp s.disps d { open_ := false, established := false } }, [.closed d, .downNear])) := by
  by_cases hn : s.nstate = .disconnected
  · left; simp [disconnectEvent, destroyConnection, hn]
  · right
    have h' : Inv { s with pingThread := false, outstanding := 0 } := h.frame rfl rfl rfl rfl
    obtain ⟨d, dp, a, b, c, e, f⟩ := destroy_eq h' hn
    exact ⟨d, dp, a, b, c, e, by rw [disconnectEvent, f]⟩

theorem handleClose_cases {s : St} (h : Inv s) (d : Nat) :
    handleClose s d = (s, []) ∨
    (∃ dp, s.cur = some d ∧ s.disps[d]? = some dp ∧ dp.open_ = true ∧
      (s.nstate = .connecting ∨ s.nstate = .connected) ∧
      handleClose s d = ({ s with nstate := .disconnected, connected := false, pendingDown := s.pendingDown + 1, disps := setDisp s.disps d { open_ := false, established := false } }, [.closed d, .downNear])) := by
  cases hd : s.disps[d]? with
  | none => left; simp [handleClose, hd]
  | some dp =>
    cases ho : dp.open_ with
    | false => left; simp [handleClose, hd, ho]
    | true =>
      right
      obtain ⟨a, b⟩ := h.1 d dp hd ho
      refine ⟨dp, a, rfl, ho, b, ?_⟩
      have : s.nstate ≠ .disconnected := by rcases b with b | b <;> simp [b]
      simp [handleClose, hd, ho, onDisconnected, this]

theorem createConnection_cases {s : St} (h : Inv s) :
    ((s.nstate = .connecting ∨ s.nstate = .connected) ∧ createConnection s = (s, [])) ∨
    (s.nstate = .disconnected ∧ s.connected = false ∧ 
      createConnection s = ({ s with cur := some s.disps.length, disps := s.disps ++ [{ open_ := true, established := false }], nstate := .connecting }, [.created s.disps.length])) := by
  by_cases hn : s.nstate = .connecting ∨ s.nstate = .connected
  · left; exact ⟨hn, by simp [createConnection, hn]⟩
  · right
    have hd : s.nstate = .disconnected := by
      have := h.2.2.2.2.2.1
      cases hs : s.nstate <;> simp_all
    refine ⟨hd, ?_, by simp [createConnection, hn]⟩
    have := h.2.2.1
    cases hc : s.connected <;> simp_all

theorem createConnection_inv {s : St} (h : Inv s) : Inv (createConnection s).1 := by
  rcases createConnection_cases h with ⟨_, e⟩ | ⟨hdis, hc, e⟩
  · rw [e]; exact h
  · rw [e]
    obtain ⟨i1, i2, i3, i4, i5, i6, i7⟩ := h
    have old : ∀ (d : Nat) (dp : Disp), (s.disps ++ [({ open_ := true, established := false } : Disp)])[d]? = some dp →
        d < s.disps.length → dp.open_ = false ∧ dp.established = false := by
      intro d dp hd hl
      rw [List.getElem?_append_left hl] at hd
      have o : dp.open_ = false := by
        cases ho : dp.open_ with
        | false => rfl
        | true => have := (i1 d dp hd ho).2; simp [hdis] at this
      refine ⟨o, ?_⟩
      cases he : dp.established with
      | false => rfl
      | true => have := (i2 d dp hd he).1; simp [o] at this
    have new : ∀ (d : Nat) (dp : Disp), (s.disps ++ [({ open_ := true, established := false } : Disp)])[d]? = some dp →
        ¬ d < s.disps.length → d = s.disps.length ∧ dp = { open_ := true, established := false } := by
      intro d dp hd hl
      have hlt : d < (s.disps ++ [({ open_ := true, established := false } : Disp)]).length := by
        rcases List.getElem?_eq_some_iff.1 hd with ⟨w, _⟩; exact w
      simp at hlt
      have : d = s.disps.length := by omega
      subst this
      simp at hd
      exact ⟨rfl, hd.symm⟩
    refine ⟨?_, ?_, ?_, ?_, ?_, ?_, ?_⟩
    · intro d dp hd ho
      by_cases hl : d < s.disps.length
      · have := (old d dp hd hl).1; simp [ho] at this
      · obtain ⟨a, _⟩ := new d dp hd hl
        simp [a]
    · intro d dp hd he
      by_cases hl : d < s.disps.length
      · have := (old d dp hd hl).2; simp [he] at this
      · obtain ⟨_, b⟩ := new d dp hd hl
        subst b; simp at he
    · simp [hc]
    · simp
    · simp
    · simp
    · simp

theorem createConnection_connected {s : St} (h : Inv s) : (createConnection s).1.connected = s.connected := by
  rcases createConnection_cases h with ⟨_, e⟩ | ⟨_, _, e⟩ <;> rw [e]

def Quiet (o : Out) : Prop := o = .downAll ∨ ∃ i, o = .created i

theorem createConnection_out {s : St} (h : Inv s) : ∀ o ∈ (createConnection s).2, Quiet o := by
  rcases createConnection_cases h with ⟨_, e⟩ | ⟨_, _, e⟩ <;> rw [e] <;> simp [Quiet]

/-- the control layer's part of one queued 'disconnected': its own reboot -/
def rebootPart (s1 : St) : St × List Out :=
  if s1.rebootFlag then createConnection { s1 with rebootFlag := false, passive := false } else (s1, [])

theorem rebootPart_props {s : St} (h : Inv s) :
    Inv (rebootPart s).1 ∧ (rebootPart s).1.connected = s.connected ∧ ∀ o ∈ (rebootPart s).2, Quiet o := by
  unfold rebootPart
  split
  · have h' : Inv { s with rebootFlag := false, passive := false } := h.frame rfl rfl rfl rfl
    exact ⟨createConnection_inv h', createConnection_connected h', createConnection_out h'⟩
  · exact ⟨h, rfl, by simp⟩

theorem loopOne_eq {s : St} (hp : s.pendingDown ≠ 0) :
    loopOne s =
      (if (rebootPart { s with pendingDown := s.pendingDown - 1, noiseFresh := true, pingThread := false, outstanding := 0 }).1.reconnectFlag then
        ((createConnection { (rebootPart { s with pendingDown := s.pendingDown - 1, noiseFresh := true, pingThread := false, outstanding := 0 }).1 with reconnectFlag := false }).1,
         .downAll :: ((rebootPart { s with pendingDown := s.pendingDown - 1, noiseFresh := true, pingThread := false, outstanding := 0 }).2 ++
           (createConnection { (rebootPart { s with pendingDown := s.pendingDown - 1, noiseFresh := true, pingThread := false, outstanding := 0 }).1 with reconnectFlag := false }).2))
      else ((rebootPart { s with pendingDown := s.pendingDown - 1, noiseFresh := true, pingThread := false, outstanding := 0 }).1,
         .downAll :: (rebootPart { s with pendingDown := s.pendingDown - 1, noiseFresh := true, pingThread := false, outstanding := 0 }).2)) := by
  simp only [loopOne, hp, if_false, rebootPart]

theorem loopOne_props {s : St} (h : Inv s) :
    Inv (loopOne s).1 ∧ (loopOne s).1.connected = s.connected ∧ ∀ o ∈ (loopOne s).2, Quiet o := by
  by_cases hp : s.pendingDown = 0
  · simp [loopOne, hp, h]
  · rw [loopOne_eq hp]
    have h1 : Inv { s with pendingDown := s.pendingDown - 1, noiseFresh := true, pingThread := false, outstanding := 0 } :=
      h.frame rfl rfl rfl rfl
    obtain ⟨a, b, c⟩ := rebootPart_props h1
    generalize rebootPart { s with pendingDown := s.pendingDown - 1, noiseFresh := true, pingThread := false, outstanding := 0 } = rb at a b c
    have b : rb.1.connected = s.connected := b
    split
    · have h' : Inv { rb.1 with reconnectFlag := false } := a.frame rfl rfl rfl rfl
      refine ⟨createConnection_inv h', (createConnection_connected h').trans b, ?_⟩
      intro o ho
      rcases List.mem_cons.1 ho with e | e
      · exact Or.inl e
      · rcases List.mem_append.1 e with e | e
        · exact c o e
        · exact createConnection_out h' o e
    · refine ⟨a, b, ?_⟩
      intro o ho
      rcases List.mem_cons.1 ho with e | e
      · exact Or.inl e
      · exact c o e

theorem drain_props (n : Nat) : ∀ {s : St}, Inv s →
    Inv (drain s n).1 ∧ (drain s n).1.connected = s.connected ∧ ∀ o ∈ (drain s n).2, Quiet o := by
  induction n with
  | zero => intro s h; simp [drain, h]
  | succ n ih =>
    intro s h
    obtain ⟨a, b, c⟩ := loopOne_props h
    obtain ⟨a', b', c'⟩ := ih a
    simp only [drain]
    refine ⟨a', b'.trans b, ?_⟩
    intro o ho
    rcases List.mem_append.1 ho with e | e
    · exact c o e
    · exact c' o e

theorem Inv.establish {s t : St} (h : Inv s) {d : Nat} {dp : Disp} (hc : s.cur = some d)
    (ho : dp.open_ = true)
    (h1 : t.nstate = .connected) (h2 : t.connected = true) (h3 : t.cur = s.cur)
    (h4 : t.disps = setDisp s.disps d { dp with established := true }) : Inv t := by
  obtain ⟨i1, i2, i3, i4, i5, i6, i7⟩ := h
  have hl := i7 d hc
  refine ⟨?_, ?_, ?_, ?_, ?_, ?_, ?_⟩
  · intro d' dp' hd' ho'
    refine ⟨?_, Or.inr h1⟩
    rw [h4, setDisp] at hd'
    by_cases e : d = d'
    · subst e; rw [h3]; exact hc
    · rw [List.getElem?_set_ne e] at hd'
      rw [h3]; exact (i1 d' dp' hd' ho').1
  · intro d' dp' hd' he'
    refine ⟨?_, h1⟩
    rw [h4, setDisp] at hd'
    by_cases e : d = d'
    · subst e
      rw [List.getElem?_set_self hl] at hd'
      cases hd'; exact ho
    · rw [List.getElem?_set_ne e] at hd'
      exact (i2 d' dp' hd' he').1
  · simp [h1, h2]
  · intro _
    refine ⟨d, { dp with established := true }, h3.trans hc, ?_, rfl⟩
    rw [h4, setDisp, List.getElem?_set_self hl]
  · rw [h1]; intro x; cases x
  · rw [h1]; intro x; cases x
  · intro d' hd'; rw [h3] at hd'; rw [h4, setDisp, List.length_set]; exact i7 d' hd'

theorem dConnected_cases {s : St} (h : Inv s) (d : Nat) :
    step s (.dConnected d) = (s, []) ∨
    (∃ dp, s.cur = some d ∧ s.disps[d]? = some dp ∧ dp.open_ = true ∧ dp.established = false ∧
      s.nstate = .connecting ∧ s.connected = false ∧
      step s (.dConnected d) = ({ s with disps := setDisp s.disps d { dp with established := true }, nstate := .connected, connected := true, reconnectFlag := false, noiseFresh := false }, [.up, .authAttempt s.passive])) := by
  cases hd : s.disps[d]? with
  | none => left; simp [step, hd]
  | some dp =>
    cases ho : dp.open_ with
    | false => left; simp [step, hd, ho]
    | true =>
      cases he : dp.established with
      | true => left; simp [step, hd, ho, he]
      | false =>
        right
        obtain ⟨a, b⟩ := h.1 d dp hd ho
        have hn : s.nstate = .connecting := by
          rcases b with b | b
          · exact b
          · obtain ⟨d', dp', a', b', c', _⟩ := h.cur_est b
            rw [a] at a'; cases a'
            rw [hd] at b'; cases b'
            rw [he] at c'; cases c'
        have hcn : s.connected = false := by
          have := h.2.2.1
          cases hc : s.connected with
          | false => rfl
          | true => rw [hc, hn] at this; simp at this
        exact ⟨dp, a, rfl, ho, he, hn, hcn, by simp [step, hd, ho, he]⟩

theorem inv_step (s : St) (h : Inv s) (i : In) : Inv (step s i).1 := by
  cases i with
  | connectReq => exact createConnection_inv (s := { s with }) h
  | connectEvt =>
    simp only [step]
    split
    · exact createConnection_inv h
    · exact h
  | dConnected d =>
    rcases dConnected_cases h d with e | ⟨dp, a, b, c, _, _, _, e⟩
    · rw [e]; exact h
    · rw [e]; exact h.establish a c rfl rfl rfl rfl
  | dClosed d =>
    simp only [step]
    rcases handleClose_cases h d with e | ⟨dp, a, b, c, _, e⟩
    · rw [e]; exact h
    · rw [e]; exact h.close a rfl rfl rfl rfl
  | disconnectReq =>
    simp only [step]
    rcases disconnectEvent_cases h with ⟨_, e⟩ | ⟨d, dp, a, b, c, _, e⟩
    · rw [e]; exact h.frame rfl rfl rfl rfl
    · rw [e]; exact h.close a rfl rfl rfl rfl
  | success => exact h.frame rfl rfl rfl rfl
  | failure =>
    simp only [step]
    rcases disconnectEvent_cases h with ⟨_, e⟩ | ⟨d, dp, a, b, c, _, e⟩
    · rw [e]; exact h.frame rfl rfl rfl rfl
    · rw [e]; exact h.close a rfl rfl rfl rfl
  | streamError k =>
    simp only [step]
    split
    · exact h
    · have h' : Inv { s with reconnectFlag := if s.reconnectOpt && k ≠ .conflict then true else s.reconnectFlag } :=
        h.frame rfl rfl rfl rfl
      rcases disconnectEvent_cases h' with ⟨_, e⟩ | ⟨d, dp, a, b, c, _, e⟩
      · rw [e]; exact h.frame rfl rfl rfl rfl
      · rw [e]; exact h.close a rfl rfl rfl rfl
  | pingTick =>
    simp only [step]
    split
    · exact h
    · split
      · have h' : Inv { s with outstanding := s.outstanding + 1 } := h.frame rfl rfl rfl rfl
        rcases disconnectEvent_cases h' with ⟨_, e⟩ | ⟨d, dp, a, b, c, _, e⟩
        · rw [e]; exact h.frame rfl rfl rfl rfl
        · rw [e]; exact h.close a rfl rfl rfl rfl
      · split
        · split <;> exact h.frame rfl rfl rfl rfl
        · exact h.frame rfl rfl rfl rfl
  | pong fresh =>
    simp only [step]
    split
    · exact h.frame rfl rfl rfl rfl
    · exact h
  | pongRaises =>
    simp only [step]
    exact h.frame rfl rfl rfl rfl
  | setReconnect b =>
    simp only [step]
    exact h.frame rfl rfl rfl rfl
  | keysFlushed =>
    simp only [step]
    split
    · have h' : Inv { s with rebootFlag := true } := h.frame rfl rfl rfl rfl
      rcases destroy_cases h' with ⟨_, e⟩ | ⟨d, dp, a, b, c, _, e⟩
      · rw [e]; exact h'
      · rw [e]; exact h.close a rfl rfl rfl rfl
    · exact h
  | loop => exact (drain_props _ h).1
  | appSend =>
    simp only [step]
    split
    · split <;> exact h
    · exact h

theorem inv_run (s : St) (h : Inv s) (is : List In) : Inv (run s is).1 := by
  induction is generalizing s with
  | nil => exact h
  | cons i is ih => exact ih _ (inv_step s h i)

/-- the conclusion of `announcements` for a step result `r` from state `s` -/
def Ann (s : St) (r : St × List Out) : Prop :=
    (r.2.count .up ≤ 1) ∧ (r.2.count .downNear ≤ 1) ∧
    (r.2.count .up = 1 ↔ (s.connected = false ∧ r.1.connected = true)) ∧
    (r.2.count .up = (r.2.filter (fun o => match o with | .authAttempt _ => true | _ => false)).length) ∧
    (r.2.count .downNear = 1 → (s.nstate = .connecting ∨ s.nstate = .connected)) ∧
    (s.connected = true → r.1.connected = false → r.2.count .downNear = 1)

/-- outputs that are neither `up`, `downNear` nor a login attempt -/
def Silent (o : Out) : Prop := o ≠ .up ∧ o ≠ .downNear ∧ ∀ p, o ≠ .authAttempt p

theorem Quiet.silent {o : Out} (h : Quiet o) : Silent o := by
  rcases h with rfl | ⟨i, rfl⟩ <;> simp [Silent]

theorem ann_silent (s : St) (r : St × List Out) (hc : r.1.connected = s.connected)
    (ho : ∀ o ∈ r.2, Silent o) : Ann s r := by
  have hu : r.2.count .up = 0 := List.count_eq_zero.2 (fun hm => (ho _ hm).1 rfl)
  have hdn : r.2.count .downNear = 0 := List.count_eq_zero.2 (fun hm => (ho _ hm).2.1 rfl)
  have hf : (r.2.filter (fun o => match o with | .authAttempt _ => true | _ => false)) = [] := by
    apply List.filter_eq_nil_iff.2
    intro o hm
    have := (ho o hm).2.2
    cases o <;> simp at this ⊢
  refine ⟨by omega, by omega, ?_, ?_, ?_, ?_⟩
  · rw [hu, hc]; constructor
    · intro x; cases x
    · rintro ⟨a, b⟩; rw [a] at b; cases b
  · rw [hu, hf]; rfl
  · rw [hdn]; intro x; cases x
  · intro a b; rw [hc, a] at b; cases b

theorem ann_closed (s : St) (r : St × List Out) (pre : List Out) (d : Nat) (hpre : ∀ o ∈ pre, Silent o)
    (hn : s.nstate = .connecting ∨ s.nstate = .connected) (hc : r.1.connected = false)
    (ho : r.2 = pre ++ [.closed d, .downNear]) : Ann s r := by
  have hu : pre.count .up = 0 := List.count_eq_zero.2 (fun hm => (hpre _ hm).1 rfl)
  have hdn : pre.count .downNear = 0 := List.count_eq_zero.2 (fun hm => (hpre _ hm).2.1 rfl)
  have hf : (pre.filter (fun o => match o with | .authAttempt _ => true | _ => false)) = [] := by
    apply List.filter_eq_nil_iff.2
    intro o hm
    have := (hpre o hm).2.2
    cases o <;> simp at this ⊢
  unfold Ann
  rw [ho, hc]
  simp [List.count_append, hu, hdn, hf, hn]

/-- a result built from `disconnectEvent` with a silent prefix satisfies the announcement laws -/
theorem ann_disconnectEvent (s s' : St) (h' : Inv s') (hn : s'.nstate = s.nstate) (hc : s'.connected = s.connected)
    (pre : List Out) (hpre : ∀ o ∈ pre, Silent o) :
    Ann s ((disconnectEvent s').1, pre ++ (disconnectEvent s').2) := by
  rcases disconnectEvent_cases h' with ⟨_, e⟩ | ⟨d, dp, a, b, c, n, e⟩
  · rw [e]
    apply ann_silent
    · exact hc
    · simpa using hpre
  · rw [e]
    exact ann_closed s _ pre d hpre (hn ▸ n) rfl rfl

theorem ann_destroy (s s' : St) (h' : Inv s') (hn : s'.nstate = s.nstate) (hc : s'.connected = s.connected) :
    Ann s (destroyConnection s') := by
  rcases destroy_cases h' with ⟨_, e⟩ | ⟨d, dp, a, b, c, n, e⟩
  · rw [e]
    exact ann_silent s _ hc (by simp)
  · rw [e]
    exact ann_closed s _ [] d (by simp) (hn ▸ n) rfl rfl

/-- 'connected' is announced exactly when the layer goes from not-connected to connected, at most once per
    event, together with exactly one login attempt; 'disconnected' is announced at most once per event, only
    when a connection was up or being established, and always when an up connection goes down. -/
theorem announcements (s : St) (h : Inv s) (i : In) :
    let r := step s i
    (r.2.count .up ≤ 1) ∧ (r.2.count .downNear ≤ 1) ∧
    (r.2.count .up = 1 ↔ (s.connected = false ∧ r.1.connected = true)) ∧
    (r.2.count .up = (r.2.filter (fun o => match o with | .authAttempt _ => true | _ => false)).length) ∧
    (r.2.count .downNear = 1 → (s.nstate = .connecting ∨ s.nstate = .connected)) ∧
    (s.connected = true → r.1.connected = false → r.2.count .downNear = 1) := by
  show Ann s (step s i)
  cases i with
  | connectReq =>
    exact ann_silent s (createConnection s) (createConnection_connected h)
      (fun o ho => (createConnection_out h o ho).silent)
  | connectEvt =>
    simp only [step]
    split
    · exact ann_silent s (createConnection s) (createConnection_connected h)
        (fun o ho => (createConnection_out h o ho).silent)
    · exact ann_silent s _ rfl (by simp)
  | dConnected d =>
    rcases dConnected_cases h d with e | ⟨dp, a, b, c, _, _, hc, e⟩
    · rw [e]; exact ann_silent s _ rfl (by simp)
    · rw [e]; simp [Ann, hc]
  | dClosed d =>
    simp only [step]
    rcases handleClose_cases h d with e | ⟨dp, a, b, c, n, e⟩
    · rw [e]; exact ann_silent s _ rfl (by simp)
    · rw [e]; exact ann_closed s _ [] d (by simp) n rfl rfl
  | disconnectReq =>
    exact ann_disconnectEvent s s h rfl rfl [] (by simp)
  | success => exact ann_silent s _ rfl (by simp [step, Silent])
  | failure =>
    exact ann_disconnectEvent s s h rfl rfl [.entityFailure] (by simp [Silent])
  | streamError k =>
    simp only [step]
    split
    · exact ann_silent s _ rfl (by simp [Silent])
    · exact ann_disconnectEvent s { s with reconnectFlag := if s.reconnectOpt && k ≠ .conflict then true else s.reconnectFlag } (h.frame rfl rfl rfl rfl) rfl rfl [.entityStreamError k] (by simp [Silent])
  | pingTick =>
    simp only [step]
    split
    · exact ann_silent s _ rfl (by simp)
    · split
      · exact ann_disconnectEvent s { s with outstanding := s.outstanding + 1 } (h.frame rfl rfl rfl rfl) rfl rfl [] (by simp)
      · split
        · split
          · split <;> exact ann_silent s _ rfl (by simp [Silent])
          · exact ann_silent s _ rfl (by simp [Silent])
        · exact ann_silent s _ rfl (by simp [Silent])
  | pong fresh =>
    simp only [step]
    split <;> exact ann_silent s _ rfl (by simp)
  | pongRaises =>
    simp only [step]
    exact ann_silent s _ rfl (by simp [Silent])
  | setReconnect b =>
    simp only [step]
    exact ann_silent s _ rfl (by simp)
  | keysFlushed =>
    simp only [step]
    split
    · exact ann_destroy s { s with rebootFlag := true } (h.frame rfl rfl rfl rfl) rfl rfl
    · exact ann_silent s _ rfl (by simp)
  | loop =>
    obtain ⟨_, b, c⟩ := drain_props s.pendingDown h
    exact ann_silent s _ b (fun o ho => (c o ho).silent)
  | appSend =>
    simp only [step]
    split
    · split
      · split <;> exact ann_silent s _ rfl (by simp [Silent])
      · exact ann_silent s _ rfl (by simp [Silent])
    · exact ann_silent s _ rfl (by simp [Silent])

theorem Quiet.not_written {o : Out} (h : Quiet o) (d : Nat) : o ≠ .written d := by
  rcases h with rfl | ⟨i, rfl⟩ <;> simp

theorem disconnectEvent_not_written {s : St} (h : Inv s) (d : Nat) : Out.written d ∉ (disconnectEvent s).2 := by
  rcases disconnectEvent_cases h with ⟨_, e⟩ | ⟨d', dp, _, _, _, _, e⟩ <;> rw [e] <;> simp

/-- nothing is ever written to a connection that is down: a write goes to the current, established
    dispatcher while the layer is connected -/
theorem no_write_when_down (s : St) (h : Inv s) (i : In) (d : Nat) (hw : Out.written d ∈ (step s i).2) :
    s.connected = true ∧ s.cur = some d ∧ ∃ dp : Disp, s.disps[d]? = some dp ∧ dp.established = true ∧ dp.open_ = true := by
  cases i with
  | connectReq => exact absurd rfl ((createConnection_out h _ hw).not_written d)
  | connectEvt =>
    simp only [step] at hw
    split at hw
    · exact absurd rfl ((createConnection_out h _ hw).not_written d)
    · simp at hw
  | dConnected d' =>
    rcases dConnected_cases h d' with e | ⟨dp, _, _, _, _, _, _, e⟩ <;> rw [e] at hw <;> simp at hw
  | dClosed d' =>
    simp only [step] at hw
    rcases handleClose_cases h d' with e | ⟨dp, _, _, _, _, e⟩ <;> rw [e] at hw <;> simp at hw
  | disconnectReq => exact absurd hw (disconnectEvent_not_written h d)
  | success => simp [step] at hw
  | failure =>
    simp only [step, List.mem_cons, reduceCtorEq, false_or] at hw
    exact absurd hw (disconnectEvent_not_written h d)
  | streamError k =>
    simp only [step] at hw
    split at hw
    · simp at hw
    · simp only [List.mem_cons, reduceCtorEq, false_or] at hw
      refine absurd hw (disconnectEvent_not_written ?_ d)
      exact h.frame rfl rfl rfl rfl
  | pingTick =>
    simp only [step] at hw
    split at hw
    · simp at hw
    · split at hw
      · refine absurd hw (disconnectEvent_not_written ?_ d)
        exact h.frame rfl rfl rfl rfl
      · split at hw
        · rename_i d' hcur hconn
          split at hw
          · rename_i dp hd
            cases he : dp.established with
            | false => simp [he] at hw
            | true =>
              simp [he] at hw
              subst hw
              exact ⟨hconn, hcur, dp, hd, he, (h.2.1 d dp hd he).1⟩
          · simp at hw
        · simp at hw
  | pong fresh =>
    simp only [step] at hw
    split at hw <;> simp at hw
  | pongRaises =>
    simp only [step] at hw
    simp at hw
  | setReconnect b =>
    simp only [step] at hw
    simp at hw
  | keysFlushed =>
    simp only [step] at hw
    split at hw
    · have h' : Inv { s with rebootFlag := true } := h.frame rfl rfl rfl rfl
      rcases destroy_cases h' with ⟨_, e⟩ | ⟨d', dp, _, _, _, _, e⟩ <;> rw [e] at hw <;> simp at hw
    · simp at hw
  | loop => exact absurd rfl (((drain_props s.pendingDown h).2.2 _ hw).not_written d)
  | appSend =>
    simp only [step] at hw
    split at hw
    · rename_i d' hcur hconn
      split at hw
      · rename_i dp hd
        cases he : dp.established with
        | false => simp [he] at hw
        | true =>
          simp [he] at hw
          subst hw
          exact ⟨hconn, hcur, dp, hd, he, (h.2.1 d dp hd he).1⟩
      · simp at hw
    · simp at hw

/-- a login failure is delivered and the connection closed -/
theorem failure_closes (s : St) (h : Inv s) (hc : s.nstate = .connected) :
    ∃ d, s.cur = some d ∧ (step s .failure).2 = [.entityFailure, .closed d, .downNear] ∧
      (step s .failure).1.connected = false := by
  rcases disconnectEvent_cases h with ⟨e, _⟩ | ⟨d, dp, a, _, _, _, e⟩
  · rw [hc] at e; cases e
  · exact ⟨d, a, by simp [step, e], by simp [step, e]⟩

/-- a stream error is delivered and the connection closed; the reconnect flag is set unless it is a
    conflict or the option is off -/
theorem stream_error_closes (s : St) (h : Inv s) (hc : s.nstate = .connected) (k : ErrKind) (hr : s.unknownErrRaises = false) :
    ∃ d, s.cur = some d ∧ (step s (.streamError k)).2 = [.entityStreamError k, .closed d, .downNear] ∧
      (step s (.streamError k)).1.connected = false ∧
      (step s (.streamError k)).1.reconnectFlag = (if s.reconnectOpt && k != .conflict then true else s.reconnectFlag) := by
  have h' : Inv { s with reconnectFlag := if s.reconnectOpt && k ≠ .conflict then true else s.reconnectFlag } :=
    h.frame rfl rfl rfl rfl
  rcases disconnectEvent_cases h' with ⟨e, _⟩ | ⟨d, dp, a, _, _, _, e⟩
  · have e : s.nstate = .disconnected := e
    rw [hc] at e; cases e
  · refine ⟨d, a, ?_⟩
    simp only [step]
    split
    · rename_i hh; simp [hr] at hh
    · rw [e]
      refine ⟨rfl, rfl, ?_⟩
      cases k <;> cases s.reconnectOpt <;> simp

/-- … and when the stack's loop then delivers the deferred 'disconnected', exactly one reconnect is started
    iff the option is on and the error was not a conflict; the transport state is fresh again -/
theorem reconnect_policy (s : St) (h : Inv s) (hc : s.nstate = .connected) (k : ErrKind) (hr : s.unknownErrRaises = false)
    (hp : s.pendingDown = 0) (hf : s.reconnectFlag = false) (hb : s.rebootFlag = false) :
    let s2 := (step (step s (.streamError k)).1 .loop)
    s2.2 = (if s.reconnectOpt && k != .conflict then [.downAll, .created s.disps.length] else [.downAll]) ∧
    s2.1.noiseFresh = true ∧ s2.1.pingThread = false := by
  have h' : Inv { s with reconnectFlag := if s.reconnectOpt && k ≠ .conflict then true else s.reconnectFlag } :=
    h.frame rfl rfl rfl rfl
  rcases disconnectEvent_cases h' with ⟨e, _⟩ | ⟨d, dp, a, _, _, _, e⟩
  · have e : s.nstate = .disconnected := e
    rw [hc] at e; cases e
  · have hs : (step s (.streamError k)).1 = (disconnectEvent { s with reconnectFlag := if s.reconnectOpt && k ≠ .conflict then true else s.reconnectFlag }).1 := by
      simp only [step]
      split
      · rename_i hh; simp [hr] at hh
      · rfl
    rw [e] at hs
    intro s2
    simp only [s2, hs]
    cases k <;> cases hro : s.reconnectOpt <;>
      simp [step, drain, loopOne, hp, hf, hb, createConnection, setDisp]

/-- keep-alive: a tick with every earlier ping answered sends a ping and closes nothing … -/
theorem ping_answered_never_closes (s : St) (h : Inv s) (ht : s.pingThread = true) (ho : s.outstanding = 0) :
    (∀ d, Out.closed d ∉ (step s .pingTick).2) ∧ (step s .pingTick).1.outstanding = 1 ∧
    (step (step s .pingTick).1 (.pong true)).1.outstanding = 0 ∧ (step s .pingTick).1.pingThread = true := by
  have _ := h
  simp only [step, ht, ho]
  simp only [Bool.not_true, Bool.false_eq_true, if_false, Nat.zero_add, show ¬ (2 ≤ 1) by omega]
  split
  · split
    · split <;> simp
    · simp
  · simp

/-- … a tick while a ping is still unanswered closes the connection (if one is up or being established)
    and stops the thread -/
theorem ping_unanswered_closes (s : St) (h : Inv s) (ht : s.pingThread = true) (ho : 1 ≤ s.outstanding)
    (hc : s.nstate = .connected) :
    ∃ d, s.cur = some d ∧ (step s .pingTick).2 = [.closed d, .downNear] ∧ (step s .pingTick).1.pingThread = false := by
  have h' : Inv { s with outstanding := s.outstanding + 1 } := h.frame rfl rfl rfl rfl
  rcases disconnectEvent_cases h' with ⟨e, _⟩ | ⟨d, dp, a, _, _, _, e⟩
  · have e : s.nstate = .disconnected := e
    rw [hc] at e; cases e
  · refine ⟨d, a, ?_⟩
    have h2 : 2 ≤ s.outstanding + 1 := by omega
    simp only [step]
    split
    · rename_i hh; simp [ht] at hh
    · rw [e]
      exact ⟨rfl, rfl⟩

/-! `unknownErrRaises` is a configuration field: no transition changes it. -/

theorem createConnection_unknownErrRaises (s : St) :
    (createConnection s).1.unknownErrRaises = s.unknownErrRaises := by
  unfold createConnection
  split <;> rfl

theorem onDisconnected_unknownErrRaises (s : St) :
    (onDisconnected s).1.unknownErrRaises = s.unknownErrRaises := by
  unfold onDisconnected
  split <;> rfl

theorem handleClose_unknownErrRaises (s : St) (d : Nat) :
    (handleClose s d).1.unknownErrRaises = s.unknownErrRaises := by
  unfold handleClose
  split
  · rfl
  · split
    · rfl
    · exact onDisconnected_unknownErrRaises _

theorem destroyConnection_unknownErrRaises (s : St) :
    (destroyConnection s).1.unknownErrRaises = s.unknownErrRaises := by
  unfold destroyConnection
  split
  · rfl
  · split
    · rfl
    · dsimp only
      split
      · rfl
      · exact onDisconnected_unknownErrRaises _

theorem disconnectEvent_unknownErrRaises (s : St) :
    (disconnectEvent s).1.unknownErrRaises = s.unknownErrRaises := by
  unfold disconnectEvent
  exact destroyConnection_unknownErrRaises _

theorem loopOne_unknownErrRaises (s : St) :
    (loopOne s).1.unknownErrRaises = s.unknownErrRaises := by
  by_cases hp : s.pendingDown = 0
  · simp [loopOne, hp]
  · rw [loopOne_eq hp]
    have hrb : ∀ t : St, (rebootPart t).1.unknownErrRaises = t.unknownErrRaises := by
      intro t
      unfold rebootPart
      split
      · exact createConnection_unknownErrRaises _
      · rfl
    split
    · exact (createConnection_unknownErrRaises _).trans (hrb _)
    · exact hrb _

theorem drain_unknownErrRaises (n : Nat) : ∀ (s : St),
    (drain s n).1.unknownErrRaises = s.unknownErrRaises := by
  induction n with
  | zero => intro s; rfl
  | succ n ih =>
    intro s
    simp only [drain]
    exact (ih _).trans (loopOne_unknownErrRaises s)

theorem step_unknownErrRaises (s : St) (i : In) : (step s i).1.unknownErrRaises = s.unknownErrRaises := by
  cases i with
  | connectReq => exact createConnection_unknownErrRaises { s with }
  | connectEvt =>
    simp only [step]
    split
    · exact createConnection_unknownErrRaises s
    · rfl
  | dConnected d =>
    simp only [step]
    split
    · rfl
    · split <;> rfl
  | dClosed d => exact handleClose_unknownErrRaises s d
  | disconnectReq => exact disconnectEvent_unknownErrRaises s
  | success => rfl
  | failure => exact disconnectEvent_unknownErrRaises s
  | streamError k =>
    simp only [step]
    split
    · rfl
    · exact disconnectEvent_unknownErrRaises _
  | pingTick =>
    simp only [step]
    split
    · rfl
    · split
      · exact disconnectEvent_unknownErrRaises _
      · split
        · split <;> rfl
        · rfl
  | pong fresh =>
    simp only [step]
    split <;> rfl
  | pongRaises => rfl
  | setReconnect b => rfl
  | keysFlushed =>
    simp only [step]
    split
    · exact destroyConnection_unknownErrRaises _
    · rfl
  | loop => exact drain_unknownErrRaises s.pendingDown s
  | appSend =>
    simp only [step]
    split
    · split <;> rfl
    · rfl

theorem run_unknownErrRaises (s : St) (is : List In) : (run s is).1.unknownErrRaises = s.unknownErrRaises := by
  induction is generalizing s with
  | nil => rfl
  | cons i is ih => exact (ih _).trans (step_unknownErrRaises s i)

/-! The control layer: `control` is a configuration field; `rebootFlag` is set only by `.keysFlushed` (with the control
    layer) and cleared by the loop. -/

/-- `t` has the control configuration and the reboot flag of `s`, and no fewer queued 'disconnected' continuations -/
def Keep (s t : St) : Prop :=
  t.control = s.control ∧ t.rebootFlag = s.rebootFlag ∧ s.pendingDown ≤ t.pendingDown

theorem Keep.refl (s : St) : Keep s s := ⟨rfl, rfl, Nat.le_refl _⟩

theorem Keep.trans {s t u : St} (h1 : Keep s t) (h2 : Keep t u) : Keep s u :=
  ⟨h2.1.trans h1.1, h2.2.1.trans h1.2.1, Nat.le_trans h1.2.2 h2.2.2⟩

theorem createConnection_keep (s : St) : Keep s (createConnection s).1 := by
  unfold createConnection
  split
  · exact Keep.refl s
  · exact ⟨rfl, rfl, Nat.le_refl _⟩

theorem onDisconnected_keep (s : St) : Keep s (onDisconnected s).1 := by
  unfold onDisconnected
  split
  · exact ⟨rfl, rfl, Nat.le_succ _⟩
  · exact Keep.refl s

theorem handleClose_keep (s : St) (d : Nat) : Keep s (handleClose s d).1 := by
  unfold handleClose
  split
  · exact Keep.refl s
  · split
    · exact Keep.refl s
    · exact Keep.trans (s := s) (t := { s with disps := setDisp s.disps d { open_ := false, established := false } })
        ⟨rfl, rfl, Nat.le_refl _⟩ (onDisconnected_keep _)

theorem destroyConnection_keep (s : St) : Keep s (destroyConnection s).1 := by
  unfold destroyConnection
  split
  · exact Keep.refl s
  · split
    · exact Keep.refl s
    · dsimp only
      split
      · exact ⟨rfl, rfl, Nat.le_refl _⟩
      · refine Keep.trans ?_ (onDisconnected_keep _)
        exact ⟨rfl, rfl, Nat.le_refl _⟩

theorem disconnectEvent_keep (s : St) : Keep s (disconnectEvent s).1 := by
  unfold disconnectEvent
  exact Keep.trans (s := s) (t := { s with pingThread := false, outstanding := 0 }) ⟨rfl, rfl, Nat.le_refl _⟩
    (destroyConnection_keep _)

/-- every event other than `.keysFlushed` and `.loop` keeps the control configuration, the reboot flag and the queue -/
theorem step_keep (s : St) (i : In) (hk : i ≠ .keysFlushed) (hl : i ≠ .loop) : Keep s (step s i).1 := by
  cases i with
  | connectReq => exact createConnection_keep { s with }
  | connectEvt =>
    simp only [step]
    split
    · exact createConnection_keep s
    · exact Keep.refl s
  | dConnected d =>
    simp only [step]
    split
    · exact Keep.refl s
    · split
      · exact Keep.refl s
      · exact ⟨rfl, rfl, Nat.le_refl _⟩
  | dClosed d => exact handleClose_keep s d
  | disconnectReq => exact disconnectEvent_keep s
  | success => exact ⟨rfl, rfl, Nat.le_refl _⟩
  | failure => exact disconnectEvent_keep s
  | streamError k =>
    simp only [step]
    split
    · exact Keep.refl s
    · exact Keep.trans (s := s)
        (t := { s with reconnectFlag := if s.reconnectOpt && k ≠ .conflict then true else s.reconnectFlag })
        ⟨rfl, rfl, Nat.le_refl _⟩ (disconnectEvent_keep _)
  | pingTick =>
    simp only [step]
    split
    · exact Keep.refl s
    · split
      · exact Keep.trans (s := s) (t := { s with outstanding := s.outstanding + 1 })
          ⟨rfl, rfl, Nat.le_refl _⟩ (disconnectEvent_keep _)
      · split
        · split <;> exact ⟨rfl, rfl, Nat.le_refl _⟩
        · exact ⟨rfl, rfl, Nat.le_refl _⟩
  | pong fresh =>
    simp only [step]
    split
    · exact ⟨rfl, rfl, Nat.le_refl _⟩
    · exact Keep.refl s
  | pongRaises =>
    simp only [step]
    exact ⟨rfl, rfl, Nat.le_refl _⟩
  | setReconnect b =>
    simp only [step]
    exact ⟨rfl, rfl, Nat.le_refl _⟩
  | keysFlushed => exact absurd rfl hk
  | loop => exact absurd rfl hl
  | appSend =>
    simp only [step]
    split
    · split <;> exact Keep.refl s
    · exact Keep.refl s

theorem rebootPart_flag (s : St) : (rebootPart s).1.control = s.control ∧ (rebootPart s).1.rebootFlag = false := by
  unfold rebootPart
  split
  · have := createConnection_keep { s with rebootFlag := false, passive := false }
    exact ⟨this.1, this.2.1⟩
  · rename_i hb
    exact ⟨rfl, by simpa using hb⟩

/-- one queued 'disconnected' consumed: the control configuration stays and the reboot flag is cleared -/
theorem loopOne_flag {s : St} (hp : s.pendingDown ≠ 0) :
    (loopOne s).1.control = s.control ∧ (loopOne s).1.rebootFlag = false := by
  rw [loopOne_eq hp]
  obtain ⟨a, b⟩ := rebootPart_flag
    { s with pendingDown := s.pendingDown - 1, noiseFresh := true, pingThread := false, outstanding := 0 }
  generalize rebootPart { s with pendingDown := s.pendingDown - 1, noiseFresh := true, pingThread := false, outstanding := 0 } = rb at a b
  have a : rb.1.control = s.control := a
  split
  · have := createConnection_keep { rb.1 with reconnectFlag := false }
    exact ⟨this.1.trans a, this.2.1.trans b⟩
  · exact ⟨a, b⟩

/-- the loop never sets the reboot flag and never changes the control configuration -/
theorem loopOne_noset (s : St) :
    (loopOne s).1.control = s.control ∧ (s.rebootFlag = false → (loopOne s).1.rebootFlag = false) := by
  by_cases hp : s.pendingDown = 0
  · simp [loopOne, hp]
  · exact ⟨(loopOne_flag hp).1, fun _ => (loopOne_flag hp).2⟩

theorem drain_noset (n : Nat) : ∀ (s : St),
    (drain s n).1.control = s.control ∧ (s.rebootFlag = false → (drain s n).1.rebootFlag = false) := by
  induction n with
  | zero => intro s; exact ⟨rfl, id⟩
  | succ n ih =>
    intro s
    simp only [drain]
    obtain ⟨a, b⟩ := loopOne_noset s
    obtain ⟨a', b'⟩ := ih (loopOne s).1
    exact ⟨a'.trans a, fun h => b' (b h)⟩

/-- `control` is a configuration field: no transition changes it -/
theorem step_control (s : St) (i : In) : (step s i).1.control = s.control := by
  by_cases hk : i = .keysFlushed
  · subst hk
    simp only [step]
    split
    · exact (destroyConnection_keep { s with rebootFlag := true }).1
    · rfl
  · by_cases hl : i = .loop
    · subst hl
      exact (drain_noset s.pendingDown s).1
    · exact (step_keep s i hk hl).1

theorem run_control_eq (s : St) (is : List In) : (run s is).1.control = s.control := by
  induction is generalizing s with
  | nil => rfl
  | cons i is ih => exact (ih _).trans (step_control s i)

theorem run_control (s0 : St) (is : List In) (h : s0.control = true) : (run s0 is).1.control = true :=
  (run_control_eq s0 is).trans h

/-- without the control layer no transition sets the reboot flag -/
theorem step_no_control (s : St) (i : In) (hc : s.control = false) (hb : s.rebootFlag = false) :
    (step s i).1.rebootFlag = false := by
  by_cases hk : i = .keysFlushed
  · subst hk
    simp [step, hc, hb]
  · by_cases hl : i = .loop
    · subst hl
      exact (drain_noset s.pendingDown s).2 hb
    · exact (step_keep s i hk hl).2.1.trans hb

theorem run_no_control (s : St) (is : List In) (hc : s.control = false) (hb : s.rebootFlag = false) :
    (run s is).1.rebootFlag = false := by
  induction is generalizing s with
  | nil => exact hb
  | cons i is ih => exact ih _ ((step_control s i).trans hc) (step_no_control s i hc hb)

theorem no_control_no_reboot (r p : Bool) (is : List In) :
    (run { reconnectOpt := r, passive := p, control := false } is).1.rebootFlag = false :=
  run_no_control _ is rfl rfl

/-- a set reboot flag has its deferred 'disconnected' still queued -/
def Pend (s : St) : Prop := s.rebootFlag = true → 1 ≤ s.pendingDown

/-- a run of the loop clears the reboot flag -/
theorem loop_clears (s : St) (hj : Pend s) : (step s .loop).1.rebootFlag = false := by
  show (drain s s.pendingDown).1.rebootFlag = false
  cases hpd : s.pendingDown with
  | zero =>
    show s.rebootFlag = false
    cases hb : s.rebootFlag with
    | false => rfl
    | true => have := hj hb; omega
  | succ n =>
    simp only [drain]
    have hp : s.pendingDown ≠ 0 := by omega
    exact (drain_noset n _).2 (loopOne_flag hp).2

theorem pend_step (s : St) (hinv : Inv s) (i : In) (ha : Allowed s i = true) (hj : Pend s) : Pend (step s i).1 := by
  by_cases hk : i = .keysFlushed
  · subst hk
    simp only [Allowed, Bool.and_eq_true, beq_iff_eq] at ha
    obtain ⟨⟨hc, hctl⟩, _⟩ := ha
    have h' : Inv { s with rebootFlag := true } := hinv.frame rfl rfl rfl rfl
    have hs : step s .keysFlushed = destroyConnection { s with rebootFlag := true } := by simp [step, hctl]
    rcases destroy_cases h' with ⟨e, _⟩ | ⟨d, dp, _, _, _, _, e⟩
    · have e : s.nstate = .disconnected := e
      rw [hc] at e; cases e
    · rw [hs, e]
      intro _
      exact Nat.le_add_left 1 _
  · by_cases hl : i = .loop
    · subst hl
      intro hb
      rw [loop_clears s hj] at hb; cases hb
    · obtain ⟨_, b, c⟩ := step_keep s i hk hl
      intro hb
      rw [b] at hb
      exact Nat.le_trans (hj hb) c

theorem pend_run (s : St) (hinv : Inv s) (is : List In) (ha : AllowedRun s is = true) (hj : Pend s) :
    Pend (run s is).1 := by
  induction is generalizing s with
  | nil => exact hj
  | cons i is ih =>
    simp only [AllowedRun, Bool.and_eq_true] at ha
    exact ih _ (inv_step s hinv i) ha.2 (pend_step s hinv i ha.1 hj)

/-- in every allowed history a set reboot flag has its deferred 'disconnected' still queued, and the next run of the loop
    clears it -/
theorem reboot_flag_transient (r p c : Bool) (is : List In)
    (ha : AllowedRun { reconnectOpt := r, passive := p, control := c } is = true) :
    let s := (run { reconnectOpt := r, passive := p, control := c } is).1
    (s.rebootFlag = true → 1 ≤ s.pendingDown) ∧ (step s .loop).1.rebootFlag = false := by
  intro s
  have hj : Pend s := pend_run _ (inv_init r p c) is ha (by intro h; cases h)
  exact ⟨hj, loop_clears s hj⟩

/-- the control layer's reboot: the confirmed key upload closes the connection, and when the loop delivers the deferred
    'disconnected' exactly one new connection is started, non-passive, with the flag cleared -/
theorem control_reboot (s : St) (hinv : Inv s) (hctl : s.control = true) (hc : s.nstate = .connected)
    (hp : s.pendingDown = 0) (hf : s.reconnectFlag = false) (hb : s.rebootFlag = false) :
    let o1 := step s .keysFlushed
    let o2 := step o1.1 .loop
    (∃ d, s.cur = some d ∧ o1.2 = [.closed d, .downNear]) ∧ o2.2 = [.downAll, .created s.disps.length] ∧
    o2.1.rebootFlag = false ∧ o2.1.passive = false ∧ o2.1.nstate = .connecting := by
  have _ := hb
  have h' : Inv { s with rebootFlag := true } := hinv.frame rfl rfl rfl rfl
  have hn : ({ s with rebootFlag := true } : St).nstate ≠ .disconnected := by
    show s.nstate ≠ .disconnected
    rw [hc]; intro x; cases x
  obtain ⟨d, dp, a, _, _, _, e⟩ := destroy_eq h' hn
  have hs : step s .keysFlushed = destroyConnection { s with rebootFlag := true } := by simp [step, hctl]
  intro o1 o2
  simp only [o2, o1, hs, e]
  refine ⟨⟨d, a, rfl⟩, ?_⟩
  simp [step, drain, loopOne, hp, hf, createConnection, setDisp]

/-! ### the keep-alive's memory ends when the 'disconnected' announcement is delivered -/

theorem createConnection_keepalive (s : St) :
    (createConnection s).1.outstanding = s.outstanding ∧ (createConnection s).1.pingThread = s.pingThread ∧
    (createConnection s).1.pendingDown = s.pendingDown := by
  unfold createConnection; split <;> simp

theorem loopOne_keepalive (s : St) (h : 0 < s.pendingDown) :
    (loopOne s).1.outstanding = 0 ∧ (loopOne s).1.pingThread = false ∧ (loopOne s).1.pendingDown = s.pendingDown - 1 ∧
    Out.downAll ∈ (loopOne s).2 := by
  unfold loopOne
  have hne : ¬ s.pendingDown = 0 := by omega
  simp only [hne, if_false]
  split <;> split <;> simp_all [createConnection_keepalive]

theorem drain_keepalive (n : Nat) : ∀ (s : St), n ≤ s.pendingDown → 0 < n →
    (drain s n).1.outstanding = 0 ∧ (drain s n).1.pingThread = false ∧ Out.downAll ∈ (drain s n).2 := by
  induction n with
  | zero => intro s _ h; omega
  | succ k ih =>
    intro s hle _
    have h1 := loopOne_keepalive s (by omega)
    unfold drain
    by_cases hk : k = 0
    · subst hk
      simp [drain, h1.1, h1.2.1, h1.2.2.2]
    · have := ih (loopOne s).1 (by rw [h1.2.2.1]; omega) (by omega)
      simp [this.1, this.2.1, this.2.2]

/-! ### answered keep-alive rounds, with or without a raising application callback -/

theorem pong_answers (t : St) (raises : Bool) :
    (step t (if raises then .pongRaises else .pong true)).1.pingThread = t.pingThread ∧
    (step t (if raises then .pongRaises else .pong true)).1.outstanding = 0 ∧
    (∀ d, Out.closed d ∉ (step t (if raises then .pongRaises else .pong true)).2) := by
  cases raises <;> simp [step]

theorem answered_rounds_never_close (rs : List Bool) : ∀ (s : St), Inv s → s.pingThread = true → s.outstanding = 0 →
    (∀ d, Out.closed d ∉ (run s (answeredRounds rs)).2) ∧ (run s (answeredRounds rs)).1.outstanding = 0 ∧
    (run s (answeredRounds rs)).1.pingThread = true := by
  induction rs with
  | nil => intro s _ ht ho; simp [answeredRounds, run, ht, ho]
  | cons r rs ih =>
    intro s h ht ho
    have h1 := ping_answered_never_closes s h ht ho
    have h2 := pong_answers (step s .pingTick).1 r
    rw [h1.2.2.2] at h2
    have hi : Inv (step (step s .pingTick).1 (if r then .pongRaises else .pong true)).1 := inv_step _ (inv_step _ h _) _
    have := ih _ hi h2.1 h2.2.1
    simp only [answeredRounds, run]
    refine ⟨?_, this.2.1, this.2.2⟩
    intro d hd
    simp only [List.mem_append] at hd
    rcases hd with hd | hd | hd
    · exact h1.1 d hd
    · exact h2.2.2 d hd
    · exact this.1 d hd

end Yow.Life
