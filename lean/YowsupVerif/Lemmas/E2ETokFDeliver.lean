/-
  Exactly-once with server faults, part 5: deliveries in the flattened state - an ordinary delivery, a duplicated one (the
  copy left behind is dead), a damaged one, and the later delivery of a dead copy (acknowledged again).
-/
import YowsupVerif.Lemmas.E2ETokFSim
import YowsupVerif.Lemmas.E2ETokFHeC
namespace Yow.E2E

section
variable {ex : Bool} {accts : List Acct} {groups : List (Nat × List Acct)}

/-- as `sim_flat`, with a queue `P z` of which the physical queue may keep dead extras -/
theorem sim_flat' {L : List (Acct × Node)} {s s' : Sys} {o2 : List (Acct × List Stanza)} {f2 : List (Nat × Acct)}
    (hT2 : TV ex accts groups L (view (s'.wo o2 f2))) (hin : ∀ z st, st ∈ queueOf o2 z → z ∈ accts) (hg : Grow s s')
    (P : Acct → List Stanza) (hq : ∀ z, queueOf o2 z = liveQ (getClient s z) (P z))
    (hP : ∀ z, liveQ (getClient s' z) (queueOf s'.outbound z) = liveQ (getClient s' z) (P z)) :
    TV ex accts groups L (view (flat s')) := by
  rw [view_flat_eq (o2 := o2) (f2 := f2)]
  · exact hT2
  · intro z
    rw [hP z, hq z]
    refine (liveQ_eq (hg z) ?_).symm
    intro st hst
    rw [← hq z] at hst
    exact live_of_unop hT2 (hin z st hst) (show st ∈ (view (s'.wo o2 f2)).outb z from hst)

/-- what was live before the step and stays queued is live after it -/
theorem sim_keeps_live {L : List (Acct × Node)} {s s' : Sys} {o2 : List (Acct × List Stanza)} {f2 : List (Nat × Acct)}
    (hT2 : TV ex accts groups L (view (s'.wo o2 f2))) (hin : ∀ z st, st ∈ queueOf o2 z → z ∈ accts)
    (P : Acct → List Stanza) (hq : ∀ z, queueOf o2 z = liveQ (getClient s z) (P z)) :
    ∀ z st, st ∈ P z → dead (getClient s z) st = false → dead (getClient s' z) st = false := by
  intro z st hst hd
  have hm : st ∈ queueOf o2 z := by
    rw [hq z]; unfold liveQ; exact List.mem_filter.mpr ⟨hst, by simp [hd]⟩
  exact live_of_unop hT2 (hin z st hm) (show st ∈ (view (s'.wo o2 f2)).outb z from hm)

theorem liveQ_cons_live {c : Client} {st : Stanza} (h : dead c st = false) (rest : List Stanza) :
    liveQ c (st :: rest) = st :: liveQ c rest := by
  unfold liveQ; rw [List.filter_cons]; simp [h]

theorem liveQ_cons_dead {c : Client} {st : Stanza} (h : dead c st = true) (rest : List Stanza) :
    liveQ c (st :: rest) = liveQ c rest := by
  unfold liveQ; rw [List.filter_cons]; simp [h]

/-- the queues after the head of `y`'s queue was taken, flattened -/
theorem queue_after_pop (s : Sys) (y : Acct) (rest : List Stanza) (z : Acct) :
    queueOf (insert (flat s).outbound y (liveQ (getClient s y) rest)) z
      = liveQ (getClient s z) (queueOf (insert s.outbound y rest) z) := by
  rw [queueOf_insert, queueOf_insert]
  split
  · next e => rw [e]
  · exact queueOf_flat s z

theorem clientReceive_submitted {s : Sys} {y : Acct} {st : Stanza} (hA : AInv accts groups (abs s)) (hy : y ∈ accts)
    (hd : DownOK accts groups s.submitted y st) (hl : LinkOK ((abs s).cl y) st) : (clientReceive s y st).submitted = s.submitted :=
  (clientReceive_good hA hy hd hl).2

/-- an ordinary delivery of a stanza that is not dead -/
theorem sim_deliver_live (hw : WFConfig accts groups) {s : Sys} {y : Acct} {st : Stanza} {rest : List Stanza}
    (hA : AInv accts groups (abs s)) (hT : TV ex accts groups s.submitted (view (flat s)))
    (hlen : s.submitted.length ≤ 100) (hq : queueOf s.outbound y = st :: rest) (hlive : dead (getClient s y) st = false) :
    TV ex accts groups (step s (.deliver y .none)).submitted (view (flat (step s (.deliver y .none)))) ∧
    (∀ z st, st ∈ queueOf (insert s.outbound y rest) z → dead (getClient s z) st = false →
      dead (getClient (step s (.deliver y .none)) z) st = false) := by
  have hI : TInv ex accts groups (flat s) := ⟨AInv_flat hA, hT⟩
  have hqf : queueOf (flat s).outbound y = st :: liveQ (getClient s y) rest := by
    rw [queueOf_flat, hq, liveQ_cons_live hlive]
  have hall' : Allowed (flat s) (.deliver y .none) = true := by simp only [Allowed, hqf]
  have h2 := deliver_TInv hw hI hall' hlen
  have e1 : step s (.deliver y .none) = (clientReceive s y st).wo (insert s.outbound y rest) s.faulted := by
    simp only [step, hq]
    exact clientReceive_wo s (insert s.outbound y rest) s.faulted y st
  have e2 : step (flat s) (.deliver y .none)
      = (clientReceive s y st).wo (insert (flat s).outbound y (liveQ (getClient s y) rest)) s.faulted := by
    simp only [step, hqf]
    exact clientReceive_wo s (insert (flat s).outbound y (liveQ (getClient s y) rest)) s.faulted y st
  have hwo : step (flat s) (.deliver y .none)
      = (step s (.deliver y .none)).wo (insert (flat s).outbound y (liveQ (getClient s y) rest)) s.faulted := by
    rw [e1, e2]; rfl
  have hsub : (step (flat s) (.deliver y .none)).submitted = (step s (.deliver y .none)).submitted := by rw [hwo]; rfl
  have h2T := h2.2
  rw [hsub, hwo] at h2T
  have h2A := h2.1
  rw [hwo] at h2A
  refine ⟨sim_flat (s := s) h2T (fun z st' hst' => (h2A.outb_ok z st' hst').1) ?_ ?_,
    sim_keeps_live (s := s) h2T (fun z st' hst' => (h2A.outb_ok z st' hst').1)
      (fun z => queueOf (insert s.outbound y rest) z) (fun z => queue_after_pop s y rest z)⟩
  · intro z
    rw [e1]
    exact Grow.clientReceive s y st z
  · intro z
    rw [e1]
    exact queue_after_pop s y rest z

/-- a duplicated delivery: the copy left in the queue is dead afterwards -/
theorem sim_deliver_dup (hw : WFConfig accts groups) {s : Sys} {y : Acct} {rest : List Stanza} {id : Nat} {peer : Dest}
    {part : Option Acct} {im : Bool} {encs : List (Option Acct × Ct)} {pl : Option Payload}
    (hA : AInv accts groups (abs s)) (hT : TV ex accts groups s.submitted (view (flat s)))
    (hlen : s.submitted.length ≤ 100) (hq : queueOf s.outbound y = .msg id peer part im encs pl :: rest)
    (hlive : dead (getClient s y) (.msg id peer part im encs pl) = false)
    (hdead' : dead (getClient (clientReceive s y (.msg id peer part im encs pl)) y) (.msg id peer part im encs pl) = true) :
    TV ex accts groups (step s (.deliver y .dup)).submitted (view (flat (step s (.deliver y .dup)))) ∧
    (∀ z st, st ∈ queueOf (insert s.outbound y rest) z → dead (getClient s z) st = false →
      dead (getClient (step s (.deliver y .dup)) z) st = false) := by
  have hI : TInv ex accts groups (flat s) := ⟨AInv_flat hA, hT⟩
  have hqf : queueOf (flat s).outbound y = .msg id peer part im encs pl :: liveQ (getClient s y) rest := by
    rw [queueOf_flat, hq, liveQ_cons_live hlive]
  have hall' : Allowed (flat s) (.deliver y .none) = true := by simp only [Allowed, hqf]
  have h2 := deliver_TInv hw hI hall' hlen
  have e1 : step s (.deliver y .dup) = (clientReceive s y (.msg id peer part im encs pl)).wo s.outbound (s.faulted ++ [(id, y)]) := by
    simp only [step, hq]
    exact clientReceive_wo s s.outbound (s.faulted ++ [(id, y)]) y _
  have e2 : step (flat s) (.deliver y .none)
      = (clientReceive s y (.msg id peer part im encs pl)).wo (insert (flat s).outbound y (liveQ (getClient s y) rest)) s.faulted := by
    simp only [step, hqf]
    exact clientReceive_wo s (insert (flat s).outbound y (liveQ (getClient s y) rest)) s.faulted y _
  have hwo : step (flat s) (.deliver y .none)
      = (step s (.deliver y .dup)).wo (insert (flat s).outbound y (liveQ (getClient s y) rest)) s.faulted := by
    rw [e1, e2]; rfl
  have hsub : (step (flat s) (.deliver y .none)).submitted = (step s (.deliver y .dup)).submitted := by rw [hwo]; rfl
  have h2T := h2.2
  rw [hsub, hwo] at h2T
  have h2A := h2.1
  rw [hwo] at h2A
  refine ⟨sim_flat' (s := s) h2T (fun z st' hst' => (h2A.outb_ok z st' hst').1) ?_
    (fun z => queueOf (insert s.outbound y rest) z) (fun z => queue_after_pop s y rest z) ?_,
    sim_keeps_live (s := s) h2T (fun z st' hst' => (h2A.outb_ok z st' hst').1)
      (fun z => queueOf (insert s.outbound y rest) z) (fun z => queue_after_pop s y rest z)⟩
  · intro z
    rw [e1]
    exact Grow.clientReceive s y _ z
  · intro z
    rw [e1]
    show liveQ (getClient (clientReceive s y _) z) (queueOf s.outbound z) = _
    rw [queueOf_insert]
    split
    · next e =>
      subst e
      rw [hq, liveQ_cons_dead hdead']
      rfl
    · rfl

/-- a damaged delivery -/
theorem sim_deliver_corrupt (hw : WFConfig accts groups) {s : Sys} {y : Acct} {rest : List Stanza} {id : Nat} {peer : Dest}
    {part : Option Acct} {im : Bool} {encs : List (Option Acct × Ct)} {pl : Option Payload}
    (hA : AInv accts groups (abs s)) (hT : TV ex accts groups s.submitted (view (flat s)))
    (hq : queueOf s.outbound y = .msg id peer part im encs pl :: rest)
    (hlive : dead (getClient s y) (.msg id peer part im encs pl) = false)
    (hshape' : DownShape (.msg id peer part im (corruptLast encs) pl))
    (hctr : (corruptLast encs).map (fun e => e.2.ctr) = encs.map (fun e => e.2.ctr))
    (hns : ∀ ct, heFirst (corruptLast encs) = some ct → (decrypt (getClient s y) (whoOf peer part) ct).2 ≠ .noSession) :
    TV ex accts groups (step s (.deliver y .corrupt)).submitted (view (flat (step s (.deliver y .corrupt)))) ∧
    (∀ z st, st ∈ queueOf (insert s.outbound y rest) z → dead (getClient s z) st = false →
      dead (getClient (step s (.deliver y .corrupt)) z) st = false) := by
  have hqf : queueOf (flat s).outbound y = .msg id peer part im encs pl :: liveQ (getClient s y) rest := by
    rw [queueOf_flat, hq, liveQ_cons_live hlive]
  have hmem : Stanza.msg id peer part im encs pl ∈ (abs s).outb y := by
    show _ ∈ queueOf s.outbound y; rw [hq]; simp
  obtain ⟨hy, hd, _⟩ := hA.outb_ok y _ hmem
  have hpark : ∀ c' out,
      RStep { flat s with outbound := insert (flat s).outbound y (liveQ (getClient s y) rest) }
        (handleEnc { flat s with outbound := insert (flat s).outbound y (liveQ (getClient s y) rest) } y
          (.msg id peer part im (corruptLast encs) pl)) y c' out →
      ¬ OutC (getClient s y) (.msg id peer part im (corruptLast encs) pl) peer part (whoOf peer part) c' out := by
    intro c' out hst hc
    have hacc0 : y ∈ (view { flat s with outbound := insert (flat s).outbound y (liveQ (getClient s y) rest) }).accounts := by
      show y ∈ (view (flat s)).accounts
      rw [hT.acc]; exact hy
    have h1 := rstep_handleEnc hacc0 id peer part im (corruptLast encs) pl
    have e : c' = (heC (getClient s y) id peer part im (corruptLast encs) pl).1 := by
      rw [← hst.cl, h1.cl]; rfl
    have q := (quiet_heC (getClient s y) id peer part im (corruptLast encs) pl hns).1.iqReg
    have h3 := hc.1
    rw [e, q] at h3
    have := congrArg List.length h3
    simp at this
  have h2 := deliver_msg_TV' (ex := ex) hw (AInv_flat hA) hT hqf hshape' hctr (fun _ => hpark)
  have e1 : step s (.deliver y .corrupt)
      = (clientReceive s y (.msg id peer part im (corruptLast encs) pl)).wo (insert s.outbound y rest) (s.faulted ++ [(id, y)]) := by
    simp only [step, hq]
    exact clientReceive_wo s (insert s.outbound y rest) (s.faulted ++ [(id, y)]) y _
  have e2 : clientReceive { flat s with outbound := insert (flat s).outbound y (liveQ (getClient s y) rest) } y
        (.msg id peer part im (corruptLast encs) pl)
      = (step s (.deliver y .corrupt)).wo (insert (flat s).outbound y (liveQ (getClient s y) rest)) s.faulted := by
    rw [e1]
    exact clientReceive_wo s (insert (flat s).outbound y (liveQ (getClient s y) rest)) s.faulted y _
  have hd' : DownOK accts groups s.submitted y (.msg id peer part im (corruptLast encs) pl) := by
    obtain ⟨a', n, h1, h2', h3, h4, he⟩ := hd
    exact ⟨a', n, h1, h2', h3, h4, he.corruptLast⟩
  have hsub : (step s (.deliver y .corrupt)).submitted = s.submitted := by
    rw [e1]
    exact clientReceive_submitted hA hy hd' (LinkOK.of_none rfl)
  rw [hsub]
  rw [e2] at h2
  have hin : ∀ z st', st' ∈ queueOf (insert (flat s).outbound y (liveQ (getClient s y) rest)) z → z ∈ accts := by
    intro z st' hst'
    rw [queue_after_pop] at hst'
    have := (mem_liveQ hst').1
    rw [queueOf_insert] at this
    split at this
    · next e =>
      subst e
      exact hy
    · exact (hA.outb_ok z st' this).1
  refine ⟨sim_flat (s := s) h2 ?_ ?_ ?_, sim_keeps_live (s := s) h2 hin
      (fun z => queueOf (insert s.outbound y rest) z) (fun z => queue_after_pop s y rest z)⟩
  · intro z st' hst'
    rw [queue_after_pop] at hst'
    have := (mem_liveQ hst').1
    rw [queueOf_insert] at this
    split at this
    · next e =>
      subst e
      exact hy
    · exact (hA.outb_ok z st' this).1
  · intro z
    rw [e1]
    exact Grow.clientReceive s y _ z
  · intro z
    rw [e1]
    exact queue_after_pop s y rest z

end

end Yow.E2E

namespace Yow.E2E

/-- a dead stanza is delivered: the recipient finds the ciphertext already opened and acknowledges again -/
theorem handleEnc_dead {s : Sys} {y : Acct} (hy : y ∈ (view s).accounts) (id : Nat) (peer : Dest) (part : Option Acct) (im : Bool)
    (encs : List (Option Acct × Ct)) (pl : Option Payload)
    (h1 : ∀ ct, heFirst encs = some ct → decrypt (getClient s y) (whoOf peer part) ct = (getClient s y, .duplicate))
    (h2 : heFirst encs = none → ∃ g k, peer = .group g ∧ firstKind encs .skmsg = some k ∧
      groupDecrypt (getClient s y) g (whoOf peer part) k = (getClient s y, .duplicate)) :
    RStep s (handleEnc s y (.msg id peer part im encs pl)) y (getClient s y) [.receipt id peer part .delivery] := by
  have hs := rstep_setClient (s := s) (getClient s y) hy
  have he := rstep_emit (setClient s y (getClient s y)) y (.receipt id peer part .delivery)
  rw [hs.cl] at he
  have hfin : RStep s (emit (setClient s y (getClient s y)) y (.receipt id peer part .delivery)) y (getClient s y)
      [.receipt id peer part .delivery] := hs.trans he
  rw [handleEnc_eq]
  cases hf : heFirst encs with
  | some ct =>
    simp only [heMain, h1 ct hf]
    exact hfin
  | none =>
    obtain ⟨g, k, rfl, hk, hd⟩ := h2 hf
    simp only [heMain]
    unfold handleEnc.stage2
    simp only [hk, hd]
    exact hfin

section
variable {accts : List Acct} {groups : List (Nat × List Acct)}

/-- one more delivery receipt for a message that was shown -/
theorem TV.extra_receipt (hn : accts.Nodup) {L : List (Acct × Node)} {V : View} (h : TV false accts groups L V) {y : Acct} (hy : y ∈ accts)
    (id : Nat) (peer : Dest) (part : Option Acct) (hsh : 1 ≤ shownC (V.cl y) id) :
    TV false accts groups L (V.cstep y (V.cl y) [.receipt id peer part .delivery] V.nextCtr) := by
  have hz : ∀ i r, sumMap (upTok i r) [Stanza.receipt id peer part .delivery] = 0 := fun _ _ => rfl
  have hc : CStepOKc accts groups L V y [] (V.outb y) (V.cl y) [.receipt id peer part .delivery] V.nextCtr := {
    hx := hy
    hq := rfl
    hk := Nat.le_refl _
    shown_mono := fun _ => Nat.le_refl _
    good_c := h.clients y
    good_out := by
      intro st hst
      rw [List.mem_singleton] at hst; subst hst
      refine ⟨trivial, (fun e he => by cases he), trivial, ?_, (fun _ _ _ _ e => by cases e)⟩
      intro id' peer' part' e
      cases e
      exact hsh
    cons_S := by intro n _ r _; simp
    cons_R := by intro a n _ _; simp [retryUpTok]
    ans_iq := fun e he => Or.inl ⟨he, fun st hst => by cases hst⟩
    ans_pend := (h.ans y).2
    kept_S := by
      intro n hn' r hr
      simp only [sumMap_cons, sumMap_nil', upTok_receipt, Nat.add_zero]
      exact h.kept y n hn' r hr
    kept_R := by intro a n _ _; simp [retryUpTok]
    ret3 := h.ret3 y
    slots := h.slots y
    rids := h.rids y
    retq := h.retq y
    unop_out := by intro r _ m; simp
    unop_pend := by intro m; omega
    unop_seen := fun m hm => Or.inl hm }
  have := TV.client_step_core hn h hc ?_
  · rw [View.popOut_self] at this
    exact this
  · intro a n hn' r hr
    rw [View.popOut_self]
    have h0 := h.rcons a n hn' r hr
    have d := receiptTokensV_cstep V y (V.cl y) [.receipt id peer part .delivery] V.nextCtr a n.id r
    have hcl : (V.cstep y (V.cl y) [.receipt id peer part .delivery] V.nextCtr).cl r = V.cl r := by
      simp [View.cstep]
    rw [hcl]
    unfold rcRel at h0 ⊢
    simp only [Bool.false_eq_true, if_false] at h0 ⊢
    split at d <;> split at d <;> omega

theorem View.popOut_self' (V : View) (x : Acct) : V.popOut x (V.outb x) = V := by simp [View.popOut]

/-- the later delivery of a dead copy -/
theorem sim_deliver_dead (hw : WFConfig accts groups) {s : Sys} {y : Acct} {rest : List Stanza} {id : Nat} {peer : Dest}
    {part : Option Acct} {im : Bool} {encs : List (Option Acct × Ct)} {pl : Option Payload}
    (hA : AInv accts groups (abs s)) (hT : TV false accts groups s.submitted (view (flat s)))
    (hq : queueOf s.outbound y = .msg id peer part im encs pl :: rest)
    (hdead : dead (getClient s y) (.msg id peer part im encs pl) = true)
    (hne : encs.isEmpty = false)
    (hsh : 1 ≤ shownC (getClient s y) id)
    (h1 : ∀ ct, heFirst encs = some ct → decrypt (getClient s y) (whoOf peer part) ct = (getClient s y, .duplicate))
    (h2 : heFirst encs = none → ∃ g k, peer = .group g ∧ firstKind encs .skmsg = some k ∧
      groupDecrypt (getClient s y) g (whoOf peer part) k = (getClient s y, .duplicate)) :
    TV false accts groups (step s (.deliver y .none)).submitted (view (flat (step s (.deliver y .none)))) := by
  have hmem : Stanza.msg id peer part im encs pl ∈ (abs s).outb y := by
    show _ ∈ queueOf s.outbound y; rw [hq]; simp
  obtain ⟨hy, hd, hl⟩ := hA.outb_ok y _ hmem
  have hacc : y ∈ (view (flat s)).accounts := by rw [hT.acc]; exact hy
  have e1 : step s (.deliver y .none)
      = (handleEnc s y (.msg id peer part im encs pl)).wo (insert s.outbound y rest) s.faulted := by
    simp only [step, hq, clientReceive, hne, Bool.false_eq_true, if_false]
    exact handleEnc_wo s (insert s.outbound y rest) s.faulted y _
  have hsub : (step s (.deliver y .none)).submitted = s.submitted := by
    have := clientReceive_submitted hA hy hd hl
    simp only [clientReceive, hne, Bool.false_eq_true, if_false] at this
    rw [e1]; exact this
  rw [hsub]
  have hr := handleEnc_dead (s := flat s) hacc id peer part im encs pl h1 h2
  have hr' : view (handleEnc (flat s) y (.msg id peer part im encs pl))
      = (view (flat s)).cstep y ((view (flat s)).cl y) [.receipt id peer part .delivery] (view (flat s)).nextCtr := hr
  have hTV := TV.extra_receipt hw.1 hT hy id peer part hsh
  rw [← hr'] at hTV
  have e3 : handleEnc (flat s) y (.msg id peer part im encs pl)
      = (step s (.deliver y .none)).wo (flat s).outbound s.faulted := by
    rw [e1]
    exact handleEnc_wo s (flat s).outbound s.faulted y _
  rw [e3] at hTV
  rw [view_flat_eq (o2 := (flat s).outbound) (f2 := s.faulted)]
  · exact hTV
  · intro z
    have hcl : getClient (step s (.deliver y .none)) z = getClient s z := by
      have : (view (handleEnc (flat s) y (.msg id peer part im encs pl))).cl z = getClient s z := by
        rw [hr']
        show upd (getClient s) y (getClient s y) z = _
        rw [upd_self]
      rw [e3] at this
      exact this
    rw [hcl, queueOf_flat, e1]
    show _ = liveQ (getClient s z) (queueOf (insert s.outbound y rest) z)
    rw [queueOf_insert]
    split
    · next e => subst e; rw [hq, liveQ_cons_dead hdead]
    · rfl

end

end Yow.E2E
