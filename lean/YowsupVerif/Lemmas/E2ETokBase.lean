/-
  Token conservation in the E2E system model, part 1: sums over lists and association lists, the functional view of a
  system state and the two forms every step takes in it (a client consumes a stanza, changes its own record and emits
  stanzas; the server consumes a stanza and queues stanzas for clients).
-/
import YowsupVerif.Lemmas.E2E
import YowsupVerif.Model.E2ETok
namespace Yow.E2E

-- ------------------------------------------------------------------------------------------------ sums
section Sums
variable {α : Type}

@[simp] theorem sumMap_nil' (f : α → Nat) : sumMap f [] = 0 := rfl
@[simp] theorem sumMap_cons (f : α → Nat) (x : α) (l : List α) : sumMap f (x :: l) = f x + sumMap f l := by
  simp [sumMap]
@[simp] theorem sumMap_append (f : α → Nat) (l m : List α) : sumMap f (l ++ m) = sumMap f l + sumMap f m := by
  simp [sumMap, List.sum_append]

theorem sumMap_singleton (f : α → Nat) (x : α) : sumMap f [x] = f x := by simp

theorem sumMap_eq_zero {f : α → Nat} {l : List α} (h : ∀ e ∈ l, f e = 0) : sumMap f l = 0 := by
  induction l with
  | nil => rfl
  | cons x l ih =>
    rw [sumMap_cons, h x (by simp), ih (fun e he => h e (List.mem_cons_of_mem _ he))]

theorem sumMap_congr {f g : α → Nat} {l : List α} (h : ∀ e ∈ l, f e = g e) : sumMap f l = sumMap g l := by
  induction l with
  | nil => rfl
  | cons x l ih =>
    rw [sumMap_cons, sumMap_cons, h x (by simp), ih (fun e he => h e (List.mem_cons_of_mem _ he))]

theorem sumMap_le_of_mem {f : α → Nat} {l : List α} {x : α} (h : x ∈ l) : f x ≤ sumMap f l := by
  induction l with
  | nil => cases h
  | cons y l ih =>
    rw [sumMap_cons]
    rcases List.mem_cons.mp h with e | e
    · subst e; omega
    · have := ih e; omega

theorem exists_of_sumMap_pos {f : α → Nat} {l : List α} (h : 0 < sumMap f l) : ∃ x ∈ l, 0 < f x := by
  induction l with
  | nil => simp at h
  | cons y l ih =>
    rw [sumMap_cons] at h
    by_cases hy : 0 < f y
    · exact ⟨y, by simp, hy⟩
    · obtain ⟨x, hx, hp⟩ := ih (by omega)
      exact ⟨x, List.mem_cons_of_mem _ hx, hp⟩

/-- two different members both count -/
theorem sumMap_two_le {f : α → Nat} {l : List α} {x y : α} (hx : x ∈ l) (hy : y ∈ l) (hne : x ≠ y) :
    f x + f y ≤ sumMap f l := by
  induction l with
  | nil => cases hx
  | cons z l ih =>
    rw [sumMap_cons]
    rcases List.mem_cons.mp hx with e1 | e1 <;> rcases List.mem_cons.mp hy with e2 | e2
    · exact absurd (e1.trans e2.symm) hne
    · subst e1; have := sumMap_le_of_mem (f := f) e2; omega
    · subst e2; have := sumMap_le_of_mem (f := f) e1; omega
    · have := ih e1 e2; omega

theorem sumMap_flatMap {β : Type} (f : β → Nat) (g : α → List β) (l : List α) :
    sumMap f (l.flatMap g) = sumMap (fun e => sumMap f (g e)) l := by
  induction l with
  | nil => rfl
  | cons x l ih => simp [List.flatMap_cons, ih]

theorem sumMap_filter_length (p : α → Bool) (l : List α) : (l.filter p).length = sumMap (fun x => if p x then 1 else 0) l := by
  induction l with
  | nil => rfl
  | cons x l ih =>
    rw [List.filter_cons, sumMap_cons]
    split <;> simp [ih] <;> omega

theorem count_eq_sumMap [DecidableEq α] (x : α) (l : List α) : l.count x = sumMap (fun y => if y = x then 1 else 0) l := by
  induction l with
  | nil => rfl
  | cons y l ih =>
    rw [List.count_cons, sumMap_cons, ih]
    by_cases h : y = x <;> simp [h] <;> omega

/-- a sum over a duplicate-free list when the summand changes at one point only -/
theorem sumMap_update [DecidableEq α] {f g : α → Nat} {l : List α} (hn : l.Nodup) {a : α}
    (h : ∀ b, b ≠ a → f b = g b) :
    sumMap g l + (if a ∈ l then f a else 0) = sumMap f l + (if a ∈ l then g a else 0) := by
  induction l with
  | nil => simp
  | cons x l ih =>
    rw [List.nodup_cons] at hn
    have := ih hn.2
    rw [sumMap_cons, sumMap_cons]
    by_cases hx : x = a
    · subst hx
      have e : sumMap g l = sumMap f l := sumMap_congr (fun e he => (h e (fun ee => hn.1 (ee ▸ he))).symm)
      simp [e]; omega
    · have hx' : ¬ a = x := fun e => hx e.symm
      rw [h x hx]
      simp only [List.mem_cons, hx', false_or]
      omega

end Sums

-- ------------------------------------------------------------------------------------------------ association lists (2)
section Assoc2
variable {α β : Type} [DecidableEq α]

def keysNodup (l : List (α × β)) : Prop := (l.map Prod.fst).Nodup

theorem keysNodup_nil : keysNodup ([] : List (α × β)) := List.nodup_nil

theorem mem_keys_iff_any (l : List (α × β)) (k : α) : l.any (fun p => p.1 == k) = true ↔ k ∈ l.map Prod.fst := by
  simp [List.any_eq_true]

theorem keys_insert' (l : List (α × β)) (k : α) (v : β) :
    (insert l k v).map Prod.fst = if l.any (fun p => p.1 == k) then l.map Prod.fst else l.map Prod.fst ++ [k] := by
  unfold insert
  split
  · rw [List.map_map]
    apply List.map_congr_left
    intro p _
    simp only [Function.comp]
    split
    · next h => simp at h; simp [h]
    · rfl
  · simp

theorem keysNodup_insert {l : List (α × β)} (k : α) (v : β) (h : keysNodup l) : keysNodup (insert l k v) := by
  unfold keysNodup
  rw [keys_insert']
  split
  · exact h
  · next hn =>
    rw [List.nodup_append]
    refine ⟨h, by simp, ?_⟩
    intro a ha b hb e
    simp only [List.mem_singleton] at hb
    subst hb
    subst e
    exact hn ((mem_keys_iff_any l a).mpr ha)

theorem keysNodup_erase {l : List (α × β)} (k : α) (h : keysNodup l) : keysNodup (erase l k) := by
  unfold keysNodup erase
  exact List.Nodup.sublist (List.Sublist.map _ List.filter_sublist) h

theorem keysNodup_append_fresh {l : List (α × β)} {k : α} {v : β} (h : keysNodup l) (hk : ∀ p ∈ l, p.1 ≠ k) :
    keysNodup (l ++ [(k, v)]) := by
  unfold keysNodup
  rw [List.map_append, List.nodup_append]
  refine ⟨h, by simp, ?_⟩
  intro a ha b hb e
  simp only [List.map_cons, List.map_nil, List.mem_singleton] at hb
  obtain ⟨p, hp, rfl⟩ := List.mem_map.mp ha
  exact hk p hp (e.trans hb)

theorem lookup_of_mem {l : List (α × β)} (hn : keysNodup l) {p : α × β} (hp : p ∈ l) : lookup l p.1 = some p.2 := by
  induction l with
  | nil => cases hp
  | cons q l ih =>
    rw [lookup_cons]
    simp only [keysNodup, List.map_cons, List.nodup_cons] at hn
    rcases List.mem_cons.mp hp with h | h
    · subst h; simp
    · have : q.1 ≠ p.1 := by
        intro e
        apply hn.1
        rw [e]
        exact List.mem_map_of_mem h
      rw [if_neg this]
      exact ih hn.2 h

theorem mem_erase_iff {l : List (α × β)} {k : α} {p : α × β} : p ∈ erase l k ↔ p ∈ l ∧ p.1 ≠ k := by
  unfold erase
  simp [List.mem_filter]

theorem mem_insert_iff {l : List (α × β)} (hn : keysNodup l) {k : α} {v : β} {p : α × β} :
    p ∈ insert l k v ↔ (p ∈ l ∧ p.1 ≠ k) ∨ p = (k, v) := by
  unfold insert
  split
  · next h =>
    rw [List.mem_map]
    constructor
    · rintro ⟨q, hq, e⟩
      split at e
      · exact Or.inr e.symm
      · next hne => subst e; exact Or.inl ⟨hq, by simpa using hne⟩
    · rintro (⟨h1, h2⟩ | h1)
      · exact ⟨p, h1, by simp [h2]⟩
      · obtain ⟨q, hq, hk⟩ := List.any_eq_true.mp h
        exact ⟨q, hq, by simp only [hk, if_true]; exact h1.symm⟩
  · next h =>
    rw [List.mem_append, List.mem_singleton]
    constructor
    · rintro (h1 | h1)
      · left
        refine ⟨h1, ?_⟩
        intro e
        apply h
        exact List.any_eq_true.mpr ⟨p, h1, by simpa using e⟩
      · exact Or.inr h1
    · rintro (⟨h1, _⟩ | h1)
      · exact Or.inl h1
      · exact Or.inr h1

/-- sums over an association list after `insert` -/
theorem sumMap_insert {l : List (α × List β)} (hn : keysNodup l) (g : List β → Nat) (hg : g [] = 0) (k : α) (v : List β) :
    sumMap (fun e => g e.2) (insert l k v) + g ((lookup l k).getD []) = sumMap (fun e => g e.2) l + g v := by
  induction l with
  | nil => simp [insert, lookup_nil, hg]
  | cons p l ih =>
    simp only [keysNodup, List.map_cons, List.nodup_cons] at hn
    have hi := ih hn.2
    by_cases hp : p.1 = k
    · subst hp
      have hnot : ∀ q ∈ l, q.1 ≠ p.1 := fun q hq e => hn.1 (e ▸ List.mem_map_of_mem hq)
      have e1 : insert (p :: l) p.1 v = (p.1, v) :: l := by
        unfold insert
        simp only [List.any_cons, beq_self_eq_true, Bool.true_or, if_true, List.map_cons]
        congr 1
        rw [List.map_congr_left (g := id)]
        · simp
        · intro q hq
          simp [hnot q hq]
      rw [e1, lookup_cons]
      simp
      omega
    · have e1 : insert (p :: l) k v = p :: insert l k v := by
        unfold insert
        have hb : (p.1 == k) = false := by simp [hp]
        simp only [List.any_cons, hb, Bool.false_or, List.map_cons, Bool.false_eq_true, if_false]
        split <;> simp
      rw [e1, lookup_cons, if_neg hp]
      simp only [sumMap_cons]
      omega

theorem sumMap_erase {l : List (α × β)} (hn : keysNodup l) (f : α × β → Nat) (k : α) :
    sumMap f (erase l k) + (match lookup l k with | some v => f (k, v) | none => 0) = sumMap f l := by
  induction l with
  | nil => simp [erase, lookup_nil]
  | cons p l ih =>
    simp only [keysNodup, List.map_cons, List.nodup_cons] at hn
    have hi := ih hn.2
    obtain ⟨pk, pv⟩ := p
    by_cases hp : (pk, pv).1 = k
    · subst hp
      have hnot : ∀ q ∈ l, q.1 ≠ pk := fun q hq e => hn.1 (by rw [← e]; exact List.mem_map.mpr ⟨q, hq, rfl⟩)
      have e1 : erase ((pk, pv) :: l) pk = l := by
        unfold erase
        simp only [List.filter_cons, bne_self_eq_false, Bool.false_eq_true, if_false]
        rw [List.filter_eq_self]
        intro q hq
        simpa using hnot q hq
      rw [e1, lookup_cons]
      simp
      omega
    · have e1 : erase ((pk, pv) :: l) k = (pk, pv) :: erase l k := by
        unfold erase
        have hb : ((pk, pv).1 != k) = true := by simpa using hp
        simp only [List.filter_cons, hb, if_true]
      rw [e1, lookup_cons, if_neg hp]
      simp only [sumMap_cons]
      omega

end Assoc2

-- ------------------------------------------------------------------------------------------------ functional view
def upd {β : Type} (f : Acct → β) (a : Acct) (v : β) : Acct → β := fun b => if b = a then v else f b

@[simp] theorem upd_same {β : Type} (f : Acct → β) (a : Acct) (v : β) : upd f a v a = v := by simp [upd]
theorem upd_ne {β : Type} (f : Acct → β) {a b : Acct} (v : β) (h : b ≠ a) : upd f a v b = f b := by simp [upd, h]
theorem upd_apply {β : Type} (f : Acct → β) (a b : Acct) (v : β) : upd f a v b = if b = a then v else f b := rfl
@[simp] theorem upd_self {β : Type} (f : Acct → β) (a : Acct) : upd f a (f a) = f := by
  funext b; unfold upd; split
  · next e => rw [e]
  · rfl
@[simp] theorem upd_upd {β : Type} (f : Acct → β) (a : Acct) (v w : β) : upd (upd f a v) a w = upd f a w := by
  funext b; unfold upd; split <;> rfl

/-- what the token invariant reads of a system state, association lists read as functions -/
@[ext] structure View where
  cl : Acct → Client
  inb : Acct → List Stanza
  outb : Acct → List Stanza
  groups : List (Nat × List Acct)
  nextCtr : Nat
  submitted : List (Acct × Node)
  accounts : List Acct

def accountsOf (s : Sys) : List Acct := s.clients.map Prod.fst

def view (s : Sys) : View :=
  ⟨getClient s, fun a => queueOf s.inbound a, fun a => queueOf s.outbound a, s.groups, s.nextCtr, s.submitted, s.clients.map Prod.fst⟩

namespace View
/-- a client changes its record, emits stanzas (and nonces are used up) -/
def cstep (V : View) (x : Acct) (c : Client) (out : List Stanza) (k : Nat) : View :=
  { V with cl := upd V.cl x c, inb := upd V.inb x (V.inb x ++ out), nextCtr := k }
def popOut (V : View) (x : Acct) (rest : List Stanza) : View := { V with outb := upd V.outb x rest }
def popIn (V : View) (x : Acct) (rest : List Stanza) : View := { V with inb := upd V.inb x rest }
/-- the server queues stanzas -/
def pushes (V : View) (add : Acct → List Stanza) : View := { V with outb := fun b => V.outb b ++ add b }
def addSub (V : View) (p : Acct × Node) : View := { V with submitted := V.submitted ++ [p] }
def setCtr (V : View) (k : Nat) : View := { V with nextCtr := k }

@[simp] theorem cstep_cl_same (V : View) (x : Acct) (c : Client) (out : List Stanza) (k : Nat) : (V.cstep x c out k).cl x = c := by
  simp [cstep]
@[simp] theorem cstep_nextCtr (V : View) (x : Acct) (c : Client) (out : List Stanza) (k : Nat) : (V.cstep x c out k).nextCtr = k := rfl
@[simp] theorem cstep_accounts (V : View) (x : Acct) (c : Client) (out : List Stanza) (k : Nat) : (V.cstep x c out k).accounts = V.accounts := rfl
@[simp] theorem cstep_submitted (V : View) (x : Acct) (c : Client) (out : List Stanza) (k : Nat) : (V.cstep x c out k).submitted = V.submitted := rfl
@[simp] theorem cstep_groups (V : View) (x : Acct) (c : Client) (out : List Stanza) (k : Nat) : (V.cstep x c out k).groups = V.groups := rfl
@[simp] theorem cstep_outb (V : View) (x : Acct) (c : Client) (out : List Stanza) (k : Nat) : (V.cstep x c out k).outb = V.outb := rfl

@[simp] theorem cstep_cstep (V : View) (x : Acct) (c1 c2 : Client) (o1 o2 : List Stanza) (k1 k2 : Nat) :
    (V.cstep x c1 o1 k1).cstep x c2 o2 k2 = V.cstep x c2 (o1 ++ o2) k2 := by
  simp [cstep, List.append_assoc]

@[simp] theorem setCtr_cstep (V : View) (x : Acct) (c : Client) (o : List Stanza) (k k' : Nat) :
    (V.setCtr k).cstep x c o k' = V.cstep x c o k' := rfl

@[simp] theorem setCtr_nextCtr (V : View) (k : Nat) : (V.setCtr k).nextCtr = k := rfl
@[simp] theorem setCtr_accounts (V : View) (k : Nat) : (V.setCtr k).accounts = V.accounts := rfl
@[simp] theorem setCtr_cl (V : View) (k : Nat) : (V.setCtr k).cl = V.cl := rfl
@[simp] theorem setCtr_submitted (V : View) (k : Nat) : (V.setCtr k).submitted = V.submitted := rfl

theorem cstep_id (V : View) (x : Acct) : V.cstep x (V.cl x) [] V.nextCtr = V := by
  simp [cstep]

end View

theorem view_setClient (s : Sys) (x : Acct) (c : Client) (hx : x ∈ (view s).accounts) :
    view (setClient s x c) = (view s).cstep x c [] (view s).nextCtr := by
  have hacc : (insert s.clients x c).map Prod.fst = s.clients.map Prod.fst := by
    rw [keys_insert', if_pos]
    exact (mem_keys_iff_any _ _).mpr hx
  apply View.ext <;> try rfl
  · funext b
    show getClient (setClient s x c) b = upd (getClient s) x c b
    rw [getClient_setClient]
    rfl
  · simp [View.cstep, view]; rfl
  · exact hacc

theorem view_emit (s : Sys) (x : Acct) (st : Stanza) :
    view (emit s x st) = (view s).cstep x ((view s).cl x) [st] (view s).nextCtr := by
  apply View.ext <;> try rfl
  · simp [View.cstep, view]; rfl
  · funext b
    show queueOf (insert s.inbound x _) b = _
    rw [queueOf_insert]
    rfl

theorem view_push (s : Sys) (x : Acct) (st : Stanza) :
    view (push s x st) = (view s).pushes (fun b => if b = x then [st] else []) := by
  apply View.ext <;> try rfl
  funext b
  show queueOf (insert s.outbound x _) b = _
  rw [queueOf_insert]
  simp only [View.pushes, view]
  split
  · next e => rw [e]
  · simp

theorem view_setInbound (s : Sys) (x : Acct) (l : List Stanza) :
    view { s with inbound := insert s.inbound x l } = (view s).popIn x l := by
  apply View.ext <;> try rfl
  funext b
  show queueOf (insert s.inbound x _) b = _
  rw [queueOf_insert]
  rfl

theorem view_setOutbound (s : Sys) (x : Acct) (l : List Stanza) :
    view { s with outbound := insert s.outbound x l } = (view s).popOut x l := by
  apply View.ext <;> try rfl
  funext b
  show queueOf (insert s.outbound x _) b = _
  rw [queueOf_insert]
  rfl

@[simp] theorem view_nextCtr (s : Sys) (k : Nat) : view { s with nextCtr := k } = (view s).setCtr k := rfl
@[simp] theorem view_nextSess (s : Sys) (k : Nat) : view { s with nextSess := k } = view s := rfl
@[simp] theorem view_nextGen (s : Sys) (k : Nat) : view { s with nextGen := k } = view s := rfl
@[simp] theorem view_faulted (s : Sys) (k : List (Nat × Acct)) : view { s with faulted := k } = view s := rfl
theorem view_addSub (s : Sys) (p : Acct × Node) : view { s with submitted := s.submitted ++ [p] } = (view s).addSub p := rfl

@[simp] theorem view_cl (s : Sys) (a : Acct) : (view s).cl a = getClient s a := rfl

end Yow.E2E
