/-
  The consequences of the token invariant at quiescence, and enabledness of the server when some queue is not empty.
-/
import YowsupVerif.Lemmas.E2EBase
import YowsupVerif.Model.E2ETok
namespace Yow.E2E

theorem queueOf_nil_of_all {q : List (Acct × List Stanza)} (h : q.all (fun p => p.2.isEmpty) = true) (a : Acct) :
    queueOf q a = [] := by
  unfold queueOf
  cases hl : lookup q a with
  | none => rfl
  | some v =>
    have hm := lookup_mem hl
    rw [List.all_eq_true] at h
    have := h _ hm
    simpa using this

theorem getClient_mem_or_default (s : Sys) (a : Acct) : (∃ p ∈ s.clients, p.2 = getClient s a) ∨ getClient s a = {} := by
  unfold getClient
  cases hl : lookup s.clients a with
  | none => right; rfl
  | some v => left; exact ⟨(a, v), lookup_mem hl, rfl⟩

theorem quiescent_settled' (s : Sys) (hi : answerable s = true) (hq : quiescent s = true) : settled s = true := by
  unfold settled
  rw [hq, Bool.true_and]
  unfold quiescent at hq
  rw [Bool.and_eq_true] at hq
  have hin := queueOf_nil_of_all hq.1
  have hout := queueOf_nil_of_all hq.2
  unfold answerable at hi
  rw [List.all_eq_true] at hi ⊢
  intro p hp
  have := hi p hp
  simp only [hin, hout, List.append_nil, List.any_nil, Bool.and_eq_true, List.all_eq_true, Bool.false_eq_true] at this
  obtain ⟨h1, h2⟩ := this
  have e1 : p.2.iqReg = [] := by
    cases h : p.2.iqReg with
    | nil => rfl
    | cons e l => exact absurd (h1 e (by rw [h]; simp)) (by simp)
  have e2 : p.2.pendingIn = [] := by
    cases h : p.2.pendingIn with
    | nil => rfl
    | cons e l =>
      have := h2 e (by rw [h]; simp)
      rw [e1] at this
      simp at this
  simp [e1, e2]

theorem settled_client {s : Sys} (hs : settled s = true) (a : Acct) :
    (getClient s a).iqReg = [] ∧ (getClient s a).pendingIn = [] := by
  unfold settled at hs
  rw [Bool.and_eq_true, List.all_eq_true] at hs
  rcases getClient_mem_or_default s a with ⟨p, hp, e⟩ | e
  · have := hs.2 p hp
    rw [← e]
    simpa using this
  · rw [e]; exact ⟨rfl, rfl⟩

theorem sumMap_nil {α} (f : α → Nat) : sumMap f [] = 0 := rfl

theorem settled_exactly_once' (s : Sys) (hc : conserved s = true) (hr : receiptsConserved s = true) (hs : settled s = true) :
    ∀ a n, (a, n) ∈ s.submitted → ∀ r, r ∈ intended s a n →
      shownCount s r n.id = 1 ∧
      ((getClient s a).receipts.filter (fun e =>
        e.1 == n.id && e.2.2.2 == RType.delivery && (e.2.2.1 == some r || (e.2.2.1.isNone && e.2.1 == Dest.user r)))).length = 1 := by
  intro a n hn r hrr
  have hq : quiescent s = true := by
    unfold settled at hs; rw [Bool.and_eq_true] at hs; exact hs.1
  unfold quiescent at hq
  rw [Bool.and_eq_true] at hq
  have hin := queueOf_nil_of_all hq.1
  have hout := queueOf_nil_of_all hq.2
  have hca := settled_client hs a
  have hcr := settled_client hs r
  unfold conserved at hc
  rw [List.all_eq_true] at hc
  have h1 := hc (a, n) hn
  rw [List.all_eq_true] at h1
  have h2 := h1 r hrr
  simp only [tokens, hin, hout, hca.1, hcr.2, sumMap_nil, Nat.zero_add, beq_iff_eq] at h2
  have hsc : shownCount s r n.id = 1 := h2
  refine ⟨hsc, ?_⟩
  unfold receiptsConserved at hr
  rw [List.all_eq_true] at hr
  have h3 := hr (a, n) hn
  rw [List.all_eq_true] at h3
  have h4 := h3 r hrr
  simp only [receiptTokens, hin, hout, sumMap_nil, Nat.zero_add, beq_iff_eq] at h4
  rw [hsc] at h4
  exact h4

-- ------------------------------------------------------------------------------------------------ enabledness
theorem lookup_of_mem_nodup {α β : Type} [DecidableEq α] {l : List (α × β)} (hn : (l.map Prod.fst).Nodup) {p : α × β} (hp : p ∈ l) :
    lookup l p.1 = some p.2 := by
  induction l with
  | nil => cases hp
  | cons q l ih =>
    rw [lookup_cons]
    simp only [List.map_cons, List.nodup_cons] at hn
    rcases List.mem_cons.mp hp with h | h
    · subst h; simp
    · have : q.1 ≠ p.1 := by
        intro e
        apply hn.1
        rw [e]
        exact List.mem_map_of_mem h
      rw [if_neg this]
      exact ih hn.2 h

theorem not_quiescent_enabled' (s : Sys) (hk : (s.inbound.map Prod.fst).Nodup ∧ (s.outbound.map Prod.fst).Nodup)
    (h : quiescent s = false) :
    ∃ a, Allowed s (.process a) = true ∨ Allowed s (.deliver a .none) = true := by
  unfold quiescent at h
  rw [Bool.and_eq_false_iff] at h
  rcases h with h | h
  · rw [List.all_eq_false] at h
    obtain ⟨p, hp, hne⟩ := h
    refine ⟨p.1, Or.inl ?_⟩
    have := lookup_of_mem_nodup hk.1 hp
    simp only [Allowed, queueOf, this, Option.getD_some]
    simpa using hne
  · rw [List.all_eq_false] at h
    obtain ⟨p, hp, hne⟩ := h
    refine ⟨p.1, Or.inr ?_⟩
    have := lookup_of_mem_nodup hk.2 hp
    simp only [Allowed, queueOf, this, Option.getD_some]
    cases hq : p.2 with
    | nil => rw [hq] at hne; simp at hne
    | cons st rest => rfl

theorem keys_insert {α β : Type} [DecidableEq α] (l : List (α × β)) (k : α) (v : β) :
    (insert l k v).map Prod.fst = if l.any (fun p => p.1 == k) then l.map Prod.fst else l.map Prod.fst ++ [k] := by
  unfold insert
  split
  · rw [List.map_map]
    apply List.map_congr_left
    intro p _
    simp only [Function.comp]
    split
    · next h => simp at h; simp [h]
    · rfl
  · simp

theorem keys_insert_nodup {α β : Type} [DecidableEq α] {l : List (α × β)} (k : α) (v : β) (h : (l.map Prod.fst).Nodup) :
    ((insert l k v).map Prod.fst).Nodup := by
  rw [keys_insert]
  split
  · exact h
  · next hn =>
    rw [List.nodup_append]
    refine ⟨h, by simp, ?_⟩
    intro a ha b hb e
    simp only [List.mem_singleton] at hb
    subst hb
    subst e
    apply hn
    obtain ⟨p, hp, rfl⟩ := List.mem_map.mp ha
    simp only [List.any_eq_true, beq_iff_eq]
    exact ⟨p, hp, rfl⟩

/-- both queue tables have pairwise distinct keys -/
def QKeys (s : Sys) : Prop := (s.inbound.map Prod.fst).Nodup ∧ (s.outbound.map Prod.fst).Nodup

end Yow.E2E
