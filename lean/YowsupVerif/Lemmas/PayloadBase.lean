/-
  Basic lemmas for the payload converter model (Model/Payload.lean): association-list operations, the
  characterisation of `decodeField` by `plookup`, and what `tableGood` gives for one schema.
-/
import YowsupVerif.Model.Payload
namespace Yow.Payload

-- ------------------------------------------------------------------------------------------------ plookup / pset
theorem plookup_premove : (p : PFields) → (k j : Nat) →
    plookup (premove p k) j = if k = j then none else plookup p j
  | .nil, k, j => by simp [premove, plookup]
  | .cons k' v rest, k, j => by
    have ih := plookup_premove rest k j
    by_cases h : k' = k
    · subst h
      by_cases hj : k' = j
      · subst hj
        simpa [premove] using ih
      · simp [premove, ih, hj, plookup]
    · by_cases hj : k = j
      · subst hj
        simp [premove, plookup, ih, h]
      · simp [premove, plookup, ih, hj, h]

theorem plookup_pappend : (p : PFields) → (k j : Nat) → (w : PVal) →
    plookup (pappend p k w) j = match plookup p j with
      | some x => some x
      | none => if k = j then some w else none
  | .nil, k, j, w => by simp [pappend, plookup]
  | .cons k' v rest, k, j, w => by
    have ih := plookup_pappend rest k j w
    by_cases hj : k' = j
    · simp [pappend, plookup, hj]
    · simp [pappend, plookup, hj, ih]

theorem plookup_pset_self (p : PFields) (k : Nat) (w : PVal) : plookup (pset p k w) k = some w := by
  simp [pset, plookup_pappend, plookup_premove]

theorem plookup_pset_ne (p : PFields) (k j : Nat) (w : PVal) (h : j ≠ k) :
    plookup (pset p k w) j = plookup p j := by
  have h' : ¬ k = j := fun e => h e.symm
  simp only [pset, plookup_pappend, plookup_premove, h', if_false]
  cases plookup p j <;> rfl

theorem plookup_pset_isSome (p : PFields) (k j : Nat) (w : PVal) :
    (plookup (pset p k w) j).isSome = ((k == j) || (plookup p j).isSome) := by
  by_cases h : k = j
  · subst h; simp [plookup_pset_self]
  · have h' : j ≠ k := fun e => h e.symm
    simp [plookup_pset_ne _ _ _ _ h', h]

-- ------------------------------------------------------------------------------------------------ decodeField
/-- `decodeField` reads the first entry stored under the field's source number -/
theorem decodeField_eq (tbl : Table) (f : Field) : (p : PFields) →
    decodeField tbl f p =
      if f.bwd = .never then .none
      else match plookup p f.source with
        | some v => decodeVal tbl f v
        | none =>
          if f.kind = .list then .list []
          else if f.bwd = .always then defaultOf f.kind else .none
  | .nil => by simp [decodeField, plookup]
  | .cons k v rest => by
    have ih := decodeField_eq tbl f rest
    by_cases h : k = f.source
    · simp [decodeField, plookup, h]
    · simp only [decodeField, plookup, h, if_false, ih]
      split <;> rfl

-- ------------------------------------------------------------------------------------------------ good schemas
structure FieldOK (f : Field) : Prop where
  raises : f.raises = false
  ts : f.target = f.source
  rules : (f.fwd = .always ∧ f.bwd = .always) ∨ (f.fwd = .notNone ∧ f.bwd = .hasField)

theorem fieldOK_of_good {f : Field} (h : fieldGood f = true) : FieldOK f := by
  simp [fieldGood] at h
  exact ⟨h.1.1.1, h.1.1.2, h.2⟩

theorem FieldOK.bwd_ne_never {f : Field} (h : FieldOK f) : f.bwd ≠ .never := by
  rcases h.rules with ⟨_, h⟩ | ⟨_, h⟩ <;> simp [h]

theorem FieldOK.bwd_ne_truthy {f : Field} (h : FieldOK f) : f.bwd ≠ .truthy := by
  rcases h.rules with ⟨_, h⟩ | ⟨_, h⟩ <;> simp [h]

theorem FieldOK.fwd_ne_never {f : Field} (h : FieldOK f) : f.fwd ≠ .never := by
  rcases h.rules with ⟨h, _⟩ | ⟨h, _⟩ <;> simp [h]

theorem FieldOK.fwd_ne_truthy {f : Field} (h : FieldOK f) : f.fwd ≠ .truthy := by
  rcases h.rules with ⟨h, _⟩ | ⟨h, _⟩ <;> simp [h]

theorem FieldOK.bwd_always {f : Field} (h : FieldOK f) : f.bwd = .always ↔ f.fwd = .always := by
  rcases h.rules with ⟨h1, h2⟩ | ⟨h1, h2⟩ <;> simp [h1, h2]

/-- what `schemaGood` gives, as propositions -/
structure SchOK (sch : Schema) : Prop where
  fields : ∀ f ∈ sch, FieldOK f
  nodup : (sch.map (·.target)).Nodup

theorem schOK_of_good {n : Nat} {sch : Schema} (h : schemaGood n sch = true) : SchOK sch := by
  simp only [schemaGood, Bool.and_eq_true, List.all_eq_true, decide_eq_true_eq] at h
  exact ⟨fun f hf => fieldOK_of_good (h.1 f hf).1, h.2⟩

theorem tableGood_sch {tbl : Table} {bad : List Nat} (hg : tableGood tbl bad = true) {sid : Nat}
    (hb : bad.contains sid = false) (hlt : sid < tbl.length) : SchOK (tbl.getD sid []) := by
  simp only [tableGood, List.all_eq_true, List.mem_range, Bool.or_eq_true] at hg
  rcases hg sid hlt with h | h
  · rw [hb] at h; cases h
  · exact schOK_of_good h

theorem SchOK.tail {f : Field} {fs : Schema} (h : SchOK (f :: fs)) : SchOK fs :=
  ⟨fun g hg => h.fields g (List.mem_cons_of_mem _ hg), (List.nodup_cons.mp h.nodup).2⟩

theorem SchOK.head_notin {f : Field} {fs : Schema} (h : SchOK (f :: fs)) : ∀ g ∈ fs, g.target ≠ f.target := by
  intro g hg e
  have := (List.nodup_cons.mp h.nodup).1
  exact this (List.mem_map.mpr ⟨g, hg, e⟩)

/-- in a good schema a field is determined by its target number -/
theorem SchOK.inj {sch : Schema} (h : SchOK sch) {f g : Field} (hf : f ∈ sch) (hg : g ∈ sch)
    (e : f.target = g.target) : f = g := by
  induction sch with
  | nil => cases hf
  | cons a as ih =>
    have hn := h.head_notin
    rcases List.mem_cons.mp hf with rfl | hf' <;> rcases List.mem_cons.mp hg with rfl | hg'
    · rfl
    · exact absurd e.symm (hn g hg')
    · exact absurd e (hn f hf')
    · exact ih h.tail hf' hg'

/-- the first field with a given source number is the field itself -/
theorem SchOK.find_source {sch : Schema} (h : SchOK sch) {f : Field} (hf : f ∈ sch) :
    sch.find? (fun g => g.source == f.source) = some f := by
  cases hfind : sch.find? (fun g => g.source == f.source) with
  | none =>
    have := List.find?_eq_none.mp hfind f hf
    simp at this
  | some g =>
    have hg := List.mem_of_find?_eq_some hfind
    have hs := List.find?_some hfind
    simp only [beq_iff_eq] at hs
    have : g = f := h.inj hg hf (by rw [(h.fields g hg).ts, (h.fields f hf).ts, hs])
    rw [this]

end Yow.Payload
