/-
  Exactly-once with server faults, part 10: the server's step keeps decryptability and the timely arrival of sender keys.
-/
import YowsupVerif.Lemmas.E2ETokFKeys
import YowsupVerif.Lemmas.E2ETokServer
namespace Yow.E2E

theorem plainDown_shapeA {id : Nat} {peer : Dest} {part : Option Acct} {im : Bool} {encs : List (Option Acct × Ct)}
    {pl : Option Payload} (h : ShapeA encs) : PlainDown (.msg id peer part im encs pl) := by
  obtain ⟨ct, rfl, hk, _⟩ := h
  intro a g
  unfold cls isDistDown needsDown
  cases peer with
  | user b => rfl
  | group g' =>
    cases part with
    | none => rfl
    | some a' =>
      have : isSk ((none : Option Acct), ct) = false := by simp [isSk, hk]
      simp [this]

theorem plainUpK_user {id : Nat} {b : Acct} {part : Option Acct} {im : Bool} {encs : List (Option Acct × Ct)} {pl : Option Payload} :
    PlainUpK (.msg id (.user b) part im encs pl) := PlainUpK.of_not_group (fun _ _ _ _ _ e => by cases e)

theorem plainUpK_some {id g : Nat} {p : Acct} {im : Bool} {encs : List (Option Acct × Ct)} {pl : Option Payload} :
    PlainUpK (.msg id (.group g) (some p) im encs pl) := PlainUpK.of_not_group (fun _ _ _ _ _ e => by cases e)

theorem scan_plainDown {l : List Stanza} (h : ∀ st ∈ l, PlainDown st) (a : Acct) (g : Nat) :
    scan (isDistDown a g) (needsDown a g) l = none := scan_plain (fun st hst => h st hst a g)

/-- the copy of a group stanza for member `y` is a distribution / needs the key exactly when the stanza is / does for `y` -/
theorem cls_fan {id g : Nat} {a y : Acct} {im : Bool} {encs : List (Option Acct × Ct)} {pl : Option Payload}
    (hs : ShapeB (fun t => t.isSome = true) encs) (g' : Nat) (a' : Acct) :
    cls (isDistDown a' g') (needsDown a' g')
      (.msg id (.group g) (some a) im ((encs.filter (fun e => e.1 == some y)).map (fun e => (none, e.2)) ++ encs.filter (fun e => e.1.isNone)) pl)
    = if a' = a then cls (isDistUp g' y) (needsUp g' y) (.msg id (.group g) none im encs pl) else none := by
  obtain ⟨l, k, rfl, hk1, _, hl⟩ := hs
  have e1 : (l ++ [((none : Option Acct), k)]).filter (fun e => e.1 == some y) = l.filter (fun e => e.1 == some y) := by
    simp [List.filter_append]
  have e2 : (l ++ [((none : Option Acct), k)]).filter (fun e => e.1.isNone) = [(none, k)] := by
    rw [List.filter_append]
    have : l.filter (fun e => e.1.isNone) = [] := by
      rw [List.filter_eq_nil_iff]
      intro e he
      have := (hl e he).1
      cases h1 : e.1 <;> simp_all
    simp [this]
  rw [e1, e2]
  have hk : isSk ((none : Option Acct), k) = true := by simp [isSk, hk1]
  have hnl : ∀ e ∈ (l.filter (fun e => e.1 == some y)).map (fun e => ((none : Option Acct), e.2)), isSk e = false := by
    intro e he
    obtain ⟨e0, he0, rfl⟩ := List.mem_map.mp he
    have := (hl e0 (List.mem_filter.mp he0).1).2.1
    simp [isSk, this]
  have hany : ((l.filter (fun (e : Option Acct × Ct) => e.1 == some y)).map (fun (e : Option Acct × Ct) => ((none : Option Acct), e.2)) ++ [(none, k)]).any isSk = true := by
    simp [hk]
  have hanyn : ((l.filter (fun (e : Option Acct × Ct) => e.1 == some y)).map (fun (e : Option Acct × Ct) => ((none : Option Acct), e.2)) ++ [(none, k)]).any (fun e => !isSk e)
      = (l ++ [((none : Option Acct), k)]).any (fun e => e.1 == some y) := by
    rw [List.any_append, List.any_append]
    simp only [List.any_cons, List.any_nil, hk, Bool.not_true, Bool.or_false, Bool.false_or]
    have h1 : (none == some y) = false := by simp
    simp only [h1, Bool.or_false]
    rw [Bool.eq_iff_iff, List.any_eq_true, List.any_eq_true]
    constructor
    · rintro ⟨e, he, _⟩
      obtain ⟨e0, he0, rfl⟩ := List.mem_map.mp he
      exact ⟨e0, (List.mem_filter.mp he0).1, (List.mem_filter.mp he0).2⟩
    · rintro ⟨e, he, hy⟩
      refine ⟨(none, e.2), List.mem_map.mpr ⟨e, List.mem_filter.mpr ⟨he, hy⟩, rfl⟩, ?_⟩
      have := (hl e he).2.1
      simp [isSk, this]
  have hall : ((l.filter (fun (e : Option Acct × Ct) => e.1 == some y)).map (fun (e : Option Acct × Ct) => ((none : Option Acct), e.2)) ++ [(none, k)]).all isSk
      = (l ++ [((none : Option Acct), k)]).all (fun e => e.1 != some y) := by
    have := congrArg (fun b => !b) hanyn
    simp only [List.not_any_eq_all_not, Bool.not_not] at this
    rw [this]
    congr 1
  by_cases ha : a' = a
  · subst ha
    simp only [if_true, cls, isDistDown, needsDown, isDistUp, needsUp, beq_self_eq_true, Bool.and_true, hany, hanyn, hall]
    rfl
  · have : (a == a') = false := by simp; exact fun e => ha e.symm
    simp [cls, isDistDown, needsDown, ha, this]

end Yow.E2E

namespace Yow.E2E

section
variable {accts : List Acct} {groups : List (Nat × List Acct)}

theorem DownDec.plain {V : View} {y : Acct} {st : Stanza} (h : ∀ id peer part im encs pl, st ≠ .msg id peer part im encs pl) :
    DownDec V y st := by
  cases st with
  | msg id peer part im encs pl => exact absurd rfl (h id peer part im encs pl)
  | _ => trivial

theorem plainDown_nomsg {st : Stanza} (h : ∀ id peer part im encs pl, st ≠ .msg id peer part im encs pl) : PlainDown st :=
  PlainDown.of_not_group (fun id g a im encs pl => h id (.group g) (some a) im encs pl)

theorem plainUpK_nomsg {st : Stanza} (h : ∀ id peer part im encs pl, st ≠ .msg id peer part im encs pl) : PlainUpK st :=
  PlainUpK.of_not_group (fun id g im encs pl => h id (.group g) none im encs pl)

theorem srv_finish {s s' : Sys} {a : Acct} {st : Stanza} {rest : List Stanza} {add : Acct → List Stanza}
    (hD : DV groups (view s)) (hG : GV groups (view s)) (hq : queueOf s.inbound a = st :: rest)
    (hv : view s' = ((view s).popIn a rest).pushes add)
    (hdown : ∀ b st', st' ∈ add b → DownDec (view s) b st')
    (hc1 : ∀ b st', st' ∈ add b → ∀ e ∈ (getClient s b).iqReg, ∀ n, e.2 = Cont.groupInfo n → stanzaIq st' = some e.1 →
      ∃ g, n.dest = .group g ∧ st' = .groupInfo e.1 g ((lookup groups g).getD []))
    (hadd : ∀ a' g y, y ∈ (lookup groups g).getD [] → y ≠ a' → scan (isDistDown a' g) (needsDown a' g) (add y) =
      if a' = a then cls (isDistUp g y) (needsUp g y) st else none) :
    DV groups (view s') ∧ GV groups (view s') := by
  rw [hv]
  exact ⟨hD.server_step ⟨hq, hdown, hc1⟩, hG.server hq hadd⟩

theorem process_crypto (hnd : ∀ g ∈ groups, g.2.Nodup) {s : Sys} {a : Acct} {st : Stanza} {rest : List Stanza}
    (hA : AInv accts groups (abs s)) (hups : ∀ st' ∈ queueOf s.inbound a, UpShape st' ∧ upDir st')
    (hD : DV groups (view s)) (hG : GV groups (view s)) (hq : queueOf s.inbound a = st :: rest) :
    DV groups (view (serverProcess { s with inbound := insert s.inbound a rest } a st)) ∧
    GV groups (view (serverProcess { s with inbound := insert s.inbound a rest } a st)) := by
  have hmem : st ∈ (abs s).inb a := by
    show _ ∈ queueOf s.inbound a; rw [hq]; simp
  have hmem' : st ∈ (view s).inb a := hmem
  obtain ⟨ha, hu, _⟩ := hA.inb_ok a _ hmem
  have hud := hD.up a st hmem'
  obtain ⟨hshape, hdir⟩ := hups st (by rw [hq]; simp)
  have hgrp : s.groups = groups := hA.grp
  cases st with
  | msg id dest part im encs pl =>
    obtain ⟨_, n, hn1, hn2, hn3, _, hpi⟩ := hu
    have hreg := hA.sub_reg a n hn1
    cases dest with
    | user b =>
      obtain ⟨hpart, hsA⟩ : part = none ∧ ShapeA encs := hshape
      subst hpart
      have hint : intendedG groups a n = [b] := by simp [intendedG, hn3]
      have hb : b ∈ accts := hreg.2 b (by rw [hint]; simp)
      have hregb : registered s b = true := (hA.reg b).mpr hb
      refine srv_finish hD hG hq (add := fun b' => single a (.ack id 0) b' ++ single b (.msg id (.user a) none im encs pl) b') ?_ ?_ ?_ ?_
      · simp only [serverProcess]
        rw [if_pos (show registered (push { s with inbound := insert s.inbound a rest } a (.ack id 0)) b = true from hregb)]
        rw [view_push', view_push', view_setInbound, View.pushes_pushes, ShapeA_filter_direct hsA]
      · intro b' st' hst'
        rcases List.mem_append.mp hst' with h1 | h1
        · obtain ⟨_, rfl⟩ := mem_single h1; exact DownDec.plain (fun _ _ _ _ _ _ e => by cases e)
        · obtain ⟨rfl, rfl⟩ := mem_single h1
          refine ⟨Or.inl hsA, ?_⟩
          intro e he
          exact ⟨(hud e he).1, (hud e he).2 b' rfl⟩
      · intro b' st' hst' e _ n' _ hiq
        rcases List.mem_append.mp hst' with h1 | h1
        · obtain ⟨_, rfl⟩ := mem_single h1; cases hiq
        · obtain ⟨_, rfl⟩ := mem_single h1; cases hiq
      · intro a' g y _ _
        rw [plainUpK_user g y]
        have : scan (isDistDown a' g) (needsDown a' g) (single a (.ack id 0) y ++ single b (.msg id (.user a) none im encs pl) y) = none := by
          apply scan_plainDown
          intro st' hst'
          rcases List.mem_append.mp hst' with h1 | h1
          · obtain ⟨_, rfl⟩ := mem_single h1; exact plainDown_nomsg (fun _ _ _ _ _ _ e => by cases e)
          · obtain ⟨_, rfl⟩ := mem_single h1; exact plainDown_shapeA hsA
        rw [this]; split <;> rfl
    | group g =>
      cases part with
      | some p =>
        have hsA : ShapeA encs := hshape
        have hp : p ∈ accts := hreg.2 p (hpi p rfl)
        have hregp : registered s p = true := (hA.reg p).mpr hp
        refine srv_finish hD hG hq (add := fun b' => single a (.ack id 0) b' ++ single p (.msg id (.group g) (some a) im encs pl) b') ?_ ?_ ?_ ?_
        · simp only [serverProcess]
          rw [if_pos (show registered (push { s with inbound := insert s.inbound a rest } a (.ack id 0)) p = true from hregp)]
          rw [view_push', view_push', view_setInbound, View.pushes_pushes, ShapeA_filter_direct hsA]
        · intro b' st' hst'
          rcases List.mem_append.mp hst' with h1 | h1
          · obtain ⟨_, rfl⟩ := mem_single h1; exact DownDec.plain (fun _ _ _ _ _ _ e => by cases e)
          · obtain ⟨rfl, rfl⟩ := mem_single h1
            refine ⟨Or.inl hsA, ?_⟩
            intro e he
            exact ⟨(hud e he).1, (hud e he).2 b' rfl⟩
        · intro b' st' hst' e _ n' _ hiq
          rcases List.mem_append.mp hst' with h1 | h1
          · obtain ⟨_, rfl⟩ := mem_single h1; cases hiq
          · obtain ⟨_, rfl⟩ := mem_single h1; cases hiq
        · intro a' g' y _ _
          rw [plainUpK_some g' y]
          have : scan (isDistDown a' g') (needsDown a' g') (single a (.ack id 0) y ++ single p (.msg id (.group g) (some a) im encs pl) y) = none := by
            apply scan_plainDown
            intro st' hst'
            rcases List.mem_append.mp hst' with h1 | h1
            · obtain ⟨_, rfl⟩ := mem_single h1; exact plainDown_nomsg (fun _ _ _ _ _ _ e => by cases e)
            · obtain ⟨_, rfl⟩ := mem_single h1; exact plainDown_shapeA hsA
          rw [this]; split <;> rfl
      | none =>
        have hsB : ShapeB (fun t => t.isSome = true) encs := hshape
        have htn : (((lookup groups g).getD []).filter (· != a)).Nodup := (members_nodup hnd g).sublist List.filter_sublist
        have hmem2 : members (push { s with inbound := insert s.inbound a rest } a (.ack id 0)) g = (lookup groups g).getD [] := by
          show (lookup s.groups g).getD [] = _; rw [hgrp]
        refine srv_finish hD hG hq (add := fun b' => single a (.ack id 0) b' ++ fan (((lookup groups g).getD []).filter (· != a))
          (fun m => Stanza.msg id (.group g) (some a) im
            ((encs.filter (fun e => e.1 == some m)).map (fun e => (none, e.2)) ++ encs.filter (fun e => e.1.isNone)) pl) b') ?_ ?_ ?_ ?_
        · simp only [serverProcess]
          rw [hmem2, view_foldl_push_nodup _ htn, view_push', view_setInbound, View.pushes_pushes]
        · intro b' st' hst'
          rcases List.mem_append.mp hst' with h1 | h1
          · obtain ⟨_, rfl⟩ := mem_single h1; exact DownDec.plain (fun _ _ _ _ _ _ e => by cases e)
          · obtain ⟨_, rfl⟩ := mem_fan h1
            refine ⟨Or.inr ⟨rfl, ShapeB_filter_direct b' hsB⟩, ?_⟩
            intro e he
            rcases List.mem_append.mp he with h2 | h2
            · obtain ⟨e0, he0, rfl⟩ := List.mem_map.mp h2
              have hm := List.mem_filter.mp he0
              refine ⟨(hud e0 hm.1).1, (hud e0 hm.1).2 b' ?_⟩
              show e0.1 = some b'
              simpa using hm.2
            · have hm := List.mem_filter.mp h2
              refine ⟨(hud e hm.1).1, ?_⟩
              -- a ciphertext without addressee is the sender-key ciphertext
              obtain ⟨l, k, rfl, hk1, _, hl⟩ := hsB
              rcases List.mem_append.mp hm.1 with h3 | h3
              · have := (hl e h3).1
                have h4 := hm.2
                cases he1 : e.1 <;> simp_all
              · rw [List.mem_singleton] at h3; subst h3
                intro hk; exact absurd hk1 hk
        · intro b' st' hst' e _ n' _ hiq
          rcases List.mem_append.mp hst' with h1 | h1
          · obtain ⟨_, rfl⟩ := mem_single h1; cases hiq
          · obtain ⟨_, rfl⟩ := mem_fan h1; cases hiq
        · intro a' g' y hy hya
          rw [scan_append]
          have h1 : scan (isDistDown a' g') (needsDown a' g') (single a (.ack id 0) y) = none := by
            apply scan_plainDown
            intro st' hst'
            obtain ⟨_, rfl⟩ := mem_single hst'
            exact plainDown_nomsg (fun _ _ _ _ _ _ e => by cases e)
          rw [h1]
          simp only
          by_cases hyt : y ∈ ((lookup groups g).getD []).filter (· != a)
          · have : fan (((lookup groups g).getD []).filter (· != a)) (fun m => Stanza.msg id (.group g) (some a) im
                ((encs.filter (fun e => e.1 == some m)).map (fun e => (none, e.2)) ++ encs.filter (fun e => e.1.isNone)) pl) y
                = [Stanza.msg id (.group g) (some a) im
                ((encs.filter (fun e => e.1 == some y)).map (fun e => (none, e.2)) ++ encs.filter (fun e => e.1.isNone)) pl] := by
              unfold fan; rw [if_pos hyt]
            rw [this, scan_singleton, cls_fan hsB]
          · have : fan (((lookup groups g).getD []).filter (· != a)) (fun m => Stanza.msg id (.group g) (some a) im
                ((encs.filter (fun e => e.1 == some m)).map (fun e => (none, e.2)) ++ encs.filter (fun e => e.1.isNone)) pl) y = [] := by
              unfold fan; rw [if_neg hyt]
            rw [this]
            simp only [scan]
            by_cases ha' : a' = a
            · subst ha'
              rw [if_pos rfl]
              -- `y` is not a member of `g`, so the stanza is for another group
              have hgg : g ≠ g' := by
                intro e; subst e
                exact hyt (List.mem_filter.mpr ⟨hy, by simpa using hya⟩)
              have : (g == g') = false := by simpa using hgg
              simp [cls, isDistUp, needsUp, this]
            · rw [if_neg ha']
  | receipt id peer part t =>
    obtain ⟨a', n, hn1, hn2, hn3, horig⟩ := hu
    have ha' : a' ∈ accts := (hA.sub_reg a' n hn1).1
    have hreg : registered s a' = true := (hA.reg a').mpr ha'
    have key : ∃ peer' part', view (serverProcess { s with inbound := insert s.inbound a rest } a (.receipt id peer part t))
        = ((view s).popIn a rest).pushes (fun b => single a (.ack id 1) b ++ single a' (.receipt id peer' part' t) b) := by
      unfold Origin at horig
      split at horig
      · next b hb =>
        obtain ⟨rfl, rfl⟩ := horig
        refine ⟨.user a, none, ?_⟩
        simp only [serverProcess]
        rw [if_pos (show registered (push { s with inbound := insert s.inbound a rest } a (.ack id 1)) a' = true from hreg)]
        rw [view_push', view_push', view_setInbound, View.pushes_pushes]
      · next g hg =>
        obtain ⟨rfl, rfl⟩ := horig
        refine ⟨.group g, some a, ?_⟩
        simp only [serverProcess]
        rw [if_pos (show registered (push { s with inbound := insert s.inbound a rest } a (.ack id 1)) a' = true from hreg)]
        rw [view_push', view_push', view_setInbound, View.pushes_pushes]
    obtain ⟨peer', part', hv⟩ := key
    refine srv_finish hD hG hq hv ?_ ?_ ?_
    · intro b' st' hst'
      rcases List.mem_append.mp hst' with h1 | h1
      · obtain ⟨_, rfl⟩ := mem_single h1; exact DownDec.plain (fun _ _ _ _ _ _ e => by cases e)
      · obtain ⟨_, rfl⟩ := mem_single h1; exact DownDec.plain (fun _ _ _ _ _ _ e => by cases e)
    · intro b' st' hst' e _ n' _ hiq
      rcases List.mem_append.mp hst' with h1 | h1
      · obtain ⟨_, rfl⟩ := mem_single h1; cases hiq
      · obtain ⟨_, rfl⟩ := mem_single h1; cases hiq
    · intro a'' g y _ _
      rw [plainUpK_nomsg (fun _ _ _ _ _ _ e => by cases e) g y]
      have : scan (isDistDown a'' g) (needsDown a'' g) (single a (.ack id 1) y ++ single a' (.receipt id peer' part' t) y) = none := by
        apply scan_plainDown
        intro st' hst'
        rcases List.mem_append.mp hst' with h1 | h1
        · obtain ⟨_, rfl⟩ := mem_single h1; exact plainDown_nomsg (fun _ _ _ _ _ _ e => by cases e)
        · obtain ⟨_, rfl⟩ := mem_single h1; exact plainDown_nomsg (fun _ _ _ _ _ _ e => by cases e)
      rw [this]; split <;> rfl
  | ack id cls' =>
    refine srv_finish hD hG hq (add := fun _ => []) ?_ (fun b st' h => by cases h) (fun b st' h => by cases h) ?_
    · simp only [serverProcess]
      rw [view_setInbound, View.pushes_nil]
    · intro a' g y _ _
      rw [plainUpK_nomsg (fun _ _ _ _ _ _ e => by cases e) g y]
      simp only [scan]; split <;> rfl
  | keys iq got => exact absurd hdir (by simp [upDir])
  | groupInfo iq g ms => exact absurd hdir (by simp [upDir])
  | getKeys iq jids =>
    refine srv_finish hD hG hq (add := single a (.keys iq (jids.filter (registered { s with inbound := insert s.inbound a rest })))) ?_ ?_ ?_ ?_
    · simp only [serverProcess]
      rw [view_push', view_setInbound]
    · intro b' st' hst'
      obtain ⟨_, rfl⟩ := mem_single hst'; exact DownDec.plain (fun _ _ _ _ _ _ e => by cases e)
    · intro b' st' hst' e he n' hn' hiq
      obtain ⟨rfl, rfl⟩ := mem_single hst'
      -- the request for this id would have to be a group query
      obtain ⟨g, _, h2, _⟩ := hD.c1 b' e he n' hn'
      have := h2 _ hmem' (by simpa [stanzaIq] using hiq)
      cases this
    · intro a' g y _ _
      rw [plainUpK_nomsg (fun _ _ _ _ _ _ e => by cases e) g y]
      have : scan (isDistDown a' g) (needsDown a' g) (single a (.keys iq (jids.filter (registered { s with inbound := insert s.inbound a rest }))) y) = none := by
        apply scan_plainDown
        intro st' hst'
        obtain ⟨_, rfl⟩ := mem_single hst'; exact plainDown_nomsg (fun _ _ _ _ _ _ e => by cases e)
      rw [this]; split <;> rfl
  | getGroup iq g =>
    refine srv_finish hD hG hq (add := single a (.groupInfo iq g (members { s with inbound := insert s.inbound a rest } g))) ?_ ?_ ?_ ?_
    · simp only [serverProcess]
      rw [view_push', view_setInbound]
    · intro b' st' hst'
      obtain ⟨_, rfl⟩ := mem_single hst'; exact DownDec.plain (fun _ _ _ _ _ _ e => by cases e)
    · intro b' st' hst' e he n' hn' hiq
      obtain ⟨rfl, rfl⟩ := mem_single hst'
      obtain ⟨g', h1, h2, _⟩ := hD.c1 b' e he n' hn'
      have hiq' : iq = e.1 := by simpa [stanzaIq] using hiq
      have := h2 _ hmem' (by simp [stanzaIq, hiq'])
      cases this
      refine ⟨g, h1, ?_⟩
      show Stanza.groupInfo e.1 g ((lookup s.groups g).getD []) = _
      rw [hgrp]
    · intro a' g' y _ _
      rw [plainUpK_nomsg (fun _ _ _ _ _ _ e => by cases e) g' y]
      have : scan (isDistDown a' g') (needsDown a' g') (single a (.groupInfo iq g (members { s with inbound := insert s.inbound a rest } g)) y) = none := by
        apply scan_plainDown
        intro st' hst'
        obtain ⟨_, rfl⟩ := mem_single hst'; exact plainDown_nomsg (fun _ _ _ _ _ _ e => by cases e)
      rw [this]; split <;> rfl

end

end Yow.E2E
