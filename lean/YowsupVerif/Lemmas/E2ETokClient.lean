/-
  Token conservation in the E2E system model, part 20: the delivery of a stanza to a client (`deliver a none`) and the
  restart of a client preserve the invariant.
-/
import YowsupVerif.Lemmas.E2ETokDeliver
import YowsupVerif.Lemmas.E2ETokAppSend
namespace Yow.E2E

section
variable {ex : Bool} {accts : List Acct} {groups : List (Nat × List Acct)}

theorem lookup_none_not_mem {α β : Type} [DecidableEq α] {l : List (α × β)} {k : α} (h : lookup l k = none) :
    ∀ p ∈ l, p.1 ≠ k := by
  intro p hp e
  induction l with
  | nil => cases hp
  | cons q l ih =>
    rw [lookup_cons] at h
    split at h
    · cases h
    · next hq =>
      rcases List.mem_cons.mp hp with h1 | h1
      · subst h1; exact hq e
      · exact ih h h1

theorem onIqResult_TV' (hw : WFConfig accts groups) {s : Sys} {a : Acct} {hd : Stanza} {rest : List Stanza} {iq : Nat}
    {got ms : List Acct}
    (hA : AInv accts groups (abs s)) (hT : TV ex accts groups s.submitted (view s)) (ha : a ∈ accts)
    (hq : queueOf s.outbound a = hd :: rest) (hiq : stanzaIq hd = some iq)
    (hplain : ∀ id r, downTok id hd = 0 ∧ nOf id hd = 0 ∧ rcptOut id r hd = 0 ∧ retryDownTok id r hd = 0)
    (hgot : ∀ k0, lookup (getClient s a).iqReg iq = some k0 → ∀ j, j ∈ asked k0 → j ∈ got) :
    TV ex accts groups s.submitted (view (onIqResult { s with outbound := insert s.outbound a rest } a iq got ms)) := by
  cases hk0 : lookup (getClient s a).iqReg iq with
  | none =>
    have : onIqResult { s with outbound := insert s.outbound a rest } a iq got ms = { s with outbound := insert s.outbound a rest } := by
      unfold onIqResult
      have hgc : getClient { s with outbound := insert s.outbound a rest } a = getClient s a := rfl
      simp only [hgc, hk0]
    rw [this, view_setOutbound]
    refine pop_only hw.1 hT ha hq (fun id r => ⟨(hplain id r).1, (hplain id r).2.2.2, (hplain id r).2.2.1, (hplain id r).2.1⟩) ?_
    intro e he
    rw [hiq]
    intro e'
    exact lookup_none_not_mem hk0 e he (Option.some.inj e').symm
  | some k0 =>
    cases hcn : contNode k0 with
    | some nw =>
      obtain ⟨n, who⟩ := nw
      exact onIqResult_sender' hw hA hT ha hq hiq hplain hk0 hcn (hgot k0 hk0)
    | none =>
      cases k0 with
      | keysForPending peer part => exact onIqResult_pending hw hA hT ha hq hiq hplain hk0 (hgot _ hk0)
      | _ => cases hcn

theorem onIqResult_TV (hw : WFConfig accts groups) {s : Sys} {a : Acct} {hd : Stanza} {rest : List Stanza} {iq : Nat}
    {got ms : List Acct}
    (hA : AInv accts groups (abs s)) (hT : TV ex accts groups s.submitted (view s)) (ha : a ∈ accts)
    (_hlen : s.submitted.length ≤ 100)
    (hq : queueOf s.outbound a = hd :: rest) (hiq : stanzaIq hd = some iq)
    (hplain : ∀ id r, downTok id hd = 0 ∧ nOf id hd = 0 ∧ rcptOut id r hd = 0 ∧ retryDownTok id r hd = 0)
    (hgot : ∀ k0, lookup (getClient s a).iqReg iq = some k0 → ∀ j, j ∈ asked k0 → j ∈ got) :
    TV ex accts groups s.submitted (view (onIqResult { s with outbound := insert s.outbound a rest } a iq got ms)) :=
  onIqResult_TV' hw hA hT ha hq hiq hplain hgot

/-- a delivery; the bound on the number of submissions is needed only when a retry request is delivered -/
theorem deliver_TInv' (hw : WFConfig accts groups) {s : Sys} {a : Acct}
    (h : TInv ex accts groups s) (hall : Allowed s (.deliver a .none) = true)
    (hlen : s.submitted.length ≤ 100 ∨
      ∀ st ∈ queueOf s.outbound a, ∀ id peer part cnt, st ≠ .receipt id peer part (.retry cnt)) :
    TInv ex accts groups (step s (.deliver a .none)) := by
  obtain ⟨hA, hT⟩ := h
  refine ⟨step_inv hA hall, ?_⟩
  cases hq : queueOf s.outbound a with
  | nil =>
    have : step s (.deliver a .none) = s := by simp only [step, hq]
    rw [this]; exact hT
  | cons st rest =>
    have hstep : step s (.deliver a .none) = clientReceive { s with outbound := insert s.outbound a rest } a st := by
      simp only [step, hq]
    have hmem : st ∈ (abs s).outb a := by
      show st ∈ queueOf s.outbound a
      rw [hq]; simp
    obtain ⟨ha, hd, hl⟩ := hA.outb_ok a st hmem
    have h' : AInv accts groups (abs { s with outbound := insert s.outbound a rest }) := by
      rw [abs_setOutbound]
      refine hA.setOutb ?_
      intro st' hst'
      show st' ∈ queueOf s.outbound a
      rw [hq]; exact List.mem_cons_of_mem _ hst'
    have hsub : (clientReceive { s with outbound := insert s.outbound a rest } a st).submitted = s.submitted :=
      (clientReceive_good (s := { s with outbound := insert s.outbound a rest }) h' ha hd (by rw [abs_setOutbound]; exact hl)).2
    rw [hstep, hsub]
    have hdg := hT.downs a st hmem
    cases st with
    | msg id peer part im encs pl => exact deliver_msg_TV hw hA hT hq
    | receipt id peer part t =>
      cases t with
      | delivery => exact onReceipt_delivery_TV hw hA hT hq
      | retry cnt =>
        rcases hlen with hlen | hnr
        · exact onReceipt_retry_TV hw hA hT hlen hq
        · exact absurd rfl (hnr _ (by rw [hq]; simp) id peer part cnt)
    | ack id cls =>
      show TV ex accts groups s.submitted (view { s with outbound := insert s.outbound a rest })
      rw [view_setOutbound]
      exact pop_only hw.1 hT ha hq (fun _ _ => ⟨rfl, rfl, rfl, rfl⟩) (fun e _ => by simp [stanzaIq])
    | getKeys iq jids => exact absurd hdg.dir (by simp [downDir])
    | getGroup iq g => exact absurd hdg.dir (by simp [downDir])
    | keys iq got =>
      refine onIqResult_TV' hw hA hT ha hq rfl (fun _ _ => ⟨rfl, rfl, rfl, rfl⟩) ?_
      intro k0 hk0 j hj
      exact (hl iq rfl).2 k0 hk0 j hj
    | groupInfo iq g ms =>
      refine onIqResult_TV' hw hA hT ha hq rfl (fun _ _ => ⟨rfl, rfl, rfl, rfl⟩) ?_
      intro k0 hk0 j hj
      exact (hl iq rfl).2 k0 hk0 j hj

theorem deliver_TInv (hw : WFConfig accts groups) {s : Sys} {a : Acct}
    (h : TInv ex accts groups s) (hall : Allowed s (.deliver a .none) = true) (hlen : s.submitted.length ≤ 100) :
    TInv ex accts groups (step s (.deliver a .none)) := deliver_TInv' hw h hall (Or.inl hlen)

end

end Yow.E2E
