/-
  Exactly-once with server faults, part 9: the send layer's functions again, with the sessions and keys the new
  ciphertexts name.
-/
import YowsupVerif.Lemmas.E2ETokKeys
import YowsupVerif.Lemmas.E2ETokFDec
namespace Yow.E2E

theorem encryptFor_full {c : Client} {peer : Acct} {plain : Plain} {nonce : Nat} {ct : Ct}
    (h : encryptFor c peer plain nonce = some ct) :
    ∃ se, lookup c.sessions peer = some se ∧ ct.sess = se.cur ∧ (ct.kind = .msg → se.pendingPre = false) ∧
      ct.kind ≠ .skmsg ∧ ct.plain = plain ∧ ct.corrupt = false ∧ ct.ctr = nonce := by
  unfold encryptFor at h
  split at h
  · cases h
  · next se hse =>
    cases h
    refine ⟨se, hse, rfl, ?_, ?_, rfl, rfl, rfl⟩
    · dsimp only
      cases se.pendingPre <;> simp
    · dsimp only
      split <;> simp

theorem encryptEach_full (c : Client) (plain : Plain) (l : List Acct) : ∀ nonce,
    (∀ jc ∈ encryptEach c plain nonce l, jc.1 ∈ l ∧ ∃ n', encryptFor c jc.1 plain n' = some jc.2) ∧
    (∀ j ∈ l, (lookup c.sessions j).isSome = true → ∃ jc ∈ encryptEach c plain nonce l, jc.1 = j) := by
  induction l with
  | nil => intro nonce; simp [encryptEach]
  | cons j js ih =>
    intro nonce
    obtain ⟨h1, h2⟩ := ih (nonce + 1)
    unfold encryptEach
    split
    · next hnone =>
      constructor
      · intro jc hjc
        obtain ⟨p1, p2⟩ := h1 jc hjc
        exact ⟨List.mem_cons_of_mem _ p1, p2⟩
      · intro j' hj' hs
        rcases List.mem_cons.mp hj' with e | e
        · subst e
          unfold encryptFor at hnone
          split at hnone
          · next hl => rw [hl] at hs; cases hs
          · cases hnone
        · exact h2 j' e hs
    · next ct hct =>
      constructor
      · intro jc hjc
        rcases List.mem_cons.mp hjc with e | e
        · subst e; exact ⟨by simp, nonce, hct⟩
        · obtain ⟨p1, p2⟩ := h1 jc e
          exact ⟨List.mem_cons_of_mem _ p1, p2⟩
      · intro j' hj' hs
        rcases List.mem_cons.mp hj' with e | e
        · subst e; exact ⟨(j', ct), by simp, rfl⟩
        · obtain ⟨jc, hjc, hj⟩ := h2 j' e hs
          exact ⟨jc, List.mem_cons_of_mem _ hjc, hj⟩

/-- the own key after `ownSenderKey`: as before, or made now -/
theorem ownSenderKey_full (s : Sys) (c : Client) (g : Nat) :
    ∃ sk, (ownSenderKey s c g).2.1 = { c with ownSK := sk } ∧ lookup sk g = some (ownSenderKey s c g).2.2 ∧
      (∀ g' gen, lookup c.ownSK g' = some gen → lookup sk g' = some gen) ∧
      (∀ g', (lookup sk g').isSome = true → (lookup c.ownSK g').isSome = true ∨ g' = g) ∧
      view (ownSenderKey s c g).1 = view s ∧ (ownSenderKey s c g).1.nextCtr = s.nextCtr := by
  unfold ownSenderKey
  split
  · next gen hgen => exact ⟨c.ownSK, rfl, hgen, fun _ _ h => h, fun _ h => Or.inl h, rfl, rfl⟩
  · next hnone =>
    refine ⟨insert c.ownSK g s.nextGen, rfl, by simp [lookup_insert], ?_, ?_, rfl, rfl⟩
    · intro g' gen hg'
      rw [lookup_insert]
      split
      · next e => subst e; rw [hnone] at hg'; cases hg'
      · exact hg'
    · intro g' hg'
      rw [lookup_insert] at hg'
      split at hg'
      · next e => exact Or.inr e
      · exact Or.inl hg'

/-- the first send of a group message, with what its ciphertexts name -/
theorem view_sgws_first_x (s : Sys) (a : Acct) (c : Client) (n : Node) (g : Nat) (need : List Acct) (ha : a ∈ (view s).accounts) :
    ∃ sk l kct gen,
      view (sendToGroupWithSessions s a c n g need 0) =
        (view s).cstep a (enqueueSent { c with ownSK := sk } n)
          [.msg n.id n.dest none n.payload.isMedia (l ++ [(none, kct)]) none] (s.nextCtr + need.length + 1) ∧
      lookup sk g = some gen ∧
      (∀ g' gen', lookup c.ownSK g' = some gen' → lookup sk g' = some gen') ∧
      (∀ g', (lookup sk g').isSome = true → (lookup c.ownSK g').isSome = true ∨ g' = g) ∧
      kct.kind = .skmsg ∧ kct.plain = { skdm := none, content := some n.payload } ∧ kct.corrupt = false ∧ kct.sess = gen ∧
      (∀ e ∈ l, ∃ j se, e.1 = some j ∧ j ∈ need ∧ lookup c.sessions j = some se ∧ e.2.sess = se.cur ∧
        (e.2.kind = .msg → se.pendingPre = false) ∧ e.2.kind ≠ .skmsg ∧ e.2.plain = { skdm := some (g, gen), content := none } ∧
        e.2.corrupt = false) ∧
      (∀ j ∈ need, (lookup c.sessions j).isSome = true → ∃ e ∈ l, e.1 = some j) := by
  have heq : sendToGroupWithSessions s a c n g need 0 = sgTail a n g 0 none (sgFirst s c n g need 0 none) := by
    rw [sendToGroupWithSessions_eq]
    cases need with
    | nil => rfl
    | cons j t => cases t <;> rfl
  rw [heq]
  unfold sgFirst
  split
  · next hemp =>
    have hnil : need = [] := by simpa using hemp
    subst hnil
    obtain ⟨sk, h1, h2, h3, h3', h4, h5⟩ := ownSenderKey_full s c g
    refine ⟨sk, [], { kind := .skmsg, sess := (ownSenderKey s c g).2.2, ctr := s.nextCtr, plain := { skdm := none, content := some n.payload }, corrupt := false },
      (ownSenderKey s c g).2.2, ?_, h2, h3, h3', rfl, rfl, rfl, rfl, by simp, by simp⟩
    simp only [sgTail, if_true]
    rw [view_sendEnc _ _ _ _ _ _ (by rw [view_nextCtr]; show a ∈ (view (ownSenderKey s c g).1).accounts; rw [h4]; exact ha)]
    rw [view_nextCtr, h4, h1, h5]
    simp
  · next hne =>
    obtain ⟨sk, h1, h2, h3, h3', h4, h5⟩ := ownSenderKey_full s c g
    generalize hos : ownSenderKey s c g = os at h1 h2 h4 h5
    obtain ⟨s', c', gen⟩ := os
    simp only at h1 h2 h4 h5
    subst h1
    obtain ⟨e1, e2⟩ := encryptEach_full { c with ownSK := sk } { skdm := some (g, gen), content := if 0 > 0 then some n.payload else none } need s'.nextCtr
    have hos2 : ownSenderKey { s' with nextCtr := s'.nextCtr + need.length } { c with ownSK := sk } g
        = ({ s' with nextCtr := s'.nextCtr + need.length }, { c with ownSK := sk }, gen) := by
      unfold ownSenderKey
      simp only [h2]
    refine ⟨sk, (encryptEach { c with ownSK := sk } { skdm := some (g, gen), content := if 0 > 0 then some n.payload else none } s'.nextCtr need).map
        (fun jc => (some jc.1, jc.2)),
      { kind := .skmsg, sess := gen, ctr := s.nextCtr + need.length, plain := { skdm := none, content := some n.payload }, corrupt := false },
      gen, ?_, h2, h3, h3', rfl, rfl, rfl, rfl, ?_, ?_⟩
    · simp only [sgTail, if_true, Option.isSome_none, Bool.false_eq_true, if_false, hos2]
      rw [view_sendEnc _ _ _ _ _ _ (by simp only [view_nextCtr]; show a ∈ (view s').accounts; rw [h4]; exact ha)]
      simp only [view_nextCtr, h4, h5]
      simp [Nat.add_assoc]
    · intro e he
      obtain ⟨jc, hjc, rfl⟩ := List.mem_map.mp he
      obtain ⟨p1, n', p2⟩ := e1 jc hjc
      obtain ⟨se, q1, q2, q3, q4, q5, q6, _⟩ := encryptFor_full p2
      exact ⟨jc.1, se, rfl, p1, q1, q2, q3, q4, by rw [q5]; simp, q6⟩
    · intro j hj hs
      obtain ⟨jc, hjc, hj'⟩ := e2 j hj hs
      exact ⟨(some jc.1, jc.2), List.mem_map.mpr ⟨jc, hjc, rfl⟩, by rw [hj']⟩

/-- the resend of a group message to one participant, with what its ciphertext names -/
theorem view_sgws_retry_x (s : Sys) (a : Acct) (c : Client) (n : Node) (g : Nat) (who : Acct) (cnt : Nat) (se : Sess)
    (ha : a ∈ (view s).accounts) (hc : 1 ≤ cnt) (hse : lookup c.sessions who = some se) :
    ∃ sk ct gen,
      view (sendToGroupWithSessions s a c n g [who] cnt) =
        (view s).cstep a { c with ownSK := sk }
          [.msg n.id n.dest (some who) n.payload.isMedia [(none, ct)] none] (s.nextCtr + 1) ∧
      lookup sk g = some gen ∧
      (∀ g' gen', lookup c.ownSK g' = some gen' → lookup sk g' = some gen') ∧
      (∀ g', (lookup sk g').isSome = true → (lookup c.ownSK g').isSome = true ∨ g' = g) ∧
      ct.kind ≠ .skmsg ∧ ct.plain = { skdm := some (g, gen), content := some n.payload } ∧ ct.corrupt = false ∧
      ct.sess = se.cur ∧ (ct.kind = .msg → se.pendingPre = false) := by
  rw [sendToGroupWithSessions_eq]
  have hpos : cnt > 0 := hc
  have hne : ¬ cnt = 0 := by omega
  simp only [hpos, if_true]
  unfold sgFirst
  simp only [List.isEmpty_cons, Bool.false_eq_true, if_false, Option.isSome_some, if_true, hpos]
  obtain ⟨sk, h1, h2, h3, h3', h4, h5⟩ := ownSenderKey_full s c g
  generalize hos : ownSenderKey s c g = os at h1 h2 h4 h5
  obtain ⟨s', c', gen⟩ := os
  simp only at h1 h2 h4 h5
  subst h1
  have henc : encryptFor { c with ownSK := sk } who { skdm := some (g, gen), content := some n.payload } s'.nextCtr
      = some { kind := if se.pendingPre then .pkmsg else .msg, sess := se.cur, ctr := s'.nextCtr,
               plain := { skdm := some (g, gen), content := some n.payload }, corrupt := false } := by
    simp [encryptFor, hse]
  let ct0 : Ct := { kind := (if se.pendingPre then EncKind.pkmsg else EncKind.msg), sess := se.cur, ctr := s.nextCtr, plain := { skdm := some (g, gen), content := some n.payload }, corrupt := false }
  refine ⟨sk, ct0, gen, ?_, h2, h3, h3', ?_, rfl, rfl, rfl, ?_⟩
  · simp only [sgTail, hne, if_false, encryptEach, henc, List.map_cons, List.map_nil]
    rw [view_sendEnc _ _ _ _ _ _ (by simp only [view_nextCtr]; show a ∈ (view s').accounts; rw [h4]; exact ha)]
    simp only [view_nextCtr, h4, h5]
    simp [ct0]
  · show (if se.pendingPre then EncKind.pkmsg else EncKind.msg) ≠ EncKind.skmsg
    split <;> simp
  · show (if se.pendingPre then EncKind.pkmsg else EncKind.msg) = EncKind.msg → _
    cases se.pendingPre <;> simp

-- ------------------------------------------------------------------------------------------------ sessions
theorem known_createSession (c : Client) (j : Acct) (sid : Nat) (j' : Acct) (σ : Nat) (h : known c j' σ) :
    known (createSession c j sid) j' σ := by
  obtain ⟨se, h1, h2⟩ := h
  unfold createSession known
  simp only [lookup_insert]
  split
  · next e =>
    subst e
    refine ⟨_, rfl, ?_⟩
    simp only [h1]
    rcases h2 with h2 | h2
    · right; simp [h2]
    · right; simp [h2]
  · exact ⟨se, h1, h2⟩

theorem createSession_old (c : Client) (j : Acct) (sid : Nat) (j' : Acct) (se : Sess)
    (h : lookup (createSession c j sid).sessions j' = some se) (hp : se.pendingPre = false) : lookup c.sessions j' = some se := by
  unfold createSession at h
  simp only [lookup_insert] at h
  split at h
  · cases h; cases hp
  · exact h

/-- `processKeys`: sessions only grow, the new ones still wait for the peer's first message -/
theorem processKeys_spec_x (r : Acct) (got : List Acct) (asked : List Acct) : ∀ (s : Sys), r ∈ (view s).accounts →
    (∀ j, j ∈ asked → j ∈ got) →
    ∃ c1, view (processKeys s r asked got).1 = (view s).cstep r c1 [] (view s).nextCtr ∧
      SameBut (getClient s r) c1 ∧ c1.iqReg = (getClient s r).iqReg ∧ c1.peerSK = (getClient s r).peerSK ∧
      (∀ j, j ∈ asked → (lookup c1.sessions j).isSome = true) ∧
      (∀ j σ, known (getClient s r) j σ → known c1 j σ) ∧
      (∀ j se, lookup c1.sessions j = some se → se.pendingPre = false → lookup (getClient s r).sessions j = some se) ∧
      (∀ j, (lookup (getClient s r).sessions j).isSome = true → (lookup c1.sessions j).isSome = true) ∧
      (processKeys s r asked got).2 = asked := by
  intro s hr hg
  unfold processKeys
  suffices H : ∀ (l : List Acct) (acc : Sys × List Acct), r ∈ (view acc.1).accounts → (∀ j, j ∈ l → j ∈ got) →
      ∃ c1, view (l.foldl (fun (acc : Sys × List Acct) j =>
          if got.contains j then
            (setClient { acc.1 with nextSess := acc.1.nextSess + 1 } r (createSession (getClient acc.1 r) j acc.1.nextSess), acc.2 ++ [j])
          else (setClient acc.1 r { getClient acc.1 r with skipEnc := (getClient acc.1 r).skipEnc ++ [.user j] }, acc.2)) acc).1
          = (view acc.1).cstep r c1 [] (view acc.1).nextCtr ∧
        SameBut (getClient acc.1 r) c1 ∧ c1.iqReg = (getClient acc.1 r).iqReg ∧ c1.peerSK = (getClient acc.1 r).peerSK ∧
        (∀ j, j ∈ l → (lookup c1.sessions j).isSome = true) ∧
        (∀ j σ, known (getClient acc.1 r) j σ → known c1 j σ) ∧
        (∀ j se, lookup c1.sessions j = some se → se.pendingPre = false → lookup (getClient acc.1 r).sessions j = some se) ∧
        (∀ j, (lookup (getClient acc.1 r).sessions j).isSome = true → (lookup c1.sessions j).isSome = true) ∧
        (l.foldl (fun (acc : Sys × List Acct) j =>
          if got.contains j then
            (setClient { acc.1 with nextSess := acc.1.nextSess + 1 } r (createSession (getClient acc.1 r) j acc.1.nextSess), acc.2 ++ [j])
          else (setClient acc.1 r { getClient acc.1 r with skipEnc := (getClient acc.1 r).skipEnc ++ [.user j] }, acc.2)) acc).2
          = acc.2 ++ l by
    obtain ⟨c1, h1, h2, h3, h4, h5, h6, h7, h8, h9⟩ := H asked (s, []) hr hg
    exact ⟨c1, h1, h2, h3, h4, h5, h6, h7, h8, by simpa using h9⟩
  intro l
  induction l with
  | nil =>
    intro acc _ _
    refine ⟨getClient acc.1 r, ?_, SameBut.rfl' _, rfl, rfl, (fun j hj => by cases hj), (fun _ _ h => h), (fun _ _ h _ => h),
      (fun _ h => h), by simp⟩
    simp only [List.foldl_nil]
    exact (View.cstep_id (view acc.1) r).symm
  | cons j l ih =>
    intro acc hacc hl
    rw [List.foldl_cons]
    have hj : got.contains j = true := by simpa using hl j (by simp)
    simp only [hj, if_true]
    have hv : view (setClient { acc.1 with nextSess := acc.1.nextSess + 1 } r (createSession (getClient acc.1 r) j acc.1.nextSess))
        = (view acc.1).cstep r (createSession (getClient acc.1 r) j acc.1.nextSess) [] (view acc.1).nextCtr :=
      view_setClient { acc.1 with nextSess := acc.1.nextSess + 1 } r _ hacc
    obtain ⟨c1, h1, h2, h3, h4, h5, h6, h7, h8, h9⟩ := ih
      (setClient { acc.1 with nextSess := acc.1.nextSess + 1 } r (createSession (getClient acc.1 r) j acc.1.nextSess), acc.2 ++ [j])
      (by rw [hv]; exact hacc) (fun j' hj' => hl j' (List.mem_cons_of_mem _ hj'))
    have hgc : getClient (setClient { acc.1 with nextSess := acc.1.nextSess + 1 } r (createSession (getClient acc.1 r) j acc.1.nextSess)) r
        = createSession (getClient acc.1 r) j acc.1.nextSess := by
      rw [getClient_setClient]; simp
    rw [hgc] at h2 h3 h4 h6 h7 h8
    obtain ⟨q1, q2, q3, q4⟩ := createSession_same (getClient acc.1 r) j acc.1.nextSess
    refine ⟨c1, ?_, q1.trans h2, h3.trans q2, h4, ?_, ?_, ?_, fun j' hj' => h8 j' (q4 j' hj'), ?_⟩
    · rw [h1, hv]
      simp
    · intro j' hj'
      rcases List.mem_cons.mp hj' with e | e
      · subst e; exact h8 j' q3
      · exact h5 j' e
    · intro j' σ hk
      exact h6 j' σ (known_createSession _ _ _ _ _ hk)
    · intro j' se hs hp
      exact createSession_old _ _ _ _ _ (h7 j' se hs hp) hp
    · rw [h9]; simp

end Yow.E2E
