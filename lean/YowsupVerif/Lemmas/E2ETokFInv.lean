/-
  Exactly-once with server faults, part 11: the invariant of runs with faults, and steps that touch neither keys nor
  sessions.
-/
import YowsupVerif.Lemmas.E2ETokFServer
import YowsupVerif.Lemmas.E2ETokFDeliver
import YowsupVerif.Lemmas.E2ETokFSpec
namespace Yow.E2E

/-- a dead stanza was shown, and its (message, recipient) pair has used up its fault -/
def DeadOK (s : Sys) : Prop :=
  ∀ y st, st ∈ queueOf s.outbound y → dead (getClient s y) st = true →
    ∃ id peer part im encs pl, st = .msg id peer part im encs pl ∧ 1 ≤ shownC (getClient s y) id ∧ (id, y) ∈ s.faulted ∧
      ∀ a g, isDistDown a g st = true → (lookup (getClient s y).peerSK (g, a)).isSome = true

structure FInv (accts : List Acct) (groups : List (Nat × List Acct)) (s : Sys) : Prop where
  ainv : AInv accts groups (abs s)
  tv : TV false accts groups s.submitted (view (flat s))
  dv : DV groups (view s)
  gv : GV groups (view s)
  dead : DeadOK s

theorem DeadOK.mono {s s' : Sys} (h : DeadOK s) (hg : Grow s s') (hfl : ∀ p, p ∈ s.faulted → p ∈ s'.faulted)
    (hpk : ∀ y key, (lookup (getClient s y).peerSK key).isSome = true → (lookup (getClient s' y).peerSK key).isSome = true)
    (hq : ∀ y st, st ∈ queueOf s'.outbound y → dead (getClient s' y) st = true →
      st ∈ queueOf s.outbound y ∧ dead (getClient s y) st = true) : DeadOK s' := by
  intro y st hst hd
  obtain ⟨h1, h2⟩ := hq y st hst hd
  obtain ⟨id, peer, part, im, encs, pl, e, hs, hf, hp⟩ := h y st h1 h2
  exact ⟨id, peer, part, im, encs, pl, e, Nat.le_trans hs ((hg y).2.2 id), hfl _ hf, fun a g hd' => hpk y _ (hp a g hd')⟩

theorem dead_congr {c c' : Client} (h1 : c'.seen = c.seen) (h2 : c'.seenSK = c.seenSK) (st : Stanza) : dead c' st = dead c st := by
  cases st with
  | msg id peer part im encs pl => simp only [dead, h1, h2]
  | _ => rfl

section
variable {accts : List Acct} {groups : List (Nat × List Acct)}

/-- the inbound side of the flattened state is the physical one -/
theorem FInv.ups {s : Sys} (h : FInv accts groups s) (a : Acct) : ∀ st' ∈ queueOf s.inbound a, UpShape st' ∧ upDir st' := by
  intro st' hst'
  have := h.tv.ups a st' hst'
  exact ⟨this.shape, this.dir⟩

/-- a client step that changes no session and no key, emits no message stanza and registers no group continuation -/
theorem DV.neutral {V : View} {x : Acct} {cons rest : List Stanza} {c' : Client} {out : List Stanza} {k : Nat}
    (h : DV groups V) (hq : V.outb x = cons ++ rest)
    (hs : c'.sessions = (V.cl x).sessions) (hp : c'.peerSK = (V.cl x).peerSK) (ho : c'.ownSK = (V.cl x).ownSK)
    (hpend : c'.pendingIn = (V.cl x).pendingIn)
    (hiq : ∀ e ∈ c'.iqReg, e ∈ (V.cl x).iqReg ∨
      ((∀ n, e.2 ≠ Cont.groupInfo n) ∧ (∀ n al aq, e.2 ≠ Cont.keysForGroup n al aq) ∧ ∀ p q, e.2 ≠ Cont.keysForPending p q))
    (hout : ∀ st ∈ out, (∀ id peer part im encs pl, st ≠ .msg id peer part im encs pl) ∧
      ∀ e ∈ (V.cl x).iqReg, stanzaIq st ≠ some e.1) :
    DV groups ((V.popOut x rest).cstep x c' out k) := by
  refine h.client_step {
    hq := hq
    mono := ⟨fun j σ hk => by unfold known at *; rw [hs]; exact hk, fun g gen hg => by rw [ho]; exact hg⟩
    d2 := fun j se hl _ => Or.inl (hs ▸ hl)
    g2 := fun g z gen hl => Or.inl (hp ▸ hl)
    p0 := by
      refine ⟨by rw [hpend]; exact (h.p0 x).1, ?_⟩
      intro e he p q
      rcases hiq e he with h1 | h1
      · exact (h.p0 x).2 e h1 p q
      · exact h1.2.2 p q
    outOK := by
      intro st hst
      cases st with
      | msg id peer part im encs pl => exact absurd rfl ((hout _ hst).1 id peer part im encs pl)
      | _ => trivial
    c1 := by
      intro e he n hn
      rcases hiq e he with h1 | h1
      · obtain ⟨g, g1, g2, g3⟩ := h.c1 x e h1 n hn
        refine ⟨g, g1, ?_, ?_⟩
        · intro st hst hiq'
          rcases List.mem_append.mp hst with h2 | h2
          · exact g2 st h2 hiq'
          · exact absurd hiq' ((hout st h2).2 e h1)
        · intro st hst hiq'
          exact g3 st (by rw [hq]; exact List.mem_append_right _ hst) hiq'
      · exact absurd hn (h1.1 n)
    c2 := by
      intro e he n al aq hn
      rcases hiq e he with h1 | h1
      · rw [hs]; exact h.c2 x e h1 n al aq hn
      · exact absurd hn (h1.2.1 n al aq) }

theorem GV.neutral {V : View} {x : Acct} {cons rest : List Stanza} {c' : Client} {out : List Stanza} {k : Nat}
    (h : GV groups V) (hq : V.outb x = cons ++ rest)
    (hp : c'.peerSK = (V.cl x).peerSK) (ho : c'.ownSK = (V.cl x).ownSK)
    (hcons : ∀ st ∈ cons, ∀ id peer part im encs pl, st ≠ .msg id peer part im encs pl)
    (hout : ∀ st ∈ out, ∀ id peer part im encs pl, st ≠ .msg id peer part im encs pl) :
    GV groups ((V.popOut x rest).cstep x c' out k) :=
  h.client_plain hq (fun st hst => plainDown_nomsg (hcons st hst)) (fun st hst => plainUpK_nomsg (hout st hst))
    (fun key hk => by rw [hp]; exact hk) (fun g hg => by rw [ho] at hg; exact hg)

end

end Yow.E2E
