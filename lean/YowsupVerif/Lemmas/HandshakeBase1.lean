/-
  Base lemmas for Lemmas/Handshake.lean: list-level views of the queue / protocol tables of Model/Handshake.lean and the
  equations of `step` per action and per program counter.
-/
import YowsupVerif.Model.Handshake
namespace Yow.HS

/-! ### queues, list level -/

def qGetL (qs : List (Nat × List Seg)) (q : Nat) : List Seg := ((qs.find? (fun e => e.1 == q)).map Prod.snd).getD []

def qSetL (qs : List (Nat × List Seg)) (q : Nat) (l : List Seg) : List (Nat × List Seg) :=
  if qs.any (fun e => e.1 == q) then qs.map (fun e => if e.1 == q then (q, l) else e) else qs ++ [(q, l)]

theorem qGet_eq (s : St) (q : Nat) : qGet s q = qGetL s.queues q := rfl
theorem qSet_eq (s : St) (q : Nat) (l : List Seg) : qSet s q l = { s with queues := qSetL s.queues q l } := rfl

theorem qGetL_nil (q : Nat) : qGetL [] q = [] := rfl

theorem qGetL_cons (e : Nat × List Seg) (qs : List (Nat × List Seg)) (q : Nat) :
    qGetL (e :: qs) q = if e.1 = q then e.2 else qGetL qs q := by
  unfold qGetL
  by_cases h : e.1 = q <;> simp [h]

theorem qGetL_map_set (qs : List (Nat × List Seg)) (q q' : Nat) (l : List Seg) :
    qGetL (qs.map (fun e => if e.1 == q then (q, l) else e)) q' =
      if q' = q then (if qs.any (fun e => e.1 == q) then l else []) else qGetL qs q' := by
  induction qs with
  | nil => simp [qGetL_nil]
  | cons e qs ih =>
    simp only [List.map_cons, qGetL_cons, ih, List.any_cons]
    by_cases h1 : e.1 = q <;> by_cases h2 : q' = q <;> simp [h1, h2] <;> grind

theorem qGetL_not_key (qs : List (Nat × List Seg)) (q : Nat) (h : qs.any (fun e => e.1 == q) = false) : qGetL qs q = [] := by
  induction qs with
  | nil => rfl
  | cons e qs ih =>
    simp only [List.any_cons, Bool.or_eq_false_iff, beq_eq_false_iff_ne] at h
    rw [qGetL_cons, if_neg h.1, ih h.2]

theorem qGetL_append_single (qs : List (Nat × List Seg)) (k q : Nat) (l : List Seg) :
    qGetL (qs ++ [(k, l)]) q = if qs.any (fun e => e.1 == q) then qGetL qs q else if k = q then l else [] := by
  induction qs with
  | nil => simp [qGetL_cons, qGetL_nil]
  | cons e qs ih =>
    simp only [List.cons_append, qGetL_cons, ih, List.any_cons]
    by_cases h1 : e.1 = q <;> simp [h1] <;> grind

theorem qGetL_qSetL (qs : List (Nat × List Seg)) (q q' : Nat) (l : List Seg) :
    qGetL (qSetL qs q l) q' = if q' = q then l else qGetL qs q' := by
  unfold qSetL
  by_cases h : qs.any (fun e => e.1 == q) = true
  · rw [if_pos h, qGetL_map_set, if_pos h]
  · rw [if_neg h, qGetL_append_single]
    have h' : qs.any (fun e => e.1 == q) = false := (Bool.not_eq_true _).mp h
    by_cases h2 : q' = q
    · subst h2; simp [h']
    · have : ¬ q = q' := fun e => h2 e.symm
      by_cases h3 : qs.any (fun e => e.1 == q') = true
      · simp [h3, h2]
      · have h3' : qs.any (fun e => e.1 == q') = false := (Bool.not_eq_true _).mp h3
        rw [if_neg h3, if_neg this, if_neg h2, qGetL_not_key _ _ h3']

/-- the keys of the queue table are `0 .. length-1` -/
def QK (qs : List (Nat × List Seg)) : Prop := ∀ q, qs.any (fun e => e.1 == q) = decide (q < qs.length)

theorem any_key_map_set (qs : List (Nat × List Seg)) (q q' : Nat) (l : List Seg) :
    (qs.map (fun e => if e.1 == q then (q, l) else e)).any (fun e => e.1 == q') = qs.any (fun e => e.1 == q') := by
  induction qs with
  | nil => rfl
  | cons e qs ih =>
    simp only [List.map_cons, List.any_cons, ih]
    by_cases h1 : e.1 = q <;> simp [h1]

theorem qSetL_length (qs : List (Nat × List Seg)) (q : Nat) (l : List Seg) (hk : QK qs) (hq : q < qs.length) :
    (qSetL qs q l).length = qs.length := by
  unfold qSetL
  rw [if_pos (by rw [hk q]; simpa using hq)]
  simp

theorem QK_qSetL (qs : List (Nat × List Seg)) (q : Nat) (l : List Seg) (hk : QK qs) (hq : q < qs.length) : QK (qSetL qs q l) := by
  intro q'
  rw [qSetL_length qs q l hk hq]
  unfold qSetL
  rw [if_pos (by rw [hk q]; simpa using hq), any_key_map_set, hk q']

theorem QK_append (qs : List (Nat × List Seg)) (l : List Seg) (hk : QK qs) : QK (qs ++ [(qs.length, l)]) := by
  intro q
  simp only [List.any_append, hk q, List.any_cons, List.any_nil, Bool.or_false, List.length_append, List.length_cons,
    List.length_nil]
  by_cases h1 : q < qs.length
  · simp [h1]; omega
  · by_cases h2 : qs.length = q
    · simp [h2]
    · have : ¬ q < qs.length + 1 := by omega
      simp [h1, h2, this]

theorem qGetL_append_new (qs : List (Nat × List Seg)) (_hk : QK qs) (q : Nat) :
    qGetL (qs ++ [(qs.length, [])]) q = qGetL qs q := by
  rw [qGetL_append_single]
  by_cases h : qs.any (fun e => e.1 == q) = true
  · rw [if_pos h]
  · rw [if_neg h, qGetL_not_key _ _ ((Bool.not_eq_true _).mp h)]; simp

theorem qGetL_length (qs : List (Nat × List Seg)) (hk : QK qs) : qGetL qs qs.length = [] :=
  qGetL_not_key _ _ (by rw [hk]; simp)

/-! ### protocol objects, list level -/

theorem pGet_eq (s : St) (p : Nat) : pGet s p = s.protos.getD p {} := rfl
theorem pSet_eq (s : St) (p : Nat) (x : Proto) : pSet s p x = { s with protos := s.protos.set p x } := rfl

theorem getD_set (l : List Proto) (p p' : Nat) (x d : Proto) :
    (l.set p x).getD p' d = if p = p' ∧ p < l.length then x else l.getD p' d := by
  simp only [List.getD_eq_getElem?_getD, List.getElem?_set]
  by_cases h1 : p = p'
  · subst h1
    by_cases h2 : p < l.length
    · simp [h2]
    · simp [h2]
  · simp [h1]

theorem getD_append_new (l : List Proto) (x d : Proto) : (l ++ [x]).getD l.length d = x := by
  simp [List.getD_eq_getElem?_getD]

theorem getD_append_old (l : List Proto) (x d : Proto) (p : Nat) (h : p < l.length) : (l ++ [x]).getD p d = l.getD p d := by
  simp [List.getD_eq_getElem?_getD, List.getElem?_append_left h]

/-! ### workers -/

theorem getElem?_set_some {α} (l : List α) (i j : Nat) (a x : α) (h : (l.set i a)[j]? = some x) :
    (j = i ∧ x = a ∧ i < l.length) ∨ (j ≠ i ∧ l[j]? = some x) := by
  rw [List.getElem?_set] at h
  by_cases hij : i = j
  · subst hij
    by_cases hl : i < l.length
    · simp [hl] at h; exact Or.inl ⟨rfl, h.symm, hl⟩
    · simp [hl] at h
  · simp [hij] at h; exact Or.inr ⟨fun e => hij e.symm, h⟩

theorem getElem?_append_single_some {α} (l : List α) (j : Nat) (a x : α) (h : (l ++ [a])[j]? = some x) :
    (j = l.length ∧ x = a) ∨ (j < l.length ∧ l[j]? = some x) := by
  by_cases hj : j < l.length
  · rw [List.getElem?_append_left hj] at h; exact Or.inr ⟨hj, h⟩
  · rw [List.getElem?_append_right (by omega)] at h
    by_cases h0 : j - l.length = 0
    · rw [h0] at h; simp at h; exact Or.inl ⟨by omega, h.symm⟩
    · have : ([a] : List α)[j - l.length]? = none := by
        apply List.getElem?_eq_none; simp; omega
      rw [this] at h; cases h

end Yow.HS
