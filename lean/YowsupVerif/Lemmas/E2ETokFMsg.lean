/-
  Exactly-once with server faults, part 19: the delivery of a message stanza keeps decryptability.
-/
import YowsupVerif.Lemmas.E2ETokFHeC
import YowsupVerif.Lemmas.E2ETokFIq
namespace Yow.E2E

/-- what stage 1 of `handleEnc` does to sessions, peers' sender keys and opened ciphertexts, when the first ciphertext
    names a session the recipient has -/
theorem heC_crypto (c : Client) (id : Nat) (peer : Dest) (part : Option Acct) (im : Bool) (encs : List (Option Acct × Ct))
    (pl : Option Payload)
    (hfk : ∀ ct, heFirst encs = some ct → (ct.kind = .msg → known c (whoOf peer part) ct.sess) ∧
      (ct.corrupt = false → (ct.sess, ct.ctr) ∉ c.seen)) :
    (∀ j σ, known c j σ → known (heC c id peer part im encs pl).1 j σ) ∧
    (∀ j se, lookup (heC c id peer part im encs pl).1.sessions j = some se → se.pendingPre = false →
      lookup c.sessions j = some se ∨ (j = whoOf peer part ∧ ∃ ct, heFirst encs = some ct ∧ se.cur = ct.sess)) ∧
    (∀ g z gen, lookup (heC c id peer part im encs pl).1.peerSK (g, z) = some gen →
      lookup c.peerSK (g, z) = some gen ∨ (z = whoOf peer part ∧ ∃ ct, heFirst encs = some ct ∧ ct.plain.skdm = some (g, gen))) ∧
    (∀ key, (lookup c.peerSK key).isSome = true → (lookup (heC c id peer part im encs pl).1.peerSK key).isSome = true) ∧
    (∀ ct g gen, heFirst encs = some ct → ct.corrupt = false → ct.plain.skdm = some (g, gen) →
      lookup (heC c id peer part im encs pl).1.peerSK (g, whoOf peer part) = some gen) ∧
    (∀ e ∈ (heC c id peer part im encs pl).1.seen, e ∈ c.seen ∨ ∃ ct, heFirst encs = some ct ∧ e = (ct.sess, ct.ctr)) ∧
    (∀ ct, heFirst encs = some ct → ct.corrupt = false → (ct.sess, ct.ctr) ∈ (heC c id peer part im encs pl).1.seen) ∧
    (∀ ct, heFirst encs = some ct → (decrypt c (whoOf peer part) ct).2 ≠ .noSession) := by
  obtain ⟨hs, hseen, hpk⟩ := heC_fields c id peer part im encs pl
  cases hf : heFirst encs with
  | none =>
    rw [hf] at hs hseen hpk
    simp only at hs hseen hpk
    refine ⟨fun j σ hk => known_of_sessions hs hk, fun j se hl _ => Or.inl (hs ▸ hl), fun g z gen hl => Or.inl (hpk ▸ hl),
      fun key hk => by rw [hpk]; exact hk, (fun ct _ _ h => by cases h), fun e he => Or.inl (hseen ▸ he),
      (fun ct h => by cases h), (fun ct h => by cases h)⟩
  | some ct =>
    rw [hf] at hs hseen hpk
    simp only at hs hseen hpk
    obtain ⟨hm, hns⟩ := hfk ct hf
    have hk := heFirst_kind hf
    cases hcor : ct.corrupt with
    | true =>
      have hd := decrypt_corrupt hk hcor hm
      rw [hd] at hs hseen hpk
      simp only at hs hseen hpk
      refine ⟨fun j σ hk' => known_of_sessions hs hk', fun j se hl _ => Or.inl (hs ▸ hl), fun g z gen hl => Or.inl (hpk ▸ hl),
        fun key hk' => by rw [hpk]; exact hk', ?_, fun e he => Or.inl (hseen ▸ he), ?_, ?_⟩
      · intro ct' g gen h1 h2 _
        cases h1; rw [hcor] at h2; cases h2
      · intro ct' h1 h2
        cases h1; rw [hcor] at h2; cases h2
      · intro ct' h1
        cases h1; rw [hd]; simp
    | false =>
      obtain ⟨se', hd, e1, e2, e3⟩ := decrypt_ok_full hk hcor (hns hcor) hm
      rw [hd] at hs hseen hpk
      simp only at hs hseen hpk
      have hpk' : (heC c id peer part im encs pl).1.peerSK =
          (match ct.plain.skdm with | none => c.peerSK | some (g, gen) => insert c.peerSK (g, whoOf peer part) gen) := by
        rw [hpk]; unfold storeC; cases ct.plain.skdm <;> rfl
      refine ⟨?_, ?_, ?_, ?_, ?_, ?_, ?_, ?_⟩
      · intro j σ hkn
        unfold known
        rw [hs]
        by_cases hj : j = whoOf peer part
        · subst hj
          exact ⟨se', by simp [lookup_insert], e3 σ hkn⟩
        · obtain ⟨se0, h1, h2⟩ := hkn
          exact ⟨se0, by simp only [lookup_insert, hj, if_false]; exact h1, h2⟩
      · intro j se hl hp
        rw [hs, lookup_insert] at hl
        split at hl
        · next e =>
          cases hl
          exact Or.inr ⟨e, ct, rfl, e1⟩
        · exact Or.inl hl
      · intro g z gen hl
        rw [hpk'] at hl
        cases hsk : ct.plain.skdm with
        | none => rw [hsk] at hl; exact Or.inl hl
        | some gg =>
          obtain ⟨g', gen'⟩ := gg
          rw [hsk] at hl
          simp only [lookup_insert] at hl
          split at hl
          · next e =>
            cases hl
            simp only [Prod.mk.injEq] at e
            obtain ⟨rfl, rfl⟩ := e
            exact Or.inr ⟨rfl, ct, rfl, hsk⟩
          · exact Or.inl hl
      · intro key hkk
        rw [hpk']
        cases hsk : ct.plain.skdm with
        | none => exact hkk
        | some gg =>
          obtain ⟨g', gen'⟩ := gg
          simp only [lookup_insert]
          split
          · rfl
          · exact hkk
      · intro ct' g gen h1 _ h3
        cases h1
        rw [hpk', h3]
        simp [lookup_insert]
      · intro e he
        rw [hseen] at he
        rcases List.mem_append.mp he with h1 | h1
        · exact Or.inl h1
        · rw [List.mem_singleton] at h1
          exact Or.inr ⟨ct, rfl, h1⟩
      · intro ct' h1 _
        cases h1
        rw [hseen]
        simp
      · intro ct' h1
        cases h1
        rw [hd]; simp

end Yow.E2E

namespace Yow.E2E

theorem corruptLast_append_single (l : List (Option Acct × Ct)) (e : Option Acct × Ct) :
    corruptLast (l ++ [e]) = l ++ [(e.1, { e.2 with corrupt := true })] := by
  induction l with
  | nil => rfl
  | cons a l ih =>
    cases hl : l ++ [e] with
    | nil => simp at hl
    | cons b m =>
      rw [List.cons_append, hl]
      show a :: corruptLast (b :: m) = _
      rw [← hl, ih]
      rfl

theorem corruptLast_ctr (encs : List (Option Acct × Ct)) :
    (corruptLast encs).map (fun e => e.2.ctr) = encs.map (fun e => e.2.ctr) := by
  induction encs with
  | nil => rfl
  | cons a l ih =>
    cases l with
    | nil => rfl
    | cons b m =>
      show (a :: corruptLast (b :: m)).map _ = _
      rw [List.map_cons, ih]; rfl

/-- the shape of a damaged stanza, and which ciphertext is opened first -/
theorem corruptLast_shape {id : Nat} {peer : Dest} {part : Option Acct} {im : Bool} {encs : List (Option Acct × Ct)} {pl : Option Payload}
    (h : DownShape (.msg id peer part im encs pl)) :
    DownShape (.msg id peer part im (corruptLast encs) pl) ∧
    ∀ ct, heFirst (corruptLast encs) = some ct → ∃ ct0, heFirst encs = some ct0 ∧ (ct = ct0 ∨ ct = { ct0 with corrupt := true }) := by
  rcases h with ⟨ct, rfl, hk, hc⟩ | ⟨hg, l, k, rfl, hk, hc, hl⟩
  · refine ⟨Or.inl ⟨{ ct with corrupt := true }, rfl, hk, hc⟩, ?_⟩
    intro ct' h'
    have e : corruptLast [((none : Option Acct), ct)] = [(none, { ct with corrupt := true })] := rfl
    rw [e, heFirst_single (ct := { ct with corrupt := true }) hk] at h'
    cases h'
    exact ⟨ct, heFirst_single hk, Or.inr rfl⟩
  · rw [corruptLast_append_single]
    refine ⟨Or.inr ⟨hg, l, { k with corrupt := true }, rfl, hk, hc, hl⟩, ?_⟩
    intro ct' h'
    rw [heFirst_append_sk (k := { k with corrupt := true }) hk] at h'
    exact ⟨ct', by rw [heFirst_append_sk hk]; exact h', Or.inl rfl⟩

theorem shownC_push (c : Client) (x : Shown) : shownC { c with shown := c.shown ++ [x] } x.id = shownC c x.id + 1 := by
  unfold shownC
  simp [List.filter_append]

end Yow.E2E

namespace Yow.E2E

section
variable {accts : List Acct} {groups : List (Nat × List Acct)}

/-- where a queued message stanza comes from -/
theorem down_origin {s : Sys} (h : FInv accts groups s) {y : Acct} {id : Nat} {peer : Dest} {part : Option Acct} {im : Bool}
    {encs : List (Option Acct × Ct)} {pl : Option Payload}
    (hmem : Stanza.msg id peer part im encs pl ∈ queueOf s.outbound y) :
    y ∈ accts ∧ whoOf peer part ≠ y ∧ ∀ g, peer = .group g → y ∈ (lookup groups g).getD [] ∧ part = some (whoOf peer part) := by
  obtain ⟨hy, hd, _⟩ := h.ainv.outb_ok y _ hmem
  obtain ⟨a, n, h1, h2, h3, h4, h5⟩ := hd
  have hne := h.tv.neq a n h1 y h3
  refine ⟨hy, by rw [h4.who]; exact fun e => hne e.symm, ?_⟩
  intro g hg
  subst hg
  unfold Origin at h4
  unfold intendedG at h3
  cases hnd : n.dest with
  | user b => rw [hnd] at h4; cases h4.1
  | group g' =>
    rw [hnd] at h4 h3
    obtain ⟨e1, e2⟩ := h4
    cases e1
    subst e2
    exact ⟨(List.mem_filter.mp h3).1, rfl⟩

/-- the ciphertext opened first, of a queued stanza or of its damaged copy -/
theorem first_ok {s : Sys} (h : FInv accts groups s) {y : Acct} {id : Nat} {peer : Dest} {part : Option Acct} {im : Bool}
    {encs : List (Option Acct × Ct)} {pl : Option Payload}
    (hmem : Stanza.msg id peer part im encs pl ∈ queueOf s.outbound y)
    {encs' : List (Option Acct × Ct)} (hmode : encs' = encs ∨ encs' = corruptLast encs) :
    ∀ ct, heFirst encs' = some ct →
      (ct.kind = .msg → known (getClient s y) (whoOf peer part) ct.sess) ∧
      (ct.corrupt = false → dead (getClient s y) (.msg id peer part im encs pl) = false → (ct.sess, ct.ctr) ∉ (getClient s y).seen) ∧
      (ct.corrupt = false → heFirst encs = some ct) ∧
      known (getClient s (whoOf peer part)) y ct.sess ∧
      (∀ g gen, ct.plain.skdm = some (g, gen) → destGroup peer = some g ∧ lookup (getClient s (whoOf peer part)).ownSK g = some gen) := by
  have hdd := h.dv.down y _ hmem
  have hbase : ∀ ct, heFirst encs = some ct →
      (ct.kind = .msg → known (getClient s y) (whoOf peer part) ct.sess) ∧
      (ct.corrupt = false → dead (getClient s y) (.msg id peer part im encs pl) = false → (ct.sess, ct.ctr) ∉ (getClient s y).seen) ∧
      (ct.corrupt = false → heFirst encs = some ct) ∧
      known (getClient s (whoOf peer part)) y ct.sess ∧
      (∀ g gen, ct.plain.skdm = some (g, gen) → destGroup peer = some g ∧ lookup (getClient s (whoOf peer part)).ownSK g = some gen) := by
    intro ct h0
    obtain ⟨e, he, rfl⟩ := heFirst_mem h0
    obtain ⟨hct, hpair⟩ := hdd.2 e he
    obtain ⟨p1, p2⟩ := hpair (heFirst_kind h0)
    refine ⟨p2, ?_, fun _ => h0, p1, hct.skdm⟩
    intro _ hlive
    simp only [dead, h0] at hlive
    simpa using hlive
  rcases hmode with rfl | rfl
  · exact hbase
  · intro ct hct
    obtain ⟨ct0, h0, rfl | rfl⟩ := (corruptLast_shape hdd.1).2 ct hct
    · exact hbase ct h0
    · obtain ⟨b1, _, _, b4, b5⟩ := hbase ct0 h0
      exact ⟨b1, (fun hc => by cases hc), (fun hc => by cases hc), b4, b5⟩

end

end Yow.E2E

namespace Yow.E2E

section
variable {accts : List Acct} {groups : List (Nat × List Acct)}

/-- the delivery of a live message stanza (as it is, kept in the queue as well, or damaged) keeps decryptability and the
    availability of sender keys -/
theorem msg_crypto {s : Sys} (h : FInv accts groups s) {y : Acct} {id : Nat} {peer : Dest} {part : Option Acct} {im : Bool}
    {encs : List (Option Acct × Ct)} {pl : Option Payload} {rest : List Stanza}
    (hq : queueOf s.outbound y = .msg id peer part im encs pl :: rest)
    (hlive : dead (getClient s y) (.msg id peer part im encs pl) = false)
    {encs' : List (Option Acct × Ct)} (hmode : encs' = encs ∨ encs' = corruptLast encs) (keep : Bool) :
    DV groups (((view s).popOut y (if keep then .msg id peer part im encs pl :: rest else rest)).cstep y
      (heC (getClient s y) id peer part im encs' pl).1 (heC (getClient s y) id peer part im encs' pl).2 (view s).nextCtr) ∧
    GV groups (((view s).popOut y (if keep then .msg id peer part im encs pl :: rest else rest)).cstep y
      (heC (getClient s y) id peer part im encs' pl).1 (heC (getClient s y) id peer part im encs' pl).2 (view s).nextCtr) ∧
    Quiet (getClient s y) (heC (getClient s y) id peer part im encs' pl).1 (heC (getClient s y) id peer part im encs' pl).2 ∧
    (∀ key, (lookup (getClient s y).peerSK key).isSome = true →
      (lookup (heC (getClient s y) id peer part im encs' pl).1.peerSK key).isSome = true) ∧
    (∀ a g, isDistDown a g (.msg id peer part im encs pl) = true →
      (lookup (heC (getClient s y) id peer part im encs' pl).1.peerSK (g, a)).isSome = true) ∧
    (∀ ct, heFirst encs' = some ct → (decrypt (getClient s y) (whoOf peer part) ct).2 ≠ .noSession) ∧
    (∀ ct, heFirst encs = some ct → encs' = encs → (ct.sess, ct.ctr) ∈ (heC (getClient s y) id peer part im encs' pl).1.seen) := by
  have hmem : Stanza.msg id peer part im encs pl ∈ queueOf s.outbound y := by rw [hq]; simp
  have hdd := h.dv.down y _ hmem
  obtain ⟨hy, hxy, hgrp⟩ := down_origin h hmem
  have hfirst := first_ok h hmem hmode
  obtain ⟨k1, k2, k3, k4, k5, k6, k7, k8⟩ := heC_crypto (getClient s y) id peer part im encs' pl
    (fun ct hct => ⟨(hfirst ct hct).1, fun hc => (hfirst ct hct).2.1 hc hlive⟩)
  obtain ⟨hQ, hsk⟩ := quiet_heC (getClient s y) id peer part im encs' pl k8
  have hout : ∀ st ∈ (heC (getClient s y) id peer part im encs' pl).2, PlainUpK st :=
    fun st hst => plainUpK_nomsg (hQ.out st hst).1
  have hown : ∀ g, (lookup (heC (getClient s y) id peer part im encs' pl).1.ownSK g).isSome = true →
      (lookup ((view s).cl y).ownSK g).isSome = true := by
    intro g hg; rw [hQ.ownSK] at hg; exact hg
  -- the distribution that comes with the head is stored
  have hdist : ∀ a g, isDistDown a g (.msg id peer part im encs pl) = true →
      (lookup (heC (getClient s y) id peer part im encs' pl).1.peerSK (g, a)).isSome = true := by
    intro a g hdi
    cases peer with
    | user b => simp [isDistDown] at hdi
    | group g' =>
      cases part with
      | none => simp [isDistDown] at hdi
      | some a' =>
        simp only [isDistDown, Bool.and_eq_true, beq_iff_eq] at hdi
        obtain ⟨⟨⟨e1, e2⟩, hns⟩, hsk'⟩ := hdi
        subst e1; subst e2
        rcases hdd.1 with ⟨ct, rfl, hk, hc⟩ | ⟨hg, l, k, rfl, hk, hc, hl⟩
        · simp only [List.any_cons, List.any_nil, Bool.or_false, isSk, beq_iff_eq] at hsk'
          exact absurd hsk' hk
        · have hl' : ∀ e ∈ l, e.2.kind ≠ .skmsg := fun e he => (hl e he).2.1
          have hlne : l ≠ [] := by
            intro e0
            subst e0
            simp [isSk, hk] at hns
          cases hf : heFirst l with
          | none => exact absurd (shapeB_nofirst hl' hf) hlne
          | some ct =>
            obtain ⟨e, he, rfl⟩ := heFirst_mem hf
            have hct := (hdd.2 e (List.mem_append_left _ he)).1
            have hsd := hct.dist (hl e he).2.1 (hl e he).2.2
            cases hsd' : e.2.plain.skdm with
            | none => rw [hsd'] at hsd; cases hsd
            | some gg =>
              obtain ⟨g2, gen⟩ := gg
              have := (hct.skdm g2 gen hsd').1
              simp only [destGroup, Option.some.injEq] at this
              subst this
              have hf' : heFirst encs' = some e.2 := by
                rcases hmode with rfl | rfl
                · rw [heFirst_append_sk hk]; exact hf
                · rw [corruptLast_append_single, heFirst_append_sk (k := { k with corrupt := true }) hk]; exact hf
              have := k5 e.2 g' gen hf' hct.uncorrupt hsd'
              have e3 : whoOf (.group g') (some a') = a' := rfl
              rw [e3] at this
              rw [this]; rfl
  refine ⟨?_, GV.deliver keep h.gv hq hout k4 hown hdist, hQ, k4, hdist, k8, ?_⟩
  · -- decryptability
    have hstep : DStepOK groups (view s) y (if keep then [] else [.msg id peer part im encs pl])
        (if keep then .msg id peer part im encs pl :: rest else rest)
        (heC (getClient s y) id peer part im encs' pl).1 (heC (getClient s y) id peer part im encs' pl).2 (view s).nextCtr := {
      hq := by
        show queueOf s.outbound y = _
        rw [hq]; cases keep <;> rfl
      mono := ⟨k1, fun g gen hg => by rw [hQ.ownSK]; exact hg⟩
      d2 := by
        intro j se hl hp
        rcases k2 j se hl hp with h1 | ⟨rfl, ct, hct, hcur⟩
        · exact Or.inl h1
        · exact Or.inr ⟨hxy, by rw [hcur]; exact (hfirst ct hct).2.2.2.1⟩
      g2 := by
        intro g z gen hl
        rcases k3 g z gen hl with h1 | ⟨rfl, ct, hct, hsd⟩
        · exact Or.inl h1
        · exact Or.inr ⟨hxy, ((hfirst ct hct).2.2.2.2 g gen hsd).2⟩
      p0 := by
        rw [hQ.pend, hQ.iqReg]
        exact h.dv.p0 y
      outOK := by
        intro st hst
        cases st with
        | msg id' peer' part' im' encs'' pl' => exact absurd rfl ((hQ.out _ hst).1 id' peer' part' im' encs'' pl')
        | _ => trivial
      c1 := by
        intro e he n hn
        rw [hQ.iqReg] at he
        obtain ⟨g, g1, g2, g3⟩ := h.dv.c1 y e he n hn
        refine ⟨g, g1, ?_, ?_⟩
        · intro st hst hiq
          rcases List.mem_append.mp hst with h2 | h2
          · exact g2 st h2 hiq
          · rw [(hQ.out st h2).2] at hiq; cases hiq
        · intro st hst hiq
          refine g3 st ?_ hiq
          show st ∈ queueOf s.outbound y
          rw [hq]
          cases keep
          · exact List.mem_cons_of_mem _ hst
          · exact hst
      c2 := by
        intro e he n al aq hn
        rw [hQ.iqReg] at he
        obtain ⟨g, g1, g2, g3⟩ := h.dv.c2 y e he n al aq hn
        refine ⟨g, g1, g2, ?_⟩
        intro j hj
        rcases g3 j hj with h1 | h1
        · left
          cases hl : lookup ((view s).cl y).sessions j with
          | none => rw [hl] at h1; cases h1
          | some se =>
            obtain ⟨se', h2, _⟩ := k1 j se.cur (known_cur hl)
            rw [h2]; rfl
        · exact Or.inr h1 }
    have := h.dv.client_step hstep
    cases keep <;> exact this
  · intro ct hct he
    subst he
    obtain ⟨e, he, rfl⟩ := heFirst_mem hct
    exact k7 e.2 hct (hdd.2 e he).1.uncorrupt

end

end Yow.E2E

namespace Yow.E2E

section
variable {ex : Bool} {accts : List Acct} {groups : List (Nat × List Acct)}

/-- no ciphertext of a stanza queued in a state satisfying the token invariant was opened -/
theorem ctrs_unopened {L : List (Acct × Node)} {V : View} (hT : TV ex accts groups L V) {z : Acct} (hz : z ∈ accts)
    {id : Nat} {peer : Dest} {part : Option Acct} {im : Bool} {encs : List (Option Acct × Ct)} {pl : Option Payload}
    (hst : Stanza.msg id peer part im encs pl ∈ V.outb z) :
    ∀ e ∈ encs, e.2.ctr ∉ (V.cl z).seen.map Prod.snd ∧ e.2.ctr ∉ (V.cl z).seenSK.map Prod.snd := by
  intro e he
  have h1 : 1 ≤ nOf e.2.ctr (.msg id peer part im encs pl) := by
    unfold nOf ctrsOf
    exact List.count_pos_iff.mpr (List.mem_map.mpr ⟨e, he, rfl⟩)
  have h2 : nOf e.2.ctr (.msg id peer part im encs pl) ≤ wayV accts V z e.2.ctr := by
    unfold wayV
    have := sumMap_le_of_mem (f := nOf e.2.ctr) hst
    omega
  exact (hT.unop z hz e.2.ctr).2 (by omega)

/-- the recipient of a stanza that consists of a sender-key ciphertext alone has the key -/
theorem sk_known {s : Sys} (h : FInv accts groups s) {y : Acct} {id g : Nat} {part : Option Acct} {im : Bool}
    {k : Ct} {pl : Option Payload} {rest : List Stanza}
    (hq : queueOf s.outbound y = .msg id (.group g) part im [(none, k)] pl :: rest) (hk : k.kind = .skmsg) :
    lookup (getClient s y).peerSK (g, whoOf (.group g) part) = some k.sess := by
  have hmem : Stanza.msg id (.group g) part im [(none, k)] pl ∈ queueOf s.outbound y := by rw [hq]; simp
  have hdd := h.dv.down y _ hmem
  obtain ⟨hy, hxy, hgrp⟩ := down_origin h hmem
  obtain ⟨hym, hpart⟩ := hgrp g rfl
  have hct := (hdd.2 (none, k) (by simp)).1
  obtain ⟨g', e1, hown⟩ := hct.sk hk
  simp only [destGroup, Option.some.injEq] at e1
  subst e1
  have hav := h.gv (whoOf (.group g) part) g (by rw [hown]; rfl) y hym (fun e => hxy e.symm)
  unfold avail at hav
  rcases hav with h1 | h1
  · cases hl : lookup ((view s).cl y).peerSK (g, whoOf (.group g) part) with
    | none => rw [hl] at h1; cases h1
    | some gen =>
      have := h.dv.g2 y g _ gen hl
      rw [hown] at this
      cases this
      exact hl
  · exfalso
    have e2 : (view s).outb y = .msg id (.group g) part im [(none, k)] pl :: rest := hq
    rw [e2] at h1
    cases part with
    | none => cases hpart
    | some a' =>
      have e3 : whoOf (.group g) (some a') = a' := rfl
      rw [e3] at h1
      simp [scan, cls, isDistDown, needsDown, isSk, hk] at h1

end

end Yow.E2E

namespace Yow.E2E

section
variable {accts : List Acct} {groups : List (Nat × List Acct)}

theorem shownC_reset_push (c : Client) (id : Nat) (peer : Dest) (part : Option Acct) (p : Payload) :
    1 ≤ shownC (resetC { c with shown := c.shown ++ [{ id := id, peer := peer, participant := part, payload := p }] } id) id := by
  have := shownC_push c { id := id, peer := peer, participant := part, payload := p }
  show 1 ≤ shownC { c with shown := c.shown ++ [{ id := id, peer := peer, participant := part, payload := p }] } id
  simp only at this
  omega

theorem storeC_sk (c1 : Client) (x : Acct) {pl : Plain} {g gen : Nat} (h : pl.skdm = some (g, gen)) :
    lookup (storeC c1 x pl).peerSK (g, x) = some gen ∧ (storeC c1 x pl).seenSK = c1.seenSK := by
  unfold storeC
  rw [h]
  simp [lookup_insert]

/-- an undamaged live stanza is opened and shown -/
theorem msg_opened {s : Sys} (h : FInv accts groups s) {y : Acct} {id : Nat} {peer : Dest} {part : Option Acct} {im : Bool}
    {encs : List (Option Acct × Ct)} {pl : Option Payload} {rest : List Stanza}
    (hq : queueOf s.outbound y = .msg id peer part im encs pl :: rest)
    (hlive : dead (getClient s y) (.msg id peer part im encs pl) = false) :
    dead (heC (getClient s y) id peer part im encs pl).1 (.msg id peer part im encs pl) = true ∧
    1 ≤ shownC (heC (getClient s y) id peer part im encs pl).1 id ∧
    (heC (getClient s y) id peer part im encs pl).2 = [.receipt id peer part .delivery] := by
  have hmem : Stanza.msg id peer part im encs pl ∈ queueOf s.outbound y := by rw [hq]; simp
  have hdd := h.dv.down y _ hmem
  obtain ⟨hy, hxy, hgrp⟩ := down_origin h hmem
  have hfirst := first_ok h hmem (Or.inl rfl)
  have hseen1 := (msg_crypto h hq hlive (Or.inl rfl) false).2.2.2.2.2.2
  have hflat : Stanza.msg id peer part im encs pl ∈ (view (flat s)).outb y := by
    show _ ∈ queueOf (flat s).outbound y
    rw [queueOf_flat, hq, liveQ_cons_live hlive]; simp
  have hun : ∀ e ∈ encs, e.2.ctr ∉ (getClient s y).seen.map Prod.snd ∧ e.2.ctr ∉ (getClient s y).seenSK.map Prod.snd :=
    ctrs_unopened h.tv hy hflat
  have hdeadS : ∀ ct, heFirst encs = some ct →
      dead (heC (getClient s y) id peer part im encs pl).1 (.msg id peer part im encs pl) = true := by
    intro ct hf
    have := hseen1 ct hf rfl
    simp only [dead, hf]
    simpa using this
  rcases hdd.1 with ⟨ct, rfl, hk, hc⟩ | ⟨hg, l, k, rfl, hk, hc, hl⟩
  · refine ⟨hdeadS ct (heFirst_single hk), ?_⟩
    cases hp : ct.plain.content with
    | none => rw [hp] at hc; cases hc
    | some p =>
      obtain ⟨f1, f2, _⟩ := hfirst ct (heFirst_single hk)
      have hunc := (hdd.2 (none, ct) (by simp)).1.uncorrupt
      obtain ⟨se', hd1, _⟩ := decrypt_ok_full hk hunc (f2 hunc hlive) f1
      rw [heC_A_ok hk hd1 hp]
      exact ⟨shownC_reset_push _ id peer part p, rfl⟩
  · cases peer with
    | user b => cases hg
    | group g =>
      have hl' : ∀ e ∈ l, e.2.kind ≠ .skmsg := fun e he => (hl e he).2.1
      have hkm : ((none : Option Acct), k) ∈ l ++ [(none, k)] := by simp
      have hctk := (hdd.2 (none, k) hkm).1
      have hkn : (k.sess, k.ctr) ∉ (getClient s y).seenSK := by
        intro hc'
        exact (hun (none, k) hkm).2 (List.mem_map.mpr ⟨_, hc', rfl⟩)
      cases hp : k.plain.content with
      | none => rw [hp] at hc; cases hc
      | some p =>
        cases hf : heFirst l with
        | none =>
          have := shapeB_nofirst hl' hf
          subst this
          have hpk := sk_known h hq hk
          have hd2 := groupDecrypt_ok_full hpk hctk.uncorrupt hkn
          have e := heC_B0_ok (id := id) (im := im) (pl := pl) hk hd2 hp
          rw [List.nil_append, e]
          refine ⟨?_, shownC_reset_push _ id (.group g) part p, rfl⟩
          have hf0 : heFirst [((none : Option Acct), k)] = none := by
            unfold heFirst; rw [firstKind_single, firstKind_single]; simp [hk]
          have hf1 : firstKind [((none : Option Acct), k)] .skmsg = some k := by rw [firstKind_single]; simp [hk]
          simp [dead, hf0, hf1, resetC]
        | some ct =>
          have hfe : heFirst (l ++ [((none : Option Acct), k)]) = some ct := by rw [heFirst_append_sk hk]; exact hf
          refine ⟨hdeadS ct hfe, ?_⟩
          obtain ⟨e0, he0, rfl⟩ := heFirst_mem hf
          obtain ⟨f1, f2, _⟩ := hfirst e0.2 hfe
          have hct0 := (hdd.2 e0 (List.mem_append_left _ he0)).1
          obtain ⟨se', hd1, _⟩ := decrypt_ok_full (hl' e0 he0) hct0.uncorrupt (f2 hct0.uncorrupt hlive) f1
          have hcn := (hl e0 he0).2.2
          have hsd := hct0.dist (hl' e0 he0) hcn
          cases hsd' : e0.2.plain.skdm with
          | none => rw [hsd'] at hsd; cases hsd
          | some gg =>
            obtain ⟨g2, gen⟩ := gg
            obtain ⟨e1, hown⟩ := hct0.skdm g2 gen hsd'
            simp only [destGroup, Option.some.injEq] at e1
            subst e1
            obtain ⟨g', e2, hown'⟩ := hctk.sk hk
            simp only [destGroup, Option.some.injEq] at e2
            subst e2
            rw [hown] at hown'
            cases hown'
            have hd1' : decrypt (getClient s y) (whoOf (.group g) part) e0.2
                = ((decrypt (getClient s y) (whoOf (.group g) part) e0.2).1, .ok e0.2.plain) := by rw [hd1]
            have hsk1 : (decrypt (getClient s y) (whoOf (.group g) part) e0.2).1.seenSK = (getClient s y).seenSK := by rw [hd1]
            obtain ⟨hpk, hsk2⟩ := storeC_sk (decrypt (getClient s y) (whoOf (.group g) part) e0.2).1 (whoOf (.group g) part) hsd'
            have hkn' : (k.sess, k.ctr) ∉ (storeC (decrypt (getClient s y) (whoOf (.group g) part) e0.2).1
                (whoOf (.group g) part) e0.2.plain).seenSK := by rw [hsk2, hsk1]; exact hkn
            have hd2 := groupDecrypt_ok_full hpk hctk.uncorrupt hkn'
            rw [heC_B1_ok (id := id) (im := im) (pl := pl) hl' hk hf hd1' hcn hd2 hp]
            exact ⟨shownC_reset_push _ id (.group g) part p, rfl⟩

end

end Yow.E2E
