/-
  Token conservation in the E2E system model, part 3: how the counted quantities change under the elementary view updates.
-/
import YowsupVerif.Lemmas.E2ETokInv
namespace Yow.E2E

section
variable (V : View) (x : Acct)

-- ------------------------------------------------------------------------------------------------ tokens
theorem tokensV_cstep (c' : Client) (out : List Stanza) (k : Nat) (a : Acct) (id : Nat) (r : Acct) :
    tokensV (V.cstep x c' out k) a id r
      + (if a = x then contS id r (V.cl x).iqReg else 0)
      + (if r = x then pendS id (V.cl x).pendingIn + shownC (V.cl x) id else 0)
    = tokensV V a id r
      + (if a = x then contS id r c'.iqReg + sumMap (upTok id r) out else 0)
      + (if r = x then pendS id c'.pendingIn + sumMap (retryUpTok id) out + shownC c' id else 0) := by
  unfold tokensV View.cstep
  by_cases ha : a = x <;> by_cases hr : r = x <;> simp [ha, hr, upd_apply] <;> omega

theorem tokensV_popOut {h : Stanza} {rest : List Stanza} (hq : V.outb x = h :: rest) (a : Acct) (id : Nat) (r : Acct) :
    tokensV (V.popOut x rest) a id r + (if r = x then downTok id h else 0) + (if a = x then retryDownTok id r h else 0)
    = tokensV V a id r := by
  unfold tokensV View.popOut
  by_cases ha : a = x <;> by_cases hr : r = x <;> simp [ha, hr, upd_apply, hq] <;> omega

theorem tokensV_popIn {h : Stanza} {rest : List Stanza} (hq : V.inb x = h :: rest) (a : Acct) (id : Nat) (r : Acct) :
    tokensV (V.popIn x rest) a id r + (if a = x then upTok id r h else 0) + (if r = x then retryUpTok id h else 0)
    = tokensV V a id r := by
  unfold tokensV View.popIn
  by_cases ha : a = x <;> by_cases hr : r = x <;> simp [ha, hr, upd_apply, hq] <;> omega

theorem tokensV_pushes (add : Acct → List Stanza) (a : Acct) (id : Nat) (r : Acct) :
    tokensV (V.pushes add) a id r = tokensV V a id r + sumMap (downTok id) (add r) + sumMap (retryDownTok id r) (add a) := by
  unfold tokensV View.pushes
  simp
  omega

theorem tokensV_addSub (p : Acct × Node) (a : Acct) (id : Nat) (r : Acct) : tokensV (V.addSub p) a id r = tokensV V a id r := rfl

-- ------------------------------------------------------------------------------------------------ inTransit
theorem inTransitV_cstep (c' : Client) (out : List Stanza) (k : Nat) (a : Acct) (id : Nat) (r : Acct) :
    inTransitV (V.cstep x c' out k) a id r
      + (if r = x then pendS id (V.cl x).pendingIn else 0)
    = inTransitV V a id r
      + (if a = x then sumMap (upTok id r) out else 0)
      + (if r = x then pendS id c'.pendingIn + sumMap (retryUpTok id) out else 0) := by
  unfold inTransitV View.cstep
  by_cases ha : a = x <;> by_cases hr : r = x <;> simp [ha, hr, upd_apply] <;> omega

theorem inTransitV_popOut {h : Stanza} {rest : List Stanza} (hq : V.outb x = h :: rest) (a : Acct) (id : Nat) (r : Acct) :
    inTransitV (V.popOut x rest) a id r + (if r = x then downTok id h else 0) + (if a = x then retryDownTok id r h else 0)
    = inTransitV V a id r := by
  unfold inTransitV View.popOut
  by_cases ha : a = x <;> by_cases hr : r = x <;> simp [ha, hr, upd_apply, hq] <;> omega

theorem inTransitV_popIn {h : Stanza} {rest : List Stanza} (hq : V.inb x = h :: rest) (a : Acct) (id : Nat) (r : Acct) :
    inTransitV (V.popIn x rest) a id r + (if a = x then upTok id r h else 0) + (if r = x then retryUpTok id h else 0)
    = inTransitV V a id r := by
  unfold inTransitV View.popIn
  by_cases ha : a = x <;> by_cases hr : r = x <;> simp [ha, hr, upd_apply, hq] <;> omega

theorem inTransitV_pushes (add : Acct → List Stanza) (a : Acct) (id : Nat) (r : Acct) :
    inTransitV (V.pushes add) a id r = inTransitV V a id r + sumMap (downTok id) (add r) + sumMap (retryDownTok id r) (add a) := by
  unfold inTransitV View.pushes
  simp
  omega

-- ------------------------------------------------------------------------------------------------ receipt tokens
theorem receiptTokensV_cstep (c' : Client) (out : List Stanza) (k : Nat) (a : Acct) (id : Nat) (r : Acct) :
    receiptTokensV (V.cstep x c' out k) a id r + (if a = x then rcptGot (V.cl x) id r else 0)
    = receiptTokensV V a id r + (if r = x then sumMap (rcptIn id) out else 0) + (if a = x then rcptGot c' id r else 0) := by
  unfold receiptTokensV View.cstep
  by_cases ha : a = x <;> by_cases hr : r = x <;> simp [ha, hr, upd_apply] <;> omega

theorem receiptTokensV_popOut {h : Stanza} {rest : List Stanza} (hq : V.outb x = h :: rest) (a : Acct) (id : Nat) (r : Acct) :
    receiptTokensV (V.popOut x rest) a id r + (if a = x then rcptOut id r h else 0) = receiptTokensV V a id r := by
  unfold receiptTokensV View.popOut
  by_cases ha : a = x <;> simp [ha, upd_apply, hq] <;> omega

theorem receiptTokensV_popIn {h : Stanza} {rest : List Stanza} (hq : V.inb x = h :: rest) (a : Acct) (id : Nat) (r : Acct) :
    receiptTokensV (V.popIn x rest) a id r + (if r = x then rcptIn id h else 0) = receiptTokensV V a id r := by
  unfold receiptTokensV View.popIn
  by_cases hr : r = x <;> simp [hr, upd_apply, hq] <;> omega

theorem receiptTokensV_pushes (add : Acct → List Stanza) (a : Acct) (id : Nat) (r : Acct) :
    receiptTokensV (V.pushes add) a id r = receiptTokensV V a id r + sumMap (rcptOut id r) (add a) := by
  unfold receiptTokensV View.pushes
  simp
  omega

-- ------------------------------------------------------------------------------------------------ nonces on the way
theorem wayV_cstep {accts : List Acct} (hn : accts.Nodup) (c' : Client) (out : List Stanza) (k : Nat) (r : Acct) (n : Nat) :
    wayV accts (V.cstep x c' out k) r n + (if r = x then pendN n (V.cl x).pendingIn else 0)
    = wayV accts V r n + (if r = x then pendN n c'.pendingIn else 0)
      + (if x ∈ accts ∧ x ≠ r then sumMap (upN V.groups r n) out else 0) := by
  unfold wayV View.cstep
  have := sumMap_update (f := fun a => if a = r then 0 else sumMap (upN V.groups r n) (V.inb a))
    (g := fun a => if a = r then 0 else sumMap (upN V.groups r n) (upd V.inb x (V.inb x ++ out) a)) hn (a := x) (by
      intro b hb; simp [upd_ne _ _ hb])
  by_cases hr : r = x
  · subst hr
    simp at this
    simp [this]
    omega
  · have hr' : ¬ x = r := fun e => hr e.symm
    simp only [hr', if_false, upd_same, sumMap_append] at this
    simp only [upd_ne _ _ hr, hr, if_false, hr', and_true, ne_eq, not_false_eq_true]
    split at this <;> simp_all <;> omega

theorem wayV_popOut {accts : List Acct} {h : Stanza} {rest : List Stanza} (hq : V.outb x = h :: rest) (r : Acct) (n : Nat) :
    wayV accts (V.popOut x rest) r n + (if r = x then nOf n h else 0) = wayV accts V r n := by
  unfold wayV View.popOut
  by_cases hr : r = x <;> simp [hr, upd_apply, hq] <;> omega

theorem wayV_popIn {accts : List Acct} (hn : accts.Nodup) {h : Stanza} {rest : List Stanza} (hq : V.inb x = h :: rest) (r : Acct) (n : Nat) :
    wayV accts (V.popIn x rest) r n + (if x ∈ accts ∧ x ≠ r then upN V.groups r n h else 0) = wayV accts V r n := by
  unfold wayV View.popIn
  have := sumMap_update (f := fun a => if a = r then 0 else sumMap (upN V.groups r n) (V.inb a))
    (g := fun a => if a = r then 0 else sumMap (upN V.groups r n) (upd V.inb x rest a)) hn (a := x) (by
      intro b hb; simp [upd_ne _ _ hb])
  by_cases hr : x = r
  · subst hr
    simp at this
    simp [this]
  · simp only [hr, if_false, upd_same, hq, sumMap_cons] at this
    simp only [hr, and_true, ne_eq, not_false_eq_true]
    split at this <;> simp_all <;> omega

theorem wayV_pushes {accts : List Acct} (add : Acct → List Stanza) (r : Acct) (n : Nat) :
    wayV accts (V.pushes add) r n = wayV accts V r n + sumMap (nOf n) (add r) := by
  unfold wayV View.pushes
  simp
  omega

end

-- ------------------------------------------------------------------------------------------------ stanzas that carry nothing
section Zero
variable (id : Nat) (r : Acct) (groups : List (Nat × List Acct))
@[simp] theorem upTok_ack (i c : Nat) : upTok id r (.ack i c) = 0 := rfl
@[simp] theorem downTok_ack (i c : Nat) : downTok id (.ack i c) = 0 := rfl
@[simp] theorem retryUpTok_ack (i c : Nat) : retryUpTok id (.ack i c) = 0 := rfl
@[simp] theorem retryDownTok_ack (i c : Nat) : retryDownTok id r (.ack i c) = 0 := rfl
@[simp] theorem rcptIn_ack (i c : Nat) : rcptIn id (.ack i c) = 0 := rfl
@[simp] theorem rcptOut_ack (i c : Nat) : rcptOut id r (.ack i c) = 0 := rfl
@[simp] theorem nOf_ack (i c : Nat) : nOf id (.ack i c) = 0 := rfl
@[simp] theorem upN_ack (i c : Nat) : upN groups r id (.ack i c) = 0 := rfl
@[simp] theorem upTok_getKeys (i : Nat) (j : List Acct) : upTok id r (.getKeys i j) = 0 := rfl
@[simp] theorem downTok_getKeys (i : Nat) (j : List Acct) : downTok id (.getKeys i j) = 0 := rfl
@[simp] theorem retryUpTok_getKeys (i : Nat) (j : List Acct) : retryUpTok id (.getKeys i j) = 0 := rfl
@[simp] theorem retryDownTok_getKeys (i : Nat) (j : List Acct) : retryDownTok id r (.getKeys i j) = 0 := rfl
@[simp] theorem rcptIn_getKeys (i : Nat) (j : List Acct) : rcptIn id (.getKeys i j) = 0 := rfl
@[simp] theorem rcptOut_getKeys (i : Nat) (j : List Acct) : rcptOut id r (.getKeys i j) = 0 := rfl
@[simp] theorem nOf_getKeys (i : Nat) (j : List Acct) : nOf id (.getKeys i j) = 0 := rfl
@[simp] theorem upN_getKeys (i : Nat) (j : List Acct) : upN groups r id (.getKeys i j) = 0 := rfl
@[simp] theorem upTok_keys (i : Nat) (j : List Acct) : upTok id r (.keys i j) = 0 := rfl
@[simp] theorem downTok_keys (i : Nat) (j : List Acct) : downTok id (.keys i j) = 0 := rfl
@[simp] theorem retryUpTok_keys (i : Nat) (j : List Acct) : retryUpTok id (.keys i j) = 0 := rfl
@[simp] theorem retryDownTok_keys (i : Nat) (j : List Acct) : retryDownTok id r (.keys i j) = 0 := rfl
@[simp] theorem rcptIn_keys (i : Nat) (j : List Acct) : rcptIn id (.keys i j) = 0 := rfl
@[simp] theorem rcptOut_keys (i : Nat) (j : List Acct) : rcptOut id r (.keys i j) = 0 := rfl
@[simp] theorem nOf_keys (i : Nat) (j : List Acct) : nOf id (.keys i j) = 0 := rfl
@[simp] theorem upN_keys (i : Nat) (j : List Acct) : upN groups r id (.keys i j) = 0 := rfl
@[simp] theorem upTok_getGroup (i g : Nat) : upTok id r (.getGroup i g) = 0 := rfl
@[simp] theorem downTok_getGroup (i g : Nat) : downTok id (.getGroup i g) = 0 := rfl
@[simp] theorem retryUpTok_getGroup (i g : Nat) : retryUpTok id (.getGroup i g) = 0 := rfl
@[simp] theorem retryDownTok_getGroup (i g : Nat) : retryDownTok id r (.getGroup i g) = 0 := rfl
@[simp] theorem rcptIn_getGroup (i g : Nat) : rcptIn id (.getGroup i g) = 0 := rfl
@[simp] theorem rcptOut_getGroup (i g : Nat) : rcptOut id r (.getGroup i g) = 0 := rfl
@[simp] theorem nOf_getGroup (i g : Nat) : nOf id (.getGroup i g) = 0 := rfl
@[simp] theorem upN_getGroup (i g : Nat) : upN groups r id (.getGroup i g) = 0 := rfl
@[simp] theorem upTok_groupInfo (i g : Nat) (ms : List Acct) : upTok id r (.groupInfo i g ms) = 0 := rfl
@[simp] theorem downTok_groupInfo (i g : Nat) (ms : List Acct) : downTok id (.groupInfo i g ms) = 0 := rfl
@[simp] theorem retryUpTok_groupInfo (i g : Nat) (ms : List Acct) : retryUpTok id (.groupInfo i g ms) = 0 := rfl
@[simp] theorem retryDownTok_groupInfo (i g : Nat) (ms : List Acct) : retryDownTok id r (.groupInfo i g ms) = 0 := rfl
@[simp] theorem rcptIn_groupInfo (i g : Nat) (ms : List Acct) : rcptIn id (.groupInfo i g ms) = 0 := rfl
@[simp] theorem rcptOut_groupInfo (i g : Nat) (ms : List Acct) : rcptOut id r (.groupInfo i g ms) = 0 := rfl
@[simp] theorem nOf_groupInfo (i g : Nat) (ms : List Acct) : nOf id (.groupInfo i g ms) = 0 := rfl
@[simp] theorem upN_groupInfo (i g : Nat) (ms : List Acct) : upN groups r id (.groupInfo i g ms) = 0 := rfl
@[simp] theorem upTok_receipt (i : Nat) (p : Dest) (q : Option Acct) (t : RType) : upTok id r (.receipt i p q t) = 0 := rfl
@[simp] theorem downTok_receipt (i : Nat) (p : Dest) (q : Option Acct) (t : RType) : downTok id (.receipt i p q t) = 0 := rfl
@[simp] theorem nOf_receipt (i : Nat) (p : Dest) (q : Option Acct) (t : RType) : nOf id (.receipt i p q t) = 0 := rfl
@[simp] theorem upN_receipt (i : Nat) (p : Dest) (q : Option Acct) (t : RType) : upN groups r id (.receipt i p q t) = 0 := rfl
@[simp] theorem retryUpTok_msg (i : Nat) (p : Dest) (q : Option Acct) (im : Bool) (e : List (Option Acct × Ct)) (pl : Option Payload) : retryUpTok id (.msg i p q im e pl) = 0 := rfl
@[simp] theorem retryDownTok_msg (i : Nat) (p : Dest) (q : Option Acct) (im : Bool) (e : List (Option Acct × Ct)) (pl : Option Payload) : retryDownTok id r (.msg i p q im e pl) = 0 := rfl
@[simp] theorem rcptIn_msg (i : Nat) (p : Dest) (q : Option Acct) (im : Bool) (e : List (Option Acct × Ct)) (pl : Option Payload) : rcptIn id (.msg i p q im e pl) = 0 := rfl
@[simp] theorem rcptOut_msg (i : Nat) (p : Dest) (q : Option Acct) (im : Bool) (e : List (Option Acct × Ct)) (pl : Option Payload) : rcptOut id r (.msg i p q im e pl) = 0 := rfl
end Zero

end Yow.E2E
