/-
  The noise layer's handshake / transport orchestration (Model/Handshake.lean) for the configuration in which a
  disconnect retires both the segment queue and the protocol object: for EVERY schedule of the network thread and the
  handshake workers, and every connect / disconnect history an honest network can produce.
-/
import YowsupVerif.Model.Handshake
import YowsupVerif.Lemmas.HandshakeBase6
namespace Yow.HS

def goodCfg : Cfg := { freshQueue := true, freshProtocol := true, segReset := true }

/-- the frames of the current connection handed upward so far -/
def framesUpOfConn (s : St) : List Seg := (framesUp s).filter (fun sg => sg.conn == s.conn)

/-! The invariant (Lemmas/HandshakeBase4.lean: `Inv`) holds after every allowed run (HandshakeBase6: `Inv_run`); the
    theorems below read their statements off it. -/

theorem inv_of_run (acts : List Act) (ha : AllowedRun goodCfg {} acts = true) : Inv (run goodCfg {} acts) :=
  Inv_run acts {} Inv_init ha

theorem atRest_iff (s : St) (hr : atRest s = true) :
    s.npc = .idle ∧ ∀ (i : Nat) (w : Worker), s.workers[i]? = some w → w.pc = .done ∨ (w.pc = .reading ∧ qGetL s.queues w.q = []) := by
  simp only [atRest, Bool.and_eq_true, beq_iff_eq, List.all_eq_true, Bool.or_eq_true, List.isEmpty_iff] at hr
  refine ⟨hr.1.1, fun i w hi => ?_⟩
  exact hr.2 w (List.mem_of_getElem? hi)

/-- at rest on a live connection on which something has arrived, the handshake is over -/
theorem post_of_atRest (s : St) (h : Inv s) (hr : atRest s = true) (hl : s.live = true) (hne : (obs s).arrivedCur ≠ []) :
    Obs.Post (obs s) := by
  obtain ⟨w, hw, hc⟩ := h.cur_worker hl
  have hph := h.ph _ w hw hl hc
  rcases (atRest_iff s hr).2 _ w hw with hd | ⟨hrd, hq⟩
  · rw [hd] at hph; exact hph
  · rw [hrd] at hph
    rw [(h.st.cur _ w hw hl hc).2] at hq
    exact absurd (hph.2.1.symm.trans hq) hne

/-- Safety: with an honest server whose segments all authenticate, nothing ever raises, no frame of another connection is
    handed upward while this one is live, and the frames of the current connection go upward in arrival order, each at
    most once (a prefix of what arrived). -/
theorem frames_in_order (acts : List Act) (ha : AllowedRun goodCfg {} acts = true)
    (hg : allGood (run goodCfg {} acts) = true) :
    let s := run goodCfg {} acts
    noRaise s = true ∧ framesUpOfConn s <+: framesOfConn s := by
  have h := inv_of_run acts ha
  exact ⟨h.env.nr hg, h.env.pfx⟩

set_option linter.unusedVariables false in
/-- Completeness: whenever all threads are at rest in transport state, every frame that arrived on the current connection
    has been handed upward — including those that arrived while the handshake was still running.
    (The proof does not need `hg`: in transport state nothing undecryptable has been consumed on this connection.) -/
theorem frames_complete (acts : List Act) (ha : AllowedRun goodCfg {} acts = true)
    (hg : allGood (run goodCfg {} acts) = true)
    (hr : atRest (run goodCfg {} acts) = true) (ht : pstate (run goodCfg {} acts) = .transport) :
    framesUpOfConn (run goodCfg {} acts) = framesOfConn (run goodCfg {} acts) := by
  have h := inv_of_run acts ha
  obtain ⟨hn, hws⟩ := atRest_iff _ hr
  have hQ : qGetL (run goodCfg {} acts).queues (run goodCfg {} acts).curQ = [] := by
    apply Classical.byContradiction
    intro hne
    rcases h.pend hne ht with h1 | ⟨i, w, hi, hpc⟩
    · exact h1 hn
    · rcases hws i w hi with hd | ⟨hd, _⟩ <;> rw [hd] at hpc <;> simp at hpc
  obtain ⟨_, _, _, _, _, h4, _⟩ := h.post_of_transport ht
  have := (h4 ht).2
  rw [show (obs (run goodCfg {} acts)).Q = [] from hQ, List.append_nil] at this
  exact this

/-- The handshake succeeds: once the server's reply has arrived on the live connection and the threads are at rest, the
    layer is in transport state with the keys of THIS connection — whatever attempts were cut off before (their workers
    neither consume its reply nor change its state). -/
theorem handshake_succeeds (acts : List Act) (ha : AllowedRun goodCfg {} acts = true)
    (hg : allGood (run goodCfg {} acts) = true)
    (hr : atRest (run goodCfg {} acts) = true) (hl : (run goodCfg {} acts).live = true)
    (hh : (run goodCfg {} acts).helloSeen = true) :
    pstate (run goodCfg {} acts) = .transport ∧ keyOf (run goodCfg {} acts) = some (run goodCfg {} acts).conn := by
  have h := inv_of_run acts ha
  obtain ⟨hd, _, hd2⟩ := h.env.hello1 hl hh
  obtain ⟨_, _, _, h2, _, h4, h5⟩ := post_of_atRest _ h hr hl (by rw [hd2]; simp)
  rcases h2 with h2 | h2
  · exact ⟨h2, (h4 h2).1⟩
  · have := h5 h2
    rw [show (obs (run goodCfg {} acts)).good = true from hg] at this; cases this

/-- A reply that fails authentication is reported upward as a login failure instead of hanging: at rest, the layer is in
    error state and the failure of this connection was handed upward. -/
theorem failure_reported (acts : List Act) (ha : AllowedRun goodCfg {} acts = true)
    (hb : ∃ sg ∈ (run goodCfg {} acts).arrived, sg.kind = .hello ∧ sg.conn = (run goodCfg {} acts).conn ∧ sg.good = false)
    (hr : atRest (run goodCfg {} acts) = true) (hl : (run goodCfg {} acts).live = true) :
    pstate (run goodCfg {} acts) = .error ∧ Up.failure (run goodCfg {} acts).conn ∈ (run goodCfg {} acts).up := by
  have h := inv_of_run acts ha
  obtain ⟨sg, hm, hk, hc, hb⟩ := hb
  have hm' : sg ∈ (obs (run goodCfg {} acts)).arrivedCur := by
    simp only [Obs.arrivedCur, List.mem_filter, beq_iff_eq]
    exact ⟨hm, hc⟩
  have hne : (obs (run goodCfg {} acts)).arrivedCur ≠ [] := fun e => by rw [e] at hm'; cases hm'
  obtain ⟨_, hd, _, hd2⟩ := Obs.arrivedCur_ne_nil _ h.env hl hne
  have hsg : sg = hd := by
    rw [hd2] at hm'
    rcases List.mem_cons.mp hm' with e | e
    · exact e
    · have := (Obs.foc_sub _ sg e).2.1
      rw [hk] at this; cases this
  obtain ⟨hd', t, h1, _, h3, _, _⟩ := post_of_atRest _ h hr hl hne
  have : hd' = hd := by rw [hd2] at h1; exact ((List.cons.inj h1).1).symm
  exact h3 (by rw [this, ← hsg]; exact hb)

/-- Why the queue must be retired: with a shared queue the worker of an attempt that was cut off before the server answered
    consumes the reply of the next attempt, which then fails although the server is honest. -/
theorem shared_queue_breaks_reconnect :
    let acts : List Act := [.connect, .disconnect, .connect, .arrive { conn := 2, kind := .hello, good := true, serial := 1 }, .net, .worker 0, .worker 0]
    let s := run { freshQueue := false, freshProtocol := false, segReset := true } {} acts
    AllowedRun { freshQueue := false, freshProtocol := false, segReset := true } {} acts = true ∧ allGood s = true ∧
    pstate s = .error ∧ Up.failure 1 ∈ s.up := by
  decide

/-- Why the protocol object must be retired too: a worker that read its reply just before the connection was replaced would
    switch the NEW attempt's protocol to transport with the old connection's keys. -/
theorem shared_protocol_breaks_reconnect :
    let acts : List Act := [.connect, .arrive { conn := 1, kind := .hello, good := true, serial := 1 }, .net, .worker 0, .disconnect, .connect, .worker 0]
    let s := run { freshQueue := true, freshProtocol := false, segReset := true } {} acts
    AllowedRun { freshQueue := true, freshProtocol := false, segReset := true } {} acts = true ∧
    pstate s = .transport ∧ keyOf s = some 1 ∧ s.conn = 2 := by
  decide

end Yow.HS
