import YowsupVerif.Model.Registration
namespace Yow.Reg

/-- The hand-rolled construction is RFC 2104 HMAC keyed with the first 64 bytes of the key,
    for any hash function with 64-byte blocks. -/
theorem tokenRaw_is_hmac (H : Bytes → Bytes) (key sig cls phone : Bytes) (hk : 64 ≤ key.length) :
    tokenRaw H key sig cls phone = hmac H (key.take 64) (sig ++ cls ++ phone) := by
  have hl : (key.take 64).length = 64 := by
    rw [List.length_take]; exact Nat.min_eq_left hk
  unfold tokenRaw hmac xorPad
  simp only [hl, Nat.lt_irrefl, if_false, Nat.sub_self, List.replicate_zero, List.append_nil]

theorem hexVal_hexLower (n : Nat) (h : n < 16) : hexVal (hexLower n) = some n := by
  have : ∀ n, n < 16 → hexVal (hexLower n) = some n := by decide
  exact this n h

theorem isLiteral_hexLower (n : Nat) (h : n < 16) : isLiteral (hexLower n) = true := by
  have : ∀ n, n < 16 → isLiteral (hexLower n) = true := by decide
  exact this n h

theorem isLiteral_ne (b : Nat) (h : isLiteral b = true) : b ≠ 37 ∧ b ≠ 38 ∧ b ≠ 61 := by
  refine ⟨?_, ?_, ?_⟩ <;> intro e <;> subst e <;> revert h <;> decide

theorem pctDecode_cons_ne (c : Nat) (hc : c ≠ 37) (rest : List Nat) :
    pctDecode (c :: rest) = c :: pctDecode rest := by
  rw [pctDecode]
  intro a b r h
  exact absurd h hc

/-- a literal byte is never `%` and decoding leaves it alone; an escaped byte decodes to itself -/
theorem pctDecode_encByte (b : Nat) (hb : b < 256) (rest : List Nat) :
    pctDecode (encByte b ++ rest) = b :: pctDecode rest := by
  unfold encByte
  split
  · rename_i h
    exact pctDecode_cons_ne b (isLiteral_ne b h).1 rest
  · have h1 : hexVal (hexLower (b / 16 % 16)) = some (b / 16 % 16) :=
      hexVal_hexLower _ (Nat.mod_lt _ (by decide))
    have h2 : hexVal (hexLower (b % 16)) = some (b % 16) :=
      hexVal_hexLower _ (Nat.mod_lt _ (by decide))
    simp only [List.cons_append, List.nil_append, pctDecode, h1, h2]
    congr 1
    omega

/-- standard decoding of the encoded value returns the original bytes (every byte value) -/
theorem pctDecode_urlencodeBytes (bs : Bytes) (hb : ∀ b ∈ bs, b < 256) (rest : List Nat) :
    pctDecode (urlencodeBytes bs ++ rest) = bs ++ pctDecode rest := by
  induction bs with
  | nil => simp [urlencodeBytes]
  | cons b bs ih =>
    have hb0 : b < 256 := hb b (List.mem_cons_self ..)
    have ih' := ih (fun x hx => hb x (List.mem_cons_of_mem _ hx))
    unfold urlencodeBytes at ih' ⊢
    rw [List.flatMap_cons, List.append_assoc, pctDecode_encByte b hb0, ih']
    rfl

/-- only `[A-Za-z0-9.]` and the escapes `%` + lower-case hex digits occur in an encoded value;
    in particular never `&` (38) nor `=` (61) -/
theorem urlencodeBytes_chars (bs : Bytes) (hb : ∀ b ∈ bs, b < 256) :
    ∀ c ∈ urlencodeBytes bs, isLiteral c = true ∨ c = 37 := by
  have _ := hb
  intro c hc
  unfold urlencodeBytes at hc
  rw [List.mem_flatMap] at hc
  obtain ⟨b, _, hcb⟩ := hc
  unfold encByte at hcb
  split at hcb
  · rename_i h
    simp only [List.mem_singleton] at hcb
    subst hcb; exact Or.inl h
  · simp only [List.mem_cons, List.not_mem_nil, or_false] at hcb
    rcases hcb with h | h | h
    · exact Or.inr h
    · subst h; exact Or.inl (isLiteral_hexLower _ (Nat.mod_lt _ (by decide)))
    · subst h; exact Or.inl (isLiteral_hexLower _ (Nat.mod_lt _ (by decide)))

theorem utf8_bytes (c : Nat) (hc : c < 0x110000) : ∀ b ∈ utf8 c, b < 256 := by
  intro b hb
  unfold utf8 at hb
  split at hb
  · simp only [List.mem_cons, List.not_mem_nil, or_false] at hb; omega
  · split at hb
    · simp only [List.mem_cons, List.not_mem_nil, or_false] at hb; omega
    · split at hb
      · simp only [List.mem_cons, List.not_mem_nil, or_false] at hb; omega
      · simp only [List.mem_cons, List.not_mem_nil, or_false] at hb; omega

theorem pctDecode_urlencodeStr_aux (cps : List Nat) (hc : ∀ c ∈ cps, c < 0x110000) (rest : List Nat) :
    pctDecode (urlencodeStr cps ++ rest) = cps.flatMap utf8 ++ pctDecode rest := by
  induction cps with
  | nil => simp [urlencodeStr]
  | cons c cs ih =>
    have hc0 : c < 0x110000 := hc c (List.mem_cons_self ..)
    have ih' := ih (fun x hx => hc x (List.mem_cons_of_mem _ hx))
    unfold urlencodeStr at ih' ⊢
    rw [List.flatMap_cons, List.flatMap_cons, List.append_assoc,
      pctDecode_urlencodeBytes _ (utf8_bytes c hc0), ih', List.append_assoc]

/-- for text: standard decoding returns the UTF-8 encoding of the string -/
theorem pctDecode_urlencodeStr (cps : List Nat) (hc : ∀ c ∈ cps, c < 0x110000) :
    pctDecode (urlencodeStr cps) = cps.flatMap utf8 := by
  have := pctDecode_urlencodeStr_aux cps hc []
  simpa [pctDecode] using this

theorem splitFirst_append (c : Nat) (l r : List Nat) (h : ∀ x ∈ l, x ≠ c) :
    splitFirst c (l ++ c :: r) = (l, some r) := by
  induction l with
  | nil => simp [splitFirst]
  | cons x xs ih =>
    have hx : x ≠ c := h x (List.mem_cons_self ..)
    have ih' := ih (fun y hy => h y (List.mem_cons_of_mem _ hy))
    simp only [List.cons_append, splitFirst, hx, if_false, ih']

theorem splitFirst_none (c : Nat) (l : List Nat) (h : ∀ x ∈ l, x ≠ c) :
    splitFirst c l = (l, none) := by
  induction l with
  | nil => simp [splitFirst]
  | cons x xs ih =>
    have hx : x ≠ c := h x (List.mem_cons_self ..)
    have ih' := ih (fun y hy => h y (List.mem_cons_of_mem _ hy))
    simp only [splitFirst, hx, if_false, ih']

theorem enc_no (v : Bytes) (hv : ∀ b ∈ v, b < 256) :
    ∀ x ∈ urlencodeBytes v, x ≠ 38 ∧ x ≠ 61 := by
  intro x hx
  rcases urlencodeBytes_chars v hv x hx with h | h
  · exact (isLiteral_ne x h).2
  · subst h; decide

theorem item_no38 (k : List Nat) (v : Bytes) (hk : ∀ c ∈ k, c ≠ 38 ∧ c ≠ 61) (hv : ∀ b ∈ v, b < 256) :
    ∀ x ∈ k ++ 61 :: urlencodeBytes v, x ≠ 38 := by
  intro x hx
  rw [List.mem_append, List.mem_cons] at hx
  rcases hx with h | h | h
  · exact (hk x h).1
  · subst h; decide
  · exact (enc_no v hv x h).1

theorem parse_entry (k : List Nat) (v : Bytes) (hk : ∀ c ∈ k, c ≠ 38 ∧ c ≠ 61) (hv : ∀ b ∈ v, b < 256) :
    ((splitFirst 61 (k ++ 61 :: urlencodeBytes v)).1,
      pctDecode ((splitFirst 61 (k ++ 61 :: urlencodeBytes v)).2.getD [])) = (k, v) := by
  rw [splitFirst_append 61 k _ (fun x hx => (hk x hx).2)]
  have := pctDecode_urlencodeBytes v hv []
  simp only [List.append_nil, pctDecode] at this
  simp only [Option.getD_some, this]

/-- keys that contain neither `&` nor `=` (and values of bytes) are parsed back in the original order -/
theorem parseParams_urlencodeParams (ps : List (List Nat × Bytes)) (hne : ps ≠ [])
    (hk : ∀ kv ∈ ps, (∀ c ∈ kv.1, c ≠ 38 ∧ c ≠ 61) ∧ (∀ b ∈ kv.2, b < 256)) (fuel : Nat) (hf : ps.length ≤ fuel) :
    parseParams fuel (urlencodeParams ps) = ps := by
  induction ps generalizing fuel with
  | nil => exact absurd rfl hne
  | cons p rest ih =>
    obtain ⟨k, v⟩ := p
    have hkv := hk (k, v) (List.mem_cons_self ..)
    have hk1 : ∀ c ∈ k, c ≠ 38 ∧ c ≠ 61 := hkv.1
    have hv1 : ∀ b ∈ v, b < 256 := hkv.2
    cases fuel with
    | zero => simp at hf
    | succ fuel =>
      cases rest with
      | nil =>
        simp only [urlencodeParams, parseParams]
        rw [splitFirst_none 38 _ (item_no38 k v hk1 hv1)]
        simp only [parse_entry k v hk1 hv1]
      | cons p2 rest2 =>
        have ih' := ih (List.cons_ne_nil _ _)
          (fun kv h => hk kv (List.mem_cons_of_mem _ h)) fuel
          (by simp only [List.length_cons] at hf ⊢; omega)
        have e : urlencodeParams ((k, v) :: p2 :: rest2) =
            (k ++ 61 :: urlencodeBytes v) ++ 38 :: urlencodeParams (p2 :: rest2) := by
          rw [urlencodeParams]
          simp
        rw [e]
        simp only [parseParams]
        rw [splitFirst_append 38 _ _ (item_no38 k v hk1 hv1)]
        simp only [parse_entry k v hk1 hv1, ih']

/-- with the private key matching the server key used, the blob opens to exactly the encoded
    parameter string -/
theorem openBlob_encryptParams (c : Crypto) (hc : c.OK) (eph srv : Bytes) (params : List (List Nat × Bytes)) :
    openBlob c srv (encryptParams c eph params (c.pubOf srv)) = some (urlencodeParams params) := by
  unfold openBlob encryptParams
  rw [List.take_left' (hc.pub_len eph), List.drop_left' (hc.pub_len eph), hc.dh_sym srv eph, hc.open_seal]

end Yow.Reg
