import YowsupVerif.Model.Config
namespace Yow.Config

/-! ### helper lemmas: lines -/

theorem splitLines_cons_form (s : Str) : ∃ l ls, splitLines s = l :: ls := by
  induction s with
  | nil => exact ⟨[], [], rfl⟩
  | cons c cs ih =>
    obtain ⟨l, ls, h⟩ := ih
    by_cases hc : c = 10
    · exact ⟨[], l :: ls, by simp [splitLines, h, hc]⟩
    · exact ⟨c :: l, ls, by simp [splitLines, h, hc]⟩

theorem splitLines_no10 (l : Str) (h : 10 ∉ l) : splitLines l = [l] := by
  induction l with
  | nil => rfl
  | cons c cs ih =>
    have hc : c ≠ 10 := by intro e; exact h (by simp [e])
    have hcs : 10 ∉ cs := by intro e; exact h (by simp [e])
    simp [splitLines, ih hcs, hc]

theorem splitLines_append (l rest : Str) (h : 10 ∉ l) :
    splitLines (l ++ 10 :: rest) = l :: splitLines rest := by
  induction l with
  | nil =>
    obtain ⟨a, as, ha⟩ := splitLines_cons_form rest
    simp [splitLines, ha]
  | cons c cs ih =>
    have hc : c ≠ 10 := by intro e; exact h (by simp [e])
    have hcs : 10 ∉ cs := by intro e; exact h (by simp [e])
    simp [splitLines, ih hcs, hc]

theorem splitLines_joinLines (ls : List Str) (hne : ls ≠ []) (h : ∀ l ∈ ls, 10 ∉ l) :
    splitLines (joinLines ls) = ls := by
  induction ls with
  | nil => exact absurd rfl hne
  | cons l ls ih =>
    cases ls with
    | nil => simpa [joinLines] using splitLines_no10 l (h l (by simp))
    | cons l' ls' =>
      have h1 : 10 ∉ l := h l (by simp)
      have h2 := ih (by simp) (fun x hx => h x (by simp [hx]))
      simp only [joinLines] at h2 ⊢
      rw [splitLines_append _ _ h1, h2]

/-! ### helper lemmas: strip / before / after -/

theorem stripLeft_of_head (s : Str) (h : ∀ c, s.head? = some c → isSpace c = false) :
    stripLeft s = s := by
  cases s with
  | nil => rfl
  | cons c cs => simp [stripLeft, h c rfl]

theorem strip_eq (s : Str) (h1 : ∀ c, s.head? = some c → isSpace c = false)
    (h2 : ∀ c, s.getLast? = some c → isSpace c = false) : strip s = s := by
  unfold strip
  rw [stripLeft_of_head s h1, stripLeft_of_head s.reverse (by simpa [List.head?_reverse] using h2)]
  simp

theorem before_not_mem (c : Nat) (s : Str) (h : c ∉ s) : before c s = s := by
  induction s with
  | nil => rfl
  | cons a as ih =>
    have ha : a ≠ c := by intro e; exact h (by simp [e])
    have has : c ∉ as := by intro e; exact h (by simp [e])
    simp [before, ha, ih has]

theorem after_append (sep : Nat) (k v : Str) (h : sep ∉ k) : after sep (k ++ sep :: v) = some v := by
  induction k with
  | nil => simp [after]
  | cons a as ih =>
    have ha : a ≠ sep := by intro e; exact h (by simp [e])
    have has : sep ∉ as := by intro e; exact h (by simp [e])
    simp [after, ha, ih has]

theorem before_append (sep : Nat) (k v : Str) (h : sep ∉ k) : before sep (k ++ sep :: v) = k := by
  induction k with
  | nil => simp [before]
  | cons a as ih =>
    have ha : a ≠ sep := by intro e; exact h (by simp [e])
    have has : sep ∉ as := by intro e; exact h (by simp [e])
    simp [before, ha, ih has]

theorem map_dash_id (k : Str) (h : 45 ∉ k) : k.map (fun ch => if ch = 45 then 95 else ch) = k := by
  induction k with
  | nil => rfl
  | cons a as ih =>
    have ha : a ≠ 45 := by intro e; exact h (by simp [e])
    have has : 45 ∉ as := by intro e; exact h (by simp [e])
    simp [ha, ih has]

theorem line_no10 (k v : Str) (hk : KeyOK k) (hv : ValOK v) : 10 ∉ k ++ 61 :: v := by
  intro hm
  simp only [List.mem_append, List.mem_cons] at hm
  rcases hm with hm | hm | hm
  · exact (hk.2 10 hm).2.2.2.2.1 rfl
  · omega
  · exact (hv.1 10 hm).2.2 rfl

theorem parseLine_kv (k v : Str) (hk : KeyOK k) (hv : ValOK v) :
    parseLine (k ++ 61 :: v) = some (some (k, v)) := by
  obtain ⟨hkne, hkc⟩ := hk
  obtain ⟨hvc, hvh, hvl⟩ := hv
  cases k with
  | nil => exact absurd rfl hkne
  | cons c k' =>
    have hc := hkc c (by simp)
    have hstrip : strip (c :: k' ++ 61 :: v) = c :: k' ++ 61 :: v := by
      apply strip_eq
      · intro d hd
        simp at hd
        subst hd
        exact hc.2.2.2.2.2
      · intro d hd
        have hl : ∀ (xs : List Nat) (b : Nat), (xs ++ [b]).getLast? = some b := by simp
        rcases List.eq_nil_or_concat v with hv0 | ⟨L, b, hv0⟩
        · subst hv0
          rw [hl] at hd
          cases hd
          decide
        · subst hv0
          simp only [List.concat_eq_append] at hd hvl
          apply hvl
          have e : c :: k' ++ 61 :: (L ++ [b]) = (c :: k' ++ 61 :: L) ++ [b] := by simp
          rw [e, hl] at hd
          rw [hl]
          exact hd
    have h35 : 35 ∉ c :: k' ++ 61 :: v := by
      intro hm
      simp only [List.mem_append, List.mem_cons] at hm
      rcases hm with hm | hm | hm
      · exact (hkc 35 (by simpa using hm)).2.1 rfl
      · omega
      · exact (hvc 35 hm).1 rfl
    have h59 : 59 ∉ c :: k' ++ 61 :: v := by
      intro hm
      simp only [List.mem_append, List.mem_cons] at hm
      rcases hm with hm | hm | hm
      · exact (hkc 59 (by simpa using hm)).2.2.1 rfl
      · omega
      · exact (hvc 59 hm).2.1 rfl
    have h61 : 61 ∉ c :: k' := fun hm => (hkc 61 hm).1 rfl
    have h45 : 45 ∉ c :: k' := fun hm => (hkc 45 hm).2.2.2.1 rfl
    have hsk : strip (c :: k') = c :: k' := by
      apply strip_eq
      · intro d hd
        exact (hkc d (List.mem_of_mem_head? hd)).2.2.2.2.2
      · intro d hd
        exact (hkc d (List.mem_of_getLast? hd)).2.2.2.2.2
    have hsv : strip v = v := strip_eq v hvh hvl
    unfold parseLine
    simp only [hstrip]
    have e : c :: k' ++ 61 :: v = c :: (k' ++ 61 :: v) := rfl
    rw [e]
    simp only []
    rw [if_neg (by intro h; rcases h with h | h; exact hc.2.1 h; exact hc.2.2.1 h)]
    rw [← e, before_not_mem 35 _ h35, before_not_mem 59 _ h59, after_append 61 _ _ h61]
    simp only [before_append 61 _ _ h61, hsk, hsv, map_dash_id _ h45]

theorem dictSet_new (acc : List (Str × Str)) (k v : Str) (h : ∀ p ∈ acc, p.1 ≠ k) :
    dictSet acc k v = acc ++ [(k, v)] := by
  unfold dictSet
  rw [if_neg]
  simp only [List.any_eq_true, decide_eq_true_eq, not_exists, not_and]
  exact h

theorem parseLines_render (kvs : List (Str × Str)) :
    ∀ acc : List (Str × Str), (∀ kv ∈ kvs, KeyOK kv.1 ∧ ValOK kv.2) →
      ((acc ++ kvs).map Prod.fst).Nodup →
      parseLines (kvs.map fun kv => kv.1 ++ 61 :: kv.2) acc = some (acc ++ kvs) := by
  induction kvs with
  | nil => intro acc _ _; simp [parseLines]
  | cons kv kvs ih =>
    intro acc hok hnd
    have h1 := hok kv (by simp)
    simp only [List.map_cons, parseLines, parseLine_kv _ _ h1.1 h1.2]
    have hnew : ∀ p ∈ acc, p.1 ≠ kv.1 := by
      intro p hp e
      simp only [List.map_append, List.map_cons, List.nodup_append] at hnd
      exact hnd.2.2 p.1 (List.mem_map_of_mem hp) kv.1 (by simp) e
    rw [dictSet_new _ _ _ hnew]
    have := ih (acc ++ [(kv.1, kv.2)]) (fun x hx => hok x (by simp [hx])) (by simpa using hnd)
    simpa using this

/-- The key=value format is lossless on every dictionary within the format restriction. -/
theorem parse_render (kvs : List (Str × Str)) (h : DictOK kvs) : parse (render kvs) = some kvs := by
  unfold parse render
  by_cases hne : kvs = []
  · subst hne
    simp [joinLines, splitLines, parseLines, parseLine, strip, stripLeft]
  · rw [splitLines_joinLines _ (by simpa using hne)]
    · simpa using parseLines_render kvs [] h.1 (by simpa using h.2)
    · intro l hl
      simp only [List.mem_map] at hl
      obtain ⟨kv, hkv, rfl⟩ := hl
      exact line_no10 _ _ (h.1 kv hkv).1 (h.1 kv hkv).2

/-- A document whose first line is `{` (every JSON object this library writes) is rejected by the
    key=value parser, so trial parsing classifies it as JSON. -/
theorem parse_brace_fails (rest : Str) : parse (123 :: 10 :: rest) = none := by
  obtain ⟨l, ls, h⟩ := splitLines_cons_form rest
  have : parseLine [123] = some none := by
    simp [parseLine, strip, stripLeft, isSpace, before, after]
  simp [parse, splitLines, h, parseLines, this]

/-- … whereas a non-empty key=value document is accepted with a non-empty result. -/
theorem parse_render_nonempty (kvs : List (Str × Str)) (h : DictOK kvs) (hne : kvs ≠ []) :
    ∃ d, parse (render kvs) = some d ∧ d ≠ [] :=
  ⟨kvs, parse_render kvs h, hne⟩

/-! ### helper lemmas: transform pipeline -/

/-- the per-field serialisation step -/
def serEntry (b : B64) (fv : Field × Option Val) : Option (Str × SVal) :=
  match fv.2 with
  | none => none
  | some (.str s) => some (fv.1.name, SVal.str s)
  | some (.int n) => some (fv.1.name, SVal.int n)
  | some (.bin x) => some (fv.1.name, SVal.str (b.enc x))

theorem serialize_eq (b : B64) (version : Nat) (fields : List (Field × Option Val)) :
    serialize b version fields =
      ([95, 95, 118, 101, 114, 115, 105, 111, 110, 95, 95], SVal.int version) ::
        fields.filterMap (serEntry b) := rfl

theorem serEntry_name (b : B64) (fv : Field × Option Val) (kv : Str × SVal)
    (h : serEntry b fv = some kv) : kv.1 = fv.1.name := by
  obtain ⟨f, ov⟩ := fv
  cases ov with
  | none => simp [serEntry] at h
  | some v => cases v <;> (simp [serEntry] at h; subst h; rfl)

theorem find_filterMap_none (b : B64) (n : Str) (fields : List (Field × Option Val))
    (h : ∀ fv ∈ fields, fv.1.name ≠ n) :
    (fields.filterMap (serEntry b)).find? (fun kv => kv.1 = n) = none := by
  simp only [List.find?_eq_none, List.mem_filterMap, decide_eq_true_eq]
  rintro kv ⟨fv, hfv, hs⟩ e
  exact h fv hfv (by rw [← serEntry_name b fv kv hs, e])

theorem find_filterMap (b : B64) (fields : List (Field × Option Val))
    (hnd : (fields.map (fun fv => fv.1.name)).Nodup) (fv : Field × Option Val) (hfv : fv ∈ fields) :
    (fields.filterMap (serEntry b)).find? (fun kv => kv.1 = fv.1.name) = serEntry b fv := by
  induction fields with
  | nil => simp at hfv
  | cons fv0 rest ih =>
    simp only [List.map_cons, List.nodup_cons, List.mem_map, not_exists, not_and] at hnd
    obtain ⟨hn0, hnd'⟩ := hnd
    rcases List.mem_cons.1 hfv with rfl | hmem
    · cases hs : serEntry b fv with
      | none =>
        rw [List.filterMap_cons, hs]
        exact find_filterMap_none b _ rest (fun x hx => hn0 x hx)
      | some kv =>
        rw [List.filterMap_cons, hs]
        simp [serEntry_name b fv kv hs]
    · have hne : fv0.1.name ≠ fv.1.name := fun e => hn0 fv hmem e.symm
      cases hs : serEntry b fv0 with
      | none =>
        rw [List.filterMap_cons, hs]
        exact ih hnd' hmem
      | some kv =>
        rw [List.filterMap_cons, hs]
        simp only [List.find?_cons, serEntry_name b fv0 kv hs, hne, decide_false]
        exact ih hnd' hmem

/-- The transform pipeline is lossless: every field comes back with its value, binary fields byte
    for byte (given `dec ∘ enc = id` for base64), unset fields stay unset. -/
theorem deserialize_serialize (b : B64) (hb : ∀ x, b.dec (b.enc x) = x) (version : Nat)
    (fields : List (Field × Option Val))
    (hnd : (fields.map (fun fv => fv.1.name)).Nodup)
    (hver : ∀ fv ∈ fields, fv.1.name ≠ [95, 95, 118, 101, 114, 115, 105, 111, 110, 95, 95])
    (hty : ∀ fv ∈ fields, ∀ v, fv.2 = some v → (fv.1.binary = true ↔ ∃ x, v = Val.bin x)) :
    deserialize b (fields.map Prod.fst) (serialize b version fields) = fields := by
  rw [serialize_eq]
  unfold deserialize
  rw [List.map_map]
  conv => rhs; rw [← List.map_id fields]
  apply List.map_congr_left
  intro fv hfv
  have hv : ([95, 95, 118, 101, 114, 115, 105, 111, 110, 95, 95] : Str) ≠ fv.1.name :=
    fun e => hver fv hfv e.symm
  simp only [Function.comp, List.find?_cons, hv, decide_false, find_filterMap b fields hnd fv hfv, id]
  have ht := hty fv hfv
  obtain ⟨f, ov⟩ := fv
  cases ov with
  | none => simp [serEntry]
  | some v =>
    have ht' := ht v rfl
    cases v with
    | str s =>
      have : f.binary = false := by
        cases hbn : f.binary with
        | false => rfl
        | true => obtain ⟨x, hx⟩ := ht'.1 hbn; cases hx
      simp [serEntry, this]
    | int n => simp [serEntry]
    | bin x =>
      have : f.binary = true := ht'.2 ⟨x, rfl⟩
      simp [serEntry, this, hb]

/-! ### atomic save -/

/-- An atomic save: at every crash point the profile's config file (path 0) holds the previous content
    or the complete new content (buffered data that was not flushed is lost by the crash). -/
theorem atomicSave_crash (ops : List FileOp) (h : AtomicSave ops = true) (new : Str) (fs : FS) (k : Nat) :
    (applyOps new fs (ops.take k)).files 0 = fs.files 0 ∨ (applyOps new fs (ops.take k)).files 0 = some new := by
  induction ops using AtomicSave.induct generalizing k fs with
  | case1 rest ih =>
    have h' : AtomicSave rest = true := by simpa [AtomicSave] using h
    cases k with
    | zero => left; simp [applyOps]
    | succ k => simpa [applyOps, applyOp] using ih h' fs k
  | case2 t t' t'' s d =>
    simp only [AtomicSave, Bool.and_eq_true, beq_iff_eq, bne_iff_ne] at h
    obtain ⟨⟨⟨⟨ht, rfl⟩, rfl⟩, rfl⟩, rfl⟩ := h
    have ht' := Ne.symm ht
    match k with
    | 0 | 1 | 2 | 3 => left; simp [applyOps, applyOp, flush, fsSet, ht']
    | k + 4 => right; simp [applyOps, applyOp, flush, fsSet, ht']
  | case3 t t' t3 t'' s d =>
    simp only [AtomicSave, Bool.and_eq_true, beq_iff_eq, bne_iff_ne] at h
    obtain ⟨⟨⟨⟨⟨ht, rfl⟩, rfl⟩, rfl⟩, rfl⟩, rfl⟩ := h
    have ht' := Ne.symm ht
    match k with
    | 0 | 1 | 2 | 3 | 4 => left; simp [applyOps, applyOp, flush, fsSet, ht']
    | k + 5 => right; simp [applyOps, applyOp, flush, fsSet, ht']
  | case4 t h1 h2 h3 =>
    exfalso
    unfold AtomicSave at h
    split at h
    · exact h1 _ rfl
    · exact h2 _ _ _ _ _ rfl
    · exact h3 _ _ _ _ _ _ rfl
    · exact absurd h (by decide)

/-- … also when the crash tears the operation in progress (a flush that wrote only a prefix). -/
theorem atomicSave_torn (ops : List FileOp) (h : AtomicSave ops = true) (new part : Str) (fs : FS) (k : Nat)
    (hk : k < ops.length) :
    (applyTorn new part (applyOps new fs (ops.take k)) (ops.getD k .mkdirs)).files 0 = fs.files 0 ∨
    (applyTorn new part (applyOps new fs (ops.take k)) (ops.getD k .mkdirs)).files 0 = some new := by
  induction ops using AtomicSave.induct generalizing k fs with
  | case1 rest ih =>
    have h' : AtomicSave rest = true := by simpa [AtomicSave] using h
    cases k with
    | zero => left; simp [applyOps, applyTorn, applyOp]
    | succ k =>
      have hk' : k < rest.length := by simpa using hk
      simpa [applyOps, applyOp] using ih h' fs k hk'
  | case2 t t' t'' s d =>
    simp only [AtomicSave, Bool.and_eq_true, beq_iff_eq, bne_iff_ne] at h
    obtain ⟨⟨⟨⟨ht, rfl⟩, rfl⟩, rfl⟩, rfl⟩ := h
    have ht' := Ne.symm ht
    match k, hk with
    | 0, _ | 1, _ | 2, _ => left; simp [applyOps, applyOp, applyTorn, flush, fsSet, ht']
    | 3, _ => right; simp [applyOps, applyOp, applyTorn, flush, fsSet, ht']
    | k + 4, hk => exfalso; have : k + 4 < 4 := hk; omega
  | case3 t t' t3 t'' s d =>
    simp only [AtomicSave, Bool.and_eq_true, beq_iff_eq, bne_iff_ne] at h
    obtain ⟨⟨⟨⟨⟨ht, rfl⟩, rfl⟩, rfl⟩, rfl⟩, rfl⟩ := h
    have ht' := Ne.symm ht
    match k, hk with
    | 0, _ | 1, _ | 2, _ | 3, _ => left; simp [applyOps, applyOp, applyTorn, flush, fsSet, ht']
    | 4, _ => right; simp [applyOps, applyOp, applyTorn, flush, fsSet, ht']
    | k + 5, hk => exfalso; have : k + 5 < 5 := hk; omega
  | case4 t h1 h2 h3 =>
    exfalso
    unfold AtomicSave at h
    split at h
    · exact h1 _ rfl
    · exact h2 _ _ _ _ _ rfl
    · exact h3 _ _ _ _ _ _ rfl
    · exact absurd h (by decide)

theorem atomicSave_complete (ops : List FileOp) (h : AtomicSave ops = true) (new : Str) (fs : FS) :
    (applyOps new fs ops).files 0 = some new := by
  induction ops using AtomicSave.induct generalizing fs with
  | case1 rest ih =>
    have h' : AtomicSave rest = true := by simpa [AtomicSave] using h
    simpa [applyOps, applyOp] using ih h' fs
  | case2 t t' t'' s d =>
    simp only [AtomicSave, Bool.and_eq_true, beq_iff_eq, bne_iff_ne] at h
    obtain ⟨⟨⟨⟨ht, rfl⟩, rfl⟩, rfl⟩, rfl⟩ := h
    have ht' := Ne.symm ht
    simp [applyOps, applyOp, flush, fsSet, ht']
  | case3 t t' t3 t'' s d =>
    simp only [AtomicSave, Bool.and_eq_true, beq_iff_eq, bne_iff_ne] at h
    obtain ⟨⟨⟨⟨⟨ht, rfl⟩, rfl⟩, rfl⟩, rfl⟩, rfl⟩ := h
    have ht' := Ne.symm ht
    simp [applyOps, applyOp, flush, fsSet, ht']
  | case4 t h1 h2 h3 =>
    exfalso
    unfold AtomicSave at h
    split at h
    · exact h1 _ rfl
    · exact h2 _ _ _ _ _ rfl
    · exact h3 _ _ _ _ _ _ rfl
    · exact absurd h (by decide)

/-! ### text mode (universal newlines) -/

theorem readText_cons (c : Nat) (cs : Str) (hc : c ≠ 13) : readText (c :: cs) = c :: readText cs := by
  rw [readText.eq_def]
  split
  · simp_all
  · simp_all
  · simp_all
  · simp_all

theorem readText_id (s : Str) (h : ∀ c ∈ s, c ≠ 13) : readText s = s := by
  induction s with
  | nil => rfl
  | cons c cs ih =>
    rw [readText_cons c cs (h c (by simp)), ih (fun x hx => h x (by simp [hx]))]

theorem joinLines_noCR (ls : List Str) (h : ∀ l ∈ ls, ∀ c ∈ l, c ≠ 13) : ∀ c ∈ joinLines ls, c ≠ 13 := by
  induction ls with
  | nil => intro c hc; simp [joinLines] at hc
  | cons l rest ih =>
    cases rest with
    | nil => intro c hc; simp [joinLines] at hc; exact h l (by simp) c hc
    | cons l2 rest2 =>
      intro c hc
      simp only [joinLines, List.mem_append, List.mem_cons] at hc
      rcases hc with hc | hc | hc
      · exact h l (by simp) c hc
      · omega
      · exact ih (fun l' hl' => h l' (by simp [hl'])) c hc

theorem render_noCR (kvs : List (Str × Str)) (h : NoCR kvs) : ∀ c ∈ render kvs, c ≠ 13 := by
  unfold render
  apply joinLines_noCR
  intro l hl c hc
  simp only [List.mem_map] at hl
  obtain ⟨kv, hkv, rfl⟩ := hl
  simp only [List.mem_append, List.mem_cons] at hc
  rcases hc with hc | hc | hc
  · exact (h kv hkv).1 c hc
  · omega
  · exact (h kv hkv).2 c hc

end Yow.Config
