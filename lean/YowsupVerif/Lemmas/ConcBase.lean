/-
  Support for Lemmas/Conc.lean: the inductive invariant of the concurrency model (Model/Conc.lean) with the outer lock
  in place, its preservation by every step, and `step_ne` (an enabled operation changes the state).
-/
import YowsupVerif.Model.Conc
namespace Yow.Conc

/-! ### wire lemmas -/

theorem wellFramed_append_frame (w : List W) (n : Nat) (f : Frame)
    (h : wellFramed w n = true) (hc : f.ctr * 2 = w.length + 2 * n) :
    wellFramed (w ++ [.hdr f, .pay f]) n = true := by
  fun_induction wellFramed w n with
  | case1 n => simp [wellFramed]; simp at hc; omega
  | case2 g g' rest n ih =>
    simp [wellFramed] at h ⊢
    refine ⟨h.1, ih h.2 ?_⟩
    simp at hc; omega
  | case3 w n h1 h2 => simp at h

theorem stanzasOnWire_append (a b : List W) :
    stanzasOnWire (a ++ b) = stanzasOnWire a ++ stanzasOnWire b := by
  induction a with
  | nil => simp [stanzasOnWire]
  | cons x a ih => cases x <;> simp [stanzasOnWire, ih]

theorem flatten_set_perm (dn : List (List Nat)) (i : Nat) (d : List Nat) (c : Nat)
    (h : dn[i]? = some d) : (dn.set i (d ++ [c])).flatten.Perm (dn.flatten ++ [c]) := by
  induction dn generalizing i with
  | nil => simp at h
  | cons x dn ih =>
    cases i with
    | zero =>
      simp at h; subst h
      simp
      exact (List.perm_append_comm (l₁ := [c]) (l₂ := dn.flatten)).append_left x
    | succ i =>
      simp at h
      simp
      exact (ih i h).append_left x

/-! ### the invariant -/

inductive Phase | enc | put | acqN | get | wrH | wrP | relN | relO
deriving DecidableEq

/-- remaining operations of the current stanza, named by the next operation -/
def tailOps (inner : Bool) (c : Nat) : Phase → List Op
  | .enc => [.enc c, .put] ++ (if inner then [.acqN] else []) ++ [.get, .wrH, .wrP] ++ (if inner then [.relN] else []) ++ [.relO]
  | .put => [.put] ++ (if inner then [.acqN] else []) ++ [.get, .wrH, .wrP] ++ (if inner then [.relN] else []) ++ [.relO]
  | .acqN => [.acqN, .get, .wrH, .wrP] ++ (if inner then [.relN] else []) ++ [.relO]
  | .get => [.get, .wrH, .wrP] ++ (if inner then [.relN] else []) ++ [.relO]
  | .wrH => [.wrH, .wrP] ++ (if inner then [.relN] else []) ++ [.relO]
  | .wrP => [.wrP] ++ (if inner then [.relN] else []) ++ [.relO]
  | .relN => [.relN, .relO]
  | .relO => [.relO]

def nextPh (inner : Bool) : Phase → Phase
  | .enc => .put
  | .put => if inner then .acqN else .get
  | .acqN => .get
  | .get => .wrH
  | .wrH => .wrP
  | .wrP => if inner then .relN else .relO
  | .relN => .relO
  | .relO => .relO

def phValid (inner : Bool) : Phase → Prop
  | .acqN | .relN => inner = true
  | _ => True

def phMade : Phase → Frame → Option Frame
  | .put, f => some f
  | _, _ => none

def phGot : Phase → Frame → Option Frame
  | .wrH, f | .wrP, f => some f
  | _, _ => none

def phQueue : Phase → Frame → List Frame
  | .acqN, f | .get, f => [f]
  | _, _ => []

def phLockN (inner : Bool) (i : Nat) : Phase → Option Nat
  | .get | .wrH | .wrP | .relN => if inner then some i else none
  | _ => none

def phWire : Phase → Frame → List W
  | .wrP, f => [.hdr f]
  | .relN, f | .relO, f => [.hdr f, .pay f]
  | _, _ => []

def phCtr : Phase → Frame → Nat
  | .enc, f => f.ctr
  | _, f => f.ctr + 1

structure Cur where
  i : Nat
  ph : Phase
  f : Frame

abbrev cfgO (inner : Bool) : Cfg := { outer := true, inner := inner }

def idleThread (inner : Bool) (td : List Nat) : Thread :=
  { ops := td.flatMap (program (cfgO inner)), made := none, got := none }

def busyThread (inner : Bool) (ph : Phase) (f : Frame) (td : List Nat) : Thread :=
  { ops := tailOps inner f.stanza ph ++ td.flatMap (program (cfgO inner)), made := phMade ph f, got := phGot ph f }

/-- thread `j` (state `t`, work `w`, already-transmitted stanzas `d`) is consistent with `cur` -/
def ThreadOK (inner : Bool) (cur : Option Cur) (j : Nat) (t : Thread) (w d : List Nat) : Prop :=
  ∃ td, match cur with
    | some c => if j = c.i then w = d ++ c.f.stanza :: td ∧ t = busyThread inner c.ph c.f td
                else w = d ++ td ∧ t = idleThread inner td
    | none => w = d ++ td ∧ t = idleThread inner td

def Thr (inner : Bool) (work dn : List (List Nat)) (ths : List Thread) (cur : Option Cur) : Prop :=
  ∀ j, j < work.length → ∃ t w d, ths[j]? = some t ∧ work[j]? = some w ∧ dn[j]? = some d ∧ ThreadOK inner cur j t w d

def Glob (inner : Bool) (n : Nat) (s : St) (base : List W) : Option Cur → Prop
  | none => s.lockO = none ∧ s.lockN = none ∧ s.queue = [] ∧ s.wire = base ∧ s.ctr * 2 = base.length
  | some c => c.i < n ∧ phValid inner c.ph ∧ s.lockO = some c.i ∧ s.lockN = phLockN inner c.i c.ph ∧
      s.queue = phQueue c.ph c.f ∧ s.wire = base ++ phWire c.ph c.f ∧ s.ctr = phCtr c.ph c.f ∧
      c.f.ctr * 2 = base.length

structure Inv (inner : Bool) (work : List (List Nat)) (s : St) (dn : List (List Nat)) (base : List W)
    (cur : Option Cur) : Prop where
  lenT : s.threads.length = work.length
  lenD : dn.length = work.length
  thr : Thr inner work dn s.threads cur
  wfb : wellFramed base 0 = true
  perm : (stanzasOnWire base).Perm dn.flatten
  sub : ∀ (j : Nat) (d : List Nat), dn[j]? = some d → d.Sublist (stanzasOnWire base)
  glob : Glob inner work.length s base cur

def Inv' (inner : Bool) (work : List (List Nat)) (s : St) : Prop := ∃ dn base cur, Inv inner work s dn base cur

theorem program_eq (inner : Bool) (c : Nat) : program (cfgO inner) c = .acqO :: tailOps inner c .enc := by
  cases inner <;> simp [program, tailOps]

theorem tailOps_ne_nil (inner : Bool) (c : Nat) (ph : Phase) : tailOps inner c ph ≠ [] := by
  cases ph <;> simp [tailOps]

theorem tailOps_next (inner : Bool) (c : Nat) (ph : Phase) (hv : phValid inner ph) (h : ph ≠ .relO) :
    ∃ op, tailOps inner c ph = op :: tailOps inner c (nextPh inner ph) := by
  cases inner <;> cases ph <;> simp [tailOps, nextPh, phValid] at hv h ⊢

/-! ### init -/

theorem inv_init (inner : Bool) (work : List (List Nat)) : Inv inner work (init (cfgO inner) work) (work.map fun _ => []) [] none := by
  refine ⟨by simp [init], by simp, ?_, by simp [wellFramed], ?_, ?_, by simp [Glob, init]⟩
  · intro j hj
    refine ⟨idleThread inner work[j], work[j], [], ?_, by simp [hj], by simp [hj], work[j], ?_⟩
    · simp [init, hj, threadOf, idleThread]
    · simp
  · simp [stanzasOnWire]
  · intro j d h
    simp at h
    obtain ⟨_, _, rfl⟩ := h
    simp

/-! ### threads lemmas -/

theorem thr_phase {inner work dn ths i ph f} (ph' : Phase) (h : Thr inner work dn ths (some ⟨i, ph, f⟩))
    (hi : i < work.length) (hl : ths.length = work.length) :
    ∃ td, ths[i]? = some (busyThread inner ph f td) ∧
      Thr inner work dn (ths.set i (busyThread inner ph' f td)) (some ⟨i, ph', f⟩) := by
  obtain ⟨t, w, d, ht, hw, hd, td, hok⟩ := h i hi
  simp at hok
  obtain ⟨hw', rfl⟩ := hok
  refine ⟨td, ht, ?_⟩
  intro j hj
  by_cases hji : j = i
  · subst hji
    refine ⟨busyThread inner ph' f td, w, d, by simp [hl, hj], hw, hd, td, by simp [hw']⟩
  · obtain ⟨t', w', d', ht', hw'', hd', td', hok'⟩ := h j hj
    refine ⟨t', w', d', by simp [Ne.symm hji, ht'], hw'', hd', td', ?_⟩
    simpa [hji] using hok'

theorem thr_release {inner work dn ths i ph f} (h : Thr inner work dn ths (some ⟨i, ph, f⟩))
    (hi : i < work.length) (hl : ths.length = work.length) (hld : dn.length = work.length) :
    ∃ td d, ths[i]? = some (busyThread inner ph f td) ∧ dn[i]? = some d ∧
      Thr inner work (dn.set i (d ++ [f.stanza])) (ths.set i (idleThread inner td)) none := by
  obtain ⟨t, w, d, ht, hw, hd, td, hok⟩ := h i hi
  simp at hok
  obtain ⟨hw', rfl⟩ := hok
  refine ⟨td, d, ht, hd, ?_⟩
  intro j hj
  by_cases hji : j = i
  · subst hji
    refine ⟨idleThread inner td, w, d ++ [f.stanza], by simp [hl, hj], hw, by simp [hld, hj], td, by simp [hw']⟩
  · obtain ⟨t', w', d', ht', hw'', hd', td', hok'⟩ := h j hj
    refine ⟨t', w', d', by simp [Ne.symm hji, ht'], hw'',
      by simp [Ne.symm hji, hd'], td', ?_⟩
    simpa [hji] using hok'

theorem thr_acquire {inner work dn ths j} (h : Thr inner work dn ths none)
    (hj : j < work.length) (hl : ths.length = work.length) :
    ∃ td, ths[j]? = some (idleThread inner td) ∧ ∀ c td', td = c :: td' → ∀ ctr,
      Thr inner work dn (ths.set j (busyThread inner .enc ⟨ctr, c⟩ td')) (some ⟨j, .enc, ⟨ctr, c⟩⟩) := by
  obtain ⟨t, w, d, ht, hw, hd, td, hok⟩ := h j hj
  simp at hok
  obtain ⟨hw', rfl⟩ := hok
  refine ⟨td, ht, ?_⟩
  rintro c td' rfl ctr k hk
  by_cases hkj : k = j
  · subst hkj
    refine ⟨busyThread inner .enc ⟨ctr, c⟩ td', w, d, by simp [hl, hk], hw, hd, td', by simp [hw']⟩
  · obtain ⟨t', w', d', ht', hw'', hd', td'', hok'⟩ := h k hk
    refine ⟨t', w', d', by simp [Ne.symm hkj, ht'], hw'', hd', td'', ?_⟩
    simpa [hkj] using hok'

theorem thr_idle {inner work dn ths j c} (h : Thr inner work dn ths (some c))
    (hj : j < work.length) (hc : j ≠ c.i) : ∃ td, ths[j]? = some (idleThread inner td) := by
  obtain ⟨t, w, d, ht, hw, hd, td, hok⟩ := h j hj
  simp [hc] at hok
  exact ⟨td, hok.2 ▸ ht⟩

/-! ### steps -/

theorem step_idle_nil {inner s j} (ht : s.threads[j]? = some (idleThread inner [])) : step s j = s := by
  simp [step, ht, idleThread]

theorem step_idle_locked {inner s j c td i} (ht : s.threads[j]? = some (idleThread inner (c :: td)))
    (hO : s.lockO = some i) : step s j = s := by
  simp [step, ht, idleThread, program_eq, hO]

theorem inv_step {inner work s} (h : Inv' inner work s) (j : Nat) : Inv' inner work (step s j) := by
  obtain ⟨dn, base, cur, h⟩ := h
  by_cases hj : j < work.length
  case neg =>
    have : s.threads[j]? = none := by simp [h.lenT]; omega
    have : step s j = s := by simp [step, this]
    rw [this]; exact ⟨dn, base, cur, h⟩
  cases cur with
  | none =>
    obtain ⟨td, ht, hacq⟩ := thr_acquire h.thr hj h.lenT
    cases td with
    | nil => rw [step_idle_nil ht]; exact ⟨dn, base, none, h⟩
    | cons c td' =>
      have hthr := hacq c td' rfl s.ctr
      have hg := h.glob
      simp only [Glob] at hg
      obtain ⟨hO, hN, hQ, hW, hC⟩ := hg
      have hs : step s j = { setThread s j (busyThread inner .enc ⟨s.ctr, c⟩ td') with lockO := some j } := by
        simp [step, ht, idleThread, program_eq, hO, busyThread, phMade, phGot]
      rw [hs]
      refine ⟨dn, base, some ⟨j, .enc, ⟨s.ctr, c⟩⟩, ?_⟩
      exact ⟨by simp [setThread, h.lenT], h.lenD, hthr, h.wfb, h.perm, h.sub,
        by simp [Glob, setThread, hj, phValid, phLockN, phQueue, phWire, phCtr, hN, hQ, hW, hC]⟩
  | some c =>
    by_cases hji : j = c.i
    case neg =>
      obtain ⟨td, ht⟩ := thr_idle h.thr hj hji
      have hg := h.glob
      simp only [Glob] at hg
      cases td with
      | nil => rw [step_idle_nil ht]; exact ⟨dn, base, _, h⟩
      | cons c' td' => rw [step_idle_locked ht hg.2.2.1]; exact ⟨dn, base, _, h⟩
    obtain ⟨i, ph, f⟩ := c
    simp only at hji
    subst hji
    have hg := h.glob
    simp only [Glob] at hg
    obtain ⟨hi, hv, hO, hN, hQ, hW, hC, hF⟩ := hg
    by_cases hph : ph = .relO
    · subst hph
      obtain ⟨td, d, ht, hd, hthr⟩ := thr_release h.thr hj h.lenT h.lenD
      have hs : step s j = { setThread s j (idleThread inner td) with lockO := none } := by
        simp [step, ht, busyThread, tailOps, idleThread, phMade, phGot]
      rw [hs]
      refine ⟨dn.set j (d ++ [f.stanza]), base ++ [.hdr f, .pay f], none, ?_⟩
      refine ⟨by simp [setThread, h.lenT], by simp [h.lenD], hthr,
        wellFramed_append_frame _ _ _ h.wfb (by omega), ?_, ?_, ?_⟩
      · rw [stanzasOnWire_append]
        simp only [stanzasOnWire]
        exact (h.perm.append_right _).trans (flatten_set_perm dn j d f.stanza hd).symm
      · intro k d' hk
        rw [stanzasOnWire_append]
        simp only [stanzasOnWire]
        by_cases hkj : j = k
        · subst hkj
          simp [h.lenD, hj] at hk
          subst hk
          exact List.Sublist.append (h.sub j d hd) (List.Sublist.refl _)
        · simp [hkj] at hk
          exact (h.sub k d' hk).trans (List.sublist_append_left _ _)
      · simp [Glob, setThread, hN, hQ, hW, hC, phLockN, phQueue, phWire, phCtr]
        omega
    · obtain ⟨td, ht, hthr⟩ := thr_phase (nextPh inner ph) h.thr hj h.lenT
      refine ⟨dn, base, some ⟨j, nextPh inner ph, f⟩, ?_⟩
      obtain ⟨fc, fs⟩ := f
      have hT : (step s j).threads = s.threads.set j (busyThread inner (nextPh inner ph) ⟨fc, fs⟩ td) := by
        cases inner <;> cases ph <;> simp [phValid] at hv hph <;>
          simp [step, ht, busyThread, tailOps, nextPh, phMade, phGot, setThread, hN, hQ, hC, phLockN, phQueue, phCtr]
      have hG : Glob inner work.length (step s j) base (some ⟨j, nextPh inner ph, ⟨fc, fs⟩⟩) := by
        cases inner <;> cases ph <;> simp [phValid] at hv hph <;>
          simp [Glob, step, ht, busyThread, tailOps, nextPh, phMade, phGot, setThread, hN, hQ, hC, hO, hW, hF, hj,
            phLockN, phQueue, phCtr, phWire, phValid]
      exact ⟨by rw [hT]; simp [h.lenT], h.lenD, hT ▸ hthr, h.wfb, h.perm, h.sub, hG⟩

theorem inv_run {inner work} (sched : List Nat) : ∀ s, Inv' inner work s → Inv' inner work (run s sched) := by
  induction sched with
  | nil => intro s h; exact h
  | cons i is ih => intro s h; exact ih _ (inv_step h i)

theorem inv_reach (inner : Bool) (work : List (List Nat)) (sched : List Nat) :
    Inv' inner work (run (init { outer := true, inner := inner } work) sched) :=
  inv_run sched _ ⟨_, _, _, inv_init inner work⟩

/-- an enabled operation changes the state -/
theorem step_ne {s : St} {i : Nat} {t : Thread} {op : Op} {rest : List Op}
    (ht : s.threads[i]? = some t) (hops : t.ops = op :: rest)
    (hO : op = .acqO → s.lockO = none) (hN : op = .acqN → s.lockN = none) (hQ : op = .get → s.queue ≠ []) :
    step s i ≠ s := by
  have hlt : i < s.threads.length := by
    rcases Nat.lt_or_ge i s.threads.length with h | h
    · exact h
    · simp [List.getElem?_eq_none h] at ht
  have key : ∃ t', t'.ops = rest ∧ (step s i).threads = s.threads.set i t' := by
    cases op <;> simp [step, ht, hops, setThread]
    case acqO => simp [hO rfl]; exact ⟨_, rfl, rfl⟩
    case acqN => simp [hN rfl]; exact ⟨_, rfl, rfl⟩
    case get =>
      cases hq : s.queue with
      | nil => exact absurd hq (hQ rfl)
      | cons f q => exact ⟨_, rfl, rfl⟩
    all_goals (try split) <;> exact ⟨_, rfl, rfl⟩
  obtain ⟨t', ht', hth⟩ := key
  intro heq
  rw [heq] at hth
  have := congrArg (fun l => l[i]?) hth
  simp [hlt] at this
  obtain ⟨_, hti⟩ := List.getElem?_eq_some_iff.mp ht
  have e : t = t' := by rw [← hti, this]
  subst e
  rw [hops] at ht'
  have := congrArg List.length ht'
  simp at this

theorem tailOps_head (inner : Bool) (c : Nat) (ph : Phase) :
    ∃ op rest, tailOps inner c ph = op :: rest ∧ op ≠ .acqO ∧ (op = .acqN → ph = .acqN) ∧ (op = .get → ph = .get) := by
  cases ph <;> exact ⟨_, _, rfl, by simp, by simp, by simp⟩

end Yow.Conc
