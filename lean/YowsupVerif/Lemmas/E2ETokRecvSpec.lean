/-
  Token conservation in the E2E system model, part 15: what the receive layer's functions do, in the functional view.
-/
import YowsupVerif.Lemmas.E2ETokRcpt
namespace Yow.E2E

/-- `s'` is `s` after client `r` changed its record to `c'` and emitted `out` -/
def RStep (s s' : Sys) (r : Acct) (c' : Client) (out : List Stanza) : Prop :=
  view s' = (view s).cstep r c' out (view s).nextCtr

theorem RStep.cl {s s' : Sys} {r : Acct} {c' : Client} {out : List Stanza} (h : RStep s s' r c' out) : getClient s' r = c' := by
  have : (view s').cl r = c' := by rw [h]; simp
  exact this

theorem RStep.acc {s s' : Sys} {r : Acct} {c' : Client} {out : List Stanza} (h : RStep s s' r c' out) :
    (view s').accounts = (view s).accounts := by rw [h]; rfl

theorem RStep.trans {s s1 s2 : Sys} {r : Acct} {c1 c2 : Client} {o1 o2 : List Stanza}
    (h1 : RStep s s1 r c1 o1) (h2 : RStep s1 s2 r c2 o2) : RStep s s2 r c2 (o1 ++ o2) := by
  unfold RStep at *
  rw [h2, h1]
  simp

theorem RStep.refl' (s : Sys) (r : Acct) : RStep s s r (getClient s r) [] := (View.cstep_id (view s) r).symm

theorem rstep_setClient {s : Sys} {r : Acct} (c : Client) (hr : r ∈ (view s).accounts) : RStep s (setClient s r c) r c [] :=
  view_setClient s r c hr

theorem rstep_emit (s : Sys) (r : Acct) (st : Stanza) : RStep s (emit s r st) r (getClient s r) [st] := view_emit s r st

section
variable {s : Sys} {r : Acct} (hr : r ∈ (view s).accounts)
include hr

theorem rstep_showAndReceipt (id : Nat) (peer : Dest) (part : Option Acct) (p : Payload) :
    RStep s (showAndReceipt s r id peer part p) r
      { getClient s r with shown := (getClient s r).shown ++ [{ id := id, peer := peer, participant := part, payload := p }] }
      [.receipt id peer part .delivery] := by
  unfold showAndReceipt
  have h1 := rstep_setClient (s := s) { getClient s r with shown := (getClient s r).shown ++ [{ id := id, peer := peer, participant := part, payload := p }] } hr
  have h2 := rstep_emit (setClient s r { getClient s r with shown := (getClient s r).shown ++ [{ id := id, peer := peer, participant := part, payload := p }] }) r
    (.receipt id peer part .delivery)
  rw [h1.cl] at h2
  exact h1.trans h2

theorem rstep_sendRetry (id : Nat) (peer : Dest) (part : Option Acct) :
    RStep s (sendRetry s r id peer part) r
      { getClient s r with retries := insert (getClient s r).retries id ((lookup (getClient s r).retries id).getD 0 + 1) }
      [.receipt id peer part (.retry ((lookup (getClient s r).retries id).getD 0 + 1))] := by
  unfold sendRetry
  have h1 := rstep_setClient (s := s) { getClient s r with retries := insert (getClient s r).retries id ((lookup (getClient s r).retries id).getD 0 + 1) } hr
  have h2 := rstep_emit (setClient s r { getClient s r with retries := insert (getClient s r).retries id ((lookup (getClient s r).retries id).getD 0 + 1) }) r
    (.receipt id peer part (.retry ((lookup (getClient s r).retries id).getD 0 + 1)))
  rw [h1.cl] at h2
  exact h1.trans h2

theorem rstep_resetRetries (id : Nat) :
    RStep s (resetRetries s r id) r { getClient s r with retries := erase (getClient s r).retries id } [] :=
  rstep_setClient _ hr

theorem rstep_storeSkdm (sender : Acct) (pl : Plain) :
    ∃ psk, RStep s (storeSkdm s r sender pl) r { getClient s r with peerSK := psk } [] := by
  unfold storeSkdm
  split
  · exact ⟨(getClient s r).peerSK, RStep.refl' s r⟩
  · exact ⟨_, rstep_setClient _ hr⟩

end

-- ------------------------------------------------------------------------------------------------ symbolic ciphers
theorem decrypt_cases (c : Client) (peer : Acct) (ct : Ct) :
    (∃ sess, (decrypt c peer ct).2 = .ok ct.plain ∧
      (decrypt c peer ct).1 = { c with sessions := sess, seen := c.seen ++ [(ct.sess, ct.ctr)] } ∧
      ∀ j, (lookup c.sessions j).isSome = true → (lookup sess j).isSome = true) ∨
    ((decrypt c peer ct).1 = c ∧
      ((decrypt c peer ct).2 = .invalid ∨ ((decrypt c peer ct).2 = .duplicate ∧ (ct.sess, ct.ctr) ∈ c.seen) ∨
        ((decrypt c peer ct).2 = .noSession ∧ lookup c.sessions peer = none))) := by
  unfold decrypt
  split
  · exact Or.inr ⟨rfl, Or.inl rfl⟩
  · split
    · exact Or.inr ⟨rfl, Or.inl rfl⟩
    · split
      · next h => exact Or.inr ⟨rfl, Or.inr (Or.inl ⟨rfl, by simpa using h⟩)⟩
      · refine Or.inl ⟨_, rfl, rfl, ?_⟩
        intro j hj
        rw [lookup_insert]
        split
        · rfl
        · exact hj
  · split
    · next h => exact Or.inr ⟨rfl, Or.inr (Or.inr ⟨rfl, h⟩)⟩
    · split
      · exact Or.inr ⟨rfl, Or.inl rfl⟩
      · split
        · exact Or.inr ⟨rfl, Or.inl rfl⟩
        · split
          · next h => exact Or.inr ⟨rfl, Or.inr (Or.inl ⟨rfl, by simpa using h⟩)⟩
          · refine Or.inl ⟨_, rfl, rfl, ?_⟩
            intro j hj
            rw [lookup_insert]
            split
            · rfl
            · exact hj

theorem groupDecrypt_cases (c : Client) (g : Nat) (sender : Acct) (ct : Ct) :
    ((groupDecrypt c g sender ct).2 = .ok ct.plain ∧
      (groupDecrypt c g sender ct).1 = { c with seenSK := c.seenSK ++ [(ct.sess, ct.ctr)] }) ∨
    ((groupDecrypt c g sender ct).1 = c ∧
      ((groupDecrypt c g sender ct).2 = .invalid ∨ ((groupDecrypt c g sender ct).2 = .duplicate ∧ (ct.sess, ct.ctr) ∈ c.seenSK) ∨
        (groupDecrypt c g sender ct).2 = .noSession)) := by
  unfold groupDecrypt
  split
  · exact Or.inr ⟨rfl, Or.inr (Or.inr rfl)⟩
  · split
    · exact Or.inr ⟨rfl, Or.inl rfl⟩
    · split
      · next h => exact Or.inr ⟨rfl, Or.inr (Or.inl ⟨rfl, by simpa using h⟩)⟩
      · exact Or.inl ⟨rfl, rfl⟩

end Yow.E2E
