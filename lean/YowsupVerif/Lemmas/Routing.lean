import YowsupVerif.Model.Routing
namespace Yow.Routing
set_option linter.unusedSimpArgs false

/-! ### helpers: the empty output is neutral; closed forms of the receive group per tag -/

@[simp] theorem Out.append_empty (a : Out) : a.append {} = a := by cases a; simp [Out.append]

@[simp] theorem Out.empty_append (a : Out) : ({} : Out).append a = a := by cases a; simp [Out.append]

theorem run_message (f : Flags) (s : Stanza) (ht : s.tag = .message) :
    runAll (recvHandlers f) s {} =
      match recvMessages s with
      | none => ({}, true)
      | some o =>
        if f.media then
          (match recvMedia s with
           | none => (o, true)
           | some o' => (o.append o', false))
        else (o, false) := by
  obtain ⟨g, m, p, pr⟩ := f
  cases g <;> cases m <;> cases p <;> cases pr <;>
    simp [recvHandlers, runAll, recvAuth, recvReceipts, recvAcks,
        recvPresence, recvChatstate, recvIb, recvIq, recvNotifications, recvContacts, recvCalls, recvGroups,
        recvPrivacy, recvProfiles, nothing, ht] <;>
    cases recvMessages s <;> simp <;> cases recvMedia s <;> simp

theorem run_notification (f : Flags) (s : Stanza) (ht : s.tag = .notification) :
    runAll (recvHandlers f) s {} =
      match recvNotifications s with
      | none => ({}, true)
      | some o =>
        match recvContacts s with
        | none => (o, true)
        | some o' =>
          if f.groups then
            (match recvGroups s with
             | none => (o.append o', true)
             | some o'' => ((o.append o').append o'', false))
          else (o.append o', false) := by
  obtain ⟨g, m, p, pr⟩ := f
  cases g <;> cases m <;> cases p <;> cases pr <;>
    simp [recvHandlers, runAll, recvAuth, recvReceipts, recvAcks, recvMessages, recvMedia,
        recvPresence, recvChatstate, recvIb, recvIq, recvCalls,
        recvPrivacy, recvProfiles, nothing, ht] <;>
    cases recvNotifications s <;> simp <;> cases recvContacts s <;> simp <;> cases recvGroups s <;> simp

theorem run_iq (f : Flags) (s : Stanza) (ht : s.tag = .iq) :
    runAll (recvHandlers f) s {} =
      match recvIq s with
      | none => ({}, true)
      | some o =>
        match recvContacts s with
        | none => (o, true)
        | some o' => (o.append o', false) := by
  obtain ⟨g, m, p, pr⟩ := f
  cases g <;> cases m <;> cases p <;> cases pr <;>
    simp [recvHandlers, runAll, recvAuth, recvReceipts, recvAcks, recvMessages, recvMedia,
        recvPresence, recvChatstate, recvIb, recvNotifications, recvCalls, recvGroups,
        recvPrivacy, recvProfiles, nothing, ht] <;>
    cases recvIq s <;> simp <;> cases recvContacts s <;> simp

theorem run_call (f : Flags) (s : Stanza) (ht : s.tag = .call) :
    runAll (recvHandlers f) s {} =
      ({ ups := [.call], downs := [if s.callOffer then .callReceipt else .callAck] }, false) := by
  obtain ⟨g, m, p, pr⟩ := f
  cases hc : s.callOffer <;> cases g <;> cases m <;> cases p <;> cases pr <;>
    simp [recvHandlers, runAll, Out.append, recvAuth, recvMessages, recvMedia, recvReceipts, recvAcks,
        recvPresence, recvChatstate, recvIb, recvIq, recvNotifications, recvContacts, recvCalls, recvGroups,
        recvPrivacy, recvProfiles, nothing, up, down, ht, hc]

theorem run_ib (f : Flags) (s : Stanza) (ht : s.tag = .ib) :
    runAll (recvHandlers f) s {} =
      ({ ups := if s.cDirty then [.ibDirty] else if s.cOffline then [.ibOffline]
                else if s.cAccount then [.ibAccount] else [] }, false) := by
  obtain ⟨g, m, p, pr⟩ := f
  cases h1 : s.cDirty <;> cases h2 : s.cOffline <;> cases h3 : s.cAccount <;>
   cases g <;> cases m <;> cases p <;> cases pr <;>
    simp [recvHandlers, runAll, Out.append, recvAuth, recvMessages, recvMedia, recvReceipts, recvAcks,
        recvPresence, recvChatstate, recvIb, recvIq, recvNotifications, recvContacts, recvCalls, recvGroups,
        recvPrivacy, recvProfiles, nothing, up, down, ht, h1, h2, h3]

/-- every stream error, whether its kind is known (`s.errKnown`) or not, is handed upward once; nothing raises -/
theorem run_streamError (f : Flags) (s : Stanza) (ht : s.tag = .streamError) :
    runAll (recvHandlers f) s {} = ({ ups := [.streamError] }, false) := by
  obtain ⟨g, m, p, pr⟩ := f
  cases g <;> cases m <;> cases p <;> cases pr <;>
    simp [recvHandlers, runAll, Out.append, recvAuth, recvMessages, recvMedia, recvReceipts, recvAcks,
        recvPresence, recvChatstate, recvIb, recvIq, recvNotifications, recvContacts, recvCalls, recvGroups,
        recvPrivacy, recvProfiles, nothing, up, down, ht]

/-- the encryption shortcut only concerns notifications -/
theorem recvStack_ne (f : Flags) (enc : Bool) (s : Stanza) (ht : s.tag ≠ .notification) :
    recvStack f enc s = runAll (recvHandlers f) s {} := by
  simp [recvStack, ht]

/-- at most one entity per message stanza (text path and media path are exclusive) -/
theorem ups_message (f : Flags) (s : Stanza) (ht : s.tag = .message) :
    (runAll (recvHandlers f) s {}).1.ups.length ≤ 1 := by
  rw [run_message f s ht]
  simp only [recvMessages, recvMedia, ht]
  cases h1 : s.hasProto <;> cases h2 : s.media <;> cases h4 : s.mtype <;> cases f.media <;> simp [nothing, up, down, Out.append] <;>
   cases h3 : s.payload <;> simp

theorem ups_notification (f : Flags) (s : Stanza) (ht : s.tag = .notification) :
    (runAll (recvHandlers f) s {}).1.ups.length ≤ 1 := by
  rw [run_notification f s ht]
  simp only [recvNotifications, recvContacts, recvGroups, ht]
  cases h1 : s.ntype <;> cases f.groups <;> simp [nothing, up, down, Out.append]
  · cases s.cSet <;> cases s.cDelete <;> simp
  · cases s.cSet <;> cases s.cDelete <;> simp
  · cases s.cRemove <;> cases s.cAdd <;> cases s.cUpdate <;> cases s.cSync <;> simp
  · cases s.cRemove <;> cases s.cAdd <;> cases s.cUpdate <;> cases s.cSync <;> simp
  · cases s.cSubject <;> cases s.cCreate <;> cases s.cRemove <;> cases s.cAdd <;> simp

theorem ups_iq (f : Flags) (s : Stanza) (ht : s.tag = .iq) :
    (runAll (recvHandlers f) s {}).1.ups.length ≤ 1 := by
  rw [run_iq f s ht]
  simp only [recvIq, recvContacts, ht]
  by_cases hx : s.xmlns = .ping <;> by_cases hy : (s.iqType == .result && s.cSync) = true <;>
    simp [hx, hy, nothing, up, down, Out.append]

/-- No stanza — whatever its tag, type, children … — produces more than one entity at the application side. -/
theorem ups_at_most_one (f : Flags) (enc : Bool) (s : Stanza) : (recvStack f enc s).1.ups.length ≤ 1 := by
  unfold recvStack
  split
  · simp
  · cases ht : s.tag
    case message => exact ups_message f s ht
    case notification => exact ups_notification f s ht
    case iq => exact ups_iq f s ht
    case call => rw [run_call f s ht]; simp
    case ib => rw [run_ib f s ht]; simp only []; repeat' (first | (simp; done) | split)
    case streamError => rw [run_streamError f s ht]; simp
    all_goals
      obtain ⟨g, m, p, pr⟩ := f
      cases g <;> cases m <;> cases p <;> cases pr <;>
      simp [recvHandlers, runAll, Out.append, recvAuth, recvMessages, recvMedia, recvReceipts, recvAcks,
        recvPresence, recvChatstate, recvIb, recvIq, recvNotifications, recvContacts, recvCalls, recvGroups,
        recvPrivacy, recvProfiles, nothing, up, down, ht]

/-- single-owner tags: exactly one entity of the right kind, nothing sent back, no error
    (a stream error of ANY kind, known or not, is delivered as one `.streamError` entity) -/
theorem recv_simple (f : Flags) (enc : Bool) (s : Stanza) :
    (s.tag = .receipt → recvStack f enc s = ({ ups := [.receipt] }, false)) ∧
    (s.tag = .ack → recvStack f enc s = ({ ups := [.ack] }, false)) ∧
    (s.tag = .presence → recvStack f enc s = ({ ups := [.presence] }, false)) ∧
    (s.tag = .chatstate → recvStack f enc s = ({ ups := [.chatstate] }, false)) ∧
    (s.tag = .streamFeatures → recvStack f enc s = ({ ups := [.streamFeatures] }, false)) ∧
    (s.tag = .success → recvStack f enc s = ({ ups := [.success], evts := [.authed] }, false)) ∧
    (s.tag = .failure → recvStack f enc s = ({ ups := [.failure], evts := [.disconnectRequest] }, false)) ∧
    (s.tag = .streamError → recvStack f enc s = ({ ups := [.streamError] }, false)) ∧
    (s.tag = .other → recvStack f enc s = ({}, false)) := by
  refine ⟨?_, ?_, ?_, ?_, ?_, ?_, ?_, ?_, ?_⟩
  case refine_8 =>
    intro ht
    rw [recvStack_ne f enc s (by simp [ht]), run_streamError f s ht]
  all_goals
    intro ht
    rw [recvStack_ne f enc s (by simp [ht])]
    obtain ⟨g, m, p, pr⟩ := f
    cases g <;> cases m <;> cases p <;> cases pr <;>
      simp [recvHandlers, runAll, Out.append, recvAuth, recvMessages, recvMedia, recvReceipts, recvAcks,
        recvPresence, recvChatstate, recvIb, recvIq, recvNotifications, recvContacts, recvCalls, recvGroups,
        recvPrivacy, recvProfiles, nothing, up, down, ht]

/-- every call stanza: one entity, and exactly one receipt (offer) or one ack (anything else) -/
theorem recv_call (f : Flags) (enc : Bool) (s : Stanza) (h : s.tag = .call) :
    recvStack f enc s = ({ ups := [.call], downs := [if s.callOffer then .callReceipt else .callAck] }, false) := by
  rw [recvStack_ne f enc s (by simp [h]), run_call f s h]

/-- every server ping gets exactly one pong (and no entity unless it is a sync result) -/
theorem recv_ping (f : Flags) (enc : Bool) (s : Stanza) (h : s.tag = .iq) (hx : s.xmlns = .ping) :
    (recvStack f enc s).1.downs = [.pong] ∧ (recvStack f enc s).2 = false := by
  rw [recvStack_ne f enc s (by simp [h]), run_iq f s h]
  simp only [recvIq, recvContacts, h]
  by_cases hy : (s.iqType == .result && s.cSync) = true <;>
    simp [hx, hy, nothing, up, down, Out.append]

/-- EVERY notification, of a recognised type or not, is answered with exactly one acknowledgement
    carrying id/type/from/participant — except the picture notification that is neither set nor delete,
    which is rejected with an error by design. -/
theorem recv_notification_ack (f : Flags) (enc : Bool) (s : Stanza) (h : s.tag = .notification)
    (hpic : s.ntype = .picture → (s.cSet = true ∨ s.cDelete = true)) :
    (recvStack f enc s).1.downs = [.notificationAck true] ∧ (recvStack f enc s).2 = false := by
  unfold recvStack
  split
  · simp
  · rename_i hne; clear hne
    rw [run_notification f s h]
    simp only [recvNotifications, recvContacts, recvGroups, h]
    cases h1 : s.ntype <;> cases f.groups <;> simp [nothing, up, down, Out.append]
    · have := hpic h1
      cases h2 : s.cSet <;> cases h3 : s.cDelete <;> simp_all
    · have := hpic h1
      cases h2 : s.cSet <;> cases h3 : s.cDelete <;> simp_all
    · cases s.cRemove <;> cases s.cAdd <;> cases s.cUpdate <;> cases s.cSync <;> simp
    · cases s.cRemove <;> cases s.cAdd <;> cases s.cUpdate <;> cases s.cSync <;> simp
    · cases s.cSubject <;> cases s.cCreate <;> cases s.cRemove <;> cases s.cAdd <;> simp

theorem recv_picture_rejected (f : Flags) (enc : Bool) (s : Stanza) (h : s.tag = .notification)
    (hp : s.ntype = .picture) (h1 : s.cSet = false) (h2 : s.cDelete = false) :
    (recvStack f enc s).2 = true ∧ (recvStack f enc s).1.downs = [] := by
  unfold recvStack
  rw [run_notification f s h]
  simp [recvNotifications, h, hp, h1, h2]

/-- notification entities by owner; group notifications need the groups module, otherwise only the ack -/
theorem recv_notification_entities (f : Flags) (enc : Bool) (s : Stanza) (h : s.tag = .notification) :
    (s.ntype = .picture → s.cSet = true → (recvStack f enc s).1.ups = [.pictureSet]) ∧
    (s.ntype = .picture → s.cSet = false → s.cDelete = true → (recvStack f enc s).1.ups = [.pictureDelete]) ∧
    (s.ntype = .status → (recvStack f enc s).1.ups = [.statusNotification]) ∧
    (s.ntype = .contacts → s.cRemove = true → (recvStack f enc s).1.ups = [.contactRemove]) ∧
    (s.ntype = .contacts → s.cRemove = false → s.cAdd = true → (recvStack f enc s).1.ups = [.contactAdd]) ∧
    (s.ntype = .wgp2 → s.cSubject = true → (recvStack f enc s).1.ups = if f.groups then [.groupSubject] else []) ∧
    (s.ntype = .wgp2 → s.cSubject = false → s.cCreate = true → (recvStack f enc s).1.ups = if f.groups then [.groupCreate] else []) ∧
    (s.ntype = .encrypt → enc = true → (s.cCount = true ∨ s.cIdentity = true) → (recvStack f enc s).1.ups = []) ∧
    (s.ntype = .other → (recvStack f enc s).1.ups = []) := by
  unfold recvStack
  rw [run_notification f s h]
  simp only [recvNotifications, recvContacts, recvGroups, h]
  refine ⟨?_, ?_, ?_, ?_, ?_, ?_, ?_, ?_, ?_⟩
  · intro a b; cases f.groups <;> simp [a, b, nothing, up, down, Out.append]
  · intro a b c; cases f.groups <;> simp [a, b, c, nothing, up, down, Out.append]
  · intro a; cases f.groups <;> simp [a, nothing, up, down, Out.append]
  · intro a b; cases f.groups <;> simp [a, b, nothing, up, down, Out.append]
  · intro a b c; cases f.groups <;> simp [a, b, c, nothing, up, down, Out.append]
  · intro a b; cases f.groups <;> simp [a, b, nothing, up, down, Out.append]
  · intro a b c; cases f.groups <;> simp [a, b, c, nothing, up, down, Out.append]
  · intro a b c; rcases c with c | c <;> simp [h, a, b, c]
  · intro a; cases f.groups <;> simp [a, nothing, up, down, Out.append]

/-- ib stanzas -/
theorem recv_ib (f : Flags) (enc : Bool) (s : Stanza) (h : s.tag = .ib) :
    recvStack f enc s = ({ ups := if s.cDirty then [.ibDirty] else if s.cOffline then [.ibOffline]
                                   else if s.cAccount then [.ibAccount] else [] }, false) := by
  rw [recvStack_ne f enc s (by simp [h]), run_ib f s h]

/-- messages: a well-formed message stanza has type=media exactly when its proto carries a mediatype -/
def MessageWF (s : Stanza) : Prop := s.tag = .message ∧ s.hasProto = true ∧ (s.mtype = .media ↔ s.media ≠ .absent)

def mediaEnt : Media → Option Ent
  | .image => some .image | .sticker => some .sticker | .audio => some .audio | .ptt => some .audio
  | .video => some .video | .gif => some .video | .location => some .location | .contact => some .contact
  | .document => some .document | .url => some .extendedTextMedia | _ => none

/-- a message of type media that has a proto child and whose decoded payload is a sender key distribution
    on its own never surfaces, whatever the mediatype attribute says and whichever modules are present:
    no entity, no receipt, nothing raises (no well-formedness assumption needed) -/
theorem recv_media_keyDistributionOnly (f : Flags) (enc : Bool) (s : Stanza) (ht : s.tag = .message)
    (hm : s.mtype = .media) (hp : s.hasProto = true) (hk : s.payload = .keyDistributionOnly) :
    recvStack f enc s = ({}, false) := by
  rw [recvStack_ne f enc s (by simp [ht]), run_message f s ht]
  simp only [recvMessages, recvMedia, ht, hp, hm, hk]
  cases f.media <;> cases s.media <;> simp [nothing, up, down, Out.append]

/-- messages by payload (text path) and by media kind (media path).  The media path dispatches on the
    mediatype only when the payload is not a bare sender key distribution; that case yields nothing. -/
theorem recv_message (f : Flags) (enc : Bool) (s : Stanza) (h : MessageWF s) :
    (s.media = .absent → s.payload = .conversation → recvStack f enc s = ({ ups := [.text] }, false)) ∧
    (s.media = .absent → s.payload = .extendedText → recvStack f enc s = ({ ups := [.extendedText] }, false)) ∧
    (s.media = .absent → s.payload = .keyDistributionOnly → recvStack f enc s = ({}, false)) ∧
    (s.media = .absent → s.payload = .other → recvStack f enc s = ({ downs := [.messageReceipt] }, false)) ∧
    (∀ e, mediaEnt s.media = some e → s.payload ≠ .keyDistributionOnly →
      recvStack f enc s = ({ ups := if f.media then [e] else [] }, false)) ∧
    (s.media = .other → s.payload ≠ .keyDistributionOnly →
      recvStack f enc s = ({ downs := if f.media then [.messageReadReceipt] else [] }, false)) ∧
    (s.mtype = .media → s.hasProto = true → s.payload = .keyDistributionOnly → recvStack f enc s = ({}, false)) := by
  refine ⟨?_, ?_, ?_, ?_, ?_, ?_, fun hm hp hk => recv_media_keyDistributionOnly f enc s h.1 hm hp hk⟩
  all_goals
    obtain ⟨ht, hp, hmt⟩ := h
    rw [recvStack_ne f enc s (by simp [ht]), run_message f s ht]
    simp only [recvMessages, recvMedia, ht, hp]
  · intro a b
    have hm : s.mtype ≠ .media := by simp [hmt, a]
    cases f.media <;> simp [a, b, hm, nothing, up, down, Out.append]
  · intro a b
    have hm : s.mtype ≠ .media := by simp [hmt, a]
    cases f.media <;> simp [a, b, hm, nothing, up, down, Out.append]
  · intro a b
    have hm : s.mtype ≠ .media := by simp [hmt, a]
    cases f.media <;> simp [a, b, hm, nothing, up, down, Out.append]
  · intro a b
    have hm : s.mtype ≠ .media := by simp [hmt, a]
    cases f.media <;> simp [a, b, hm, nothing, up, down, Out.append]
  · intro e he hk
    cases a : s.media <;> simp [mediaEnt, a] at he hmt <;> subst he <;>
      cases f.media <;> simp [hmt, hk, nothing, up, down, Out.append]
  · intro a hk
    have hm : s.mtype = .media := by simp [hmt, a]
    cases f.media <;> simp [a, hm, hk, nothing, up, down, Out.append]

/-! outgoing -/

/-- the class of an entity determines its namespace (what the entity classes guarantee) -/
def Consistent (e : Entity) : Prop :=
  (e.cls = .cleanIq → e.xmlns = .other) ∧ (e.cls = .groupsRequest → e.xmlns = .wg2) ∧
  (e.cls = .getStatuses → e.xmlns = .status) ∧ (e.cls = .setStatus → e.xmlns = .status) ∧
  (e.cls ≠ .plain → e.tag = .iq)

/-- `sendAll` over the configured handler list as a plain sum -/
theorem sendAll_eq (f : Flags) (e : Entity) :
    sendAll (sendHandlers f) e =
      (sendMessages e).getD 0 + (sendReceipts e).getD 0 + (sendAcks e).getD 0 + (sendPresence e).getD 0 +
      (sendIb e).getD 0 + (sendIq e).getD 0 + (sendNotifications e).getD 0 + (sendContacts e).getD 0 +
      (sendChatstate e).getD 0 + (sendCalls e).getD 0 +
      (if f.groups then (sendGroups e).getD 0 else 0) + (if f.media then (sendMedia e).getD 0 else 0) +
      (if f.privacy then (sendPrivacy e).getD 0 else 0) + (if f.profiles then (sendProfiles e).getD 0 else 0) := by
  obtain ⟨g, m, p, pr⟩ := f
  cases g <;> cases m <;> cases p <;> cases pr <;> simp [sendHandlers, sendAll, sendAuth] <;> omega

/-- the value of `sendAll` for an iq entity, as a function of the discriminating fields -/
theorem sendAll_iq (f : Flags) (e : Entity) (ht : e.tag = .iq) :
    sendAll (sendHandlers f) e =
      (if e.xmlns = .last then 1 else 0) + (if e.cls = .cleanIq then 1 else 0) +
      (if e.xmlns = .wp ∨ e.xmlns = .push ∨ e.xmlns = .w ∨ e.xmlns = .account ∨ e.xmlns = .encrypt then 1 else 0) +
      (if e.xmlns = .sync then 1 else 0) +
      (if f.groups then (if e.cls = .groupsRequest then 1 else 0) else 0) +
      (if f.media then (if e.iqType = .set ∧ e.xmlns = .wm then 1 else 0) else 0) +
      (if f.privacy then (if e.xmlns = .jabberPrivacy then 1 else 0) else 0) +
      (if f.profiles then (sendProfiles e).getD 0 else 0) := by
  rw [sendAll_eq]
  simp [sendMessages, sendReceipts, sendAcks, sendPresence, sendIb, sendIq, sendNotifications, sendContacts,
    sendChatstate, sendCalls, sendGroups, sendMedia, sendPrivacy, ht, or_assoc]

/-- the value of `sendAll` for a non-iq entity (necessarily of a plain class) -/
theorem sendAll_notiq (f : Flags) (e : Entity) (ht : e.tag ≠ .iq) (hc : e.cls = .plain) :
    sendAll (sendHandlers f) e =
      match e.tag with
      | .message => if e.mtype = .text then 1 else if e.mtype = .media then (if f.media then 1 else 0) else 0
      | .receipt | .ack | .presence | .chatstate | .notification | .call => 1
      | _ => 0 := by
  rw [sendAll_eq]
  cases h : e.tag <;> cases hm : e.mtype <;>
  simp [sendMessages, sendReceipts, sendAcks, sendPresence, sendIb, sendIq, sendNotifications, sendContacts,
    sendChatstate, sendCalls, sendGroups, sendMedia, sendPrivacy, sendProfiles, h, hc, hm] at ht ⊢

/-- no entity leaves the protocol layers more than once -/
theorem send_at_most_one (f : Flags) (e : Entity) (h : Consistent e) : sendAll (sendHandlers f) e ≤ 1 := by
  obtain ⟨c1, c2, c3, c4, c5⟩ := h
  by_cases ht : e.tag = .iq
  · rw [sendAll_iq f e ht]
    simp only [sendProfiles, ht]
    cases hc : e.cls
    case plain =>
      cases hx : e.xmlns <;> cases hi : e.iqType <;> simp <;> (repeat' split) <;> simp
    case cleanIq => simp [c1 hc]
    case groupsRequest => simp [c2 hc]; split <;> simp
    case getStatuses => simp [c3 hc]; split <;> simp
    case setStatus => simp [c4 hc]; split <;> simp
  · have hc : e.cls = .plain := by
      cases hcl : e.cls <;> first | rfl | exact absurd (c5 (by simp [hcl])) ht
    rw [sendAll_notiq f e ht hc]
    (repeat' split) <;> simp

/-- supported kinds leave exactly once; kinds of a module that is off produce nothing -/
theorem send_supported (f : Flags) (e : Entity) (h : Consistent e) :
    (e.tag = .message → e.mtype = .text → sendAll (sendHandlers f) e = 1) ∧
    (e.tag = .message → e.mtype = .media → sendAll (sendHandlers f) e = if f.media then 1 else 0) ∧
    (e.tag = .receipt → sendAll (sendHandlers f) e = 1) ∧ (e.tag = .ack → sendAll (sendHandlers f) e = 1) ∧
    (e.tag = .presence → sendAll (sendHandlers f) e = 1) ∧ (e.tag = .chatstate → sendAll (sendHandlers f) e = 1) ∧
    (e.tag = .notification → sendAll (sendHandlers f) e = 1) ∧ (e.tag = .call → sendAll (sendHandlers f) e = 1) ∧
    (e.tag = .iq → e.cls = .plain →
      (e.xmlns = .wp ∨ e.xmlns = .push ∨ e.xmlns = .w ∨ e.xmlns = .account ∨ e.xmlns = .encrypt ∨ e.xmlns = .last ∨ e.xmlns = .sync) →
      sendAll (sendHandlers f) e = 1) ∧
    (e.tag = .iq → e.cls = .cleanIq → sendAll (sendHandlers f) e = 1) ∧
    (e.tag = .iq → e.cls = .groupsRequest → sendAll (sendHandlers f) e = if f.groups then 1 else 0) ∧
    (e.tag = .iq → e.cls = .plain → e.xmlns = .wm → e.iqType = .set → sendAll (sendHandlers f) e = if f.media then 1 else 0) ∧
    (e.tag = .iq → e.cls = .plain → e.xmlns = .jabberPrivacy → sendAll (sendHandlers f) e = if f.privacy then 1 else 0) ∧
    (e.tag = .iq → e.cls = .plain → e.xmlns = .privacy → sendAll (sendHandlers f) e = if f.profiles then 1 else 0) ∧
    (e.tag = .iq → (e.cls = .getStatuses ∨ e.cls = .setStatus) → sendAll (sendHandlers f) e = if f.profiles then 1 else 0) ∧
    (e.tag = .iq → e.cls = .plain → e.xmlns = .profilePicture → (e.iqType = .get ∨ e.iqType = .set ∨ e.iqType = .delete) →
      sendAll (sendHandlers f) e = if f.profiles then 1 else 0) := by
  obtain ⟨c1, c2, c3, c4, c5⟩ := h
  have hplain : e.tag ≠ .iq → e.cls = .plain := by
    intro ht
    cases hcl : e.cls <;> first | rfl | exact absurd (c5 (by simp [hcl])) ht
  refine ⟨?_, ?_, ?_, ?_, ?_, ?_, ?_, ?_, ?_, ?_, ?_, ?_, ?_, ?_, ?_, ?_⟩
  · intro ht hm; rw [sendAll_notiq f e (by simp [ht]) (hplain (by simp [ht]))]; simp [ht, hm]
  · intro ht hm; rw [sendAll_notiq f e (by simp [ht]) (hplain (by simp [ht]))]; simp [ht, hm]
  · intro ht; rw [sendAll_notiq f e (by simp [ht]) (hplain (by simp [ht]))]; simp [ht]
  · intro ht; rw [sendAll_notiq f e (by simp [ht]) (hplain (by simp [ht]))]; simp [ht]
  · intro ht; rw [sendAll_notiq f e (by simp [ht]) (hplain (by simp [ht]))]; simp [ht]
  · intro ht; rw [sendAll_notiq f e (by simp [ht]) (hplain (by simp [ht]))]; simp [ht]
  · intro ht; rw [sendAll_notiq f e (by simp [ht]) (hplain (by simp [ht]))]; simp [ht]
  · intro ht; rw [sendAll_notiq f e (by simp [ht]) (hplain (by simp [ht]))]; simp [ht]
  · intro ht hc hx
    rw [sendAll_iq f e ht]
    rcases hx with hx | hx | hx | hx | hx | hx | hx <;> simp [sendProfiles, ht, hc, hx]
  · intro ht hc
    rw [sendAll_iq f e ht]; simp [sendProfiles, ht, hc, c1 hc]
  · intro ht hc
    rw [sendAll_iq f e ht]; simp [sendProfiles, ht, hc, c2 hc]
  · intro ht hc hx hi
    rw [sendAll_iq f e ht]; simp [sendProfiles, ht, hc, hx, hi]
  · intro ht hc hx
    rw [sendAll_iq f e ht]; simp [sendProfiles, ht, hc, hx]
  · intro ht hc hx
    rw [sendAll_iq f e ht]; simp [sendProfiles, ht, hc, hx]
  · intro ht hc
    rw [sendAll_iq f e ht]
    rcases hc with hc | hc
    · simp [sendProfiles, ht, hc, c3 hc]
    · simp [sendProfiles, ht, hc, c4 hc]
  · intro ht hc hx hi
    rw [sendAll_iq f e ht]
    rcases hi with hi | hi | hi <;> simp [sendProfiles, ht, hc, hx, hi]

end Yow.Routing
