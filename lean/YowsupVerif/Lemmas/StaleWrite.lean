/-  Lemmas for Model/StaleWrite.lean (used by Props/C11Stale.lean)  -/
import YowsupVerif.Model.StaleWrite
namespace Yow.Stale

/-- the remaining whole stanzas of a sender -/
def rest (n : Nat) : List Op := (List.replicate n (sendProgram { atomic := true })).flatten

theorem rest_zero : rest 0 = [] := rfl

theorem rest_succ (n : Nat) : rest (n + 1) = .enter :: .lock :: .check :: .write :: .unlock :: rest n := by
  simp [rest, List.replicate_succ, sendProgram]

/-- shape of one thread, given the current connection and whether this thread holds the lock -/
inductive TOK (cur : Nat) : Bool → Thread → Prop
  | idle (n : Nat) (t : Thread) : t.ops = rest n → TOK cur false t
  | wantLock (n : Nat) (t : Thread) : t.ops = .lock :: .check :: .write :: .unlock :: rest n → TOK cur false t
  | chk (n : Nat) (t : Thread) : t.ops = .check :: .write :: .unlock :: rest n → TOK cur true t
  | wr (n : Nat) (t : Thread) : t.ops = .write :: .unlock :: rest n → (t.ok = true → t.sess = cur) → TOK cur true t
  | unl (n : Nat) (t : Thread) : t.ops = .unlock :: rest n → TOK cur true t
  | sw0 (t : Thread) : t.ops = [.lock, .swap, .unlock] → TOK cur false t
  | sw1 (t : Thread) : t.ops = [.swap, .unlock] → TOK cur true t

theorem TOK.free {c c' : Nat} {t : Thread} (h : TOK c false t) : TOK c' false t := by
  cases h with
  | idle n _ h => exact .idle n _ h
  | wantLock n _ h => exact .wantLock n _ h
  | sw0 _ h => exact .sw0 _ h

def Inv (s : St) : Prop :=
  Clean s.wire ∧ ∀ i t, s.threads[i]? = some t → TOK s.cur (decide (s.lock = some i)) t

theorem Inv_update (s : St) (i : Nat) (t' : Thread) (c' : Nat) (l' : Option Nat) (w' : List (Nat × Nat))
    (hw : Clean w') (hi : TOK c' (decide (l' = some i)) t')
    (ho : ∀ k tk, k ≠ i → s.threads[k]? = some tk → TOK c' (decide (l' = some k)) tk) :
    Inv { threads := s.threads.set i t', cur := c', lock := l', wire := w' } := by
  refine ⟨hw, ?_⟩
  intro k tk hk
  simp only [List.getElem?_set] at hk
  by_cases hki : i = k
  · subst hki
    simp only [if_true] at hk
    split at hk
    · cases hk; exact hi
    · cases hk
  · simp only [hki, if_false] at hk
    exact ho k tk (fun h => hki h.symm) hk

theorem clean_snoc {w : List (Nat × Nat)} {a b : Nat} (hw : Clean w) (h : a = b) : Clean (w ++ [(a, b)]) := by
  intro p hp
  simp only [List.mem_append, List.mem_singleton] at hp
  rcases hp with hp | hp
  · exact hw p hp
  · subst hp; exact h

theorem Inv_step (s : St) (i : Nat) (h : Inv s) : Inv (step s i) := by
  obtain ⟨hw, hT⟩ := h
  unfold step
  split
  · exact ⟨hw, hT⟩
  · rename_i t hget
    have ht := hT i t hget
    generalize hb : decide (s.lock = some i) = b at ht
    cases ht with
    | idle n _ hops =>
      cases n with
      | zero => simp only [hops, rest_zero]; exact ⟨hw, hT⟩
      | succ n =>
        simp only [hops, rest_succ, setThread]
        refine Inv_update s i _ _ _ _ hw ?_ (fun k tk _ hk => hT k tk hk)
        rw [hb]; exact .wantLock n _ rfl
    | wantLock n _ hops =>
      simp only [hops, setThread]
      split
      · rename_i hnone
        have hl : s.lock = none := by simpa using hnone
        refine Inv_update s i _ _ _ _ hw ?_ ?_
        · simp only [decide_true]; exact .chk n _ rfl
        · intro k tk hki hk
          have := hT k tk hk
          simp only [hl] at this
          have e : decide (some i = some k) = false := by simp; exact fun h => hki h.symm
          rw [e]; simpa using this
      · exact ⟨hw, hT⟩
    | chk n _ hops =>
      simp only [hops, setThread]
      refine Inv_update s i _ _ _ _ hw ?_ (fun k tk _ hk => hT k tk hk)
      rw [hb]; refine .wr n _ rfl ?_
      intro h; simpa using h
    | wr n _ hops hok =>
      simp only [hops, setThread]
      split
      · rename_i hokt
        refine Inv_update s i _ _ _ _ (clean_snoc hw (hok hokt).symm) ?_ (fun k tk _ hk => hT k tk hk)
        rw [hb]; exact .unl n _ rfl
      · refine Inv_update s i _ _ _ _ hw ?_ (fun k tk _ hk => hT k tk hk)
        rw [hb]; exact .unl n _ rfl
    | unl n _ hops =>
      have hl : s.lock = some i := by simpa using hb
      simp only [hops, setThread]
      refine Inv_update s i _ _ _ _ hw ?_ ?_
      · simp only [reduceCtorEq, decide_false]; exact .idle n _ rfl
      · intro k tk hki hk
        have := hT k tk hk
        simp only [hl] at this
        have e : decide (some i = some k) = false := by simp; exact fun h => hki h.symm
        rw [e] at this
        simpa using this
    | sw0 _ hops =>
      simp only [hops, setThread]
      split
      · rename_i hnone
        have hl : s.lock = none := by simpa using hnone
        refine Inv_update s i _ _ _ _ hw ?_ ?_
        · simp only [decide_true]; exact .sw1 _ rfl
        · intro k tk hki hk
          have := hT k tk hk
          simp only [hl] at this
          have e : decide (some i = some k) = false := by simp; exact fun h => hki h.symm
          rw [e]; simpa using this
      · exact ⟨hw, hT⟩
    | sw1 _ hops =>
      have hl : s.lock = some i := by simpa using hb
      simp only [hops, setThread]
      refine Inv_update s i _ _ _ _ hw ?_ ?_
      · rw [hb]; exact .unl 0 _ rfl
      · intro k tk hki hk
        have := hT k tk hk
        simp only [hl] at this
        have e : decide (some i = some k) = false := by simp; exact fun h => hki h.symm
        rw [hl, e]
        rw [e] at this
        exact this.free

theorem Inv_run (s : St) (sched : List Nat) (h : Inv s) : Inv (run s sched) := by
  induction sched generalizing s with
  | nil => exact h
  | cons i is ih => exact ih _ (Inv_step s i h)

theorem Inv_init (work : List (Option Nat)) : Inv (init { atomic := true } work) := by
  refine ⟨(fun p hp => nomatch hp), ?_⟩
  intro i t hget
  simp only [init, List.getElem?_map] at hget
  have e : decide ((none : Option Nat) = some i) = false := by simp
  show TOK 0 (decide ((none : Option Nat) = some i)) t
  rw [e]
  cases hw : work[i]? with
  | none => simp [hw] at hget
  | some w =>
    simp only [hw, Option.map_some, Option.some.injEq] at hget
    subst hget
    cases w with
    | none => exact .sw0 _ rfl
    | some n => exact .idle n _ rfl

/-- With the check and the write under the lock that the replacement of the connection takes: for EVERY number of sender threads and
    stanzas, every number of connection losses, and EVERY schedule, each frame on the wire was encrypted for the connection it was written to. -/
theorem no_stale_frame (work : List (Option Nat)) (sched : List Nat) :
    Clean (run (init { atomic := true } work) sched).wire := by
  exact (Inv_run _ sched (Inv_init work)).1

end Yow.Stale
