/-
  Token conservation in the E2E system model, part 18: the recipient's steps as instances of the master lemma.
-/
import YowsupVerif.Lemmas.E2ETokHandled
namespace Yow.E2E

section
variable {ex : Bool} {accts : List Acct} {groups : List (Nat × List Acct)} {L : List (Acct × Node)} {V : View} {x : Acct}

theorem nonce_lt_of_pos {k n : Nat} {ms : List Stanza} (hc : ∀ st ∈ ms, ∀ e ∈ ctsOf st, e.2.ctr < k) (hp : 1 ≤ sumMap (nOf n) ms) : n < k := by
  obtain ⟨st, hst, hpos⟩ := exists_of_sumMap_pos (f := nOf n) (l := ms) (by omega)
  have : n ∈ ctrsOf st := List.count_pos_iff.mp hpos
  obtain ⟨e, he, rfl⟩ := List.mem_map.mp this
  exact hc st hst e he

/-- the recipient took the stanzas `ms` (from its queue, or from what was parked) and handled them -/
theorem RecipStep.ofHandled {cons rest ms : List Stanza} {c1 c' : Client} {out : List Stanza}
    (hT : TV ex accts groups L V) (hx : x ∈ accts) (hq : V.outb x = cons ++ rest) (hh : Handled c1 ms c' out)
    (s_sentQ : c1.sentQueue = (V.cl x).sentQueue) (s_receipts : c1.receipts = (V.cl x).receipts)
    (s_ownSK : c1.ownSK = (V.cl x).ownSK) (s_shown : c1.shown = (V.cl x).shown)
    (s_seen : c1.seen = (V.cl x).seen) (s_seenSK : c1.seenSK = (V.cl x).seenSK)
    (s_iq : ∀ e ∈ c1.iqReg, e ∈ (V.cl x).iqReg ∧ ∀ st ∈ cons, stanzaIq st ≠ some e.1)
    (s_first : ∀ e ∈ (V.cl x).iqReg, ∀ i, firstGroupCont e.2 i → e ∈ c1.iqReg)
    (s_iqnd : keysNodup c1.iqReg)
    (s_cont : ∀ id r, contS id r c1.iqReg = contS id r (V.cl x).iqReg)
    (s_slot : ∀ i, slotS i c1.iqReg = slotS i (V.cl x).iqReg)
    (s_pendsub : ∀ e ∈ c1.pendingIn, e ∈ (V.cl x).pendingIn)
    (s_pendnd : keysNodup c1.pendingIn)
    (s_pendok : ∀ e ∈ c1.pendingIn, ∃ k ∈ c1.iqReg, k.2 = Cont.keysForPending e.1.1 e.1.2)
    (s_tok : ∀ id, sumMap (downTok id) cons + pendS id (V.cl x).pendingIn = sumMap (downTok id) ms + pendS id c1.pendingIn)
    (s_non : ∀ n, sumMap (nOf n) cons + pendN n (V.cl x).pendingIn = sumMap (nOf n) ms + pendN n c1.pendingIn)
    (cons_plain : ∀ st ∈ cons, ∀ id r, retryDownTok id r st = 0 ∧ rcptOut id r st = 0)
    (ms_cts : ∀ st ∈ ms, ∀ e ∈ ctsOf st, e.2.ctr < V.nextCtr) :
    RecipStep accts groups L V x cons rest c' out V.nextCtr := by
  have hcg := hT.clients x
  have hsc1 : ∀ id, shownC c1 id = shownC (V.cl x) id := fun id => shownC_congr s_shown id
  have hseenlt : ∀ n, (n ∈ c'.seen.map Prod.snd ∨ n ∈ c'.seenSK.map Prod.snd) → n < V.nextCtr := by
    intro n hn
    rcases hh.seen n hn with (h | h) | h
    · rw [s_seen] at h
      obtain ⟨e, he, rfl⟩ := List.mem_map.mp h
      exact hcg.seen e he
    · rw [s_seenSK] at h
      obtain ⟨e, he, rfl⟩ := List.mem_map.mp h
      exact hcg.seenSK e he
    · exact nonce_lt_of_pos ms_cts h
  exact {
    hx := hx
    hq := hq
    hk := Nat.le_refl _
    sentQ := hh.same.sentQ.trans s_sentQ
    receipts := hh.same.receipts.trans s_receipts
    ownSK := hh.same.ownSK.trans s_ownSK
    contS_eq := by intro id r; rw [hh.same.iqReg]; exact s_cont id r
    slot_eq := by intro i; rw [hh.same.iqReg]; exact s_slot i
    first_keep := by intro e he i hf; rw [hh.same.iqReg]; exact s_first e he i hf
    iq_new := by intro e he; rw [hh.same.iqReg] at he; exact Or.inl (s_iq e he).1
    cons_plain := cons_plain
    out_plain := fun st hst id r => hh.outPlain st hst id r groups
    shown_mono := by
      intro id
      have := hh.rc id
      rw [hsc1] at this
      omega
    good_c := {
      seen := fun e he => hseenlt e.2 (Or.inl (List.mem_map.mpr ⟨e, he, rfl⟩))
      seenSK := fun e he => hseenlt e.2 (Or.inr (List.mem_map.mpr ⟨e, he, rfl⟩))
      conts := by rw [hh.same.iqReg]; exact fun e he => hcg.conts e (s_iq e he).1
      iqKeys := by rw [hh.same.iqReg]; exact s_iqnd
      pendKeys := by rw [hh.same.pend]; exact s_pendnd
      parked := by rw [hh.same.pend]; exact fun e he => hcg.parked e (s_pendsub e he) }
    good_out := by
      intro st hst
      obtain ⟨a1, a2, a3, a4, a5⟩ := hh.outGood st hst
      exact ⟨a1, (fun e he => by rw [a2] at he; cases he), a3, a4, a5⟩
    cons_R := by
      intro a n _ _
      have h1 := hh.bal n.id
      have h2 := s_tok n.id
      rw [hsc1] at h1
      rw [hh.same.pend]
      omega
    rcons_R := by
      intro a n _ _
      have := hh.rc n.id
      rw [hsc1] at this
      exact this
    ans_iq := by
      intro e he
      rw [hh.same.iqReg] at he
      exact Or.inl (s_iq e he)
    ans_pend := by rw [hh.same.pend, hh.same.iqReg]; exact s_pendok
    kept_R := by
      intro a n _ _
      have h1 := hh.bal n.id
      have h2 := s_tok n.id
      have h3 := hh.rc n.id
      rw [hh.same.pend]
      omega
    unop_pend := by
      intro n
      have := s_non n
      rw [hh.same.pend]
      omega
    unop_seen := by
      intro n hn
      rcases hh.seen n hn with h | h
      · left; rw [← s_seen, ← s_seenSK]; exact h
      · right
        have := s_non n
        rw [hh.same.pend]
        omega }

/-- a message stanza is parked and the sender's keys are asked for -/
theorem RecipStep.ofPark {rest : List Stanza} {st : Stanza} {id : Nat} {peer : Dest} {part : Option Acct} {im : Bool}
    {encs : List (Option Acct × Ct)} {pl : Option Payload} {sender : Acct} {c' : Client} {out : List Stanza}
    (hT : TV ex accts groups L V) (hx : x ∈ accts) (hst : st = .msg id peer part im encs pl) (hq : V.outb x = [st] ++ rest)
    (hlt : ∀ e ∈ (V.cl x).iqReg, e.1 < (V.cl x).nextIq)
    (hc : OutC (V.cl x) st peer part sender c' out) :
    RecipStep accts groups L V x [st] rest c' out V.nextCtr := by
  obtain ⟨o1, o2, o3, o4, o5, o6, o7, o8, o9, o10, _⟩ := hc
  have hcg := hT.clients x
  have hdg := hT.downs x st (by rw [hq]; simp)
  have hpt : ∀ id', pendS id' c'.pendingIn = pendS id' (V.cl x).pendingIn + downTok id' st := by
    intro id'
    have := sumMap_insert hcg.pendKeys (fun l => sumMap (downTok id') l) rfl (peer, part)
      ((lookup (V.cl x).pendingIn (peer, part)).getD [] ++ [st])
    rw [o3]
    unfold pendS
    simp only [sumMap_append, sumMap_cons, sumMap_nil'] at this ⊢
    omega
  have hpn : ∀ n, pendN n c'.pendingIn = pendN n (V.cl x).pendingIn + nOf n st := by
    intro n
    have := sumMap_insert hcg.pendKeys (fun l => sumMap (nOf n) l) rfl (peer, part)
      ((lookup (V.cl x).pendingIn (peer, part)).getD [] ++ [st])
    rw [o3]
    unfold pendN
    simp only [sumMap_append, sumMap_cons, sumMap_nil'] at this ⊢
    omega
  subst o4
  exact {
    hx := hx
    hq := hq
    hk := Nat.le_refl _
    sentQ := o5
    receipts := o6
    ownSK := o7
    contS_eq := by
      intro id' r
      rw [o1]
      simp [contS, contTok]
    slot_eq := by
      intro i
      rw [o1]
      simp [slotS, slotTok]
    first_keep := by intro e he i _; rw [o1]; exact List.mem_append_left _ he
    iq_new := by
      intro e he
      rw [o1] at he
      rcases List.mem_append.mp he with h | h
      · exact Or.inl h
      · rw [List.mem_singleton] at h; subst h; exact Or.inr ⟨peer, part, rfl⟩
    cons_plain := by
      intro st' hst' id' r
      rw [List.mem_singleton] at hst'; subst hst'; subst hst
      exact ⟨rfl, rfl⟩
    out_plain := by
      intro st' hst' id' r
      rw [List.mem_singleton] at hst'; subst hst'
      exact ⟨rfl, rfl⟩
    shown_mono := fun id' => Nat.le_of_eq (shownC_congr o8 id').symm
    good_c := {
      seen := by rw [o9]; exact hcg.seen
      seenSK := by rw [o10]; exact hcg.seenSK
      conts := by
        rw [o1]
        intro e he
        rcases List.mem_append.mp he with h | h
        · exact hcg.conts e h
        · rw [List.mem_singleton] at h; subst h; trivial
      iqKeys := by
        rw [o1]
        exact keysNodup_append_fresh hcg.iqKeys (fun p hp e => Nat.lt_irrefl _ (e ▸ hlt p hp))
      pendKeys := by rw [o3]; exact keysNodup_insert _ _ hcg.pendKeys
      parked := by
        rw [o3]
        intro e he st' hst'
        rcases (mem_insert_iff hcg.pendKeys).mp he with ⟨h1, _⟩ | h1
        · exact hcg.parked e h1 st' hst'
        · subst h1
          rcases List.mem_append.mp hst' with h2 | h2
          · obtain ⟨v, hv, hxv⟩ := lookup_getD_mem h2
            exact hcg.parked _ hv st' hxv
          · rw [List.mem_singleton] at h2; subst h2; subst hst
            exact ⟨⟨id, im, encs, pl, rfl⟩, hdg.cts, hdg.shape⟩ }
    good_out := by
      intro st' hst'
      rw [List.mem_singleton] at hst'; subst hst'
      exact (PlainUp.getKeys _ _).1 _ _
    cons_R := by
      intro a n _ _
      rw [hpt, shownC_congr o8]
      simp only [sumMap_cons, sumMap_nil', retryUpTok_getKeys]
      omega
    rcons_R := by
      intro a n _ _
      rw [shownC_congr o8]
      simp
    ans_iq := by
      intro e he
      rw [o1] at he
      rcases List.mem_append.mp he with h | h
      · refine Or.inl ⟨h, ?_⟩
        intro st' hst'
        rw [List.mem_singleton] at hst'; subst hst'; subst hst
        simp [stanzaIq]
      · rw [List.mem_singleton] at h; subst h
        exact Or.inr ⟨_, List.mem_singleton.mpr rfl, rfl⟩
    ans_pend := by
      rw [o3, o1]
      intro e he
      rcases (mem_insert_iff hcg.pendKeys).mp he with ⟨h1, _⟩ | h1
      · obtain ⟨k, hk, hkk⟩ := (hT.ans x).2 e h1
        exact ⟨k, List.mem_append_left _ hk, hkk⟩
      · subst h1
        exact ⟨((V.cl x).nextIq, .keysForPending peer part), by simp, rfl⟩
    kept_R := by
      intro a n _ _
      rw [hpt]
      simp only [sumMap_cons, sumMap_nil', retryUpTok_getKeys]
      omega
    unop_pend := by
      intro n
      rw [hpn]
      simp only [sumMap_cons, sumMap_nil']
      omega
    unop_seen := by
      intro n hn
      rw [o9, o10] at hn
      exact Or.inl hn }

end

end Yow.E2E
