/-
  Token conservation in the E2E system model, part 21: a client restarts (allowed at quiescence with nothing pending).
-/
import YowsupVerif.Lemmas.E2ETokClient
import YowsupVerif.Lemmas.E2ETokQuiesce
namespace Yow.E2E

section
variable {ex : Bool} {accts : List Acct} {groups : List (Nat × List Acct)}

theorem restart_TInv (hw : WFConfig accts groups) {s : Sys} {a : Acct}
    (h : TInv ex accts groups s) (hall : Allowed s (.restart a) = true) : TInv ex accts groups (step s (.restart a)) := by
  obtain ⟨hA, hT⟩ := h
  refine ⟨step_inv hA hall, ?_⟩
  simp only [Allowed, Bool.and_eq_true] at hall
  obtain ⟨⟨hreg, hqu⟩, hcl⟩ := hall
  have ha : a ∈ accts := (hA.reg a).mp hreg
  have hacc : a ∈ (view s).accounts := by rw [hT.acc]; exact ha
  have hset : settled s = true := by unfold settled; rw [hqu, hcl]; rfl
  unfold quiescent at hqu
  rw [Bool.and_eq_true] at hqu
  have hin := queueOf_nil_of_all hqu.1
  have hout := queueOf_nil_of_all hqu.2
  have hemp := settled_client hset
  have hsub : (step s (.restart a)).submitted = s.submitted := rfl
  rw [hsub]
  have hv : view (step s (.restart a)) = ((view s).popOut a ((view s).outb a)).cstep a
      { getClient s a with sentQueue := [], pendingIn := [], iqReg := [], retries := [], skipEnc := [] } [] (view s).nextCtr := by
    simp only [step]
    rw [view_setClient _ _ _ hacc, View.popOut_self]
  have hss : SenderStep accts groups s.submitted (view s) a [] ((view s).outb a)
      { getClient s a with sentQueue := [], pendingIn := [], iqReg := [], retries := [], skipEnc := [] } [] (view s).nextCtr := {
    hx := ha
    hq := rfl
    hk := Nat.le_refl _
    pend := (hemp a).2.symm
    shown := rfl
    seen := rfl
    seenSK := rfl
    cons_plain := fun st hst => by cases hst
    out_plain := fun st hst => by cases hst
    conts := fun e he => by cases he
    iqKeys := keysNodup_nil
    good_out := fun st hst => by cases hst
    cons_S := by
      intro n _ r _
      show contS n.id r [] + _ = contS n.id r (getClient s a).iqReg + _
      rw [(hemp a).1]
      rfl
    rcons_S := by
      intro n _ r _
      simp only [sumMap_nil', Nat.add_zero]
      rfl
    ans_iq := fun e he => by cases he
    ans_pend := by
      intro e he
      have : (view s).cl a = getClient s a := rfl
      rw [this, (hemp a).2] at he
      cases he
    kept_S := by
      intro n _ r _
      left
      show inTransitV (view s) a n.id r + 0 = 0
      unfold inTransitV pendS
      have e1 : (view s).inb a = [] := hin a
      have e2 : (view s).outb r = [] := hout r
      have e3 : (view s).inb r = [] := hin r
      have e4 : (view s).outb a = [] := hout a
      have e5 : ((view s).cl r).pendingIn = [] := (hemp r).2
      rw [e1, e2, e3, e4, e5]
      rfl
    ret3 := by
      intro n hn g hg
      rcases hT.ret3 a n hn g hg with h1 | ⟨e, he, _⟩
      · exact Or.inl h1
      · have : (view s).cl a = getClient s a := rfl
        rw [this, (hemp a).1] at he
        cases he
    slots := fun i => by simp [sendSlots, slotS, sentS]
    rids := hT.rids a
    retq := fun e he => by cases he
    unop_out := by
      intro r _ m
      simp }
  exact finish_sender hw.1 hT hss hv

end

end Yow.E2E
