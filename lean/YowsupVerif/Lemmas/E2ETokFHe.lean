/-
  Exactly-once with server faults, part 6: `handleEnc` as a function of the recipient's record alone (what it does to
  the record and what it emits), for every outcome of the two decryptions.
-/
import YowsupVerif.Lemmas.E2ETokRecvSpec
namespace Yow.E2E

def surfaceC (c : Client) (id : Nat) (peer : Dest) (part : Option Acct) (pl : Plain) : Client × List Stanza :=
  match pl.content with
  | some p => ({ c with shown := c.shown ++ [{ id := id, peer := peer, participant := part, payload := p }] },
      [.receipt id peer part .delivery])
  | none => (c, [])

def storeC (c : Client) (sender : Acct) (pl : Plain) : Client :=
  match pl.skdm with
  | none => c
  | some (g, gen) => { c with peerSK := insert c.peerSK (g, sender) gen }

def retryC (c : Client) (id : Nat) (peer : Dest) (part : Option Acct) : Client × List Stanza :=
  ({ c with retries := insert c.retries id ((lookup c.retries id).getD 0 + 1) },
    [.receipt id peer part (.retry ((lookup c.retries id).getD 0 + 1))])

def resetC (c : Client) (id : Nat) : Client := { c with retries := erase c.retries id }

def failC (c : Client) (st : Stanza) (id : Nat) (peer : Dest) (part : Option Acct) (sender : Acct) : Dec → Client × List Stanza
  | .invalid => retryC c id peer part
  | .duplicate => (c, [.receipt id peer part .delivery])
  | .noSession =>
    ({ c with pendingIn := insert c.pendingIn (peer, part) ((lookup c.pendingIn (peer, part)).getD [] ++ [st]),
              nextIq := c.nextIq + 1, iqReg := c.iqReg ++ [(c.nextIq, .keysForPending peer part)] },
      [.getKeys c.nextIq [sender]])
  | .ok _ => (c, [])

def stage2C (c : Client) (st : Stanza) (id : Nat) (peer : Dest) (part : Option Acct) (sender : Acct)
    (encs : List (Option Acct × Ct)) : Client × List Stanza :=
  match firstKind encs .skmsg, peer with
  | some ct, .group g =>
    let d := groupDecrypt c g sender ct
    match d.2 with
    | .ok pl => ((resetC (surfaceC d.1 id peer part pl).1 id), (surfaceC d.1 id peer part pl).2)
    | .noSession => ((resetC (retryC d.1 id peer part).1 id), (retryC d.1 id peer part).2)
    | e => failC d.1 st id peer part sender e
  | _, _ => (resetC c id, [])

/-- `handleEnc` on the recipient's record -/
def heC (c : Client) (id : Nat) (peer : Dest) (part : Option Acct) (im : Bool) (encs : List (Option Acct × Ct))
    (pl : Option Payload) : Client × List Stanza :=
  match heFirst encs with
  | none => stage2C c (.msg id peer part im encs pl) id peer part (whoOf peer part) encs
  | some ct =>
    let d := decrypt c (whoOf peer part) ct
    match d.2 with
    | .ok p =>
      let c1 := storeC d.1 (whoOf peer part) p
      let r2 := surfaceC c1 id peer part p
      let r3 := stage2C r2.1 (.msg id peer part im encs pl) id peer part (whoOf peer part) encs
      (r3.1, r2.2 ++ r3.2)
    | e => failC d.1 (.msg id peer part im encs pl) id peer part (whoOf peer part) e

section
variable {s : Sys} {r : Acct} (hr : r ∈ (view s).accounts)
include hr

theorem rstep_surface (id : Nat) (peer : Dest) (part : Option Acct) (pl : Plain) :
    RStep s (surface s r id peer part pl) r (surfaceC (getClient s r) id peer part pl).1 (surfaceC (getClient s r) id peer part pl).2 := by
  unfold surface surfaceC
  split
  · next p hp => simp only [hp]; exact rstep_showAndReceipt hr id peer part p
  · next hp => simp only [hp]; exact RStep.refl' s r

theorem rstep_store (sender : Acct) (pl : Plain) :
    RStep s (storeSkdm s r sender pl) r (storeC (getClient s r) sender pl) [] := by
  unfold storeSkdm storeC
  split
  · next hp => simp only [hp]; exact RStep.refl' s r
  · next g gen hp => simp only [hp]; exact rstep_setClient _ hr

theorem rstep_fail (st : Stanza) (id : Nat) (peer : Dest) (part : Option Acct) (sender : Acct) (d : Dec) :
    RStep s (onDecryptFailure s r st id peer part sender d) r (failC (getClient s r) st id peer part sender d).1
      (failC (getClient s r) st id peer part sender d).2 := by
  cases d with
  | ok p => exact RStep.refl' s r
  | duplicate => exact rstep_emit s r _
  | invalid => exact rstep_sendRetry hr id peer part
  | noSession =>
    simp only [onDecryptFailure, failC]
    exact view_sendIq s r _ _ _ hr

theorem rstep_stage2 (st : Stanza) (id : Nat) (peer : Dest) (part : Option Acct) (sender : Acct) (encs : List (Option Acct × Ct)) :
    RStep s (handleEnc.stage2 s r st id peer part sender encs) r (stage2C (getClient s r) st id peer part sender encs).1
      (stage2C (getClient s r) st id peer part sender encs).2 := by
  cases hfk : firstKind encs .skmsg with
  | none =>
    simp only [handleEnc.stage2, stage2C, hfk]
    exact rstep_resetRetries hr id
  | some ct =>
    cases peer with
    | user b =>
      simp only [handleEnc.stage2, stage2C, hfk]
      exact rstep_resetRetries hr id
    | group g =>
      simp only [handleEnc.stage2, stage2C, hfk]
      generalize hd : groupDecrypt (getClient s r) g sender ct = d
      obtain ⟨c1, dd⟩ := d
      have h1 := rstep_setClient (s := s) c1 hr
      have hacc1 : r ∈ (view (setClient s r c1)).accounts := by rw [h1.acc]; exact hr
      cases dd with
      | ok pl =>
        simp only
        have h2 := rstep_surface hacc1 id (.group g) part pl
        have hacc2 := h2.acc.trans h1.acc
        have h3 := rstep_resetRetries (s := surface (setClient s r c1) r id (.group g) part pl) (by rw [hacc2]; exact hr) id
        have h := (h1.trans h2).trans h3
        rw [h2.cl, h1.cl] at h
        simpa [resetC] using h
      | noSession =>
        simp only
        have h2 := rstep_sendRetry hacc1 id (.group g) part
        have hacc2 := h2.acc.trans h1.acc
        have h3 := rstep_resetRetries (s := sendRetry (setClient s r c1) r id (.group g) part) (by rw [hacc2]; exact hr) id
        have h := (h1.trans h2).trans h3
        rw [h2.cl, h1.cl] at h
        simpa [resetC, retryC] using h
      | invalid =>
        simp only
        have h2 := rstep_fail hacc1 st id (.group g) part sender .invalid
        have h := h1.trans h2
        rw [h1.cl] at h
        simpa using h
      | duplicate =>
        simp only
        have h2 := rstep_fail hacc1 st id (.group g) part sender .duplicate
        have h := h1.trans h2
        rw [h1.cl] at h
        simpa using h

theorem rstep_handleEnc (id : Nat) (peer : Dest) (part : Option Acct) (im : Bool) (encs : List (Option Acct × Ct)) (pl : Option Payload) :
    RStep s (handleEnc s r (.msg id peer part im encs pl)) r (heC (getClient s r) id peer part im encs pl).1
      (heC (getClient s r) id peer part im encs pl).2 := by
  rw [handleEnc_eq]
  unfold heC
  cases hf : heFirst encs with
  | none => exact rstep_stage2 hr _ id peer part _ encs
  | some ct =>
    simp only [heMain]
    generalize hd : decrypt (getClient s r) (whoOf peer part) ct = d
    obtain ⟨c1, dd⟩ := d
    have h1 := rstep_setClient (s := s) c1 hr
    have hacc1 : r ∈ (view (setClient s r c1)).accounts := by rw [h1.acc]; exact hr
    cases dd with
    | ok p =>
      simp only
      have h2 := rstep_store hacc1 (whoOf peer part) p
      have hacc2 := h2.acc.trans h1.acc
      have h3 := rstep_surface (s := storeSkdm (setClient s r c1) r (whoOf peer part) p) (by rw [hacc2]; exact hr) id peer part p
      have hacc3 := h3.acc.trans hacc2
      have h4 := rstep_stage2 (s := surface (storeSkdm (setClient s r c1) r (whoOf peer part) p) r id peer part p)
        (by rw [hacc3]; exact hr) (.msg id peer part im encs pl) id peer part (whoOf peer part) encs
      have h := ((h1.trans h2).trans h3).trans h4
      rw [h3.cl, h2.cl, h1.cl] at h
      simpa using h
    | invalid =>
      simp only
      have h := h1.trans (rstep_fail hacc1 (.msg id peer part im encs pl) id peer part (whoOf peer part) .invalid)
      rw [h1.cl] at h
      simpa using h
    | duplicate =>
      simp only
      have h := h1.trans (rstep_fail hacc1 (.msg id peer part im encs pl) id peer part (whoOf peer part) .duplicate)
      rw [h1.cl] at h
      simpa using h
    | noSession =>
      simp only
      have h := h1.trans (rstep_fail hacc1 (.msg id peer part im encs pl) id peer part (whoOf peer part) .noSession)
      rw [h1.cl] at h
      simpa using h

end

end Yow.E2E
