/-
  The two queue tables of the E2E system model keep pairwise distinct keys (every update goes through `insert`).
-/
import YowsupVerif.Lemmas.E2ETokQuiesce
import YowsupVerif.Lemmas.E2E
namespace Yow.E2E

theorem QKeys.of_eq {s s' : Sys} (h : QKeys s) (h1 : s'.inbound = s.inbound) (h2 : s'.outbound = s.outbound) : QKeys s' := by
  unfold QKeys at *; rw [h1, h2]; exact h

theorem QKeys.emit {s : Sys} (h : QKeys s) (a : Acct) (st : Stanza) : QKeys (emit s a st) :=
  ⟨keys_insert_nodup _ _ h.1, h.2⟩

theorem QKeys.push {s : Sys} (h : QKeys s) (a : Acct) (st : Stanza) : QKeys (push s a st) :=
  ⟨h.1, keys_insert_nodup _ _ h.2⟩

theorem QKeys.setClient {s : Sys} (h : QKeys s) (a : Acct) (c : Client) : QKeys (setClient s a c) := h.of_eq rfl rfl

theorem QKeys.setIn {s : Sys} (h : QKeys s) (a : Acct) (l : List Stanza) : QKeys { s with inbound := insert s.inbound a l } :=
  ⟨keys_insert_nodup _ _ h.1, h.2⟩

theorem QKeys.setOut {s : Sys} (h : QKeys s) (a : Acct) (l : List Stanza) : QKeys { s with outbound := insert s.outbound a l } :=
  ⟨h.1, keys_insert_nodup _ _ h.2⟩

theorem QKeys.sendEnc {s : Sys} (h : QKeys s) (a : Acct) (c : Client) (n : Node) (encs : List (Option Acct × Ct)) (p : Option Acct) :
    QKeys (sendEnc s a c n encs p) := by
  unfold Yow.E2E.sendEnc
  exact (h.setClient _ _).emit _ _

theorem QKeys.sendIq {s : Sys} (h : QKeys s) (a : Acct) (c : Client) (mk : Nat → Stanza) (k : Cont) : QKeys (sendIq s a c mk k) := by
  unfold Yow.E2E.sendIq
  exact (h.setClient _ _).emit _ _

theorem QKeys.sendToContact {s : Sys} (h : QKeys s) (a : Acct) (c : Client) (n : Node) (peer : Acct) :
    QKeys (sendToContact s a c n peer) := by
  unfold Yow.E2E.sendToContact
  split
  · exact h
  · exact (h.of_eq (s' := { s with nextCtr := s.nextCtr + 1 }) rfl rfl).sendEnc _ _ _ _ _

theorem QKeys.ownSenderKey {s : Sys} (h : QKeys s) (c : Client) (g : Nat) : QKeys (ownSenderKey s c g).1 := by
  unfold Yow.E2E.ownSenderKey
  split
  · exact h
  · exact h.of_eq rfl rfl

theorem QKeys.sgFirst {s : Sys} (h : QKeys s) (c : Client) (n : Node) (g : Nat) (need : List Acct) (rc : Nat) (p : Option Acct) :
    QKeys (sgFirst s c n g need rc p).1 := by
  unfold Yow.E2E.sgFirst
  split
  · exact h
  · exact (h.ownSenderKey c g).of_eq rfl rfl

theorem QKeys.sgTail {t : Sys × Client × List (Option Acct × Ct)} (h : QKeys t.1) (a : Acct) (n : Node) (g rc : Nat) (p : Option Acct) :
    QKeys (sgTail a n g rc p t) := by
  obtain ⟨s1, c1, encs1⟩ := t
  simp only [Yow.E2E.sgTail]
  split
  · have h2 := QKeys.ownSenderKey (s := s1) h c1 g
    generalize Yow.E2E.ownSenderKey s1 c1 g = o at h2
    obtain ⟨s2, c2, gen⟩ := o
    dsimp only at h2 ⊢
    refine QKeys.sendEnc ?_ _ _ _ _ _
    exact h2.of_eq rfl rfl
  · exact QKeys.sendEnc h _ _ _ _ _

theorem QKeys.sgws {s : Sys} (h : QKeys s) (a : Acct) (c : Client) (n : Node) (g : Nat) (need : List Acct) (rc : Nat) :
    QKeys (sendToGroupWithSessions s a c n g need rc) := by
  rw [sendToGroupWithSessions_eq]
  exact QKeys.sgTail (h.sgFirst _ _ _ _ _ _) _ _ _ _ _

theorem QKeys.ensure {s : Sys} (h : QKeys s) (a : Acct) (c : Client) (n : Node) (g : Nat) (jids : List Acct) :
    QKeys (ensureSessionsAndSend s a c n g jids) := by
  unfold ensureSessionsAndSend
  dsimp only
  split
  · exact h.sgws _ _ _ _ _ _
  · exact h.sendIq _ _ _ _

theorem QKeys.sendToGroup {s : Sys} (h : QKeys s) (a : Acct) (c : Client) (n : Node) (g : Nat) (retry : Option (Acct × Nat)) :
    QKeys (sendToGroup s a c n g retry) := by
  unfold Yow.E2E.sendToGroup
  split
  · exact h.sendIq _ _ _ _
  · split
    · exact h.sgws _ _ _ _ _ _
    · exact h.sgws _ _ _ _ _ _

theorem QKeys.processPlaintext {s : Sys} (h : QKeys s) (a : Acct) (c : Client) (n : Node) (retry : Option (Acct × Nat)) :
    QKeys (processPlaintext s a c n retry) := by
  unfold Yow.E2E.processPlaintext
  split
  · exact h.sendToGroup _ _ _ _ _
  · split
    · exact h.sendToContact _ _ _ _
    · exact h.sendIq _ _ _ _

theorem QKeys.sendLayerSend {s : Sys} (h : QKeys s) (a : Acct) (n : Node) : QKeys (sendLayerSend s a n) := by
  unfold Yow.E2E.sendLayerSend
  dsimp only
  split
  · exact h.emit _ _
  · exact h.processPlaintext _ _ _ _

theorem QKeys.showAndReceipt {s : Sys} (h : QKeys s) (r : Acct) (id : Nat) (peer : Dest) (part : Option Acct) (p : Payload) :
    QKeys (showAndReceipt s r id peer part p) := by
  unfold Yow.E2E.showAndReceipt
  exact (h.setClient _ _).emit _ _

theorem QKeys.surface {s : Sys} (h : QKeys s) (r : Acct) (id : Nat) (peer : Dest) (part : Option Acct) (pl : Plain) :
    QKeys (surface s r id peer part pl) := by
  unfold Yow.E2E.surface
  split
  · exact h.showAndReceipt _ _ _ _ _
  · exact h

theorem QKeys.sendRetry {s : Sys} (h : QKeys s) (r : Acct) (id : Nat) (peer : Dest) (part : Option Acct) :
    QKeys (sendRetry s r id peer part) := by
  unfold Yow.E2E.sendRetry
  exact (h.setClient _ _).emit _ _

theorem QKeys.resetRetries {s : Sys} (h : QKeys s) (r : Acct) (id : Nat) : QKeys (resetRetries s r id) := by
  unfold Yow.E2E.resetRetries
  exact h.setClient _ _

theorem QKeys.storeSkdm {s : Sys} (h : QKeys s) (r : Acct) (sender : Acct) (pl : Plain) : QKeys (storeSkdm s r sender pl) := by
  unfold Yow.E2E.storeSkdm
  split
  · exact h
  · exact h.setClient _ _

theorem QKeys.onDecryptFailure {s : Sys} (h : QKeys s) (r : Acct) (st : Stanza) (id : Nat) (peer : Dest) (part : Option Acct)
    (sender : Acct) (d : Dec) : QKeys (onDecryptFailure s r st id peer part sender d) := by
  cases d with
  | ok p => exact h
  | duplicate => exact h.emit _ _
  | invalid => exact h.sendRetry _ _ _ _
  | noSession =>
    simp only [Yow.E2E.onDecryptFailure]
    exact h.sendIq _ _ _ _

theorem QKeys.stage2 {s : Sys} (h : QKeys s) (r : Acct) (st : Stanza) (id : Nat) (peer : Dest) (part : Option Acct)
    (sender : Acct) (encs : List (Option Acct × Ct)) : QKeys (handleEnc.stage2 s r st id peer part sender encs) := by
  unfold handleEnc.stage2
  split
  · dsimp only
    split
    · exact ((h.setClient _ _).surface _ _ _ _ _).resetRetries _ _
    · exact ((h.setClient _ _).sendRetry _ _ _ _).resetRetries _ _
    · exact (h.setClient _ _).onDecryptFailure _ _ _ _ _ _ _
  · exact h.resetRetries _ _

theorem QKeys.handleEnc {s : Sys} (h : QKeys s) (r : Acct) (st : Stanza) : QKeys (handleEnc s r st) := by
  cases st with
  | msg id peer part im encs pl =>
    rw [handleEnc_eq]
    generalize heFirst encs = first
    cases first with
    | none => exact h.stage2 _ _ _ _ _ _ _
    | some ct =>
      simp only [heMain]
      split
      · exact (((h.setClient _ _).storeSkdm _ _ _).surface _ _ _ _ _).stage2 _ _ _ _ _ _ _
      · exact (h.setClient _ _).onDecryptFailure _ _ _ _ _ _ _
  | _ => exact h

theorem QKeys.foldl_handleEnc (r : Acct) (l : List Stanza) : ∀ s : Sys, QKeys s → QKeys (l.foldl (fun acc st => Yow.E2E.handleEnc acc r st) s) := by
  induction l with
  | nil => intro s h; exact h
  | cons st l ih => intro s h; exact ih _ (h.handleEnc r st)

theorem QKeys.processPending {s : Sys} (h : QKeys s) (r : Acct) (peer : Dest) (part : Option Acct) :
    QKeys (processPending s r peer part) := by
  unfold Yow.E2E.processPending
  dsimp only
  exact (QKeys.foldl_handleEnc r _ s h).setClient _ _

theorem QKeys.processKeys {s : Sys} (h : QKeys s) (r : Acct) (asked got : List Acct) : QKeys (processKeys s r asked got).1 := by
  unfold Yow.E2E.processKeys
  suffices H : ∀ (l : List Acct) (acc : Sys × List Acct), QKeys acc.1 →
      QKeys (l.foldl (fun (acc : Sys × List Acct) j =>
        if got.contains j then
          (Yow.E2E.setClient { acc.1 with nextSess := acc.1.nextSess + 1 } r (createSession (getClient acc.1 r) j acc.1.nextSess), acc.2 ++ [j])
        else (Yow.E2E.setClient acc.1 r { getClient acc.1 r with skipEnc := (getClient acc.1 r).skipEnc ++ [.user j] }, acc.2)) acc).1 from
    H asked (s, []) h
  intro l
  induction l with
  | nil => intro acc h; exact h
  | cons j l ih =>
    intro acc hacc
    rw [List.foldl_cons]
    apply ih
    split
    · exact (hacc.of_eq (s' := { acc.1 with nextSess := acc.1.nextSess + 1 }) rfl rfl).setClient _ _
    · exact hacc.setClient _ _

theorem QKeys.onIqResult {s : Sys} (h : QKeys s) (r : Acct) (iq : Nat) (got ms : List Acct) : QKeys (onIqResult s r iq got ms) := by
  unfold Yow.E2E.onIqResult
  dsimp only
  split
  · exact h
  · next k hk =>
    have h0 := h.setClient r { getClient s r with iqReg := erase (getClient s r).iqReg iq }
    generalize Yow.E2E.setClient s r { getClient s r with iqReg := erase (getClient s r).iqReg iq } = s0 at h0
    cases k with
    | keysForSend n =>
      dsimp only
      split
      · next b hb =>
        have := h0.processKeys r [b] got
        split
        · exact this.sendToContact _ _ _ _
        · exact this
      · exact h0
    | keysForRetry n who count =>
      dsimp only
      have := h0.processKeys r [who] got
      split
      · exact this.processPlaintext _ _ _ _
      · exact this
    | keysForPending peer part =>
      show QKeys (if (Yow.E2E.processKeys s0 r [whoOf peer part] got).2.isEmpty = true
        then (Yow.E2E.processKeys s0 r [whoOf peer part] got).1
        else Yow.E2E.processPending (Yow.E2E.processKeys s0 r [whoOf peer part] got).1 r peer part)
      split
      · exact h0.processKeys r _ got
      · exact (h0.processKeys r _ got).processPending _ _ _
    | groupInfo n =>
      dsimp only
      split
      · exact h0.ensure _ _ _ _ _
      · exact h0
    | keysForGroup n all l =>
      dsimp only
      split
      · exact (h0.processKeys r l got).sgws _ _ _ _ _ _
      · exact h0

theorem QKeys.onReceipt {s : Sys} (h : QKeys s) (r : Acct) (id : Nat) (peer : Dest) (part : Option Acct) (t : RType) :
    QKeys (onReceipt s r id peer part t) := by
  unfold Yow.E2E.onReceipt
  dsimp only
  split
  · exact (h.setClient _ _).emit _ _
  · cases t with
    | delivery => exact ((h.setClient _ _).setClient _ _).emit _ _
    | retry count =>
      dsimp only
      exact ((h.setClient _ _).emit _ _).sendIq _ _ _ _

theorem QKeys.clientReceive {s : Sys} (h : QKeys s) (r : Acct) (st : Stanza) : QKeys (clientReceive s r st) := by
  cases st with
  | msg id peer part im encs pl =>
    simp only [Yow.E2E.clientReceive]
    split
    · exact h
    · exact h.handleEnc _ _
  | receipt id peer part t => exact h.onReceipt _ _ _ _ _
  | ack id cls => exact h
  | getKeys iq jids => exact h
  | getGroup iq g => exact h
  | keys iq got => exact h.onIqResult _ _ _ _
  | groupInfo iq g ms => exact h.onIqResult _ _ _ _

theorem QKeys.foldl_push (f : Acct → Stanza) (l : List Acct) : ∀ s : Sys, QKeys s → QKeys (l.foldl (fun acc m => Yow.E2E.push acc m (f m)) s) := by
  induction l with
  | nil => intro s h; exact h
  | cons m l ih => intro s h; exact ih _ (h.push m (f m))

theorem QKeys.serverProcess {s : Sys} (h : QKeys s) (a : Acct) (st : Stanza) : QKeys (serverProcess s a st) := by
  cases st with
  | msg id dest part im encs pl =>
    cases dest with
    | user b =>
      simp only [Yow.E2E.serverProcess]
      split
      · exact (h.push _ _).push _ _
      · exact h.push _ _
    | group g =>
      simp only [Yow.E2E.serverProcess]
      split
      · split
        · exact (h.push _ _).push _ _
        · exact h.push _ _
      · exact QKeys.foldl_push _ _ _ (h.push _ _)
  | receipt id peer part t =>
    cases peer with
    | user b =>
      simp only [Yow.E2E.serverProcess]
      split
      · exact (h.push _ _).push _ _
      · exact h.push _ _
    | group g =>
      simp only [Yow.E2E.serverProcess]
      split
      · split
        · exact (h.push _ _).push _ _
        · exact h.push _ _
      · exact h.push _ _
  | ack id cls => exact h
  | keys iq got => exact h
  | groupInfo iq g ms => exact h
  | getKeys iq jids => exact h.push _ _
  | getGroup iq g => exact h.push _ _

theorem QKeys.step {s : Sys} (h : QKeys s) (act : Act) : QKeys (step s act) := by
  cases act with
  | appSend a n => exact (h.of_eq (s' := { s with submitted := s.submitted ++ [(a, n)] }) rfl rfl).sendLayerSend _ _
  | process a =>
    simp only [Yow.E2E.step]
    split
    · exact h
    · exact (h.setIn _ _).serverProcess _ _
  | deliver a f =>
    simp only [Yow.E2E.step]
    split
    · exact h
    · split
      · refine QKeys.clientReceive ?_ _ _
        exact h.of_eq rfl rfl
      · refine QKeys.clientReceive ?_ _ _
        exact (h.setOut _ _).of_eq rfl rfl
      · exact (h.setOut _ _).clientReceive _ _
  | restart a => exact h.setClient _ _

theorem QKeys.run (acts : List Act) : ∀ s : Sys, QKeys s → QKeys (run s acts) := by
  induction acts with
  | nil => intro s h; exact h
  | cons act acts ih => intro s h; exact ih _ (h.step act)

theorem QKeys.init (accts : List Acct) (groups : List (Nat × List Acct)) : QKeys (initSys accts groups) :=
  ⟨List.nodup_nil, List.nodup_nil⟩

end Yow.E2E
