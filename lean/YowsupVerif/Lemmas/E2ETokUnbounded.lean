/-
  Exactly-once and token conservation in fault-free runs with ANY number of messages.  The send layer keeps only the last
  100 sent nodes for answering retry requests; in a fault-free run every ciphertext opens (the decryptability invariant
  of the runs with faults), so no retry request is ever made and the sent queue is never read.
-/
import YowsupVerif.Lemmas.E2ETokUFree
import YowsupVerif.Lemmas.E2ETokFaults
import YowsupVerif.Lemmas.E2ETokBool
namespace Yow.E2E

section
variable {accts : List Acct} {groups : List (Nat × List Acct)}

theorem TV.weaken {L : List (Acct × Node)} {V : View} (h : TV true accts groups L V) : TV false accts groups L V :=
  { h with
    rcons := fun a n hn r hr => by
      have h1 : receiptTokensV V a n.id r = shownC (V.cl r) n.id := by simpa [rcRel] using h.rcons a n hn r hr
      simp [rcRel, h1] }

/-- the invariant of fault-free runs of any length -/
structure UInv (accts : List Acct) (groups : List (Nat × List Acct)) (s : Sys) : Prop where
  tinv : TInv true accts groups s
  dv : DV groups (view s)
  gv : GV groups (view s)
  rf : RF s

theorem UInv.live {s : Sys} (h : UInv accts groups s) (z : Acct) (st : Stanza) (hst : st ∈ queueOf s.outbound z) :
    dead (getClient s z) st = false := by
  obtain ⟨hz, _, _⟩ := h.tinv.1.outb_ok z st hst
  exact live_of_unop h.tinv.2 hz (show st ∈ (view s).outb z from hst)

theorem UInv.view_flat {s : Sys} (h : UInv accts groups s) : view (flat s) = view s := by
  have := view_flat_eq (s' := s) (o2 := s.outbound) (f2 := s.faulted) (fun z => by
    unfold liveQ
    symm
    rw [List.filter_eq_self]
    intro st hst
    simp [h.live z st hst])
  exact this

theorem UInv.finv {s : Sys} (h : UInv accts groups s) : FInv accts groups s where
  ainv := h.tinv.1
  tv := by rw [h.view_flat]; exact h.tinv.2.weaken
  dv := h.dv
  gv := h.gv
  dead := fun y st hst hd => by rw [h.live y st hst] at hd; cases hd

theorem QAdd.popIn (s : Sys) (a : Acct) {st : Stanza} {rest : List Stanza} (hq : queueOf s.inbound a = st :: rest) :
    QAdd s { s with inbound := insert s.inbound a rest } := by
  constructor
  · intro b st' hst'
    have e : ({ s with inbound := insert s.inbound a rest } : Sys).inbound = insert s.inbound a rest := rfl
    rw [e, queueOf_insert] at hst'
    split at hst'
    · next e' => subst e'; rw [hq]; exact Or.inl (List.mem_cons_of_mem _ hst')
    · exact Or.inl hst'
  · intro b st' hst'; exact Or.inl hst'

theorem QAdd.popOut (s : Sys) (a : Acct) {st : Stanza} {rest : List Stanza} (hq : queueOf s.outbound a = st :: rest) :
    QAdd s { s with outbound := insert s.outbound a rest } := by
  constructor
  · intro b st' hst'; exact Or.inl hst'
  · intro b st' hst'
    have e : ({ s with outbound := insert s.outbound a rest } : Sys).outbound = insert s.outbound a rest := rfl
    rw [e, queueOf_insert] at hst'
    split at hst'
    · next e' => subst e'; rw [hq]; exact Or.inl (List.mem_cons_of_mem _ hst')
    · exact Or.inl hst'

theorem QAdd.of_rstep {s s' : Sys} {r : Acct} {c' : Client} {out : List Stanza} (hr : RStep s s' r c' out)
    (hout : ∀ st ∈ out, isRetry st = false) : QAdd s s' := by
  unfold RStep at hr
  constructor
  · intro z st hst
    have e : (view s').inb z = upd (fun a => queueOf s.inbound a) r (queueOf s.inbound r ++ out) z := by rw [hr]; rfl
    have hst' : st ∈ (view s').inb z := hst
    rw [e, upd_apply] at hst'
    split at hst'
    · next e' =>
      subst e'
      rcases List.mem_append.mp hst' with h1 | h1
      · exact Or.inl h1
      · exact Or.inr (hout st h1)
    · exact Or.inl hst'
  · intro z st hst
    have e : (view s').outb z = queueOf s.outbound z := by rw [hr]; rfl
    have hst' : st ∈ (view s').outb z := hst
    rw [e] at hst'
    exact Or.inl hst'

/-- every allowed fault-free step keeps the invariant -/
theorem uinv_step (hw : WFConfig accts groups) (hnd : ∀ g ∈ groups, g.2.Nodup) {s : Sys} {act : Act}
    (h : UInv accts groups s) (hall : Allowed s act = true) (hnf : ∀ y f, act = .deliver y f → f = .none) :
    UInv accts groups (step s act) := by
  have hF := h.finv
  cases act with
  | appSend a n =>
    obtain ⟨c1, c2, _⟩ := appSend_crypto hF hall
    refine ⟨appSend_TInv' hw h.tinv hall, c1, c2, ?_⟩
    refine h.rf.of_qadd ?_
    show QAdd s (sendLayerSend { s with submitted := s.submitted ++ [(a, n)] } a n)
    exact (show SameQ s { s with submitted := s.submitted ++ [(a, n)] } from ⟨rfl, rfl⟩).qadd (QAdd.sendLayerSend _ _ _)
  | process a =>
    have hne : ∃ st rest, queueOf s.inbound a = st :: rest := by
      simp only [Allowed] at hall
      cases hq : queueOf s.inbound a with
      | nil => rw [hq] at hall; cases hall
      | cons st rest => exact ⟨st, rest, rfl⟩
    obtain ⟨st, rest, hq⟩ := hne
    have e1 : step s (.process a) = serverProcess { s with inbound := insert s.inbound a rest } a st := by simp only [step, hq]
    obtain ⟨c1, c2⟩ := process_crypto hnd hF.ainv (hF.ups a) h.dv h.gv hq
    rw [← e1] at c1 c2
    refine ⟨process_TInv hw hnd h.tinv hall, c1, c2, ?_⟩
    rw [e1]
    have hst : isRetry st = false := h.rf a st (Or.inl (by rw [hq]; simp))
    exact h.rf.of_qadd ((QAdd.popIn s a hq).trans (QAdd.serverProcess _ a hst))
  | restart a =>
    have hall0 := hall
    simp only [Allowed, Bool.and_eq_true] at hall
    obtain ⟨⟨hreg, _⟩, _⟩ := hall
    have ha : a ∈ accts := (hF.ainv.reg a).mp hreg
    have hacc : a ∈ (view s).accounts := by
      have : (view s).accounts = accts := h.tinv.2.acc
      rw [this]; exact ha
    have hv : view (step s (.restart a)) = ((view s).popOut a ((view s).outb a)).cstep a
        { getClient s a with sentQueue := [], pendingIn := [], iqReg := [], retries := [], skipEnc := [] } [] (view s).nextCtr := by
      simp only [step]
      rw [view_setClient _ _ _ hacc, View.popOut_self]
    have hn : Neutral (getClient s a)
        { getClient s a with sentQueue := [], pendingIn := [], iqReg := [], retries := [], skipEnc := [] } [] :=
      ⟨rfl, rfl, rfl, (h.dv.p0 a).1.symm, rfl, rfl, rfl, (fun e he => by cases he), (fun st hst => by cases hst)⟩
    obtain ⟨c1, c2, _⟩ := neutral_step (cons := []) (rest := queueOf s.outbound a) hF rfl (fun st hst => by cases hst) hv hn
      (fun p hp => hp)
    refine ⟨restart_TInv hw h.tinv hall0, c1, c2, ?_⟩
    exact h.rf.of_qadd (QAdd.of_same ⟨rfl, rfl⟩)
  | deliver y f =>
    have hf := hnf y f rfl
    subst hf
    cases hq : queueOf s.outbound y with
    | nil => simp only [Allowed, hq] at hall; cases hall
    | cons st rest =>
      have hmem : st ∈ queueOf s.outbound y := by rw [hq]; simp
      have hst : isRetry st = false := h.rf y st (Or.inr hmem)
      have hT' : TInv true accts groups (step s (.deliver y .none)) := by
        refine deliver_TInv' hw h.tinv hall (Or.inr ?_)
        intro st' hst' id peer part cnt e
        have := h.rf y st' (Or.inr hst')
        rw [e] at this
        cases this
      have e0 : step s (.deliver y .none) = clientReceive { s with outbound := insert s.outbound y rest } y st := by
        simp only [step, hq]
      have hpop := QAdd.popOut s y hq
      obtain ⟨hy, _, _⟩ := hF.ainv.outb_ok y st hmem
      have hacc : y ∈ (view { s with outbound := insert s.outbound y rest }).accounts := by
        show y ∈ (view s).accounts
        have : (view s).accounts = accts := h.tinv.2.acc
        rw [this]; exact hy
      by_cases hm : ∃ id peer part im encs pl, st = .msg id peer part im encs pl
      · obtain ⟨id, peer, part, im, encs, pl, rfl⟩ := hm
        have hlive := h.live y _ hmem
        have hdd := hF.dv.down y _ hmem
        have hne := hdd.1.nonempty
        have e1 : step s (.deliver y .none) = handleEnc { s with outbound := insert s.outbound y rest } y (.msg id peer part im encs pl) := by
          simp only [step, hq, clientReceive, hne, Bool.false_eq_true, if_false]
        have hr := rstep_handleEnc hacc id peer part im encs pl
        have hv := view_of_rstep hr
        have hgc : getClient { s with outbound := insert s.outbound y rest } y = getClient s y := rfl
        rw [hgc, ← e1] at hv
        obtain ⟨m1, m2, _⟩ := msg_crypto hF hq hlive (Or.inl rfl) false
        obtain ⟨_, _, o3⟩ := msg_opened hF hq hlive
        refine ⟨hT', by rw [hv]; exact m1, by rw [hv]; exact m2, ?_⟩
        rw [e1]
        refine h.rf.of_qadd (hpop.trans (QAdd.of_rstep hr ?_))
        intro st' hst'
        rw [hgc, o3, List.mem_singleton] at hst'
        subst hst'
        rfl
      · have hnm : ∀ id peer part im encs pl, st ≠ .msg id peer part im encs pl :=
          fun id peer part im encs pl e => hm ⟨id, peer, part, im, encs, pl, e⟩
        obtain ⟨c1, c2, _⟩ := deliver_other_crypto hF hq hnm
        rw [← e0] at c1 c2
        refine ⟨hT', c1, c2, ?_⟩
        rw [e0]
        refine h.rf.of_qadd (hpop.trans ?_)
        cases st with
        | msg id peer part im encs pl => exact absurd rfl (hnm id peer part im encs pl)
        | receipt id peer part t =>
          cases t with
          | delivery => exact QAdd.onReceipt_delivery _ _ _ _ _
          | retry c => cases hst
        | ack id k => exact QAdd.rfl' _
        | getKeys iq j => exact QAdd.rfl' _
        | getGroup iq g => exact QAdd.rfl' _
        | keys iq got =>
          refine QAdd.onIqResult _ y iq got [] ?_
          intro k hk p q e
          exact (h.dv.p0 y).2 (iq, k) (lookup_mem hk) p q e
        | groupInfo iq g ms =>
          refine QAdd.onIqResult _ y iq [] ms ?_
          intro k hk p q e
          exact (h.dv.p0 y).2 (iq, k) (lookup_mem hk) p q e

theorem init_UInv (hw : WFConfig accts groups) : UInv accts groups (initSys accts groups) := by
  have hF := init_FInv hw
  refine ⟨init_TInv hw, hF.dv, hF.gv, ?_⟩
  intro a st hst
  have h1 : queueOf (initSys accts groups).inbound a = [] := rfl
  have h2 : queueOf (initSys accts groups).outbound a = [] := rfl
  rw [h1, h2] at hst
  rcases hst with h | h <;> cases h

theorem UInv_run (hw : WFConfig accts groups) (hnd : ∀ g ∈ groups, g.2.Nodup) (acts : List Act) : ∀ s : Sys,
    UInv accts groups s → AllowedRun s acts = true → NoFault acts = true → UInv accts groups (run s acts) := by
  induction acts with
  | nil => intro s h _ _; exact h
  | cons act acts ih =>
    intro s h ha hf
    simp only [AllowedRun, Bool.and_eq_true] at ha
    have hnf : ∀ y f, act = .deliver y f → f = .none := by
      intro y f e
      subst e
      cases f with
      | none => rfl
      | dup => simp [NoFault] at hf
      | corrupt => simp [NoFault] at hf
    have hf' : NoFault acts = true := by
      cases act with
      | deliver y f =>
        have := hnf y f rfl
        subst this
        simpa [NoFault] using hf
      | _ => simpa [NoFault] using hf
    exact ih _ (uinv_step hw hnd h ha.1 hnf) ha.2 hf'

end

/-- token conservation in fault-free runs of any length -/
theorem conserved_fault_free_unbounded (accts : List Acct) (groups : List (Nat × List Acct)) (hw : WFConfig accts groups)
    (hnd : ∀ g ∈ groups, g.2.Nodup) (acts : List Act) (ha : AllowedRun (initSys accts groups) acts = true) (hf : NoFault acts = true) :
    conserved (run (initSys accts groups) acts) = true :=
  tinv_conserved (UInv_run hw hnd acts _ (init_UInv hw) ha hf).tinv

/-- exactly-once delivery with exactly one receipt in fault-free runs of any length -/
theorem exactly_once_fault_free_unbounded (accts : List Acct) (groups : List (Nat × List Acct)) (hw : WFConfig accts groups)
    (hnd : ∀ g ∈ groups, g.2.Nodup) (acts : List Act) (ha : AllowedRun (initSys accts groups) acts = true) (hf : NoFault acts = true) :
    let s := run (initSys accts groups) acts
    quiescent s = true →
      ∀ a n, (a, n) ∈ s.submitted → ∀ r, r ∈ intended s a n →
        shownCount s r n.id = 1 ∧
        ((getClient s a).receipts.filter (fun e =>
          e.1 == n.id && e.2.2.2 == RType.delivery && (e.2.2.1 == some r || (e.2.2.1.isNone && e.2.1 == Dest.user r)))).length = 1 := by
  intro s hq a n hsub r hr
  have hU : UInv accts groups s := UInv_run hw hnd acts _ (init_UInv hw) ha hf
  have hT := hU.tinv.2
  unfold quiescent at hq
  rw [Bool.and_eq_true] at hq
  have hin : ∀ z, (view s).inb z = [] := fun z => queueOf_nil_of_all hq.1 z
  have hout : ∀ z, (view s).outb z = [] := fun z => queueOf_nil_of_all hq.2 z
  have hgr : s.groups = groups := hU.tinv.1.grp
  have hr' : r ∈ intendedG groups a n := by rw [← hgr]; exact hr
  have hiq : ∀ z, (getClient s z).iqReg = [] := by
    intro z
    cases hl : (getClient s z).iqReg with
    | nil => rfl
    | cons e l =>
      obtain ⟨st, hst, _⟩ := (hT.ans z).1 e (by rw [view_cl, hl]; simp)
      rw [hin, hout] at hst
      cases hst
  have hpend : ∀ z, (getClient s z).pendingIn = [] := fun z => (hU.dv.p0 z).1
  have hcons := hT.cons a n hsub r hr'
  have hrc := hT.rcons a n hsub r hr'
  unfold tokensV at hcons
  unfold receiptTokensV at hrc
  simp only [hin, hout, view_cl, hiq, hpend, contS, pendS, sumMap_nil'] at hcons hrc
  have hsh : shownCount s r n.id = 1 := by
    rw [shownCount_eq]
    show shownC (getClient s r) n.id = 1
    omega
  refine ⟨hsh, ?_⟩
  have h1 : rcptGot (getClient s a) n.id r = shownC (getClient s r) n.id := by
    simpa [rcRel] using hrc
  have h2 : shownC (getClient s r) n.id = 1 := hsh
  show rcptGot (getClient s a) n.id r = 1
  omega

end Yow.E2E
