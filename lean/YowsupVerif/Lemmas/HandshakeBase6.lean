/-
  Base lemmas for Lemmas/Handshake.lean: the invariant is preserved by the handshake workers' actions, hence by every
  allowed action.
-/
import YowsupVerif.Lemmas.HandshakeBase5
namespace Yow.HS
open Obs

/-- worker `i` moves to `pc'`, nothing observable changes -/
theorem Inv_setW_same (s s' : St) (i : Nat) (w : Worker) (pc' : WPc) (h : Inv s) (hi : s.workers[i]? = some w)
    (hP : s'.protos.length = s.protos.length) (hQl : s'.queues.length = s.queues.length) (hQK : QK s'.queues)
    (hcp : s'.curP = s.curP) (hcq : s'.curQ = s.curQ) (hconn : s'.conn = s.conn) (hlive : s'.live = s.live)
    (hw : s'.workers = s.workers.set i { w with pc := pc' })
    (ho : obs s' = obs s)
    (hphi : s.live = true → i + 1 = s.conn → Phase (obs s) w.pc → Phase (obs s) pc')
    (hkeep : (w.pc = .wantFlush ∨ w.pc = .inFlush) → (pc' = .wantFlush ∨ pc' = .inFlush)) : Inv s' := by
  refine Inv_of_setW s s' i w pc' h hi hP hQl hQK hcp hcq hconn hlive hw ?_ ?_ ?_ ?_
  · intro _ _ pc _ _ hp; rw [ho]; exact hp
  · intro hl hc hp; rw [ho]; exact hphi hl hc hp
  · rw [ho]; exact h.env
  · refine Pend_setW s s' i w pc' h.pend hi hw ?_ hkeep ?_ ?_
    · exact congrArg Obs.npc ho
    · exact congrArg Obs.Q ho
    · exact congrArg Obs.ps ho

theorem Inv.is_cur {s : St} (h : Inv s) {i : Nat} {w : Worker} (hi : s.workers[i]? = some w) (hp : w.p = s.curP) :
    s.live = true ∧ i + 1 = s.conn := by
  by_cases hc : s.live = true ∧ i + 1 = s.conn
  · exact hc
  · have := (h.st.stale i w hi hc).1; omega

theorem Inv_worker_reading (cfg : Cfg) (s : St) (i : Nat) (w : Worker) (h : Inv s) (hi : s.workers[i]? = some w)
    (hpc : w.pc = .reading) : Inv (step cfg s (.worker i)) := by
  cases hQ : qGetL s.queues w.q with
  | nil => rw [step_worker_read_block cfg s i w hi hpc hQ]; exact h
  | cons sg rest =>
    rw [step_worker_read cfg s i w sg rest hi hpc hQ]
    have hql := h.w_q_lt hi
    by_cases hc : s.live = true ∧ i + 1 = s.conn
    · obtain ⟨hp, hq⟩ := h.st.cur i w hi hc.1 hc.2
      have hph := h.ph i w hi hc.1 hc.2
      rw [hpc] at hph
      have hwc : w.conn = s.conn := by rw [h.st.wk i w hi]; exact hc.2
      rw [hq] at hQ
      have ho : obs { s with queues := qSetL s.queues w.q rest,
                             workers := s.workers.set i { w with pc := .finishing (sg.kind == .hello && sg.good && sg.conn == w.conn) } }
          = { obs s with Q := rest } := by
        rw [hq]; exact obs_queues_cur s rest
      refine Inv_of_setW s _ i w _ h hi rfl (qSetL_length _ _ _ h.st.qk hql) (QK_qSetL _ _ _ h.st.qk hql) rfl rfl rfl rfl rfl
        ?_ ?_ ?_ ?_
      · intro _ j _ hj hjc; omega
      · intro _ _ _
        rw [ho, hwc]; exact Phase_read (obs s) sg rest h.env hc.1 hph hQ
      · rw [ho]; exact Env_cur (obs s) _ _ rest h.env hc.1 h.env.netFlush
      · apply Pend_of_ps
        intro hx
        have : pstate s = .transport := hx
        rw [show pstate s = .handshake from hph.1] at this; cases this
    · have hq := (h.st.stale i w hi hc).2
      refine Inv_setW_same s _ i w _ h hi rfl (qSetL_length _ _ _ h.st.qk hql) (QK_qSetL _ _ _ h.st.qk hql) rfl rfl rfl rfl rfl
        ?_ ?_ ?_
      · exact obs_queues_other s w.q rest (by omega)
      · intro hl hcc; exact absurd ⟨hl, hcc⟩ hc
      · rw [hpc]; intro hx; simp at hx

theorem Inv_worker_finishing (cfg : Cfg) (s : St) (i : Nat) (w : Worker) (ok : Bool) (h : Inv s) (hi : s.workers[i]? = some w)
    (hpc : w.pc = .finishing ok) : Inv (step cfg s (.worker i)) := by
  by_cases hps : (pGet s w.p).state = .handshake
  · by_cases hp : w.p = s.curP
    · -- the live connection's worker
      have hc := h.is_cur hi hp
      have hph := h.ph i w hi hc.1 hc.2
      rw [hpc] at hph
      have hwc : w.conn = s.conn := by rw [h.st.wk i w hi]; exact hc.2
      cases ok with
      | true =>
        rw [step_worker_fin_ok cfg s i w hi hpc hps, if_pos hp]
        have ho : obs { s with protos := s.protos.set w.p { state := .transport, keyOf := some w.conn },
                               workers := s.workers.set i { w with pc := .wantFlush } }
            = { obs s with ps := .transport, key := some (obs s).conn } := by
          rw [hp, hwc]; exact obs_protos_cur s { state := .transport, keyOf := some s.conn } h.curP_lt
        refine Inv_of_setW s _ i w _ h hi (by simp) rfl h.st.qk rfl rfl rfl rfl rfl ?_ ?_ ?_ ?_
        · intro _ j _ hj hjc; omega
        · intro _ _ _
          rw [ho]; exact Post_finish_ok (obs s) h.env hc.1 hph
        · rw [ho]; exact Env_cur (obs s) .transport _ _ h.env hc.1 (fun _ => by simp)
        · have hil : i < s.workers.length := by
            rcases Nat.lt_or_ge i s.workers.length with hl | hl
            · exact hl
            · rw [List.getElem?_eq_none hl] at hi; cases hi
          exact Pend_of_worker _ i { w with pc := .wantFlush } (List.getElem?_set_self hil) (Or.inl rfl)
      | false =>
        rw [step_worker_fin_fail_cur cfg s i w hi hpc hps hp]
        obtain ⟨hb, hpost⟩ := Post_finish_fail (obs s) hph
        have ho : obs { s with protos := s.protos.set w.p { pGet s w.p with state := .error },
                               up := s.up ++ [.failure w.conn],
                               workers := s.workers.set i { w with pc := .done } }
            = { obs s with ps := .error, up := (obs s).up ++ [.failure (obs s).conn] } := by
          rw [hp, hwc]
          exact congrArg (fun o : Obs => { o with up := s.up ++ [Up.failure s.conn] })
            (obs_protos_cur s { pGet s s.curP with state := .error } h.curP_lt)
        refine Inv_of_setW s _ i w _ h hi (by simp) rfl h.st.qk rfl rfl rfl rfl rfl ?_ ?_ ?_ ?_
        · intro _ j _ hj hjc; omega
        · intro _ _ _
          rw [ho]; exact hpost
        · rw [ho]
          have he1 : Env ({ obs s with ps := .error, key := (obs s).key, Q := (obs s).Q } : Obs) :=
            Env_cur (obs s) .error _ _ h.env hc.1 (fun _ => by simp)
          exact Env_up_other _ (.failure (obs s).conn) he1 (fun _ => by simp) (fun hx => by cases hx)
        · apply Pend_of_ps
          have : (obs { s with protos := s.protos.set w.p { pGet s w.p with state := .error },
                               up := s.up ++ [.failure w.conn],
                               workers := s.workers.set i { w with pc := .done } }).ps = .error := by rw [ho]
          intro hx; rw [show pstate _ = Obs.ps (obs _) from rfl, this] at hx; cases hx
    · -- the worker of an abandoned attempt: its protocol object is not the current one
      have hnc : ¬(s.live = true ∧ i + 1 = s.conn) := fun hc => hp (h.st.cur i w hi hc.1 hc.2).1
      cases ok with
      | true =>
        rw [step_worker_fin_ok cfg s i w hi hpc hps, if_neg hp]
        refine Inv_setW_same s _ i w _ h hi (by simp) rfl h.st.qk rfl rfl rfl rfl rfl ?_ ?_ ?_
        · exact obs_protos_other s w.p _ hp
        · intro hl hcc; exact absurd ⟨hl, hcc⟩ hnc
        · rw [hpc]; intro hx; simp at hx
      | false =>
        rw [step_worker_fin_fail_stale cfg s i w hi hpc hps hp]
        refine Inv_setW_same s _ i w _ h hi (by simp) rfl h.st.qk rfl rfl rfl rfl rfl ?_ ?_ ?_
        · exact obs_protos_other s w.p _ hp
        · intro hl hcc; exact absurd ⟨hl, hcc⟩ hnc
        · rw [hpc]; intro hx; simp at hx
  · rw [step_worker_fin_refuse cfg s i w ok hi hpc hps]
    refine Inv_setW_same s _ i w _ h hi rfl rfl h.st.qk rfl rfl rfl rfl rfl rfl ?_ ?_
    · intro hl hcc hph
      rw [hpc] at hph
      have hp := (h.st.cur i w hi hl hcc).1
      rw [hp] at hps
      exact absurd hph.1 hps
    · rw [hpc]; intro hx; simp at hx

theorem Inv_worker_wantFlush (cfg : Cfg) (s : St) (i : Nat) (w : Worker) (h : Inv s) (hi : s.workers[i]? = some w)
    (hpc : w.pc = .wantFlush) : Inv (step cfg s (.worker i)) := by
  cases hf : s.flushHeld with
  | true => rw [step_worker_want_held cfg s i w hi hpc hf]; exact h
  | false =>
    rw [step_worker_want_free cfg s i w hi hpc hf]
    refine Inv_setW_same s _ i w _ h hi rfl rfl h.st.qk rfl rfl rfl rfl rfl rfl ?_ ?_
    · intro _ _ hph; rw [hpc] at hph; exact hph
    · intro _; exact Or.inr rfl

theorem Inv_worker_inFlush (cfg : Cfg) (s : St) (i : Nat) (w : Worker) (h : Inv s) (hi : s.workers[i]? = some w)
    (hpc : w.pc = .inFlush) : Inv (step cfg s (.worker i)) := by
  have hdone : ∀ o : Obs, Phase o w.pc → Phase o .done := by intro o hp; rw [hpc] at hp; exact hp
  cases hQ : qGetL s.queues s.curQ with
  | nil =>
    rw [step_worker_flush_empty cfg s s i w hi hpc (flushOne_empty s hQ)]
    refine Inv_of_setW s _ i w _ h hi rfl rfl h.st.qk rfl rfl rfl rfl rfl ?_ ?_ h.env (Pend_of_empty _ hQ)
    · intro _ _ pc _ _ hp; exact hp
    · intro _ _ hp; exact hdone _ hp
  | cons sg rest =>
    by_cases hpt : pstate s = .transport
    · cases hc : (sg.kind == .frame && sg.good && keyOf s == some sg.conn) with
      | true =>
        rw [step_worker_flush_delivered cfg s _ i w hi hpc (flushOne_delivered s sg rest hQ hpt hc)]
        exact Inv_deliver s h sg rest hQ hpt (Or.inr ⟨i, w, hi, Or.inr hpc⟩)
      | false =>
        rw [step_worker_flush_undec cfg s _ i w hi hpc (flushOne_undec s sg rest hQ hpt hc)]
        have hl : s.live = true := live_of_ps (obs s) h.env (by show pstate s ≠ .init; rw [hpt]; simp)
        have hb := bad_of_undecryptable (obs s) sg rest hQ hpt (h.post_of_transport hpt) hc
        have ho := obs_undec s h rest
        have ho' : obs { ({ s with queues := qSetL s.queues s.curQ rest,
                                   protos := s.protos.set s.curP { pGet s s.curP with state := .error } } : St) with
                         flushHeld := false, up := s.up ++ [.raised],
                         workers := s.workers.set i { w with pc := .done } } =
            { ({ obs s with ps := .error, key := (obs s).key, Q := rest } : Obs) with up := (obs s).up ++ [.raised] } :=
          congrArg (fun o : Obs => { o with up := s.up ++ [Up.raised] }) ho
        have he1 : Env ({ obs s with ps := .error, key := (obs s).key, Q := rest } : Obs) :=
          Env_cur (obs s) .error _ rest h.env hl (fun _ => by simp)
        have he3 := Env_up_other _ .raised he1 (fun _ => by simp) (fun _ => hb)
        have hph : ∀ pc, Phase (obs s) pc →
            Phase ({ ({ obs s with ps := .error, key := (obs s).key, Q := rest } : Obs) with up := (obs s).up ++ [.raised] }) pc :=
          fun pc hp => Phase_up_other _ .raised (fun _ => by simp) pc (Phase_error (obs s) rest hpt hb pc hp)
        refine Inv_of_setW s _ i w _ h hi (by simp) (qSetL_length _ _ _ h.st.qk h.curQ_lt) (QK_qSetL _ _ _ h.st.qk h.curQ_lt)
          rfl rfl rfl rfl rfl ?_ ?_ ?_ ?_
        · intro _ _ pc _ _ hp; rw [ho']; exact hph pc hp
        · intro _ _ hp; rw [ho']; exact hph _ (hdone _ hp)
        · rw [ho']; exact he3
        · apply Pend_of_ps
          have : (obs { ({ s with queues := qSetL s.queues s.curQ rest,
                                   protos := s.protos.set s.curP { pGet s s.curP with state := .error } } : St) with
                         flushHeld := false, up := s.up ++ [.raised],
                         workers := s.workers.set i { w with pc := .done } }).ps = .error := by rw [ho']
          intro hx; rw [show pstate _ = Obs.ps (obs _) from rfl, this] at hx; cases hx
    · rw [step_worker_flush_refused cfg s s i w hi hpc (flushOne_refused s sg rest hQ hpt)]
      refine Inv_of_setW s _ i w _ h hi rfl rfl h.st.qk rfl rfl rfl rfl rfl ?_ ?_ h.env (Pend_of_ps _ hpt)
      · intro _ _ pc _ _ hp; exact hp
      · intro _ _ hp; exact hdone _ hp

theorem Inv_worker (cfg : Cfg) (s : St) (i : Nat) (h : Inv s) : Inv (step cfg s (.worker i)) := by
  cases hi : s.workers[i]? with
  | none => rw [step_worker_none cfg s i hi]; exact h
  | some w =>
    cases hpc : w.pc with
    | reading => exact Inv_worker_reading cfg s i w h hi hpc
    | finishing ok => exact Inv_worker_finishing cfg s i w ok h hi hpc
    | wantFlush => exact Inv_worker_wantFlush cfg s i w h hi hpc
    | inFlush => exact Inv_worker_inFlush cfg s i w h hi hpc
    | done => rw [step_worker_done cfg s i w hi hpc]; exact h

theorem Inv_net (cfg : Cfg) (s : St) (h : Inv s) : Inv (step cfg s .net) := by
  cases hn : s.npc with
  | idle => rw [step_net_idle cfg s hn]; exact h
  | check =>
    by_cases hp : pstate s = .handshake
    · rw [step_net_check_hs cfg s hn hp]; exact Inv_net_check_hs s h hp
    · rw [step_net_check_other cfg s hn hp]; exact Inv_net_check_other s h hn hp
  | wantFlush =>
    cases hf : s.flushHeld with
    | true => rw [step_net_want_held cfg s hn hf]; exact h
    | false => rw [step_net_want_free cfg s hn hf]; exact Inv_net_want_free s h hn
  | inFlush => exact Inv_net_flush cfg s h hn

def goodCfg' : Cfg := { freshQueue := true, freshProtocol := true, segReset := true }

theorem Inv_step (s : St) (a : Act) (h : Inv s) (ha : Allowed s a = true) : Inv (step goodCfg' s a) := by
  cases a with
  | connect => exact Inv_connect _ s h ha
  | arrive sg => exact Inv_arrive _ s sg h ha
  | net => exact Inv_net _ s h
  | disconnect => exact Inv_disconnect s h ha
  | worker i => exact Inv_worker _ s i h

theorem Inv_init : Inv {} := by
  refine ⟨⟨rfl, rfl, ?_, rfl, ?_, ?_, ?_⟩, ?_, ?_, ?_⟩
  · intro q
    cases q with
    | zero => rfl
    | succ n => simp
  · intro i w hi; simp at hi
  · intro i w hi; simp at hi
  · intro i w hi; simp at hi
  · exact { hello0 := fun hl => (by cases hl), hello1 := fun hl => (by cases hl), notLive := fun _ => ⟨Or.inl rfl, rfl, rfl⟩,
            netFlush := fun hx => (by rcases hx with hx | hx <;> cases hx), pfx := List.nil_prefix, nr := fun _ => rfl,
            upb := fun sg hx => (by cases hx), arb := fun sg hx => (by cases hx), lc := fun hl => (by cases hl) }
  · intro i w hi; simp at hi
  · exact Pend_of_empty _ rfl

theorem Inv_run (acts : List Act) (s : St) (h : Inv s) (ha : AllowedRun goodCfg' s acts = true) : Inv (run goodCfg' s acts) := by
  induction acts generalizing s with
  | nil => exact h
  | cons a as ih =>
    simp only [AllowedRun, Bool.and_eq_true] at ha
    exact ih _ (Inv_step s a h ha.1) ha.2

end Yow.HS
