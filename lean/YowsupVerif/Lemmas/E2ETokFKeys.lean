/-
  Exactly-once with server faults, part 8: sender keys arrive before they are needed.  For a sender `a` with an own key
  for group `g` and a member `y`: `y` has `a`'s key, or its distribution travels ahead of every stanza that needs it
  (queues are FIFO).
-/
import YowsupVerif.Lemmas.E2ETokFDec
namespace Yow.E2E

def isSk (e : Option Acct × Ct) : Bool := e.2.kind == .skmsg

/-- a stanza queued for a member that carries `a`'s sender key for `g` along with the message -/
def isDistDown (a : Acct) (g : Nat) : Stanza → Bool
  | .msg _ (.group g') (some a') _ encs _ => g' == g && a' == a && encs.any (fun e => !isSk e) && encs.any isSk
  | _ => false
/-- a stanza queued for a member that can only be opened with `a`'s sender key for `g` -/
def needsDown (a : Acct) (g : Nat) : Stanza → Bool
  | .msg _ (.group g') (some a') _ encs _ => g' == g && a' == a && encs.all isSk && encs.any isSk
  | _ => false
def isDistUp (g : Nat) (y : Acct) : Stanza → Bool
  | .msg _ (.group g') none _ encs _ => g' == g && encs.any (fun e => e.1 == some y)
  | _ => false
def needsUp (g : Nat) (y : Acct) : Stanza → Bool
  | .msg _ (.group g') none _ encs _ => g' == g && encs.all (fun e => e.1 != some y)
  | _ => false

def cls (d n : Stanza → Bool) (st : Stanza) : Option Bool := if d st then some true else if n st then some false else none

/-- the first stanza of the queue that matters: a distribution (`true`) or one that needs the key (`false`) -/
def scan (d n : Stanza → Bool) : List Stanza → Option Bool
  | [] => none
  | st :: l => match cls d n st with
    | some b => some b
    | none => scan d n l

theorem scan_append (d n : Stanza → Bool) (l m : List Stanza) :
    scan d n (l ++ m) = match scan d n l with | some b => some b | none => scan d n m := by
  induction l with
  | nil => rfl
  | cons st l ih =>
    simp only [List.cons_append, scan]
    cases cls d n st with
    | some b => rfl
    | none => exact ih

theorem scan_plain {d n : Stanza → Bool} {l : List Stanza} (h : ∀ st ∈ l, cls d n st = none) : scan d n l = none := by
  induction l with
  | nil => rfl
  | cons st l ih =>
    simp only [scan, h st (by simp)]
    exact ih (fun st' hst' => h st' (List.mem_cons_of_mem _ hst'))

theorem scan_singleton (d n : Stanza → Bool) (st : Stanza) : scan d n [st] = cls d n st := by
  simp only [scan]
  cases cls d n st <;> rfl

/-- `y` has, or will have in time, the sender key of `a` for `g` -/
def avail (V : View) (a : Acct) (g : Nat) (y : Acct) : Prop :=
  (lookup (V.cl y).peerSK (g, a)).isSome = true ∨
  (match scan (isDistDown a g) (needsDown a g) (V.outb y) with
   | some b => b = true
   | none => scan (isDistUp g y) (needsUp g y) (V.inb a) = some true)

def GV (groups : List (Nat × List Acct)) (V : View) : Prop :=
  ∀ a g, (lookup (V.cl a).ownSK g).isSome = true → ∀ y, y ∈ (lookup groups g).getD [] → y ≠ a → avail V a g y

/-- a stanza that is neither a distribution nor needs a key, for anybody -/
def PlainDown (st : Stanza) : Prop := ∀ a g, cls (isDistDown a g) (needsDown a g) st = none
def PlainUpK (st : Stanza) : Prop := ∀ g y, cls (isDistUp g y) (needsUp g y) st = none

theorem PlainDown.of_not_group {st : Stanza} (h : ∀ id g a im encs pl, st ≠ .msg id (.group g) (some a) im encs pl) : PlainDown st := by
  intro a g
  unfold cls isDistDown needsDown
  cases st with
  | msg id peer part im encs pl =>
    cases peer with
    | user b => rfl
    | group g' =>
      cases part with
      | none => rfl
      | some a' => exact absurd rfl (h id g' a' im encs pl)
  | _ => rfl

theorem PlainUpK.of_not_group {st : Stanza} (h : ∀ id g im encs pl, st ≠ .msg id (.group g) none im encs pl) : PlainUpK st := by
  intro g y
  unfold cls isDistUp needsUp
  cases st with
  | msg id peer part im encs pl =>
    cases peer with
    | user b => rfl
    | group g' =>
      cases part with
      | some a' => rfl
      | none => exact absurd rfl (h id g' im encs pl)
  | _ => rfl

section
variable {groups : List (Nat × List Acct)} {V : View} {x : Acct}

/-- a client step that emits and consumes nothing that matters for sender keys -/
theorem GV.client_plain {cons rest : List Stanza} {c' : Client} {out : List Stanza} {k : Nat}
    (h : GV groups V) (hq : V.outb x = cons ++ rest) (hcons : ∀ st ∈ cons, PlainDown st) (hout : ∀ st ∈ out, PlainUpK st)
    (hpk : ∀ key, (lookup (V.cl x).peerSK key).isSome = true → (lookup c'.peerSK key).isSome = true)
    (hown : ∀ g, (lookup c'.ownSK g).isSome = true → (lookup (V.cl x).ownSK g).isSome = true) :
    GV groups ((V.popOut x rest).cstep x c' out k) := by
  intro a g hown' y hy hya
  have hclx : ((V.popOut x rest).cstep x c' out k).cl x = c' := by simp [View.cstep]
  have hcl : ∀ r, r ≠ x → ((V.popOut x rest).cstep x c' out k).cl r = V.cl r := by
    intro r hr; simp [View.cstep, View.popOut, upd_ne _ _ hr]
  have hown0 : (lookup (V.cl a).ownSK g).isSome = true := by
    by_cases ha : a = x
    · subst ha; rw [hclx] at hown'; exact hown g hown'
    · rw [hcl a ha] at hown'; exact hown'
  have h0 := h a g hown0 y hy hya
  have hdown : scan (isDistDown a g) (needsDown a g) (((V.popOut x rest).cstep x c' out k).outb y)
      = scan (isDistDown a g) (needsDown a g) (V.outb y) := by
    by_cases hyx : y = x
    · subst hyx
      have e : ((V.popOut y rest).cstep y c' out k).outb y = rest := by simp [View.cstep, View.popOut]
      rw [e, hq, scan_append, scan_plain (fun st hst => hcons st hst a g)]
    · have e : ((V.popOut x rest).cstep x c' out k).outb y = V.outb y := by simp [View.cstep, View.popOut, upd_ne _ _ hyx]
      rw [e]
  have hup : scan (isDistUp g y) (needsUp g y) (((V.popOut x rest).cstep x c' out k).inb a)
      = scan (isDistUp g y) (needsUp g y) (V.inb a) := by
    by_cases hax : a = x
    · subst hax
      have e : ((V.popOut a rest).cstep a c' out k).inb a = V.inb a ++ out := by simp [View.cstep, View.popOut]
      rw [e, scan_append, scan_plain (fun st hst => hout st hst g y)]
      cases scan (isDistUp g y) (needsUp g y) (V.inb a) <;> rfl
    · have e : ((V.popOut x rest).cstep x c' out k).inb a = V.inb a := by simp [View.cstep, View.popOut, upd_ne _ _ hax]
      rw [e]
  unfold avail at h0 ⊢
  rw [hdown, hup]
  rcases h0 with h1 | h1
  · left
    by_cases hyx : y = x
    · subst hyx; rw [hclx]; exact hpk _ h1
    · rw [hcl y hyx]; exact h1
  · exact Or.inr h1

/-- the first message to a group: the own key is made and distributed to every member with it -/
theorem GV.first_send {c' : Client} {st : Stanza} {k : Nat} {g0 : Nat}
    (h : GV groups V)
    (hpk : c'.peerSK = (V.cl x).peerSK)
    (hown : ∀ g, (lookup c'.ownSK g).isSome = true → (lookup (V.cl x).ownSK g).isSome = true ∨ g = g0)
    (hst : ∀ y, y ∈ (lookup groups g0).getD [] → y ≠ x → cls (isDistUp g0 y) (needsUp g0 y) st = some true)
    (hother : ∀ g y, g ≠ g0 → cls (isDistUp g y) (needsUp g y) st = none)
    (hnew : (lookup (V.cl x).ownSK g0).isSome = false)
    (hin : ∀ st' ∈ V.inb x, ∀ y, cls (isDistUp g0 y) (needsUp g0 y) st' = none)
    (hout : ∀ y, ∀ st' ∈ V.outb y, cls (isDistDown x g0) (needsDown x g0) st' = none) :
    GV groups (V.cstep x c' [st] k) := by
  intro a g hown' y hy hya
  have hclx : (V.cstep x c' [st] k).cl x = c' := by simp [View.cstep]
  have hcl : ∀ r, r ≠ x → (V.cstep x c' [st] k).cl r = V.cl r := by
    intro r hr; simp [View.cstep, upd_ne _ _ hr]
  have houtb : (V.cstep x c' [st] k).outb = V.outb := rfl
  unfold avail
  rw [houtb]
  by_cases ha : a = x
  · subst ha
    have hinb : (V.cstep a c' [st] k).inb a = V.inb a ++ [st] := by simp [View.cstep]
    rw [hinb, scan_append, scan_singleton]
    rw [hclx] at hown'
    by_cases hg : g = g0
    · subst hg
      right
      rw [scan_plain (hout y), scan_plain (fun st' hst' => hin st' hst' y), hst y hy hya]
    · rcases hown g hown' with h1 | h1
      · have h0 := h a g h1 y hy hya
        unfold avail at h0
        rcases h0 with h2 | h2
        · left
          by_cases hyx : y = a
          · exact absurd hyx hya
          · rw [hcl y hyx]; exact h2
        · right
          rw [hother g y hg]
          cases hs : scan (isDistDown a g) (needsDown a g) (V.outb y) with
          | some b => rw [hs] at h2; exact h2
          | none =>
            rw [hs] at h2
            simp only at h2 ⊢
            rw [h2]
      · exact absurd h1 hg
  · rw [hcl a ha] at hown'
    have h0 := h a g hown' y hy hya
    have hinb : (V.cstep x c' [st] k).inb a = V.inb a := by simp [View.cstep, upd_ne _ _ ha]
    rw [hinb]
    unfold avail at h0
    rcases h0 with h2 | h2
    · left
      by_cases hyx : y = x
      · subst hyx; rw [hclx, hpk]; exact h2
      · rw [hcl y hyx]; exact h2
    · exact Or.inr h2

end

end Yow.E2E

namespace Yow.E2E

section
variable {groups : List (Nat × List Acct)} {V : View} {x : Acct}

/-- a later message to a group: it needs the key at every member, and is queued behind everything else -/
theorem GV.later_send {cons rest : List Stanza} {c' : Client} {st : Stanza} {k : Nat}
    (h : GV groups V) (hq : V.outb x = cons ++ rest) (hcons : ∀ st' ∈ cons, PlainDown st')
    (hpk : ∀ key, (lookup (V.cl x).peerSK key).isSome = true → (lookup c'.peerSK key).isSome = true)
    (hown : ∀ g, (lookup c'.ownSK g).isSome = true → (lookup (V.cl x).ownSK g).isSome = true) :
    GV groups ((V.popOut x rest).cstep x c' [st] k) := by
  intro a g hown' y hy hya
  have hclx : ((V.popOut x rest).cstep x c' [st] k).cl x = c' := by simp [View.cstep]
  have hcl : ∀ r, r ≠ x → ((V.popOut x rest).cstep x c' [st] k).cl r = V.cl r := by
    intro r hr; simp [View.cstep, View.popOut, upd_ne _ _ hr]
  have hown0 : (lookup (V.cl a).ownSK g).isSome = true := by
    by_cases ha : a = x
    · subst ha; rw [hclx] at hown'; exact hown g hown'
    · rw [hcl a ha] at hown'; exact hown'
  have h0 := h a g hown0 y hy hya
  have hdown : scan (isDistDown a g) (needsDown a g) (((V.popOut x rest).cstep x c' [st] k).outb y)
      = scan (isDistDown a g) (needsDown a g) (V.outb y) := by
    by_cases hyx : y = x
    · subst hyx
      have e : ((V.popOut y rest).cstep y c' [st] k).outb y = rest := by simp [View.cstep, View.popOut]
      rw [e, hq, scan_append, scan_plain (fun st' hst' => hcons st' hst' a g)]
    · have e : ((V.popOut x rest).cstep x c' [st] k).outb y = V.outb y := by simp [View.cstep, View.popOut, upd_ne _ _ hyx]
      rw [e]
  unfold avail at h0 ⊢
  rw [hdown]
  rcases h0 with h1 | h1
  · left
    by_cases hyx : y = x
    · subst hyx; rw [hclx]; exact hpk _ h1
    · rw [hcl y hyx]; exact h1
  · right
    cases hs : scan (isDistDown a g) (needsDown a g) (V.outb y) with
    | some b => rw [hs] at h1; exact h1
    | none =>
      rw [hs] at h1
      simp only at h1 ⊢
      by_cases hax : a = x
      · subst hax
        have e : ((V.popOut a rest).cstep a c' [st] k).inb a = V.inb a ++ [st] := by simp [View.cstep, View.popOut]
        rw [e, scan_append, h1]
      · have e : ((V.popOut x rest).cstep x c' [st] k).inb a = V.inb a := by simp [View.cstep, View.popOut, upd_ne _ _ hax]
        rw [e]; exact h1

/-- a message stanza is delivered to `y` (and removed from its queue, or kept: `keep`) -/
theorem GV.deliver {y : Acct} {hd : Stanza} {rest : List Stanza} {c' : Client} {out : List Stanza} {k : Nat} (keep : Bool)
    (h : GV groups V) (hq : V.outb y = hd :: rest) (hout : ∀ st ∈ out, PlainUpK st)
    (hpk : ∀ key, (lookup (V.cl y).peerSK key).isSome = true → (lookup c'.peerSK key).isSome = true)
    (hown : ∀ g, (lookup c'.ownSK g).isSome = true → (lookup (V.cl y).ownSK g).isSome = true)
    (hdist : ∀ a g, isDistDown a g hd = true → (lookup c'.peerSK (g, a)).isSome = true) :
    GV groups ((V.popOut y (if keep then hd :: rest else rest)).cstep y c' out k) := by
  intro a g hown' z hz hza
  have hclx : ((V.popOut y (if keep then hd :: rest else rest)).cstep y c' out k).cl y = c' := by simp [View.cstep]
  have hcl : ∀ r, r ≠ y → ((V.popOut y (if keep then hd :: rest else rest)).cstep y c' out k).cl r = V.cl r := by
    intro r hr; simp [View.cstep, View.popOut, upd_ne _ _ hr]
  have hown0 : (lookup (V.cl a).ownSK g).isSome = true := by
    by_cases ha : a = y
    · subst ha; rw [hclx] at hown'; exact hown g hown'
    · rw [hcl a ha] at hown'; exact hown'
  have h0 := h a g hown0 z hz hza
  have hup : scan (isDistUp g z) (needsUp g z) (((V.popOut y (if keep then hd :: rest else rest)).cstep y c' out k).inb a)
      = scan (isDistUp g z) (needsUp g z) (V.inb a) := by
    by_cases hax : a = y
    · subst hax
      have e : ((V.popOut a (if keep then hd :: rest else rest)).cstep a c' out k).inb a = V.inb a ++ out := by
        simp [View.cstep, View.popOut]
      rw [e, scan_append, scan_plain (fun st hst => hout st hst g z)]
      cases scan (isDistUp g z) (needsUp g z) (V.inb a) <;> rfl
    · have e : ((V.popOut y (if keep then hd :: rest else rest)).cstep y c' out k).inb a = V.inb a := by
        simp [View.cstep, View.popOut, upd_ne _ _ hax]
      rw [e]
  unfold avail at h0 ⊢
  rw [hup]
  by_cases hzy : z = y
  · subst hzy
    rw [hclx]
    rcases h0 with h1 | h1
    · exact Or.inl (hpk _ h1)
    · have e : ((V.popOut z (if keep then hd :: rest else rest)).cstep z c' out k).outb z = (if keep then hd :: rest else rest) := by
        simp [View.cstep, View.popOut]
      rw [e]
      rw [hq] at h1
      cases keep with
      | true => exact Or.inr h1
      | false =>
        simp only [Bool.false_eq_true, if_false]
        simp only [scan] at h1
        cases hc : cls (isDistDown a g) (needsDown a g) hd with
        | none => rw [hc] at h1; exact Or.inr h1
        | some b =>
          rw [hc] at h1
          simp only at h1
          subst h1
          left
          apply hdist
          unfold cls at hc
          split at hc
          · next hd' => exact hd'
          · split at hc <;> cases hc
  · have e : ((V.popOut y (if keep then hd :: rest else rest)).cstep y c' out k).outb z = V.outb z := by
      simp [View.cstep, View.popOut, upd_ne _ _ hzy]
    rw [e, hcl z hzy]
    exact h0

/-- the server moves the head of `x`'s connection to the queues of its recipients -/
theorem GV.server {hd : Stanza} {rest : List Stanza} {add : Acct → List Stanza}
    (h : GV groups V) (hq : V.inb x = hd :: rest)
    (hadd : ∀ a g y, y ∈ (lookup groups g).getD [] → y ≠ a → scan (isDistDown a g) (needsDown a g) (add y) =
      if a = x then cls (isDistUp g y) (needsUp g y) hd else none) :
    GV groups ((V.popIn x rest).pushes add) := by
  intro a g hown y hy hya
  have h0 := h a g hown y hy hya
  unfold avail at h0 ⊢
  rcases h0 with h1 | h1
  · exact Or.inl h1
  · right
    have e1 : ((V.popIn x rest).pushes add).outb y = V.outb y ++ add y := rfl
    rw [e1, scan_append]
    cases hs : scan (isDistDown a g) (needsDown a g) (V.outb y) with
    | some b => rw [hs] at h1; exact h1
    | none =>
      rw [hs] at h1
      simp only at h1 ⊢
      rw [hadd a g y hy hya]
      by_cases hax : a = x
      · subst hax
        have e2 : ((V.popIn a rest).pushes add).inb a = rest := by simp [View.pushes, View.popIn]
        rw [e2, if_pos rfl]
        rw [hq] at h1
        simp only [scan] at h1
        cases hc : cls (isDistUp g y) (needsUp g y) hd with
        | some b => rw [hc] at h1; simp only at h1 ⊢; exact Option.some.inj h1
        | none => rw [hc] at h1; exact h1
      · have e2 : ((V.popIn x rest).pushes add).inb a = V.inb a := by simp [View.pushes, View.popIn, upd_ne _ _ hax]
        rw [e2, if_neg hax]
        exact h1

end

end Yow.E2E
