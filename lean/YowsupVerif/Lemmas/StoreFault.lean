/-
  Lemmas about statement failures in Model/Store.lean: an operation that is rolled back when one of its statements fails leaves the
  connection as after a reopen; statements that spare a record (everything but a DELETE of its key) keep it present, through any later
  BEGIN / COMMIT, whether or not a transaction was left open.
-/
import YowsupVerif.Lemmas.Store
namespace Yow.Store

theorem lt_of_lookup_isSome (ts : List Table) (t k : Nat) (h : (lookup ts t k).isSome = true) :
    t < ts.length := by
  by_cases ht : t < ts.length
  · exact ht
  · have hn : tbl ts t = [] := by
      simp [tbl, List.getD, List.getElem?_eq_none (Nat.le_of_not_lt ht)]
    simp [lookup, hn] at h

theorem set_spares (ts : List Table) (t t' k : Nat) (x : Table)
    (hp : (lookup ts t k).isSome = true) (hx : t' = t → (lk x k).isSome = true) :
    (lookup (ts.set t' x) t k).isSome = true := by
  by_cases h : t' = t
  · subst h
    rw [lookup_set _ _ _ (lt_of_lookup_isSome _ _ _ hp), if_pos rfl]
    exact hx rfl
  · rw [lookup_eq, tbl_set_ne _ _ _ _ (Ne.symm h), ← lookup_eq]
    exact hp

theorem lk_append_isSome (tb l : Table) (k : Nat) (h : (lk tb k).isSome = true) :
    (lk (tb ++ l) k).isSome = true := by
  simp only [lk, Option.isSome_map, List.find?_append] at h ⊢
  cases hf : List.find? (fun r => r.key == k) tb with
  | none => rw [hf] at h; simp at h
  | some r => simp

theorem applyDml_spares (args : List (Nat × Nat)) (t k : Nat) (s : Sk) (ts ts' : List Table)
    (he : applyDml s args ts = some ts') (hs : spares args t k s = true)
    (hp : (lookup ts t k).isSome = true) :
    (lookup ts' t k).isSome = true := by
  cases s with
  | «begin» => simp only [applyDml, Option.some.injEq] at he; subst he; exact hp
  | commit => simp only [applyDml, Option.some.injEq] at he; subst he; exact hp
  | del t' a =>
    simp only [applyDml, Option.some.injEq] at he
    subst he
    apply set_spares _ _ _ _ _ hp
    intro h
    subst h
    have hk : k ≠ (args.getD a (0, 0)).1 := by
      intro hk
      subst hk
      simp [spares] at hs
    rw [lk_filter_ne _ _ _ hk, ← lookup_eq]
    exact hp
  | ins t' a =>
    simp only [applyDml] at he
    split at he
    · simp at he
    · simp only [Option.some.injEq] at he
      subst he
      apply set_spares _ _ _ _ _ hp
      intro h
      subst h
      exact lk_append_isSome _ _ _ (by rw [← lookup_eq]; exact hp)
  | insRepl t' a =>
    simp only [applyDml, Option.some.injEq] at he
    subst he
    apply set_spares _ _ _ _ _ hp
    intro h
    subst h
    by_cases hk : k = (args.getD a (0, 0)).1
    · rw [hk, lk_append_self _ _ _ _ (lk_filter_self _ _)]
      rfl
    · rw [lk_append_ne _ _ _ _ _ hk, lk_filter_ne _ _ _ hk, ← lookup_eq]
      exact hp
  | updFlag t' a =>
    simp only [applyDml, Option.some.injEq] at he
    subst he
    apply set_spares _ _ _ _ _ hp
    intro h
    subst h
    have := lk_map_setFlag (tbl ts t') (args.getD a (0, 0)).1 k
    unfold setFlag at this
    rw [this]
    rw [lookup_eq] at hp
    split <;> simp [hp]
  | updVal t' a =>
    simp only [applyDml, Option.some.injEq] at he
    subst he
    apply set_spares _ _ _ _ _ hp
    intro h
    subst h
    have := lk_map_setVal (tbl ts t') (args.getD a (0, 0)).1 (args.getD a (0, 0)).2 k
    unfold setVal at this
    rw [this]
    rw [lookup_eq] at hp
    split <;> simp [hp]

theorem exec_dml_spares (args : List (Nat × Nat)) (t k : Nat) (s : Sk) (hs : spares args t k s = true)
    (db db' : Db)
    (he : (if db.inTx then (applyDml s args db.work).map (fun w => { db with work := w })
      else (applyDml s args db.committed).map (fun c => { db with committed := c, work := c })) = some db')
    (hp : (lookup (view db) t k).isSome = true) :
    (lookup (view db') t k).isSome = true := by
  cases hin : db.inTx with
  | true =>
    simp only [hin, if_true, Option.map_eq_some_iff] at he
    obtain ⟨w, hw, rfl⟩ := he
    simp only [view, hin, if_true] at hp ⊢
    exact applyDml_spares args t k s _ _ hw hs hp
  | false =>
    simp only [hin, Bool.false_eq_true, if_false, Option.map_eq_some_iff] at he
    obtain ⟨w, hw, rfl⟩ := he
    simp only [view, hin, Bool.false_eq_true, if_false] at hp ⊢
    exact applyDml_spares args t k s _ _ hw hs hp


/-- an operation (one transaction) whose statement number j fails and that rolls back: the connection is as after a reopen of the
    database it started from — nothing of the refused operation is left, pending or committed -/
theorem runFault_rolled_back (sk : List Sk) (h : SingleTx sk = true) (args : List (Nat × Nat)) (db : Db)
    (hdb : db.inTx = false) (j : Nat) (hj : j < sk.length) :
    runFault true args db sk j = crash db := by
  have hne : sk.take j ≠ sk := by
    intro h'
    have := congrArg List.length h'
    simp only [List.length_take] at this
    omega
  have hc := crash_singleTx_proper sk h args db hdb (sk.take j) (List.take_prefix j sk) hne
  have hc' : (run args db (sk.take j)).committed = db.committed := hc
  simp only [runFault, if_true, crash, hc']

/-- one statement that spares the record keeps it present in the connection's view -/
theorem exec_spares (args : List (Nat × Nat)) (t k : Nat) (s : Sk) (hs : spares args t k s = true) (db db' : Db)
    (he : exec args db s = some db')
    (hp : (lookup (view db) t k).isSome = true) :
    (lookup (view db') t k).isSome = true := by
  cases s with
  | «begin» =>
    simp only [exec, Option.some.injEq] at he
    subst he
    cases hin : db.inTx <;> simp [view, hin] at hp ⊢ <;> exact hp
  | commit =>
    simp only [exec, Option.some.injEq] at he
    subst he
    cases hin : db.inTx <;> simp [view, hin] at hp ⊢ <;> exact hp
  | del t' a => exact exec_dml_spares args t k _ hs db db' he hp
  | ins t' a => exact exec_dml_spares args t k _ hs db db' he hp
  | insRepl t' a => exact exec_dml_spares args t k _ hs db db' he hp
  | updFlag t' a => exact exec_dml_spares args t k _ hs db db' he hp
  | updVal t' a => exact exec_dml_spares args t k _ hs db db' he hp

theorem run_spares (args : List (Nat × Nat)) (t k : Nat) (l : List Sk) (hs : ∀ s ∈ l, spares args t k s = true) (db : Db)
    (hp : (lookup (view db) t k).isSome = true) :
    (lookup (view (run args db l)) t k).isSome = true := by
  induction l generalizing db with
  | nil => exact hp
  | cons s rest ih =>
    simp only [run]
    cases he : exec args db s with
    | none => exact hp
    | some db' =>
      exact ih (fun s' hs' => hs s' (List.mem_cons_of_mem _ hs')) db'
        (exec_spares args t k s (hs s List.mem_cons_self) db db' he hp)

/-- whatever sequence of operations runs on the connection — in a transaction left open by a refused operation or not, committed by a later
    operation or not — a record that every statement spares is still there -/
theorem runOps_spares (t k : Nat) (ops : List (List (Nat × Nat) × List Sk))
    (hs : ∀ o ∈ ops, ∀ s ∈ o.2, spares o.1 t k s = true) (db : Db)
    (hp : (lookup (view db) t k).isSome = true) :
    (lookup (view (runOps db ops)) t k).isSome = true := by
  induction ops generalizing db with
  | nil => exact hp
  | cons o rest ih =>
    simp only [runOps]
    exact ih (fun o' ho' => hs o' (List.mem_cons_of_mem _ ho')) _
      (run_spares o.1 t k o.2 (hs o List.mem_cons_self) db hp)

/-- ... and it is in the database file once the connection is not inside a transaction (after the last COMMIT) -/
theorem runOps_spares_committed (t k : Nat) (ops : List (List (Nat × Nat) × List Sk))
    (hs : ∀ o ∈ ops, ∀ s ∈ o.2, spares o.1 t k s = true) (db : Db)
    (hp : (lookup (view db) t k).isSome = true)
    (hout : (runOps db ops).inTx = false) :
    (lookup (runOps db ops).committed t k).isSome = true := by
  have h := runOps_spares t k ops hs db hp
  simpa only [view, hout, Bool.false_eq_true, if_false] using h

end Yow.Store
