/-
  Exactly-once with server faults, part 14: the sending client's steps keep decryptability - once a continuation was
  consumed (or a message submitted), the message goes out to a contact, to a group, again to one participant, or a new
  continuation is registered.
-/
import YowsupVerif.Lemmas.E2ETokFIqBase
namespace Yow.E2E

/-- the sending client after it consumed `cons` (an answer to a query, or nothing) -/
structure CSrc (groups : List (Nat × List Acct)) (V : View) (x : Acct) (cons rest : List Stanza) (c1 : Client) : Prop where
  hq : V.outb x = cons ++ rest
  cons_plain : ∀ st ∈ cons, ∀ id peer part im encs pl, st ≠ .msg id peer part im encs pl
  kmono : ∀ j σ, known (V.cl x) j σ → known c1 j σ
  smono : ∀ j, (lookup (V.cl x).sessions j).isSome = true → (lookup c1.sessions j).isSome = true
  d2 : ∀ j se, lookup c1.sessions j = some se → se.pendingPre = false → lookup (V.cl x).sessions j = some se
  peerSK : c1.peerSK = (V.cl x).peerSK
  ownSK : c1.ownSK = (V.cl x).ownSK
  pend : c1.pendingIn = (V.cl x).pendingIn
  iq : ∀ e ∈ c1.iqReg, e ∈ (V.cl x).iqReg
  nextIq : c1.nextIq = (V.cl x).nextIq
  iq_lt : ∀ e ∈ (V.cl x).iqReg, e.1 < (V.cl x).nextIq
  link : ∀ st ∈ V.inb x ++ V.outb x, ∀ i, stanzaIq st = some i → i < (V.cl x).nextIq

section
variable {groups : List (Nat × List Acct)} {V : View} {x : Acct} {cons rest : List Stanza} {c1 : Client}

theorem CSrc.cmono (hs : CSrc groups V x cons rest c1) {c' : Client} (h1 : c'.sessions = c1.sessions)
    (h2 : ∀ g gen, lookup c1.ownSK g = some gen → lookup c'.ownSK g = some gen) : CMonoC (V.cl x) c' :=
  ⟨fun j σ hk => known_of_sessions h1 (hs.kmono j σ hk), fun g gen hg => h2 g gen (by rw [hs.ownSK]; exact hg)⟩

/-- the common part of the conditions of a sending step that registers no continuation -/
theorem CSrc.dstep (h : DV groups V) (hs : CSrc groups V x cons rest c1) {c' : Client} {st : Stanza} {k : Nat}
    (h1 : c'.sessions = c1.sessions) (h2 : ∀ g gen, lookup c1.ownSK g = some gen → lookup c'.ownSK g = some gen)
    (h3 : c'.peerSK = c1.peerSK) (h4 : c'.pendingIn = c1.pendingIn) (h5 : c'.iqReg = c1.iqReg)
    (hst : UpDec ((V.popOut x rest).cstep x c' [st] k) x st) (hiq : stanzaIq st = none) :
    DV groups ((V.popOut x rest).cstep x c' [st] k) := by
  refine h.client_step {
    hq := hs.hq
    mono := hs.cmono h1 h2
    d2 := fun j se hl hp => Or.inl (hs.d2 j se (h1 ▸ hl) hp)
    g2 := fun g z gen hl => Or.inl (by rw [h3, hs.peerSK] at hl; exact hl)
    p0 := by
      refine ⟨by rw [h4, hs.pend]; exact (h.p0 x).1, ?_⟩
      intro e he p q
      rw [h5] at he
      exact (h.p0 x).2 e (hs.iq e he) p q
    outOK := by
      intro st' hst'
      rw [List.mem_singleton] at hst'; subst hst'
      exact hst
    c1 := by
      intro e he n hn
      rw [h5] at he
      obtain ⟨g, g1, g2, g3⟩ := h.c1 x e (hs.iq e he) n hn
      refine ⟨g, g1, ?_, ?_⟩
      · intro st' hst' hiq'
        rcases List.mem_append.mp hst' with h6 | h6
        · exact g2 st' h6 hiq'
        · rw [List.mem_singleton] at h6; subst h6; rw [hiq] at hiq'; cases hiq'
      · intro st' hst' hiq'
        exact g3 st' (by rw [hs.hq]; exact List.mem_append_right _ hst') hiq'
    c2 := by
      intro e he n al aq hn
      rw [h5] at he
      obtain ⟨g, g1, g2, g3⟩ := h.c2 x e (hs.iq e he) n al aq hn
      refine ⟨g, g1, g2, ?_⟩
      intro j hj
      rcases g3 j hj with h6 | h6
      · left; rw [h1]; exact hs.smono j h6
      · exact Or.inr h6 }

/-- a pairwise ciphertext made now with the session `se` for `y` -/
theorem pairOK_new (h : DV groups V) (hs : CSrc groups V x cons rest c1) {c' : Client} {out : List Stanza} {k : Nat}
    (h1 : c'.sessions = c1.sessions) (h2 : ∀ g gen, lookup c1.ownSK g = some gen → lookup c'.ownSK g = some gen)
    {y : Acct} {se : Sess} {ct : Ct} (hse : lookup c1.sessions y = some se) (hsess : ct.sess = se.cur)
    (hmsg : ct.kind = .msg → se.pendingPre = false) : PairOK ((V.popOut x rest).cstep x c' out k) x y ct := by
  intro _
  have hclx : ((V.popOut x rest).cstep x c' out k).cl x = c' := by simp [View.cstep]
  constructor
  · rw [hclx, hsess]
    exact known_of_sessions h1 (known_cur hse)
  · intro hm
    have hold := h.d2 x y se (hs.d2 y se hse (hmsg hm)) (hmsg hm)
    rw [hsess]
    by_cases hy : y = x
    · subst hy
      rw [hclx]
      exact (hs.cmono h1 h2).1 _ _ hold
    · have : ((V.popOut x rest).cstep x c' out k).cl y = V.cl y := by simp [View.cstep, View.popOut, upd_ne _ _ hy]
      rw [this]; exact hold

/-- the message goes to a contact -/
theorem CSrc.toContact (h : DV groups V) (hg : GV groups V) (hs : CSrc groups V x cons rest c1) {n : Node} {b : Acct}
    (hnd : n.dest = .user b) {se : Sess} (hse : lookup c1.sessions b = some se) (k : Nat) {ct : Ct}
    (hsess : ct.sess = se.cur) (hmsg : ct.kind = .msg → se.pendingPre = false) (hk : ct.kind ≠ .skmsg)
    (hpl : ct.plain = { skdm := none, content := some n.payload }) (hcor : ct.corrupt = false) :
    DV groups ((V.popOut x rest).cstep x (enqueueSent c1 n) [.msg n.id n.dest none n.payload.isMedia [(none, ct)] none] k) ∧
    GV groups ((V.popOut x rest).cstep x (enqueueSent c1 n) [.msg n.id n.dest none n.payload.isMedia [(none, ct)] none] k) := by
  constructor
  · refine hs.dstep h rfl (fun _ _ hh => hh) rfl rfl rfl ?_ rfl
    rw [hnd]
    intro e he
    have : e = (none, ct) := by simpa using he
    subst this
    refine ⟨⟨hcor, fun hk' => absurd hk' hk, ?_, ?_⟩, ?_⟩
    · intro g gen hh; rw [hpl] at hh; cases hh
    · intro _ hh; rw [hpl] at hh; cases hh
    · intro y hy
      have : y = b := hy
      subst this
      exact pairOK_new (c' := enqueueSent c1 n) h hs rfl (fun _ _ hh => hh) hse hsess hmsg
  · refine hg.client_plain hs.hq (fun st' hst' => plainDown_nomsg (hs.cons_plain st' hst')) ?_
      (fun key hk' => by show (lookup c1.peerSK key).isSome = true; rw [hs.peerSK]; exact hk')
      (fun g hg' => by have : (lookup c1.ownSK g).isSome = true := hg'; rw [hs.ownSK] at this; exact this)
    intro st' hst'
    rw [List.mem_singleton] at hst'; subst hst'
    rw [hnd]
    exact plainUpK_user

/-- the message goes to one participant of a group again -/
theorem CSrc.toRetry (h : DV groups V) (hg : GV groups V) (hs : CSrc groups V x cons rest c1) {n : Node} {g : Nat} {w : Acct}
    (hnd : n.dest = .group g) {se : Sess} (hse : lookup c1.sessions w = some se) (k : Nat) {ct : Ct} {sk : List (Nat × Nat)} {gen : Nat}
    (hsess : ct.sess = se.cur) (hmsg : ct.kind = .msg → se.pendingPre = false) (hk : ct.kind ≠ .skmsg)
    (hpl : ct.plain = { skdm := some (g, gen), content := some n.payload }) (hcor : ct.corrupt = false)
    (hsk : lookup sk g = some gen) (hmono : ∀ g' gen', lookup c1.ownSK g' = some gen' → lookup sk g' = some gen')
    (hdom : ∀ g', (lookup sk g').isSome = true → (lookup c1.ownSK g').isSome = true) :
    DV groups ((V.popOut x rest).cstep x { c1 with ownSK := sk } [.msg n.id n.dest (some w) n.payload.isMedia [(none, ct)] none] k) ∧
    GV groups ((V.popOut x rest).cstep x { c1 with ownSK := sk } [.msg n.id n.dest (some w) n.payload.isMedia [(none, ct)] none] k) := by
  constructor
  · refine hs.dstep h rfl hmono rfl rfl rfl ?_ rfl
    rw [hnd]
    intro e he
    have : e = (none, ct) := by simpa using he
    subst this
    refine ⟨⟨hcor, fun hk' => absurd hk' hk, ?_, ?_⟩, ?_⟩
    · intro g' gen' hh
      rw [hpl] at hh
      cases hh
      refine ⟨rfl, ?_⟩
      show lookup (((V.popOut x rest).cstep x { c1 with ownSK := sk } _ k).cl x).ownSK g = some gen
      simp only [View.cstep_cl_same]
      exact hsk
    · intro _ hh; rw [hpl] at hh; cases hh
    · intro y hy
      have : y = w := hy
      subst this
      exact pairOK_new (c' := { c1 with ownSK := sk }) h hs rfl hmono hse hsess hmsg
  · refine hg.client_plain hs.hq (fun st' hst' => plainDown_nomsg (hs.cons_plain st' hst')) ?_
      (fun key hk' => by show (lookup c1.peerSK key).isSome = true; rw [hs.peerSK]; exact hk')
      (fun g' hg' => by have := hdom g' hg'; rw [hs.ownSK] at this; exact this)
    intro st' hst'
    rw [List.mem_singleton] at hst'; subst hst'
    rw [hnd]
    exact plainUpK_some

/-- a new continuation is registered with a query -/
theorem CSrc.toCont (h : DV groups V) (hg : GV groups V) (hs : CSrc groups V x cons rest c1) (k1 : Cont) (st : Stanza) (k : Nat)
    (hst : ∀ id peer part im encs pl, st ≠ .msg id peer part im encs pl) (hiq : stanzaIq st = some c1.nextIq)
    (hc1 : ∀ n', k1 = Cont.groupInfo n' → ∃ g, n'.dest = .group g ∧ st = .getGroup c1.nextIq g)
    (hc2 : ∀ n' al aq, k1 = Cont.keysForGroup n' al aq → ∃ g, n'.dest = .group g ∧
      al = ((lookup groups g).getD []).filter (· != x) ∧ ∀ j ∈ al, (lookup c1.sessions j).isSome = true ∨ j ∈ aq)
    (hp : ∀ p q, k1 ≠ Cont.keysForPending p q) :
    DV groups ((V.popOut x rest).cstep x { c1 with nextIq := c1.nextIq + 1, iqReg := c1.iqReg ++ [(c1.nextIq, k1)] } [st] k) ∧
    GV groups ((V.popOut x rest).cstep x { c1 with nextIq := c1.nextIq + 1, iqReg := c1.iqReg ++ [(c1.nextIq, k1)] } [st] k) := by
  constructor
  · refine h.client_step {
      hq := hs.hq
      mono := hs.cmono rfl (fun _ _ hh => hh)
      d2 := fun j se hl hp' => Or.inl (hs.d2 j se hl hp')
      g2 := fun g z gen hl => Or.inl (by rw [← hs.peerSK]; exact hl)
      p0 := by
        refine ⟨by show c1.pendingIn = []; rw [hs.pend]; exact (h.p0 x).1, ?_⟩
        intro e he p q
        have he : e ∈ c1.iqReg ++ [(c1.nextIq, k1)] := he
        rcases List.mem_append.mp he with h1 | h1
        · exact (h.p0 x).2 e (hs.iq e h1) p q
        · rw [List.mem_singleton] at h1; subst h1; exact hp p q
      outOK := by
        intro st' hst'
        rw [List.mem_singleton] at hst'; subst hst'
        cases st' with
        | msg id peer part im encs pl => exact absurd rfl (hst id peer part im encs pl)
        | _ => trivial
      c1 := by
        intro e he n' hn'
        have he : e ∈ c1.iqReg ++ [(c1.nextIq, k1)] := he
        rcases List.mem_append.mp he with h1 | h1
        · obtain ⟨g, g1, g2, g3⟩ := h.c1 x e (hs.iq e h1) n' hn'
          refine ⟨g, g1, ?_, ?_⟩
          · intro st' hst' hiq'
            rcases List.mem_append.mp hst' with h6 | h6
            · exact g2 st' h6 hiq'
            · rw [List.mem_singleton] at h6; subst h6
              rw [hiq] at hiq'
              have := hs.iq_lt e (hs.iq e h1)
              have : c1.nextIq = e.1 := Option.some.inj hiq'
              rw [hs.nextIq] at this
              omega
          · intro st' hst' hiq'
            exact g3 st' (by rw [hs.hq]; exact List.mem_append_right _ hst') hiq'
        · rw [List.mem_singleton] at h1; subst h1
          obtain ⟨g, g1, g2⟩ := hc1 n' hn'
          refine ⟨g, g1, ?_, ?_⟩
          · intro st' hst' hiq'
            rcases List.mem_append.mp hst' with h6 | h6
            · have := hs.link st' (List.mem_append_left _ h6) _ hiq'
              simp only at this
              rw [hs.nextIq] at this
              omega
            · rw [List.mem_singleton] at h6; subst h6; exact g2
          · intro st' hst' hiq'
            have := hs.link st' (List.mem_append_right _ (by rw [hs.hq]; exact List.mem_append_right _ hst')) _ hiq'
            simp only at this
            rw [hs.nextIq] at this
            omega
      c2 := by
        intro e he n' al aq hn'
        have he : e ∈ c1.iqReg ++ [(c1.nextIq, k1)] := he
        rcases List.mem_append.mp he with h1 | h1
        · obtain ⟨g, g1, g2, g3⟩ := h.c2 x e (hs.iq e h1) n' al aq hn'
          refine ⟨g, g1, g2, ?_⟩
          intro j hj
          rcases g3 j hj with h6 | h6
          · exact Or.inl (hs.smono j h6)
          · exact Or.inr h6
        · rw [List.mem_singleton] at h1; subst h1
          exact hc2 n' al aq hn' }
  · refine hg.client_plain hs.hq (fun st' hst' => plainDown_nomsg (hs.cons_plain st' hst')) ?_
      (fun key hk' => by show (lookup c1.peerSK key).isSome = true; rw [hs.peerSK]; exact hk')
      (fun g' hg' => by have : (lookup c1.ownSK g').isSome = true := hg'; rw [hs.ownSK] at this; exact this)
    intro st' hst'
    rw [List.mem_singleton] at hst'; subst hst'
    exact plainUpK_nomsg hst

/-- the message goes to a group: sender-key distributions for `l`'s addressees, then the sender-key ciphertext -/
theorem CSrc.toGroup (h : DV groups V) (hg : GV groups V) (hs : CSrc groups V x cons rest c1) {n : Node} {g : Nat}
    (hnd : n.dest = .group g) (k : Nat) {sk : List (Nat × Nat)} {gen : Nat} {l : List (Option Acct × Ct)} {kct : Ct}
    (hups : ∀ st' ∈ V.inb x, UpShape st')
    (hsk : lookup sk g = some gen) (hmono : ∀ g' gen', lookup c1.ownSK g' = some gen' → lookup sk g' = some gen')
    (hdom : ∀ g', (lookup sk g').isSome = true → (lookup c1.ownSK g').isSome = true ∨ g' = g)
    (hk1 : kct.kind = .skmsg) (hk2 : kct.plain = { skdm := none, content := some n.payload }) (hk3 : kct.corrupt = false)
    (hk4 : kct.sess = gen)
    (hl : ∀ e ∈ l, ∃ j se, e.1 = some j ∧ lookup c1.sessions j = some se ∧ e.2.sess = se.cur ∧
      (e.2.kind = .msg → se.pendingPre = false) ∧ e.2.kind ≠ .skmsg ∧ e.2.plain = { skdm := some (g, gen), content := none } ∧
      e.2.corrupt = false)
    (hcov : (lookup (V.cl x).ownSK g).isSome = false → ∀ y, y ∈ (lookup groups g).getD [] → y ≠ x → ∃ e ∈ l, e.1 = some y) :
    DV groups ((V.popOut x rest).cstep x (enqueueSent { c1 with ownSK := sk } n)
      [.msg n.id n.dest none n.payload.isMedia (l ++ [(none, kct)]) none] k) ∧
    GV groups ((V.popOut x rest).cstep x (enqueueSent { c1 with ownSK := sk } n)
      [.msg n.id n.dest none n.payload.isMedia (l ++ [(none, kct)]) none] k) := by
  have hclx : ∀ out, (((V.popOut x rest).cstep x (enqueueSent { c1 with ownSK := sk } n) out k).cl x).ownSK = sk := by
    intro out; simp only [View.cstep_cl_same]; rfl
  constructor
  · refine hs.dstep (c' := enqueueSent { c1 with ownSK := sk } n) h rfl hmono rfl rfl rfl ?_ rfl
    rw [hnd]
    intro e he
    rcases List.mem_append.mp he with h1 | h1
    · obtain ⟨j, se, e1, e2, e3, e4, e5, e6, e7⟩ := hl e h1
      refine ⟨⟨e7, fun hk' => absurd hk' e5, ?_, ?_⟩, ?_⟩
      · intro g' gen' hh
        rw [e6] at hh
        cases hh
        exact ⟨rfl, by rw [hclx]; exact hsk⟩
      · intro _ _; rw [e6]; rfl
      · intro y hy
        have hy' : e.1 = some y := hy
        rw [e1] at hy'
        cases hy'
        exact pairOK_new (c' := enqueueSent { c1 with ownSK := sk } n) h hs rfl hmono e2 e3 e4
    · rw [List.mem_singleton] at h1; subst h1
      refine ⟨⟨hk3, ?_, ?_, fun hk' => absurd hk1 hk'⟩, ?_⟩
      · intro _; exact ⟨g, rfl, by rw [hclx, hk4]; exact hsk⟩
      · intro g' gen' hh; rw [hk2] at hh; cases hh
      · intro y hy
        have hy' : (none : Option Acct) = some y := hy
        cases hy'
  · -- the stanza, for the scans
    have hcl_st : ∀ g' y, cls (isDistUp g' y) (needsUp g' y) (.msg n.id n.dest none n.payload.isMedia (l ++ [(none, kct)]) none)
        = if g' = g then (if (l ++ [((none : Option Acct), kct)]).any (fun e => e.1 == some y) then some true else some false) else none := by
      intro g' y
      rw [hnd]
      unfold cls isDistUp needsUp
      by_cases hgg : g' = g
      · subst hgg
        simp only [beq_self_eq_true, Bool.true_and, if_true]
        cases ha : (l ++ [((none : Option Acct), kct)]).any (fun e => e.1 == some y) with
        | true => simp
        | false =>
          have : (l ++ [((none : Option Acct), kct)]).all (fun e => e.1 != some y) = true := by
            have := congrArg (fun b => !b) ha
            simpa [List.not_any_eq_all_not] using this
          simp [this]
      · have : (g == g') = false := by simpa using fun e => hgg e.symm
        simp [this, hgg]
    cases hown : (lookup (V.cl x).ownSK g).isSome with
    | true =>
      refine hg.later_send hs.hq (fun st' hst' => plainDown_nomsg (hs.cons_plain st' hst'))
        (fun key hk' => by show (lookup c1.peerSK key).isSome = true; rw [hs.peerSK]; exact hk') ?_
      intro g' hg'
      have hg'' : (lookup sk g').isSome = true := hg'
      rcases hdom g' hg'' with h1 | h1
      · rw [hs.ownSK] at h1; exact h1
      · subst h1; exact hown
    | false =>
      -- first the answer is taken from the queue, then the first send
      have hg1 : GV groups ((V.popOut x rest).cstep x (V.cl x) [] V.nextCtr) :=
        hg.client_plain hs.hq (fun st' hst' => plainDown_nomsg (hs.cons_plain st' hst')) (fun st' hst' => by cases hst')
          (fun _ hk' => hk') (fun _ hg' => hg')
      have hg2 := GV.first_send (x := x) (c' := enqueueSent { c1 with ownSK := sk } n)
        (st := .msg n.id n.dest none n.payload.isMedia (l ++ [(none, kct)]) none) (k := k) (g0 := g) hg1
        (by show c1.peerSK = _; rw [hs.peerSK]; simp)
        (by
          intro g' hg'
          have hg'' : (lookup sk g').isSome = true := hg'
          rcases hdom g' hg'' with h1 | h1
          · left; rw [hs.ownSK] at h1; simpa using h1
          · exact Or.inr h1)
        (by
          intro y hy hyx
          rw [hcl_st, if_pos rfl]
          obtain ⟨e, he, hey⟩ := hcov hown y hy hyx
          have : (l ++ [((none : Option Acct), kct)]).any (fun e => e.1 == some y) = true := by
            rw [List.any_eq_true]
            exact ⟨e, List.mem_append_left _ he, by simp [hey]⟩
          rw [this]; rfl)
        (by intro g' y hgg; rw [hcl_st, if_neg hgg])
        (by simpa using hown)
        (by
          intro st' hst' y
          have hst'' : st' ∈ V.inb x := by simpa [View.cstep, View.popOut] using hst'
          have hsh := hups st' hst''
          have hud := h.up x st' hst''
          unfold cls isDistUp needsUp
          cases st' with
          | msg id dest part im encs pl =>
            cases dest with
            | user b => rfl
            | group g' =>
              cases part with
              | some p => rfl
              | none =>
                by_cases hgg : g' = g
                · subst hgg
                  exfalso
                  have hsB : ShapeB (fun t => t.isSome = true) encs := hsh
                  obtain ⟨l', k', rfl, hk', _, _⟩ := hsB
                  obtain ⟨g'', e1, e2⟩ := (hud (none, k') (by simp)).1.sk hk'
                  cases e1
                  rw [e2] at hown
                  cases hown
                · have : (g' == g) = false := by simpa using hgg
                  simp [this]
          | _ => rfl)
        (by
          intro y st' hst'
          have hst'' : st' ∈ V.outb y := by
            have : st' ∈ upd V.outb x rest y := hst'
            rw [upd_apply] at this
            split at this
            · next e => subst e; rw [hs.hq]; exact List.mem_append_right _ this
            · exact this
          have hdd := h.down y st' hst''
          unfold cls isDistDown needsDown
          cases st' with
          | msg id peer part im encs pl =>
            cases peer with
            | user b => rfl
            | group g' =>
              cases part with
              | none => rfl
              | some a' =>
                by_cases hga : g' = g ∧ a' = x
                · obtain ⟨rfl, rfl⟩ := hga
                  have hnosk : encs.any isSk = false := by
                    rw [Bool.eq_false_iff]
                    intro hany
                    obtain ⟨e, he, hsk'⟩ := List.any_eq_true.mp hany
                    have hk' : e.2.kind = .skmsg := by simpa [isSk] using hsk'
                    obtain ⟨g'', e1, e2⟩ := (hdd.2 e he).1.sk hk'
                    cases e1
                    have e2' : lookup (V.cl a').ownSK g' = some e.2.sess := e2
                    rw [e2'] at hown
                    cases hown
                  simp [hnosk]
                · have : (g' == g && a' == x) = false := by
                    rw [Bool.eq_false_iff]
                    intro hh
                    simp only [Bool.and_eq_true, beq_iff_eq] at hh
                    exact hga hh
                  simp [this]
          | _ => rfl)
      simpa using hg2

end

end Yow.E2E
